/-
  `validate`, the multi-file branch, part 1: one entry of `info['files']` (`checkFile`), the
  enumerating loop and the sum of the lengths.
-/
import Torf.Lemmas.ValidateSingle
namespace Torf.Validate
open Torf Torf.Export

/-! ### `for i, x in enumerate(xs)` -/

theorem forEnum_ok {f : Nat → PyVal → Except ErrKind Unit} :
    ∀ {l : List PyVal} {i : Nat}, forEnum f i l = .ok () →
      ∀ j x, l[j]? = some x → f (i + j) x = .ok ()
  | [], _, _, j, x, hx => by simp at hx
  | a :: t, i, h, j, x, hx => by
    simp only [forEnum] at h
    obtain ⟨_, h1, h2⟩ := bind_ok h
    cases j with
    | zero => simp only [List.getElem?_cons_zero, Option.some.injEq] at hx; subst hx; exact h1
    | succ j =>
      simp only [List.getElem?_cons_succ] at hx
      have := forEnum_ok h2 j x hx
      rwa [show i + 1 + j = i + (j + 1) by omega] at this

theorem forEnum_err {f : Nat → PyVal → Except ErrKind Unit} {e : ErrKind} :
    ∀ {l : List PyVal} {i : Nat}, forEnum f i l = .error e →
      ∃ j x, l[j]? = some x ∧ f (i + j) x = .error e
  | [], _, h => by simp [forEnum, pure, Except.pure] at h
  | a :: t, i, h => by
    simp only [forEnum] at h
    rcases bind_err h with h1 | ⟨_, _, h2⟩
    · exact ⟨0, a, by simp, h1⟩
    · obtain ⟨j, x, hx, hf⟩ := forEnum_err h2
      exact ⟨j + 1, x, by simpa using hx, by rwa [show i + 1 + j = i + (j + 1) by omega] at hf⟩

/-- for a sequence, the `i`-th element a `for` loop sees is `obj[i]` (not so for a mapping:
    finding D07f) -/
theorem getItem_of_iter {fl : PyVal} {xs : List PyVal} (hd : fl.isDict = false)
    (hi : pyIter fl = some xs) {j : Nat} {x : PyVal} (hx : xs[j]? = some x) :
    getItem fl (.i j) = .val x := by
  cases fl with
  | dict _ => simp [PyVal.isDict] at hd
  | list l =>
    simp only [pyIter, Option.some.injEq] at hi; subst hi
    simp [Validate.getItem, hx]
  | tuple l =>
    simp only [pyIter, Option.some.injEq] at hi; subst hi
    simp [Validate.getItem, hx]
  | bytes b =>
    simp only [pyIter, Option.some.injEq] at hi; subst hi
    simp only [List.getElem?_map, Option.map_eq_some_iff] at hx
    obtain ⟨y, hy, rfl⟩ := hx
    simp [Validate.getItem, hy]
  | str s =>
    simp only [pyIter, Option.some.injEq] at hi; subst hi
    simp only [List.getElem?_map, Option.map_eq_some_iff] at hx
    obtain ⟨y, hy, rfl⟩ := hx
    simp [Validate.getItem, hy]
  | none => simp [pyIter] at hi
  | bool _ => simp [pyIter] at hi
  | int _ => simp [pyIter] at hi
  | float _ => simp [pyIter] at hi
  | datetime _ => simp [pyIter] at hi
  | other _ => simp [pyIter] at hi

/-! ### one file entry -/

/-- what `checkFile` establishes about an entry of `info['files']` -/
def EntryFacts (f : PyVal) : Prop :=
  ∃ e l len p comps, f = .dict e ∧ PyVal.lookupStr "length" e = some l ∧ isIntOrFloat l = true ∧
    isFileLength l = true ∧ numVal? l = some len ∧ 0 ≤ len ∧
    PyVal.lookupStr "path" e = some p ∧ p.isIterable = true ∧ pyIter p = some comps ∧
    ∀ j, j < comps.length → ∃ v, getItem p (.i j) = .val v ∧ isStrOrBytes v = true

variable (urlOk : Bytes → Bool)

theorem assertType_files {items info : Items} {fl : PyVal}
    (hinfo : PyVal.lookupStr "info" items = some (.dict info))
    (hfl : PyVal.lookupStr "files" info = some fl) (i : Nat) (r : Rule) :
    assertType (.dict items) [.s "info", .s "files", .i i] r = assertFinal fl (.i i) r := by
  rw [assertType_step (getItem_dict_s_some hinfo), assertType_step (getItem_dict_s_some hfl),
    assertType_single]

theorem assertType_entry {items info e : Items} {fl : PyVal}
    (hinfo : PyVal.lookupStr "info" items = some (.dict info))
    (hfl : PyVal.lookupStr "files" info = some fl) {i : Nat} (hget : getItem fl (.i i) = .val (.dict e))
    (x : String) (r : Rule) :
    assertType (.dict items) [.s "info", .s "files", .i i, .s x] r = assertFinal (.dict e) (.s x) r := by
  rw [assertType_step (getItem_dict_s_some hinfo), assertType_step (getItem_dict_s_some hfl),
    assertType_step hget, assertType_single]

theorem assertType_comp {items info e : Items} {fl p : PyVal}
    (hinfo : PyVal.lookupStr "info" items = some (.dict info))
    (hfl : PyVal.lookupStr "files" info = some fl) {i : Nat} (hget : getItem fl (.i i) = .val (.dict e))
    (hp : PyVal.lookupStr "path" e = some p) (j : Nat) (r : Rule) :
    assertType (.dict items) [.s "info", .s "files", .i i, .s "path", .i j] r = assertFinal p (.i j) r := by
  rw [assertType_step (getItem_dict_s_some hinfo), assertType_step (getItem_dict_s_some hfl),
    assertType_step hget, assertType_step (getItem_dict_s_some hp), assertType_single]

/-- even when `files` is a mapping, a successful `checkFile` needs `files[i]` to exist and the
    loop variable to be subscriptable with `'path'` -/
theorem checkFile_ok_weak {items info : Items} {fl : PyVal}
    (hinfo : PyVal.lookupStr "info" items = some (.dict info))
    (hfl : PyVal.lookupStr "files" info = some fl) {i : Nat} {fileinfo : PyVal}
    (h : checkFile (.dict items) i fileinfo = .ok ()) :
    (∃ f', getItem fl (.i i) = .val f') ∧ (∃ p, getItem fileinfo (.s "path") = .val p) := by
  unfold checkFile at h
  obtain ⟨_, h1, h⟩ := bind_ok h
  obtain ⟨_, _, h⟩ := bind_ok h
  obtain ⟨_, _, h⟩ := bind_ok h
  obtain ⟨_, _, h⟩ := bind_ok h
  obtain ⟨p, hp, _⟩ := bind_ok h
  rw [assertType_files hinfo hfl] at h1
  exact ⟨(assertFinal_ok h1).2 rfl, p, getE_ok_iff.mp hp⟩

theorem checkFile_cases {items info : Items} {fl : PyVal}
    (hinfo : PyVal.lookupStr "info" items = some (.dict info))
    (hfl : PyVal.lookupStr "files" info = some fl) {i : Nat} {fileinfo : PyVal}
    (hget : getItem fl (.i i) = .val fileinfo)
    (r : Except ErrKind Unit) (h : checkFile (.dict items) i fileinfo = r) :
    (r = .ok () → EntryFacts fileinfo) ∧
    (∀ e, r = .error e → e = .metainfo) := by
  subst h
  unfold checkFile
  rw [assertType_files hinfo hfl]
  cases h1 : assertFinal fl (.i i) { types := PyVal.isDict } with
  | error e1 =>
    refine ⟨fun h => absurd h (by simp [bind, Except.bind]), fun e h => ?_⟩
    simp only [bind, Except.bind, Except.error.injEq] at h
    subst h
    exact assertFinal_i_err h1
  | ok _ =>
    have hd := (assertFinal_ok h1).1 fileinfo hget
    obtain ⟨e, rfl⟩ := isDict_iff.mp (by simpa [passes] using hd)
    rw [assertType_entry hinfo hfl hget, assertType_entry hinfo hfl hget,
      assertType_entry hinfo hfl hget]
    cases h2 : assertFinal (.dict e) (.s "length") { types := isIntOrFloat, check := some isFileLength } with
    | error e2 =>
      refine ⟨fun h => absurd h (by simp [bind, Except.bind]), fun e' h => ?_⟩
      simp only [bind, Except.bind, Except.error.injEq] at h
      subst h
      exact assertFinal_dict_err h2
    | ok _ =>
      obtain ⟨l, hl, hlp⟩ := (assertFinal_dict_ok h2).2 rfl
      simp only [passes, Bool.and_eq_true] at hlp
      obtain ⟨len, hnum, hlen0⟩ := numVal_of_fileLength hlp.1 hlp.2
      cases h3 : assertFinal (.dict e) (.s "path") { types := PyVal.isIterable } with
      | error e3 =>
        refine ⟨fun h => absurd h (by simp [bind, Except.bind]), fun e' h => ?_⟩
        simp only [bind, Except.bind, Except.error.injEq] at h
        subst h
        exact assertFinal_dict_err h3
      | ok _ =>
        obtain ⟨p, hp, hpp⟩ := (assertFinal_dict_ok h3).2 rfl
        have hpi : p.isIterable = true := by simpa [passes] using hpp
        obtain ⟨comps, hcomps, hie⟩ := iterE_of_isIterable hpi
        cases h4 : assertFinal (.dict e) (.s "md5sum")
            { types := PyVal.isStr, mustExist := false, check := some isMd5sum } with
        | error e4 =>
          refine ⟨fun h => absurd h (by simp [bind, Except.bind]), fun e' h => ?_⟩
          simp only [bind, Except.bind, Except.error.injEq] at h
          subst h
          exact assertFinal_dict_err h4
        | ok _ =>
          simp only [bind, Except.bind, getE_ok (getItem_dict_s_some hp), hie]
          constructor
          · intro h
            refine ⟨e, l, len, p, comps, rfl, hl, hlp.1, hlp.2, hnum, hlen0, hp, hpi, hcomps,
              fun j hj => ?_⟩
            have := forM_ok h j (List.mem_range.mpr hj)
            rw [assertType_comp hinfo hfl hget hp] at this
            obtain ⟨v, hv⟩ := (assertFinal_ok this).2 rfl
            exact ⟨v, hv, by simpa [passes] using (assertFinal_ok this).1 v hv⟩
          · intro e' h
            obtain ⟨j, _, hj⟩ := forM_err h
            rw [assertType_comp hinfo hfl hget hp] at hj
            exact assertFinal_i_err hj

/-! ### `sum(int(fileinfo['length']) for fileinfo in info['files'])` -/

/-- the length an entry contributes -/
def fileLen : PyVal → Int
  | .dict e => (match PyVal.lookupStr "length" e with | some l => (numVal? l).getD 0 | none => 0)
  | _ => 0

theorem EntryFacts.fileLen {f : PyVal} (h : EntryFacts f) :
    0 ≤ fileLen f ∧
      ∃ e l, f = .dict e ∧ PyVal.lookupStr "length" e = some l ∧ numVal? l = some (fileLen f) := by
  obtain ⟨e, l, len, p, comps, rfl, hl, _, _, hnum, h0, _⟩ := h
  have : Validate.fileLen (.dict e) = len := by simp [Validate.fileLen, hl, hnum]
  rw [this]
  exact ⟨h0, e, l, rfl, hl, hnum⟩

theorem sumLengths_ok : ∀ (files : List PyVal) (acc : Int), (∀ x ∈ files, EntryFacts x) →
    sumLengths files acc = .ok (acc + (files.map fileLen).sum)
  | [], acc, _ => by simp [sumLengths, pure, Except.pure]
  | f :: t, acc, hf => by
    obtain ⟨_, e, l, rfl, hl, hnum⟩ := (hf f (by simp)).fileLen
    simp only [sumLengths, getE_ok (getItem_dict_s_some hl), bind, Except.bind, hnum]
    rw [sumLengths_ok t _ (fun x hx => hf x (by simp [hx]))]
    simp only [List.map_cons, List.sum_cons, Except.ok.injEq]; omega

theorem totalLen_bounds : ∀ (files : List PyVal), (∀ x ∈ files, EntryFacts x) →
    0 ≤ (files.map fileLen).sum
  | [], _ => by simp
  | f :: t, hf => by
    obtain ⟨h0, _⟩ := (hf f (by simp)).fileLen
    have h0' := totalLen_bounds t (fun x hx => hf x (by simp [hx]))
    simp only [List.map_cons, List.sum_cons]
    omega

end Torf.Validate
