/-
  A structurally recursive (kernel-evaluable) sufficient condition for `Bencode.serOk`:
  every integer and every string length is below 10^4300.  Used for the non-vacuity witnesses of
  C07 (`decNat` is defined by well-founded recursion, which `decide` cannot unfold).
-/
import Torf.Lemmas.BencodeNum
namespace Torf.Bencode

theorem decNat_length_le : ∀ (k n : Nat), n < 10 ^ (k + 1) → (decNat n).length ≤ k + 1
  | 0, n, h => by
    have : n < 10 := by simpa using h
    rw [decNat_lt n this]; simp
  | k + 1, n, h => by
    by_cases hn : n < 10
    · rw [decNat_lt n hn]; simp
    · rw [decNat_ge n hn]
      have h1 : n / 10 < 10 ^ (k + 1) := by
        rw [Nat.div_lt_iff_lt_mul (by omega)]
        rw [Nat.pow_succ] at h; exact h
      have := decNat_length_le k (n / 10) h1
      simp only [List.length_append, List.length_cons, List.length_nil]; omega

mutual
/-- every integer and every string length has at most `k + 1` digits -/
def smallS (k : Nat) : BVal → Bool
  | .int i => decide (i.natAbs < 10 ^ (k + 1))
  | .bytes b => decide (b.length < 10 ^ (k + 1))
  | .list l => smallSList k l
  | .dict kvs => smallSKvs k kvs
def smallSList (k : Nat) : List BVal → Bool
  | [] => true
  | v :: t => smallS k v && smallSList k t
def smallSKvs (k : Nat) : List (Bytes × BVal) → Bool
  | [] => true
  | (key, v) :: t => decide (key.length < 10 ^ (k + 1)) && smallS k v && smallSKvs k t
end

mutual
theorem small_of_smallS (k : Nat) : ∀ v, smallS k v = true → small (k + 1) v = true
  | .int i, h => by
    simp only [smallS, decide_eq_true_eq] at h
    simp only [small, numDigits]
    exact decide_eq_true (decNat_length_le k _ h)
  | .bytes b, h => by
    simp only [smallS, decide_eq_true_eq] at h
    simp only [small]
    exact decide_eq_true (decNat_length_le k _ h)
  | .list l, h => by
    simp only [smallS] at h; simp only [small]; exact smallList_of_smallS k l h
  | .dict kvs, h => by
    simp only [smallS] at h; simp only [small]; exact smallKvs_of_smallS k kvs h
theorem smallList_of_smallS (k : Nat) : ∀ l, smallSList k l = true → smallList (k + 1) l = true
  | [], _ => rfl
  | v :: t, h => by
    simp only [smallSList, Bool.and_eq_true] at h
    simp only [smallList, Bool.and_eq_true]
    exact ⟨small_of_smallS k v h.1, smallList_of_smallS k t h.2⟩
theorem smallKvs_of_smallS (k : Nat) : ∀ l, smallSKvs k l = true → smallKvs (k + 1) l = true
  | [], _ => rfl
  | (key, v) :: t, h => by
    simp only [smallSKvs, Bool.and_eq_true, decide_eq_true_eq] at h
    simp only [smallKvs, Bool.and_eq_true, decide_eq_true_eq]
    exact ⟨⟨decNat_length_le k _ h.1.1, small_of_smallS k v h.1.2⟩, smallKvs_of_smallS k t h.2⟩
end

/-- `flatbencode.encode` succeeds when every number has at most 4300 digits -/
theorem serOk_of_smallS (v : BVal) (h : smallS 4299 v = true) : serOk v = true :=
  small_of_smallS 4299 v h

end Torf.Bencode
