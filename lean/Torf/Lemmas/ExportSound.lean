/-
  The exports built on `validate`: what `dump` returns after a successful validation is Sound;
  `dump`, `infohash`, `magnet` raise nothing but MetainfoError outside the finding classes.
-/
import Torf.Lemmas.SoundMain
import Torf.Lemmas.SerOk
namespace Torf.Validate
open Torf Torf.Export

variable (urlOk : Bytes → Bool) (fs : FsOracle)

/-- the bytes `dump` returns are the serialisation of the encoded metainfo -/
theorem dump_ok_inv {md : Items} {bs : Bytes} (hv : validate urlOk fs md = .ok ())
    (hd : dump urlOk fs md = .ok bs) :
    ∃ u, Codec.encodeValue (.dict md) = .ok u ∧ Bencode.serOk u = true ∧ bs = Bencode.ser u := by
  unfold dump at hd
  rw [hv] at hd
  simp only [bind, Except.bind, dumpNoValidate, (validate_ok urlOk fs hv).2] at hd
  have := valueToMetainfo_ok hd
  cases he : encodeDict md with
  | error e => rw [he] at this; exact absurd this (by simp)
  | ok u =>
    rw [he] at this
    obtain ⟨hs, hb⟩ := ser_ok this
    exact ⟨u, encodeValue_ok he, hs, hb⟩

theorem dump_ok_of {md : Items} {u : BVal} (hv : validate urlOk fs md = .ok ())
    (he : Codec.encodeValue (.dict md) = .ok u) (hs : Bencode.serOk u = true) :
    dump urlOk fs md = .ok (Bencode.ser u) := by
  unfold dump
  rw [hv]
  simp only [bind, Except.bind, dumpNoValidate, (validate_ok urlOk fs hv).2, encodeDict,
    encodeValue, he, ser, hs, if_true, valueToMetainfo]

/-- C07: what `dump` returns after a successful `validate` is structurally sound -/
theorem export_sound {md : Items} {bs : Bytes} (hw : Codec.wf (.dict md) = true)
    (hv : validate urlOk fs md = .ok ()) (hd : dump urlOk fs md = .ok bs) :
    Sound.Sound urlOk bs = true := by
  obtain ⟨u, he, hs, rfl⟩ := dump_ok_inv urlOk fs hv hd
  unfold Sound.Sound
  rw [Sound.parse_ser_norm u (Codec.uniq_encodeValue _ u he hw) hs]
  exact Sound.soundVal_of_valid urlOk (validate_ok urlOk fs hv).1 hw he

theorem dump_err {md : Items} {e : ErrKind} (ho : outsideD07f fs md = true)
    (h : dump urlOk fs md = .error e) : e = .metainfo := by
  obtain ⟨h1, h2⟩ := outside_spec fs ho
  unfold dump at h
  rcases bind_err h with hv | ⟨_, _, hd⟩
  · exact validate_err urlOk fs h1 h2 hv
  · exact convertSer_err _ e hd

theorem infoBytes_err {md : Items} {e : ErrKind} (ho : outsideD07f fs md = true)
    (h : infoBytes urlOk fs md = .error e) : e = .metainfo := by
  obtain ⟨h1, h2⟩ := outside_spec fs ho
  unfold infoBytes at h
  rcases bind_err h with hv | ⟨u, hv, hd⟩
  · exact validate_err urlOk fs h1 h2 hv
  · cases u
    obtain ⟨vf, hen⟩ := validate_ok urlOk fs hv
    obtain ⟨info, _, cf, _⟩ := vf.ex
    rw [hen, getE_ok (getItem_dict_s_some cf.hinfo)] at hd
    simp only [bind, Except.bind] at hd
    exact convertSer_err info e hd

theorem infoBytes_ok_of {md info : Items} {u : BVal} (hv : validate urlOk fs md = .ok ())
    (hi : PyVal.lookupStr "info" md = some (.dict info))
    (he : Codec.encodeValue (.dict info) = .ok u) (hs : Bencode.serOk u = true) :
    infoBytes urlOk fs md = .ok (Bencode.ser u) := by
  unfold infoBytes
  rw [hv]
  simp only [bind, Except.bind, (validate_ok urlOk fs hv).2, getE_ok (getItem_dict_s_some hi),
    encodeDict, encodeValue, he, ser, hs, if_true, valueToMetainfo]

theorem magnet_err {md : Items} {e : ErrKind} (ho : outsideD07f fs md = true)
    (hm : magnetTailOk urlOk md = true) (h : magnet urlOk fs md = .error e) : e = .metainfo := by
  unfold magnet at h
  rcases bind_err h with h1 | ⟨_, _, h2⟩
  · exact infoBytes_err urlOk fs ho h1
  · simp [hm, pure, Except.pure] at h2

/-! ### Boolean classifiers and witness helpers for the property file -/

/-- OK result as a Boolean (`Except` has no decidable equality) -/
def isOk {α : Type} : Except ErrKind α → Bool | .ok _ => true | .error _ => false

theorem isOk_unit {x : Except ErrKind Unit} (h : isOk x = true) : x = .ok () := by
  cases x with
  | ok u => rfl
  | error e => simp [isOk] at h

/-- the hypotheses of `C07_export_sound` are satisfiable (`decide` evaluates `validate` and the
    converters; `flatbencode.encode` succeeds because every number has at most 4300 digits) -/
theorem witness_dumps (urlOk : Bytes → Bool) (md : Items)
    (hv : isOk (validate urlOk noPath md) = true)
    (hs : (match Codec.encodeValue (.dict md) with
           | .ok u => Bencode.smallS 4299 u | .error _ => false) = true) :
    Codec.wf (.dict md) = true → ∃ bs, validate urlOk noPath md = .ok () ∧
      dump urlOk noPath md = .ok bs ∧ Sound.Sound urlOk bs = true := by
  intro hw
  have hv' := isOk_unit hv
  cases he : Codec.encodeValue (.dict md) with
  | error e => rw [he] at hs; exact absurd hs (by simp)
  | ok u =>
    rw [he] at hs
    have hd := dump_ok_of urlOk noPath hv' he (Bencode.serOk_of_smallS u hs)
    exact ⟨_, hv', hd, export_sound urlOk noPath hw hv' hd⟩

/-- an error other than MetainfoError, as a Boolean -/
def isInternal {α : Type} : Except ErrKind α → Bool
  | .error (.internal _) => true
  | _ => false

theorem not_metainfo_of_internal {α : Type} {x : Except ErrKind α} (h : isInternal x = true) :
    ∃ e, x = .error e ∧ e ≠ .metainfo := by
  cases x with
  | ok a => simp [isInternal] at h
  | error e => cases e <;> simp [isInternal] at h ⊢

def isMetainfo {α : Type} : Except ErrKind α → Bool
  | .error .metainfo => true
  | _ => false

theorem eq_of_isMetainfo {α : Type} {x : Except ErrKind α} (h : isMetainfo x = true) :
    x = .error .metainfo := by
  cases x with
  | ok a => simp [isMetainfo] at h
  | error e => cases e <;> simp [isMetainfo] at h ⊢

end Torf.Validate
