/-
  Helper lemmas for the torrent side of C13 with arbitrary (foreign) tracker / webseed metainfo:
  what C16's getters (`Torf.Lists.getTrackers`, `urlsReplace`) return on metainfo that torf's own
  setters did not write, and the `String` ↔ `List Char` transport.
-/
import Torf.Lemmas.Lists
import Torf.Lemmas.MagnetUri
import Torf.Lemmas.MagnetHash
import Torf.Spec.MagnetTorrent

/-! ### C16's routines on arbitrary input: first occurrences, in order -/
namespace Torf.Lists

variable {isUrl : String → Bool}

/-- append to `acc` every item that is not there yet, in order -/
def dedupAcc (acc : List String) : List String → List String
  | [] => acc
  | c :: cs => if c ∈ acc then dedupAcc acc cs else dedupAcc (acc ++ [c]) cs

theorem dedupAcc_append (acc a b : List String) :
    dedupAcc acc (a ++ b) = dedupAcc (dedupAcc acc a) b := by
  induction a generalizing acc with
  | nil => rfl
  | cons c cs ih =>
    simp only [List.cons_append, dedupAcc]
    split <;> exact ih _

theorem coerceAll_eq {us cs : List String} (hr : coerceAll isUrl us = .ok cs) :
    cs = us.map spaceToPlus := by
  induction us generalizing cs with
  | nil => unfold coerceAll at hr; cases hr; rfl
  | cons u us ih =>
    unfold coerceAll at hr
    split at hr
    · cases hr
    · rename_i c hc
      split at hr
      · cases hr
      · rename_i cs' hcs
        cases hr
        rw [(coerce_ok_iff.1 hc).2, ih hcs]; rfl

theorem addAll_eq {known items cs r : List String} (hg : ∀ c ∈ cs, Good isUrl c)
    (hr : addAll isUrl known items cs = .ok r) : known ++ r = dedupAcc (known ++ items) cs := by
  induction cs generalizing items with
  | nil => unfold addAll at hr; cases hr; rfl
  | cons c cs ih =>
    have hc : coerce isUrl c = .ok c := coerce_of_good (hg c (by simp))
    have hg' : ∀ x ∈ cs, Good isUrl x := fun x hx => hg x (by simp [hx])
    unfold addAll at hr
    simp only [filterIns, hc] at hr
    by_cases hm : c ∈ items ∨ c ∈ known
    · simp only [hm, if_true] at hr
      have hm' : c ∈ known ++ items := by
        rw [List.mem_append]; exact hm.symm
      simp only [dedupAcc, hm', if_true]
      exact ih hg' hr
    · simp only [hm, if_false, clampIdx_length, splice_length_self] at hr
      have hm' : c ∉ known ++ items := by
        rw [List.mem_append]; intro h; exact hm h.symm
      simp only [dedupAcc, hm', if_false]
      have := ih hg' hr
      rw [this, List.append_assoc]

theorem urlsReplace_eq {known us r : List String} (hr : urlsReplace isUrl known us = .ok r) :
    known ++ r = dedupAcc known (us.map spaceToPlus) := by
  unfold urlsReplace at hr
  split at hr
  · cases hr
  · rename_i cs hc
    have := addAll_eq (coerceAll_ok_good hc) hr
    rw [coerceAll_eq hc] at this
    simpa using this

theorem tiersInsert_flat {T T' : Tiers} {us : List String} (_hT : TiersOK isUrl T)
    (hr : tiersInsert isUrl T T.length (.list us) = .ok T') :
    T'.flatten = dedupAcc T.flatten (us.map spaceToPlus) := by
  unfold tiersInsert at hr
  split at hr
  · cases hr
  · rename_i tier hm
    have hu : UOK isUrl T.flatten tier := mkURLs_ok hm
    have he := urlsReplace_eq (show urlsReplace isUrl T.flatten us = .ok tier from hm)
    rw [← he]
    split at hr
    · cases hr
      simp [clampIdx_length, splice]
    · rename_i hc
      cases hr
      by_cases hne : tier = []
      · simp [hne]
      · exfalso
        apply hc
        refine ⟨hne, ?_⟩
        rw [not_any_setEq_of_fresh hne hu.2.2]
        simp

theorem tiersAddAll_flat {acc T' : Tiers} {ts : Tiers} (hT : TiersOK isUrl acc)
    (hr : tiersAddAll isUrl acc (ts.map .list) = .ok T') :
    T'.flatten = dedupAcc acc.flatten (ts.flatten.map spaceToPlus) := by
  induction ts generalizing acc with
  | nil => simp only [List.map_nil, tiersAddAll] at hr; cases hr; simp [dedupAcc]
  | cons t ts ih =>
    simp only [List.map_cons, tiersAddAll] at hr
    split at hr
    · cases hr
    · rename_i T1 h1
      rw [ih (tiersInsert_ok hT h1) hr, tiersInsert_flat hT h1]
      simp only [List.flatten_cons, List.map_append, dedupAcc_append]

/-- the flat list `Torrent.trackers` shows, for any metainfo the getter can read -/
theorem getTrackers_flat {s : MI} {T : Tiers} (h : getTrackers isUrl s = .ok T) :
    T.flatten = dedupAcc [] ((rawTiers s).flatten.map spaceToPlus) := by
  unfold getTrackers at h
  simpa using tiersAddAll_flat TiersOK_nil h

theorem getTrackers_ok {s : MI} {T : Tiers} (h : getTrackers isUrl s = .ok T) : TiersOK isUrl T :=
  tiersAddAll_ok TiersOK_nil h

/-! ### success: every URL acceptable ⇒ the getters can be read -/

theorem coerceAll_accepts {us : List String} (h : ∀ u ∈ us, accepts isUrl u = true) :
    ∃ cs, coerceAll isUrl us = .ok cs := by
  induction us with
  | nil => exact ⟨[], rfl⟩
  | cons u us ih =>
    obtain ⟨cs, hcs⟩ := ih (fun x hx => h x (by simp [hx]))
    have hu : coerce isUrl u = .ok (spaceToPlus u) := coerce_ok_iff.2 ⟨h u (by simp), rfl⟩
    exact ⟨spaceToPlus u :: cs, by simp [coerceAll, hu, hcs]⟩

theorem urlsReplace_accepts {known us : List String} (h : ∀ u ∈ us, accepts isUrl u = true) :
    ∃ r, urlsReplace isUrl known us = .ok r := by
  obtain ⟨cs, hcs⟩ := coerceAll_accepts h
  unfold urlsReplace
  rw [hcs]
  exact addAll_good_ok (coerceAll_ok_good hcs)

theorem tiersAddAll_accepts {acc : Tiers} {ts : Tiers}
    (h : ∀ u ∈ ts.flatten, accepts isUrl u = true) :
    ∃ T', tiersAddAll isUrl acc (ts.map .list) = .ok T' := by
  induction ts generalizing acc with
  | nil => exact ⟨acc, rfl⟩
  | cons t ts ih =>
    have ht : ∀ u ∈ t, accepts isUrl u = true := fun u hu => h u (by simp [hu])
    obtain ⟨tier, htier⟩ := urlsReplace_accepts (known := acc.flatten) ht
    have hins : ∃ T1, tiersInsert isUrl acc acc.length (.list t) = .ok T1 := by
      unfold tiersInsert
      simp only [mkURLs, htier]
      split
      · exact ⟨_, rfl⟩
      · exact ⟨_, rfl⟩
    obtain ⟨T1, h1⟩ := hins
    simp only [List.map_cons, tiersAddAll, h1]
    exact ih (fun u hu => h u (by simp [hu]))

/-- … and conversely a readable getter means every URL was acceptable -/
theorem tiersAddAll_ok_accepts {acc T' : Tiers} {ts : Tiers}
    (hr : tiersAddAll isUrl acc (ts.map .list) = .ok T') :
    ∀ u ∈ ts.flatten, accepts isUrl u = true := by
  induction ts generalizing acc with
  | nil => simp
  | cons t ts ih =>
    simp only [List.map_cons, tiersAddAll] at hr
    split at hr
    · cases hr
    · rename_i T1 h1
      intro u hu
      simp only [List.flatten_cons, List.mem_append] at hu
      rcases hu with hu | hu
      · unfold tiersInsert at h1
        split at h1
        · cases h1
        · rename_i tier hm
          exact urlsReplace_ok_valid (show urlsReplace isUrl acc.flatten t = .ok tier from hm) u hu
      · exact ih hr u hu

end Torf.Lists

/-! ### transport `String` ↔ `List Char` and the view of a torrent -/
namespace Torf.Magnet
open Torf.Lists (Good UOK TiersOK)

theorem spaceToPlus_toList (u : String) : (Lists.spaceToPlus u).toList = plusForSpace u.toList := by
  simp [Lists.spaceToPlus, plusForSpace]

theorem plusForSpace_fixed_noSpace (l : Str) (h : plusForSpace l = l) : ' ' ∉ l := by
  intro hm
  rw [← h] at hm
  obtain ⟨c, _, hc⟩ := List.mem_map.mp hm
  by_cases hcs : c = ' ' <;> simp [hcs] at hc

theorem good_urlOk (isUrl : Str → Bool) (hne : isUrl [] = false) {u : String}
    (hg : Good (isUrlS isUrl) u) : urlOk isUrl u.toList = true := by
  obtain ⟨h1, h2⟩ := hg
  have h1' : isUrl u.toList = true := h1
  have h2' : plusForSpace u.toList = u.toList := by
    rw [← spaceToPlus_toList, h2]
  have hsp := plusForSpace_fixed_noSpace _ h2'
  have hnil : u.toList ≠ [] := by intro e; rw [e, hne] at h1'; cases h1'
  simp [urlOk, h1', hnil, hsp]

theorem nodup_map_toList {l : List String} (h : l.Nodup) : (l.map String.toList).Nodup := by
  unfold List.Nodup at h ⊢
  rw [List.pairwise_map]
  exact h.imp fun hab e => hab (String.toList_injective e)

theorem mem_map_toList {l : List String} {c : String} :
    c.toList ∈ l.map String.toList ↔ c ∈ l := by
  constructor
  · intro h
    obtain ⟨x, hx, e⟩ := List.mem_map.mp h
    rw [String.toList_injective e] at hx; exact hx
  · intro h; exact List.mem_map.mpr ⟨c, h, rfl⟩

theorem dedupAcc_toList (acc xs : List String) :
    (Lists.dedupAcc acc xs).map String.toList =
      dedup (acc.map String.toList) (xs.map String.toList) := by
  induction xs generalizing acc with
  | nil => rfl
  | cons c cs ih =>
    simp only [Lists.dedupAcc, List.map_cons, dedup, mem_map_toList]
    split
    · exact ih acc
    · rw [ih]; simp

theorem map_toList_ofList (l : List Str) : (l.map String.ofList).map String.toList = l := by
  simp [List.map_map]

theorem mem_map_ofList {l : List Str} {a : Str} : String.ofList a ∈ l.map String.ofList ↔ a ∈ l := by
  constructor
  · intro h
    obtain ⟨x, hx, e⟩ := List.mem_map.mp h
    rw [String.ofList_injective e] at hx; exact hx
  · intro h; exact List.mem_map.mpr ⟨a, h, rfl⟩

theorem flatten_map_map {α β} (f : α → β) (L : List (List α)) :
    (L.map fun t => t.map f).flatten = L.flatten.map f := by
  induction L with
  | nil => rfl
  | cons t L ih => simp only [List.map_cons, List.flatten_cons, List.map_append, ih]

/-- the raw URLs the getter meets, as `List Char` -/
theorem rawTiers_miOf (t : TorrentMeta) :
    ((Lists.rawTiers (miOf t)).flatten).map String.toList = rawTrackerUrls t := by
  unfold Lists.rawTiers miOf rawTrackerUrls
  cases hal : t.announceList with
  | none =>
    cases ha : t.announce with
    | none => rfl
    | some a =>
      show ([[String.ofList a]].flatten).map String.toList = _
      simp
  | some T =>
    have hF : ((T.map fun tier => tier.map String.ofList).flatten).map String.toList = T.flatten := by
      rw [flatten_map_map, map_toList_ofList]
    cases ha : t.announce with
    | none => exact hF
    | some a =>
      show (if String.ofList a ∈ (T.map fun tier => tier.map String.ofList).flatten
            then (T.map fun tier => tier.map String.ofList)
            else [String.ofList a] :: (T.map fun tier => tier.map String.ofList)).flatten.map String.toList
          = if a ∈ T.flatten then T.flatten else a :: T.flatten
      have hiff : String.ofList a ∈ (T.map fun tier => tier.map String.ofList).flatten ↔ a ∈ T.flatten := by
        rw [flatten_map_map, mem_map_ofList]
      by_cases hm : a ∈ T.flatten
      · rw [if_pos (hiff.mpr hm), if_pos hm]; exact hF
      · rw [if_neg (fun h => hm (hiff.mp h)), if_neg hm]
        simp only [List.flatten_cons, List.map_append, hF]
        simp

theorem map_spaceToPlus_toList (xs : List String) :
    (xs.map Lists.spaceToPlus).map String.toList = (xs.map String.toList).map plusForSpace := by
  simp [List.map_map, Function.comp_def, spaceToPlus_toList]

/-- what `trackersOfMeta` returns: tiers that are `TiersOK`, flat = first occurrences in getter order -/
theorem trackersOfMeta_ok (isUrl : Str → Bool) (t : TorrentMeta) (T : List (List Str))
    (h : trackersOfMeta isUrl t = .ok T) :
    ∃ T', TiersOK (isUrlS isUrl) T' ∧ T.flatten = T'.flatten.map String.toList ∧
      T.flatten = flatTrackersSpec t := by
  unfold trackersOfMeta at h
  split at h
  · rename_i T' hT'
    cases h
    refine ⟨T', Lists.getTrackers_ok hT', flatten_map_map _ _, ?_⟩
    rw [flatten_map_map, Lists.getTrackers_flat hT', dedupAcc_toList, map_spaceToPlus_toList,
      rawTiers_miOf]
    simp [flatTrackersSpec, dedup_nil]
  · cases h

theorem rawWebseeds_eq (t : TorrentMeta) (us : List String) (W : List String)
    (hus : us.map String.toList = rawWebseedUrls t)
    (h : Lists.urlsReplace (isUrlS isUrl) [] us = .ok W) :
    UOK (isUrlS isUrl) [] W ∧ W.map String.toList = webseedsSpec t := by
  refine ⟨Lists.urlsReplace_ok h, ?_⟩
  have := Lists.urlsReplace_eq h
  simp only [List.nil_append] at this
  rw [this, dedupAcc_toList, map_spaceToPlus_toList, hus]
  simp [webseedsSpec, dedup_nil]

theorem webseedsOfMeta_ok (isUrl : Str → Bool) (t : TorrentMeta) (W : List Str)
    (h : webseedsOfMeta isUrl t = .ok W) :
    ∃ W', UOK (isUrlS isUrl) [] W' ∧ W = W'.map String.toList ∧ W = webseedsSpec t := by
  unfold webseedsOfMeta at h
  dsimp only at h
  split at h
  · rename_i W' hW'
    cases h
    have key : ∃ us, us.map String.toList = rawWebseedUrls t ∧
        Lists.urlsReplace (isUrlS isUrl) [] us = .ok W' := by
      cases hul : t.urlList with
      | absent => rw [hul] at hW'; exact ⟨[], by simp [rawWebseedUrls, hul], hW'⟩
      | str s =>
        rw [hul] at hW'
        by_cases hb : s.all isPySpace = true
        · simp only [hb, if_true] at hW'
          exact ⟨[], by simp [rawWebseedUrls, hul, hb], hW'⟩
        · simp only [hb] at hW'
          exact ⟨[String.ofList s], by simp [rawWebseedUrls, hul, hb], hW'⟩
      | list us =>
        rw [hul] at hW'
        exact ⟨us.map String.ofList, by simp [rawWebseedUrls, hul, List.map_map], hW'⟩
    obtain ⟨us, hus, hr⟩ := key
    obtain ⟨h1, h2⟩ := rawWebseeds_eq t us W' hus hr
    exact ⟨W', h1, rfl, h2⟩
  · cases h

theorem viewOfMeta_ok (isUrl : Str → Bool) (t : TorrentMeta) (v : TorrentView)
    (hv : viewOfMeta isUrl t = .ok v) :
    ∃ T W, trackersOfMeta isUrl t = .ok T ∧ webseedsOfMeta isUrl t = .ok W ∧
      v = { infohash := t.infohash, name := t.name, size := t.size, trackers := T.flatten, webseeds := W } := by
  cases hT : trackersOfMeta isUrl t with
  | error e => simp [viewOfMeta, hT, bind, Except.bind] at hv
  | ok T =>
    cases hW : webseedsOfMeta isUrl t with
    | error e => simp [viewOfMeta, hT, hW, bind, Except.bind] at hv
    | ok W =>
      simp only [viewOfMeta, hT, hW, bind, Except.bind, pure, Except.pure, Except.ok.injEq] at hv
      exact ⟨T, W, rfl, rfl, hv.symm⟩

theorem viewOfMeta_error (isUrl : Str → Bool) (t : TorrentMeta) (e : MErr)
    (hv : viewOfMeta isUrl t = .error e) : e = .url := by
  cases hT : trackersOfMeta isUrl t with
  | error e' =>
    simp only [viewOfMeta, hT, bind, Except.bind, Except.error.injEq] at hv
    subst hv
    unfold trackersOfMeta at hT
    split at hT
    · cases hT
    · rename_i e0 h0
      cases hT
      have : e0 = .url := by unfold Lists.getTrackers at h0; exact Lists.tiersAddAll_error h0
      rw [this]; rfl
  | ok T =>
    cases hW : webseedsOfMeta isUrl t with
    | error e' =>
      simp only [viewOfMeta, hT, hW, bind, Except.bind, Except.error.injEq] at hv
      subst hv
      unfold webseedsOfMeta at hW
      dsimp only at hW
      split at hW
      · cases hW
      · rename_i e0 h0
        cases hW
        have : e0 = .url := by
          cases hul : t.urlList with
          | absent => rw [hul] at h0; exact Lists.urlsReplace_error h0
          | str s =>
            rw [hul] at h0
            by_cases hb : s.all isPySpace = true
            · simp only [hb, if_true] at h0; exact Lists.urlsReplace_error h0
            · simp only [hb] at h0; exact Lists.urlsReplace_error h0
          | list us => rw [hul] at h0; exact Lists.urlsReplace_error h0
        rw [this]; rfl
    | ok W => simp [viewOfMeta, hT, hW, bind, Except.bind, pure, Except.pure] at hv

/-- a readable torrent whose three computed attributes are in range is a `TorrentOk` view -/
theorem view_torrentOk (isUrl : Str → Bool) (hne : isUrl [] = false) (t : TorrentMeta)
    (hb : MetaBaseOk t = true) (v : TorrentView) (hv : viewOfMeta isUrl t = .ok v) :
    TorrentOk isUrl v = true := by
  obtain ⟨T, W, hT, hW, rfl⟩ := viewOfMeta_ok isUrl t v hv
  obtain ⟨T', hT'ok, hflat, _⟩ := trackersOfMeta_ok isUrl t T hT
  obtain ⟨W', hW'ok, hWeq, _⟩ := webseedsOfMeta_ok isUrl t W hW
  simp only [MetaBaseOk, Bool.and_eq_true] at hb
  obtain ⟨⟨h1, h2⟩, h3⟩ := hb
  have htr : (T.flatten).all (urlOk isUrl) = true := by
    rw [hflat, List.all_eq_true]
    intro u hu
    obtain ⟨x, hx, rfl⟩ := List.mem_map.mp hu
    exact good_urlOk isUrl hne (hT'ok.2.2 x hx)
  have htrn : (T.flatten).Nodup := by rw [hflat]; exact nodup_map_toList hT'ok.2.1
  have hws : W.all (urlOk isUrl) = true := by
    rw [hWeq, List.all_eq_true]
    intro u hu
    obtain ⟨x, hx, rfl⟩ := List.mem_map.mp hu
    exact good_urlOk isUrl hne (hW'ok.2.1 x hx)
  have hwsn : W.Nodup := by rw [hWeq]; exact nodup_map_toList hW'ok.1
  simp only [TorrentOk, Bool.and_eq_true]
  exact ⟨⟨⟨⟨⟨⟨h1, h2⟩, h3⟩, htr⟩, decide_eq_true htrn⟩, hws⟩, decide_eq_true hwsn⟩

/-- readable ⇔ every URL of the tracker / webseed fields is acceptable -/
theorem trackersOfMeta_readable (isUrl : Str → Bool) (t : TorrentMeta) :
    (∃ T, trackersOfMeta isUrl t = .ok T) ↔ (rawTrackerUrls t).all (urlAccepts isUrl) = true := by
  have hacc : ∀ u : String, Lists.accepts (isUrlS isUrl) u = urlAccepts isUrl u.toList := by
    intro u; simp [Lists.accepts, urlAccepts, isUrlS, spaceToPlus_toList]
  have hraw := rawTiers_miOf t
  unfold trackersOfMeta Lists.getTrackers
  constructor
  · rintro ⟨T, h⟩
    split at h
    · rename_i T' hT'
      have := Lists.tiersAddAll_ok_accepts hT'
      rw [← hraw, List.all_eq_true]
      intro u hu
      obtain ⟨x, hx, rfl⟩ := List.mem_map.mp hu
      rw [← hacc]; exact this x hx
    · cases h
  · intro h
    rw [← hraw, List.all_eq_true] at h
    obtain ⟨T', hT'⟩ := Lists.tiersAddAll_accepts (isUrl := isUrlS isUrl) (acc := [])
      (ts := Lists.rawTiers (miOf t)) (by
        intro u hu
        rw [hacc]; exact h _ (List.mem_map.mpr ⟨u, hu, rfl⟩))
    exact ⟨_, by rw [hT']⟩

theorem webseedsOfMeta_readable (isUrl : Str → Bool) (t : TorrentMeta) :
    (∃ W, webseedsOfMeta isUrl t = .ok W) ↔ (rawWebseedUrls t).all (urlAccepts isUrl) = true := by
  have hacc : ∀ u : String, Lists.accepts (isUrlS isUrl) u = urlAccepts isUrl u.toList := by
    intro u; simp [Lists.accepts, urlAccepts, isUrlS, spaceToPlus_toList]
  have key : ∀ us : List String, us.map String.toList = rawWebseedUrls t →
      ((∃ W, (match Lists.urlsReplace (isUrlS isUrl) [] us with
              | .ok W => Except.ok (W.map String.toList)
              | .error e => Except.error (errOf e)) = Except.ok W) ↔
        (rawWebseedUrls t).all (urlAccepts isUrl) = true) := by
    intro us hus
    rw [← hus, List.all_eq_true]
    constructor
    · rintro ⟨W, h⟩
      split at h
      · rename_i W' hW'
        intro u hu
        obtain ⟨x, hx, rfl⟩ := List.mem_map.mp hu
        rw [← hacc]; exact Lists.urlsReplace_ok_valid hW' x hx
      · cases h
    · intro h
      obtain ⟨r, hr⟩ := Lists.urlsReplace_accepts (isUrl := isUrlS isUrl) (known := []) (us := us) (by
        intro u hu; rw [hacc]; exact h _ (List.mem_map.mpr ⟨u, hu, rfl⟩))
      exact ⟨_, by rw [hr]⟩
  unfold webseedsOfMeta
  dsimp only
  cases hul : t.urlList with
  | absent => exact key [] (by simp [rawWebseedUrls, hul])
  | str s =>
    by_cases hb : s.all isPySpace = true
    · simp only [hb, if_true]; exact key [] (by simp [rawWebseedUrls, hul, hb])
    · simp only [hb]; exact key [String.ofList s] (by simp [rawWebseedUrls, hul, hb])
  | list us => exact key (us.map String.ofList) (by simp [rawWebseedUrls, hul, List.map_map])

end Torf.Magnet
