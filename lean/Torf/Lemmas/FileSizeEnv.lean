/-
  Helper lemmas for C20 in a world with typed lengths (Torf.Model.FileSizeEnv): the general loop is
  the plain loop on the erased torrent and the stat answers; it is a congruence in the stat answers
  of the listed paths; the variants coincide with the code where their extra step cannot fail.
-/
import Torf.Lemmas.FileSize
import Torf.Model.FileSizeEnv
namespace Torf.FileSize

theorem pyEq_valid (a : Nat) (n : PyNum) (h : n.isFileLength = true) :
    pyEq a n = decide (a = n.value) := by
  cases n with
  | int z =>
    simp only [PyNum.isFileLength, decide_eq_true_eq] at h
    simp only [pyEq, PyNum.value, PyNum.toInt]
    congr 1; apply propext; omega
  | bool b => cases b <;> simp [pyEq, PyNum.value, PyNum.toInt]
  | floatWhole z =>
    simp only [PyNum.isFileLength, decide_eq_true_eq] at h
    simp only [pyEq, PyNum.value, PyNum.toInt]
    congr 1; apply propext; omega
  | floatFrac => simp [PyNum.isFileLength] at h
  | floatNonFinite => simp [PyNum.isFileLength] at h
  | other => simp [PyNum.isFileLength] at h

theorem erase_listed (nt : NTorrent) : nt.erase.listed = nt.nlisted.map NListed.erase := by
  unfold NTorrent.erase Torrent.listed NTorrent.nlisted
  cases nt.mode <;> simp [NListed.erase]

theorem erase_isSingle (nt : NTorrent) : nt.erase.isSingle = nt.isSingle := by
  unfold NTorrent.erase Torrent.isSingle NTorrent.isSingle
  cases nt.mode <;> rfl

theorem erase_name (nt : NTorrent) : nt.erase.name = nt.name := rfl

theorem eq_of_nodup_pathN (l : List NListed) (hn : (l.map (·.path)).Nodup) (f g : NListed)
    (hf : f ∈ l) (hg : g ∈ l) (hp : g.path = f.path) : g = f := by
  induction l with
  | nil => cases hf
  | cons a rest ih =>
    simp only [List.map_cons, List.nodup_cons, List.mem_map, not_exists, not_and] at hn
    simp only [List.mem_cons] at hf hg
    rcases hf with rfl | hf <;> rcases hg with rfl | hg
    · rfl
    · exact absurd hp (hn.1 g hg)
    · exact absurd hp.symm (hn.1 f hf)
    · exact ih hn.2 hf hg

theorem partialSizeLoopN_listed (name : String) (f : NListed) (l : List NListed) (acc : List PyNum)
    (hf : f ∈ l) (hsame : ∀ g ∈ l, g.path = f.path → g.len = f.len)
    (hne : ∀ g ∈ l, "" ∉ g.path) :
    partialSizeLoopN name (name :: f.path) l acc = .ok f.len := by
  induction l generalizing acc with
  | nil => cases hf
  | cons g rest ih =>
    unfold partialSizeLoopN
    simp only [filter_ne_empty g.path (hne g (List.mem_cons_self ..)), List.cons.injEq, true_and]
    by_cases hp : g.path = f.path
    · simp only [hp, if_true, hsame g (List.mem_cons_self ..) hp]
    · simp only [hp, if_false]
      have hf' : f ∈ rest := by
        rcases List.mem_cons.mp hf with rfl | h
        · exact absurd rfl hp
        · exact h
      have h1 := fun g hg => hsame g (List.mem_cons_of_mem _ hg)
      have h2 := fun g hg => hne g (List.mem_cons_of_mem _ hg)
      split
      · exact ih _ hf' h1 h2
      · exact ih _ hf' h1 h2

/-- on a well-formed layout `partial_size` of a listed file is the object stored for that file -/
theorem partialSizeN_listed (nt : NTorrent) (hwf : WF nt.erase) (f : NListed) (hf : f ∈ nt.nlisted) :
    partialSizeN nt (nt.name :: f.path) = .ok f.len := by
  unfold WF at hwf
  rw [erase_listed] at hwf
  have hnd : (nt.nlisted.map (·.path)).Nodup := by
    have := hwf.1
    simpa [List.map_map, Function.comp_def, NListed.erase] using this
  have hne : ∀ g ∈ nt.nlisted, "" ∉ g.path := by
    intro g hg
    have := hwf.2 g.erase (List.mem_map.mpr ⟨g, hg, rfl⟩)
    simpa [NListed.erase] using this
  unfold partialSizeN
  unfold NTorrent.nlisted at hf hnd hne
  cases hm : nt.mode with
  | single n =>
    simp only [hm, List.mem_singleton] at hf
    subst hf
    simp
  | multi files =>
    simp only [hm] at hf hnd hne ⊢
    exact partialSizeLoopN_listed nt.name f files [] hf
      (fun g hg hp => by rw [eq_of_nodup_pathN files hnd f g hf hg hp]) hne

theorem report_lift (cb : Callback) (total i : Nat) (exc : Option Err)
    (c : Unit → OutG × List Call) (c' : Res × List Call) (h : c () = lift c') :
    report cb total i exc c =
      lift (match cancel cb total i exc with
        | .error e => (.raised e, [])
        | .ok (stop, calls) => if stop then (.ok false, calls) else (c'.1, calls ++ c'.2)) := by
  unfold report
  cases hc : cancel cb total i exc with
  | error e => rfl
  | ok p =>
    obtain ⟨stop, calls⟩ := p
    cases stop
    · simp [h, lift]
    · simp [lift]

/-- the general loop run as the code is the plain loop on the values and the stat answers -/
theorem loopG_code (nt : NTorrent) (t : Torrent) (w : World)
    (cb : Callback) (total : Nat) (l : List NListed)
    (hl : ∀ f ∈ l, f.len.isFileLength = true ∧ partialSizeN nt (nt.name :: f.path) = .ok f.len ∧
        partialSize t (t.name :: f.path) = .ok f.len.value)
    (i : Nat) (exc : Option Err) :
    loopG code nt w cb total i l exc = lift (loop t w.stat cb total i (l.map NListed.erase) exc) := by
  induction l generalizing i exc with
  | nil => simp [loopG, loop, lift]
  | cons f rest ih =>
    have hrest := fun g hg => hl g (List.mem_cons_of_mem _ hg)
    obtain ⟨hv, hpn, hp⟩ := hl f (List.mem_cons_self ..)
    have hp' : partialSize t (t.name :: f.erase.path) = .ok f.len.value := hp
    simp only [List.map_cons]
    unfold loopG loop
    have hfp : f.erase.path = f.path := rfl
    simp only [hfp, code, Bool.false_and, Bool.false_eq_true, if_false]
    cases he : w.stat f.path with
    | missing =>
      simp only [pathExists, Bool.not_false, if_true]
      rw [report_lift _ _ _ _ _ _ (ih hrest (i + 1) (some Err.read))]
      cases cancel cb total i (some Err.read) with
      | error e => rfl
      | ok p => obtain ⟨stop, calls⟩ := p; cases stop <;> rfl
    | file n =>
      simp only [pathExists, Bool.not_true, Bool.false_eq_true, if_false, realSize, hpn, hp,
        pyEq_valid n f.len hv]
      by_cases hn : n = f.len.value
      · simp only [hn, decide_true, Bool.not_true, Bool.false_eq_true, if_false, ne_eq,
          not_true_eq_false]
        rw [report_lift _ _ _ _ _ _ (ih hrest (i + 1) exc)]
        cases cancel cb total i none with
        | error e => rfl
        | ok p => obtain ⟨stop, calls⟩ := p; cases stop <;> rfl
      · simp only [hn, decide_false, Bool.not_false, if_true, ne_eq, not_false_eq_true]
        rw [report_lift _ _ _ _ _ _ (ih hrest (i + 1) (some (Err.size n f.len.value)))]
        cases cancel cb total i (some (Err.size n f.len.value)) with
        | error e => rfl
        | ok p => obtain ⟨stop, calls⟩ := p; cases stop <;> rfl
    | dir n =>
      simp only [pathExists, Bool.not_true, Bool.false_eq_true, if_false, realSize, hpn, hp,
        pyEq_valid n f.len hv]
      by_cases hn : n = f.len.value
      · simp only [hn, decide_true, Bool.not_true, Bool.false_eq_true, if_false, ne_eq,
          not_true_eq_false]
        rw [report_lift _ _ _ _ _ _ (ih hrest (i + 1) exc)]
        cases cancel cb total i none with
        | error e => rfl
        | ok p => obtain ⟨stop, calls⟩ := p; cases stop <;> rfl
      · simp only [hn, decide_false, Bool.not_false, if_true, ne_eq, not_false_eq_true]
        rw [report_lift _ _ _ _ _ _ (ih hrest (i + 1) (some (Err.size n f.len.value)))]
        cases cancel cb total i (some (Err.size n f.len.value)) with
        | error e => rfl
        | ok p => obtain ⟨stop, calls⟩ := p; cases stop <;> rfl

/-- the general model run as the code = the plain model on the values and the stat answers,
    behind the type gate of `validate()` -/
theorem verifyFilesizeG_code (nt : NTorrent) (hwf : WF nt.erase) (w : World) (cb : Callback) :
    verifyFilesizeG code nt w cb =
      if nt.lengthsValid then lift (verifyFilesize nt.erase w.stat cb)
      else (.res (.raised .metainfo), []) := by
  unfold verifyFilesizeG validateN
  by_cases hlv : nt.lengthsValid = true
  · simp only [hlv, Bool.true_and, if_true]
    unfold verifyFilesize
    by_cases hv : validateCore nt.erase = true
    · simp only [hv, Bool.not_true, Bool.false_eq_true, if_false, erase_isSingle, erase_listed,
        List.length_map]
      by_cases hd : (nt.isSingle && isDirEntry (w.stat [])) = true
      · simp only [hd, if_true]
        cases cancel cb nt.nlisted.length 0 (some Err.isDir) with
        | error e => rfl
        | ok p => rfl
      · simp only [hd, Bool.false_eq_true, if_false]
        apply loopG_code nt nt.erase
        intro f hf
        unfold NTorrent.lengthsValid at hlv
        refine ⟨List.all_eq_true.mp hlv f hf, partialSizeN_listed nt hwf f hf, ?_⟩
        have := partialSize_listed nt.erase hwf f.erase
          (by rw [erase_listed]; exact List.mem_map.mpr ⟨f, hf, rfl⟩)
        exact this
    · simp [hv, lift]
  · simp [hlv]

/-! ### congruence in the stat answers -/

theorem loopG_stat_congr (nt : NTorrent) (w w' : World) (cb : Callback) (total : Nat)
    (l : List NListed) (h : ∀ f ∈ l, w.stat f.path = w'.stat f.path) (i : Nat) (exc : Option Err) :
    loopG code nt w cb total i l exc = loopG code nt w' cb total i l exc := by
  induction l generalizing i exc with
  | nil => simp [loopG]
  | cons f rest ih =>
    have hrest := fun g hg => h g (List.mem_cons_of_mem _ hg)
    have ih' : ∀ i exc, loopG ⟨false, false⟩ nt w cb total i rest exc =
        loopG ⟨false, false⟩ nt w' cb total i rest exc := fun i exc => ih hrest i exc
    unfold loopG
    simp only [h f (List.mem_cons_self ..), code, Bool.false_and, Bool.false_eq_true, if_false, ih']

/-! ### where the variants cannot be told from the code -/

theorem loopG_probe_openable (b : Bool) (nt : NTorrent) (w : World) (cb : Callback) (total : Nat)
    (l : List NListed) (h : ∀ f ∈ l, w.opens f.path = .opens) (i : Nat) (exc : Option Err) :
    loopG ⟨true, b⟩ nt w cb total i l exc = loopG ⟨false, b⟩ nt w cb total i l exc := by
  induction l generalizing i exc with
  | nil => simp [loopG]
  | cons f rest ih =>
    have hrest := fun g hg => h g (List.mem_cons_of_mem _ hg)
    have ih' := fun i exc => ih hrest i exc
    unfold loopG
    simp only [h f (List.mem_cons_self ..), ih', ite_self, Bool.false_and, Bool.false_eq_true]

theorem partialSizeLoopN_mem (name : String) (path : List String) (l : List NListed)
    (acc : List PyNum) (hacc : ∀ n ∈ acc, n.isFloat = false)
    (hl : ∀ f ∈ l, f.len.isFloat = false) (e : PyNum)
    (h : partialSizeLoopN name path l acc = .ok e) : e.isFloat = false := by
  induction l generalizing acc with
  | nil =>
    unfold partialSizeLoopN at h
    split at h
    · cases h
    · simp only [Except.ok.injEq] at h
      subst h
      unfold pySum
      have : acc.any PyNum.isFloat = false := by
        simp only [List.any_eq_false]
        intro n hn; simp [hacc n hn]
      simp [this, PyNum.isFloat]
  | cons f rest ih =>
    have hrest := fun g hg => hl g (List.mem_cons_of_mem _ hg)
    have hf := hl f (List.mem_cons_self ..)
    unfold partialSizeLoopN at h
    simp only at h
    split at h
    · simp only [Except.ok.injEq] at h; subst h; exact hf
    · split at h
      · apply ih _ _ hrest h
        intro n hn
        rcases List.mem_append.mp hn with hn | hn
        · exact hacc n hn
        · simp only [List.mem_singleton] at hn; subst hn; exact hf
      · exact ih _ hacc hrest h

theorem partialSizeN_noFloat (nt : NTorrent) (hl : ∀ f ∈ nt.nlisted, f.len.isFloat = false)
    (p : List String) (e : PyNum) (h : partialSizeN nt p = .ok e) : e.isFloat = false := by
  unfold partialSizeN at h
  unfold NTorrent.nlisted at hl
  cases hm : nt.mode with
  | single n =>
    simp only [hm] at h hl
    split at h
    · simp only [Except.ok.injEq] at h; subst h
      exact hl ⟨[], n⟩ (List.mem_singleton.mpr rfl)
    · cases h
  | multi files =>
    simp only [hm] at h hl
    exact partialSizeLoopN_mem nt.name p files [] (by simp) hl e h

theorem loopG_intFmt_noFloat (b : Bool) (nt : NTorrent)
    (hnt : ∀ f ∈ nt.nlisted, f.len.isFloat = false) (w : World) (cb : Callback) (total : Nat)
    (l : List NListed) (i : Nat) (exc : Option Err) :
    loopG ⟨b, true⟩ nt w cb total i l exc = loopG ⟨b, false⟩ nt w cb total i l exc := by
  induction l generalizing i exc with
  | nil => simp [loopG]
  | cons f rest ih =>
    unfold loopG
    simp only [ih, Bool.true_and, Bool.false_and, Bool.false_eq_true, if_false]
    cases hps : partialSizeN nt (nt.name :: f.path) with
    | error e => rfl
    | ok expected =>
      simp only [partialSizeN_noFloat nt hnt _ _ hps, Bool.false_eq_true, if_false]

end Torf.FileSize
