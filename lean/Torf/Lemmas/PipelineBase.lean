/-
  Torf.Lemmas.PipelineBase — reachability for the pipeline transition system and the list facts
  the C03 invariants rest on (hasher table updates, items held, sorted permutations of ranges).
-/
import Torf.Spec.Pipeline
namespace Torf.Pipeline

/-- `s` is reachable from the initial state by some label sequence -/
def Reachable (cfg : Cfg) (s : State) : Prop := ∃ ls, run cfg (init cfg) ls = some s

theorem run_append (cfg : Cfg) (s : State) (l₁ l₂ : List Label) :
    run cfg s (l₁ ++ l₂) = (run cfg s l₁).bind fun s' => run cfg s' l₂ := by
  induction l₁ generalizing s with
  | nil => simp [run]
  | cons l ls ih =>
    simp only [List.cons_append, run]
    cases step cfg s l with
    | none => simp
    | some s' => simpa using ih s'

theorem Reachable.init (cfg : Cfg) : Reachable cfg (init cfg) := ⟨[], rfl⟩

theorem Reachable.step {cfg : Cfg} {s s' : State} {l : Label}
    (h : Reachable cfg s) (hs : step cfg s l = some s') : Reachable cfg s' := by
  obtain ⟨ls, hls⟩ := h
  refine ⟨ls ++ [l], ?_⟩
  rw [run_append, hls]
  simp [run, hs]

/-- induction principle: a property of the initial state that every enabled step preserves holds
    of every reachable state -/
theorem Reachable.induction {cfg : Cfg} {P : State → Prop} (h0 : P (Pipeline.init cfg))
    (hstep : ∀ s s' l, Reachable cfg s → P s → Pipeline.step cfg s l = some s' → P s')
    {s : State} (h : Reachable cfg s) : P s := by
  obtain ⟨ls, hls⟩ := h
  suffices ∀ (ls : List Label) (s₀ : State), Reachable cfg s₀ → P s₀ → ∀ s, run cfg s₀ ls = some s → P s from
    this ls _ (Reachable.init cfg) h0 s hls
  intro ls
  induction ls with
  | nil => intro s₀ _ hp s hr; simp [run] at hr; exact hr ▸ hp
  | cons l ls ih =>
    intro s₀ hr₀ hp s hr
    simp only [run] at hr
    cases hst : Pipeline.step cfg s₀ l with
    | none => simp [hst] at hr
    | some s₁ =>
      simp only [hst] at hr
      exact ih s₁ (hr₀.step hst) (hstep _ _ _ hr₀ hp hst) s hr

/-! ### `readerNext` only touches the reader's own variables -/

@[simp] theorem readerNext_main (cfg : Cfg) (t : State) (k : Nat) : (readerNext cfg t k).main = t.main := by
  unfold readerNext; (repeat' split) <;> rfl
@[simp] theorem readerNext_stop (cfg : Cfg) (t : State) (k : Nat) : (readerNext cfg t k).stop = t.stop := by
  unfold readerNext; (repeat' split) <;> rfl
@[simp] theorem readerNext_pq (cfg : Cfg) (t : State) (k : Nat) : (readerNext cfg t k).pq = t.pq := by
  unfold readerNext; (repeat' split) <;> rfl
@[simp] theorem readerNext_hs (cfg : Cfg) (t : State) (k : Nat) : (readerNext cfg t k).hs = t.hs := by
  unfold readerNext; (repeat' split) <;> rfl
@[simp] theorem readerNext_fin (cfg : Cfg) (t : State) (k : Nat) : (readerNext cfg t k).fin = t.fin := by
  unfold readerNext; (repeat' split) <;> rfl
@[simp] theorem readerNext_hq (cfg : Cfg) (t : State) (k : Nat) : (readerNext cfg t k).hq = t.hq := by
  unfold readerNext; (repeat' split) <;> rfl
@[simp] theorem readerNext_jan (cfg : Cfg) (t : State) (k : Nat) : (readerNext cfg t k).jan = t.jan := by
  unfold readerNext; (repeat' split) <;> rfl
@[simp] theorem readerNext_tracked (cfg : Cfg) (t : State) (k : Nat) : (readerNext cfg t k).tracked = t.tracked := by
  unfold readerNext; (repeat' split) <;> rfl
@[simp] theorem readerNext_seen (cfg : Cfg) (t : State) (k : Nat) : (readerNext cfg t k).seen = t.seen := by
  unfold readerNext; (repeat' split) <;> rfl
@[simp] theorem readerNext_collected (cfg : Cfg) (t : State) (k : Nat) : (readerNext cfg t k).collected = t.collected := by
  unfold readerNext; (repeat' split) <;> rfl

/-! ### main's collect step in closed form -/

/-- pieces whose digest the collector stores -/
def isHashed (cfg : Cfg) (k : Nat) : Bool :=
  cfg.items.getD k .nodata == .data || cfg.items.getD k .nodata == .mismatch

/-- `Collector._collect` up to the callback: dequeue piece `k`, count it, store its digest -/
def collectItem (cfg : Cfg) (s : State) (k : Nat) (rest : List (Option Nat)) : State :=
  { s with hq := rest, seen := s.seen ++ [k],
           collected := if isHashed cfg k then s.collected ++ [k] else s.collected }

/-- the state after main has handled piece `k` -/
def collectNext (cfg : Cfg) (s : State) (k : Nat) (rest : List (Option Nat)) : State :=
  let t := collectItem cfg s k rest
  if isRaising cfg (cfg.items.getD k .nodata) then
    { t with stop := true, main := .joinReaderChk (some (.item k)) }
  else match cfg.cb k (s.seen.length + 1) with
    | .pass => t
    | .cancel => { t with stop := true }
    | .raise => { t with stop := true, main := .joinReaderChk (some (.cb (s.seen.length + 1))) }

theorem stepMain_collect {cfg : Cfg} {s : State} {k : Nat} {rest : List (Option Nat)}
    (hm : s.main = .collect) (hq : s.hq = some k :: rest) (hk : k ∉ s.seen) :
    stepMain cfg s = some (collectNext cfg s k rest) := by
  unfold stepMain collectNext collectItem isHashed
  rw [hm]
  simp only [hq, List.contains_eq_mem, hk, decide_false, Bool.false_eq_true, ↓reduceIte]
  by_cases hh : (cfg.items.getD k ItemKind.nodata == ItemKind.data ||
      cfg.items.getD k ItemKind.nodata == ItemKind.mismatch) = true
  · simp only [hh, ↓reduceIte, List.length_append, List.length_singleton]
    split
    · rfl
    · split <;> simp_all
  · simp only [hh]
    split
    · rfl
    · split <;> simp_all

/-! ### items held by hashers -/

/-- the item a hasher holds -/
def hk : HPc → Option Nat
  | .holding k => some k
  | _ => none

theorem hk_holding (k : Nat) : hk (.holding k) = some k := rfl

theorem held_eq (s : State) : held s = s.hs.filterMap hk := by
  unfold held
  congr 1

theorem filterMap_set_perm {α β : Type} (f : α → Option β) :
    ∀ (l : List α) (i : Nat) (x y : α), l[i]? = some y →
      ((l.set i x).filterMap f ++ (f y).toList).Perm (l.filterMap f ++ (f x).toList)
  | [], i, x, y, h => by simp at h
  | a :: l, 0, x, y, h => by
    simp only [List.getElem?_cons_zero, Option.some.injEq] at h
    subst h
    simp only [List.set_cons_zero, List.filterMap_cons]
    cases hfa : f a with
    | none =>
      cases hfx : f x with
      | none => simp
      | some c => simpa using (List.perm_append_singleton c (List.filterMap f l)).symm
    | some b =>
      cases hfx : f x with
      | none => simp
      | some c =>
        have h1 : (c :: (List.filterMap f l ++ [b])).Perm (c :: b :: List.filterMap f l) :=
          (List.perm_append_singleton _ _ |>.cons c)
        have h2 : (b :: (List.filterMap f l ++ [c])).Perm (b :: c :: List.filterMap f l) :=
          (List.perm_append_singleton _ _ |>.cons b)
        simpa using h1.trans ((List.Perm.swap b c _).trans h2.symm)
  | a :: l, i + 1, x, y, h => by
    simp only [List.getElem?_cons_succ] at h
    have ih := filterMap_set_perm f l i x y h
    simp only [List.set_cons_succ, List.filterMap_cons]
    cases f a with
    | none => simpa using ih
    | some b => simpa using ih

theorem held_set_perm (s : State) (i : Nat) (p q : HPc) (h : s.hs[i]? = some p) :
    ((s.hs.set i q).filterMap hk ++ (hk p).toList).Perm (s.hs.filterMap hk ++ (hk q).toList) :=
  filterMap_set_perm hk s.hs i q p h

/-- updating a hasher that holds nothing to a state that holds nothing -/
theorem held_set_nn (l : List HPc) (i : Nat) (q : HPc) (hq : hk q = none)
    (h : ∀ p, l[i]? = some p → hk p = none) : ((l.set i q).filterMap hk).Perm (l.filterMap hk) := by
  cases hl : l[i]? with
  | none =>
    have : l.length ≤ i := by simpa using hl
    rw [List.set_eq_of_length_le this]
  | some p =>
    have := filterMap_set_perm hk l i q p hl
    simpa [hq, h p hl] using this

/-- a hasher that holds nothing takes item `k` -/
theorem held_set_take (l : List HPc) (i k : Nat) (p : HPc) (hl : l[i]? = some p) (hp : hk p = none) :
    ((l.set i (.holding k)).filterMap hk).Perm (l.filterMap hk ++ [k]) := by
  have := filterMap_set_perm hk l i (.holding k) p hl
  rw [hp] at this
  simpa [hk_holding] using this

/-- a hasher delivers the item it holds -/
theorem held_set_give (l : List HPc) (i k : Nat) (q : HPc) (hl : l[i]? = some (.holding k))
    (hq : hk q = none) : ((l.set i q).filterMap hk ++ [k]).Perm (l.filterMap hk) := by
  have := filterMap_set_perm hk l i q (.holding k) hl
  rw [hq] at this
  simpa [hk_holding] using this

/-- forward version of `List.getElem?_set` for `grind`: an entry of a list that is mentioned is
    related to the entry of every update of the list that is mentioned -/
theorem getElem?_set_fwd {α : Type} (l : List α) (i w : Nat) (q : α) :
    (l.set i q)[w]? = if i = w then (if i < l.length then some q else none) else l[w]? :=
  List.getElem?_set

grind_pattern getElem?_set_fwd => l[w]?, l.set i q

theorem set_ne_self {α : Type} {l : List α} {i : Nat} {a b : α} (h : l[i]? = some a) (hab : a ≠ b) :
    l.set i b ≠ l := by
  intro heq
  have : (l.set i b)[i]? = l[i]? := by rw [heq]
  rw [List.getElem?_set] at this
  simp only [↓reduceIte] at this
  have hi : i < l.length := by
    rcases Nat.lt_or_ge i l.length with h' | h'
    · exact h'
    · simp [List.getElem?_eq_none h'] at h
  rw [h] at this
  simp [hi] at this
  exact hab this.symm

/-! ### sorted permutations of ranges -/

theorem mergeSort_eq_of_perm_sorted {l m : List Nat} (hp : l.Perm m)
    (hm : m.Pairwise (fun a b => a ≤ b)) :
    l.mergeSort (fun a b => decide (a ≤ b)) = m := by
  have hs : (l.mergeSort (fun a b => decide (a ≤ b))).Pairwise (fun a b => decide (a ≤ b) = true) :=
    List.pairwise_mergeSort (le := fun a b => decide (a ≤ b))
      (by intro a b c; simp; omega) (by intro a b; simp; omega) l
  have hm' : m.Pairwise (fun a b => decide (a ≤ b) = true) := by
    simpa using hm
  exact List.Perm.eq_of_pairwise (le := fun a b => decide (a ≤ b) = true)
    (by intro a b _ _; simp; omega) hs hm' ((List.mergeSort_perm l _).trans hp)

theorem pairwise_le_range (n : Nat) : (List.range n).Pairwise (fun a b => a ≤ b) :=
  List.pairwise_lt_range.imp (fun h => Nat.le_of_lt h)

theorem mergeSort_of_perm_range {l : List Nat} {n : Nat} (hp : l.Perm (List.range n)) :
    l.mergeSort (fun a b => decide (a ≤ b)) = List.range n :=
  mergeSort_eq_of_perm_sorted hp (pairwise_le_range n)

end Torf.Pipeline
