/-
  Helper lemmas for C02 over the full alphabet of path states (part 3): the first damaged file.
  Whatever else is wrong, the first file (in metainfo order) that owes an error either makes an
  internal error escape, or is reported by an item that follows data items only, or — when it is
  a file with an unreadable byte — ends the iteration with its ReadError.
-/
import Torf.Lemmas.VerifyFsRun
namespace Torf.VerifyFs
open Torf Torf.Missing Torf.Verify

variable {α δ : Type} [Inhabited α] [DecidableEq δ]

/-! ### `out` only grows, a failure stays -/

theorem stepFs_out_prefix (L : Nat) (sizes : List Nat) (fd : List (FState α)) (s : StFs α)
    (j : Nat) : ∃ ext, (stepFs L sizes fd s j).st.out = s.st.out ++ ext := by
  unfold stepFs
  split
  · exact ⟨[], by simp⟩
  · split
    · exact ⟨[], by simp⟩
    · split
      · exact ⟨[], by simp⟩
      · split
        · split
          · exact ⟨_, rfl⟩
          · split
            · exact ⟨_, rfl⟩
            · exact ⟨[], by simp⟩
        · split
          · exact ⟨[], by simp⟩
          · exact ⟨_, rfl⟩
        · exact ⟨[], by simp⟩

theorem fold_fs_out_prefix (L : Nat) (sizes : List Nat) (fd : List (FState α)) (js : List Nat)
    (s : StFs α) : ∃ ext, (js.foldl (stepFs L sizes fd) s).st.out = s.st.out ++ ext := by
  induction js generalizing s with
  | nil => exact ⟨[], by simp⟩
  | cons j js ih =>
    obtain ⟨e1, h1⟩ := stepFs_out_prefix L sizes fd s j
    obtain ⟨e2, h2⟩ := ih (stepFs L sizes fd s j)
    exact ⟨e1 ++ e2, by simp only [List.foldl_cons]; rw [h2, h1, List.append_assoc]⟩

theorem stepFs_failed_stays (L : Nat) (sizes : List Nat) (fd : List (FState α)) (s : StFs α)
    (j : Nat) (h : s.st.failed = true) : stepFs L sizes fd s j = s := by
  unfold stepFs; simp [h]

theorem fold_fs_failed_stays (L : Nat) (sizes : List Nat) (fd : List (FState α)) (js : List Nat)
    (s : StFs α) (h : s.st.failed = true) : js.foldl (stepFs L sizes fd) s = s := by
  induction js with
  | nil => rfl
  | cons j js ih => rw [List.foldl_cons, stepFs_failed_stays L sizes fd s j h, ih]

/-! ### what a file that owes an error looks like to the main loop -/

omit [Inhabited α] in
/-- the error value that reports a probe result -/
theorem owed_cases (sizes : List Nat) (fd : List (FState α)) (k : Nat) (o : Owed)
    (h : owedAt sizes fd k = some o) :
    (∃ kind e, mainProbe (sizeOf sizes k) (stateAt fd k) = .exc kind e ∧
      owedErr k o = excOf (k, kind) ∧
      (kind = .read → o = .read ((osOpen (stateAt fd k)).getD 0))) ∨
    (∃ c off e, stateAt fd k = .readErr c off e ∧ c.length = sizeOf sizes k ∧ off ≤ c.length ∧
      o = .read e) := by
  unfold owedAt owed at h
  split at h
  · rename_i c hs
    split at h
    · cases h
    · rename_i hc
      cases h
      left
      exact ⟨.size, 0, by simp [hs, mainProbe, statSize, hc], rfl, by intro hh; cases hh⟩
  · rename_i e hs
    cases h
    left
    exact ⟨.read, e, by simp [hs, mainProbe, statSize, getOpenFile, osOpen, openCaught], rfl,
      fun _ => by simp [hs, osOpen]⟩
  · rename_i n e hs
    split at h
    · rename_i hn
      cases h
      left
      exact ⟨.read, e, by simp [hs, mainProbe, statSize, getOpenFile, osOpen, openCaught, hn], rfl,
        fun _ => by simp [hs, osOpen]⟩
    · rename_i hn
      cases h
      left
      exact ⟨.size, 0, by simp [hs, mainProbe, statSize, hn], rfl, by intro hh; cases hh⟩
  · rename_i c off e hs
    split at h
    · rename_i hc
      split at h
      · rename_i hoff
        cases h
        right
        exact ⟨c, off, e, hs, hc, hoff, rfl⟩
      · cases h
    · rename_i hc
      cases h
      left
      exact ⟨.size, 0, by simp [hs, mainProbe, statSize, hc], rfl, by intro hh; cases hh⟩

/-- processing a file whose probe yields an exception, from a "good" state: the loop fails or
    appends an item whose first exception names that file -/
theorem stepFs_bad (L : Nat) (sizes : List Nat) (fd : List (FState α)) (st : St α)
    (tr : List α) (out : List (List α)) (j : Nat) (kind : ErrKind) (e : Nat)
    (hg : GoodSt st tr out)
    (hp : mainProbe (sizeOf sizes j) (stateAt fd j) = .exc kind e) :
    let s' := stepFs L sizes fd { st := st, fault := none } j
    s'.fault = none ∧
    (s'.st.failed = true ∨
      ∃ (first : Item α) (rest : List (Item α)),
        s'.st.out = out.map dataItem ++ first :: rest ∧
        first.data = none ∧ first.excs.head? = some (j, kind) ∧ first.file = j) := by
  obtain ⟨h1, h2, h3, h4, h5⟩ := hg
  unfold stepFs
  simp only [Option.isSome_none, h5, h4, List.contains_nil, hp, Bool.false_eq_true, if_false]
  cases hm : missingCall L sizes (statDisk fd) st.seen [] j kind with
  | none => exact ⟨rfl, Or.inl rfl⟩
  | some r =>
    refine ⟨rfl, Or.inr ?_⟩
    simp only
    unfold missingCall at hm
    simp only at hm
    split at hm
    · exact absurd hm (by simp)
    · split at hm
      · exact absurd hm (by simp)
      · split at hm
        · exact absurd hm (by simp)
        · simp only [Option.some.injEq] at hm
          subst hm
          exact ⟨_, _, by rw [h2], rfl, rfl, rfl⟩

omit [Inhabited α] in
/-- the first bad file is never entered with a non-zero skip: its unreadable byte is hit -/
theorem fires_of_good (sizes : List Nat) (fd : List (FState α)) (st : St α)
    (tr : List α) (out : List (List α)) (j : Nat) (c : List α) (off e : Nat)
    (hg : GoodSt st tr out) (hs : stateAt fd j = .readErr c off e)
    (hc : c.length = sizeOf sizes j) (hoff : off ≤ c.length) :
    fires sizes fd st j = some (off, e) := by
  obtain ⟨_, _, h3, h4, h5⟩ := hg
  unfold fires
  simp only [h5, h4, List.contains_nil, Bool.or_self, Bool.false_eq_true, if_false, hs]
  have hp : mainProbe (sizeOf sizes j) (FState.readErr c off e) = .handle := by
    simp [mainProbe, statSize, getOpenFile, osOpen, hc]
  rw [hp]
  simp [faultAt, h3, hoff]

/-- the ways `iter_pieces` can go when some file owes an error (`j0` = the first such file) -/
inductive FirstDamaged (fd : List (FState α)) (j0 : Nat) (o : Owed) :
    Option (FsRun α) → Prop where
  /-- an undocumented exception escapes -/
  | internal : FirstDamaged fd j0 o none
  /-- data items, then an item without data whose first exception is the owed one -/
  | reported (pre : List (List α)) (first : Item α) (rest : List (Item α))
      (fault : Option (Nat × Nat)) (kind : ErrKind)
      (hd : first.data = none) (he : first.excs.head? = some (j0, kind))
      (hfile : first.file = j0)
      (ho : owedErr j0 o = excOf (j0, kind))
      (herrno : kind = .read → o = .read ((osOpen (stateAt fd j0)).getD 0)) :
      FirstDamaged fd j0 o (some ⟨pre.map dataItem ++ first :: rest, fault⟩)
  /-- data items, then the ReadError of the unreadable byte ends the iteration -/
  | readFault (pre : List (List α)) (e : Nat) (ho : o = .read e) :
      FirstDamaged fd j0 o (some ⟨pre.map dataItem, some (j0, e)⟩)

omit [Inhabited α] in
theorem exists_first_owed (sizes : List Nat) (fd : List (FState α))
    (h : AllGoodFs sizes fd = false) :
    ∃ j0 o, j0 < sizes.length ∧ owedAt sizes fd j0 = some o ∧
      ∀ k < j0, owedAt sizes fd k = none := by
  have hex : ∃ j, j < sizes.length ∧ (owedAt sizes fd j).isSome = true := by
    unfold AllGoodFs at h
    have : ¬ ((List.range sizes.length).all fun k => (owedAt sizes fd k).isNone) = true := by
      rw [h]; simp
    simp only [List.all_eq_true, List.mem_range, Classical.not_forall] at this
    obtain ⟨j, hj, hb⟩ := this
    refine ⟨j, hj, ?_⟩
    cases hf : owedAt sizes fd j with
    | none => simp [hf] at hb
    | some _ => rfl
  obtain ⟨j, hj, hb⟩ := hex
  induction j using Nat.strongRecOn with
  | _ j ih =>
    by_cases hall : ∀ k < j, owedAt sizes fd k = none
    · obtain ⟨o, ho⟩ := Option.isSome_iff_exists.mp hb
      exact ⟨j, o, hj, ho, hall⟩
    · simp only [Classical.not_forall] at hall
      obtain ⟨k, hk, hkb⟩ := hall
      exact ih k hk (by omega) (by
        cases hf : owedAt sizes fd k with
        | none => exact absurd hf hkb
        | some _ => rfl)

theorem iterItemsFs_first_damaged (L : Nat) (sizes : List Nat) (fd : List (FState α))
    (j0 : Nat) (o : Owed) (hj0 : j0 < sizes.length) (hbad : owedAt sizes fd j0 = some o)
    (hfirst : ∀ k < j0, owedAt sizes fd k = none) :
    FirstDamaged fd j0 o (iterItemsFs L sizes fd) := by
  have hsplit : List.range sizes.length =
      List.range j0 ++ j0 :: (List.range' (j0 + 1) (sizes.length - j0 - 1)) := by
    have h1 : sizes.length = j0 + (1 + (sizes.length - j0 - 1)) := by omega
    rw [List.range_eq_range', List.range_eq_range']
    conv => lhs; rw [h1]
    rw [← List.range'_append_1]
    simp only [Nat.zero_add]
    congr 1
    rw [Nat.add_comm 1, List.range'_succ]
  -- the files before `j0` are read as on a good disk
  have hpre := fold_fs_step L sizes fd (List.range j0) {} rfl
    (fun j hj st => fires_none_of_owed_none sizes fd j (hfirst j (List.mem_range.mp hj)) st)
    (fun j hj st => step2_good_eq L sizes _ _ st j
      (fileError_none_of_owed_none sizes fd j (hfirst j (List.mem_range.mp hj))))
  have hg := fold_good L sizes (mainDisk sizes fd) (List.range j0) {} [] [] goodSt_init
    (by intro k hk; exact fileError_none_of_owed_none sizes fd k (hfirst k (List.mem_range.mp hk)))
  unfold iterItemsFs
  simp only
  rw [hsplit, List.foldl_append, List.foldl_cons, hpre]
  simp only
  generalize (List.range j0).foldl (step L sizes (mainDisk sizes fd)) {} = st0 at hg
  generalize ((List.range j0).map (Verify.contentOf (mainDisk sizes fd))).foldl (Stream.fileStep L)
    ([], []) = s at hg
  generalize hjs : List.range' (j0 + 1) (sizes.length - j0 - 1) = js
  rcases owed_cases sizes fd j0 o hbad with ⟨kind, e, hp, ho, hen⟩ | ⟨c, off, e, hs, hc, hoff, ho⟩
  · -- the probe of the main loop yields the exception
    obtain ⟨hf, hres⟩ := stepFs_bad L sizes fd st0 s.1 s.2 j0 kind e hg hp
    rcases hres with hfail | ⟨first, rest, hout, hd, he, hfl⟩
    · rw [fold_fs_failed_stays L sizes fd js _ hfail, hfail]
      simp only [if_true]
      exact .internal
    · obtain ⟨ext, hext⟩ := fold_fs_out_prefix L sizes fd js
        (stepFs L sizes fd { st := st0, fault := none } j0)
      generalize js.foldl (stepFs L sizes fd) (stepFs L sizes fd { st := st0, fault := none } j0)
        = sf at hext
      rw [hout] at hext
      by_cases hfail : sf.st.failed = true
      · simp only [hfail, if_true]; exact .internal
      · simp only [hfail, Bool.false_eq_true, if_false]
        by_cases hflt : sf.fault.isSome = true
        · simp only [hflt, if_true, hext, List.append_assoc, List.cons_append]
          exact .reported s.2 first (rest ++ ext) sf.fault kind hd he hfl ho hen
        · simp only [hflt, Bool.false_eq_true, if_false]
          by_cases htr : sf.st.trailing.isEmpty = true
          · simp only [htr, if_true, hext, List.append_assoc, List.cons_append]
            exact .reported s.2 first (rest ++ ext) none kind hd he hfl ho hen
          · simp only [htr, Bool.false_eq_true, if_false, hext, List.append_assoc,
              List.cons_append]
            exact .reported s.2 first (rest ++ (ext ++ [dataItem sf.st.trailing])) none kind hd he hfl ho
              hen
  · -- the file opens; its unreadable byte is hit
    have hfire := fires_of_good sizes fd st0 s.1 s.2 j0 c off e hg hs hc hoff
    obtain ⟨h1, h2, ext, h3⟩ := stepFs_fire L sizes fd { st := st0, fault := none } j0 off e rfl hfire
    rw [fold_fs_fault L sizes fd js _ (by rw [h1]; rfl)]
    simp only [h2, Bool.false_eq_true, if_false, h1, Option.isSome_some, if_true, h3, hg.out]
    rw [← List.map_append]
    exact .readFault (s.2 ++ ext) e ho

end Torf.VerifyFs
