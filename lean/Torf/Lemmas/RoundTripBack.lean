/-
  `read_stream` succeeds on a canonical document that satisfies the round-trip hypotheses
  (progress), and facts about what a parser reads back from `dump()` (the key-sorted normal form
  of `encode_dict`'s result).
-/
import Torf.Lemmas.RoundTrip
import Torf.Lemmas.Utf8Keys
import Torf.Lemmas.CodecLookup
import Torf.Lemmas.Dump
namespace Torf.ReadStream
open Torf Torf.Bencode Torf.Codec

theorem parseStrict_inv {lim : Nat} {bs : Bytes} {v : BVal} (h : parseStrict lim bs = some v) :
    parse lim bs = some v ∧ canon v = true ∧ ser v = bs := by
  unfold parseStrict at h
  split at h
  · rename_i v' hp
    split at h
    · rename_i hc
      simp only [Option.some.injEq] at h; subst h
      simp only [Bool.and_eq_true, beq_iff_eq] at hc
      exact ⟨hp, hc.1, hc.2⟩
    · exact absurd h (by simp)
  · exact absurd h (by simp)

/-- on a canonical document with an `info` dict, UTF-8 keys, byte-string pieces and a
    representable date, `read_stream` can only fail in the final `validate()` -/
theorem readDict_progress (env : Env) (enc ikvs : List (Bytes × BVal))
    (hc : canon (.dict enc) = true) (hu : utf8Keys (.dict enc) = true)
    (hpieces : PiecesOk enc) (hdate : DateOk env enc)
    (hl : lookup kInfo enc = some (.dict ikvs)) :
    ∃ t', ∀ validate, readDict env enc validate =
      if validate && !env.validate (.dict t') then .error .metainfo else .ok t' := by
  have hu' : utf8KeysKvs enc = true := by simpa [utf8Keys] using hu
  have hrep := rep_decodeTop enc hc hu' hpieces
  obtain ⟨mi, hmi, hemi⟩ := hrep.lookup "info" (kInfo_eq ▸ hl)
  obtain ⟨D, l, rfl, _, _⟩ := encodeValue_dict_inv hemi
  have hassert : ∀ validate, assertInfo (decodeTop enc) validate = .ok () := by
    intro validate; simp [assertInfo, hmi]
  cases hcd : lookup kCreationDate enc with
  | none =>
    refine ⟨ensureInfo (setPrivate enc (decodeTop enc)), fun validate => ?_⟩
    simp only [readDict, hassert, hcd]
  | some cd =>
    obtain ⟨i, rfl, hts⟩ := hdate cd hcd
    refine ⟨ensureInfo (setPrivate enc
      (setStr "creation date" (.datetime (some i)) (ensureInfo (decodeTop enc)))), fun validate => ?_⟩
    simp only [readDict, hassert, hcd, setCreationDate, hts]

theorem mem_isort_normKvs {k : Bytes} {v : BVal} {kvs : List (Bytes × BVal)} (h : (k, v) ∈ kvs) :
    (k, norm v) ∈ isort keyLe (normKvs kvs) :=
  (isort_perm keyLe _).symm.subset (mem_normKvs k v kvs h)

/-- what the strict parser returns on a successful `dump()`: the key-sorted normal form of the
    converted metainfo -/
theorem dump_parse {env : Env} {md : List (PyVal × PyVal)} {validate : Bool} {bs : Bytes}
    (hw : wf (.dict (ensureInfo md)) = true) (h : dump env md validate = .ok bs) :
    ∃ ukvs, encodeDict (ensureInfo md) = .ok (.dict ukvs) ∧
      parseStrict env.lim bs = some (norm (.dict ukvs)) ∧
      canon (norm (.dict ukvs)) = true ∧ small env.lim (norm (.dict ukvs)) = true ∧
      utf8Keys (norm (.dict ukvs)) = true ∧ small env.lim (.dict ukvs) = true ∧
      bs = ser (.dict ukvs) := by
  obtain ⟨u, hu, hs, rfl⟩ := dump_ok h
  have huniq := uniq_encodeValue _ _ hu hw
  have hutf := utf8Keys_encodeValue _ _ hu
  have hdict : ∃ ukvs, u = .dict ukvs := by
    simp only [encodeDict, encodeValue] at hu
    split at hu
    · simp only [Except.ok.injEq] at hu; exact ⟨_, hu.symm⟩
    · exact absurd hu (by simp)
  obtain ⟨ukvs, rfl⟩ := hdict
  refine ⟨ukvs, hu, ?_, canon_norm _ huniq, small_norm _ _ hs, utf8Keys_norm _ hutf, hs, rfl⟩
  rw [← ser_norm]
  exact parseStrict_ser _ _ (canon_norm _ huniq) (small_norm _ _ hs)

end Torf.ReadStream
