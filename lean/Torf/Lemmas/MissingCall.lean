/-
  Helper lemmas for C10 (part 4): `_MissingPieces.__call__` taken apart
  (`missingCall` = piece indexes + affected files + `skipBy` + `mkItems`).
-/
import Torf.Lemmas.MissingInv
namespace Torf.Missing
open Torf

/-- the `(skip_bytes, bycatch_files)` computed from the files affected by the last fake piece -/
def skipBy (L : Nat) (sizes : List Nat) (last : Nat) (affected : List Nat) : Nat × List Nat :=
  match affected.getLast? with
  | none => (0, [])
  | some next =>
    let nstart : Int := pos sizes next
    let nend : Int := (pos sizes next : Int) + sizeOf sizes next - 1
    let boundary : Int := (last * L + L : Nat) - 1
    if nend > boundary then ((boundary - nstart + 1).toNat, affected.dropLast)
    else (0, affected)

/-- the fake items for `count` pieces of the bad file `j` -/
def mkItems (j : Nat) (reason : ErrKind) (count : Nat) (bexc : List (Nat × ErrKind)) :
    List (Item α) :=
  (⟨none, j, (j, reason) :: (if count = 1 then bexc else [])⟩ : Item α) ::
    (List.replicate (count - 2) ⟨none, j, []⟩ ++ (if count > 1 then [⟨none, j, bexc⟩] else []))

theorem missingCall_eq (L : Nat) (sizes : List Nat) (disk : List (Option (List α)))
    (seen bycatch : List Nat) (j : Nat) (reason : ErrKind) (pis : List Nat) (last : Nat)
    (fs : List Nat)
    (hpis : pyRemoveSeen seen (pieceIndexesOfFile L sizes j) = pis)
    (hlast : pis.getLast? = some last)
    (hfs : filesAtPieceIndex L sizes last = some fs)
    (hmem : fs.contains j = true) :
    missingCall L sizes disk seen bycatch j reason =
      some ⟨mkItems j reason pis.length
              (bycatchExcs sizes disk (skipBy L sizes last (fs.erase j)).2),
            (skipBy L sizes last (fs.erase j)).1, seen ++ pis,
            bycatch ++ (skipBy L sizes last (fs.erase j)).2⟩ := by
  unfold missingCall
  simp only [hpis, hlast, hfs, hmem]
  rfl

/-! ### `mkItems` -/

theorem mkItems_data (j : Nat) (reason : ErrKind) (count : Nat) (bexc : List (Nat × ErrKind))
    (hc : 0 < count) :
    (mkItems (α := α) j reason count bexc).map (·.data) = List.replicate count none := by
  unfold mkItems
  by_cases h1 : count = 1
  · subst h1; simp
  · obtain ⟨k, rfl⟩ : ∃ k, count = k + 2 := ⟨count - 2, by omega⟩
    have h2 : k + 2 > 1 := by omega
    simp only [h2, if_true, List.map_cons, List.map_append, List.map_replicate, List.map_nil]
    rw [List.replicate_succ, List.replicate_succ']
    simp

theorem mkItems_length (j : Nat) (reason : ErrKind) (count : Nat) (bexc : List (Nat × ErrKind))
    (hc : 0 < count) : (mkItems (α := α) j reason count bexc).length = count := by
  have := congrArg List.length (mkItems_data (α := α) j reason count bexc hc)
  simpa using this

theorem mkItems_data_none (j : Nat) (reason : ErrKind) (count : Nat) (bexc : List (Nat × ErrKind))
    (hc : 0 < count) (it : Item α) (hit : it ∈ mkItems j reason count bexc) : it.data = none := by
  have h1 : it.data ∈ (mkItems (α := α) j reason count bexc).map (·.data) :=
    List.mem_map.mpr ⟨it, hit, rfl⟩
  rw [mkItems_data j reason count bexc hc] at h1
  exact (List.mem_replicate.mp h1).2

theorem mkItems_reported (j : Nat) (reason : ErrKind) (count : Nat) (bexc : List (Nat × ErrKind))
    (hc : 0 < count) :
    reported (mkItems (α := α) j reason count bexc) = (j, reason) :: bexc := by
  unfold mkItems reported
  by_cases h1 : count = 1
  · subst h1; simp
  · have h2 : count > 1 := by omega
    simp [h1, h2]

/-! ### `skipBy` -/

theorem skipBy_noreach (L : Nat) (sizes : List Nat) (last : Nat) (affected : List Nat)
    (h : ∀ next, affected.getLast? = some next → pos sizes (next + 1) ≤ last * L + L) :
    skipBy L sizes last affected = (0, affected) := by
  unfold skipBy
  split
  · rename_i hn
    rw [List.getLast?_eq_none_iff] at hn
    rw [hn]
  · rename_i next hn
    have := h next hn
    rw [pos_succ] at this
    have hcond : ¬ ((pos sizes next : Int) + sizeOf sizes next - 1 > ((last * L + L : Nat) : Int) - 1) := by
      omega
    simp only [hcond, if_false]

theorem skipBy_reach (L : Nat) (sizes : List Nat) (last : Nat) (affected : List Nat) (next : Nat)
    (hn : affected.getLast? = some next) (h : last * L + L < pos sizes (next + 1)) :
    skipBy L sizes last affected = (last * L + L - pos sizes next, affected.dropLast) := by
  unfold skipBy
  rw [pos_succ] at h
  simp only [hn]
  have hcond : ((pos sizes next : Int) + sizeOf sizes next - 1 > ((last * L + L : Nat) : Int) - 1) := by
    omega
  simp only [hcond, if_true]
  congr 1
  omega

end Torf.Missing
