/-
  Helper lemmas for the history theorems of C20: without the memo every operation of a history
  is the memo-free function of the current metainfo; `partial_size` meets its specification on
  well-formed prefix-free layouts; with a memo that is *consistent* with the current metainfo the
  memoising variant answers like the code.
-/
import Torf.Spec.FileSizeHistory
import Torf.Lemmas.FileSize
namespace Torf.FileSize

/-! ### memo switched off = the functions of Torf.Model.FileSize -/

@[simp] theorem partialSizeM_off (t : Torrent) (m : Memo) (p : List String) :
    partialSizeM false t m p = (partialSize t p, m) := by
  simp [partialSizeM]

theorem loopM_off (t : Torrent) (fs : FS) (cb : Callback) (total : Nat) (l : List Listed)
    (i : Nat) (exc : Option Err) (m : Memo) :
    loopM false t fs cb total i l exc m = (loop t fs cb total i l exc, m) := by
  induction l generalizing i exc with
  | nil => simp [loopM, loop]
  | cons f rest ih =>
    unfold loopM loop
    simp only [partialSizeM_off, ih]
    cases hent : pathExists (fs f.path) with
    | false =>
      simp only [Bool.not_false, if_true]
      cases hc : cancel cb total i (some Err.read) with
      | error e => rfl
      | ok sc => obtain ⟨stop, calls⟩ := sc; cases stop <;> simp
    | true =>
      simp only [Bool.not_true, Bool.false_eq_true, if_false]
      cases hr : realSize (fs f.path) with
      | error e => rfl
      | ok actual =>
        simp only []
        cases hp : partialSize t (t.name :: f.path) with
        | error e => rfl
        | ok expected =>
          simp only []
          by_cases hne : actual = expected
          · simp only [hne, ne_eq, not_true_eq_false, if_false]
            cases hc : cancel cb total i none with
            | error e => rfl
            | ok sc => obtain ⟨stop, calls⟩ := sc; cases stop <;> simp
          · simp only [hne, ne_eq, not_false_eq_true, if_true]
            cases hc : cancel cb total i (some (Err.size actual expected)) with
            | error e => rfl
            | ok sc => obtain ⟨stop, calls⟩ := sc; cases stop <;> simp

theorem verifyFilesizeM_off (t : Torrent) (m : Memo) (fs : FS) (cb : Callback) :
    verifyFilesizeM false t m fs cb = (verifyFilesize t fs cb, m) := by
  unfold verifyFilesizeM verifyFilesize
  simp only [loopM_off]
  split
  · rfl
  · split
    · cases hc : cancel cb t.listed.length 0 (some Err.isDir) with
      | error e => rfl
      | ok sc => rfl
    · rfl

theorem lookupAllM_off (t : Torrent) (l : List Listed) (m : Memo) :
    lookupAllM false t l m = (l.map (fun f => partialSize t (t.name :: f.path)), m) := by
  induction l generalizing m with
  | nil => rfl
  | cons f rest ih => simp [lookupAllM, ih]

/-! ### one step / a whole history without the memo -/

theorem map_setObj (objs : List Obj) (o : Nat) (ob : Obj) :
    (setObj objs o ob).map (·.info) = (objs.map (·.info)).set o ob.info := by
  simp [setObj, List.map_set]

theorem set_same_info (objs : List Obj) (o : Nat) (ob : Obj) (h : objs[o]? = some ob) :
    (objs.map (·.info)).set o ob.info = objs.map (·.info) := by
  apply List.ext_getElem?
  intro j
  by_cases hj : o = j
  · subst hj
    have hlt : o < objs.length := by
      rcases Nat.lt_or_ge o objs.length with h' | h'
      · exact h'
      · rw [List.getElem?_eq_none h'] at h; cases h
    rw [List.getElem?_eq_getElem hlt] at h
    simp only [Option.some.injEq] at h
    simp [hlt, h]
  · simp [hj]

theorem step_off (objs : List Obj) (op : Op) :
    (step false objs op).1.map (·.info) = metaStep (objs.map (·.info)) op ∧
    (step false objs op).2 =
      (match (objs.map (·.info))[op.target]? with
        | none => Obs.nothing
        | some t => freshObs t op) := by
  cases op with
  | edit o t' =>
    simp only [step, metaStep, Op.target, List.getElem?_map, List.length_map]
    cases h : objs[o]? with
    | none =>
      have : ¬ o < objs.length := by
        intro hlt; rw [List.getElem?_eq_getElem hlt] at h; cases h
      simp [this]
    | some ob =>
      have : o < objs.length := by
        rcases Nat.lt_or_ge o objs.length with h' | h'
        · exact h'
        · rw [List.getElem?_eq_none h'] at h; cases h
      simp [this, map_setObj, freshObs]
  | setter o t' =>
    simp only [step, metaStep, Op.target, List.getElem?_map, List.length_map]
    cases h : objs[o]? with
    | none =>
      have : ¬ o < objs.length := by
        intro hlt; rw [List.getElem?_eq_getElem hlt] at h; cases h
      simp [this]
    | some ob =>
      have : o < objs.length := by
        rcases Nat.lt_or_ge o objs.length with h' | h'
        · exact h'
        · rw [List.getElem?_eq_none h'] at h; cases h
      simp [this, map_setObj, freshObs]
  | copy o =>
    simp only [step, metaStep, Op.target, List.getElem?_map]
    cases h : objs[o]? <;> simp [freshObs]
  | lookup o p =>
    simp only [step, metaStep, Op.target, List.getElem?_map]
    cases h : objs[o]? with
    | none => simp
    | some ob => simp [map_setObj, set_same_info objs o ob h, freshObs]
  | lookupAll o =>
    simp only [step, metaStep, Op.target, List.getElem?_map]
    cases h : objs[o]? with
    | none => simp
    | some ob => simp [map_setObj, set_same_info objs o ob h, freshObs, lookupAllM_off]
  | props o =>
    simp only [step, metaStep, Op.target, List.getElem?_map]
    cases h : objs[o]? <;> simp [freshObs]
  | check o fs cb raises =>
    simp only [step, metaStep, Op.target, List.getElem?_map]
    cases h : objs[o]? with
    | none => simp
    | some ob => simp [map_setObj, set_same_info objs o ob h, freshObs, verifyFilesizeM_off]

theorem run_off (objs : List Obj) (ops : List Op) :
    run false objs ops = runFresh (objs.map (·.info)) ops := by
  induction ops generalizing objs with
  | nil => rfl
  | cons op ops ih =>
    obtain ⟨h1, h2⟩ := step_off objs op
    simp only [run, runFresh]
    rw [ih, h1, h2]
    rfl

/-! ### `partial_size` meets its specification -/

theorem startsWith_self (a : List String) : startsWith a a = true := by
  induction a with
  | nil => rfl
  | cons x xs ih => simp [startsWith, ih]

theorem startsWith_cons_same (n : String) (a b : List String) :
    startsWith (n :: a) (n :: b) = startsWith a b := by
  simp [startsWith]

/-- no entry of `l` is exactly `p`: the loop collects the lengths of all entries below `p` -/
theorem partialSizeLoop_noexact (name : String) (p : List String) (l : List Listed)
    (acc : List Nat) (hne : ∀ g ∈ l, "" ∉ g.path) (hno : ∀ g ∈ l, name :: g.path ≠ p) :
    partialSizeLoop name p l acc =
      if (acc ++ (l.filter fun g => startsWith (name :: g.path) p).map (·.size)).isEmpty
      then .error .path
      else .ok (acc ++ (l.filter fun g => startsWith (name :: g.path) p).map (·.size)).sum := by
  induction l generalizing acc with
  | nil => simp [partialSizeLoop]
  | cons g rest ih =>
    have h1 := fun x hx => hne x (List.mem_cons_of_mem _ hx)
    have h2 := fun x hx => hno x (List.mem_cons_of_mem _ hx)
    unfold partialSizeLoop
    simp only [filter_ne_empty g.path (hne g (List.mem_cons_self ..)),
      hno g (List.mem_cons_self ..), if_false, List.filter_cons]
    by_cases hs : startsWith (name :: g.path) p = true
    · simp only [hs, if_true, ih _ h1 h2, List.map_cons, List.append_assoc, List.singleton_append]
    · simp only [hs, Bool.false_eq_true, if_false, ih _ h1 h2]

theorem nodup_of_map_path (l : List Listed) (h : (l.map (·.path)).Nodup) : l.Nodup := by
  induction l with
  | nil => exact List.nodup_nil
  | cons a rest ih =>
    simp only [List.map_cons, List.nodup_cons, List.mem_map, not_exists, not_and] at h
    rw [List.nodup_cons]
    exact ⟨fun ha => h.1 a ha rfl, ih h.2⟩

theorem filter_eq_singleton (l : List Listed) (pred : Listed → Bool) (f : Listed) (hn : l.Nodup)
    (hf : f ∈ l) (hp : ∀ g ∈ l, pred g = true ↔ g = f) : l.filter pred = [f] := by
  induction l with
  | nil => cases hf
  | cons a rest ih =>
    rw [List.nodup_cons] at hn
    rw [List.filter_cons]
    by_cases ha : a = f
    · subst ha
      have : pred a = true := (hp a (List.mem_cons_self ..)).mpr rfl
      simp only [this, if_true, List.cons.injEq, true_and]
      apply List.filter_eq_nil_iff.mpr
      intro g hg hpg
      have := (hp g (List.mem_cons_of_mem _ hg)).mp hpg
      subst this
      exact hn.1 hg
    · have hpa : ¬ pred a = true := fun h => ha ((hp a (List.mem_cons_self ..)).mp h)
      simp only [hpa, Bool.false_eq_true, if_false]
      have hf' : f ∈ rest := by
        rcases List.mem_cons.mp hf with h | h
        · exact absurd h.symm ha
        · exact h
      exact ih hn.2 hf' (fun g hg => hp g (List.mem_cons_of_mem _ hg))

/-- `partial_size(p)` = the sum of the lengths of all entries below `p`, for every `p` -/
theorem partialSize_eq_spec (t : Torrent) (hwf : WF t) (hpf : PrefixFree t) (p : List String) :
    partialSize t p = partialSizeSpec t p := by
  unfold partialSize partialSizeSpec
  unfold WF Torrent.listed at hwf
  unfold PrefixFree Torrent.listed at hpf
  cases hm : t.mode with
  | single n => rfl
  | multi files =>
    simp only [hm] at hwf hpf ⊢
    by_cases hex : ∃ f ∈ files, t.name :: f.path = p
    · obtain ⟨f, hf, rfl⟩ := hex
      rw [partialSizeLoop_listed t.name f files [] hf
        (fun g hg hp => by rw [eq_of_nodup_path files hwf.1 f g hf hg hp]) hwf.2]
      have hfil : files.filter (fun g => startsWith (t.name :: g.path) (t.name :: f.path)) = [f] := by
        apply filter_eq_singleton files _ f (nodup_of_map_path files hwf.1) hf
        intro g hg
        rw [startsWith_cons_same]
        constructor
        · intro h
          exact eq_of_nodup_path files hwf.1 f g hf hg (hpf f hf g hg h)
        · intro h; subst h; exact startsWith_self _
      simp [hfil]
    · have hno : ∀ g ∈ files, t.name :: g.path ≠ p := fun g hg h => hex ⟨g, hg, h⟩
      rw [partialSizeLoop_noexact t.name p files [] hwf.2 hno]
      simp

/-! ### model of the moment = specification of the moment -/

theorem freshObs_eq_specObs (t : Torrent) (op : Op) (h : opHyp t op) :
    freshObs t op = specObs t op := by
  cases op with
  | edit o t' => rfl
  | setter o t' => rfl
  | copy o => rfl
  | lookup o p =>
    obtain ⟨hwf, hpf⟩ := h
    simp only [freshObs, specObs, partialSize_eq_spec t hwf hpf p]
  | lookupAll o =>
    simp only [freshObs, specObs]
    congr 1
    apply List.map_congr_left
    intro f hf
    exact partialSize_listed t h f hf
  | props o => rfl
  | check o fs cb raises =>
    simp only [freshObs, specObs, verifyFilesize_eq_spec t h fs cb]

/-- the metainfos after a history -/
def metasAfter (metas : List Torrent) (ops : List Op) : List Torrent := ops.foldl metaStep metas

theorem runFresh_append (metas : List Torrent) (ops : List Op) (op : Op) :
    runFresh metas (ops ++ [op]) = runFresh metas ops ++
      [match (metasAfter metas ops)[op.target]? with
        | none => Obs.nothing
        | some t => freshObs t op] := by
  induction ops generalizing metas with
  | nil => simp only [runFresh, metasAfter, List.nil_append, List.foldl_nil]; rfl
  | cons a rest ih => simp [runFresh, ih, metasAfter]

/-! ### the memoising variant with a memo that is consistent with the current metainfo -/

/-- every memo entry is what `partial_size` computes from the metainfo `t` -/
def MemoOk (t : Torrent) (m : Memo) : Prop :=
  ∀ p n, memoGet m p = some n → partialSize t p = .ok n

theorem partialSizeM_on (t : Torrent) (m : Memo) (p : List String) (h : MemoOk t m) :
    (partialSizeM true t m p).1 = partialSize t p ∧ MemoOk t (partialSizeM true t m p).2 := by
  unfold partialSizeM
  cases hs : t.isSingle with
  | true => exact ⟨rfl, h⟩
  | false =>
    simp only [Bool.not_false, Bool.and_self, if_true]
    cases hg : memoGet m p with
    | some n => exact ⟨(h p n hg).symm, h⟩
    | none =>
      cases hp : partialSize t p with
      | error e => exact ⟨rfl, h⟩
      | ok n =>
        refine ⟨rfl, ?_⟩
        intro q k hq
        simp only [memoGet] at hq
        by_cases hpq : p = q
        · subst hpq
          simp only [if_true, Option.some.injEq] at hq
          subst hq; exact hp
        · simp only [hpq, if_false] at hq
          exact h q k hq

theorem loopM_on (t : Torrent) (fs : FS) (cb : Callback) (total : Nat) (l : List Listed)
    (i : Nat) (exc : Option Err) (m : Memo) (h : MemoOk t m) :
    (loopM true t fs cb total i l exc m).1 = loop t fs cb total i l exc ∧
    MemoOk t (loopM true t fs cb total i l exc m).2 := by
  induction l generalizing i exc m with
  | nil => exact ⟨by simp [loopM, loop], by simpa [loopM] using h⟩
  | cons f rest ih =>
    obtain ⟨hA1, hA2⟩ := partialSizeM_on t m (t.name :: f.path) h
    unfold loopM loop
    generalize partialSizeM true t m (t.name :: f.path) = look at hA1 hA2 ⊢
    obtain ⟨r, m'⟩ := look
    simp only at hA1 hA2
    subst hA1
    dsimp only
    cases hent : pathExists (fs f.path) with
    | false =>
      simp only [Bool.not_false, if_true]
      cases hc : cancel cb total i (some Err.read) with
      | error e => exact ⟨rfl, h⟩
      | ok sc =>
        obtain ⟨stop, calls⟩ := sc
        cases stop with
        | true => exact ⟨rfl, h⟩
        | false =>
          obtain ⟨i1, i2⟩ := ih (i + 1) (some Err.read) m h
          simp only [Bool.false_eq_true, if_false]
          exact ⟨by rw [i1], i2⟩
    | true =>
      simp only [Bool.not_true, Bool.false_eq_true, if_false]
      cases hr : realSize (fs f.path) with
      | error e => exact ⟨rfl, h⟩
      | ok actual =>
        simp only []
        cases hp : partialSize t (t.name :: f.path) with
        | error e => exact ⟨rfl, hA2⟩
        | ok expected =>
          simp only []
          by_cases hne : actual = expected
          · simp only [hne, ne_eq, not_true_eq_false, if_false]
            cases hc : cancel cb total i none with
            | error e => exact ⟨rfl, hA2⟩
            | ok sc =>
              obtain ⟨stop, calls⟩ := sc
              cases stop with
              | true => exact ⟨rfl, hA2⟩
              | false =>
                obtain ⟨i1, i2⟩ := ih (i + 1) exc m' hA2
                simp only [Bool.false_eq_true, if_false]
                exact ⟨by rw [i1], i2⟩
          · simp only [hne, ne_eq, not_false_eq_true, if_true]
            cases hc : cancel cb total i (some (Err.size actual expected)) with
            | error e => exact ⟨rfl, hA2⟩
            | ok sc =>
              obtain ⟨stop, calls⟩ := sc
              cases stop with
              | true => exact ⟨rfl, hA2⟩
              | false =>
                obtain ⟨i1, i2⟩ := ih (i + 1) (some (Err.size actual expected)) m' hA2
                simp only [Bool.false_eq_true, if_false]
                exact ⟨by rw [i1], i2⟩

theorem verifyFilesizeM_on (t : Torrent) (m : Memo) (fs : FS) (cb : Callback) (h : MemoOk t m) :
    (verifyFilesizeM true t m fs cb).1 = verifyFilesize t fs cb ∧
    MemoOk t (verifyFilesizeM true t m fs cb).2 := by
  unfold verifyFilesizeM verifyFilesize
  dsimp only
  split
  · exact ⟨rfl, h⟩
  · split
    · cases hc : cancel cb t.listed.length 0 (some Err.isDir) with
      | error e => exact ⟨rfl, h⟩
      | ok sc => exact ⟨rfl, h⟩
    · exact loopM_on t fs cb _ _ 0 none m h

theorem lookupAllM_on (t : Torrent) (l : List Listed) (m : Memo) (h : MemoOk t m) :
    (lookupAllM true t l m).1 = l.map (fun f => partialSize t (t.name :: f.path)) ∧
    MemoOk t (lookupAllM true t l m).2 := by
  induction l generalizing m with
  | nil => exact ⟨rfl, h⟩
  | cons f rest ih =>
    obtain ⟨hA1, hA2⟩ := partialSizeM_on t m (t.name :: f.path) h
    obtain ⟨i1, i2⟩ := ih _ hA2
    simp only [lookupAllM, List.map_cons, hA1, i1, true_and]
    exact i2

def Op.isEdit : Op → Bool
  | .edit .. => true
  | _ => false

theorem mem_setObj (objs : List Obj) (o : Nat) (ob x : Obj) (hx : x ∈ setObj objs o ob) :
    x ∈ objs ∨ x = ob := List.mem_or_eq_of_mem_set hx

/-- a step that is not an edit through the mapping keeps every memo consistent and shows what a
    fresh object shows -/
theorem step_on (objs : List Obj) (op : Op) (hok : ∀ ob ∈ objs, MemoOk ob.info ob.memo)
    (hne : op.isEdit = false) :
    (∀ ob ∈ (step true objs op).1, MemoOk ob.info ob.memo) ∧
    (step true objs op).1.map (·.info) = metaStep (objs.map (·.info)) op ∧
    (step true objs op).2 =
      (match (objs.map (·.info))[op.target]? with
        | none => Obs.nothing
        | some t => freshObs t op) := by
  have hnil : ∀ t, MemoOk t [] := fun t p n hp => by simp [memoGet] at hp
  cases op with
  | edit o t' => simp [Op.isEdit] at hne
  | setter o t' =>
    simp only [step, metaStep, Op.target, List.getElem?_map, List.length_map]
    cases h : objs[o]? with
    | none =>
      have : ¬ o < objs.length := by
        intro hlt; rw [List.getElem?_eq_getElem hlt] at h; cases h
      simp [this]; exact hok
    | some ob =>
      have : o < objs.length := by
        rcases Nat.lt_or_ge o objs.length with h' | h'
        · exact h'
        · rw [List.getElem?_eq_none h'] at h; cases h
      refine ⟨?_, by simp [this, map_setObj], by simp [freshObs]⟩
      intro x hx
      rcases mem_setObj _ _ _ _ hx with hx | hx
      · exact hok x hx
      · subst hx; exact hnil _
  | copy o =>
    simp only [step, metaStep, Op.target, List.getElem?_map]
    cases h : objs[o]? with
    | none => simp; exact hok
    | some ob =>
      refine ⟨?_, by simp, by simp [freshObs]⟩
      intro x hx
      rcases List.mem_append.mp hx with hx | hx
      · exact hok x hx
      · simp only [List.mem_singleton] at hx; subst hx; exact hnil _
  | lookup o p =>
    simp only [step, metaStep, Op.target, List.getElem?_map]
    cases h : objs[o]? with
    | none => simp; exact hok
    | some ob =>
      obtain ⟨a1, a2⟩ := partialSizeM_on ob.info ob.memo p (hok ob (List.mem_of_getElem? h))
      refine ⟨?_, by simp [map_setObj, set_same_info objs o ob h], by simp [freshObs, a1]⟩
      intro x hx
      rcases mem_setObj _ _ _ _ hx with hx | hx
      · exact hok x hx
      · subst hx; exact a2
  | lookupAll o =>
    simp only [step, metaStep, Op.target, List.getElem?_map]
    cases h : objs[o]? with
    | none => simp; exact hok
    | some ob =>
      obtain ⟨a1, a2⟩ := lookupAllM_on ob.info ob.info.listed ob.memo (hok ob (List.mem_of_getElem? h))
      refine ⟨?_, by simp [map_setObj, set_same_info objs o ob h], by simp [freshObs, a1]⟩
      intro x hx
      rcases mem_setObj _ _ _ _ hx with hx | hx
      · exact hok x hx
      · subst hx; exact a2
  | props o =>
    simp only [step, metaStep, Op.target, List.getElem?_map]
    cases h : objs[o]? with
    | none => simp; exact hok
    | some ob => exact ⟨hok, rfl, by simp [freshObs]⟩
  | check o fs cb raises =>
    simp only [step, metaStep, Op.target, List.getElem?_map]
    cases h : objs[o]? with
    | none => simp; exact hok
    | some ob =>
      obtain ⟨a1, a2⟩ := verifyFilesizeM_on ob.info ob.memo fs cb (hok ob (List.mem_of_getElem? h))
      refine ⟨?_, by simp [map_setObj, set_same_info objs o ob h], by simp [freshObs, a1]⟩
      intro x hx
      rcases mem_setObj _ _ _ _ hx with hx | hx
      · exact hok x hx
      · subst hx; exact a2

theorem run_on (objs : List Obj) (ops : List Op) (hok : ∀ ob ∈ objs, MemoOk ob.info ob.memo)
    (hne : ∀ op ∈ ops, op.isEdit = false) :
    run true objs ops = runFresh (objs.map (·.info)) ops := by
  induction ops generalizing objs with
  | nil => rfl
  | cons op ops ih =>
    obtain ⟨h0, h1, h2⟩ := step_on objs op hok (hne op (List.mem_cons_self ..))
    simp only [run, runFresh]
    rw [ih _ h0 (fun x hx => hne x (List.mem_cons_of_mem _ hx)), h1, h2]
    rfl

end Torf.FileSize
