/-
  `validate`, the single-file branch, and the arithmetic of the expected piece count.
-/
import Torf.Lemmas.ValidateCommon
namespace Torf.Validate
open Torf Torf.Export

/-- `-(-size // piece_length)` is the ceiling of `size / piece_length` -/
theorem expPieces_eq {len pl : Int} (hl : 0 ≤ len) (hp : 0 < pl) :
    expPieces len pl = ((len.toNat + pl.toNat - 1) / pl.toNat : Nat) := by
  obtain ⟨a, rfl⟩ := Int.eq_ofNat_of_zero_le hl
  obtain ⟨b, rfl⟩ := Int.eq_ofNat_of_zero_le (Int.le_of_lt hp)
  have hb : 0 < b := by omega
  simp only [Int.toNat_natCast]
  unfold expPieces
  rw [Int.fdiv_eq_ediv_of_nonneg _ (by omega)]
  generalize hq : (a + b - 1) / b = q
  have h1 := Nat.div_add_mod (a + b - 1) b
  have h2 := Nat.mod_lt (a + b - 1) hb
  rw [hq] at h1
  generalize hm : (a + b - 1) % b = m at h1 h2
  have key : (-(a:Int)) / (b:Int) = -(q:Int) := by
    rw [Int.ediv_eq_iff_of_pos (by omega), Int.neg_mul, Int.mul_comm, ← Int.natCast_mul]
    generalize ht : b * q = t at h1
    omega
  rw [key]; omega

/-- the expected piece count never exceeds the size -/
theorem expPieces_le {len pl : Int} (hl : 0 ≤ len) (hp : 0 < pl) :
    0 ≤ expPieces len pl ∧ expPieces len pl ≤ len := by
  rw [expPieces_eq hl hp]
  obtain ⟨a, rfl⟩ := Int.eq_ofNat_of_zero_le hl
  obtain ⟨b, rfl⟩ := Int.eq_ofNat_of_zero_le (Int.le_of_lt hp)
  have hb : 0 < b := by omega
  simp only [Int.toNat_natCast]
  refine ⟨Int.natCast_nonneg _, ?_⟩
  have : (a + b - 1) / b ≤ a := by
    rw [Nat.div_le_iff_le_mul_add_pred hb]
    have := Nat.le_mul_of_pos_left a hb
    omega
  omega

theorem expPieces_zero {pl : Int} (hp : 0 < pl) : expPieces 0 pl = 0 := by
  rw [expPieces_eq (Int.le_refl 0) hp]
  have : (0 : Int).toNat = 0 := rfl
  rw [this, Nat.zero_add]
  have : pl.toNat - 1 < pl.toNat := by omega
  rw [Nat.div_eq_of_lt this]; rfl

/-- a value that passed `(int, float)` + `is_file_length` is a non-negative whole number -/
theorem numVal_of_fileLength {l : PyVal} (h1 : isIntOrFloat l = true) (h2 : isFileLength l = true) :
    ∃ n, numVal? l = some n ∧ 0 ≤ n := by
  cases l with
  | int i =>
    simp only [isFileLength, intVal] at h2
    exact ⟨i, rfl, of_decide_eq_true h2⟩
  | bool b => cases b <;> simp [numVal?]
  | float f =>
    cases f with
    | fin t integral neg =>
      simp only [isFileLength, Bool.and_eq_true, decide_eq_true_eq] at h2
      obtain ⟨hi, ht⟩ := h2
      subst hi
      exact ⟨t, rfl, ht⟩
    | _ => simp [isFileLength] at h2
  | _ => simp [isIntOrFloat, PyVal.isInt, PyVal.isFloat] at h1

/-- `piece length` passed `is_divisible_by_16_kib` -/
theorem pieceLength_pos {v : PyVal} (h : isDivisibleBy16KiB v = true) :
    0 < intVal v ∧ intVal v % 16384 = 0 := by
  unfold isDivisibleBy16KiB at h
  split at h
  · exact absurd h (by simp)
  · constructor
    · omega
    · simpa using h

/-! ### one answer of the OS -/

/-- `exists` → `isfile` → `real_size` on one `stat` answer: the size of a regular file, and
    MetainfoError for every other answer — a directory, a FIFO or socket, every errno, a path
    that never reaches the OS.  In particular `real_size` never fails here and never walks. -/
theorem statSize_cases (st : Stat) :
    (∃ n, st = .file n ∧ statSize st = .ok n) ∨
    (st.isFile = false ∧ statSize st = .error .metainfo) := by
  cases st <;> simp [statSize, Stat.exists, Stat.isFile, realSize, bind, Except.bind, pure, Except.pure,
    throw, throwThe, MonadExceptOf.throw]

theorem checkRootFile_cases (fs : FsOracle) (len : Int) :
    (checkRootFile fs len = .ok () ∧ fs.root = .file len.toNat ∧ 0 ≤ len) ∨
    checkRootFile fs len = .error .metainfo := by
  unfold checkRootFile
  cases h : fs.root with
  | file n =>
    by_cases hn : (n : Int) = len
    · left; subst hn
      simp [Stat.isFile, realSize, bind, Except.bind, pure, Except.pure]
    · right
      simp [Stat.isFile, realSize, bind, Except.bind, pure, Except.pure, hn, throw, throwThe,
        MonadExceptOf.throw]
  | _ => right; simp [Stat.isFile, bind, Except.bind, throw, throwThe, MonadExceptOf.throw]

/-- what the single-file branch establishes -/
def SingleFacts (info : Items) (plen : Nat) : Prop :=
  ∃ l len pv, PyVal.lookupStr "length" info = some l ∧ isIntOrFloat l = true ∧
    isFileLength l = true ∧ numVal? l = some len ∧ 0 ≤ len ∧
    PyVal.lookupStr "piece length" info = some pv ∧
    ((plen / 20 : Nat) : Int) = expPieces len (intVal pv)

variable (urlOk : Bytes → Bool) (fs : FsOracle)

theorem checkSingle_cases {items info : Items} (cf : CommonFacts urlOk items info) (plen : Nat)
    (r : Except ErrKind Unit) (h : checkSingle fs (.dict items) (.dict info) plen = r) :
    (r = .ok () → SingleFacts info plen) ∧
    (∀ e, r = .error e → e = .metainfo) := by
  subst h
  obtain ⟨pv, hpv, _, hpd⟩ := cf.pieceLength
  unfold checkSingle
  rw [assertType_info cf.hinfo, assertType_info cf.hinfo]
  cases h1 : assertFinal (.dict info) (.s "length") { types := isIntOrFloat, check := some isFileLength } with
  | error e1 =>
    refine ⟨fun h => absurd h (by simp [bind, Except.bind]), fun e h => ?_⟩
    simp only [bind, Except.bind, Except.error.injEq] at h
    subst h
    exact assertFinal_dict_err h1
  | ok u =>
    obtain ⟨l, hl, hlp⟩ := (assertFinal_dict_ok h1).2 rfl
    simp only [passes, Bool.and_eq_true] at hlp
    obtain ⟨len, hnum, hlen0⟩ := numVal_of_fileLength hlp.1 hlp.2
    cases h2 : assertFinal (.dict info) (.s "md5sum")
        { types := PyVal.isStr, mustExist := false, check := some isMd5sum } with
    | error e2 =>
      refine ⟨fun h => absurd h (by simp [bind, Except.bind]), fun e h => ?_⟩
      simp only [bind, Except.bind, Except.error.injEq] at h
      subst h
      exact assertFinal_dict_err h2
    | ok u2 =>
      simp only [bind, Except.bind, getE_ok (getItem_dict_s_some hpv),
        getE_ok (getItem_dict_s_some hl), hnum]
      have hpos := pieceLength_pos hpd
      by_cases hc : ((plen / 20 : Nat) : Int) = expPieces len (intVal pv)
      · constructor
        · intro _
          exact ⟨l, len, pv, hl, hlp.1, hlp.2, hnum, hlen0, hpv, hc⟩
        · intro e h
          simp only [hc, ne_eq, not_true_eq_false, if_false, pure, Except.pure] at h
          split at h
          · rcases checkRootFile_cases fs len with ⟨hk, _⟩ | hk
            · rw [hk] at h; exact absurd h (by simp)
            · rw [hk] at h; simpa [eq_comm] using h
          · exact absurd h (by simp)
      · simp only [hc, ne_eq, not_false_eq_true, if_true]
        refine ⟨fun h => absurd h (by simp [throw, throwThe, MonadExceptOf.throw]), fun e h => ?_⟩
        simpa [throw, throwThe, MonadExceptOf.throw, eq_comm] using h
