/-
  Torf.Lemmas.PipelineC04Refuse — refused thread starts (C04).
  * `InvRR`: if the reader's start is refused nothing else is ever started; main raises that
    RuntimeError.
  * `InvR1`: the control invariant `InvB1` of C03 without its clause "no hasher is refused", for
    configurations in which only non-vital hashers (number ≥ 1) can be refused (`NonVital`):
    `HasherPool.__init__` swallows those refusals and carries on.
-/
import Torf.Lemmas.PipelineC04Inv
namespace Torf.Pipeline

/-! ### the reader's start is refused -/

structure InvRR (s : State) : Prop where
  pc : s.main = MPc.startReaderChk ∨ s.main = MPc.startReader ∨
    s.main = MPc.finished (.raised (.startRefused .reader))
  r : s.rpc = RPc.notStarted ∨ s.rpc = RPc.refused
  h : ∀ (i : Nat) (p : HPc), s.hs[i]? = some p → p = HPc.notStarted
  j : s.jan = JPc.notStarted

theorem InvRR.init (cfg : Cfg) : InvRR (init cfg) := by
  constructor <;> simp [Pipeline.init]
  intro i p hp; rw [List.getElem?_replicate] at hp; split at hp <;> simp_all

theorem InvRR.step {cfg : Cfg} {s s' : State} (hrr : Tid.reader ∈ cfg.refuse) (h : InvRR s)
    (hs : StepG cfg s s') : InvRR s' := by
  obtain ⟨pc, r, hh, j⟩ := h
  cases hs with
  | main h' =>
    cases h' with
    | ok h'' hR _ _ =>
      cases h'' <;>
        (have hm := ‹s.main = _›
         simp only [hm] at pc hR
         first
         | (simp at pc; done)
         | (exact absurd hrr (hR rfl))
         | (constructor <;> grind))
    | _ =>
      have hm := ‹s.main = _›
      simp only [hm] at pc
      first
      | (simp at pc; done)
      | (constructor <;> grind)
  | reader h' =>
    cases h' with
    | begin hr t hn => rw [hr] at r; simp at r
    | put k hr hc t hn => rw [hr] at r; simp at r
    | close hr hc => rw [hr] at r; simp at r
  | hasher i h' => cases h' <;> first | (constructor <;> assumption) | (have := hh _ _ ‹_›; simp at this)
  | janitor h' => cases h' <;> (rw [j] at *; simp_all)

theorem InvRR.of_reachable {cfg : Cfg} {s : State} (hrr : Tid.reader ∈ cfg.refuse)
    (h : Reachable cfg s) : InvRR s :=
  Reachable.induction (P := InvRR) (InvRR.init cfg)
    (fun _ _ _ hr hp hs => hp.step hrr (StepG.of_step (InvA.of_reachable hr) hs)) h

theorem InvRR.terminal {s : State} (h : InvRR s) (ht : terminal s = true) :
    result? s = some (.raised (.startRefused .reader)) ∧ allThreadsDone s = true := by
  obtain ⟨r, hm⟩ := result_of_terminal ht
  have hpc := h.pc
  rw [hm] at hpc
  simp only [reduceCtorEq, MPc.finished.injEq, false_or] at hpc
  subst hpc
  refine ⟨by simp [result?, hm], ?_⟩
  unfold allThreadsDone
  have hr : s.rpc.running = false := by rcases h.r with h' | h' <;> simp [h', RPc.running]
  simp only [hr, h.j, JPc.running, Bool.not_false, Bool.true_and, Bool.and_true, List.all_eq_true,
    Bool.not_eq_eq_eq_not, Bool.not_true]
  intro p hp
  obtain ⟨i, hi⟩ := List.mem_iff_getElem?.1 hp
  rw [h.h i p hi]; rfl

/-! ### only non-vital hashers are refused -/

/-- the only starts the OS refuses are those of hashers other than the vital one -/
def NonVital (cfg : Cfg) : Prop := ∀ t ∈ cfg.refuse, ∃ i : Nat, 1 ≤ i ∧ t = Tid.hasher i

structure InvR1 (cfg : Cfg) (s : State) : Prop where
  len : s.hs.length = cfg.N
  trk : s.tracked.length ≤ cfg.N
  nrefR : s.rpc ≠ RPc.refused
  nrefJ : s.jan ≠ JPc.refused
  nrefH : s.hs[0]? ≠ some HPc.refused
  rstart : preReader s.main = true ↔ s.rpc = .notStarted
  hstart : ∀ j : Nat, j < startedCnt cfg s.main → s.hs[j]? ≠ some HPc.notStarted
  jstart : preJan s.main = true ↔ s.jan = .notStarted
  trk0 : s.jan = .notStarted → s.tracked = List.range cfg.N
  rjoined : postReaderJoin s.main = true → s.rpc = .done

theorem InvR1.init (cfg : Cfg) : InvR1 cfg (init cfg) := by
  constructor <;> simp [Pipeline.init, preReader, preJan, postReaderJoin, startedCnt]
  rw [List.getElem?_replicate]; split <;> simp

theorem InvR1.main {cfg : Cfg} {s s' : State} (hnv : NonVital cfg) (h : InvR1 cfg s)
    (hs : MainStepG cfg s s') : InvR1 cfg s' := by
  obtain ⟨len, trk, nrefR, nrefJ, nrefH, rstart, hstart, jstart, trk0, rjoined⟩ := h
  cases hs with
  | ok h' _ _ _ =>
    cases h' <;>
      (have hm := ‹s.main = _›
       simp only [hm, preReader, preJan, postReaderJoin, startedCnt] at rstart hstart jstart rjoined
       constructor <;> (try simp only [preReader_joinTarget, preJan_joinTarget,
         postReaderJoin_joinTarget, startedCnt_joinTarget]) <;>
         (try simp only [preReader, preJan, postReaderJoin, startedCnt]) <;> grind [RPc.done_of])
  | refReader hm hr => obtain ⟨i, _, hi⟩ := hnv _ hr; simp at hi
  | refJanitor hm hr => obtain ⟨i, _, hi⟩ := hnv _ hr; simp at hi
  | refVital hm hr => obtain ⟨i, h1, hi⟩ := hnv _ hr; simp at hi; omega
  | refHasherNext i hm h0 hr hi =>
    simp only [hm, preReader, preJan, postReaderJoin, startedCnt] at rstart hstart jstart rjoined
    constructor <;> (try simp only [preReader, preJan, postReaderJoin, startedCnt]) <;> grind
  | refHasherLast i hm h0 hr hi =>
    simp only [hm, preReader, preJan, postReaderJoin, startedCnt] at rstart hstart jstart rjoined
    constructor <;> (try simp only [preReader, preJan, postReaderJoin, startedCnt]) <;> grind

theorem InvR1.reader {cfg : Cfg} {s s' : State} (h : InvR1 cfg s)
    (hs : ReaderStep cfg s s') : InvR1 cfg s' := by
  obtain ⟨len, trk, nrefR, nrefJ, nrefH, rstart, hstart, jstart, trk0, rjoined⟩ := h
  have hpost : ∀ r : RPc, s.rpc = r → r.running = true → postReaderJoin s.main = false := by
    intro r hr hrun
    cases hp : postReaderJoin s.main
    · rfl
    · rw [← hr, rjoined hp] at hrun; simp [RPc.running] at hrun
  cases hs with
  | begin hr t hn =>
    have := hpost _ hr rfl
    cases hn <;> (constructor <;> grind)
  | put k hr hc t hn =>
    have := hpost _ hr rfl
    cases hn <;> (constructor <;> grind)
  | close hr hc =>
    have := hpost _ hr rfl
    constructor <;> grind

theorem InvR1.hasher {cfg : Cfg} {s s' : State} {i : Nat} (h : InvR1 cfg s)
    (hs : HasherStep cfg s i s') : InvR1 cfg s' := by
  obtain ⟨len, trk, nrefR, nrefJ, nrefH, rstart, hstart, jstart, trk0, rjoined⟩ := h
  cases hs <;> (constructor <;> grind)

theorem InvR1.janitor {cfg : Cfg} {s s' : State} (h : InvR1 cfg s)
    (hs : JanitorStep s s') : InvR1 cfg s' := by
  obtain ⟨len, trk, nrefR, nrefJ, nrefH, rstart, hstart, jstart, trk0, rjoined⟩ := h
  have hpre : ∀ j : JPc, s.jan = j → j ≠ .notStarted → preJan s.main = false := by
    intro j hj hne
    cases hp : preJan s.main
    · rfl
    · rw [← hj, jstart.1 hp] at hne; simp at hne
  cases hs <;>
    (have := hpre _ ‹s.jan = _› (by simp)
     constructor <;> grind [spinPc_cases, prunePc_cases, List.length_erase])

theorem InvR1.step {cfg : Cfg} {s s' : State} (hnv : NonVital cfg) (h : InvR1 cfg s)
    (hs : StepG cfg s s') : InvR1 cfg s' := by
  cases hs with
  | main h' => exact h.main hnv h'
  | reader h' => exact h.reader h'
  | hasher i h' => exact h.hasher h'
  | janitor h' => exact h.janitor h'

/-- the janitor's steps preserve C03's janitor invariant with `InvR1` in place of `InvB1` -/
theorem InvB3.janitorG {cfg : Cfg} {s s' : State} (hB : InvR1 cfg s) (h : InvB3 cfg s)
    (hs : JanitorStep s s') : InvB3 cfg s' := by
  obtain ⟨j2, jp, js1, js2, jc1, jc2, m5, h1, h2, h3⟩ := h
  have htrk := hB.trk
  cases hs with
  | begin hj => constructor <;> grind
  | wake hj hf =>
    have := spinPc_cases s.tracked
    constructor <;> grind
  | timeout hj hf =>
    have := prunePc_cases s.tracked
    constructor <;> grind
  | pruneKeep h rest hj hr =>
    have := prunePc_cases rest
    constructor <;> grind
  | pruneDrop h rest hj hr =>
    have := prunePc_cases rest
    have hr' := hasherRunning_false hr
    constructor <;> grind
  | spinRestart h rest hj hr =>
    have := spinPc_cases s.tracked
    constructor <;> grind
  | spinNext h rest hj hr =>
    have := spinPc_cases rest
    have hr' := hasherRunning_false hr
    constructor <;> grind
  | close hj => constructor <;> grind [q_push]

end Torf.Pipeline
