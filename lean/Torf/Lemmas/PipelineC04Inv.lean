/-
  Torf.Lemmas.PipelineC04Inv — invariant clauses behind C04, valid for EVERY configuration
  (`InvG`): the hasher table has N entries, the piece queue never exceeds its capacity, the
  reader's exception flag is only set by the configured read fault and only when the reader has
  left its loop, main only carries the read error if that flag is set, a returned result is the collector's list, and a pending callback exception
  `.cb d` was raised by the callback call for the last piece collected, at pieces_done = d.
  `stop` and `rexc` are never reset.
-/
import Torf.Lemmas.PipelineC04Step
import Torf.Lemmas.PipelineOut
namespace Torf.Pipeline

structure InvG (cfg : Cfg) (s : State) : Prop where
  len : s.hs.length = cfg.N
  pqcap : s.pq.length ≤ cfg.cap
  rexcPc : s.rexc = true → s.rpc = RPc.closing ∨ s.rpc = RPc.done
  rexcCfg : s.rexc = true → ∃ r, cfg.readFault = some r ∧ r ≤ cfg.items.length
  ret : ∀ c, s.main = MPc.finished (.returned c) → c = s.collected
  cbExc : ∀ d, mainExc s.main = some (Exc.cb d) →
    d = s.seen.length ∧ ∃ k, s.seen.getLast? = some k ∧ cfg.cb k d = Decision.raise
  rdExc : mainExc s.main = some Exc.read → s.rexc = true

theorem InvG.init (cfg : Cfg) : InvG cfg (init cfg) := by
  constructor <;> simp [Pipeline.init, mainExc]

theorem resultOf_returned {s : State} {e : Option Exc} {c : List Nat}
    (h : resultOf s e = .returned c) : c = s.collected := by
  cases e <;> simp_all [resultOf]

theorem InvG.main {cfg : Cfg} {s s' : State} (hA : InvA cfg s) (h : InvG cfg s)
    (hs : MainStepG cfg s s') : InvG cfg s' := by
  obtain ⟨len, pqcap, rexcPc, rexcCfg, ret, cbExc, rdExc⟩ := h
  have hrfresh := hA.rfresh
  cases hs with
  | ok h' _ _ _ =>
    cases h' <;>
      (have hm := ‹s.main = _›
       simp only [hm, mainExc] at cbExc ret rdExc
       constructor <;> (try simp only [mainExc_joinTarget, mainExc_finished]) <;>
         (try simp only [mainExc]) <;> grind [resultOf_returned, joinTarget_cases])
  | _ =>
    have hm := ‹s.main = _›
    simp only [hm, mainExc] at cbExc ret rdExc
    constructor <;> (try simp only [mainExc]) <;> grind

theorem InvG.reader {cfg : Cfg} {s s' : State} (hA : InvA cfg s) (h : InvG cfg s)
    (hs : ReaderStep cfg s s') : InvG cfg s' := by
  obtain ⟨len, pqcap, rexcPc, rexcCfg, ret, cbExc, rdExc⟩ := h
  have hput := hA.putting
  cases hs with
  | begin hr t hn => cases hn <;> (constructor <;> grind)
  | put k hr hc t hn => cases hn <;> (constructor <;> grind)
  | close hr hc => constructor <;> grind

theorem InvG.hasher {cfg : Cfg} {s s' : State} {i : Nat} (h : InvG cfg s)
    (hs : HasherStep cfg s i s') : InvG cfg s' := by
  obtain ⟨len, pqcap, rexcPc, rexcCfg, ret, cbExc, rdExc⟩ := h
  cases hs <;> (constructor <;> grind)

theorem InvG.janitor {cfg : Cfg} {s s' : State} (h : InvG cfg s)
    (hs : JanitorStep s s') : InvG cfg s' := by
  obtain ⟨len, pqcap, rexcPc, rexcCfg, ret, cbExc, rdExc⟩ := h
  cases hs <;> (constructor <;> grind)

theorem InvG.step {cfg : Cfg} {s s' : State} (hA : InvA cfg s) (h : InvG cfg s)
    (hs : StepG cfg s s') : InvG cfg s' := by
  cases hs with
  | main h' => exact h.main hA h'
  | reader h' => exact h.reader hA h'
  | hasher i h' => exact h.hasher h'
  | janitor h' => exact h.janitor h'

theorem InvG.of_reachable {cfg : Cfg} {s : State} (h : Reachable cfg s) : InvG cfg s :=
  Reachable.induction (P := InvG cfg) (InvG.init cfg)
    (fun _ _ _ hr hp hs => hp.step (InvA.of_reachable hr) (StepG.of_step (InvA.of_reachable hr) hs)) h

/-- the stop flag and the reader's exception flag are never reset -/
theorem StepG.mono {cfg : Cfg} {s s' : State} (hs : StepG cfg s s') :
    (s.stop = true → s'.stop = true) ∧ (s.rexc = true → s'.rexc = true) := by
  cases hs with
  | main h' =>
    cases h' with
    | ok h'' _ _ _ => cases h'' <;> simp
    | _ => simp
  | reader h' =>
    cases h' with
    | begin hr t hn => cases hn <;> simp
    | put k hr hc t hn => cases hn <;> simp
    | close hr hc => simp
  | hasher i h' => cases h' <;> simp
  | janitor h' => cases h' <;> simp

end Torf.Pipeline
