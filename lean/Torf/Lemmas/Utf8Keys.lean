/-
  Everything `encode_dict` produces has UTF-8 dict keys at every level, and so has its
  key-sorted normal form (what a parser reads back from the dump).
-/
import Torf.Lemmas.EncDec
namespace Torf.ReadStream
open Torf Torf.Bencode Torf.Codec

theorem utf8Dec_enc (s : String) : utf8Dec (utf8Enc s) = some s := by
  unfold utf8Dec utf8Enc String.fromUTF8?
  have h : (⟨s.toUTF8.data.toList.toArray⟩ : ByteArray) = s.toByteArray := by simp
  rw [h]
  split
  · simp [String.fromUTF8]
  · rename_i hn; exact absurd s.isValidUTF8 hn

mutual
theorem utf8Keys_encodeValue : ∀ (m : PyVal) (u : BVal), encodeValue m = .ok u →
    utf8Keys u = true
  | .bytes _, u, h => by simp only [encodeValue, Except.ok.injEq] at h; subst h; rfl
  | .int _, u, h => by simp only [encodeValue, Except.ok.injEq] at h; subst h; rfl
  | .str _, u, h => by simp only [encodeValue, Except.ok.injEq] at h; subst h; rfl
  | .float (.fin _ _ _), u, h => by simp only [encodeValue, Except.ok.injEq] at h; subst h; rfl
  | .float .nan, u, h => by simp [encodeValue] at h
  | .float .pinf, u, h => by simp [encodeValue] at h
  | .float .ninf, u, h => by simp [encodeValue] at h
  | .bool _, u, h => by simp only [encodeValue, Except.ok.injEq] at h; subst h; rfl
  | .datetime (some _), u, h => by simp only [encodeValue, Except.ok.injEq] at h; subst h; rfl
  | .datetime none, u, h => by simp [encodeValue] at h
  | .none, u, h => by simp [encodeValue] at h
  | .other _, u, h => by simp [encodeValue] at h
  | .list l, u, h => by
    simp only [encodeValue] at h
    split at h
    · rename_i l' hl
      simp only [Except.ok.injEq] at h; subst h
      simp only [utf8Keys]; exact utf8Keys_encodeList l l' hl
    · exact absurd h (by simp)
  | .tuple l, u, h => by
    simp only [encodeValue] at h
    split at h
    · rename_i l' hl
      simp only [Except.ok.injEq] at h; subst h
      simp only [utf8Keys]; exact utf8Keys_encodeList l l' hl
    · exact absurd h (by simp)
  | .dict kvs, u, h => by
    simp only [encodeValue] at h
    split at h
    · rename_i es hes
      simp only [Except.ok.injEq] at h; subst h
      have hv := utf8Keys_encodeKvs kvs es hes
      simp only [utf8Keys]
      rw [utf8KeysKvs_iff]
      intro p hp
      obtain ⟨q, hq, rfl⟩ := List.mem_map.mp hp
      exact ⟨by simp [encKey, utf8Dec_enc], hv q ((isort_perm strLe es).subset hq)⟩
    · exact absurd h (by simp)
theorem utf8Keys_encodeList : ∀ (l : List PyVal) (l' : List BVal), encodeList l = .ok l' →
    utf8KeysList l' = true
  | [], l', h => by simp only [encodeList, Except.ok.injEq] at h; subst h; rfl
  | v :: t, l', h => by
    simp only [encodeList] at h
    split at h
    · exact absurd h (by simp)
    · rename_i v' hv
      split at h
      · exact absurd h (by simp)
      · rename_i t' ht
        simp only [Except.ok.injEq] at h; subst h
        simp only [utf8KeysList, Bool.and_eq_true]
        exact ⟨utf8Keys_encodeValue v v' hv, utf8Keys_encodeList t t' ht⟩
theorem utf8Keys_encodeKvs : ∀ (kvs : List (PyVal × PyVal)) (es : List (String × BVal)),
    encodeKvs kvs = .ok es → ∀ p ∈ es, utf8Keys p.2 = true
  | [], es, h => by simp only [encodeKvs, Except.ok.injEq] at h; subst h; simp
  | (k, v) :: t, es, h => by
    obtain ⟨s, v', t', rfl, hv, ht, rfl⟩ := encodeKvs_cons_ok h
    intro p hp
    rcases List.mem_cons.mp hp with rfl | hp
    · exact utf8Keys_encodeValue v v' hv
    · exact utf8Keys_encodeKvs t t' ht p hp
end

theorem normKvs_mem {p : Bytes × BVal} : ∀ {kvs : List (Bytes × BVal)}, p ∈ normKvs kvs →
    ∃ q ∈ kvs, p = (q.1, norm q.2)
  | [], h => by simp [normKvs] at h
  | (k, v) :: t, h => by
    simp only [normKvs, List.mem_cons] at h
    rcases h with rfl | h
    · exact ⟨(k, v), List.mem_cons_self, rfl⟩
    · obtain ⟨q, hq, hp⟩ := normKvs_mem h
      exact ⟨q, List.mem_cons_of_mem _ hq, hp⟩

mutual
theorem utf8Keys_norm : ∀ v : BVal, utf8Keys v = true → utf8Keys (norm v) = true
  | .int _, _ => rfl
  | .bytes _, _ => rfl
  | .list l, h => by simp only [norm, utf8Keys] at h ⊢; exact utf8KeysList_norm l h
  | .dict kvs, h => by
    simp only [norm, utf8Keys] at h ⊢
    rw [utf8KeysKvs_iff]
    intro p hp
    exact (utf8KeysKvs_iff _).mp (utf8KeysKvs_norm kvs h) p ((isort_perm keyLe _).subset hp)
theorem utf8KeysList_norm : ∀ l : List BVal, utf8KeysList l = true →
    utf8KeysList (normList l) = true
  | [], _ => rfl
  | v :: t, h => by
    simp only [utf8KeysList, Bool.and_eq_true] at h
    simp only [normList, utf8KeysList, Bool.and_eq_true]
    exact ⟨utf8Keys_norm v h.1, utf8KeysList_norm t h.2⟩
theorem utf8KeysKvs_norm : ∀ kvs : List (Bytes × BVal), utf8KeysKvs kvs = true →
    utf8KeysKvs (normKvs kvs) = true
  | [], _ => rfl
  | (k, v) :: t, h => by
    simp only [utf8KeysKvs, Bool.and_eq_true] at h
    simp only [normKvs, utf8KeysKvs, Bool.and_eq_true]
    exact ⟨⟨h.1.1, utf8Keys_norm v h.1.2⟩, utf8KeysKvs_norm t h.2⟩
end

end Torf.ReadStream
