/-
  Torf.Lemmas.PipelineExitFair — infinite executions of the pipeline with exit paths project to
  infinite executions of the base system; without a failure window fairness carries over, so the
  termination theorem of C03 does.
-/
import Torf.Lemmas.PipelineExit
import Torf.Lemmas.PipelineFair
namespace Torf.PipelineExit
open Torf.Pipeline

/-- an infinite execution of the extended system -/
structure ExecE (c : CfgE) where
  st : Nat → StateE
  lab : Nat → Label
  start : st 0 = initE c
  next : ∀ n, stepE c (st n) (lab n) = some (st (n + 1))

/-- thread `t` can take a step in `x` -/
def enabledE (c : CfgE) (x : StateE) (t : Tid) : Prop := ∃ b x', stepE c x ⟨t, b⟩ = some x'

/-- weak fairness: no thread stays enabled forever without being scheduled -/
def ExecE.Fair {c : CfgE} (e : ExecE c) : Prop :=
  ∀ (t : Tid) (n : Nat), ∃ m, n ≤ m ∧ ((e.lab m).tid = t ∨ ¬ enabledE c (e.st m) t)

namespace ExecE
variable {c : CfgE} (e : ExecE c)

theorem reachable (n : Nat) : ReachableE c (e.st n) := by
  induction n with
  | zero => rw [e.start]; exact ReachableE.init c
  | succ n ih => exact ih.step (e.next n)

/-- the base components form an execution of the base system with the same labels -/
def toBase : Exec c.base where
  st n := (e.st n).base
  lab := e.lab
  start := by rw [e.start]; rfl
  next n := stepE_base (e.next n)

theorem toBase_fair (hmf : c.mainFail = none) (hf : e.Fair) : e.toBase.Fair := by
  intro t n
  obtain ⟨m, hm, h⟩ := hf t n
  refine ⟨m, hm, h.imp id fun hne hen => hne ?_⟩
  obtain ⟨b, s', hs⟩ := hen
  obtain ⟨x', hx', _⟩ := stepE_lift (.inl (failed_none hmf (e.reachable m))) hs
  exact ⟨b, x', hx'⟩

theorem not_fair (hwf : wf c.base = true) (hrf : c.base.refuse = []) (hmf : c.mainFail = none)
    (hf : e.Fair) : False :=
  e.toBase.not_fair hwf hrf (e.toBase_fair hmf hf)

end ExecE
end Torf.PipelineExit
