/-
  Helper lemmas for C02 (round 4): what a listed file is depends on where the spelling of the
  content path resolves to, not on its text.
-/
import Torf.Model.VerifySpelling
import Torf.Lemmas.ReuseSearch
namespace Torf.VerifySpelling
open Torf Torf.Verify Torf.VerifyFs Torf.VerifyCall
open Torf.Reuse (World Node OsErr Loc Walk resolve isdir walk walk1 maxLinks FS walk_append)
open Torf.Paths (PPath)

/-- no symbolic link is met when the components `n` are walked from directory `st` -/
def NoLinkBelow (fs : FS) (st : List Nat) (n : List String) : Prop :=
  ∀ s t r, walk1 fs st n ≠ .follow s t r

/-- without links the budget of links the OS follows does not matter -/
theorem walk_nofollow (fs : FS) (k : Nat) (st : List Nat) (n : List String)
    (h : NoLinkBelow fs st n) : walk fs k st n = walk fs 0 st n := by
  cases k with
  | zero => rfl
  | succ k =>
    unfold walk
    cases hw : walk1 fs st n with
    | done l => rfl
    | err e => rfl
    | follow s t r => exact absurd hw (h s t r)

/-- the file below a spelled directory is found by walking its listed name from the directory the
    spelling resolves to -/
theorem resolve_join (w : World) (p : PPath) (st : List Nat) (n : List String)
    (hp : resolve w p = .ok (.dir st)) (hn : NoLinkBelow w.fs st n) :
    resolve w (joinPath p n) = walk w.fs 0 st n := by
  unfold resolve at hp ⊢
  unfold joinPath
  simp only
  by_cases hg : (!p.abs && p.comps.headD "" == "") = true
  · simp only [hg, if_true] at hp; cases hp
  · simp only [hg, Bool.false_eq_true, if_false] at hp
    have hg' : (!p.abs && (p.comps ++ n).headD "" == "") = false := by
      cases ha : p.abs with
      | true => simp
      | false =>
        simp only [ha, Bool.not_false, Bool.true_and] at hg ⊢
        cases hc : p.comps with
        | nil => simp [hc] at hg
        | cons c cs => simp only [hc, List.cons_append, List.headD_cons] at hg ⊢; simpa using hg
    simp only [hg', Bool.false_eq_true, if_false]
    obtain ⟨k, _, hk⟩ := walk_append w.fs n maxLinks _ _ st hp
    rw [hk, walk_nofollow w.fs k st n hn]

theorem stateOf_join {α : Type} (e : Env α) (p p' : PPath) (st : List Nat) (n : List String)
    (hp : resolve e.w p = .ok (.dir st)) (hp' : resolve e.w p' = .ok (.dir st))
    (hn : NoLinkBelow e.w.fs st n) :
    stateOf e (joinPath p n) = stateOf e (joinPath p' n) := by
  unfold stateOf
  rw [resolve_join e.w p st n hp hn, resolve_join e.w p' st n hp' hn]

end Torf.VerifySpelling
