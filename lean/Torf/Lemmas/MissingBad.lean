/-
  Helper lemmas for C10 (part 5): the invariant is re-established after a bad file
  (abstractly, given the skip / by-catch decision).
-/
import Torf.Lemmas.MissingCall
namespace Torf.Missing
open Torf

theorem take_extend_replicate (l : List β) (x : β) (q d : Nat)
    (h : ∀ i, q ≤ i → i < q + d → l[i]? = some x) :
    l.take (q + d) = l.take q ++ List.replicate d x := by
  induction d with
  | zero => simp
  | succ d ih =>
    rw [← Nat.add_assoc, List.take_add_one, ih (fun i h1 h2 => h i h1 (by omega)),
      h (q + d) (by omega) (by omega), List.replicate_succ']
    simp

theorem range_split (m m' : Nat) (h : m < m') :
    List.range m' = List.range m ++ m :: List.range' (m + 1) (m' - m - 1) := by
  rw [List.range_eq_range', List.range_eq_range', ← List.range'_succ]
  have : m' = m + (m' - m - 1 + 1) := by omega
  conv => lhs; rw [this]
  rw [← List.range'_append_1]
  simp

/-- the by-catch exceptions of a list of files -/
theorem bycatchExcs_append (sizes : List Nat) (disk : List (Option (List α))) (a b : List Nat) :
    bycatchExcs sizes disk (a ++ b) = bycatchExcs sizes disk a ++ bycatchExcs sizes disk b := by
  simp [bycatchExcs]

theorem bycatchExcs_good (sizes : List Nat) (disk : List (Option (List α))) (a : List Nat)
    (h : ∀ k ∈ a, fileError sizes disk k = none) : bycatchExcs sizes disk a = [] := by
  unfold bycatchExcs
  rw [List.filterMap_eq_nil_iff]
  intro k hk
  rw [h k hk]; rfl

theorem core_after_bad (L : Nat) (hL : 0 < L) (sizes : List Nat) (disk : List (Option (List α)))
    (st : St α) (m : Nat) (hm : m < sizes.length) (reason : ErrKind)
    (hbad : fileError sizes disk m = some reason) (hS : 0 < sizeOf sizes m)
    (hc : Core L sizes disk m st) (b : Nat)
    (hb1 : b * L < pos sizes (m + 1)) (_hb2 : pos sizes (m + 1) ≤ b * L + L)
    (hqb : st.out.length ≤ b) (hPm : pos sizes m < st.out.length * L + L)
    (m' sk : Nat) (by_ : List Nat) (hm1 : m < m') (_hm2 : m' ≤ sizes.length)
    (hbex : bycatchExcs sizes disk by_ =
      (List.range' (m + 1) (m' - m - 1)).filterMap
        fun k => (fileError sizes disk k).map fun e => (k, e))
    (hfront : pos sizes m' + sk ≤ b * L + L)
    (hle : b * L + L ≤ pos sizes m' + sk ∨ m' = sizes.length)
    (hsk : 0 < sk → m' < sizes.length ∧ sk < sizeOf sizes m' ∧ sk < L ∧
      b * L + L = pos sizes m' + sk) :
    Core L sizes disk m'
      { st with trailing := [], skip := sk,
                seen := st.seen ++ List.range' st.out.length (b + 1 - st.out.length),
                bycatch := st.bycatch ++ by_,
                out := st.out ++ mkItems m reason (b + 1 - st.out.length)
                  (bycatchExcs sizes disk by_) } := by
  have hcnt : 0 < b + 1 - st.out.length := by omega
  have hlen' : (st.out ++ mkItems (α := α) m reason (b + 1 - st.out.length)
      (bycatchExcs sizes disk by_)).length = b + 1 := by
    rw [List.length_append, mkItems_length _ _ _ _ hcnt]; omega
  have hmul : (b + 1) * L = b * L + L := Nat.succ_mul _ _
  have hqL : st.out.length * L ≤ b * L := Nat.mul_le_mul_right L hqb
  have hbadne : fileError sizes disk m ≠ none := by rw [hbad]; simp
  have hps := pos_succ sizes m
  constructor
  · exact hc.nofail
  · -- data
    show (st.out ++ mkItems m reason _ _).map (fun it : Item α => it.data) = _
    rw [hlen', List.map_append, hc.data, mkItems_data _ _ _ _ hcnt]
    have e : b + 1 = st.out.length + (b + 1 - st.out.length) := by omega
    conv => rhs; rw [e]
    symm
    apply take_extend_replicate
    intro i hi1 hi2
    have hiL1 : st.out.length * L ≤ i * L := Nat.mul_le_mul_right L hi1
    have hiL2 : i * L ≤ b * L := Nat.mul_le_mul_right L (by omega)
    apply specData_getElem?_none L hL sizes disk i (max (i * L) (pos sizes m))
    · omega
    · omega
    · apply expStream_getElem?_bad sizes disk m hm hbadne
      · omega
      · omega
  · -- clean
    intro it hit
    rcases List.mem_append.mp hit with h | h
    · exact hc.clean it h
    · intro hsome
      rw [mkItems_data_none _ _ _ _ hcnt it h] at hsome
      cases hsome
  · -- rep
    show reported (st.out ++ mkItems m reason _ _) = _
    rw [reported_append, hc.rep, mkItems_reported _ _ _ _ hcnt, hbex]
    unfold badUpTo
    rw [range_split m m' hm1, List.filterMap_append, List.filterMap_cons, hbad]
    rfl
  · -- front
    show List.map some [] = ((expStream sizes disk).take (pos sizes m' + sk)).drop
      ((st.out ++ mkItems m reason _ _).length * L)
    rw [hlen', hmul, List.drop_eq_nil_of_le (by rw [List.length_take]; omega)]
    rfl
  · exact hL
  · show (st.out ++ mkItems m reason _ _).length * L ≤ pos sizes m' + sk ∨ _
    rw [hlen', hmul]; exact hle
  · show pos sizes m' + sk < (st.out ++ mkItems m reason _ _).length * L + L
    rw [hlen', hmul]; omega
  · show sk < L
    by_cases h0 : 0 < sk
    · exact (hsk h0).2.2.1
    · omega
  · intro h0
    obtain ⟨h1, h2, _, h4⟩ := hsk h0
    refine ⟨rfl, h1, h2, ?_, ?_, ?_⟩
    · show (st.out ++ mkItems m reason _ _).length * L = _
      rw [hlen', hmul]; exact h4
    · show (st.out ++ mkItems m reason _ _).length - 1 ∈ st.seen ++ List.range' _ _
      rw [hlen']
      apply List.mem_append_right
      rw [List.mem_range'_1]; omega
    · show 0 < (st.out ++ mkItems m reason _ _).length
      rw [hlen']; omega
  · intro k hk hkbad
    show _ ≤ (st.out ++ mkItems m reason _ _).length * L
    rw [hlen', hmul]
    by_cases hkm : k < m
    · have := hc.badpast k hkm hkbad; omega
    · have := pos_mono sizes (show k + 1 ≤ m' by omega); omega
  · intro x hx
    show x < (st.out ++ mkItems m reason _ _).length
    rw [hlen']
    rcases List.mem_append.mp hx with h | h
    · have := hc.seenlt x h; omega
    · rw [List.mem_range'_1] at h; omega

end Torf.Missing
