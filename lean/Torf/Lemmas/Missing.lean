/-
  Helper lemmas for C10 (part 7): the invariant over the whole main loop, the final
  `if trailing_bytes: yield …`, and the resulting specification of `iterItems`.
-/
import Torf.Lemmas.MissingStep
namespace Torf.Missing
open Torf

/-- Invariant at the head of iteration `j` of `for file in files`: the files `j .. m-1` are
    by-catch files (they will be skipped), no file from `m` on is, and `Core` holds for `m`. -/
def Inv (L : Nat) (sizes : List Nat) (disk : List (Option (List α))) (j : Nat) (st : St α) : Prop :=
  ∃ m, j ≤ m ∧ m ≤ sizes.length ∧ (∀ k, j ≤ k → k < m → k ∈ st.bycatch) ∧
    (∀ k, m ≤ k → k ∉ st.bycatch) ∧ Core L sizes disk m st

theorem inv_init (L : Nat) (hL : 0 < L) (sizes : List Nat) (disk : List (Option (List α))) :
    Inv L sizes disk 0 ({} : St α) :=
  ⟨0, Nat.le_refl _, Nat.zero_le _, fun k _ h => (by omega), fun k _ h => (by cases h),
    core_init L hL sizes disk⟩

theorem inv_step (L : Nat) (hL : 0 < L) (sizes : List Nat) (disk : List (Option (List α)))
    (hyp : NoBadEmpty sizes disk = true) (st : St α) (j : Nat) (hj : j < sizes.length)
    (h : Inv L sizes disk j st) : Inv L sizes disk (j + 1) (step L sizes disk st j) := by
  obtain ⟨m, hjm, hmn, hin, hout, hc⟩ := h
  by_cases hjeq : j = m
  · subst hjeq
    have hnb : st.bycatch.contains j = false := by
      have := hout j (Nat.le_refl _)
      simpa using this
    cases hfe : fileError sizes disk j with
    | none =>
      obtain ⟨hc', hby⟩ := step_good L hL sizes disk st j hj hnb hfe hc
      refine ⟨j + 1, Nat.le_refl _, by omega, fun k h1 h2 => by omega, ?_, hc'⟩
      intro k hk
      rw [hby]
      exact hout k (by omega)
    | some reason =>
      obtain ⟨m', h1, h2, hc', hby⟩ := step_bad L hL sizes disk hyp st j hj hnb reason hfe hout hc
      refine ⟨m', by omega, h2, fun k hk1 hk2 => (hby k (by omega)).mpr hk2, ?_, hc'⟩
      intro k hk hmem
      have := (hby k (by omega)).mp hmem
      omega
  · have hmem : st.bycatch.contains j = true := by
      have := hin j (Nat.le_refl _) (by omega)
      simpa using this
    have hst : step L sizes disk st j = st := by
      unfold step
      simp only [hc.nofail, hmem, Bool.false_eq_true, if_false, if_true]
    rw [hst]
    exact ⟨m, by omega, hmn, fun k hk1 hk2 => hin k (by omega) hk2, hout, hc⟩

theorem inv_fold (L : Nat) (hL : 0 < L) (sizes : List Nat) (disk : List (Option (List α)))
    (hyp : NoBadEmpty sizes disk = true) (d j : Nat) (st : St α) (hjd : j + d ≤ sizes.length)
    (h : Inv L sizes disk j st) :
    Inv L sizes disk (j + d) ((List.range' j d).foldl (step L sizes disk) st) := by
  induction d generalizing j st with
  | zero => simpa using h
  | succ d ih =>
    rw [List.range'_succ, List.foldl_cons]
    have := ih (j + 1) (step L sizes disk st j) (by omega)
      (inv_step L hL sizes disk hyp st j (by omega) h)
    rw [show j + (d + 1) = j + 1 + d by omega]
    exact this

/-- what `iter_pieces` yields on a damaged disk -/
theorem iterItems_spec (L : Nat) (hL : 0 < L) (sizes : List Nat) (disk : List (Option (List α)))
    (hyp : NoBadEmpty sizes disk = true) :
    ∃ items, iterItems L sizes disk = some items ∧
      items.map (·.data) = specData L sizes disk ∧
      (∀ it ∈ items, it.data.isSome → it.excs = [] ∧ it.file = 0) ∧
      reported items = badFiles sizes disk := by
  have hinv := inv_fold L hL sizes disk hyp sizes.length 0 {} (by omega)
    (inv_init L hL sizes disk)
  rw [Nat.zero_add, ← List.range_eq_range'] at hinv
  unfold iterItems
  generalize (List.range sizes.length).foldl (step L sizes disk) {} = st at hinv
  obtain ⟨m, hm1, hm2, _, _, hc⟩ := hinv
  have hmn : m = sizes.length := by omega
  subst hmn
  have hskip : st.skip = 0 := by
    by_cases h0 : 0 < st.skip
    · have := (hc.skipc h0).2.1; omega
    · omega
  have hfront := hc.front
  rw [hskip, Nat.add_zero, pos_length,
    List.take_of_length_le (by rw [length_expStream]; exact Nat.le_refl _)] at hfront
  have hspec : specData L sizes disk =
      st.out.map (·.data) ++ (chunks L (st.trailing.map some)).map chunkData := by
    rw [hc.data, hfront, ← specData_drop L hL, List.take_append_drop]
  simp only [hc.nofail, Bool.false_eq_true, if_false]
  by_cases ht : st.trailing = []
  · simp only [ht, List.isEmpty_nil, if_true]
    refine ⟨st.out, rfl, ?_, hc.clean, ?_⟩
    · rw [hspec, ht]; simp
    · rw [hc.rep]; rfl
  · have hemp : st.trailing.isEmpty = false := by
      cases hs : st.trailing with
      | nil => exact absurd hs ht
      | cons _ _ => rfl
    simp only [hemp, Bool.false_eq_true, if_false]
    refine ⟨st.out ++ [dataItem st.trailing], rfl, ?_, ?_, ?_⟩
    · rw [hspec, chunks_short L _ (by simpa using ht) (by simpa using Nat.le_of_lt hc.short) hL]
      simp [dataItem, chunkData_map_some]
    · intro it hit
      rcases List.mem_append.mp hit with h | h
      · exact hc.clean it h
      · rw [List.mem_singleton] at h
        subst h
        intro _; exact ⟨rfl, rfl⟩
    · rw [reported_append, hc.rep]
      simp [reported, dataItem, badUpTo_length]

/-! ### all files good -/

theorem noBadEmpty_of_good (sizes : List Nat) (disk : List (Option (List α)))
    (hgood : ∀ k < sizes.length, fileError sizes disk k = none) : NoBadEmpty sizes disk = true := by
  unfold NoBadEmpty
  rw [List.all_eq_true]
  intro k hk
  rw [hgood k (List.mem_range.mp hk)]
  rfl

theorem expStream_isSome_of_good (sizes : List Nat) (disk : List (Option (List α)))
    (hgood : ∀ k < sizes.length, fileError sizes disk k = none) :
    ∀ x ∈ expStream sizes disk, x.isSome = true := by
  intro x hx
  unfold expStream at hx
  rw [List.mem_flatten] at hx
  obtain ⟨l, hl, hxl⟩ := hx
  obtain ⟨k, hk, rfl⟩ := List.mem_map.mp hl
  rw [(expFile_good sizes disk k (hgood k (List.mem_range.mp hk))).1] at hxl
  obtain ⟨y, _, rfl⟩ := List.mem_map.mp hxl
  rfl

theorem chunkData_of_all_some (c : List (Option α)) (h : ∀ x ∈ c, x.isSome = true) :
    chunkData c = some (c.filterMap id) := by
  unfold chunkData
  have : c.all Option.isSome = true := by
    rw [List.all_eq_true]; exact h
  simp only [this, if_true]

theorem items_eq_of_data (items : List (Item α)) (ds : List (List α))
    (h1 : items.map (·.data) = ds.map some)
    (h2 : ∀ it ∈ items, it.data.isSome → it.excs = [] ∧ it.file = 0) :
    items = ds.map dataItem := by
  induction items generalizing ds with
  | nil =>
    cases ds with
    | nil => rfl
    | cons _ _ => simp at h1
  | cons it rest ih =>
    cases ds with
    | nil => simp at h1
    | cons d ds' =>
      simp only [List.map_cons, List.cons.injEq] at h1
      obtain ⟨hd, hrest⟩ := h1
      have h3 := h2 it List.mem_cons_self (by rw [hd]; rfl)
      rw [List.map_cons, ← ih ds' hrest (fun it' h' => h2 it' (List.mem_cons_of_mem _ h'))]
      congr 1
      cases it
      simp only at hd h3
      obtain ⟨he, hf⟩ := h3
      subst hd he hf
      rfl

end Torf.Missing
