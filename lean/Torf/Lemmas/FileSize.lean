/-
  Helper lemmas for C20: `partial_size` of a listed file is its own recorded length when the
  listed paths are pairwise distinct; the loop of `verify_filesize` refines the specification.
-/
import Torf.Spec.FileSize
namespace Torf.FileSize

theorem filter_ne_empty (p : List String) (h : "" ∉ p) : p.filter (· ≠ "") = p := by
  apply List.filter_eq_self.mpr
  intro a ha
  simp only [ne_eq, decide_not, Bool.not_eq_eq_eq_not, Bool.not_true, decide_eq_false_iff_not]
  intro h0; subst h0; exact h ha

theorem eq_of_nodup_path (l : List Listed) (hn : (l.map (·.path)).Nodup) (f g : Listed)
    (hf : f ∈ l) (hg : g ∈ l) (hp : g.path = f.path) : g = f := by
  induction l with
  | nil => cases hf
  | cons a rest ih =>
    simp only [List.map_cons, List.nodup_cons, List.mem_map, not_exists, not_and] at hn
    simp only [List.mem_cons] at hf hg
    rcases hf with rfl | hf <;> rcases hg with rfl | hg
    · rfl
    · exact absurd hp (hn.1 g hg)
    · exact absurd hp.symm (hn.1 f hf)
    · exact ih hn.2 hf hg

theorem partialSizeLoop_listed (name : String) (f : Listed) (l : List Listed) (acc : List Nat)
    (hf : f ∈ l) (hsame : ∀ g ∈ l, g.path = f.path → g.size = f.size)
    (hne : ∀ g ∈ l, "" ∉ g.path) :
    partialSizeLoop name (name :: f.path) l acc = .ok f.size := by
  induction l generalizing acc with
  | nil => cases hf
  | cons g rest ih =>
    unfold partialSizeLoop
    simp only [filter_ne_empty g.path (hne g (List.mem_cons_self ..)), List.cons.injEq, true_and]
    by_cases hp : g.path = f.path
    · simp only [hp, if_true, hsame g (List.mem_cons_self ..) hp]
    · simp only [hp, if_false]
      have hf' : f ∈ rest := by
        rcases List.mem_cons.mp hf with rfl | h
        · exact absurd rfl hp
        · exact h
      have h1 := fun g hg => hsame g (List.mem_cons_of_mem _ hg)
      have h2 := fun g hg => hne g (List.mem_cons_of_mem _ hg)
      split
      · exact ih _ hf' h1 h2
      · exact ih _ hf' h1 h2

theorem partialSize_listed (t : Torrent) (hwf : WF t) (f : Listed) (hf : f ∈ t.listed) :
    partialSize t (t.name :: f.path) = .ok f.size := by
  unfold partialSize
  unfold Torrent.listed at hf
  unfold WF Torrent.listed at hwf
  cases hm : t.mode with
  | single n =>
    simp only [hm, List.mem_singleton] at hf
    subst hf
    simp
  | multi files =>
    simp only [hm] at hf hwf ⊢
    exact partialSizeLoop_listed t.name f files [] hf
      (fun g hg hp => by rw [eq_of_nodup_path files hwf.1 f g hf hg hp]) hwf.2

/-! ### the loop refines the specification -/

theorem loop_none (t : Torrent) (fs : FS) (total : Nat) (l : List Listed)
    (hps : ∀ f ∈ l, partialSize t (t.name :: f.path) = .ok f.size) (i : Nat) (exc : Option Err) :
    loop t fs none total i l exc =
      match firstErr fs l with
      | some e => (.raised e, [])
      | none => (.ok exc.isNone, []) := by
  induction l generalizing i exc with
  | nil => simp [loop, firstErr]
  | cons f rest ih =>
    have hrest := fun g hg => hps g (List.mem_cons_of_mem _ hg)
    have hf := hps f (List.mem_cons_self ..)
    unfold loop firstErr errOf
    cases he : fs f.path with
    | missing => simp [pathExists, cancel]
    | file n =>
      by_cases hn : n = f.size
      · simp [pathExists, realSize, hf, cancel, hn, ih hrest]
      · simp [pathExists, realSize, hf, cancel, hn]
    | dir n =>
      by_cases hn : n = f.size
      · simp [pathExists, realSize, hf, cancel, hn, ih hrest]
      · simp [pathExists, realSize, hf, cancel, hn]

theorem loop_some (t : Torrent) (fs : FS) (g : Call → Bool) (total : Nat) (l : List Listed)
    (hps : ∀ f ∈ l, partialSize t (t.name :: f.path) = .ok f.size) (i : Nat) (exc : Option Err) :
    loop t fs (some g) total i l exc =
      (.ok ((exc.isNone && l.all (good fs)) && !(takeThrough g (fullCallsFrom fs total i l)).any g),
       takeThrough g (fullCallsFrom fs total i l)) := by
  induction l generalizing i exc with
  | nil => simp [loop, fullCallsFrom, takeThrough]
  | cons f rest ih =>
    have hrest := fun g hg => hps g (List.mem_cons_of_mem _ hg)
    have hf := hps f (List.mem_cons_self ..)
    unfold loop
    simp only [fullCallsFrom, takeThrough, good, errOf, List.all_cons]
    cases he : fs f.path with
    | missing =>
      cases hg : g ⟨i, i + 1, total, some Err.read⟩ <;>
        simp [pathExists, cancel, hg, ih hrest]
    | file n =>
      by_cases hn : n = f.size
      · cases hg : g ⟨i, i + 1, total, none⟩ <;>
          simp [pathExists, realSize, hf, cancel, hn, hg, ih hrest]
      · cases hg : g ⟨i, i + 1, total, some (Err.size n f.size)⟩ <;>
          simp [pathExists, realSize, hf, cancel, hn, hg, ih hrest]
    | dir n =>
      by_cases hn : n = f.size
      · cases hg : g ⟨i, i + 1, total, none⟩ <;>
          simp [pathExists, realSize, hf, cancel, hn, hg, ih hrest]
      · cases hg : g ⟨i, i + 1, total, some (Err.size n f.size)⟩ <;>
          simp [pathExists, realSize, hf, cancel, hn, hg, ih hrest]

theorem firstErr_none_iff (fs : FS) (l : List Listed) :
    firstErr fs l = none ↔ l.all (good fs) = true := by
  induction l with
  | nil => simp [firstErr]
  | cons f rest ih =>
    unfold firstErr
    cases h : errOf fs f with
    | none => simp [good, h, ih]
    | some e => simp [good, h]

/-- the model is the specification, for every well-formed layout, file system and callback -/
theorem verifyFilesize_eq_spec (t : Torrent) (hwf : WF t) (fs : FS) (cb : Callback) :
    verifyFilesize t fs cb = spec t fs cb := by
  unfold verifyFilesize spec
  by_cases hv : validateCore t = true
  · simp only [hv, Bool.not_true, Bool.false_eq_true, if_false]
    have hps := partialSize_listed t hwf
    cases cb with
    | none =>
      by_cases hd : singleAtDir t fs = true
      · have hd' := hd
        unfold singleAtDir at hd'
        simp [hd, hd', cancel]
      · have hd' := hd
        unfold singleAtDir at hd'
        simp only [hd, hd', if_false, Bool.false_eq_true]
        rw [loop_none t fs _ _ hps]
        cases firstErr fs t.listed <;> simp
    | some g =>
      by_cases hd : singleAtDir t fs = true
      · have hd' := hd
        unfold singleAtDir at hd'
        simp [hd', cancel, fullCalls, hd, takeThrough, allGood]
        have hlen : t.listed.length = 1 := by
          have h1 : t.isSingle = true := by
            simp only [Bool.and_eq_true] at hd'
            exact hd'.1
          unfold Torrent.isSingle at h1
          unfold Torrent.listed
          cases hm : t.mode <;> simp [hm] at h1 ⊢
        exact hlen
      · have hd' := hd
        unfold singleAtDir at hd'
        simp only [hd', if_false, Bool.false_eq_true]
        rw [loop_some t fs g _ _ hps]
        simp [fullCalls, hd, allGood]
  · simp [hv]

end Torf.FileSize
