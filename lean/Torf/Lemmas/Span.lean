/-
  Lemmas about `valueSpan` / `spanOf`: the reported span really is the encoding of the looked-up
  value inside the serialisation.
-/
import Torf.Spec.Span
import Torf.Lemmas.BencodeNorm
namespace Torf.Bencode

/-- if `k` is bound to `v`, the entries split around `ser v` at exactly the reported offset -/
theorem valueSpan_of_lookup (k : Bytes) (v : BVal) :
    ∀ (kvs : List (Bytes × BVal)) (off : Nat), lookup k kvs = some v →
    ∃ A B, serEntries kvs = A ++ ser v ++ B ∧
      valueSpan k kvs off = some (off + A.length, (ser v).length)
  | [], _, h => by simp [lookup] at h
  | (k', v') :: t, off, h => by
    simp only [lookup] at h
    simp only [valueSpan, serEntries_cons]
    split at h
    · rename_i hk
      simp only [Option.some.injEq] at h; subst h
      refine ⟨serBytes k', serEntries t, by simp, ?_⟩
      simp [hk]
    · rename_i hk
      obtain ⟨A, B, hs, hv⟩ := valueSpan_of_lookup k v t (off + (serBytes k').length + (ser v').length) h
      refine ⟨serBytes k' ++ ser v' ++ A, B, by simp [hs], ?_⟩
      simp only [hk, if_false, hv, List.length_append]
      simp [Nat.add_assoc]

/-- conversely a reported span is the span of the value `lookup` finds -/
theorem lookup_of_valueSpan (k : Bytes) :
    ∀ (kvs : List (Bytes × BVal)) (off s n : Nat), valueSpan k kvs off = some (s, n) →
    ∃ v, lookup k kvs = some v
  | [], _, _, _, h => by simp [valueSpan] at h
  | (k', v') :: t, off, s, n, h => by
    simp only [valueSpan] at h
    simp only [lookup]
    split
    · exact ⟨v', rfl⟩
    · rename_i hk
      simp only [hk, if_false] at h
      exact lookup_of_valueSpan k t _ s n h

theorem lookup_of_mem (k : Bytes) (v : BVal) :
    ∀ (kvs : List (Bytes × BVal)), (kvs.map (·.1)).Nodup → (k, v) ∈ kvs → lookup k kvs = some v
  | [], _, h => by simp at h
  | (k', v') :: t, hn, h => by
    simp only [List.map_cons, List.nodup_cons] at hn
    simp only [lookup]
    rcases List.mem_cons.mp h with heq | hm
    · simp only [Prod.mk.injEq] at heq; simp [heq.1, heq.2]
    · have : k' ≠ k := fun hk => hn.1 (hk ▸ List.mem_map.mpr ⟨(k, v), hm, rfl⟩)
      simp only [this, if_false]
      exact lookup_of_mem k v t hn.2 hm

theorem mem_normKvs (k : Bytes) (v : BVal) :
    ∀ (kvs : List (Bytes × BVal)), (k, v) ∈ kvs → (k, norm v) ∈ normKvs kvs
  | [], h => by simp at h
  | (k', v') :: t, h => by
    simp only [normKvs]
    rcases List.mem_cons.mp h with heq | hm
    · simp only [Prod.mk.injEq] at heq; simp [heq.1, heq.2]
    · exact List.mem_cons_of_mem _ (mem_normKvs k v t hm)

/-- The span a conforming parser reports for key `k` in the serialisation of a dictionary with
    pairwise distinct keys (any order) containing `(k, v)`. -/
theorem spanOf_ser_dict (lim : Nat) (k : Bytes) (v : BVal) (kvs : List (Bytes × BVal))
    (hu : uniqKeys (.dict kvs) = true) (hs : small lim (.dict kvs) = true) (hm : (k, v) ∈ kvs) :
    ∃ pre post, ser (.dict kvs) = pre ++ ser v ++ post ∧
      spanOf lim k (ser (.dict kvs)) = some (pre.length, (ser v).length) := by
  have hc := canon_norm _ hu
  have hsm := small_norm lim _ hs
  have hp := parseStrict_ser lim _ hc hsm
  rw [ser_norm] at hp
  simp only [norm] at hp hc
  simp only [canon, Bool.and_eq_true] at hc
  have hmem : (k, norm v) ∈ isort keyLe (normKvs kvs) :=
    (isort_perm keyLe _).symm.subset (mem_normKvs k v kvs hm)
  have hl := lookup_of_mem k (norm v) _ (keysAsc_nodup _ hc.1) hmem
  obtain ⟨A, B, hse, hv⟩ := valueSpan_of_lookup k (norm v) _ 1 hl
  have hser : ser (.dict kvs) = 100 :: serEntries (isort keyLe (normKvs kvs)) ++ [101] := by
    rw [← ser_dict_canon _ hc.1]
    exact (ser_norm (.dict kvs)).symm
  rw [ser_norm] at hse hv
  refine ⟨100 :: A, B ++ [101], ?_, ?_⟩
  · rw [hser, hse]; simp
  · simp only [spanOf, hp, hv, List.length_cons]
    simp [Nat.add_comm]

end Torf.Bencode
