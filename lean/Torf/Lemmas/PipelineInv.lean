/-
  Torf.Lemmas.PipelineInv — the combined invariant of the pipeline for configurations without
  refused thread starts, on every reachable state; consequence: when main has returned, no
  worker thread is running.
-/
import Torf.Lemmas.PipelineJan
namespace Torf.Pipeline

structure Inv (cfg : Cfg) (s : State) : Prop where
  a : InvA cfg s
  b1 : InvB1 cfg s
  b2 : InvB2 s
  b3 : InvB3 cfg s

theorem Inv.init (cfg : Cfg) : Inv cfg (init cfg) :=
  ⟨.init cfg, .init cfg, .init cfg, .init cfg⟩

theorem Inv.step {cfg : Cfg} {s s' : State} {l : Label} (hrf : cfg.refuse = []) (h : Inv cfg s)
    (hs : step cfg s l = some s') : Inv cfg s' := by
  have hst := Step.of_step hrf h.a hs
  exact ⟨h.a.step hs, h.b1.step hst, h.b2.step h.a hst, h.b3.step h.b1 hst⟩

theorem Inv.of_reachable {cfg : Cfg} {s : State} (hrf : cfg.refuse = []) (h : Reachable cfg s) :
    Inv cfg s :=
  Reachable.induction (P := Inv cfg) (Inv.init cfg) (fun _ _ _ _ hp hs => hp.step hrf hs) h

theorem Inv.threads_done {cfg : Cfg} {s : State} (h : Inv cfg s) (ht : terminal s = true) :
    allThreadsDone s = true := by
  unfold terminal at ht
  split at ht
  · rename_i r hm
    have hj := h.b3.m5 r hm
    have hr := h.b1.rjoined (by simp [hm, postReaderJoin])
    have hh := h.b3.jc2 (Or.inr hj)
    unfold allThreadsDone
    simp only [hr, hj, RPc.running, JPc.running, Bool.not_false, Bool.true_and, Bool.and_true,
      List.all_eq_true, Bool.not_eq_eq_eq_not, Bool.not_true]
    intro p hp
    obtain ⟨i, hi⟩ := List.mem_iff_getElem?.1 hp
    exact hh i p hi
  · simp at ht

end Torf.Pipeline
