/-
  Helper lemmas for C10 (part 2): the geometry used by `_MissingPieces`
  (`get_files_at_byte_range`, `get_piece_indexes_of_file`, remove-while-iterating).
-/
import Torf.Lemmas.MissingBase
namespace Torf.Missing
open Torf

/-! ### `inByteRange` in natural-number terms -/

theorem inByteRange_iff (a b fpos size : Nat) :
    inByteRange a b fpos size = true ↔
      (a ≤ fpos ∧ fpos ≤ b) ∨ (a + 1 ≤ fpos + size ∧ fpos + size ≤ b + 1) ∨
        (fpos ≤ a ∧ b + 1 ≤ fpos + size) := by
  unfold inByteRange
  simp only [Bool.or_eq_true, Bool.and_eq_true, decide_eq_true_eq, ge_iff_le]
  omega

/-- file `k` is selected by `get_files_at_piece_index(b)` -/
def atPiece (L : Nat) (sizes : List Nat) (b k : Nat) : Bool :=
  inByteRange (b * L) ((b + 1) * L - 1) (pos sizes k) (sizeOf sizes k)

theorem atPiece_iff (L : Nat) (hL : 0 < L) (sizes : List Nat) (b k : Nat) :
    atPiece L sizes b k = true ↔
      (b * L ≤ pos sizes k ∧ pos sizes k < b * L + L) ∨
      (b * L < pos sizes (k + 1) ∧ pos sizes (k + 1) ≤ b * L + L) ∨
      (pos sizes k ≤ b * L ∧ b * L + L ≤ pos sizes (k + 1)) := by
  unfold atPiece
  rw [inByteRange_iff, pos_succ, Nat.succ_mul]
  omega

theorem filesAtByteRange_eq (L : Nat) (sizes : List Nat) (b : Nat) :
    filesAtByteRange sizes (b * L) ((b + 1) * L - 1) =
      (List.range sizes.length).filter (atPiece L sizes b) := rfl

/-! ### contiguity of a filtered range -/

theorem filter_range'_downward (p : Nat → Bool) (s len : Nat)
    (hdown : ∀ k k', s ≤ k' → k' < k → k < s + len → p k = true → p k' = true) :
    ∃ c, c ≤ len ∧ (List.range' s len).filter p = List.range' s c ∧
      (∀ k, s ≤ k → k < s + c → p k = true) ∧ (c < len → p (s + c) = false) := by
  induction len with
  | zero => exact ⟨0, Nat.le_refl _, by simp, by intro k h1 h2; omega, by intro h; omega⟩
  | succ len ih =>
    have hdown' : ∀ k k', s ≤ k' → k' < k → k < s + len → p k = true → p k' = true :=
      fun k k' h1 h2 h3 h4 => hdown k k' h1 h2 (by omega) h4
    obtain ⟨c, hc, hf, hall, hnext⟩ := ih hdown'
    rw [List.range'_concat, List.filter_append]
    simp only [Nat.one_mul]
    by_cases hp : p (s + len) = true
    · -- everything below is selected as well
      have hall' : ∀ k, s ≤ k → k < s + (len + 1) → p k = true := by
        intro k h1 h2
        by_cases hk : k = s + len
        · rw [hk]; exact hp
        · exact hdown (s + len) k h1 (by omega) (by omega) hp
      have hc' : c = len := by
        by_cases hlt : c < len
        · have := hnext hlt
          rw [hall' (s + c) (by omega) (by omega)] at this
          cases this
        · omega
      subst hc'
      refine ⟨c + 1, Nat.le_refl _, ?_, hall', by intro h; omega⟩
      rw [hf, List.range'_concat]
      simp [hp]
    · have hp' : p (s + len) = false := by simpa using hp
      refine ⟨c, by omega, ?_, hall, ?_⟩
      · rw [hf]; simp [hp']
      · intro _
        by_cases hlt : c < len
        · exact hnext hlt
        · have : c = len := by omega
          rw [this]; exact hp'

/-! ### Python's remove-while-iterating -/

theorem pyRemoveSeen_of_not_mem (seen l : List Nat) (h : ∀ x ∈ l, x ∉ seen) :
    pyRemoveSeen seen l = l := by
  induction l with
  | nil => rfl
  | cons x rest ih =>
    have hx : seen.contains x = false := by
      have := h x (List.mem_cons_self)
      simpa using this
    rw [pyRemoveSeen.eq_def]
    simp only [hx, Bool.false_eq_true, if_false]
    rw [ih (fun y hy => h y (List.mem_cons_of_mem _ hy))]

theorem pyRemoveSeen_head_seen (seen : List Nat) (x y : Nat) (rest : List Nat)
    (hx : x ∈ seen) (h : ∀ z ∈ rest, z ∉ seen) :
    pyRemoveSeen seen (x :: y :: rest) = y :: rest := by
  have hx' : seen.contains x = true := by simpa using hx
  rw [pyRemoveSeen.eq_def]
  simp only [hx', if_true]
  rw [pyRemoveSeen_of_not_mem seen rest h]

/-! ### piece indexes of a non-empty file -/

theorem pieceIndexesOfFile_eq (L : Nat) (sizes : List Nat) (j : Nat) (hs : 0 < sizeOf sizes j) :
    pieceIndexesOfFile L sizes j =
      List.range' (pos sizes j / L)
        ((pos sizes j + sizeOf sizes j - 1) / L + 1 - pos sizes j / L) := by
  unfold pieceIndexesOfFile
  have : ¬ (pos sizes j + sizeOf sizes j = 0) := by omega
  simp only [this, if_false]

end Torf.Missing
