/-
  Lemmas about `str.strip()` (Torf/Model/PyStrip.lean): decomposition, no white space left at either
  end, idempotence, linear number of loop iterations.
-/
import Torf.Model.PyStrip
namespace Torf.Untrusted

theorem lstrip_decomp : ∀ (s : List Char), ∃ w, (∀ c ∈ w, isPySpace c = true) ∧ s = w ++ lstrip s := by
  intro s
  induction s with
  | nil => exact ⟨[], by simp, by simp [lstrip]⟩
  | cons c cs ih =>
    unfold lstrip
    by_cases h : isPySpace c = true
    · obtain ⟨w, hw, he⟩ := ih
      refine ⟨c :: w, ?_, ?_⟩
      · intro d hd
        rcases List.mem_cons.1 hd with h' | h'
        · subst h'; exact h
        · exact hw d h'
      · simp only [h, if_true, List.cons_append]; rw [← he]
    · exact ⟨[], by simp, by simp [h]⟩

theorem lstrip_head : ∀ (s : List Char) (c : Char), (lstrip s).head? = some c → isPySpace c = false := by
  intro s
  induction s with
  | nil => intro c h; simp [lstrip] at h
  | cons d ds ih =>
    intro c h
    unfold lstrip at h
    by_cases hd : isPySpace d = true
    · simp only [hd, if_true] at h; exact ih c h
    · have hd' : isPySpace d = false := by simpa using hd
      simp [hd'] at h
      subst h; exact hd'

theorem lstrip_fixed (s : List Char) (h : ∀ c, s.head? = some c → isPySpace c = false) : lstrip s = s := by
  cases s with
  | nil => rfl
  | cons d ds =>
    have := h d rfl
    simp [lstrip, this]

theorem lstrip_length_le : ∀ (s : List Char), (lstrip s).length ≤ s.length := by
  intro s
  induction s with
  | nil => simp [lstrip]
  | cons c cs ih =>
    unfold lstrip
    split
    · simp only [List.length_cons]; omega
    · simp

/-- the loop runs once per removed character, plus the test that ends it -/
theorem lstripSteps_add : ∀ (s : List Char), lstripSteps s + (lstrip s).length = s.length + 1 := by
  intro s
  induction s with
  | nil => simp [lstripSteps, lstrip]
  | cons c cs ih =>
    unfold lstripSteps lstrip
    split
    · simp only [List.length_cons]; omega
    · simp only [List.length_cons]; omega

theorem lstripSteps_le (s : List Char) : lstripSteps s ≤ s.length + 1 := by
  have := lstripSteps_add s; omega

theorem stripSteps_le (s : List Char) : stripSteps s ≤ s.length + 2 := by
  unfold stripSteps
  have h1 := lstripSteps_add s
  have h2 := lstripSteps_le (lstrip s).reverse
  simp only [List.length_reverse] at h2
  omega

/-- removing a white-space prefix does not touch the last character -/
theorem lstrip_getLast : ∀ (s : List Char) (c : Char), (lstrip s).getLast? = some c → s.getLast? = some c := by
  intro s
  induction s with
  | nil => intro c h; simp [lstrip] at h
  | cons d ds ih =>
    intro c h
    unfold lstrip at h
    by_cases hd : isPySpace d = true
    · simp only [hd, if_true] at h
      have := ih c h
      cases ds with
      | nil => simp at this
      | cons e es => simpa [List.getLast?_cons_cons] using this
    · simpa [hd] using h

end Torf.Untrusted
