/-
  Torf.Lemmas.PipelineCtl — control invariant of the pipeline when no thread start is refused:
  how main's program counter determines which threads have been started (reader first, then the
  hashers in order, the janitor last), and that main has seen the reader finish before it joins
  the hashers.
-/
import Torf.Lemmas.PipelineStep
namespace Torf.Pipeline

/-- main has not started the reader yet -/
def preReader : MPc → Bool
  | .startReaderChk | .startReader => true
  | _ => false

/-- main has not started the janitor yet -/
def preJan : MPc → Bool
  | .startReaderChk | .startReader | .startHasherChk _ | .startHasher _
  | .startJanitorChk | .startJanitor => true
  | _ => false

/-- `reader.join()` has returned -/
def postReaderJoin : MPc → Bool
  | .joinHasherChk .. | .joinHasher .. | .joinJanitorChk _ | .joinJanitor _ | .finished _ => true
  | _ => false

/-- number of hashers main has started -/
def startedCnt (cfg : Cfg) : MPc → Nat
  | .startReaderChk | .startReader => 0
  | .startHasherChk i | .startHasher i => i
  | _ => cfg.N

structure InvB1 (cfg : Cfg) (s : State) : Prop where
  len : s.hs.length = cfg.N
  trk : s.tracked.length ≤ cfg.N
  nrefR : s.rpc ≠ RPc.refused
  nrefJ : s.jan ≠ JPc.refused
  nrefH : ∀ i : Nat, s.hs[i]? ≠ some HPc.refused
  rstart : preReader s.main = true ↔ s.rpc = .notStarted
  hstart : ∀ j : Nat, j < startedCnt cfg s.main → s.hs[j]? ≠ some HPc.notStarted
  jstart : preJan s.main = true ↔ s.jan = .notStarted
  trk0 : s.jan = .notStarted → s.tracked = List.range cfg.N
  rjoined : postReaderJoin s.main = true → s.rpc = .done

theorem InvB1.init (cfg : Cfg) : InvB1 cfg (init cfg) := by
  constructor <;> simp [Pipeline.init, preReader, preJan, postReaderJoin, startedCnt]
  intro i; rw [List.getElem?_replicate]; split <;> simp

@[simp] theorem preReader_joinTarget (s : State) (idx : Nat) (e : Option Exc) :
    preReader (joinTarget s idx e) = false := by unfold joinTarget; split <;> rfl
@[simp] theorem preJan_joinTarget (s : State) (idx : Nat) (e : Option Exc) :
    preJan (joinTarget s idx e) = false := by unfold joinTarget; split <;> rfl
@[simp] theorem postReaderJoin_joinTarget (s : State) (idx : Nat) (e : Option Exc) :
    postReaderJoin (joinTarget s idx e) = true := by unfold joinTarget; split <;> rfl
@[simp] theorem startedCnt_joinTarget (cfg : Cfg) (s : State) (idx : Nat) (e : Option Exc) :
    startedCnt cfg (joinTarget s idx e) = cfg.N := by unfold joinTarget; split <;> rfl

theorem InvB1.main {cfg : Cfg} {s s' : State} (h : InvB1 cfg s)
    (hs : MainStep cfg s s') : InvB1 cfg s' := by
  obtain ⟨len, trk, nrefR, nrefJ, nrefH, rstart, hstart, jstart, trk0, rjoined⟩ := h
  cases hs <;>
    (have hm := ‹s.main = _›
     simp only [hm, preReader, preJan, postReaderJoin, startedCnt] at rstart hstart jstart rjoined
     constructor <;> (try simp only [preReader_joinTarget, preJan_joinTarget,
       postReaderJoin_joinTarget, startedCnt_joinTarget]) <;>
       (try simp only [preReader, preJan, postReaderJoin, startedCnt]) <;> grind [RPc.done_of])

theorem InvB1.reader {cfg : Cfg} {s s' : State} (h : InvB1 cfg s)
    (hs : ReaderStep cfg s s') : InvB1 cfg s' := by
  obtain ⟨len, trk, nrefR, nrefJ, nrefH, rstart, hstart, jstart, trk0, rjoined⟩ := h
  have hpost : ∀ r : RPc, s.rpc = r → r.running = true → postReaderJoin s.main = false := by
    intro r hr hrun
    cases hp : postReaderJoin s.main
    · rfl
    · rw [← hr, rjoined hp] at hrun; simp [RPc.running] at hrun
  cases hs with
  | begin hr t hn =>
    have := hpost _ hr rfl
    cases hn <;> (constructor <;> grind)
  | put k hr hc t hn =>
    have := hpost _ hr rfl
    cases hn <;> (constructor <;> grind)
  | close hr hc =>
    have := hpost _ hr rfl
    constructor <;> grind

theorem InvB1.hasher {cfg : Cfg} {s s' : State} {i : Nat} (h : InvB1 cfg s)
    (hs : HasherStep cfg s i s') : InvB1 cfg s' := by
  obtain ⟨len, trk, nrefR, nrefJ, nrefH, rstart, hstart, jstart, trk0, rjoined⟩ := h
  cases hs <;> (constructor <;> grind)

theorem InvB1.janitor {cfg : Cfg} {s s' : State} (h : InvB1 cfg s)
    (hs : JanitorStep s s') : InvB1 cfg s' := by
  obtain ⟨len, trk, nrefR, nrefJ, nrefH, rstart, hstart, jstart, trk0, rjoined⟩ := h
  have hpre : ∀ j : JPc, s.jan = j → j ≠ .notStarted → preJan s.main = false := by
    intro j hj hne
    cases hp : preJan s.main
    · rfl
    · rw [← hj, jstart.1 hp] at hne; simp at hne
  cases hs <;>
    (have := hpre _ ‹s.jan = _› (by simp)
     constructor <;> grind [spinPc_cases, prunePc_cases, List.length_erase])

theorem InvB1.step {cfg : Cfg} {s s' : State} (h : InvB1 cfg s) (hs : Step cfg s s') :
    InvB1 cfg s' := by
  cases hs with
  | main h' => exact h.main h'
  | reader h' => exact h.reader h'
  | hasher i h' => exact h.hasher h'
  | janitor h' => exact h.janitor h'

end Torf.Pipeline
