/-
  Helper lemmas for C16, tier level and whole-state invariant.
-/
import Torf.Lemmas.ListsUrl
import Torf.Spec.Lists
namespace Torf.Lists

variable {isUrl : String → Bool}

/-- a `Trackers` object / stored tiers: no empty tier, no URL twice, all URLs good -/
def TiersOK (isUrl : String → Bool) (T : Tiers) : Prop :=
  (∀ t ∈ T, t ≠ []) ∧ T.flatten.Nodup ∧ ∀ u ∈ T.flatten, Good isUrl u

theorem flatten_sublist {α} {A B : List (List α)} (h : A.Sublist B) :
    A.flatten.Sublist B.flatten := by
  induction h with
  | slnil => simp
  | cons a _ ih =>
    simp only [List.flatten_cons]
    exact ih.trans (List.sublist_append_right _ _)
  | cons_cons a _ ih =>
    simp only [List.flatten_cons]
    exact List.Sublist.append (List.Sublist.refl _) ih

theorem TiersOK_nil : TiersOK isUrl [] := by simp [TiersOK]

theorem TiersOK_sublist {T T' : Tiers} (h : TiersOK isUrl T) (hs : T'.Sublist T) :
    TiersOK isUrl T' :=
  ⟨fun t ht => h.1 t (hs.subset ht), (flatten_sublist hs).nodup h.2.1,
   fun u hu => h.2.2 u ((flatten_sublist hs).subset hu)⟩

theorem UOK_known_subset {known known' items : List String} (h : UOK isUrl known items)
    (hs : ∀ u, u ∈ known' → u ∈ known) : UOK isUrl known' items :=
  ⟨h.1, h.2.1, fun u hu hk => h.2.2 u hu (hs u hk)⟩

theorem splice_flatten {α} (T : List (List α)) (lo hi : Nat) (X : List (List α)) :
    (splice T lo hi X).flatten = (T.take lo).flatten ++ X.flatten ++ (T.drop hi).flatten := by
  simp [splice]

/-- putting a non-empty tier whose URLs are fresh w.r.t. the remaining tiers into the list -/
theorem TiersOK_splice {T : Tiers} {lo hi : Nat} {tier : Tier} (h : TiersOK isUrl T)
    (hle : lo ≤ hi) (hne : tier ≠ [])
    (hk : UOK isUrl (splice T lo hi []).flatten tier) : TiersOK isUrl (splice T lo hi [tier]) := by
  have hr : TiersOK isUrl (splice T lo hi []) := TiersOK_sublist h (splice_nil_sublist T hle)
  obtain ⟨hr1, hr2, hr3⟩ := hr
  obtain ⟨hk1, hk2, hk3⟩ := hk
  rw [splice_flatten] at hr2 hr3 hk3
  simp only [List.flatten_nil, List.append_nil] at hr2 hr3 hk3
  refine ⟨?_, ?_, ?_⟩
  · intro t ht
    rcases mem_splice_of ht with ht | ht
    · exact h.1 t ht
    · rw [List.mem_singleton] at ht; subst ht; exact hne
  · rw [splice_flatten]
    simp only [List.flatten_cons, List.flatten_nil, List.append_nil]
    rw [List.nodup_append] at hr2
    obtain ⟨ha, hb, hab⟩ := hr2
    rw [List.nodup_append, List.nodup_append]
    refine ⟨⟨ha, hk1, ?_⟩, hb, ?_⟩
    · intro a haa b hbb e
      subst e
      exact hk3 a hbb (List.mem_append_left _ haa)
    · intro a haa b hbb e
      subst e
      rcases List.mem_append.1 haa with h1 | h1
      · exact hab a h1 a hbb rfl
      · exact hk3 a h1 (List.mem_append_right _ hbb)
  · intro u hu
    rw [splice_flatten] at hu
    simp only [List.flatten_cons, List.flatten_nil, List.append_nil, List.mem_append] at hu
    rcases hu with (hu | hu) | hu
    · exact hr3 u (List.mem_append_left _ hu)
    · exact hk2 u hu
    · exact hr3 u (List.mem_append_right _ hu)

theorem splice_same_nil {α} (T : List α) (k : Nat) : splice T k k [] = T := by
  simp [splice]

/-- the tier at position `k` is `UOK` relative to the URLs of the other tiers -/
theorem tier_UOK_others {T : Tiers} {k : Nat} {tier : Tier} (h : TiersOK isUrl T)
    (hk : T[k]? = some tier) : UOK isUrl (splice T k (k + 1) []).flatten tier := by
  have hlt : k < T.length := by
    rcases Nat.lt_or_ge k T.length with h1 | h1
    · exact h1
    · rw [List.getElem?_eq_none h1] at hk; cases hk
  have hT : T = T.take k ++ tier :: T.drop (k + 1) := by
    have := List.getElem?_eq_some_iff.1 hk
    obtain ⟨_, rfl⟩ := this
    simp
  obtain ⟨_, h2, h3⟩ := h
  rw [hT] at h2 h3
  simp only [List.flatten_append, List.flatten_cons] at h2 h3
  rw [splice_flatten]
  simp only [List.flatten_nil, List.append_nil]
  rw [List.nodup_append] at h2
  obtain ⟨_, hb, hab⟩ := h2
  rw [List.nodup_append] at hb
  obtain ⟨ht, _, htb⟩ := hb
  refine ⟨ht, fun u hu => h3 u (by simp [hu]), ?_⟩
  intro u hu hm
  rcases List.mem_append.1 hm with hm | hm
  · exact hab u hm u (List.mem_append_left _ hu) rfl
  · exact htb u hu u hm rfl

theorem removeEmpty_splice {T : Tiers} {k : Nat} (h : ∀ t ∈ T, t ≠ []) :
    removeEmpty (splice T k (k + 1) [[]]) = splice T k (k + 1) [] := by
  unfold removeEmpty splice
  simp only [List.append_assoc, List.singleton_append, List.nil_append]
  rw [List.eraseP_append_right]
  · simp
  · intro b hb
    have := h b (List.mem_of_mem_take hb)
    simpa using this

/-- `_tier_changed` after a tier was edited into `tier'` -/
theorem afterTier_ok {T : Tiers} {k : Nat} {tier' : Tier} (h : TiersOK isUrl T)
    (hk : UOK isUrl (splice T k (k + 1) []).flatten tier') : TiersOK isUrl (afterTier T k tier') := by
  unfold afterTier
  by_cases he : tier' = []
  · subst he
    simp only [if_true]
    rw [removeEmpty_splice h.1]
    exact TiersOK_sublist h (splice_nil_sublist T (Nat.le_succ k))
  · simp only [he, if_false]
    exact TiersOK_splice h (Nat.le_succ k) he hk

/-! ### Trackers-level routines -/

theorem not_any_setEq_of_fresh {T : Tiers} {tier : Tier} (hne : tier ≠ [])
    (hf : ∀ u ∈ tier, u ∉ T.flatten) : T.any (setEq tier) = false := by
  rw [List.any_eq_false]
  intro t ht hs
  obtain ⟨u, hu⟩ := List.exists_mem_of_ne_nil tier hne
  unfold setEq at hs
  simp only [Bool.and_eq_true, List.all_eq_true, decide_eq_true_eq] at hs
  exact hf u hu (List.mem_flatten.2 ⟨t, ht, hs.1 u hu⟩)

theorem tiersInsert_ok {T T' : Tiers} {i : Int} {v : TierVal}
    (hT : TiersOK isUrl T) (hr : tiersInsert isUrl T i v = .ok T') : TiersOK isUrl T' := by
  unfold tiersInsert at hr
  split at hr
  · cases hr
  · rename_i tier hm
    have hu := mkURLs_ok hm
    split at hr
    · rename_i hc
      cases hr
      apply TiersOK_splice hT (Nat.le_refl _) hc.1
      rw [splice_same_nil]; exact hu
    · cases hr; exact hT

theorem tiersInsert_error {T : Tiers} {i : Int} {v : TierVal} {e : Err}
    (hr : tiersInsert isUrl T i v = .error e) : e = .url := by
  unfold tiersInsert at hr
  split at hr
  · rename_i e' hm; cases hr; exact mkURLs_error hm
  · split at hr <;> cases hr

theorem tiersAddAll_ok {T T' : Tiers} {vs : List TierVal}
    (hT : TiersOK isUrl T) (hr : tiersAddAll isUrl T vs = .ok T') : TiersOK isUrl T' := by
  induction vs generalizing T with
  | nil => unfold tiersAddAll at hr; cases hr; exact hT
  | cons v vs ih =>
    unfold tiersAddAll at hr
    split at hr
    · cases hr
    · rename_i T1 h1
      exact ih (tiersInsert_ok hT h1) hr

theorem tiersAddAll_error {T : Tiers} {vs : List TierVal} {e : Err}
    (hr : tiersAddAll isUrl T vs = .error e) : e = .url := by
  induction vs generalizing T with
  | nil => unfold tiersAddAll at hr; cases hr
  | cons v vs ih =>
    unfold tiersAddAll at hr
    split at hr
    · rename_i e' h1; cases hr; exact tiersInsert_error h1
    · exact ih hr

/-- re-reading stored good tiers is the identity (`Trackers(tiers)` in the getter) -/
theorem tiersAddAll_id {acc T : Tiers} (h : TiersOK isUrl (acc ++ T)) :
    tiersAddAll isUrl acc (T.map .list) = .ok (acc ++ T) := by
  induction T generalizing acc with
  | nil => simp [tiersAddAll]
  | cons t T ih =>
    have h' : TiersOK isUrl ((acc ++ [t]) ++ T) := by simpa using h
    have hsub : TiersOK isUrl (acc ++ [t]) :=
      TiersOK_sublist h' (List.sublist_append_left _ _)
    have hne : t ≠ [] := hsub.1 t (by simp)
    have hu : UOK isUrl acc.flatten t := by
      have := tier_UOK_others (k := acc.length) (tier := t) hsub (by simp)
      simpa [splice] using this
    simp only [List.map_cons, tiersAddAll]
    have hins : tiersInsert isUrl acc acc.length (.list t) = .ok (acc ++ [t]) := by
      unfold tiersInsert
      rw [mkURLs_list_id hu]
      have hany := not_any_setEq_of_fresh (T := acc) hne hu.2.2
      simp [hne, hany, clampIdx_length, splice]
    rw [hins]
    simpa using ih h'

/-- the loop inside `Trackers.replace` (object state kept on failure) agrees with `tiersAddAll` -/
theorem heldReplaceLoop_of_addAll {T T' : Tiers} {vs : List TierVal}
    (h : tiersAddAll isUrl T vs = .ok T') : heldReplaceLoop isUrl T vs = (T', .ok) := by
  induction vs generalizing T with
  | nil => unfold tiersAddAll at h; cases h; rfl
  | cons v vs ih =>
    unfold tiersAddAll at h
    unfold heldReplaceLoop
    split at h
    · cases h
    · exact ih h

theorem tiersExtendLoop_ok {T T' : Tiers} {last last' : Option Tiers}
    {vs : List TierVal} {out : Outcome} (hT : TiersOK isUrl T)
    (hl : ∀ l, last = some l → TiersOK isUrl l)
    (hr : tiersExtendLoop isUrl T last vs = (T', last', out)) :
    TiersOK isUrl T' ∧ (∀ l, last' = some l → TiersOK isUrl l) := by
  induction vs generalizing T last with
  | nil => unfold tiersExtendLoop at hr; cases hr; exact ⟨hT, hl⟩
  | cons v vs ih =>
    unfold tiersExtendLoop at hr
    split at hr
    · cases hr; exact ⟨hT, hl⟩
    · rename_i T1 h1
      have h1' := tiersInsert_ok hT h1
      exact ih h1' (fun l hl' => by cases hl'; exact h1') hr

theorem mkTrackers_ok {v : TrackersVal} {T : Tiers}
    (hr : mkTrackers isUrl v = .ok T) : TiersOK isUrl T := by
  cases v with
  | none => simp only [mkTrackers] at hr; cases hr; exact TiersOK_nil
  | str s => simp only [mkTrackers] at hr; exact tiersAddAll_ok TiersOK_nil hr
  | list vs => simp only [mkTrackers] at hr; exact tiersAddAll_ok TiersOK_nil hr
  | other => simp only [mkTrackers] at hr; cases hr

theorem tiersSetItemT_ok {T T' : Tiers} {i : Int} {v : TierVal}
    (hT : TiersOK isUrl T) (hr : tiersSetItemT isUrl T i v = .ok T') : TiersOK isUrl T' := by
  unfold tiersSetItemT at hr
  split at hr
  · cases hr
  · rename_i tier hm
    have hu := mkURLs_ok hm
    split at hr
    · rename_i hc
      split at hr
      · cases hr
      · rename_i k hk
        cases hr
        refine TiersOK_splice hT (Nat.le_succ k) hc.1 ?_
        exact UOK_known_subset hu
          (fun u hu' => (flatten_sublist (splice_nil_sublist T (Nat.le_succ k))).subset hu')
    · cases hr; exact hT

theorem tiersSetItem_ok {T : Tiers} {i : Int} {v : TierVal}
    {w : Written} {out : Outcome} (hT : TiersOK isUrl T)
    (hr : tiersSetItem isUrl T i v = (some w, out)) : ∃ T', TiersOK isUrl T' ∧ w = wOf T' := by
  unfold tiersSetItem at hr
  split at hr
  · cases hr
  · rename_i T' h1; cases hr; exact ⟨T', tiersSetItemT_ok hT h1, rfl⟩

/-- reversing the order of good tiers gives good tiers -/
theorem TiersOK_reverse {T : Tiers} (hT : TiersOK isUrl T) : TiersOK isUrl T.reverse := by
  have hp : T.reverse.flatten.Perm T.flatten := (List.reverse_perm T).flatten
  exact ⟨fun t ht => hT.1 t (List.mem_reverse.1 ht), hp.nodup_iff.2 hT.2.1,
    fun u hu => hT.2.2 u (hp.subset hu)⟩

/-- assigning a tier value whose URLs are all stored already (in any tier) assigns nothing:
    every URL is filtered as known, the new tier is empty, `len(tier) > 0` fails -/
theorem addAll_all_known {known items cs : List String}
    (hg : ∀ c ∈ cs, Good isUrl c ∧ c ∈ known) : addAll isUrl known items cs = .ok items := by
  induction cs with
  | nil => simp [addAll]
  | cons c cs ih =>
    have h1 := hg c (by simp)
    unfold addAll
    simp only [filterIns, coerce_of_good h1.1, h1.2, or_true, if_true]
    exact ih (fun x hx => hg x (by simp [hx]))

theorem tiersSetItemT_stored {T : Tiers} {i : Int} {x : Tier} (hT : TiersOK isUrl T) (hx : x ∈ T) :
    tiersSetItemT isUrl T i (.list x) = .ok T := by
  have hg : ∀ c ∈ x, Good isUrl c ∧ c ∈ T.flatten := fun c hc =>
    ⟨hT.2.2 c (List.mem_flatten.2 ⟨x, hx, hc⟩), List.mem_flatten.2 ⟨x, hx, hc⟩⟩
  simp [tiersSetItemT, mkURLs, urlsReplace, coerceAll_id (fun c hc => (hg c hc).1),
    addAll_all_known hg]

/-- every operation on a tier (index and slice assignment included; an assignment that empties the
    tier removes it) hands good tiers to the callback -/
theorem tierOp_ok {T : Tiers} {ti : Int} {op : UOp} {w : Written}
    {out : Outcome} (hT : TiersOK isUrl T)
    (hr : tierOp isUrl T ti op = (some w, out)) : ∃ T', TiersOK isUrl T' ∧ w = wOf T' := by
  unfold tierOp at hr
  split at hr
  · cases hr
  · rename_i k _
    split at hr
    · cases hr
    · rename_i tier hk
      have hu := tier_UOK_others hT hk
      dsimp only at hr
      split at hr
      · -- iadd
        rename_i us
        split at hr
        · rename_i last e he
          cases hl : last with
          | none => rw [hl] at hr; cases hr
          | some t' =>
            rw [hl] at hr
            cases hr
            have := (extendLoop_ok hu (fun l hl' => by cases hl') he).1 t' hl
            exact ⟨_, afterTier_ok hT this, rfl⟩
        · rename_i last he
          have hl := extendLoop_ok_last hu he
          exact tiersSetItem_ok (afterTier_ok hT hl) hr
      · rename_i hni
        rcases ho : urlsOp isUrl (splice T k (k + 1) []).flatten tier op with ⟨last, out'⟩
        rw [ho] at hr
        cases hl : last with
        | none => rw [hl] at hr; simp at hr
        | some t' =>
          rw [hl] at hr ho
          simp only [Option.map_some, Prod.mk.injEq, Option.some.injEq] at hr
          exact ⟨_, afterTier_ok hT (urlsOp_ok hu ho), hr.1.symm⟩

/-- operations on the tiers container covered by the invariant theorem: everything except the
    slice assignment `trackers[a:b] = …` (open finding D16b) -/
def TOp.clean : TOp → Bool
  | .setSlice .. => false
  | _ => true

theorem tiersOp_ok {T : Tiers} {op : TOp} {w : Written}
    {out : Outcome} (hT : TiersOK isUrl T) (hop : op.clean = true)
    (hr : tiersOp isUrl T op = (some w, out)) : ∃ T', TiersOK isUrl T' ∧ w = wOf T' := by
  have hdel : ∀ lo hi, lo ≤ hi → TiersOK isUrl (splice T lo hi []) := fun lo hi hle =>
    TiersOK_sublist hT (splice_nil_sublist T hle)
  cases op with
  | set v => simp only [tiersOp] at hr; cases hr
  | insert i v =>
    simp only [tiersOp] at hr
    split at hr
    · cases hr
    · rename_i T' h1; cases hr; exact ⟨T', tiersInsert_ok hT h1, rfl⟩
  | append v =>
    simp only [tiersOp] at hr
    split at hr
    · cases hr
    · rename_i T' h1; cases hr; exact ⟨T', tiersInsert_ok hT h1, rfl⟩
  | extend vs =>
    simp only [tiersOp] at hr
    rcases he : tiersExtendLoop isUrl T none vs with ⟨T1, last, out'⟩
    rw [he] at hr
    have := (tiersExtendLoop_ok hT (fun l hl => by cases hl) he).2
    cases hl : last with
    | none => rw [hl] at hr; simp at hr
    | some l =>
      rw [hl] at hr
      simp only [Option.map_some, Prod.mk.injEq, Option.some.injEq] at hr
      exact ⟨l, this l hl, hr.1.symm⟩
  | iadd vs =>
    simp only [tiersOp] at hr
    split at hr
    · rename_i T1 last e he
      have := (tiersExtendLoop_ok hT (fun l hl => by cases hl) he).2
      cases hl : last with
      | none => rw [hl] at hr; cases hr
      | some l => rw [hl] at hr; cases hr; exact ⟨l, this l hl, rfl⟩
    · rename_i T1 last he
      have hx := tiersExtendLoop_ok hT (fun l hl => by cases hl) he
      split at hr
      · rename_i e h2
        cases hl : last with
        | none => rw [hl] at hr; cases hr
        | some l => rw [hl] at hr; cases hr; exact ⟨l, hx.2 l hl, rfl⟩
      · rename_i T2 h2
        cases hr
        exact ⟨T2, tiersAddAll_ok TiersOK_nil h2, rfl⟩
  | delete i =>
    simp only [tiersOp] at hr
    split at hr
    · cases hr
    · cases hr; exact ⟨_, hdel _ _ (Nat.le_succ _), rfl⟩
  | delSlice a b =>
    simp only [tiersOp] at hr
    cases hr; exact ⟨_, hdel _ _ (sliceRange_le _ a b), rfl⟩
  | clear => simp only [tiersOp] at hr; cases hr; exact ⟨[], TiersOK_nil, rfl⟩
  | remove us =>
    simp only [tiersOp] at hr
    split at hr
    · cases hr
    · cases hr; exact ⟨_, hdel _ _ (Nat.le_succ _), rfl⟩
  | pop i =>
    simp only [tiersOp] at hr
    split at hr
    · cases hr
    · cases hr; exact ⟨_, hdel _ _ (Nat.le_succ _), rfl⟩
  | replace vs =>
    simp only [tiersOp] at hr
    split at hr
    · cases hr
    · rename_i T1 h1
      split at hr
      · cases hr
      · rename_i T' h2; cases hr; exact ⟨T', tiersAddAll_ok TiersOK_nil h2, rfl⟩
  | setItem i v => simp only [tiersOp] at hr; exact tiersSetItem_ok hT hr
  | reverse =>
    simp only [tiersOp] at hr
    cases hr; exact ⟨T.reverse, TiersOK_reverse hT, rfl⟩
  | setSlice a b vs => simp [TOp.clean] at hop
  | tier ti op =>
    simp only [tiersOp] at hr
    exact tierOp_ok hT hr

/-! ### webseeds / httpseeds -/

/-- a stored seed field: what `_webseeds_changed` writes for a good list -/
def SeedsField (isUrl : String → Bool) (f : Option (List String)) : Prop :=
  ∃ W, UOK isUrl [] W ∧ f = writeSeeds W

theorem getSeeds_writeSeeds {W : List String} (h : UOK isUrl [] W) :
    getSeeds isUrl (writeSeeds W) = .ok W := by
  unfold getSeeds writeSeeds
  by_cases he : W = []
  · subst he; simp [urlsReplace, coerceAll, addAll]
  · simp only [he, if_false, Option.getD_some]; exact urlsReplace_id h

theorem SeedsField_none : SeedsField isUrl none := ⟨[], UOK_nil _, rfl⟩

theorem lastSeeds_ok {stored last : Option (List String)} (hs : SeedsField isUrl stored)
    (hl : ∀ l, last = some l → UOK isUrl [] l) : SeedsField isUrl (lastSeeds stored last) := by
  cases last with
  | none => exact hs
  | some l => exact ⟨l, hl l rfl, rfl⟩

theorem seedsOp_ok {stored f : Option (List String)} {op : SOp}
    {out : Outcome} (hs : SeedsField isUrl stored)
    (hr : seedsOp isUrl stored op = (f, out)) : SeedsField isUrl f := by
  cases op with
  | set v =>
    simp only [seedsOp] at hr
    split at hr
    · cases hr; exact hs
    · rename_i items hm
      cases hr
      refine ⟨items, ?_, rfl⟩
      cases v with
      | none => simp only [mkSeeds] at hm; exact urlsReplace_ok hm
      | str s => simp only [mkSeeds] at hm; exact urlsReplace_ok hm
      | list us => simp only [mkSeeds] at hm; exact urlsReplace_ok hm
      | other => simp only [mkSeeds] at hm; cases hm
  | edit uop =>
    obtain ⟨W, hW, rfl⟩ := hs
    have hs : SeedsField isUrl (writeSeeds W) := ⟨W, hW, rfl⟩
    have generic : ∀ {last : Option (List String)} {out' : Outcome},
        urlsOp isUrl [] W uop = (last, out') → SeedsField isUrl (lastSeeds (writeSeeds W) last) := by
      intro last out' ho
      apply lastSeeds_ok hs
      intro l hl; subst hl
      exact urlsOp_ok hW ho
    cases uop with
    | iadd us =>
      simp only [seedsOp, getSeeds_writeSeeds hW] at hr
      rcases he : extendLoop isUrl [] W none us with ⟨last, o⟩
      rw [he] at hr
      have hx := extendLoop_ok hW (fun l hl => by cases hl) he
      have hlast := extendLoop_ok_last hW he
      cases o with
      | error e => simp only at hr; cases hr; exact lastSeeds_ok hs hx.1
      | ok =>
        simp only at hr
        split at hr
        · cases hr; exact lastSeeds_ok hs hx.1
        · rename_i items' h2; cases hr; exact ⟨items', urlsReplace_ok h2, rfl⟩
    | _ =>
      simp only [seedsOp, getSeeds_writeSeeds hW] at hr
      simp only [Prod.mk.injEq] at hr
      rw [← hr.1]
      exact generic rfl

/-! ### the state invariant -/

/-- announce / announce-list are what `_trackers_changed` writes for good tiers -/
def TrackersFields (isUrl : String → Bool) (s : MI) : Prop :=
  ∃ T, TiersOK isUrl T ∧ s.announce = T.head?.bind List.head? ∧
    s.announceList = if T.flatten.length ≤ 1 then none else some T

/-- the inductive invariant of C16 -/
def Inv (isUrl : String → Bool) (s : MI) : Prop :=
  TrackersFields isUrl s ∧ SeedsField isUrl s.urlList ∧ SeedsField isUrl s.httpseeds

theorem Inv_init : Inv isUrl MI.init :=
  ⟨⟨[], TiersOK_nil, rfl, rfl⟩, SeedsField_none, SeedsField_none⟩

theorem rawTiers_eq {s : MI} {T : Tiers} (hT : TiersOK isUrl T)
    (ha : s.announce = T.head?.bind List.head?)
    (hl : s.announceList = if T.flatten.length ≤ 1 then none else some T) : rawTiers s = T := by
  unfold rawTiers
  rw [ha, hl]
  match T, hT with
  | [], _ => simp
  | [] :: _, hT => exact absurd rfl (hT.1 [] (by simp))
  | (u :: t') :: T', hT =>
    by_cases hlen : ((u :: t') :: T').flatten.length ≤ 1
    · have hlen' := hlen
      simp only [List.flatten_cons, List.length_append, List.length_cons] at hlen'
      have h1 : t' = [] := List.eq_nil_of_length_eq_zero (by omega)
      have h2 : T' = [] := by
        cases T' with
        | nil => rfl
        | cons t2 T'' =>
          have h3 : t2 ≠ [] := hT.1 t2 (by simp)
          have h4 : 0 < t2.length := List.length_pos_iff.2 h3
          simp only [List.flatten_cons, List.length_append] at hlen'
          omega
      subst h1 h2
      simp
    · rw [if_neg hlen]
      simp only [List.head?_cons, Option.bind_some, Option.getD_some]
      rw [if_pos (by simp)]

theorem getTrackers_eq {s : MI} {T : Tiers} (hT : TiersOK isUrl T)
    (ha : s.announce = T.head?.bind List.head?)
    (hl : s.announceList = if T.flatten.length ≤ 1 then none else some T) :
    getTrackers isUrl s = .ok T := by
  unfold getTrackers
  rw [rawTiers_eq hT ha hl]
  simpa using tiersAddAll_id (acc := []) (T := T) (by simpa using hT)

theorem writeTrackers_fields (s : MI) {T : Tiers} (hT : TiersOK isUrl T) :
    TrackersFields isUrl (writeTrackers s (wOf T)) := ⟨T, hT, rfl, rfl⟩

theorem trackersOp_generic {s : MI} {op : TOp} (hop : ∀ v, op ≠ .set v) :
    trackersOp isUrl s op =
      match getTrackers isUrl s with
      | .error e => (s, .error e)
      | .ok T => match tiersOp isUrl T op with
        | (last, out) => (applyWritten s last, out) := by
  cases op <;> first | rfl | exact absurd rfl (hop _)

theorem trackersOp_inv {s : MI} {op : TOp}
    (hs : TrackersFields isUrl s) (hop : op.clean = true) :
    TrackersFields isUrl (trackersOp isUrl s op).1 ∧
    (trackersOp isUrl s op).1.urlList = s.urlList ∧
    (trackersOp isUrl s op).1.httpseeds = s.httpseeds := by
  by_cases hset : ∃ v, op = .set v
  · obtain ⟨v, rfl⟩ := hset
    simp only [trackersOp]
    split
    · exact ⟨hs, rfl, rfl⟩
    · rename_i T hm
      exact ⟨writeTrackers_fields s (mkTrackers_ok hm), rfl, rfl⟩
  · have hns : ∀ v, op ≠ .set v := fun v hv => hset ⟨v, hv⟩
    rw [trackersOp_generic hns]
    obtain ⟨T, hT, ha, hl⟩ := hs
    rw [getTrackers_eq hT ha hl]
    simp only
    rcases ho : tiersOp isUrl T op with ⟨last, out⟩
    cases last with
    | none => exact ⟨⟨T, hT, ha, hl⟩, rfl, rfl⟩
    | some w =>
      obtain ⟨T', hT', rfl⟩ := tiersOp_ok hT hop ho
      exact ⟨writeTrackers_fields s hT', rfl, rfl⟩

/-- operations covered by the invariant theorem: everything except slice assignment on the tiers -/
theorem affected_false_iff {op : Op} :
    op.affected = false ↔
      match op with
      | .trackers t => t.clean = true
      | .webseeds _ => True
      | .httpseeds _ => True := by
  cases op with
  | trackers t => cases t <;> simp [Op.affected, TOp.clean]
  | webseeds o => simp [Op.affected]
  | httpseeds o => simp [Op.affected]

theorem step_inv {s : MI} {op : Op} (hs : Inv isUrl s)
    (hop : op.affected = false) : Inv isUrl (step isUrl s op).1 := by
  have hc := affected_false_iff.1 hop
  obtain ⟨ht, hw, hh⟩ := hs
  cases op with
  | trackers t =>
    simp only [step]
    obtain ⟨h1, h2, h3⟩ := trackersOp_inv ht hc
    exact ⟨h1, h2 ▸ hw, h3 ▸ hh⟩
  | webseeds o =>
    simp only [step]
    rcases ho : seedsOp isUrl s.urlList o with ⟨f, out⟩
    exact ⟨ht, seedsOp_ok hw ho, hh⟩
  | httpseeds o =>
    simp only [step]
    rcases ho : seedsOp isUrl s.httpseeds o with ⟨f, out⟩
    exact ⟨ht, hw, seedsOp_ok hh ho⟩

theorem run_inv {s : MI} {ops : List Op} (hs : Inv isUrl s)
    (hop : ∀ op ∈ ops, op.affected = false) : Inv isUrl (run isUrl s ops) := by
  induction ops generalizing s with
  | nil => exact hs
  | cons op ops ih =>
    simp only [run]
    exact ih (step_inv hs (hop op (by simp))) (fun o ho => hop o (by simp [ho]))

/-- the invariant implies the property as stated (`Spec.holds` on the read-back lists) -/
theorem Inv_holds {s : MI} (hs : Inv isUrl s) :
    Spec.holds isUrl s (readBack isUrl s) = true := by
  obtain ⟨⟨T, hT, ha, hl⟩, ⟨W, hW, hw⟩, ⟨H, hH, hh⟩⟩ := hs
  have h1 := getTrackers_eq hT ha hl
  have h2 : getSeeds isUrl s.urlList = .ok W := by rw [hw]; exact getSeeds_writeSeeds hW
  have h3 : getSeeds isUrl s.httpseeds = .ok H := by rw [hh]; exact getSeeds_writeSeeds hH
  simp only [readBack, h1, h2, h3, Spec.holds, Spec.holdsRb, Bool.and_eq_true, decide_eq_true_eq,
    List.all_eq_true, List.mem_append]
  refine ⟨⟨⟨⟨⟨⟨⟨⟨?_, ?_⟩, ?_⟩, ?_⟩, hT.2.1⟩, hW.1⟩, hH.1⟩, ?_⟩, ?_⟩
  · rw [ha]; cases T <;> rfl
  · rw [hl]
    split <;> split <;> first | rfl | (exfalso; omega)
  · rw [hw]; rfl
  · rw [hh]; rfl
  · intro t ht
    have := hT.1 t ht
    cases t with
    | nil => exact absurd rfl this
    | cons _ _ => rfl
  · intro u hu
    rcases hu with (hu | hu) | hu
    · exact (hT.2.2 u hu).1
    · exact (hW.2.1 u hu).1
    · exact (hH.2.1 u hu).1

end Torf.Lists
