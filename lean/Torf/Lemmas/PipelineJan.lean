/-
  Torf.Lemmas.PipelineJan — the janitor and the hash queue (C03 clauses (iv), (v)): every running
  hasher is tracked by the pool; the janitor only closes the hash queue after the finalize event
  and after it has seen every tracked hasher dead, so when the sentinel is in the hash queue no
  hasher runs any more and nothing is pushed behind it; main only returns after the janitor.
-/
import Torf.Lemmas.PipelineSent
namespace Torf.Pipeline

theorem hasherRunning_false {s : State} {h : Nat} (hr : hasherRunning s h = false) :
    ∀ p, s.hs[h]? = some p → p.running = false := by
  intro p hp
  simpa [hasherRunning, List.getD_eq_getElem?_getD, hp] using hr

theorem hasherRunning_true {s : State} {h : Nat} (hr : hasherRunning s h = true) :
    ∃ p, s.hs[h]? = some p ∧ p.running = true := by
  unfold hasherRunning at hr
  rw [List.getD_eq_getElem?_getD] at hr
  cases hp : s.hs[h]? with
  | none => simp [hp, HPc.running] at hr
  | some p => exact ⟨p, rfl, by simpa [hp] using hr⟩

structure InvB3 (cfg : Cfg) (s : State) : Prop where
  j2 : ∀ (i : Nat) (p : HPc), s.hs[i]? = some p → p.running = true → i ∈ s.tracked
  jp : ∀ snap, s.jan = JPc.prune snap → snap ≠ [] ∧ snap.length ≤ cfg.N
  js1 : ∀ rest, s.jan = JPc.spin rest → rest ≠ [] ∧ rest.length ≤ cfg.N ∧ s.fin = true
  js2 : ∀ rest, s.jan = JPc.spin rest →
    ∀ (h : Nat) (p : HPc), h ∈ s.tracked → s.hs[h]? = some p → p.running = true → h ∈ rest
  jc1 : s.jan = JPc.closing ∨ s.jan = JPc.done → s.fin = true
  jc2 : s.jan = JPc.closing ∨ s.jan = JPc.done →
    ∀ (h : Nat) (p : HPc), s.hs[h]? = some p → p.running = false
  m5 : ∀ r, s.main = MPc.finished r → s.jan = JPc.done
  h1 : s.jan = JPc.done → s.main = MPc.collect → none ∈ s.hq
  h2 : s.jan ≠ JPc.done → none ∉ s.hq
  h3 : none ∉ s.hq.dropLast

theorem InvB3.init (cfg : Cfg) : InvB3 cfg (init cfg) := by
  constructor <;> simp [Pipeline.init] <;> grind [HPc.running]

theorem InvB3.main {cfg : Cfg} {s s' : State} (hB : InvB1 cfg s) (h : InvB3 cfg s)
    (hs : MainStep cfg s s') : InvB3 cfg s' := by
  obtain ⟨j2, jp, js1, js2, jc1, jc2, m5, h1, h2, h3⟩ := h
  have hjs := hB.jstart
  have htrk0 := hB.trk0
  have hlen := hB.len
  have hnj := hB.nrefJ
  cases hs <;>
    (have hm := ‹s.main = _›
     simp [hm, preJan] at hjs
     constructor <;> grind [q_pop, JPc.done_of, HPc.running, joinTarget_cases])

theorem InvB3.reader {cfg : Cfg} {s s' : State} (h : InvB3 cfg s)
    (hs : ReaderStep cfg s s') : InvB3 cfg s' := by
  obtain ⟨j2, jp, js1, js2, jc1, jc2, m5, h1, h2, h3⟩ := h
  cases hs with
  | begin hr t hn => cases hn <;> (constructor <;> grind)
  | put k hr hc t hn => cases hn <;> (constructor <;> grind)
  | close hr hc => constructor <;> grind

theorem InvB3.hasher {cfg : Cfg} {s s' : State} {i : Nat} (h : InvB3 cfg s)
    (hs : HasherStep cfg s i s') : InvB3 cfg s' := by
  obtain ⟨j2, jp, js1, js2, jc1, jc2, m5, h1, h2, h3⟩ := h
  cases hs <;> (constructor <;> grind [q_push, HPc.running])

theorem InvB3.janitor {cfg : Cfg} {s s' : State} (hB : InvB1 cfg s) (h : InvB3 cfg s)
    (hs : JanitorStep s s') : InvB3 cfg s' := by
  obtain ⟨j2, jp, js1, js2, jc1, jc2, m5, h1, h2, h3⟩ := h
  have htrk := hB.trk
  cases hs with
  | begin hj => constructor <;> grind
  | wake hj hf =>
    have := spinPc_cases s.tracked
    constructor <;> grind
  | timeout hj hf =>
    have := prunePc_cases s.tracked
    constructor <;> grind
  | pruneKeep h rest hj hr =>
    have := prunePc_cases rest
    constructor <;> grind
  | pruneDrop h rest hj hr =>
    have := prunePc_cases rest
    have hr' := hasherRunning_false hr
    constructor <;> grind
  | spinRestart h rest hj hr =>
    have := spinPc_cases s.tracked
    constructor <;> grind
  | spinNext h rest hj hr =>
    have := spinPc_cases rest
    have hr' := hasherRunning_false hr
    constructor <;> grind
  | close hj => constructor <;> grind [q_push]

theorem InvB3.step {cfg : Cfg} {s s' : State} (hB : InvB1 cfg s) (h : InvB3 cfg s)
    (hs : Step cfg s s') : InvB3 cfg s' := by
  cases hs with
  | main h' => exact h.main hB h'
  | reader h' => exact h.reader h'
  | hasher i h' => exact h.hasher h'
  | janitor h' => exact h.janitor hB h'

end Torf.Pipeline
