/-
  Lemmas about the model of `urllib.parse.parse_qs` (Torf/Model/QueryString.lean): the loop never
  raises with the options `from_string` uses, the field count of the limit test is the number of
  fields the loop sees, grouping yields no empty value list.
-/
import Torf.Lemmas.Untrusted
import Torf.Model.QueryString
namespace Torf.Untrusted

/-! ### splitting -/

theorem splitAux_length (sep : Char) : ∀ (cs cur : List Char) (acc : List (List Char)),
    (splitAux sep cs cur acc).length = acc.length + 1 + cs.count sep := by
  intro cs
  induction cs with
  | nil => intro cur acc; simp [splitAux]
  | cons c cs ih =>
    intro cur acc
    unfold splitAux
    by_cases h : c = sep
    · subst h
      simp only [beq_self_eq_true, if_true]
      rw [ih]; simp; omega
    · have hb : (c == sep) = false := by simpa using h
      simp only [hb, Bool.false_eq_true, if_false]
      rw [ih]
      simp [List.count_cons, hb]

/-- the limit test of `parse_qsl` counts exactly the fields its loop iterates over -/
theorem fields_length (qs : List Char) : (fields qs).length = numFields qs := by
  unfold fields numFields
  by_cases h : qs.isEmpty = true
  · simp [h]
  · simp only [h, Bool.false_eq_true, if_false]
    unfold splitChar
    rw [splitAux_length]; simp

/-- `'&' * n` has `n + 1` fields -/
theorem numFields_replicate (n : Nat) (h : 0 < n) : numFields (List.replicate n '&') = n + 1 := by
  unfold numFields
  have : (List.replicate n '&').isEmpty = false := by
    cases n with
    | zero => omega
    | succ k => simp [List.replicate]
  simp [this]; omega

/-! ### the loop -/

/-- without strict parsing a field never raises -/
theorem qslField_lenient (pct : String → String) (nv : List Char) :
    ∃ r, qslField pct false nv = .ok r := by
  unfold qslField
  split
  · exact ⟨_, rfl⟩
  · split
    · exact ⟨_, rfl⟩
    · split <;> exact ⟨_, rfl⟩

theorem qslLoop_lenient (pct : String → String) :
    ∀ (fs : List (List Char)) (acc : List (String × String)), ∃ ps, qslLoop pct false fs acc = .ok ps := by
  intro fs
  induction fs with
  | nil => intro acc; exact ⟨_, rfl⟩
  | cons nv rest ih =>
    intro acc
    obtain ⟨r, hr⟩ := qslField_lenient pct nv
    unfold qslLoop
    rw [hr]
    cases r with
    | none => exact ih acc
    | some p => exact ih (p :: acc)

/-- a field without `=` under strict parsing is a ValueError -/
theorem qslField_strict_noeq (pct : String → String)
    (nv : List Char) (hne : splitFirst '=' nv [] = none) : qslField pct true nv = .error .value := by
  unfold qslField
  simp [hne]

theorem qslLoop_error_head (pct : String → String) (o : Bool) (nv : List Char) (rest : List (List Char))
    (acc : List (String × String)) (r : Raise) (h : qslField pct o nv = .error r) :
    qslLoop pct o (nv :: rest) acc = .error r := by
  unfold qslLoop; rw [h]

/-- what the loop raises is a ValueError -/
theorem qslField_err {pct : String → String} {o : Bool} {nv : List Char} {r : Raise}
    (h : qslField pct o nv = .error r) : r = .value := by
  unfold qslField at h
  split at h
  · cases h
  · split at h
    · split at h
      · cases h; rfl
      · cases h
    · split at h <;> cases h

theorem qslLoop_err {pct : String → String} {o : Bool} : ∀ {fs : List (List Char)}
    {acc : List (String × String)} {r : Raise}, qslLoop pct o fs acc = .error r → r = .value := by
  intro fs
  induction fs with
  | nil => intro acc r h; cases h
  | cons nv rest ih =>
    intro acc r h
    unfold qslLoop at h
    cases hf : qslField pct o nv with
    | error r' => rw [hf] at h; cases h; exact qslField_err hf
    | ok x =>
      rw [hf] at h
      cases x with
      | none => exact ih h
      | some p => exact ih h

theorem parseQsl_err {pct : String → String} {o : QsOpts} {qs : List Char} {r : Raise}
    (h : parseQsl pct o qs = .error r) : r = .value := by
  unfold parseQsl at h
  split at h
  · split at h
    · cases h; rfl
    · exact qslLoop_err h
  · exact qslLoop_err h

/-! ### grouping -/

/-- every key of the grouped result has at least one value -/
def GroupsNonempty (q : List (String × List String)) : Prop := ∀ kv ∈ q, kv.2 ≠ []

theorem addPair_nonempty (k v : String) : ∀ (q : List (String × List String)),
    GroupsNonempty q → GroupsNonempty (addPair k v q) := by
  intro q
  induction q with
  | nil => intro _ kv hkv; simp [addPair] at hkv; subst hkv; simp
  | cons hd t ih =>
    intro hq kv hkv
    obtain ⟨k', vs⟩ := hd
    unfold addPair at hkv
    split at hkv
    · rcases List.mem_cons.1 hkv with h | h
      · subst h; simp
      · exact hq kv (List.mem_cons_of_mem _ h)
    · rcases List.mem_cons.1 hkv with h | h
      · subst h; exact hq _ (List.mem_cons_self ..)
      · exact ih (fun kv' h' => hq kv' (List.mem_cons_of_mem _ h')) kv h

theorem groupPairs_nonempty : ∀ (ps : List (String × String)) (acc : List (String × List String)),
    GroupsNonempty acc → GroupsNonempty (groupPairs ps acc) := by
  intro ps
  induction ps with
  | nil =>
    intro acc hacc kv hkv
    simp only [groupPairs, List.mem_map] at hkv
    obtain ⟨kv', hm, rfl⟩ := hkv
    have := hacc kv' hm
    simpa using this
  | cons p t ih =>
    intro acc hacc
    obtain ⟨k, v⟩ := p
    unfold groupPairs
    exact ih _ (addPair_nonempty k v acc hacc)

theorem qlookup_mem {k : String} : ∀ {q : List (String × List String)} {vs : List String},
    qlookup k q = some vs → ∃ k', (k', vs) ∈ q := by
  intro q
  induction q with
  | nil => intro vs h; simp [qlookup] at h
  | cons hd t ih =>
    intro vs h
    obtain ⟨k', v⟩ := hd
    unfold qlookup at h
    split at h
    · cases h; exact ⟨k', List.mem_cons_self ..⟩
    · obtain ⟨k'', hm⟩ := ih h
      exact ⟨k'', List.mem_cons_of_mem _ hm⟩

theorem QsNonempty_of_groups {q : List (String × List String)} (h : GroupsNonempty q) : QsNonempty q := by
  intro k vs hl
  obtain ⟨k', hm⟩ := qlookup_mem hl
  exact h (k', vs) hm

/-- whatever `parse_qs` returns has no empty value list — the former hypothesis `QsNonempty` -/
theorem parseQsE_nonempty {pct : String → String} {o : QsOpts} {qs : String}
    {q : List (String × List String)} (h : parseQsE pct o qs = .ok q) : QsNonempty q := by
  unfold parseQsE at h
  split at h
  · cases h
  · cases h
    exact QsNonempty_of_groups (groupPairs_nonempty _ [] (fun _ h => by simp at h))

/-- with the arguments `from_string` passes, `parse_qs` returns for every query -/
theorem parseQsE_default (pct : String → String) (qs : String) :
    parseQsE pct {} qs = .ok (parseQs pct qs) := by
  unfold parseQs
  have : ∃ ps, parseQsl pct {} qs.toList = .ok ps := by
    unfold parseQsl
    exact qslLoop_lenient pct _ _
  obtain ⟨ps, hps⟩ := this
  unfold parseQsE
  rw [hps]

theorem parseQs_nonempty (pct : String → String) (qs : String) : QsNonempty (parseQs pct qs) :=
  parseQsE_nonempty (parseQsE_default pct qs)

/-- `afterQs`: MagnetError or URLError, nothing else -/
theorem afterQs_err {o : MagnetOracle} {q : List (String × List String)} {e : Err}
    (hq : QsNonempty q) (h : afterQs o q = .error e) : e = .magnet ∨ e = .url := by
  unfold afterQs at h
  split at h
  · cases h; left; rfl
  · exact withXt_err hq h

end Torf.Untrusted
