/-
  The pieces of `Sound.soundVal` on the exported value of a validated metainfo: file entries and
  their sum, tiers and the announce list.
-/
import Torf.Lemmas.SoundIter
namespace Torf.Sound
open Torf Torf.Bencode Torf.Codec Torf.Validate
open Torf.Export (utf8)

/-- a validated, encodable `path` is exported as string components -/
theorem pathOk_enc {p : PyVal} {comps : List PyVal} {p' : BVal} (hpi : p.isIterable = true)
    (hcomps : pyIter p = some comps)
    (hall : ∀ j, j < comps.length → ∃ v, getItem p (.i j) = .val v ∧ isStrOrBytes v = true)
    (henc : Codec.encodeValue p = .ok p') : pathOk (norm p') = true := by
  rcases iter_enc (Q := fun v => isStrOrBytes v = true)
      (by intro n; simp [isStrOrBytes, PyVal.isStr, PyVal.isBytes]) hpi hcomps hall henc with
    ⟨l, l', _, _, hl', hn, hq⟩ | h | h
  · rw [hn]
    simp only [pathOk, List.all_eq_true, List.mem_map]
    rintro _ ⟨w, hw, rfl⟩
    obtain ⟨v, hv, hev⟩ := encodeList_mem l l' hl' w hw
    obtain ⟨b, rfl⟩ := enc_strOrBytes (hq v hv) hev
    simp [norm_bytes, isBytesB]
  · rw [h]; rfl
  · rw [h]; rfl

/-- a validated file entry is exported with a non-negative integer length and string path
    components -/
theorem fileLen_enc {x : PyVal} {x' : BVal} (hx : EntryFacts x) (hw : wf x = true)
    (henc : Codec.encodeValue x = .ok x') :
    ∃ n : Nat, fileLen? (norm x') = some n ∧ (n : Int) = fileLen x := by
  obtain ⟨h0, _⟩ := hx.fileLen
  obtain ⟨e, l, len, p, comps, rfl, hl, _, _, hnum, hlen0, hp, hpi, hcomps, hall⟩ := hx
  have hfl : Validate.fileLen (.dict e) = len := by simp [Validate.fileLen, hl, hnum]
  obtain ⟨L, hL, hlook⟩ := lookup_encoded e x' henc (wf_strKeys e hw)
  obtain ⟨lv', hlv', hlb⟩ := (hlook "length").2 l hl
  obtain ⟨pv', hpv', hpb⟩ := (hlook "path").2 p hp
  have := enc_numVal hnum hlv'
  subst this
  refine ⟨len.toNat, ?_, by rw [hfl]; omega⟩
  rw [hL]
  simp only [fileLen?, hlb, hpb, norm_int, pathOk_enc hpi hcomps hall hpv', hlen0, and_self, if_true]

/-- the exported file list sums up to the size `validate` computed -/
theorem sumFiles_enc : ∀ (l : List PyVal) (l' : List BVal), Codec.encodeList l = .ok l' →
    (∀ x ∈ l, EntryFacts x) → (∀ x ∈ l, wf x = true) →
    ∃ n : Nat, sumFiles (l'.map norm) = some n ∧ (n : Int) = (l.map Validate.fileLen).sum
  | [], l', he, _, _ => by
    rw [encodeList_nil_ok l' he]; exact ⟨0, rfl, rfl⟩
  | x :: t, l', he, hf, hw => by
    obtain ⟨x', t', hx', ht', rfl⟩ := encodeList_cons_ok x t l' he
    obtain ⟨a, ha, hae⟩ := fileLen_enc (hf x (by simp)) (hw x (by simp)) hx'
    obtain ⟨b, hb, hbe⟩ := sumFiles_enc t t' ht' (fun y hy => hf y (by simp [hy]))
      (fun y hy => hw y (by simp [hy]))
    refine ⟨a + b, ?_, ?_⟩
    · simp only [List.map_cons, sumFiles, ha, hb, bind, Option.bind, pure]
    · simp only [List.map_cons, List.sum_cons]; omega

variable (urlOk : Bytes → Bool)

/-- a validated, encodable tier is exported as a list of well-formed URLs (or as an empty
    string / dictionary) -/
theorem tierB_enc {tier : PyVal} {xs : List PyVal} {t' : BVal} (hpi : tier.isIterable = true)
    (hxs : pyIter tier = some xs)
    (hall : ∀ j, j < xs.length →
      ∃ v, getItem tier (.i j) = .val v ∧ v.isStr = true ∧ isUrl urlOk v = true)
    (henc : Codec.encodeValue tier = .ok t') : tierB urlOk (norm t') = true := by
  rcases iter_enc (Q := fun v => v.isStr = true ∧ isUrl urlOk v = true)
      (by intro n; simp [PyVal.isStr]) hpi hxs hall henc with
    ⟨l, l', _, _, hl', hn, hq⟩ | h | h
  · rw [hn]
    simp only [tierB, List.all_eq_true, List.mem_map]
    rintro _ ⟨w, hw, rfl⟩
    obtain ⟨v, hv, hev⟩ := encodeList_mem l l' hl' w hw
    obtain ⟨b, rfl, hb⟩ := enc_url (hq v hv).1 (hq v hv).2 hev
    simpa [norm_bytes, urlB] using hb
  · rw [h]; rfl
  · rw [h]; rfl

/-- the announce list of a validated metainfo is exported soundly -/
theorem announceList_enc {al : PyVal} {xs : List PyVal} {al' : BVal} (hpi : al.isIterable = true)
    (hxs : pyIter al = some xs) (hall : ∀ i, i < xs.length → TierFacts urlOk al i)
    (henc : Codec.encodeValue al = .ok al') :
    (∃ tiers, norm al' = .list tiers ∧ tiers.all (tierB urlOk) = true) ∨
      norm al' = .bytes [] ∨ norm al' = .dict [] := by
  rcases iter_enc
      (Q := fun tier => tier.isIterable = true ∧ ∃ ys, pyIter tier = some ys ∧ ∀ j, j < ys.length →
        ∃ v, getItem tier (.i j) = .val v ∧ v.isStr = true ∧ isUrl urlOk v = true)
      (by intro n; simp [PyVal.isIterable]) hpi hxs
      (fun i hi => by
        obtain ⟨tier, ys, h1, h2, h3, h4⟩ := hall i hi
        exact ⟨tier, h1, h2, ys, h3, h4⟩) henc with
    ⟨l, l', _, _, hl', hn, hq⟩ | h | h
  · refine .inl ⟨_, hn, ?_⟩
    simp only [List.all_eq_true, List.mem_map]
    rintro _ ⟨w, hw, rfl⟩
    obtain ⟨v, hv, hev⟩ := encodeList_mem l l' hl' w hw
    obtain ⟨h2, ys, h3, h4⟩ := hq v hv
    exact tierB_enc urlOk h2 h3 h4 hev
  · exact .inr (.inl h)
  · exact .inr (.inr h)

end Torf.Sound
