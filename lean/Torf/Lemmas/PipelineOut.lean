/-
  Torf.Lemmas.PipelineOut — the outcome of a fault-free run with a passive callback (C03 clause
  (v), (vii)): when main takes the sentinel from the hash queue every piece has been collected;
  main only carries the exception of a raising piece; a returned result stores the digests of
  exactly the data pieces.
-/
import Torf.Lemmas.PipelineInv
namespace Torf.Pipeline

/-- main has left `Collector.collect`'s loop -/
def joined : MPc → Bool
  | .joinReaderChk _ | .joinReader _ | .joinHasherChk .. | .joinHasher ..
  | .joinJanitorChk _ | .joinJanitor _ | .finished _ => true
  | _ => false

@[simp] theorem joined_joinTarget (s : State) (idx : Nat) (e : Option Exc) :
    joined (joinTarget s idx e) = true := by unfold joinTarget; split <;> rfl

@[simp] theorem mainExc_joinTarget (s : State) (idx : Nat) (e : Option Exc) :
    mainExc (joinTarget s idx e) = e := by unfold joinTarget; split <;> rfl

theorem mainExc_finished (s : State) (e : Option Exc) : mainExc (.finished (resultOf s e)) = e := by
  cases e <;> rfl

theorem hk_of_not_running {p : HPc} (h : p.running = false) : hk p = none := by
  cases p <;> simp_all [HPc.running, hk]

/-- main receives the sentinel: everything has been collected -/
theorem closed_complete {cfg : Cfg} {s : State} {rest : List (Option Nat)} (h : Inv cfg s)
    (hq : s.hq = none :: rest) (hstop : s.stop = false) (hrexc : s.rexc = false) :
    s.seen.Perm (List.range cfg.items.length) := by
  have hjd : s.jan = .done := by
    cases hj : s.jan with
    | done => rfl
    | _ => have := h.b3.h2 (by simp [hj]); simp [hq] at this
  have hfin := h.b3.jc1 (Or.inr hjd)
  have hdead := h.b3.jc2 (Or.inr hjd)
  have hrpc : s.rpc = .done := by
    cases hr : s.rpc with
    | done => rfl
    | _ => have := h.b2.e1fin (by simp [hr]); rw [hfin] at this; simp at this
  have hrest : rest = [] := q_closed hq h.b3.h3
  have hpq : s.pq.filterMap id = [] := by
    rw [List.filterMap_eq_nil_iff]
    intro x hx
    rw [h.b2.r2 hfin x hx]; rfl
  have hheld : s.hs.filterMap hk = [] := by
    rw [List.filterMap_eq_nil_iff]
    intro p hp
    obtain ⟨i, hi⟩ := List.mem_iff_getElem?.1 hp
    exact hk_of_not_running (hdead i p hi)
  have hin : inFlight s = s.seen := by
    rw [inFlight_def, hq, hrest, hpq, hheld]; simp
  have hlen := h.a.full (Or.inr hrpc) hstop hrexc
  have hp := h.a.perm
  rw [hlen, hin] at hp
  exact hp

structure InvC (cfg : Cfg) (s : State) : Prop where
  rexc : s.rexc = false
  pre : joined s.main = false →
    s.stop = false ∧ ∀ k ∈ s.seen, isRaising cfg (cfg.items.getD k .nodata) = false
  ok : joined s.main = true → mainExc s.main = none →
    s.seen.Perm (List.range cfg.items.length) ∧
      ∀ k ∈ s.seen, isRaising cfg (cfg.items.getD k .nodata) = false
  ret : ∀ c, s.main = .finished (.returned c) → c = s.collected
  exc : ∀ x, mainExc s.main = some x →
    ∃ k, x = .item k ∧ k < cfg.items.length ∧ isRaising cfg (cfg.items.getD k .nodata) = true

theorem InvC.init (cfg : Cfg) : InvC cfg (init cfg) := by
  constructor <;> simp [Pipeline.init, joined, mainExc]

theorem InvC.main {cfg : Cfg} {s s' : State} (hcb : ∀ k d, cfg.cb k d = .pass) (h : Inv cfg s)
    (hc : InvC cfg s) (hs : MainStep cfg s s') : InvC cfg s' := by
  obtain ⟨rexc, pre, ok, ret, exc⟩ := hc
  cases hs with
  | collectClosed rest hm hq =>
    have hp := pre (by simp [hm, joined])
    have := closed_complete h hq hp.1 rexc
    constructor <;> simp_all [joined, mainExc]
  | collectRaise k rest hm hq hk hr =>
    have hlt : k < cfg.items.length := h.a.lt (by rw [inFlight_def, hq]; simp)
    constructor <;> simp_all [joined, mainExc]
  | collectPass k rest hm hq hk hr hcb' =>
    have hp := pre (by simp [hm, joined])
    constructor <;> simp_all [joined, mainExc]
    grind
  | collectCancel k rest hm hq hk hr hcb' => rw [hcb] at hcb'; simp at hcb'
  | collectCbRaise k rest hm hq hk hr hcb' => rw [hcb] at hcb'; simp at hcb'
  | joinJanitorSkip e hm hr =>
    cases e <;> (constructor <;> simp_all [joined, mainExc, resultOf])
  | joinJanitorDone e hm hr =>
    cases e <;> (constructor <;> simp_all [joined, mainExc, resultOf])
  | joinReaderSkip e hm hr =>
    rcases joinTarget_cases s 0 (if s.rexc = true then some .read else e) with ⟨h', ht⟩ | ht <;>
      (rw [ht]; constructor <;> simp_all [joined, mainExc])
  | joinReaderDone e hm hr =>
    rcases joinTarget_cases s 0 (if s.rexc = true then some .read else e) with ⟨h', ht⟩ | ht <;>
      (rw [ht]; constructor <;> simp_all [joined, mainExc])
  | joinHasherSkip hh idx e hm hr =>
    rcases joinTarget_cases s (idx + 1) e with ⟨h', ht⟩ | ht <;>
      (rw [ht]; constructor <;> simp_all [joined, mainExc])
  | joinHasherDone hh idx e hm hr =>
    rcases joinTarget_cases s (idx + 1) e with ⟨h', ht⟩ | ht <;>
      (rw [ht]; constructor <;> simp_all [joined, mainExc])
  | _ => constructor <;> simp_all [joined, mainExc]

theorem InvC.reader {cfg : Cfg} {s s' : State} (hnf : cfg.readFault = none) (hc : InvC cfg s)
    (hs : ReaderStep cfg s s') : InvC cfg s' := by
  obtain ⟨rexc, pre, ok, ret, exc⟩ := hc
  cases hs with
  | begin hr t hn => cases hn <;> first | (constructor <;> assumption) | simp_all
  | put k hr hc t hn => cases hn <;> first | (constructor <;> assumption) | simp_all
  | close hr hc => constructor <;> assumption

theorem InvC.hasher {cfg : Cfg} {s s' : State} {i : Nat} (hc : InvC cfg s)
    (hs : HasherStep cfg s i s') : InvC cfg s' := by
  obtain ⟨rexc, pre, ok, ret, exc⟩ := hc
  cases hs <;> (constructor <;> assumption)

theorem InvC.janitor {cfg : Cfg} {s s' : State} (hc : InvC cfg s)
    (hs : JanitorStep s s') : InvC cfg s' := by
  obtain ⟨rexc, pre, ok, ret, exc⟩ := hc
  cases hs <;> (constructor <;> assumption)

theorem InvC.step {cfg : Cfg} {s s' : State} (hnf : cfg.readFault = none)
    (hcb : ∀ k d, cfg.cb k d = .pass) (h : Inv cfg s) (hc : InvC cfg s) (hs : Step cfg s s') :
    InvC cfg s' := by
  cases hs with
  | main h' => exact hc.main hcb h h'
  | reader h' => exact hc.reader hnf h'
  | hasher i h' => exact hc.hasher h'
  | janitor h' => exact hc.janitor h'

/-- invariant and outcome invariant together, on reachable states of a fault-free configuration
    with a passive callback -/
theorem InvC.of_reachable {cfg : Cfg} {s : State} (hnf : cfg.readFault = none)
    (hrf : cfg.refuse = []) (hcb : ∀ k d, cfg.cb k d = .pass) (h : Reachable cfg s) :
    Inv cfg s ∧ InvC cfg s :=
  Reachable.induction (P := fun s => Inv cfg s ∧ InvC cfg s) ⟨Inv.init cfg, InvC.init cfg⟩
    (fun _ _ _ _ hp hs =>
      ⟨hp.1.step hrf hs, hp.2.step hnf hcb hp.1 (Step.of_step hrf hp.1.a hs)⟩) h

theorem hashedItems_eq (cfg : Cfg) :
    hashedItems cfg = (List.range cfg.items.length).filter (isHashed cfg) := rfl

theorem InvC.outcome {cfg : Cfg} {s : State} (h : Inv cfg s) (hc : InvC cfg s)
    (ht : terminal s = true) : ∃ r, result? s = some r ∧ outcomeOk cfg r = true := by
  unfold terminal at ht
  split at ht
  · rename_i r hm
    refine ⟨r, by simp [result?, hm], ?_⟩
    cases r with
    | returned c =>
      have hcc := hc.ret c hm
      obtain ⟨hp, hnr⟩ := hc.ok (by simp [hm, joined]) (by simp [hm, mainExc])
      have hbad : badItems cfg = [] := by
        unfold badItems
        rw [List.filter_eq_nil_iff]
        intro k hk
        have := hnr k (hp.mem_iff.2 hk)
        rw [this]; simp
      have hsort : c.mergeSort (fun a b => decide (a ≤ b)) = hashedItems cfg := by
        rw [hashedItems_eq, hcc, h.a.coll]
        exact mergeSort_eq_of_perm_sorted (hp.filter _) ((pairwise_le_range _).filter _)
      simp only [outcomeOk, hbad, List.isEmpty_nil, hsort, beq_self_eq_true, Bool.and_self]
    | raised x =>
      obtain ⟨k, hx, hlt, hr⟩ := hc.exc x (by simp [hm, mainExc])
      subst hx
      simp only [outcomeOk, badItems, List.contains_eq_mem, List.mem_filter, List.mem_range,
        decide_eq_true_eq]
      exact ⟨hlt, hr⟩
  · simp at ht

end Torf.Pipeline
