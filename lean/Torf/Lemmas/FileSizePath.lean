/-
  Helper lemmas for C20 on spelled paths: resolution composes (with one remaining link budget for
  everything below), a larger link budget changes nothing unless ELOOP was hit, pathlib's tidying
  (dropping empty and `.` components) keeps what a spelling denotes, and the specification only
  looks at the listed paths.
-/
import Torf.Model.FileSizePath
import Torf.Lemmas.ReuseSearch
import Torf.Lemmas.FileSize
namespace Torf.FileSize
open Torf.Paths (PPath pathlibNorm normpath)
open Torf.Reuse (walk walk1 Walk Loc OsErr maxLinks resolve)

/-- walking `cs ++ rest`: one budget `k` (what is left after the links met in `cs`) serves every `rest` -/
theorem walk_append_all (fs : Reuse.FS) : ∀ (n : Nat) (st : List Nat) (cs : List String) (st' : List Nat),
    walk fs n st cs = .ok (.dir st') →
    ∃ k, k ≤ n ∧ ∀ rest, walk fs n st (cs ++ rest) = walk fs k st' rest := by
  intro n
  induction n with
  | zero =>
    intro st cs st' h
    unfold walk at h
    cases hw : walk1 fs st cs with
    | done l =>
      cases l with
      | dir s =>
        simp only [hw, Except.ok.injEq, Loc.dir.injEq] at h
        subst h
        refine ⟨0, Nat.le_refl _, fun rest => ?_⟩
        have ha := Reuse.walk1_append fs cs rest st
        simp only [hw, Walk.andThen] at ha
        unfold walk; rw [ha]
      | file i => simp [hw] at h
    | err e => simp [hw] at h
    | follow s t r => simp [hw] at h
  | succ m ih =>
    intro st cs st' h
    unfold walk at h
    cases hw : walk1 fs st cs with
    | done l =>
      cases l with
      | dir s =>
        simp only [hw, Except.ok.injEq, Loc.dir.injEq] at h
        subst h
        refine ⟨m + 1, Nat.le_refl _, fun rest => ?_⟩
        have ha := Reuse.walk1_append fs cs rest st
        simp only [hw, Walk.andThen] at ha
        conv => lhs; unfold walk
        conv => rhs; unfold walk
        rw [ha]
      | file i => simp [hw] at h
    | err e => simp [hw] at h
    | follow s t r =>
      simp only [hw] at h
      obtain ⟨k, hk, hkk⟩ := ih _ _ st' h
      refine ⟨k, by omega, fun rest => ?_⟩
      have ha := Reuse.walk1_append fs cs rest st
      simp only [hw, Walk.andThen] at ha
      conv => lhs; unfold walk
      simp only [ha]
      rw [← List.append_assoc]
      exact hkk rest

theorem walk_nil (fs : Reuse.FS) (k : Nat) (st : List Nat) : walk fs k st [] = .ok (.dir st) := by
  cases k <;> simp [walk, Reuse.walk1]

/-- more allowed links change nothing unless the limit was hit -/
theorem walk_succ (fs : Reuse.FS) : ∀ (n : Nat) (st : List Nat) (cs : List String),
    walk fs n st cs ≠ .error .loop → walk fs (n + 1) st cs = walk fs n st cs := by
  intro n
  induction n with
  | zero =>
    intro st cs h
    unfold walk at h
    conv => lhs; unfold walk
    conv => rhs; unfold walk
    cases hw : walk1 fs st cs with
    | done l => rfl
    | err e => rfl
    | follow s t r => simp [hw] at h
  | succ m ih =>
    intro st cs h
    conv => lhs; unfold walk
    conv => rhs; unfold walk
    unfold walk at h
    cases hw : walk1 fs st cs with
    | done l => rfl
    | err e => rfl
    | follow s t r =>
      simp only [hw] at h ⊢
      exact ih _ _ h

theorem walk_mono (fs : Reuse.FS) (n m : Nat) (st : List Nat) (cs : List String)
    (h : walk fs n st cs ≠ .error .loop) (hle : n ≤ m) : walk fs m st cs = walk fs n st cs := by
  induction m with
  | zero =>
    have : n = 0 := by omega
    subst this; rfl
  | succ m ih =>
    by_cases hn : n = m + 1
    · subst hn; rfl
    · have h1 := ih (by omega)
      rw [← h1]
      exact walk_succ fs m st cs (by rw [h1]; exact h)

/-- two budgets under which the walk does not hit the link limit give the same result -/
theorem walk_budget_irrelevant (fs : Reuse.FS) (k1 k2 : Nat) (st : List Nat) (cs : List String)
    (h1 : walk fs k1 st cs ≠ .error .loop) (h2 : walk fs k2 st cs ≠ .error .loop) :
    walk fs k1 st cs = walk fs k2 st cs := by
  rcases Nat.le_total k1 k2 with h | h
  · exact (walk_mono fs k1 k2 st cs h1 h).symm
  · exact walk_mono fs k2 k1 st cs h2 h

/-! ### dropping empty and `.` components keeps what a spelling denotes -/

/-- `cs'` is `cs` with some empty / `.` components left out -/
inductive Thin : List String → List String → Prop
  | nil : Thin [] []
  | keep (c : String) {cs cs' : List String} : Thin cs cs' → Thin (c :: cs) (c :: cs')
  | drop (c : String) {cs cs' : List String} (h : c = "" ∨ c = ".") : Thin cs cs' → Thin (c :: cs) cs'

theorem Thin.refl : ∀ cs, Thin cs cs
  | [] => .nil
  | c :: cs => .keep c (Thin.refl cs)

theorem Thin.append_left (pre : List String) {cs cs' : List String} (h : Thin cs cs') :
    Thin (pre ++ cs) (pre ++ cs') := by
  induction pre with
  | nil => exact h
  | cons c pre ih => exact .keep c ih

theorem Thin.append_right {cs cs' : List String} (h : Thin cs cs') (post : List String) :
    Thin (cs ++ post) (cs' ++ post) := by
  induction h with
  | nil => exact Thin.refl _
  | keep c _ ih => exact .keep c ih
  | drop c hc _ ih => exact .drop c hc ih

theorem Thin.nil_right {cs' : List String} (h : Thin [] cs') : cs' = [] := by
  cases h; rfl

theorem thin_filter (cs : List String) : Thin cs (cs.filter fun c => c != "" && c != ".") := by
  induction cs with
  | nil => exact .nil
  | cons c cs ih =>
    by_cases hc : (c != "" && c != ".") = true
    · simp only [List.filter_cons, hc, if_true]; exact .keep c ih
    · simp only [List.filter_cons, hc, Bool.false_eq_true, if_false]
      refine .drop c ?_ ih
      simp only [Bool.and_eq_true, bne_iff_ne, ne_eq, not_and, Decidable.not_not] at hc
      by_cases h0 : c = ""
      · exact Or.inl h0
      · exact Or.inr (hc h0)

/-- one stretch of a walk on the thinned components: the same end, or the same link with thinned rest -/
theorem walk1_thin (fs : Reuse.FS) {cs cs' : List String} (h : Thin cs cs') : ∀ st : List Nat,
    (∀ l, walk1 fs st cs = .done l → walk1 fs st cs' = .done l) ∧
    (∀ s t r, walk1 fs st cs = .follow s t r → ∃ r', Thin r r' ∧ walk1 fs st cs' = .follow s t r') := by
  induction h with
  | nil => intro st; exact ⟨fun l hl => hl, fun s t r hr => by simp [walk1] at hr⟩
  | @keep c cs cs' hth ih =>
    intro st
    simp only [walk1.eq_2]
    by_cases hc : (c == "") = true
    · simp only [hc, if_true]; exact ih st
    · simp only [hc, Bool.false_eq_true, if_false]
      cases hn : fs[Reuse.curIno st]? with
      | none => simp
      | some nd =>
        cases nd with
        | file _ _ _ => simp
        | link _ => simp
        | dir r x entries =>
          simp only
          by_cases hx : x = true
          · simp only [hx, Bool.not_true, Bool.false_eq_true, if_false]
            by_cases hd : (c == ".") = true
            · simp only [hd, if_true]; exact ih st
            · simp only [hd, Bool.false_eq_true, if_false]
              by_cases hdd : (c == "..") = true
              · simp only [hdd, if_true]; exact ih st.tail
              · simp only [hdd, Bool.false_eq_true, if_false]
                cases hl : entries.lookup c with
                | none => simp
                | some ino =>
                  simp only
                  cases hi : fs[ino]? with
                  | none => simp
                  | some nd2 =>
                    cases nd2 with
                    | dir _ _ _ => simp only; exact ih (ino :: st)
                    | link tg =>
                      simp only
                      refine ⟨by simp, ?_⟩
                      intro s t r hr
                      simp only [Walk.follow.injEq] at hr
                      obtain ⟨h1, h2, h3⟩ := hr
                      subst h1 h2 h3
                      exact ⟨cs', hth, rfl⟩
                    | file _ _ _ =>
                      simp only
                      cases cs with
                      | nil =>
                        have := Thin.nil_right hth
                        subst this
                        simp
                      | cons _ _ => simp
          · simp [hx]
  | @drop c cs cs' hc hth ih =>
    intro st
    simp only [walk1.eq_2]
    rcases hc with hc | hc
    · subst hc; simp only [beq_self_eq_true, if_true]; exact ih st
    · subst hc
      have : ("." == "") = false := by decide
      simp only [this, Bool.false_eq_true, if_false]
      cases hn : fs[Reuse.curIno st]? with
      | none => simp
      | some nd =>
        cases nd with
        | file _ _ _ => simp
        | link _ => simp
        | dir r x entries =>
          simp only
          by_cases hx : x = true
          · simp only [hx, Bool.not_true, Bool.false_eq_true, if_false, beq_self_eq_true, if_true]
            exact ih st
          · simp [hx]

/-- a spelling that resolves still resolves, to the same place, without its empty and `.` components -/
theorem walk_thin (fs : Reuse.FS) : ∀ (n : Nat) (st : List Nat) (cs cs' : List String) (l : Loc),
    Thin cs cs' → walk fs n st cs = .ok l → walk fs n st cs' = .ok l := by
  intro n
  induction n with
  | zero =>
    intro st cs cs' l hth h
    obtain ⟨hA, hB⟩ := walk1_thin fs hth st
    unfold walk at h ⊢
    cases hw : walk1 fs st cs with
    | done l' =>
      simp only [hw, Except.ok.injEq] at h
      subst h
      rw [hA l' hw]
    | err e => simp [hw] at h
    | follow s t r => simp [hw] at h
  | succ m ih =>
    intro st cs cs' l hth h
    obtain ⟨hA, hB⟩ := walk1_thin fs hth st
    unfold walk at h ⊢
    cases hw : walk1 fs st cs with
    | done l' =>
      simp only [hw, Except.ok.injEq] at h
      subst h
      rw [hA l' hw]
    | err e => simp [hw] at h
    | follow s t r =>
      simp only [hw] at h
      obtain ⟨r', hr', hw'⟩ := hB s t r hw
      simp only [hw']
      exact ih _ _ _ l (Thin.append_left _ hr') h

/-! ### the specification only looks at the listed paths -/

theorem errOf_congr (fs fs' : FS) (f : Listed) (h : fs f.path = fs' f.path) : errOf fs f = errOf fs' f := by
  unfold errOf; rw [h]

theorem firstErr_congr (fs fs' : FS) (l : List Listed) (h : ∀ f ∈ l, fs f.path = fs' f.path) :
    firstErr fs l = firstErr fs' l := by
  induction l with
  | nil => rfl
  | cons f rest ih =>
    unfold firstErr
    rw [errOf_congr fs fs' f (h f (List.mem_cons_self ..)),
      ih (fun g hg => h g (List.mem_cons_of_mem _ hg))]

theorem fullCallsFrom_congr (fs fs' : FS) (total : Nat) (l : List Listed) (i : Nat)
    (h : ∀ f ∈ l, fs f.path = fs' f.path) :
    fullCallsFrom fs total i l = fullCallsFrom fs' total i l := by
  induction l generalizing i with
  | nil => rfl
  | cons f rest ih =>
    unfold fullCallsFrom
    rw [errOf_congr fs fs' f (h f (List.mem_cons_self ..)),
      ih (i + 1) (fun g hg => h g (List.mem_cons_of_mem _ hg))]

theorem all_good_congr (fs fs' : FS) (l : List Listed) (h : ∀ f ∈ l, fs f.path = fs' f.path) :
    l.all (good fs) = l.all (good fs') := by
  induction l with
  | nil => rfl
  | cons f rest ih =>
    simp only [List.all_cons, good]
    rw [errOf_congr fs fs' f (h f (List.mem_cons_self ..)),
      ih (fun g hg => h g (List.mem_cons_of_mem _ hg))]

/-- the code on a spelled path is the specification on any tree `T` that shows, at the listed
    paths, what the OS finds there through the spelling -/
theorem verifyFilesizeAt_eq_spec (w : Reuse.World) (dt : Nat → Nat) (t : Torrent) (hwf : WF t)
    (p : PPath) (cb : Callback) (T : FS)
    (hdir : t.isSingle = true → Reuse.isdir w p = isDirEntry (T []))
    (hview : ∀ f ∈ t.listed, viewOf w dt p f.path = T f.path) :
    verifyFilesizeAt false w dt t p cb = spec t T cb := by
  unfold verifyFilesizeAt spec
  simp only [Bool.false_eq_true, if_false]
  by_cases hv : validateCore t = true
  · simp only [hv, Bool.not_true, Bool.false_eq_true, if_false]
    have hps := partialSize_listed t hwf
    have hcond : (t.isSingle && Reuse.isdir w p) = singleAtDir t T := by
      unfold singleAtDir
      cases hs : t.isSingle with
      | false => rfl
      | true => simp [hdir hs]
    rw [hcond]
    cases cb with
    | none =>
      by_cases hd : singleAtDir t T = true
      · simp [hd, cancel]
      · simp only [hd, if_false, Bool.false_eq_true]
        rw [loop_none t _ _ _ hps, firstErr_congr _ T _ hview]
        cases firstErr T t.listed <;> simp
    | some g =>
      by_cases hd : singleAtDir t T = true
      · have hd' := hd
        unfold singleAtDir at hd'
        have hlen : t.listed.length = 1 := by
          have h1 : t.isSingle = true := by
            simp only [Bool.and_eq_true] at hd'
            exact hd'.1
          unfold Torrent.isSingle at h1
          unfold Torrent.listed
          cases hm : t.mode <;> simp [hm] at h1 ⊢
        simp [cancel, fullCalls, hd, takeThrough, allGood, hlen]
      · simp only [hd, if_false, Bool.false_eq_true]
        rw [loop_some t _ g _ _ hps, fullCallsFrom_congr _ T _ _ _ hview, all_good_congr _ T _ hview]
        simp [fullCalls, hd, allGood]
  · simp [hv]

/-! ### from the spelling as given to the paths the code hands to the OS -/

theorem filter_head_ne (cs : List String) (h : (cs.filter fun c => c != "" && c != ".") ≠ []) :
    ((cs.filter fun c => c != "" && c != ".").headD "" == "") = false := by
  cases hf : cs.filter (fun c => c != "" && c != ".") with
  | nil => exact absurd hf h
  | cons a rest =>
    have ha : a ∈ cs.filter (fun c => c != "" && c != ".") := by rw [hf]; exact List.mem_cons_self ..
    have := (List.mem_filter.mp ha).2
    simp only [Bool.and_eq_true, bne_iff_ne, ne_eq] at this
    simp [this.1]

/-- what `resolve` does once the spelling is known not to be the empty string -/
theorem resolve_eq_walk (w : Reuse.World) (p : PPath) (h : (!p.abs && p.comps.headD "" == "") = false) :
    resolve w p = walk w.fs maxLinks (if p.abs then [] else w.cwd) p.comps := by
  unfold resolve; simp only [h, Bool.false_eq_true, if_false]

theorem resolve_ok_guard (w : Reuse.World) (p : PPath) (l : Loc) (h : resolve w p = .ok l) :
    (!p.abs && p.comps.headD "" == "") = false := by
  cases hg : (!p.abs && p.comps.headD "" == "") with
  | false => rfl
  | true =>
    unfold resolve at h
    simp only [hg, if_true] at h
    cases h

/-- **pathlib's tidying keeps what the spelling denotes**: if the OS resolves `path`, it resolves
    `str(pathlib.Path(path))` to the same place -/
theorem resolve_fsPath_nil (w : Reuse.World) (p : PPath) (l : Loc) (h : resolve w p = .ok l) :
    resolve w (fsPath p []) = .ok l := by
  have hg := resolve_ok_guard w p l h
  rw [resolve_eq_walk w p hg] at h
  have hth := thin_filter p.comps
  unfold fsPath pathlibNorm
  simp only [List.append_nil]
  by_cases hempty : (!p.abs && (p.comps.filter fun c => c != "" && c != ".").isEmpty) = true
  · -- a relative spelling made of `.` and empty components only: `Path(...)` is `.`
    simp only [hempty, if_true]
    simp only [Bool.and_eq_true, Bool.not_eq_true', List.isEmpty_iff] at hempty
    obtain ⟨habs, hnil⟩ := hempty
    rw [resolve_eq_walk w _ (by simp)]
    simp only [habs, Bool.false_eq_true, if_false] at h ⊢
    simp only [habs, Bool.not_false, Bool.true_and] at hg
    -- the first component is `.` (it is not empty, and the filter dropped it)
    cases hc : p.comps with
    | nil => simp [hc] at hg
    | cons c rest =>
      rw [hc] at hg hnil hth h
      simp only [List.headD_cons] at hg
      have hc1 : c = "." := by
        have : c ∉ List.filter (fun c => c != "" && c != ".") (c :: rest) := by rw [hnil]; simp
        simp only [List.mem_filter, List.mem_cons, true_or, true_and, Bool.and_eq_true, bne_iff_ne,
          ne_eq, not_and, Decidable.not_not] at this
        exact this (by simpa using hg)
      subst hc1
      have hrest : Thin rest [] := by
        have h2 := thin_filter rest
        have : List.filter (fun c => c != "" && c != ".") rest = [] := by
          simpa [List.filter_cons] using hnil
        rw [this] at h2; exact h2
      exact walk_thin w.fs _ _ _ _ l (.keep "." hrest) h
  · simp only [hempty, Bool.false_eq_true, if_false]
    have hne : p.abs = true ∨ (p.comps.filter fun c => c != "" && c != ".") ≠ [] := by
      simp only [Bool.and_eq_true, Bool.not_eq_true', List.isEmpty_iff, not_and] at hempty
      cases hab : p.abs with
      | true => exact Or.inl rfl
      | false => exact Or.inr (hempty hab)
    have hg' : (!p.abs && (p.comps.filter fun c => c != "" && c != ".").headD "" == "") = false := by
      rcases hne with ha | hn
      · simp [ha]
      · rw [filter_head_ne p.comps hn]; simp
    rw [resolve_eq_walk w ⟨p.abs, _⟩ hg']
    exact walk_thin w.fs _ _ _ _ l hth h

/-- … and below a directory: one remaining link budget `k` serves every listed path -/
theorem resolve_fsPath_names (w : Reuse.World) (p : PPath) (st : List Nat)
    (h : resolve w p = .ok (.dir st)) :
    ∃ k, k ≤ maxLinks ∧ ∀ names : List String, "" ∉ names →
      resolve w (fsPath p names) = walk w.fs k st names := by
  have hg := resolve_ok_guard w p _ h
  have h0 := h
  rw [resolve_eq_walk w p hg] at h
  have hth := thin_filter p.comps
  have hq := walk_thin w.fs _ _ _ _ _ hth h
  obtain ⟨k, hk, hkk⟩ := walk_append_all w.fs _ _ _ _ hq
  refine ⟨k, hk, fun names hnames => ?_⟩
  cases hn : names with
  | nil =>
    rw [resolve_fsPath_nil w p _ h0]
    have := hkk []
    simp only [List.append_nil] at this
    rw [← this, hq]
  | cons n rest =>
    have hn0 : n ≠ "" := by
      intro h0'; apply hnames; rw [hn, h0']; exact List.mem_cons_self ..
    unfold fsPath pathlibNorm
    have hne : ((p.comps.filter fun c => c != "" && c != ".") ++ n :: rest).isEmpty = false := by
      cases p.comps.filter (fun c => c != "" && c != ".") <;> rfl
    simp only [hne, Bool.and_false, Bool.false_eq_true, if_false]
    have hg' : (!p.abs && ((p.comps.filter fun c => c != "" && c != ".") ++ n :: rest).headD "" == "") = false := by
      cases hab : p.abs with
      | true => simp
      | false =>
        cases hf : p.comps.filter (fun c => c != "" && c != ".") with
        | nil => simp [hn0]
        | cons a as =>
          have := filter_head_ne p.comps (by rw [hf]; simp)
          rw [hf] at this
          simpa using this
    rw [resolve_eq_walk w ⟨p.abs, _⟩ hg']
    exact hkk (n :: rest)

end Torf.FileSize
