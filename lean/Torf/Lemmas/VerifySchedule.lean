/-
  Lemmas for `C02_any_schedule`: the invariant of the sequential fold of `Verify.verifySeq`
  (`SeqInv`) and what the item kinds of a verification run mean for `badItems` / `hashedItems`.
-/
import Torf.Spec.VerifySchedule
import Torf.Spec.Pipeline
namespace Torf.C02
open Torf Torf.Missing Torf.Verify Torf.Pipeline

variable {α δ : Type} [DecidableEq δ]

/-- state of the sequential fold after the items `pre` -/
structure SeqInv (H : List α → δ) (L : Nat) (sizes : List Nat) (stored : List δ) (hasCb : Bool)
    (pre : List (Item α)) (acc : Acc δ) : Prop where
  raised_none : acc.raised = none ↔ (hasCb = true ∨ ∀ k, k < pre.length → isBad H stored pre k = false)
  collected : acc.raised = none →
    acc.collected = (List.range pre.length).filterMap (digestAt H pre)
  raised_some : ∀ e, acc.raised = some e → ∃ k, k < pre.length ∧ isBad H stored pre k = true ∧
    (∀ j, j < k → isBad H stored pre j = false) ∧ itemErr L sizes pre k = some e

theorem digestAt_append_left (H : List α → δ) (pre : List (Item α)) (x : Item α) {k : Nat}
    (hk : k < pre.length) : digestAt H (pre ++ [x]) k = digestAt H pre k := by
  unfold digestAt
  rw [List.getElem?_append_left hk]

theorem isBad_append_left (H : List α → δ) (stored : List δ) (pre : List (Item α)) (x : Item α)
    {k : Nat} (hk : k < pre.length) : isBad H stored (pre ++ [x]) k = isBad H stored pre k := by
  unfold isBad
  rw [List.getElem?_append_left hk]

theorem itemErr_append_left (L : Nat) (sizes : List Nat) (pre : List (Item α)) (x : Item α)
    {k : Nat} (hk : k < pre.length) : itemErr L sizes (pre ++ [x]) k = itemErr L sizes pre k := by
  unfold itemErr
  rw [List.getElem?_append_left hk]

theorem getElem?_last (pre : List (Item α)) (x : Item α) : (pre ++ [x])[pre.length]? = some x := by
  simp

theorem filterMap_congr' {β γ : Type} {f g : β → Option γ} :
    ∀ (l : List β), (∀ k ∈ l, f k = g k) → l.filterMap f = l.filterMap g
  | [], _ => rfl
  | a :: t, h => by
    have ha := h a (List.mem_cons_self ..)
    have ht := filterMap_congr' t (fun k hk => h k (List.mem_cons_of_mem _ hk))
    simp only [List.filterMap_cons, ha, ht]

theorem filterMap_range_succ (H : List α → δ) (pre : List (Item α)) (x : Item α) :
    (List.range (pre ++ [x]).length).filterMap (digestAt H (pre ++ [x])) =
      (List.range pre.length).filterMap (digestAt H pre) ++
        (if x.excs.isEmpty then x.data.map H else none).toList := by
  rw [List.length_append, List.length_singleton, List.range_succ, List.filterMap_append]
  congr 1
  · exact filterMap_congr' _ fun k hk => digestAt_append_left H pre x (List.mem_range.mp hk)
  · simp only [List.filterMap_cons, List.filterMap_nil, digestAt, getElem?_last]
    cases h : (if x.excs.isEmpty then x.data.map H else none) <;> simp [h]

/-- one step of the sequential fold keeps the invariant -/
theorem SeqInv.step {H : List α → δ} {L : Nat} {sizes : List Nat} {stored : List δ} {hasCb : Bool}
    {pre : List (Item α)} {acc : Acc δ} (hinv : SeqInv H L sizes stored hasCb pre acc) (x : Item α)
    (hlen : pre.length < stored.length) :
    SeqInv H L sizes stored hasCb (pre ++ [x])
      (collectItem H L sizes stored hasCb acc (x, pre.length)) := by
  obtain ⟨s0, hs0⟩ : ∃ s0, stored[pre.length]? = some s0 := ⟨stored[pre.length], List.getElem?_eq_getElem hlen⟩
  have hlast : ∀ k, k < (pre ++ [x]).length → k < pre.length ∨ k = pre.length := by
    intro k hk; simp only [List.length_append, List.length_singleton] at hk; omega
  -- the verdict on the new item
  have hbadLast : isBad H stored (pre ++ [x]) pre.length =
      (!x.excs.isEmpty || (match x.data with | none => false | some d => !decide (s0 = H d))) := by
    simp only [isBad, getElem?_last, kindOf]
    by_cases he : x.excs.isEmpty
    · cases hd : x.data with
      | none => simp [he]
      | some d =>
        by_cases heq : s0 = H d
        · simp [he, hs0, heq]
        · have : ¬ (stored[pre.length]? = some (H d)) := by rw [hs0]; simpa using heq
          simp [he, this, heq]
    · simp [he]
  by_cases hr : acc.raised = none
  · -- nothing raised so far
    have hcol := hinv.collected hr
    have hnb := hinv.raised_none.mp hr
    by_cases he : x.excs.isEmpty
    · cases hd : x.data with
      | none =>
        -- a blank middle piece: no digest, never bad
        have hacc : collectItem H L sizes stored hasCb acc (x, pre.length) =
            { acc with calls := if hasCb then acc.calls ++ [⟨pre.length + 1, pre.length, none, none⟩] else acc.calls } := by
          simp [Verify.collectItem, hr, he, hd]
        rw [hacc]
        refine ⟨?_, ?_, ?_⟩
        · simp only [hr, true_iff]
          rcases hnb with h | h
          · exact Or.inl h
          · right; intro k hk
            rcases hlast k hk with hk' | hk'
            · rw [isBad_append_left H stored pre x hk']; exact h k hk'
            · subst hk'; rw [hbadLast]; simp [he, hd]
        · intro _
          rw [filterMap_range_succ, hcol]
          simp [he, hd]
        · intro e h; simp [hr] at h
      | some d =>
        by_cases heq : H d = s0
        · have hacc : collectItem H L sizes stored hasCb acc (x, pre.length) =
              { acc with collected := acc.collected ++ [H d],
                         calls := if hasCb then acc.calls ++ [⟨pre.length + 1, pre.length, some (H d), none⟩] else acc.calls } := by
            simp [Verify.collectItem, hr, he, hd, hs0, heq]
          rw [hacc]
          refine ⟨?_, ?_, ?_⟩
          · simp only [hr, true_iff]
            rcases hnb with h | h
            · exact Or.inl h
            · right; intro k hk
              rcases hlast k hk with hk' | hk'
              · rw [isBad_append_left H stored pre x hk']; exact h k hk'
              · subst hk'; rw [hbadLast]; simp [he, hd, heq]
          · intro _
            rw [filterMap_range_succ, hcol]
            simp [he, hd]
          · intro e h; simp [hr] at h
        · -- corrupt piece
          cases hcb : hasCb with
          | true =>
            have hacc : collectItem H L sizes stored true acc (x, pre.length) =
                { acc with collected := acc.collected ++ [H d],
                           calls := acc.calls ++ [⟨pre.length + 1, pre.length, some (H d),
                             some (.content pre.length (corruptFiles L sizes pre.length))⟩] } := by
              simp [Verify.collectItem, hr, he, hd, hs0, heq]
            rw [hacc]
            refine ⟨?_, ?_, ?_⟩
            · simp [hr]
            · intro _
              rw [filterMap_range_succ, hcol]
              simp [he, hd]
            · intro e h; simp [hr] at h
          | false =>
            have hacc : collectItem H L sizes stored false acc (x, pre.length) =
                { acc with collected := acc.collected ++ [H d],
                           raised := some (.content pre.length (corruptFiles L sizes pre.length)) } := by
              simp [Verify.collectItem, hr, he, hd, hs0, heq]
            rw [hacc]
            have hnb' : ∀ k, k < pre.length → isBad H stored pre k = false := by
              rcases hnb with h | h
              · rw [hcb] at h; exact absurd h (by simp)
              · exact h
            refine ⟨?_, ?_, ?_⟩
            · simp only [reduceCtorEq, false_iff, Bool.false_eq_true, false_or]
              intro h
              have := h pre.length (by simp)
              rw [hbadLast] at this
              have hne : ¬ (s0 = H d) := fun h' => heq h'.symm
              simp [he, hd, hne] at this
            · intro h; simp at h
            · intro e h
              simp only [Option.some.injEq] at h
              refine ⟨pre.length, by simp, ?_, ?_, ?_⟩
              · rw [hbadLast]
                have hne : ¬ (s0 = H d) := fun h' => heq h'.symm
                simp [he, hd, hne]
              · intro j hj; rw [isBad_append_left H stored pre x hj]; exact hnb' j hj
              · simp [itemErr, getElem?_last, he, h]
    · -- the item carries exceptions
      cases hcb : hasCb with
      | true =>
        have hacc : collectItem H L sizes stored true acc (x, pre.length) =
            { acc with calls := acc.calls ++ x.excs.map fun e => ⟨pre.length + 1, pre.length, none, some (excOf e)⟩ } := by
          simp [Verify.collectItem, hr, he]
        rw [hacc]
        refine ⟨?_, ?_, ?_⟩
        · simp [hr]
        · intro _
          rw [filterMap_range_succ, hcol]
          simp [he]
        · intro e h; simp [hr] at h
      | false =>
        have hacc : collectItem H L sizes stored false acc (x, pre.length) =
            { acc with raised := x.excs.head?.map excOf } := by
          simp [Verify.collectItem, hr, he]
        rw [hacc]
        have hnb' : ∀ k, k < pre.length → isBad H stored pre k = false := by
          rcases hnb with h | h
          · rw [hcb] at h; exact absurd h (by simp)
          · exact h
        obtain ⟨e0, rest, hex⟩ : ∃ e0 rest, x.excs = e0 :: rest := by
          cases hx : x.excs with
          | nil => simp [hx] at he
          | cons a t => exact ⟨a, t, rfl⟩
        refine ⟨?_, ?_, ?_⟩
        · simp only [hex, List.head?_cons, Option.map_some, reduceCtorEq, false_iff,
            Bool.false_eq_true, false_or]
          intro h
          have := h pre.length (by simp)
          rw [hbadLast] at this
          simp [hex] at this
        · intro h; simp [hex] at h
        · intro e h
          refine ⟨pre.length, by simp, ?_, ?_, ?_⟩
          · rw [hbadLast]; simp [he]
          · intro j hj; rw [isBad_append_left H stored pre x hj]; exact hnb' j hj
          · simp only [itemErr, getElem?_last, he, Bool.not_false, if_true]; exact h
  · -- an exception was raised before: the fold does nothing any more
    obtain ⟨e, he⟩ := Option.ne_none_iff_exists'.mp hr
    have hacc : collectItem H L sizes stored hasCb acc (x, pre.length) = acc := by
      simp [Verify.collectItem, he]
    rw [hacc]
    obtain ⟨k, hk, hbk, hmin, herr⟩ := hinv.raised_some e he
    have hcbf : hasCb = false := by
      cases hcb : hasCb with
      | false => rfl
      | true => exact absurd (hinv.raised_none.mpr (Or.inl hcb)) hr
    refine ⟨?_, ?_, ?_⟩
    · simp only [hr, false_iff, hcbf, Bool.false_eq_true, false_or]
      intro h
      have := h k (by simp only [List.length_append, List.length_singleton]; omega)
      rw [isBad_append_left H stored pre x hk, hbk] at this
      exact absurd this (by simp)
    · intro h; exact absurd h hr
    · intro e' he'
      rw [he] at he'
      simp only [Option.some.injEq] at he'
      subst he'
      exact ⟨k, by simp only [List.length_append, List.length_singleton]; omega,
        by rw [isBad_append_left H stored pre x hk]; exact hbk,
        fun j hj => by rw [isBad_append_left H stored pre x (by omega)]; exact hmin j hj,
        by rw [itemErr_append_left L sizes pre x hk]; exact herr⟩

theorem SeqInv.nil (H : List α → δ) (L : Nat) (sizes : List Nat) (stored : List δ) (hasCb : Bool) :
    SeqInv H L sizes stored hasCb [] {} :=
  ⟨by simp, by intro _; rfl, by intro e h; simp at h⟩

theorem SeqInv.fold {H : List α → δ} {L : Nat} {sizes : List Nat} {stored : List δ} {hasCb : Bool} :
    ∀ (rest pre : List (Item α)) (acc : Acc δ), SeqInv H L sizes stored hasCb pre acc →
      pre.length + rest.length ≤ stored.length →
      SeqInv H L sizes stored hasCb (pre ++ rest)
        ((rest.zipIdx pre.length).foldl (Verify.collectItem H L sizes stored hasCb) acc)
  | [], pre, acc, h, _ => by simpa using h
  | x :: t, pre, acc, h, hlen => by
    simp only [List.length_cons] at hlen
    have h1 := h.step x (by omega)
    have h2 := SeqInv.fold t (pre ++ [x]) _ h1
      (by simp only [List.length_append, List.length_singleton]; omega)
    simp only [List.zipIdx_cons, List.foldl_cons]
    simpa [List.append_assoc] using h2

/-- the whole sequential fold of `verifySeq` -/
theorem seqInv_items (H : List α → δ) (L : Nat) (sizes : List Nat) (stored : List δ) (hasCb : Bool)
    (items : List (Item α)) (hlen : items.length ≤ stored.length) :
    SeqInv H L sizes stored hasCb items
      (items.zipIdx.foldl (Verify.collectItem H L sizes stored hasCb) {}) := by
  have := SeqInv.fold items [] {} (SeqInv.nil H L sizes stored hasCb) (by simpa using hlen)
  simpa using this

/-! ### the pipeline configuration of a verification run -/

theorem kind_at (H : List α → δ) (stored : List δ) (items : List (Item α)) (cfg : Cfg)
    (hcfg : cfg.items = items.zipIdx.map (kindOf H stored)) (k : Nat) (it : Item α)
    (hk : items[k]? = some it) : cfg.items.getD k .nodata = kindOf H stored (it, k) := by
  rw [hcfg, List.getD_eq_getElem?_getD, List.getElem?_map, List.getElem?_zipIdx, hk]
  simp

theorem length_items (H : List α → δ) (stored : List δ) (items : List (Item α)) (cfg : Cfg)
    (hcfg : cfg.items = items.zipIdx.map (kindOf H stored)) : cfg.items.length = items.length := by
  rw [hcfg]; simp

/-- the pieces that make a run without callback raise are the bad ones -/
theorem mem_badItems (H : List α → δ) (stored : List δ) (items : List (Item α)) (cfg : Cfg)
    (hcfg : cfg.items = items.zipIdx.map (kindOf H stored)) (k : Nat) :
    k ∈ badItems cfg ↔ (cfg.raiseOnBad = true ∧ isBad H stored items k = true) := by
  unfold badItems
  rw [List.mem_filter, List.mem_range, length_items H stored items cfg hcfg]
  constructor
  · rintro ⟨hk, hr⟩
    obtain ⟨it, hit⟩ : ∃ it, items[k]? = some it := ⟨items[k], List.getElem?_eq_getElem hk⟩
    rw [kind_at H stored items cfg hcfg k it hit] at hr
    simp only [isRaising, Bool.and_eq_true] at hr
    exact ⟨hr.1, by simp only [isBad, hit]; exact hr.2⟩
  · rintro ⟨hr, hb⟩
    unfold isBad at hb
    cases hit : items[k]? with
    | none => rw [hit] at hb; exact absurd hb (by simp)
    | some it =>
      rw [hit] at hb
      have hk : k < items.length := by
        rcases Nat.lt_or_ge k items.length with h | h
        · exact h
        · rw [List.getElem?_eq_none h] at hit; exact absurd hit (by simp)
      refine ⟨hk, ?_⟩
      rw [kind_at H stored items cfg hcfg k it hit]
      simp only [isRaising, hr, Bool.true_and]
      exact hb

theorem filterMap_filter' {β γ : Type} {p : β → Bool} {f : β → Option γ} :
    ∀ (l : List β), (∀ k ∈ l, p k = false → f k = none) → (l.filter p).filterMap f = l.filterMap f
  | [], _ => rfl
  | a :: t, h => by
    have ht := filterMap_filter' t (fun k hk => h k (List.mem_cons_of_mem _ hk))
    by_cases hp : p a = true
    · simp only [List.filter_cons, hp, if_true, List.filterMap_cons, ht]
    · have hp' : p a = false := by simpa using hp
      have := h a (List.mem_cons_self ..) hp'
      simp only [List.filter_cons, hp', Bool.false_eq_true, if_false, List.filterMap_cons, this, ht]

/-- the digests of the pieces whose hash the collector stores are all the digests -/
theorem digests_of_hashed (H : List α → δ) (stored : List δ) (items : List (Item α)) (cfg : Cfg)
    (hcfg : cfg.items = items.zipIdx.map (kindOf H stored)) :
    (hashedItems cfg).filterMap (digestAt H items) =
      (List.range items.length).filterMap (digestAt H items) := by
  unfold hashedItems
  rw [length_items H stored items cfg hcfg]
  apply filterMap_filter'
  intro k hk hp
  have hk' := List.mem_range.mp hk
  obtain ⟨it, hit⟩ : ∃ it, items[k]? = some it := ⟨items[k], List.getElem?_eq_getElem hk'⟩
  rw [kind_at H stored items cfg hcfg k it hit] at hp
  simp only [digestAt, hit]
  unfold kindOf at hp
  by_cases he : it.excs.isEmpty
  · cases hd : it.data with
    | none => simp
    | some d =>
      simp only [he, Bool.not_true, Bool.false_eq_true, if_false, hd] at hp
      split at hp <;> simp at hp
  · simp [he]

end Torf.C02
