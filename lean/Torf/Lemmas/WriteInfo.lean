/-
  What `Torrent.write()` leaves behind, for every answer of the operating system (C06's use of
  C17's effect model): a normal return means the file holds exactly the dumped bytes; every other
  outcome is WriteError, or dump's MetainfoError with the target untouched.  Owned by C06.
-/
import Torf.Lemmas.Write
import Torf.Model.WriteInfo
namespace Torf.WriteInfo
open Torf Torf.ReadStream Torf.Write Torf.Export

theorem producer_ok {env : ReadStream.Env} {md : List (PyVal × PyVal)} {validate : Bool} {c : Export.Bytes}
    (h : producer env md validate = .ok c) : dump env md validate = .ok c := by
  unfold producer at h
  split at h
  · rename_i bs hbs; rw [hbs]; exact congrArg _ (Except.ok.inj h)
  · exact absurd h (by simp)

/-- every error of `dump` is a MetainfoError -/
theorem dump_err {env : ReadStream.Env} {md : List (PyVal × PyVal)} {validate : Bool} {e : Codec.Err}
    (h : dump env md validate = .error e) : e = .metainfo := by
  unfold dump at h
  split at h
  · exact (Except.error.inj h).symm
  · split at h
    · rename_i e' he'
      unfold convert at he'
      split at he'
      · exact absurd he' (by simp)
      · have h1 := Except.error.inj he'
        have h2 := Except.error.inj h
        rw [← h2, ← h1]
    · split at h
      · exact absurd h (by simp)
      · exact (Except.error.inj h).symm

theorem producer_err {env : ReadStream.Env} {md : List (PyVal × PyVal)} {validate : Bool} {e : ErrKind}
    (h : producer env md validate = .error e) :
    e = .metainfo ∧ dump env md validate = .error .metainfo := by
  unfold producer at h
  split at h
  · exact absurd h (by simp)
  · rename_i e' he'
    have := dump_err he'
    subst this
    exact ⟨(Except.error.inj h).symm, he'⟩

/-- the outcomes of `write`, flat -/
theorem writeFile_cases (env : ReadStream.Env) (md : List (PyVal × PyVal)) (validate ov : Bool) (t t' : Target)
    (r : Except ErrKind Unit) (log : List Eff) (h : writeFile env md validate ov t = (r, t', log)) :
    (r = .error .write) ∨
    (r = .error .metainfo ∧ t' = t ∧ dump env md validate = .error .metainfo) ∨
    (r = .ok () ∧ ∃ c, dump env md validate = .ok c ∧ t'.node = t.node.store c ∧
      t.env.accepts c.length = c.length ∧ t.env.closeErr = false ∧ t.openFails = false) := by
  unfold writeFile at h
  rw [write_eq] at h
  split at h
  · left; exact (Prod.mk.inj h).1.symm
  · cases hp : producer env md validate with
    | error e =>
      obtain ⟨rfl, hd⟩ := producer_err hp
      simp only [hp] at h
      obtain ⟨h1, h2⟩ := Prod.mk.inj h
      right; left
      exact ⟨h1.symm, (Prod.mk.inj h2).1.symm, hd⟩
    | ok c =>
      have hd := producer_ok hp
      simp only [hp] at h
      split at h
      · left; exact (Prod.mk.inj h).1.symm
      · rename_i hop
        split at h
        · left; exact (Prod.mk.inj h).1.symm
        · rename_i hacc
          split at h
          · left; exact (Prod.mk.inj h).1.symm
          · rename_i hcl
            right; right
            have hle : t.env.accepts c.length ≤ c.length := by
              unfold Env.accepts; split <;> omega
            have heq : t.env.accepts c.length = c.length := by omega
            obtain ⟨h1, h2⟩ := Prod.mk.inj h
            obtain ⟨h2, _⟩ := Prod.mk.inj h2
            refine ⟨h1.symm, c, hd, ?_, heq, by simpa using hcl, by simpa using hop⟩
            rw [← h2, heq, List.take_length]

end Torf.WriteInfo
