/-
  Lemmas about the metainfo converters: UTF-8 is injective; `encode_dict` yields values whose
  keys are pairwise distinct (so `ser` of them is canonical).
-/
import Torf.Model.Codec
import Torf.Lemmas.BencodeNorm
namespace Torf.Codec
open Torf Torf.Bencode

theorem utf8Enc_inj {s t : String} (h : utf8Enc s = utf8Enc t) : s = t := by
  unfold utf8Enc at h
  apply String.toByteArray_inj.mp
  have h2 : s.toUTF8.data = t.toUTF8.data := Array.toList_inj.mp h
  simp only [String.toUTF8_eq_toByteArray] at h2
  cases hs : s.toByteArray; cases ht : t.toByteArray
  simp only [hs, ht] at h2; simp [h2]

theorem nodup_map_of_inj {f : α → β} (hf : ∀ a b, f a = f b → a = b) (l : List α) (h : l.Nodup) :
    (l.map f).Nodup := by
  induction l with
  | nil => simp
  | cons a t ih =>
    rw [List.nodup_cons] at h
    rw [List.map_cons, List.nodup_cons]
    refine ⟨fun hm => ?_, ih h.2⟩
    obtain ⟨b, hb, hfb⟩ := List.mem_map.mp hm
    exact h.1 (hf _ _ hfb ▸ hb)

theorem uniqKvs_iff (l : List (Bytes × BVal)) :
    uniqKvs l = true ↔ ∀ p ∈ l, uniqKeys p.2 = true := by
  induction l with
  | nil => simp [uniqKvs]
  | cons p t ih => obtain ⟨k, v⟩ := p; simp [uniqKvs, ih]

mutual
theorem uniq_encodeValue : ∀ (m : PyVal) (u : BVal), encodeValue m = .ok u → wf m = true →
    uniqKeys u = true
  | .bytes _, u, h, _ => by simp only [encodeValue, Except.ok.injEq] at h; subst h; rfl
  | .int _, u, h, _ => by simp only [encodeValue, Except.ok.injEq] at h; subst h; rfl
  | .str _, u, h, _ => by simp only [encodeValue, Except.ok.injEq] at h; subst h; rfl
  | .float (.fin _ _ _), u, h, _ => by simp only [encodeValue, Except.ok.injEq] at h; subst h; rfl
  | .float .nan, u, h, _ => by simp [encodeValue] at h
  | .float .pinf, u, h, _ => by simp [encodeValue] at h
  | .float .ninf, u, h, _ => by simp [encodeValue] at h
  | .bool _, u, h, _ => by simp only [encodeValue, Except.ok.injEq] at h; subst h; rfl
  | .datetime (some _), u, h, _ => by simp only [encodeValue, Except.ok.injEq] at h; subst h; rfl
  | .datetime none, u, h, _ => by simp [encodeValue] at h
  | .none, u, h, _ => by simp [encodeValue] at h
  | .other _, u, h, _ => by simp [encodeValue] at h
  | .list l, u, h, hw => by
    simp only [encodeValue] at h
    split at h
    · rename_i l' hl
      simp only [Except.ok.injEq] at h; subst h
      simp only [uniqKeys]; exact uniq_encodeList l l' hl (by simpa [wf] using hw)
    · exact absurd h (by simp)
  | .tuple l, u, h, hw => by
    simp only [encodeValue] at h
    split at h
    · rename_i l' hl
      simp only [Except.ok.injEq] at h; subst h
      simp only [uniqKeys]; exact uniq_encodeList l l' hl (by simpa [wf] using hw)
    · exact absurd h (by simp)
  | .dict kvs, u, h, hw => by
    simp only [encodeValue] at h
    split at h
    · rename_i es hes
      simp only [Except.ok.injEq] at h; subst h
      simp only [wf, Bool.and_eq_true, decide_eq_true_eq] at hw
      obtain ⟨hv, hk⟩ := uniq_encodeKvs kvs es hes hw.2
      simp only [uniqKeys, Bool.and_eq_true, decide_eq_true_eq]
      refine ⟨?_, ?_⟩
      · rw [List.map_map]
        have : ((isort strLe es).map (·.1)).Nodup :=
          ((isort_perm strLe es).map (·.1)).nodup_iff.mpr (hk ▸ hw.1)
        have := nodup_map_of_inj (f := utf8Enc) (fun a b => utf8Enc_inj) _ this
        rw [List.map_map] at this
        exact this
      · rw [uniqKvs_iff]
        intro p hp
        obtain ⟨q, hq, rfl⟩ := List.mem_map.mp hp
        exact hv q ((isort_perm strLe es).subset hq)
    · exact absurd h (by simp)
theorem uniq_encodeList : ∀ (l : List PyVal) (l' : List BVal), encodeList l = .ok l' →
    wfList l = true → uniqList l' = true
  | [], l', h, _ => by simp only [encodeList, Except.ok.injEq] at h; subst h; rfl
  | v :: t, l', h, hw => by
    simp only [encodeList] at h
    simp only [wfList, Bool.and_eq_true] at hw
    split at h
    · exact absurd h (by simp)
    · rename_i v' hv
      split at h
      · exact absurd h (by simp)
      · rename_i t' ht
        simp only [Except.ok.injEq] at h; subst h
        simp only [uniqList, Bool.and_eq_true]
        exact ⟨uniq_encodeValue v v' hv hw.1, uniq_encodeList t t' ht hw.2⟩
theorem uniq_encodeKvs : ∀ (kvs : List (PyVal × PyVal)) (es : List (String × BVal)),
    encodeKvs kvs = .ok es → wfKvs kvs = true →
    (∀ p ∈ es, uniqKeys p.2 = true) ∧ es.map (·.1) = strKeys kvs
  | [], es, h, _ => by simp only [encodeKvs, Except.ok.injEq] at h; subst h; simp [strKeys]
  | (.str k, v) :: t, es, h, hw => by
    simp only [encodeKvs] at h
    simp only [wfKvs, Bool.and_eq_true] at hw
    split at h
    · exact absurd h (by simp)
    · rename_i v' hv
      split at h
      · exact absurd h (by simp)
      · rename_i t' ht
        simp only [Except.ok.injEq] at h; subst h
        obtain ⟨h1, h2⟩ := uniq_encodeKvs t t' ht hw.2
        refine ⟨fun p hp => ?_, by simp [strKeys, h2]⟩
        rcases List.mem_cons.mp hp with rfl | hp
        · exact uniq_encodeValue v v' hv hw.1
        · exact h1 p hp
  | (.none, _) :: _, es, h, _ => by simp [encodeKvs] at h
  | (.bool _, _) :: _, es, h, _ => by simp [encodeKvs] at h
  | (.int _, _) :: _, es, h, _ => by simp [encodeKvs] at h
  | (.float _, _) :: _, es, h, _ => by simp [encodeKvs] at h
  | (.bytes _, _) :: _, es, h, _ => by simp [encodeKvs] at h
  | (.list _, _) :: _, es, h, _ => by simp [encodeKvs] at h
  | (.tuple _, _) :: _, es, h, _ => by simp [encodeKvs] at h
  | (.dict _, _) :: _, es, h, _ => by simp [encodeKvs] at h
  | (.datetime _, _) :: _, es, h, _ => by simp [encodeKvs] at h
  | (.other _, _) :: _, es, h, _ => by simp [encodeKvs] at h
end

end Torf.Codec
