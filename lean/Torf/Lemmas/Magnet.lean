/-
  Lemmas about `Magnet.xt` (setter + getter) applied to `'urn:btih:' + infohash`.
-/
import Torf.Model.ReadStream
namespace Torf.ReadStream
open Torf Torf.Bencode Torf.Codec

theorem not_matchesInfohash_urn (h : Bytes) : matchesInfohash (urnBtih ++ h) = false := by
  have h1 : (urnBtih ++ h).all isHexDigitCI = false := by
    simp [urnBtih, isHexDigitCI]
  have h2 : (urnBtih ++ h).all isB32CharCI = false := by
    simp [urnBtih, isB32CharCI]
  simp [matchesInfohash, h1, h2]

/-- the xt setter strips the `urn:btih:` prefix, checks the rest against `_INFOHASH_REGEX` and the
    getter puts the prefix back: the result is the argument itself, or `MagnetError` -/
theorem magnetXt_urn (h : Bytes) :
    magnetXt (urnBtih ++ h) = if matchesInfohash h then .ok (urnBtih ++ h) else .error .magnet := by
  have ht : (urnBtih ++ h).take 9 = urnBtih := by simp [urnBtih]
  have hd : (urnBtih ++ h).drop 9 = h := by simp [urnBtih]
  simp only [magnetXt, not_matchesInfohash_urn, ht, hd]
  simp

end Torf.ReadStream
