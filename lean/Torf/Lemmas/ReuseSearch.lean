/-
  Helper lemmas for C18 (search): path resolution is compositional — walking `cs ++ rest` is
  walking `cs` and then `rest` from where that ended.
-/
import Torf.Model.ReuseSearch
namespace Torf.Reuse

/-- how a walk goes on when more components follow -/
def Walk.andThen (w : Walk) (rest : List String) (k : List Nat → Walk) : Walk :=
  match w with
  | .done (.dir st') => k st'
  | .done (.file i) => if rest.isEmpty then .done (.file i) else .err .notdir
  | .err e => .err e
  | .follow s t r => .follow s t (r ++ rest)

/-- walking on after a walk: the components that follow are walked from where the first part ended -/
theorem walk1_append (fs : FS) (cs rest : List String) : ∀ st : List Nat,
    walk1 fs st (cs ++ rest) = (walk1 fs st cs).andThen rest (fun st' => walk1 fs st' rest) := by
  induction cs with
  | nil => intro st; simp [walk1, Walk.andThen]
  | cons c cs ih =>
    intro st
    simp only [List.cons_append, walk1.eq_2]
    by_cases hc : (c == "") = true
    · simp only [hc, if_true]; exact ih st
    · simp only [hc, Bool.false_eq_true, if_false]
      cases hn : fs[curIno st]? with
      | none => simp [Walk.andThen]
      | some nd =>
        cases nd with
        | file _ _ _ => simp [Walk.andThen]
        | link _ => simp [Walk.andThen]
        | dir r x entries =>
          simp only
          by_cases hx : x = true
          · simp only [hx, Bool.not_true, Bool.false_eq_true, if_false]
            by_cases hd : (c == ".") = true
            · simp only [hd, if_true]; exact ih st
            · simp only [hd, Bool.false_eq_true, if_false]
              by_cases hdd : (c == "..") = true
              · simp only [hdd, if_true]; exact ih st.tail
              · simp only [hdd, Bool.false_eq_true, if_false]
                cases hl : entries.lookup c with
                | none => simp [Walk.andThen]
                | some ino =>
                  simp only
                  cases hi : fs[ino]? with
                  | none => simp [Walk.andThen]
                  | some nd2 =>
                    cases nd2 with
                    | dir _ _ _ => simp only; exact ih (ino :: st)
                    | link _ => simp [Walk.andThen]
                    | file _ _ _ =>
                      simp only
                      cases cs with
                      | nil => simp [Walk.andThen]
                      | cons _ _ => simp [Walk.andThen]
          · simp [hx, Walk.andThen]

theorem walk_append (fs : FS) (rest : List String) : ∀ (n : Nat) (st : List Nat) (cs : List String) (st' : List Nat),
    walk fs n st cs = .ok (.dir st') → ∃ k, k ≤ n ∧ walk fs n st (cs ++ rest) = walk fs k st' rest := by
  intro n
  induction n with
  | zero =>
    intro st cs st' h
    have ha := walk1_append fs cs rest st
    unfold walk at h
    cases hw : walk1 fs st cs with
    | done l =>
      cases l with
      | dir s =>
        simp only [hw, Except.ok.injEq, Loc.dir.injEq] at h
        subst h
        simp only [hw, Walk.andThen] at ha
        refine ⟨0, Nat.le_refl _, ?_⟩
        unfold walk; rw [ha]
      | file i => simp [hw] at h
    | err e => simp [hw] at h
    | follow s t r => simp [hw] at h
  | succ m ih =>
    intro st cs st' h
    have ha := walk1_append fs cs rest st
    unfold walk at h
    cases hw : walk1 fs st cs with
    | done l =>
      cases l with
      | dir s =>
        simp only [hw, Except.ok.injEq, Loc.dir.injEq] at h
        subst h
        simp only [hw, Walk.andThen] at ha
        refine ⟨m + 1, Nat.le_refl _, ?_⟩
        conv => lhs; unfold walk
        conv => rhs; unfold walk
        rw [ha]
      | file i => simp [hw] at h
    | err e => simp [hw] at h
    | follow s t r =>
      simp only [hw, Walk.andThen] at h ha
      obtain ⟨k, hk, hkk⟩ := ih _ _ st' h
      refine ⟨k, by omega, ?_⟩
      conv => lhs; unfold walk
      simp only [ha]
      rw [← List.append_assoc]
      exact hkk

end Torf.Reuse
