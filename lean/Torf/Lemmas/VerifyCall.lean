/-
  Helper lemmas for C02 (round 3): the content-path chain never changes what `_MissingPieces`
  computes; the interval gate only thins out progress reports.
-/
import Torf.Model.VerifyCall
import Torf.Lemmas.VerifyCb
namespace Torf.VerifyCall
open Torf Torf.Missing Torf.Verify Torf.VerifyFs
open Torf.Pipeline (ItemKind)

variable {α δ : Type}

/-! ### the content path -/

/-- with `content_path=''` every file comes back as the torrent's own `File` object, whatever
    `Torrent.path` is -/
theorem returned_missingPiecesArg (single : Bool) (tpath : Option String) (k : Nat) :
    Geometry.returned single (Geometry.contentPath missingPiecesArg none tpath) k
      = .torrentFile k := by
  simp [missingPiecesArg, Geometry.contentPath, Geometry.returned]

theorem contains_torrentFile (fs : List Nat) (j : Nat) :
    (fs.map Geometry.Returned.torrentFile).contains (.torrentFile j) = fs.contains j := by
  induction fs with
  | nil => rfl
  | cons k ks ih =>
    simp only [List.map_cons, List.contains_cons, ih]
    congr 1
    by_cases h : j = k
    · subst h; simp
    · have : (Geometry.Returned.torrentFile j == Geometry.Returned.torrentFile k) = false := by
        simp [h]
      rw [this]; simp [h]

theorem missingCallP_eq (single : Bool) (tpath : Option String) (L : Nat) (sizes : List Nat)
    (disk : List (Option (List α))) (seen bycatch : List Nat) (j : Nat) (reason : ErrKind) :
    missingCallP single tpath L sizes disk seen bycatch j reason =
      missingCall L sizes disk seen bycatch j reason := by
  unfold missingCallP
  simp only
  cases hl : (pyRemoveSeen seen (pieceIndexesOfFile L sizes j)).getLast? with
  | none => unfold missingCall; simp only [hl]
  | some last =>
    simp only
    cases hf : filesAtPieceIndex L sizes last with
    | none => unfold missingCall; simp only [hl, hf]
    | some fs =>
      simp only
      have hmap : fs.map (Geometry.returned single
          (Geometry.contentPath missingPiecesArg none tpath)) = fs.map .torrentFile := by
        apply List.map_congr_left
        intro k _
        exact returned_missingPiecesArg single tpath k
      rw [hmap, contains_torrentFile]
      by_cases hc : fs.contains j = true
      · simp only [hc, if_true]
      · simp only [hc, Bool.false_eq_true, if_false]
        unfold missingCall
        simp only [hl, hf, hc, Bool.false_eq_true, not_false_eq_true, if_true]

theorem stepP_eq [Inhabited α] (single : Bool) (tpath : Option String) (L : Nat)
    (sizes : List Nat) (fd : List (FState α)) :
    stepP single tpath L sizes fd = stepFs L sizes fd := by
  funext s j
  unfold stepP stepFs
  simp only [missingCallP_eq]
  rfl

theorem iterItemsP_eq [Inhabited α] (single : Bool) (tpath : Option String) (L : Nat)
    (sizes : List Nat) (fd : List (FState α)) :
    iterItemsP single tpath L sizes fd = iterItemsFs L sizes fd := by
  unfold iterItemsP iterItemsFs
  rw [stepP_eq]

/-! ### the interval gate -/

variable [DecidableEq δ]

/-- what one item adds, whatever has been collected so far -/
theorem collectItem_frame (H : List α → δ) (L : Nat) (sizes : List Nat) (stored : List δ)
    (hasCb : Bool) (acc : Acc δ) (x : Item α × Nat) (h : acc.raised = none) :
    collectItem H L sizes stored hasCb acc x =
      { collected := acc.collected ++ (collectItem H L sizes stored hasCb {} x).collected,
        calls := acc.calls ++ (collectItem H L sizes stored hasCb {} x).calls,
        raised := (collectItem H L sizes stored hasCb {} x).raised } := by
  obtain ⟨it, i⟩ := x
  obtain ⟨c, cl, r⟩ := acc
  simp only at h
  subst h
  unfold collectItem
  simp only [Option.isSome_none, Bool.false_eq_true, if_false]
  by_cases he : it.excs.isEmpty = true
  · simp only [he, Bool.not_true, Bool.false_eq_true, if_false]
    cases it.data with
    | none => cases hasCb <;> simp
    | some d =>
      simp only
      cases stored[i]? with
      | none => simp
      | some s =>
        by_cases hm : H d = s
        · cases hasCb <;> simp [hm]
        · cases hasCb <;> simp [hm]
  · cases hasCb <;> simp [he]

/-- an item `_force_callback` does not force: it raises nothing, reports no exception, and its
    digest (if any) is what `Collector._collect` remembers -/
theorem collectItem_unforced (H : List α → δ) (L : Nat) (sizes : List Nat) (stored : List δ)
    (hasCb : Bool) (total done : Nat) (x : Item α × Nat)
    (h : Callbacks.force true total done (itemKind H stored x) = false) :
    (collectItem H L sizes stored hasCb {} x).raised = none ∧
    excsOf (collectItem H L sizes stored hasCb {} x).calls = [] ∧
    (collectItem H L sizes stored hasCb {} x).collected =
      (if x.1.excs.isEmpty then (x.1.data.map H).toList else []) := by
  obtain ⟨it, i⟩ := x
  unfold Callbacks.force at h
  simp only [Bool.true_and, Bool.or_eq_false_iff, beq_eq_false_iff_ne, ne_eq] at h
  obtain ⟨⟨h1, _⟩, h2⟩ := h
  unfold itemKind at h1 h2
  simp only at h1 h2
  by_cases he : it.excs.isEmpty = true
  · simp only [he, Bool.not_true, Bool.false_eq_true, if_false] at h1 h2
    unfold collectItem excsOf
    simp only [Option.isSome_none, Bool.false_eq_true, if_false, he, Bool.not_true, if_true]
    cases hd : it.data with
    | none => cases hasCb <;> simp
    | some d =>
      simp only [hd] at h2
      by_cases hs : stored[i]? = some (H d)
      · simp only [hs]
        cases hasCb <;> simp
      · simp [hs] at h2
  · simp [he] at h1

/-- the throttled run and the run that reports everything -/
structure GateRel (g : AccG δ) (a : Acc δ) : Prop where
  collected : g.acc.collected = a.collected
  raised : g.acc.raised = a.raised
  excs : excsOf g.acc.calls = excsOf a.calls
  sub : g.acc.calls.Sublist a.calls

theorem gate_step (H : List α → δ) (L : Nat) (sizes : List Nat) (stored : List δ)
    (hasCb : Bool) (interval : Int) (total : Nat) (g : AccG δ) (a : Acc δ)
    (x : Item α × Nat) (now : Int) (hr : GateRel g a) :
    GateRel (collectItemG H L sizes stored hasCb interval total g (x, now))
      (collectItem H L sizes stored hasCb a x) := by
  obtain ⟨h1, h2, h3, h4⟩ := hr
  unfold collectItemG
  by_cases hra : g.acc.raised.isSome = true
  · simp only [hra, if_true]
    rw [collectItem_raised _ _ _ _ _ _ _ (by rw [← h2]; exact hra)]
    exact ⟨h1, h2, h3, h4⟩
  · simp only [hra, Bool.false_eq_true, if_false]
    have hgn : g.acc.raised = none := by
      cases hx : g.acc.raised with
      | none => rfl
      | some _ => rw [hx] at hra; exact absurd rfl hra
    have han : a.raised = none := by rw [← h2]; exact hgn
    rw [collectItem_frame H L sizes stored hasCb a x han]
    by_cases hpass : (Callbacks.force true total (x.2 + 1) (itemKind H stored x) ||
        decide (now - g.prev ≥ interval)) = true
    · simp only [hpass, if_true]
      rw [collectItem_frame H L sizes stored hasCb g.acc x hgn]
      refine ⟨by simp only [h1], rfl, ?_, ?_⟩
      · simp only [excsOf_append, h3]
      · exact List.Sublist.append h4 (List.Sublist.refl _)
    · simp only [hpass, Bool.false_eq_true, if_false]
      have hf : Callbacks.force true total (x.2 + 1) (itemKind H stored x) = false := by
        cases hx : Callbacks.force true total (x.2 + 1) (itemKind H stored x) with
        | false => rfl
        | true => rw [hx] at hpass; simp at hpass
      obtain ⟨u1, u2, u3⟩ := collectItem_unforced H L sizes stored hasCb total (x.2 + 1) x hf
      refine ⟨by simp only [h1, u3], by simp only [hgn, u1], ?_, ?_⟩
      · simp only [excsOf_append, u2, List.append_nil, h3]
      · exact List.Sublist.trans h4 (List.sublist_append_left _ _)

theorem gate_fold (H : List α → δ) (L : Nat) (sizes : List Nat) (stored : List δ)
    (hasCb : Bool) (interval : Int) (total : Nat) (xs : List ((Item α × Nat) × Int))
    (g : AccG δ) (a : Acc δ) (hr : GateRel g a) :
    GateRel (xs.foldl (collectItemG H L sizes stored hasCb interval total) g)
      ((xs.map (·.1)).foldl (collectItem H L sizes stored hasCb) a) := by
  induction xs generalizing g a with
  | nil => exact hr
  | cons x xs ih =>
    obtain ⟨x, now⟩ := x
    simp only [List.foldl_cons, List.map_cons]
    exact ih _ _ (gate_step H L sizes stored hasCb interval total g a x now hr)

/-- every call passes a gate with interval ≤ 0 when the clock never runs backwards -/
theorem gate_fold_zero (H : List α → δ) (L : Nat) (sizes : List Nat) (stored : List δ)
    (hasCb : Bool) (interval : Int) (hi : interval ≤ 0) (total : Nat) (clock : Nat → Int)
    (hmono : ∀ i j, i ≤ j → clock i ≤ clock j) (items : List (Item α)) (k : Nat)
    (g : AccG δ) (hprev : ∀ j, k ≤ j → g.prev ≤ clock j) :
    (((items.zipIdx k).map fun x => (x, clock x.2)).foldl
      (collectItemG H L sizes stored hasCb interval total) g).acc =
    (items.zipIdx k).foldl (collectItem H L sizes stored hasCb) g.acc := by
  induction items generalizing k g with
  | nil => rfl
  | cons it items ih =>
    simp only [List.zipIdx_cons, List.map_cons, List.foldl_cons]
    by_cases hra : g.acc.raised.isSome = true
    · have h1 : collectItemG H L sizes stored hasCb interval total g ((it, k), clock k) = g := by
        unfold collectItemG; simp only [hra, if_true]
      rw [h1, collectItem_raised _ _ _ _ _ _ _ hra]
      exact ih (k + 1) g (fun j hj => hprev j (by omega))
    · have hpass : decide (clock k - g.prev ≥ interval) = true := by
        have := hprev k (Nat.le_refl k)
        simp only [decide_eq_true_eq]; omega
      have h1 : collectItemG H L sizes stored hasCb interval total g ((it, k), clock k) =
          { acc := collectItem H L sizes stored hasCb g.acc (it, k), prev := clock k } := by
        unfold collectItemG
        simp only [hra, Bool.false_eq_true, if_false, hpass, Bool.or_true, if_true]
      rw [h1]
      exact ih (k + 1) _ (fun j hj => hmono k j (by omega))

end Torf.VerifyCall

/-! ### the calls of the callback are those of the C12 model -/

namespace Torf.VerifyCall
open Torf Torf.Missing Torf.Verify Torf.VerifyFs
open Torf.Pipeline (ItemKind)

variable {α δ : Type} [DecidableEq δ]

/-- a collected result as `Torf.Callbacks` (C12) sees it -/
def evOf (H : List α → δ) (stored : List δ) (clock : List Int) (x : Item α × Nat) : Callbacks.Ev :=
  ⟨x.2, itemKind H stored x, x.1.excs.length, clock.getD x.2 0⟩

/-- what C12 speaks about: pieces_done, piece index, "carries an exception" -/
def view (c : CbCall δ) : Nat × Nat × Bool := (c.done, c.piece, c.exc.isSome)
def viewC (c : Callbacks.Call) : Nat × Nat × Bool := (c.done, c.piece, c.exc.isSome)

theorem itemCalls_view (H : List α → δ) (L : Nat) (sizes : List Nat) (stored : List δ)
    (clock : List Int) (x : Item α × Nat) :
    (itemCalls H L sizes stored x).map view =
      (Callbacks.emit true (x.2 + 1) (evOf H stored clock x)).map viewC := by
  obtain ⟨it, i⟩ := x
  unfold itemCalls Callbacks.emit evOf itemKind
  simp only [if_true]
  by_cases he : it.excs.isEmpty = true
  · simp only [he, Bool.not_true, Bool.false_eq_true, if_false]
    cases it.data with
    | none => rfl
    | some d =>
      simp only
      by_cases hs : stored[i]? = some (H d)
      · simp only [hs, if_true]
        rfl
      · have hs' : ¬ some (H d) = stored[i]? := fun h => hs h.symm
        simp only [hs, hs', if_false]
        rfl
  · have hne : it.excs.isEmpty = false := by
      cases hx : it.excs.isEmpty with
      | false => rfl
      | true => exact absurd hx he
    simp only [hne, Bool.not_false, if_true, List.map_map]
    have h1 : (view ∘ fun e : Nat × ErrKind =>
        (⟨i + 1, i, none, some (excOf e)⟩ : CbCall δ)) = fun _ => (i + 1, i, true) := by
      funext e; rfl
    have h2 : (viewC ∘ fun j : Nat => (⟨i + 1, i, some j⟩ : Callbacks.Call))
        = fun _ => (i + 1, i, true) := by
      funext j; rfl
    rw [h1, h2, List.map_const', List.map_const', List.length_range]

/-- the gate of `verifyCall` is the gate of `Callbacks.stepEv`, result by result -/
theorem gate_is_C12 (H : List α → δ) (L : Nat) (sizes : List Nat) (stored : List δ)
    (interval : Int) (total : Nat) (clock : List Int) (items : List (Item α)) (k : Nat)
    (hk : k + items.length ≤ stored.length) (g : AccG δ) (st : Callbacks.GateSt)
    (hr : g.acc.raised = none) (hp : g.prev = st.prev) (hd : st.done = k)
    (hc : g.acc.calls.map view = st.calls.map viewC) :
    let g' := ((items.zipIdx k).map fun x => (x, clock.getD x.2 0)).foldl
      (collectItemG H L sizes stored true interval total) g
    let st' := ((items.zipIdx k).map (evOf H stored clock)).foldl
      (Callbacks.stepEv true interval total) st
    g'.acc.calls.map view = st'.calls.map viewC := by
  induction items generalizing k g st with
  | nil => exact hc
  | cons it items ih =>
    simp only [List.zipIdx_cons, List.map_cons, List.foldl_cons, List.length_cons] at hk ⊢
    have hgate : (Callbacks.force true total (k + 1) (itemKind H stored (it, k)) ||
        decide (clock.getD k 0 - g.prev ≥ interval)) =
        (Callbacks.force true total (st.done + 1) (evOf H stored clock (it, k)).kind ||
        decide ((evOf H stored clock (it, k)).now - st.prev ≥ interval)) := by
      rw [hd, hp]; rfl
    by_cases hpass : (Callbacks.force true total (k + 1) (itemKind H stored (it, k)) ||
        decide (clock.getD k 0 - g.prev ≥ interval)) = true
    · have h1 : collectItemG H L sizes stored true interval total g ((it, k), clock.getD k 0) =
          { acc := collectItem H L sizes stored true g.acc (it, k), prev := clock.getD k 0 } := by
        unfold collectItemG
        simp only [hr, Option.isSome_none, Bool.false_eq_true, if_false, hpass, if_true]
      have h2 : Callbacks.stepEv true interval total st (evOf H stored clock (it, k)) =
          { prev := clock.getD k 0, done := k + 1,
            calls := st.calls ++ Callbacks.emit true (k + 1) (evOf H stored clock (it, k)) } := by
        unfold Callbacks.stepEv
        dsimp only
        rw [← hgate]
        simp only [hpass, if_true, hd]
        rfl
      rw [h1, h2, collectItem_cb H L sizes stored g.acc (it, k) hr (by simp only; omega)]
      apply ih (k + 1) (by omega) _ _ rfl rfl rfl
      simp only [List.map_append, hc]
      rw [itemCalls_view H L sizes stored clock (it, k)]
    · have hpass' : (Callbacks.force true total (k + 1) (itemKind H stored (it, k)) ||
          decide (clock.getD k 0 - g.prev ≥ interval)) = false := by
        cases hx : (Callbacks.force true total (k + 1) (itemKind H stored (it, k)) ||
          decide (clock.getD k 0 - g.prev ≥ interval)) with
        | false => rfl
        | true => exact absurd hx hpass
      have h1 : (collectItemG H L sizes stored true interval total g
          ((it, k), clock.getD k 0)).acc.calls = g.acc.calls ∧
          (collectItemG H L sizes stored true interval total g
            ((it, k), clock.getD k 0)).acc.raised = none ∧
          (collectItemG H L sizes stored true interval total g
            ((it, k), clock.getD k 0)).prev = g.prev := by
        unfold collectItemG
        simp only [hr, Option.isSome_none, Bool.false_eq_true, if_false, hpass']
        refine ⟨?_, ?_, ?_⟩ <;> first | trivial | exact hr | rfl
      have h2 : Callbacks.stepEv true interval total st (evOf H stored clock (it, k)) =
          { st with done := k + 1 } := by
        unfold Callbacks.stepEv
        dsimp only
        rw [← hgate]
        simp only [hpass', Bool.false_eq_true, if_false, hd]
      rw [h2]
      exact ih (k + 1) (by omega) _ _ h1.2.1 (by rw [h1.2.2, hp]) rfl (by rw [h1.1, hc])

end Torf.VerifyCall
