/-
  `get_piece_indexes_of_file(file, exclusive=True)` = pieces that hold bytes of `file` and of no
  other file (layouts without zero-length entries).
-/
import Torf.Lemmas.GeomIndex
namespace Torf.GeomLemmas
open Torf Torf.Geometry

theorem pos_mono (sizes : List Nat) (a b : Nat) (h : a ≤ b) : GeomSpec.pos sizes a ≤ GeomSpec.pos sizes b := by
  induction sizes generalizing a b with
  | nil => simp [GeomSpec.pos]
  | cons s r ih =>
    cases a with
    | zero => rw [pos_zero]; omega
    | succ a =>
      cases b with
      | zero => omega
      | succ b =>
        rw [pos_cons_succ, pos_cons_succ]
        have := ih a b (by omega)
        omega

theorem pos_succ (sizes : List Nat) (k : Nat) (hk : k < sizes.length) :
    GeomSpec.pos sizes (k + 1) = GeomSpec.pos sizes k + GeomSpec.size sizes k := by
  induction sizes generalizing k with
  | nil => simp at hk
  | cons s r ih =>
    cases k with
    | zero => rw [pos_cons_succ, pos_zero, pos_zero, size_cons_zero]; omega
    | succ k =>
      rw [pos_cons_succ, pos_cons_succ, size_cons_succ, ih k (by simpa using hk)]
      omega

/-- the byte intervals of two different files do not meet -/
theorem files_disjoint (sizes : List Nat) (k j : Nat) (hk : k < sizes.length) (hkj : k < j) :
    GeomSpec.pos sizes k + GeomSpec.size sizes k ≤ GeomSpec.pos sizes j := by
  rw [← pos_succ sizes k hk]
  exact pos_mono sizes _ _ (by omega)

/-- conditional erase -/
def ce (c : Bool) (x : Int) (l : List Int) : List Int := if c then l.erase x else l

theorem ce_sorted (c : Bool) (x : Int) (l : List Int) (h : l.Pairwise (· < ·)) :
    (ce c x l).Pairwise (· < ·) := by
  unfold ce
  cases c
  · exact h
  · exact h.sublist List.erase_sublist

theorem mem_ce (c : Bool) (x y : Int) (l : List Int) (h : l.Pairwise (· < ·)) :
    y ∈ ce c x l ↔ y ∈ l ∧ ¬ (c = true ∧ y = x) := by
  have nd : l.Nodup := h.imp (by intro a b hab; omega)
  unfold ce
  cases c
  · simp
  · simp only [if_true, nd.mem_erase_iff, true_and]
    constructor
    · rintro ⟨h1, h2⟩; exact ⟨h2, h1⟩
    · rintro ⟨h1, h2⟩; exact ⟨h2, h1⟩

/-- the exclusive branch of the model, given what the two `get_files_at_piece_index` calls
    return, in closed form -/
theorem exclusive_closed (idxs : List Int) (first last : Int) (j : Nat) (A1 A2 : List Nat)
    (hfirst : first ∈ idxs) :
    (do
      let idxs ← if A1 != [j] then listRemove idxs first else (pure idxs : Res (List Int))
      if idxs.contains last && A2 != [j] then listRemove idxs last else pure idxs)
    = .ok (ce (A2 != [j]) last (ce (A1 != [j]) first idxs)) := by
  have hrem : listRemove idxs first = .ok (idxs.erase first) := by
    unfold listRemove
    simp [hfirst]
  cases h1 : (A1 != [j])
  · simp only [Bool.false_eq_true, if_false, bind, Except.bind, pure, Except.pure, ce]
    by_cases hc : idxs.contains last = true
    · cases h2 : (A2 != [j])
      · simp
      · simp only [hc, Bool.and_self, if_true]
        unfold listRemove
        simp only [hc, if_true]
    · have hc' : idxs.contains last = false := by simpa using hc
      have hnm : last ∉ idxs := by simpa using hc
      simp only [hc', Bool.false_and, Bool.false_eq_true, if_false]
      cases h2 : (A2 != [j])
      · simp
      · simp [List.erase_of_not_mem hnm]
  · simp only [if_true, hrem, bind, Except.bind, pure, Except.pure, ce]
    by_cases hc : (idxs.erase first).contains last = true
    · cases h2 : (A2 != [j])
      · simp
      · simp only [hc, Bool.and_self, if_true]
        unfold listRemove
        simp only [hc, if_true]
    · have hc' : (idxs.erase first).contains last = false := by simpa using hc
      have hnm : last ∉ idxs.erase first := by simpa using hc
      simp only [hc', Bool.false_and, Bool.false_eq_true, if_false]
      cases h2 : (A2 != [j])
      · simp
      · simp [List.erase_of_not_mem hnm]

/-- a sorted list of files that contains `j` is `[j]` iff it contains nothing else -/
theorem filesAt_eq_singleton (sizes : List Nat) (a b : Int) (j : Nat)
    (hj : j ∈ GeomSpec.filesAtByteRange sizes a b) :
    GeomSpec.filesAtByteRange sizes a b = [j] ↔
      ∀ k, k < sizes.length → GeomSpec.fileInRange sizes a b k = true → k = j := by
  constructor
  · intro h k hk hin
    have : k ∈ GeomSpec.filesAtByteRange sizes a b := (mem_filesAtByteRange sizes a b k).mpr ⟨hk, hin⟩
    rw [h] at this
    simpa using this
  · intro h
    apply eq_of_sorted_of_mem_iff (· < ·) (by intro x y h1 h2; omega)
    · exact filesAtByteRange_sorted sizes a b
    · simp
    · intro k
      constructor
      · intro hk
        have := (mem_filesAtByteRange sizes a b k).mp hk
        simp [h k this.1 this.2]
      · intro hk
        have : k = j := by simpa using hk
        rw [this]; exact hj

theorem getPieceIndexesOfFile_exclusive_spec (sizes : List Nat) (L : Nat) (j : Nat) (hL : 0 < L)
    (hne : NoEmpty sizes) :
    getPieceIndexesOfFile sizes L j true = GeomSpec.pieceIndexesOfFile sizes L j true := by
  unfold getPieceIndexesOfFile GeomSpec.pieceIndexesOfFile
  by_cases hlt : j < sizes.length
  · have hs := size_pos_of_noEmpty sizes hne j hlt
    have hL' : (0 : Int) < (L : Int) := by omega
    have htot := pos_add_size_le_total sizes j hlt
    rw [lookupFile_lt sizes j hlt]
    simp only [hlt, if_true, bind, Except.bind]
    -- abbreviations
    generalize hp : GeomSpec.pos sizes j = p at *
    generalize hsz : GeomSpec.size sizes j = s at *
    have hle : floorDiv (p : Int) L ≤ floorDiv ((p : Int) + (s : Int) - 1) L := by
      unfold floorDiv; exact Int.ediv_le_ediv hL' (by omega)
    generalize hf : floorDiv (p : Int) L = first at *
    generalize hl : floorDiv ((p : Int) + (s : Int) - 1) L = last at *
    have hbetween : ∀ x : Int, (first ≤ x ∧ x ≤ last) ↔
        (x * (L : Int) ≤ (p : Int) + (s : Int) - 1 ∧ (p : Int) ≤ (x + 1) * (L : Int) - 1) := by
      intro x; rw [← hf, ← hl]; unfold floorDiv; exact between_iff p s L x hL
    have hnonneg : ∀ x : Int, first ≤ x → 0 ≤ x := by
      intro x hx
      have : 0 ≤ first := by rw [← hf]; unfold floorDiv; exact Int.ediv_nonneg (by omega) (by omega)
      omega
    -- every piece between first and last holds a byte of file j
    have hinj : ∀ x : Int, first ≤ x → x ≤ last → GeomSpec.fileInPiece sizes L x j = true := by
      intro x h1 h2
      have := (hbetween x).mp ⟨h1, h2⟩
      unfold GeomSpec.fileInPiece GeomSpec.fileInRange
      simp only [Bool.and_eq_true, decide_eq_true_eq, hp, hsz]
      exact ⟨⟨hs, this.1⟩, this.2⟩
    have hvalid : ∀ x : Int, first ≤ x → x ≤ last → GeomSpec.validPiece sizes L x = true := by
      intro x h1 h2
      have := (hbetween x).mp ⟨h1, h2⟩
      unfold GeomSpec.validPiece
      simp only [Bool.and_eq_true, decide_eq_true_eq]
      exact ⟨hnonneg x h1, by omega⟩
    have hF : ∀ x : Int, first ≤ x → x ≤ last → getFilesAtPieceIndex sizes L x =
        .ok (GeomSpec.filesAtByteRange sizes (x * (L : Int)) ((x + 1) * (L : Int) - 1)) := by
      intro x h1 h2
      rw [getFilesAtPieceIndex_spec sizes L x hL hne]
      unfold GeomSpec.filesAtPieceIndex
      rw [hvalid x h1 h2, filesAtPieceIndex_filter_eq]
      rfl
    have hmemF : ∀ x : Int, first ≤ x → x ≤ last →
        j ∈ GeomSpec.filesAtByteRange sizes (x * (L : Int)) ((x + 1) * (L : Int) - 1) := by
      intro x h1 h2
      exact (mem_filesAtByteRange _ _ _ j).mpr ⟨hlt, hinj x h1 h2⟩
    have hfirstmem : first ∈ rangeIncl first last := (mem_rangeIncl _ _ _).mpr ⟨by omega, hle⟩
    simp only [hF first (by omega) hle, hF last hle (by omega)]
    have hclosed := exclusive_closed (rangeIncl first last) first last j
      (GeomSpec.filesAtByteRange sizes (first * (L : Int)) ((first + 1) * (L : Int) - 1))
      (GeomSpec.filesAtByteRange sizes (last * (L : Int)) ((last + 1) * (L : Int) - 1)) hfirstmem
    simp only [bind, Except.bind] at hclosed
    rw [hclosed]
    congr 1
    have hsorted := rangeIncl_sorted first last
    apply eq_of_sorted_of_mem_iff (· < ·) (by intro a b h1 h2; omega)
    · exact ce_sorted _ _ _ (ce_sorted _ _ _ hsorted)
    · rw [List.pairwise_map]
      exact (List.Pairwise.sublist List.filter_sublist List.pairwise_lt_range).imp
        (by intro a b h; exact Int.ofNat_lt.mpr h)
    · intro x
      rw [mem_ce _ _ _ _ (ce_sorted _ _ _ hsorted), mem_ce _ _ _ _ hsorted, mem_rangeIncl]
      simp only [List.mem_map, List.mem_filter, List.mem_range, GeomSpec.pieceOfFile, Bool.not_true,
        Bool.false_or, Bool.and_eq_true, List.all_eq_true, GeomSpec.allFiles, Bool.or_eq_true,
        beq_iff_eq, Bool.not_eq_true', bne_iff_ne, ne_eq]
      -- exclusivity of piece x for file j, in terms of the two boundary tests
      have hexcl : ∀ x : Int, first ≤ x → x ≤ last →
          ((∀ k, k < sizes.length → k = j ∨ GeomSpec.fileInPiece sizes L x k = false) ↔
           (¬ (¬ GeomSpec.filesAtByteRange sizes (first * (L : Int)) ((first + 1) * (L : Int) - 1) = [j] ∧ x = first) ∧
            ¬ (¬ GeomSpec.filesAtByteRange sizes (last * (L : Int)) ((last + 1) * (L : Int) - 1) = [j] ∧ x = last))) := by
        intro x h1 h2
        have hsing := filesAt_eq_singleton sizes (x * (L : Int)) ((x + 1) * (L : Int) - 1) j (hmemF x h1 h2)
        constructor
        · intro hall
          have hxs : GeomSpec.filesAtByteRange sizes (x * (L : Int)) ((x + 1) * (L : Int) - 1) = [j] := by
            rw [hsing]
            intro k hk hin
            rcases hall k hk with h | h
            · exact h
            · unfold GeomSpec.fileInPiece at h; rw [hin] at h; cases h
          constructor
          · rintro ⟨hne1, rfl⟩; exact hne1 hxs
          · rintro ⟨hne2, rfl⟩; exact hne2 hxs
        · rintro ⟨hn1, hn2⟩ k hk
          by_cases hkj : k = j
          · exact Or.inl hkj
          · right
            by_cases hx1 : x = first
            · subst hx1
              have hxs : GeomSpec.filesAtByteRange sizes (x * (L : Int)) ((x + 1) * (L : Int) - 1) = [j] := by
                apply Classical.byContradiction; intro hcon; exact hn1 ⟨hcon, rfl⟩
              cases hin : GeomSpec.fileInPiece sizes L x k with
              | false => rfl
              | true => exact absurd (hsing.mp hxs k hk hin) hkj
            · by_cases hx2 : x = last
              · subst hx2
                have hxs : GeomSpec.filesAtByteRange sizes (x * (L : Int)) ((x + 1) * (L : Int) - 1) = [j] := by
                  apply Classical.byContradiction; intro hcon; exact hn2 ⟨hcon, rfl⟩
                cases hin : GeomSpec.fileInPiece sizes L x k with
                | false => rfl
                | true => exact absurd (hsing.mp hxs k hk hin) hkj
              · -- a middle piece lies completely inside file j
                have hm1 : (p : Int) < x * (L : Int) := by
                  have : first < x := by omega
                  rw [← hf] at this; unfold floorDiv at this
                  exact (Int.ediv_lt_iff_lt_mul hL').mp this
                have hm2 : (x + 1) * (L : Int) ≤ (p : Int) + (s : Int) - 1 := by
                  have : x + 1 ≤ last := by omega
                  rw [← hl] at this; unfold floorDiv at this
                  exact (Int.le_ediv_iff_mul_le hL').mp this
                cases hin : GeomSpec.fileInPiece sizes L x k with
                | false => rfl
                | true =>
                  exfalso
                  unfold GeomSpec.fileInPiece GeomSpec.fileInRange at hin
                  simp only [Bool.and_eq_true, decide_eq_true_eq] at hin
                  obtain ⟨⟨_, hk1⟩, hk2⟩ := hin
                  rcases Nat.lt_or_gt_of_ne hkj with hlt' | hgt
                  · have := files_disjoint sizes k j hk hlt'
                    rw [hp] at this
                    omega
                  · have := files_disjoint sizes j k hlt hgt
                    rw [hp, hsz] at this
                    omega
      constructor
      · rintro ⟨⟨⟨h1, h2⟩, hn1⟩, hn2⟩
        have hx := hnonneg x h1
        have hb := (hbetween x).mp ⟨h1, h2⟩
        refine ⟨x.toNat, ⟨?_, ?_, ?_⟩, Int.toNat_of_nonneg hx⟩
        · rw [lt_nPieces_iff _ _ _ hL]
          have e : ((x.toNat * L : Nat) : Int) = x * (L : Int) := by
            rw [Int.natCast_mul, Int.toNat_of_nonneg hx]
          have : ((x.toNat * L : Nat) : Int) < (GeomSpec.total sizes : Int) := by omega
          exact Int.ofNat_lt.mp this
        · rw [Int.toNat_of_nonneg hx]; exact hinj x h1 h2
        · rw [Int.toNat_of_nonneg hx]
          exact (hexcl x h1 h2).mpr ⟨by intro h; exact hn1 ⟨h.1, h.2⟩, by intro h; exact hn2 ⟨h.1, h.2⟩⟩
      · rintro ⟨i, ⟨_, hin, hall⟩, rfl⟩
        have hb : first ≤ (i : Int) ∧ (i : Int) ≤ last := by
          rw [hbetween]
          unfold GeomSpec.fileInPiece GeomSpec.fileInRange at hin
          simp only [Bool.and_eq_true, decide_eq_true_eq, hp, hsz] at hin
          exact ⟨hin.1.2, hin.2⟩
        have := (hexcl (i : Int) hb.1 hb.2).mp hall
        exact ⟨⟨hb, this.1⟩, this.2⟩
  · rw [lookupFile_ge sizes j hlt]
    simp [hlt, bind, Except.bind]

end Torf.GeomLemmas
