/-
  Torf.Lemmas.PipelineSent — sentinel discipline of the piece queue (C03 clause (ii), (iii), (vi)):
  no QUEUE_CLOSED before the reader is done; afterwards exactly one, either last in the piece
  queue or in the hands of the single hasher that is about to re-queue it (the queue is empty
  then, so re-queueing never blocks); the finalize event implies the reader is done; the vital
  hasher only finishes by setting the event.
-/
import Torf.Lemmas.PipelineCtl
namespace Torf.Pipeline

theorem q_pop {l rest : List (Option Nat)} {x : Option Nat} (h : l = x :: rest)
    (hq : none ∉ l.dropLast) : none ∉ rest.dropLast := by
  subst h
  cases rest with
  | nil => simp
  | cons y r => simp [List.dropLast] at hq ⊢; exact hq.2

theorem q_closed {l rest : List (Option Nat)} (h : l = none :: rest)
    (hq : none ∉ l.dropLast) : rest = [] := by
  subst h
  cases rest with
  | nil => rfl
  | cons y r => simp [List.dropLast] at hq

theorem q_push {l : List (Option Nat)} (x : Option Nat) (h : none ∉ l) :
    none ∉ (l ++ [x]).dropLast := by
  simpa using h

structure InvB2 (s : State) : Prop where
  e1pq : s.rpc ≠ RPc.done → none ∉ s.pq
  e1hs : s.rpc ≠ RPc.done → ∀ i : Nat, s.hs[i]? ≠ some HPc.requeue ∧ s.hs[i]? ≠ some HPc.setEv
  e1fin : s.rpc ≠ RPc.done → s.fin = false
  e2 : s.rpc = RPc.done → none ∈ s.pq ∨ ∃ i : Nat, s.hs[i]? = some HPc.requeue
  e3 : ∀ i : Nat, s.hs[i]? = some HPc.requeue → s.pq = []
  e4 : ∀ i j : Nat, s.hs[i]? = some HPc.requeue → s.hs[j]? = some HPc.requeue → i = j
  q : none ∉ s.pq.dropLast
  r2 : s.fin = true → ∀ x ∈ s.pq, x = none
  r2' : ∀ i : Nat, s.hs[i]? = some HPc.setEv → ∀ x ∈ s.pq, x = none
  v2 : s.hs[0]? = some HPc.done → s.fin = true

theorem InvB2.init (cfg : Cfg) : InvB2 (init cfg) := by
  constructor <;> simp [Pipeline.init] <;> grind

theorem InvB2.main {cfg : Cfg} {s s' : State} (hA : InvA cfg s) (h : InvB2 s)
    (hs : MainStep cfg s s') : InvB2 s' := by
  obtain ⟨e1pq, e1hs, e1fin, e2, e3, e4, q, r2, r2', v2⟩ := h
  have hfresh := hA.fresh
  have hrfresh := hA.rfresh
  cases hs <;>
    (have hm := ‹s.main = _›
     simp [hm, startBound] at hfresh hrfresh
     constructor <;> grind)

theorem InvB2.reader {cfg : Cfg} {s s' : State} (h : InvB2 s)
    (hs : ReaderStep cfg s s') : InvB2 s' := by
  obtain ⟨e1pq, e1hs, e1fin, e2, e3, e4, q, r2, r2', v2⟩ := h
  cases hs with
  | begin hr t hn =>
    cases hn <;> (constructor <;> grind)
  | put k hr hc t hn =>
    cases hn <;> (constructor <;> grind [q_push])
  | close hr hc =>
    constructor <;> grind [q_push]

theorem InvB2.hasher {cfg : Cfg} {s s' : State} {i : Nat} (h : InvB2 s)
    (hs : HasherStep cfg s i s') : InvB2 s' := by
  obtain ⟨e1pq, e1hs, e1fin, e2, e3, e4, q, r2, r2', v2⟩ := h
  cases hs <;> (constructor <;> grind [q_push, q_pop, q_closed])

theorem InvB2.janitor {s s' : State} (h : InvB2 s)
    (hs : JanitorStep s s') : InvB2 s' := by
  obtain ⟨e1pq, e1hs, e1fin, e2, e3, e4, q, r2, r2', v2⟩ := h
  cases hs <;> (constructor <;> grind)

theorem InvB2.step {cfg : Cfg} {s s' : State} (hA : InvA cfg s) (h : InvB2 s)
    (hs : Step cfg s s') : InvB2 s' := by
  cases hs with
  | main h' => exact h.main hA h'
  | reader h' => exact h.reader h'
  | hasher i h' => exact h.hasher h'
  | janitor h' => exact h.janitor h'

end Torf.Pipeline
