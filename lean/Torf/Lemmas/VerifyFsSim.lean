/-
  Helper lemmas for C02 over the full alphabet of path states (part 2): the two-disk loop
  `step2 … dM dB` is the one-disk loop `step … dM` with the by-catch exceptions the stat-only
  probe (disk `dB`) does not confirm dropped; what this does to the reported exceptions.
-/
import Torf.Lemmas.VerifyFs
namespace Torf.VerifyFs
open Torf Torf.Missing Torf.Verify

variable {α : Type}

/-- keep the exception about the item's own file, and those a stat-only probe (disk `dB`) confirms -/
def keepExc (sizes : List Nat) (dB : List (Option (List α))) (file : Nat) (e : Nat × ErrKind) : Bool :=
  e.1 == file || (fileError sizes dB e.1).isSome

def dropSilent (sizes : List Nat) (dB : List (Option (List α))) (it : Item α) : Item α :=
  { it with excs := it.excs.filter (keepExc sizes dB it.file) }

/-- the by-catch disk never shows more damage than the main disk, and the same kind -/
def Weaker (sizes : List Nat) (dM dB : List (Option (List α))) : Prop :=
  ∀ k, fileError sizes dB k = fileError sizes dM k ∨ fileError sizes dB k = none

theorem dropSilent_data (sizes : List Nat) (dB : List (Option (List α))) (it : Item α) :
    (dropSilent sizes dB it).data = it.data := rfl

theorem dropSilent_dataItem (sizes : List Nat) (dB : List (Option (List α))) (p : List α) :
    dropSilent sizes dB (dataItem p) = dataItem p := rfl

theorem map_dropSilent_dataItem (sizes : List Nat) (dB : List (Option (List α)))
    (ps : List (List α)) :
    (ps.map dataItem).map (dropSilent sizes dB) = ps.map dataItem := by
  induction ps with
  | nil => rfl
  | cons p ps ih => simp only [List.map_cons, ih, dropSilent_dataItem]

/-! ### the by-catch probe on the weaker disk -/

theorem bycatchExcs_filter (sizes : List Nat) (dM dB : List (Option (List α)))
    (hw : Weaker sizes dM dB) (j : Nat) (by_ : List Nat) (hj : j ∉ by_) :
    (bycatchExcs sizes dM by_).filter (keepExc sizes dB j) = bycatchExcs sizes dB by_ := by
  induction by_ with
  | nil => rfl
  | cons k ks ih =>
    have hk : ¬ k = j := fun h => hj (h ▸ List.mem_cons_self)
    have ih' := ih (fun h => hj (List.mem_cons_of_mem _ h))
    unfold bycatchExcs at ih' ⊢
    simp only [List.filterMap_cons]
    rcases hw k with h | h
    · rw [h]
      cases hM : fileError sizes dM k with
      | none => simpa using ih'
      | some e =>
        simp only [Option.map_some, List.filter_cons, keepExc, h, hM, Option.isSome_some,
          Bool.or_true, if_true, ih']
    · rw [h]
      cases hM : fileError sizes dM k with
      | none => simpa using ih'
      | some e =>
        have hb : (k == j) = false := by simpa using hk
        simp only [Option.map_some, Option.map_none, List.filter_cons, keepExc, h, hb,
          Option.isSome_none, Bool.or_false, Bool.false_eq_true, if_false, ih']

theorem mkItems_dropSilent (sizes : List Nat) (dB : List (Option (List α))) (j : Nat)
    (reason : ErrKind) (count : Nat) (bM bB : List (Nat × ErrKind))
    (hb : bM.filter (keepExc sizes dB j) = bB) :
    (mkItems (α := α) j reason count bM).map (dropSilent sizes dB) = mkItems j reason count bB := by
  subst hb
  unfold mkItems
  have hself : keepExc sizes dB j (j, reason) = true := by simp [keepExc]
  by_cases h1 : count = 1
  · subst h1
    simp [dropSilent, hself]
  · by_cases h2 : count > 1
    · simp [dropSilent, hself, h1, h2]
    · simp [dropSilent, hself, h1, h2]

theorem nodup_filesAtByteRange (sizes : List Nat) (a b : Nat) :
    (filesAtByteRange sizes a b).Nodup := by
  unfold filesAtByteRange
  exact List.Nodup.sublist List.filter_sublist List.nodup_range

theorem not_mem_skipBy (L : Nat) (sizes : List Nat) (last j : Nat) (fs : List Nat)
    (hfs : filesAtPieceIndex L sizes last = some fs) :
    j ∉ (skipBy L sizes last (fs.erase j)).2 := by
  have hnd : fs.Nodup := by
    unfold filesAtPieceIndex at hfs
    simp only at hfs
    split at hfs
    · cases hfs
    · cases hfs; exact nodup_filesAtByteRange _ _ _
  have hne : j ∉ fs.erase j := fun h => ((hnd.mem_erase_iff).mp h).1 rfl
  unfold skipBy
  split
  · simp
  · simp only
    split
    · exact fun h => hne (List.dropLast_subset _ h)
    · exact hne

theorem missingCall_sim (L : Nat) (sizes : List Nat) (dM dB : List (Option (List α)))
    (hw : Weaker sizes dM dB) (seen by_ : List Nat) (j : Nat) (reason : ErrKind) :
    missingCall L sizes dB seen by_ j reason =
      (missingCall L sizes dM seen by_ j reason).map
        (fun r => { r with items := r.items.map (dropSilent sizes dB) }) := by
  cases hlast : (pyRemoveSeen seen (pieceIndexesOfFile L sizes j)).getLast? with
  | none =>
    unfold missingCall
    simp only [hlast]
    rfl
  | some last =>
    cases hfs : filesAtPieceIndex L sizes last with
    | none =>
      unfold missingCall
      simp only [hlast, hfs]
      rfl
    | some fs =>
      by_cases hmem : fs.contains j = true
      · rw [missingCall_eq L sizes dB seen by_ j reason _ last fs rfl hlast hfs hmem,
          missingCall_eq L sizes dM seen by_ j reason _ last fs rfl hlast hfs hmem]
        simp only [Option.map_some]
        rw [mkItems_dropSilent sizes dB j reason _ _ _
          (bycatchExcs_filter sizes dM dB hw j _ (not_mem_skipBy L sizes last j fs hfs))]
      · unfold missingCall
        simp only [hlast, hfs, hmem]
        rfl

/-! ### the loop -/

/-- the relation the simulation maintains -/
def Sim (sizes : List Nat) (dB : List (Option (List α))) (st1 st2 : St α) : Prop :=
  st2.trailing = st1.trailing ∧ st2.skip = st1.skip ∧ st2.seen = st1.seen ∧
    st2.bycatch = st1.bycatch ∧ st2.failed = st1.failed ∧
    st2.out = st1.out.map (dropSilent sizes dB)

theorem step2_sim (L : Nat) (sizes : List Nat) (dM dB : List (Option (List α)))
    (hw : Weaker sizes dM dB) (st1 st2 : St α) (j : Nat) (h : Sim sizes dB st1 st2) :
    Sim sizes dB (step L sizes dM st1 j) (step2 L sizes dM dB st2 j) := by
  obtain ⟨t1, k1, s1, b1, o1, f1⟩ := st1
  obtain ⟨t2, k2, s2, b2, o2, f2⟩ := st2
  obtain ⟨h1, h2, h3, h4, h5, h6⟩ := h
  simp only at h1 h2 h3 h4 h5 h6
  subst t2 k2 s2 b2 f2 o2
  unfold step step2
  simp only
  by_cases hf : f1 = true
  · simp only [hf, if_true]
    exact ⟨rfl, rfl, rfl, rfl, rfl, rfl⟩
  · simp only [hf, Bool.false_eq_true, if_false]
    by_cases hc : b1.contains j = true
    · simp only [hc, if_true]
      exact ⟨rfl, rfl, rfl, rfl, rfl, rfl⟩
    · simp only [hc, Bool.false_eq_true, if_false]
      cases hfe : fileError sizes dM j with
      | none =>
        simp only
        refine ⟨rfl, rfl, rfl, rfl, rfl, ?_⟩
        simp only [List.map_append, map_dropSilent_dataItem]
      | some reason =>
        simp only
        rw [missingCall_sim L sizes dM dB hw]
        cases missingCall L sizes dM s1 b1 j reason with
        | none => exact ⟨rfl, rfl, rfl, rfl, rfl, rfl⟩
        | some r =>
          simp only [Option.map_some]
          refine ⟨rfl, rfl, rfl, rfl, rfl, ?_⟩
          simp only [List.map_append]

/-- MAIN: the two-disk loop is the one-disk loop with the unconfirmed by-catch exceptions dropped -/
theorem fold_step2_sim (L : Nat) (sizes : List Nat) (dM dB : List (Option (List α)))
    (hw : Weaker sizes dM dB) (js : List Nat) (st1 st2 : St α)
    (h : st2.trailing = st1.trailing ∧ st2.skip = st1.skip ∧ st2.seen = st1.seen ∧
         st2.bycatch = st1.bycatch ∧ st2.failed = st1.failed ∧
         st2.out = st1.out.map (dropSilent sizes dB)) :
    let s2 := js.foldl (step2 L sizes dM dB) st2
    let s1 := js.foldl (step L sizes dM) st1
    s2.trailing = s1.trailing ∧ s2.skip = s1.skip ∧ s2.seen = s1.seen ∧
      s2.bycatch = s1.bycatch ∧ s2.failed = s1.failed ∧
      s2.out = s1.out.map (dropSilent sizes dB) := by
  induction js generalizing st1 st2 with
  | nil => exact h
  | cons j js ih =>
    simp only [List.foldl_cons]
    exact ih _ _ (step2_sim L sizes dM dB hw st1 st2 j h)

/-! ### what is reported -/

theorem reported_cons (it : Item α) (items : List (Item α)) :
    reported (it :: items) = it.excs ++ reported items := by
  unfold reported
  simp only [List.map_cons, List.flatten_cons]

/-- what is reported after dropping is a sublist of what was reported … -/
theorem reported_dropSilent_sublist (sizes : List Nat) (dB : List (Option (List α)))
    (items : List (Item α)) :
    (reported (items.map (dropSilent sizes dB))).Sublist (reported items) := by
  induction items with
  | nil => exact List.Sublist.refl _
  | cons it items ih =>
    rw [List.map_cons, reported_cons, reported_cons]
    exact List.Sublist.append List.filter_sublist ih

theorem badFiles_weaker (sizes : List Nat) (dM dB : List (Option (List α)))
    (hw : Weaker sizes dM dB) :
    badFiles sizes dB =
      (badFiles sizes dM).filter (fun e => (fileError sizes dB e.1).isSome) := by
  unfold badFiles
  induction List.range sizes.length with
  | nil => rfl
  | cons k ks ih =>
    simp only [List.filterMap_cons]
    rcases hw k with h | h
    · cases hM : fileError sizes dM k with
      | none => rw [hM] at h; simp only [h, Option.map_none]; exact ih
      | some e =>
        rw [hM] at h
        simp only [h, Option.map_some, List.filter_cons, Option.isSome_some, if_true, ih]
    · cases hM : fileError sizes dM k with
      | none => simp only [h, Option.map_none]; exact ih
      | some e =>
        simp only [h, Option.map_some, Option.map_none, List.filter_cons, Option.isSome_none,
          Bool.false_eq_true, if_false, ih]

theorem filter_isSome_sublist (sizes : List Nat) (dB : List (Option (List α))) (file : Nat)
    (l : List (Nat × ErrKind)) :
    (l.filter (fun e => (fileError sizes dB e.1).isSome)).Sublist
      (l.filter (keepExc sizes dB file)) := by
  induction l with
  | nil => exact List.Sublist.refl _
  | cons e l ih =>
    simp only [List.filter_cons, keepExc]
    by_cases hs : (fileError sizes dB e.1).isSome = true
    · simp only [hs, Bool.or_true, if_true]
      exact ih.cons_cons _
    · simp only [hs, Bool.false_eq_true, if_false, Bool.or_false]
      by_cases he : (e.1 == file) = true
      · simp only [he, if_true]
        exact ih.cons _
      · simp only [he, Bool.false_eq_true, if_false]
        exact ih

theorem filter_reported_sublist (sizes : List Nat) (dB : List (Option (List α)))
    (items : List (Item α)) :
    ((reported items).filter (fun e => (fileError sizes dB e.1).isSome)).Sublist
      (reported (items.map (dropSilent sizes dB))) := by
  induction items with
  | nil => exact List.Sublist.refl _
  | cons it items ih =>
    rw [List.map_cons, reported_cons, reported_cons, List.filter_append]
    exact List.Sublist.append (filter_isSome_sublist sizes dB it.file it.excs) ih

/-- … and still contains every file that is bad on the by-catch disk -/
theorem badFiles_sublist_reported (sizes : List Nat) (dM dB : List (Option (List α)))
    (hw : Weaker sizes dM dB) (items : List (Item α))
    (hrep : reported items = badFiles sizes dM) :
    (badFiles sizes dB).Sublist (reported (items.map (dropSilent sizes dB))) := by
  rw [badFiles_weaker sizes dM dB hw, ← hrep]
  exact filter_reported_sublist sizes dB items

end Torf.VerifyFs
