/-
  Lemmas about the insertion sort used by `ser` / `encodeDict` and about key order.
-/
import Torf.Model.Bencode
namespace Torf.Bencode

theorem isort_of_sorted (le : α → α → Bool) (l : List α)
    (h : l.Pairwise (fun a b => le a b = true)) : isort le l = l := by
  induction l with
  | nil => rfl
  | cons a t ih =>
    rw [List.pairwise_cons] at h
    simp only [isort, ih h.2]
    cases t with
    | nil => rfl
    | cons b t' => simp [insertBy, h.1 b (by simp)]

theorem insertBy_perm (le : α → α → Bool) (a : α) (l : List α) : (insertBy le a l).Perm (a :: l) := by
  induction l with
  | nil => exact List.Perm.refl _
  | cons b t ih =>
    simp only [insertBy]
    split
    · exact List.Perm.refl _
    · exact (List.Perm.cons b ih).trans (List.Perm.swap a b t)

theorem isort_perm (le : α → α → Bool) (l : List α) : (isort le l).Perm l := by
  induction l with
  | nil => exact List.Perm.refl _
  | cons a t ih => exact (insertBy_perm le a _).trans (List.Perm.cons a ih)

theorem insertBy_sorted (le : α → α → Bool)
    (htot : ∀ a b, le a b = true ∨ le b a = true)
    (htr : ∀ a b c, le a b = true → le b c = true → le a c = true)
    (a : α) (l : List α) (h : l.Pairwise (fun a b => le a b = true)) :
    (insertBy le a l).Pairwise (fun a b => le a b = true) := by
  induction l with
  | nil => simp [insertBy]
  | cons b t ih =>
    rw [List.pairwise_cons] at h
    simp only [insertBy]
    split
    · rename_i hab
      rw [List.pairwise_cons]
      refine ⟨fun x hx => ?_, List.pairwise_cons.mpr h⟩
      rcases List.mem_cons.mp hx with rfl | hx
      · exact hab
      · exact htr _ _ _ hab (h.1 x hx)
    · rename_i hab
      have hba : le b a = true := by
        rcases htot a b with h1 | h1
        · exact absurd h1 hab
        · exact h1
      rw [List.pairwise_cons]
      refine ⟨fun x hx => ?_, ih h.2⟩
      have := (insertBy_perm le a t).subset hx
      rcases List.mem_cons.mp this with rfl | hx'
      · exact hba
      · exact h.1 x hx'

theorem isort_sorted (le : α → α → Bool)
    (htot : ∀ a b, le a b = true ∨ le b a = true)
    (htr : ∀ a b c, le a b = true → le b c = true → le a c = true)
    (l : List α) : (isort le l).Pairwise (fun a b => le a b = true) := by
  induction l with
  | nil => simp [isort]
  | cons a t ih => exact insertBy_sorted le htot htr a _ ih

theorem isort_idem (le : α → α → Bool)
    (htot : ∀ a b, le a b = true ∨ le b a = true)
    (htr : ∀ a b c, le a b = true → le b c = true → le a c = true)
    (l : List α) : isort le (isort le l) = isort le l :=
  isort_of_sorted le _ (isort_sorted le htot htr l)

/-- sorting commutes with a map that preserves the order relation -/
theorem insertBy_map (le : α → α → Bool) (le' : β → β → Bool) (f : α → β)
    (hf : ∀ a b, le' (f a) (f b) = le a b) (a : α) (l : List α) :
    insertBy le' (f a) (l.map f) = (insertBy le a l).map f := by
  induction l with
  | nil => rfl
  | cons b t ih =>
    simp only [List.map_cons, insertBy, hf]
    split
    · simp
    · simp [ih]

theorem isort_map (le : α → α → Bool) (le' : β → β → Bool) (f : α → β)
    (hf : ∀ a b, le' (f a) (f b) = le a b) (l : List α) :
    isort le' (l.map f) = (isort le l).map f := by
  induction l with
  | nil => rfl
  | cons a t ih => simp only [List.map_cons, isort, ih, insertBy_map le le' f hf]

/-- two sorted permutations of each other coincide when the order is antisymmetric on them -/
theorem isort_eq_of_perm (le : α → α → Bool)
    (htot : ∀ a b, le a b = true ∨ le b a = true)
    (htr : ∀ a b c, le a b = true → le b c = true → le a c = true)
    (l l' : List α) (hp : l.Perm l')
    (hanti : ∀ a b, a ∈ l → b ∈ l → le a b = true → le b a = true → a = b) :
    isort le l = isort le l' := by
  have h1 := isort_sorted le htot htr l
  have h2 := isort_sorted le htot htr l'
  have hperm : (isort le l).Perm (isort le l') :=
    (isort_perm le l).trans (hp.trans (isort_perm le l').symm)
  apply List.Perm.eq_of_pairwise (le := fun a b => le a b = true) _ h1 h2 hperm
  intro a b ha hb hab hba
  have ha' : a ∈ l := (isort_perm le l).subset ha
  have hb' : b ∈ l := hp.symm.subset ((isort_perm le l').subset hb)
  exact hanti a b ha' hb' hab hba

/-! ### raw byte order on keys -/

theorem keyLe_total {β : Type} (a b : Bytes × β) : keyLe a b = true ∨ keyLe b a = true := by
  simp only [keyLe, decide_eq_true_eq]; exact List.le_total a.1 b.1

theorem keyLe_trans {β : Type} (a b c : Bytes × β) (h1 : keyLe a b = true) (h2 : keyLe b c = true) :
    keyLe a c = true := by
  simp only [keyLe, decide_eq_true_eq] at *; exact List.le_trans h1 h2

theorem keysAsc_pairwise (ks : List Bytes) (h : keysAsc ks = true) : ks.Pairwise (· < ·) := by
  induction ks with
  | nil => exact List.Pairwise.nil
  | cons a t ih =>
    cases t with
    | nil => simp
    | cons b t' =>
      simp only [keysAsc, Bool.and_eq_true, decide_eq_true_eq] at h
      have iht := ih h.2
      rw [List.pairwise_cons]
      refine ⟨fun x hx => ?_, iht⟩
      rcases List.mem_cons.mp hx with rfl | hx
      · exact h.1
      · exact List.lt_trans h.1 ((List.pairwise_cons.mp iht).1 x hx)

theorem pairwise_keysAsc (ks : List Bytes) (h : ks.Pairwise (· < ·)) : keysAsc ks = true := by
  induction ks with
  | nil => rfl
  | cons a t ih =>
    cases t with
    | nil => rfl
    | cons b t' =>
      rw [List.pairwise_cons] at h
      simp only [keysAsc, Bool.and_eq_true, decide_eq_true_eq]
      exact ⟨h.1 b (by simp), ih h.2⟩

theorem keysAsc_nodup (ks : List Bytes) (h : keysAsc ks = true) : ks.Nodup := by
  have := keysAsc_pairwise ks h
  exact this.imp (fun hab heq => by subst heq; exact List.lt_irrefl _ hab)

theorem bytes_lt_le {a b : Bytes} (h : a < b) : a ≤ b := List.le_of_lt h

end Torf.Bencode
