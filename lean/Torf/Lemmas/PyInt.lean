/-
  Lemmas about `int()` on ASCII strings (Torf/Model/PyInt.lean): what the body parser returns are
  exactly the digit characters of the string, so the digit limit is a property of the string.
-/
import Torf.Model.PyInt
namespace Torf.Untrusted

theorem not_digit_of_space {c : Char} (h : isCSpace c = true) : isAsciiDigit c = false := by
  unfold isCSpace at h
  unfold isAsciiDigit
  simp only [Bool.or_eq_true, Bool.and_eq_true, decide_eq_true_eq, beq_iff_eq] at h
  cases hd : (decide (48 ≤ c.toNat) && decide (c.toNat ≤ 57)) with
  | false => rfl
  | true =>
    simp only [Bool.and_eq_true, decide_eq_true_eq] at hd
    omega

theorem intBodyTail_digits : ∀ (l acc ds : List Char), intBodyTail l acc = some ds →
    ds = acc.reverse ++ l.filter isAsciiDigit := by
  intro l acc
  fun_induction intBodyTail l acc <;> intro ds h
  case case1 => cases h; simp
  case case2 hc ih => rw [ih ds h]; simp [hc]
  case case3 hc hu _ _ hd ih =>
    have hc' := hc
    rw [ih ds h]; simp [hc', hd]
  all_goals cases h

theorem intBody_digits (b ds : List Char) (h : intBody b = some ds) : ds = b.filter isAsciiDigit := by
  cases b with
  | nil => cases h
  | cons c rest =>
    simp only [intBody] at h
    by_cases hc : isAsciiDigit c = true
    · rw [if_pos hc] at h
      have := intBodyTail_digits rest [c] ds h
      simpa [List.filter_cons, hc] using this
    · rw [if_neg hc] at h; cases h

theorem lstripC_filter : ∀ (s : List Char), (lstripC s).filter isAsciiDigit = s.filter isAsciiDigit := by
  intro s
  induction s with
  | nil => rfl
  | cons c cs ih =>
    unfold lstripC
    by_cases h : isCSpace c = true
    · simp only [h, if_true, List.filter_cons, not_digit_of_space h]; simpa using ih
    · simp [h]

theorem strip_filter (s : List Char) :
    ((lstripC (lstripC s).reverse).reverse).filter isAsciiDigit = s.filter isAsciiDigit := by
  rw [List.filter_reverse, lstripC_filter, ← List.filter_reverse, List.reverse_reverse, lstripC_filter]

/-- the digits `intSigned` counts are the digit characters of its argument -/
theorem intSigned_limit (lim : Nat) (t : List Char) (h : lim < (t.filter isAsciiDigit).length) :
    intSigned lim t = none := by
  have hm : isAsciiDigit '-' = false := by decide
  have hp : isAsciiDigit '+' = false := by decide
  have key : ∀ b, b.filter isAsciiDigit = t.filter isAsciiDigit →
      (match intBody b with
       | none => (none : Option Int)
       | some ds => if ds.length > lim then none
                    else some (if (match t with | '-' :: _ => true | _ => false) then -(digitsValue ds : Int)
                               else (digitsValue ds : Int))) = none := by
    intro b hb
    cases hds : intBody b with
    | none => rfl
    | some ds =>
      have := intBody_digits b ds hds
      dsimp only
      rw [if_pos]
      rw [this, hb]; exact h
  unfold intSigned
  apply key
  split
  · simp [hm]
  · simp [hp]
  · rfl

theorem pyIntAscii_limit (lim : Nat) (s : List Char) (h : lim < (s.filter isAsciiDigit).length) :
    pyIntAscii lim s = none := by
  unfold pyIntAscii
  exact intSigned_limit lim _ (by rw [strip_filter]; exact h)

end Torf.Untrusted
