/-
  Torf.Lemmas.Write — normal forms of the stream computations of `Torf.Model.Write`: the monadic,
  code-shaped `writeStreamBody` equals a flat decision tree over the stream's flags and fault plan.
-/
import Torf.Spec.Write
namespace Torf.Write
open Torf Torf.Export

theorem accepts_le (s : Stream) (n : Nat) : s.accepts n ≤ n := by
  unfold Stream.accepts; split <;> omega

theorem env_accepts_le (e : Env) (n : Nat) : e.accepts n ≤ n := by
  unfold Env.accepts; split <;> omega

theorem writeB_eq (b : Bytes) (s : Stream) :
    writeB b s =
      if s.faultAt = some s.calls then (.error .os, { s with calls := s.calls + 1 })
      else if s.text then (.error .type, { s with calls := s.calls + 1 })
      else if s.readOnly then (.error .os, { s with calls := s.calls + 1 })
      else
        (if s.accepts b.length < b.length && !s.short then .error .os else .ok (),
         { ({ s with calls := s.calls + 1 } : Stream).put (b.take (s.accepts b.length)) with
             quota := s.quota.map (· - s.accepts b.length) }) := by
  obtain ⟨content, pos, seekable, append, readOnly, text, calls, faultAt, quota, short⟩ := s
  simp only [writeB, enter, bind, SM.bind]
  by_cases h0 : faultAt = some calls
  · simp [h0]
  · cases text <;> cases readOnly <;> cases quota <;> cases short <;> simp [h0, Stream.accepts]
    rename_i q; by_cases hk : min q b.length < b.length <;> simp [hk]

theorem writeStreamBody_eq (c : Bytes) (s : Stream) :
    writeStreamBody c s =
      if s.faultAt = some s.calls then (.error .os, { s with calls := s.calls + 1 })
      else if s.seekable then
        if s.faultAt = some (s.calls + 1) then (.error .os, { s with calls := s.calls + 2 })
        else if s.faultAt = some (s.calls + 2) then (.error .os, { s with calls := s.calls + 3, pos := 0 })
        else if s.readOnly then (.error .os, { s with calls := s.calls + 3, pos := 0 })
        else writeB c { s with calls := s.calls + 3, pos := 0, content := [] }
      else writeB c { s with calls := s.calls + 1 } := by
  obtain ⟨content, pos, seekable, append, readOnly, text, calls, faultAt, quota, short⟩ := s
  simp only [writeStreamBody, seekableQ, seek0, truncate, enter, bind, SM.bind]
  by_cases h0 : faultAt = some calls
  · simp [h0]
  · cases seekable
    · simp [h0]
    · by_cases h1 : faultAt = some (calls + 1)
      · simp [h1, SM.bind, enter]
      · by_cases h2 : faultAt = some (calls + 2)
        · simp [h2, SM.bind, enter]
        · cases readOnly <;> simp [h0, h1, h2, SM.bind, enter, resize]

/-- `write_stream` after a successful `dump`, as a flat decision tree: which call fails, with
    what, and the stream object afterwards.  `k` bytes of the new content are accepted. -/
theorem writeStream_ok_eq (c : Bytes) (s : Stream) :
    writeStream (.ok c) s =
      let k := s.accepts c.length
      if s.faultAt = some s.calls then (.error .write, { s with calls := s.calls + 1 })        -- seekable()
      else if s.seekable then
        if s.faultAt = some (s.calls + 1) then (.error .write, { s with calls := s.calls + 2 })  -- seek(0)
        else if s.faultAt = some (s.calls + 2) then                                              -- truncate(0)
          (.error .write, { s with calls := s.calls + 3, pos := 0 })
        else if s.readOnly then (.error .write, { s with calls := s.calls + 3, pos := 0 })
        else if s.faultAt = some (s.calls + 3) then                                              -- write(content)
          (.error .write, { s with calls := s.calls + 4, pos := 0, content := [] })
        else if s.text then
          (.error (.internal "TypeError"), { s with calls := s.calls + 4, pos := 0, content := [] })
        else if k < c.length ∧ s.short = false then
          (.error .write, { s with calls := s.calls + 4, pos := k, content := c.take k, quota := s.quota.map (· - k) })
        else
          (.ok (), { s with calls := s.calls + 4, pos := k, content := c.take k, quota := s.quota.map (· - k) })
      else
        if s.faultAt = some (s.calls + 1) then (.error .write, { s with calls := s.calls + 2 })  -- write(content)
        else if s.text then (.error (.internal "TypeError"), { s with calls := s.calls + 2 })
        else if s.readOnly then (.error .write, { s with calls := s.calls + 2 })
        else if k < c.length ∧ s.short = false then
          (.error .write, { s with calls := s.calls + 2, content := s.content ++ c.take k, quota := s.quota.map (· - k) })
        else
          (.ok (), { s with calls := s.calls + 2, content := s.content ++ c.take k, quota := s.quota.map (· - k) }) := by
  obtain ⟨content, pos, seekable, append, readOnly, text, calls, faultAt, quota, short⟩ := s
  have hacc : ∀ ct ps sk cl, (Stream.accepts ⟨ct, ps, sk, append, readOnly, text, cl, faultAt, quota, short⟩ c.length) =
      Stream.accepts ⟨content, pos, seekable, append, readOnly, text, calls, faultAt, quota, short⟩ c.length :=
    fun _ _ _ _ => rfl
  simp only [writeStream, writeStreamBody_eq, writeB_eq, hacc]
  have hle := accepts_le ⟨content, pos, seekable, append, readOnly, text, calls, faultAt, quota, short⟩ c.length
  generalize Stream.accepts ⟨content, pos, seekable, append, readOnly, text, calls, faultAt, quota, short⟩ c.length = k at hle ⊢
  clear hacc
  by_cases h0 : faultAt = some calls
  · simp [h0]
  · cases seekable
    · by_cases h1 : faultAt = some (calls + 1)
      · simp [h1]
      · cases text <;> cases readOnly <;> cases short <;> by_cases hk : k < c.length <;>
          simp [h0, h1, hk, Stream.put]
    · by_cases h1 : faultAt = some (calls + 1)
      · simp [h1]
      · by_cases h2 : faultAt = some (calls + 2)
        · simp [h2]
        · cases readOnly
          · by_cases h3 : faultAt = some (calls + 3)
            · simp [h3]
            · cases text <;> cases append <;> cases short <;> by_cases hk : k < c.length <;>
                simp [h0, h1, h2, h3, hk, Stream.put, writeAt, Nat.min_eq_left hle]
          · simp [h0, h1, h2]

/-- the in-memory buffer `write` dumps into: a fresh `BytesIO` never fails -/
theorem writeStream_fresh (c : Bytes) :
    writeStream (.ok c) { content := [], pos := 0 } =
      (.ok (), { content := c, pos := c.length, calls := 4 }) := by
  simp [writeStream_ok_eq, Stream.accepts]

/-- `write` as a flat decision tree -/
theorem write_eq (d : Except ErrKind Bytes) (ov : Bool) (t : Target) :
    write d ov t =
      if !ov && t.env.existsAns then (.error .write, t, [.existsCheck])
      else
        let log0 := if ov then [] else [Eff.existsCheck]
        match d with
        | .error e => (.error e, t, log0 ++ [.dump])
        | .ok c =>
          if t.openFails then (.error .write, t, log0 ++ [.dump, .open_])
          else
            let t' := { t with node := t.node.store (c.take (t.env.accepts c.length)) }
            if t.env.accepts c.length < c.length then (.error .write, t', log0 ++ [.dump, .open_, .writeFile])
            else if t.env.closeErr then (.error .write, t', log0 ++ [.dump, .open_, .writeFile])
            else (.ok (), t', log0 ++ [.dump, .open_, .writeFile]) := by
  unfold write
  split
  · rfl
  · cases d with
    | error e => simp [writeStream]
    | ok c => simp [writeStream_fresh]

/-- writing into an emptied seekable stream at position 0, or appending to an empty one -/
theorem writeAt_nil (b : Bytes) : writeAt [] 0 b = b := by simp [writeAt]

theorem resEq_error {r : Except ErrKind Unit} {e : ErrKind} (h : resEq r (.error e) = true) :
    r = .error e := by
  cases r <;> simp_all [resEq]

theorem target_ext {t t' : Target} (hn : t'.node = t.node) (he : t'.env = t.env) : t' = t := by
  cases t; cases t'; simp_all

end Torf.Write
