/-
  Helper lemmas for C18 (renaming): path resolution and everything the search asks the operating
  system commute with a renaming of directory entries and link targets (`Renaming ρ`).
-/
import Torf.Model.ReuseLinks
import Torf.Lemmas.ReuseSearch
namespace Torf.Reuse
open Torf.Paths (PPath)

/-- looking up a renamed name among renamed entries -/
theorem lookup_rename (ρ : String → String) (hinj : ∀ a b, ρ a = ρ b → a = b) (c : String)
    (es : List (String × Nat)) :
    List.lookup (ρ c) (es.map fun e => (ρ e.1, e.2)) = es.lookup c := by
  induction es with
  | nil => rfl
  | cons e es ih =>
    obtain ⟨k, v⟩ := e
    by_cases h : c = k
    · subst h; simp [List.lookup]
    · have h' : ρ c ≠ ρ k := fun e => h (hinj _ _ e)
      have hb : (ρ c == ρ k) = false := by simp [h']
      have hb2 : (c == k) = false := by simp [h]
      simp only [List.map_cons, List.lookup_cons, hb, hb2]
      exact ih

theorem Renaming.beq_empty {ρ : String → String} (hρ : Renaming ρ) (c : String) :
    (ρ c == "") = (c == "") := by
  rw [Bool.eq_iff_iff]; simp [hρ.empty]

theorem Renaming.beq_dot {ρ : String → String} (hρ : Renaming ρ) (c : String) :
    (ρ c == ".") = (c == ".") := by
  rw [Bool.eq_iff_iff]; simp [hρ.dot]

theorem Renaming.beq_dotdot {ρ : String → String} (hρ : Renaming ρ) (c : String) :
    (ρ c == "..") = (c == "..") := by
  rw [Bool.eq_iff_iff]; simp [hρ.dotdot]

/-- a link target under other names -/
def renameTarget (ρ : String → String) (t : PPath) : PPath := { t with comps := t.comps.map ρ }

/-- the outcome of a walk up to the next link, under other names -/
def Walk.rename (ρ : String → String) : Walk → Walk
  | .done l => .done l
  | .err e => .err e
  | .follow st t r => .follow st (renameTarget ρ t) (r.map ρ)

theorem renameFS_getElem? (ρ : String → String) (fs : FS) (i : Nat) :
    (renameFS ρ fs)[i]? = (fs[i]?).map (renameNode ρ) := by
  simp [renameFS]

theorem walk1_rename {ρ : String → String} (hρ : Renaming ρ) (fs : FS) (cs : List String) :
    ∀ st : List Nat, walk1 (renameFS ρ fs) st (cs.map ρ) = (walk1 fs st cs).rename ρ := by
  induction cs with
  | nil => intro st; simp [walk1, Walk.rename]
  | cons c cs ih =>
    intro st
    simp only [List.map_cons, walk1.eq_2, hρ.beq_empty, hρ.beq_dot, hρ.beq_dotdot,
      renameFS_getElem?]
    by_cases hc : (c == "") = true
    · simp only [hc, if_true]; exact ih st
    · simp only [hc, Bool.false_eq_true, if_false]
      cases hn : fs[curIno st]? with
      | none => simp [Walk.rename]
      | some nd =>
        cases nd with
        | file _ _ _ => simp [Walk.rename, renameNode]
        | link _ => simp [Walk.rename, renameNode]
        | dir r x entries =>
          simp only [Option.map_some, renameNode]
          by_cases hx : x = true
          · simp only [hx, Bool.not_true, Bool.false_eq_true, if_false]
            by_cases hd : (c == ".") = true
            · simp only [hd, if_true]; exact ih st
            · simp only [hd, Bool.false_eq_true, if_false]
              by_cases hdd : (c == "..") = true
              · simp only [hdd, if_true]; exact ih st.tail
              · simp only [hdd, Bool.false_eq_true, if_false, lookup_rename ρ hρ.inj]
                cases hl : entries.lookup c with
                | none => simp [Walk.rename]
                | some ino =>
                  simp only
                  cases hi : fs[ino]? with
                  | none => simp [Walk.rename]
                  | some nd2 =>
                    cases nd2 with
                    | dir _ _ _ => simp only [Option.map_some, renameNode]; exact ih (ino :: st)
                    | link _ => simp [Walk.rename, renameNode, renameTarget]
                    | file _ _ _ =>
                      simp only [Option.map_some, renameNode]
                      cases cs with
                      | nil => simp [Walk.rename]
                      | cons _ _ => simp [Walk.rename]
          · simp [hx, Walk.rename]

theorem walk_rename {ρ : String → String} (hρ : Renaming ρ) (fs : FS) :
    ∀ (n : Nat) (st : List Nat) (cs : List String),
      walk (renameFS ρ fs) n st (cs.map ρ) = walk fs n st cs := by
  intro n
  induction n with
  | zero =>
    intro st cs
    unfold walk
    rw [walk1_rename hρ]
    cases walk1 fs st cs <;> rfl
  | succ m ih =>
    intro st cs
    unfold walk
    rw [walk1_rename hρ]
    cases walk1 fs st cs with
    | done l => rfl
    | err e => rfl
    | follow s t r =>
      simp only [Walk.rename, renameTarget, ← List.map_append]
      exact ih _ _

theorem resolve_rename {ρ : String → String} (hρ : Renaming ρ) (w : World) (p : PPath) :
    resolve (renameWorld ρ w) (renamePath ρ p) = resolve w p := by
  obtain ⟨a, cs⟩ := p
  unfold resolve
  simp only [renameWorld, renamePath, walk_rename hρ]
  cases cs with
  | nil => rfl
  | cons c cs => simp only [List.map_cons, List.headD_cons, hρ.beq_empty]; rfl

theorem isdir_rename {ρ : String → String} (hρ : Renaming ρ) (w : World) (p : PPath) :
    isdir (renameWorld ρ w) (renamePath ρ p) = isdir w p := by
  unfold isdir; rw [resolve_rename hρ]

theorem pexists_rename {ρ : String → String} (hρ : Renaming ρ) (w : World) (p : PPath) :
    pexists (renameWorld ρ w) (renamePath ρ p) = pexists w p := by
  unfold pexists; rw [resolve_rename hρ]

theorem getsize_rename {ρ : String → String} (hρ : Renaming ρ) (w : World) (p : PPath) :
    getsize (renameWorld ρ w) (renamePath ρ p) = getsize w p := by
  unfold getsize; rw [resolve_rename hρ]
  cases resolve w p with
  | error e => rfl
  | ok l =>
    cases l with
    | dir st => rfl
    | file ino =>
      simp only [renameWorld, renameFS_getElem?]
      cases hi : w.fs[ino]? with
      | none => rfl
      | some nd => cases nd <;> rfl

/-- a listing under other names -/
def renameListing (ρ : String → String) : Except OsErr (List String) → Except OsErr (List String)
  | .ok names => .ok (names.map ρ)
  | .error e => .error e

theorem listdir_rename {ρ : String → String} (hρ : Renaming ρ) (w : World) (p : PPath) :
    listdir (renameWorld ρ w) (renamePath ρ p) = renameListing ρ (listdir w p) := by
  unfold listdir; rw [resolve_rename hρ]
  cases resolve w p with
  | error e => rfl
  | ok l =>
    cases l with
    | file ino => rfl
    | dir st =>
      simp only [renameWorld, renameFS_getElem?]
      cases hi : w.fs[curIno st]? with
      | none => rfl
      | some nd =>
        cases nd with
        | file _ _ _ => rfl
        | link _ => rfl
        | dir r x es =>
          cases r with
          | false => rfl
          | true => simp [renameNode, renameListing, List.map_map, Function.comp_def]

theorem renamePath_push (ρ : String → String) (p : PPath) (n : String) :
    renamePath ρ (push p n) = push (renamePath ρ p) (ρ n) := by
  simp [renamePath, push]

theorem isTorrentName_basename_rename {ρ : String → String} (hρ : Renaming ρ) (p : PPath) :
    isTorrentName (basename (renamePath ρ p)) = isTorrentName (basename p) := by
  unfold basename renamePath
  simp only [List.getLast?_map]
  cases p.comps.getLast? with
  | none => rfl
  | some c => simp [hρ.suffix]

theorem readAt_rename {ρ : String → String} (hρ : Renaming ρ) (w : World) (p : PPath) :
    readAt (renameWorld ρ w) (renamePath ρ p) = readAt w p := by
  unfold readAt; rw [resolve_rename hρ]
  cases resolve w p with
  | error e => rfl
  | ok l =>
    cases l with
    | dir st => rfl
    | file ino =>
      simp only [renameWorld, renameFS_getElem?]
      cases hi : w.fs[ino]? with
      | none => rfl
      | some nd =>
        cases nd with
        | file _ r _ => cases r <;> rfl
        | link _ => rfl
        | dir _ _ _ => rfl

theorem toItem_rename {ρ : String → String} (hρ : Renaming ρ) (w : World) (x : Found) :
    Found.toItem (renameWorld ρ w) (x.rename ρ) = Found.toItem w x := by
  cases x with
  | pathError p => rfl
  | overflow => rfl
  | tfile p ok => simp only [Found.rename, Found.toItem, readAt_rename hρ]

theorem overflow_mem_rename (ρ : String → String) (l : List Found) :
    Found.overflow ∈ l.map (Found.rename ρ) ↔ Found.overflow ∈ l := by
  simp only [List.mem_map]
  constructor
  · rintro ⟨x, hx, he⟩
    cases x with
    | overflow => exact hx
    | pathError p => cases he
    | tfile p ok => cases he
  · intro h; exact ⟨_, h, rfl⟩

/-! ### branching: a lower bound on what the search yields -/

theorem length_flatMap_sublist {α β : Type} (f : α → List β) {l₁ l₂ : List α} (h : l₁.Sublist l₂) :
    (l₁.flatMap f).length ≤ (l₂.flatMap f).length := by
  induction h with
  | slnil => simp
  | cons a _ ih => simp only [List.flatMap_cons, List.length_append]; omega
  | cons_cons a _ ih => simp only [List.flatMap_cons, List.length_append]; omega

/-- the search of a directory yields at least what it yields for two of the listed names -/
theorem find_two_branches (w : World) (fuel : Nat) (p : PPath) (a b : String) (listing : List String)
    (hd : isdir w p = true) (hl : listdir w p = .ok listing) (hab : [a, b].Sublist listing) :
    (find w fuel (push p a)).length + (find w fuel (push p b)).length ≤ (find w (fuel + 1) p).length := by
  have h := length_flatMap_sublist (fun n => find w fuel (push p n)) hab
  simp only [List.flatMap_cons, List.flatMap_nil, List.append_nil, List.length_append] at h
  have e : find w (fuel + 1) p = listing.flatMap fun n => find w fuel (push p n) := by
    rw [find.eq_2]; simp only [hd, if_true, hl]
  rw [e]
  exact h

/-- **a family of spellings that branches twice per level**: `G m p` = "`p` is in the family with
    `m` levels to go"; every member is a directory whose listing holds `a` before `b`; with levels
    to go, `p/a` and `p/b` are members; a member with no level to go still yields something.
    Then a member with `m` levels to go yields at least `2^m` items. -/
theorem find_branching (w : World) (a b : String) (listing : List String)
    (hab : [a, b].Sublist listing) (G : Nat → PPath → Prop)
    (hdir : ∀ m p, G m p → isdir w p = true ∧ listdir w p = .ok listing)
    (hstep : ∀ m p, G (m + 1) p → G m (push p a) ∧ G m (push p b))
    (hbase : ∀ p fuel, G 0 p → 1 ≤ (find w fuel p).length) :
    ∀ (m fuel : Nat) (p : PPath), G m p → m < fuel → 2 ^ m ≤ (find w fuel p).length := by
  intro m
  induction m with
  | zero => intro fuel p hg _; exact hbase p fuel hg
  | succ m ih =>
    intro fuel p hg hf
    cases fuel with
    | zero => omega
    | succ f =>
      obtain ⟨hd, hl⟩ := hdir _ _ hg
      obtain ⟨ga, gb⟩ := hstep _ _ hg
      have h1 := ih f _ ga (by omega)
      have h2 := ih f _ gb (by omega)
      have h3 := find_two_branches w f p a b listing hd hl hab
      rw [Nat.pow_succ]
      omega

end Torf.Reuse
