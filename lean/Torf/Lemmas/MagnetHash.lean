/-
  Helper lemmas for C14 (patterns, digits, base conversion).
-/
import Torf.Spec.MagnetHash
namespace Torf.Magnet

/-! ### patterns -/

theorem repeatExact_eq_some (p : Char → Bool) (n : Nat) (cs rest : Str) :
    repeatExact p n cs = some rest ↔
      n ≤ cs.length ∧ (cs.take n).all p = true ∧ rest = cs.drop n := by
  induction n generalizing cs with
  | zero => simp [repeatExact, eq_comm]
  | succ n ih =>
    cases cs with
    | nil => simp [repeatExact]
    | cons c cs =>
      simp only [repeatExact]
      split
      · rename_i hc
        rw [ih]
        simp [hc]
      · rename_i hc
        simp [hc]

theorem repeatExact_end (p : Char → Bool) (n : Nat) (cs : Str) :
    (∃ rest, repeatExact p n cs = some rest ∧ rest.isEmpty = true) ↔
      (cs.length = n ∧ cs.all p = true) := by
  constructor
  · rintro ⟨rest, h, he⟩
    rw [repeatExact_eq_some] at h
    obtain ⟨h1, h2, h3⟩ := h
    subst h3
    have : cs.length ≤ n := by simpa [List.drop_eq_nil_iff] using he
    have hn : cs.length = n := by omega
    refine ⟨hn, ?_⟩
    rw [List.take_of_length_le (by omega)] at h2
    exact h2
  · rintro ⟨h1, h2⟩
    refine ⟨cs.drop n, ?_, ?_⟩
    · rw [repeatExact_eq_some]
      refine ⟨by omega, ?_, rfl⟩
      rw [List.take_of_length_le (by omega)]; exact h2
    · simp [List.drop_eq_nil_iff]; omega

theorem altEnd_eq_some (p : Char → Bool) (n : Nat) (cs g : Str) :
    altEnd p n cs = some g ↔ g = cs ∧ cs.length = n ∧ cs.all p = true := by
  have e := repeatExact_end p n cs
  unfold altEnd
  cases h : repeatExact p n cs with
  | none =>
    simp only [reduceCtorEq, false_iff]
    rintro ⟨_, hh⟩
    obtain ⟨r, hr, _⟩ := e.mpr hh
    rw [h] at hr; cases hr
  | some r =>
    by_cases he : r.isEmpty = true
    · have hh := e.mp ⟨r, h, he⟩
      simp only [he, if_true, Option.some.injEq]
      rw [List.take_of_length_le (by omega)]
      constructor
      · intro x; exact ⟨x.symm, hh⟩
      · intro x; exact x.1.symm
    · simp only [he, if_false, reduceCtorEq, false_iff]
      rintro ⟨_, hh⟩
      obtain ⟨r', hr, he'⟩ := e.mpr hh
      rw [h] at hr; cases hr; exact he he'

theorem altEnd_eq_none (p : Char → Bool) (n : Nat) (cs : Str) :
    altEnd p n cs = none ↔ ¬ (cs.length = n ∧ cs.all p = true) := by
  cases h : altEnd p n cs with
  | none =>
    simp only [true_iff]
    intro hh
    have := (altEnd_eq_some p n cs cs).mpr ⟨rfl, hh⟩
    rw [h] at this; cases this
  | some g =>
    simp only [reduceCtorEq, false_iff, Classical.not_not]
    exact ((altEnd_eq_some p n cs g).mp h).2

/-- the alternation followed by `\Z` matches iff the whole rest is 40 `reHex` or 32 `reB32`
    characters; group 1 is then that whole rest -/
theorem hashGroupEnd_eq_some (cs g : Str) :
    hashGroupEnd cs = some g ↔
      g = cs ∧ ((cs.length = 40 ∧ cs.all reHex = true) ∨ (cs.length = 32 ∧ cs.all reB32 = true)) := by
  unfold hashGroupEnd
  cases h : altEnd reHex 40 cs with
  | some g' =>
    have := (altEnd_eq_some _ _ _ _).mp h
    simp only [Option.some.injEq]
    constructor
    · intro x; subst x; exact ⟨this.1, Or.inl this.2⟩
    · intro x; rw [x.1]; exact this.1
  | none =>
    have n1 := (altEnd_eq_none _ _ _).mp h
    simp only
    rw [altEnd_eq_some]
    constructor
    · intro x; exact ⟨x.1, Or.inr x.2⟩
    · rintro ⟨x, y | y⟩
      · exact absurd y n1
      · exact ⟨x, y⟩

theorem hashGroupEnd_isSome (cs : Str) :
    (hashGroupEnd cs).isSome = true ↔
      ((cs.length = 40 ∧ cs.all reHex = true) ∨ (cs.length = 32 ∧ cs.all reB32 = true)) := by
  rw [Option.isSome_iff_exists]
  constructor
  · rintro ⟨g, hg⟩; exact ((hashGroupEnd_eq_some cs g).mp hg).2
  · intro h; exact ⟨cs, (hashGroupEnd_eq_some cs cs).mpr ⟨rfl, h⟩⟩

theorem infohashRe_isSome (v : Str) : (infohashRe v).isSome = validHash v := by
  rw [Bool.eq_iff_iff, infohashRe, hashGroupEnd_isSome]
  simp [validHash, Hex40, B32x32, reHex, reB32]

theorem infohashRe_eq_some (v g : Str) (h : infohashRe v = some g) : g = v :=
  ((hashGroupEnd_eq_some v g).mp h).1

theorem litI_eq_some (ps cs rest : Str) :
    litI ps cs = some rest ↔ (cs.take ps.length).map asciiLower = ps ∧ rest = cs.drop ps.length := by
  induction ps generalizing cs with
  | nil => simp [litI, eq_comm]
  | cons p ps ih =>
    cases cs with
    | nil => simp [litI]
    | cons c cs =>
      simp only [litI, reLit, List.length_cons, List.take_succ_cons, List.map_cons,
        List.cons.injEq, List.drop_succ_cons]
      by_cases hc : asciiLower c = p
      · simp [hc, ih cs]
      · simp [hc]

theorem xtRe_eq_some (v g : Str) :
    xtRe v = some g ↔ hasUrn v = true ∧ validHash (v.drop 9) = true ∧ g = v.drop 9 := by
  unfold xtRe
  cases hl : litI urnPrefix v with
  | none =>
    have : ¬ hasUrn v = true := by
      intro hu
      have := (litI_eq_some urnPrefix v (v.drop 9)).mpr ⟨by rw [urnPrefix_length]; simpa [hasUrn] using hu, by rw [urnPrefix_length]⟩
      rw [hl] at this; cases this
    simp [this]
  | some rest =>
    have := (litI_eq_some urnPrefix v rest).mp hl
    rw [urnPrefix_length] at this
    have hr : rest = v.drop 9 := this.2
    have hu : hasUrn v = true := by simpa [hasUrn] using this.1
    subst hr
    simp only [hu, true_and]
    have hs := infohashRe_isSome (v.drop 9)
    unfold infohashRe at hs
    constructor
    · intro x
      have := (hashGroupEnd_eq_some _ _).mp x
      refine ⟨?_, this.1⟩
      rw [← hs, x]; rfl
    · rintro ⟨x, y⟩
      rw [← hs, Option.isSome_iff_exists] at x
      obtain ⟨g', hg'⟩ := x
      rw [hg', y, ((hashGroupEnd_eq_some _ _).mp hg').1]

/-! ### digits -/

theorem rev_induction {α : Type} {P : List α → Prop} (nil : P [])
    (append_singleton : ∀ xs d, P xs → P (xs ++ [d])) : ∀ l, P l := by
  intro l
  have : ∀ r : List α, P r.reverse := by
    intro r
    induction r with
    | nil => exact nil
    | cons a t ih => simpa using append_singleton _ a ih
  simpa using this l.reverse

theorem foldl_digits (b : Nat) (ds : List Nat) (a : Nat) :
    ds.foldl (fun a d => a * b + d) a = a * b ^ ds.length + ofDigits b ds := by
  unfold ofDigits
  induction ds generalizing a with
  | nil => simp
  | cons d t ih =>
    simp only [List.foldl_cons, List.length_cons]
    rw [ih (a * b + d), ih (0 * b + d)]
    simp only [Nat.zero_mul, Nat.zero_add, Nat.pow_succ, Nat.add_mul, Nat.add_assoc]
    congr 1
    rw [Nat.mul_assoc, Nat.mul_comm b]

theorem ofDigits_append (b : Nat) (xs ys : List Nat) :
    ofDigits b (xs ++ ys) = ofDigits b xs * b ^ ys.length + ofDigits b ys := by
  conv => lhs; unfold ofDigits
  rw [List.foldl_append, foldl_digits]
  rfl

theorem ofDigits_concat (b : Nat) (xs : List Nat) (d : Nat) :
    ofDigits b (xs ++ [d]) = ofDigits b xs * b + d := by
  rw [ofDigits_append]; simp [ofDigits]

theorem ofDigits_lt (b : Nat) (ds : List Nat) (h : ∀ d ∈ ds, d < b) :
    ofDigits b ds < b ^ ds.length := by
  induction ds using rev_induction with
  | nil => simp [ofDigits]
  | append_singleton xs d ih =>
    rw [ofDigits_concat]
    have h1 := ih (fun x hx => h x (List.mem_append_left _ hx))
    have h2 : d < b := h d (by simp)
    simp only [List.length_append, List.length_cons, List.length_nil, Nat.zero_add, Nat.pow_succ]
    calc ofDigits b xs * b + d < ofDigits b xs * b + b := by omega
      _ = (ofDigits b xs + 1) * b := by rw [Nat.add_mul]; simp
      _ ≤ b ^ xs.length * b := Nat.mul_le_mul_right b h1

theorem toDigitsLE_length (b n x : Nat) : (toDigitsLE b n x).length = n := by
  induction n generalizing x with
  | zero => rfl
  | succ n ih => simp [toDigitsLE, ih]

theorem toDigits_length (b n x : Nat) : (toDigits b n x).length = n := by
  simp [toDigits, toDigitsLE_length]

theorem toDigitsLE_lt (b n x : Nat) (hb : 0 < b) : ∀ d ∈ toDigitsLE b n x, d < b := by
  induction n generalizing x with
  | zero => simp [toDigitsLE]
  | succ n ih =>
    simp only [toDigitsLE, List.mem_cons]
    rintro d (h | h)
    · subst h; exact Nat.mod_lt _ hb
    · exact ih _ d h

theorem toDigits_lt (b n x : Nat) (hb : 0 < b) : ∀ d ∈ toDigits b n x, d < b := by
  intro d hd
  exact toDigitsLE_lt b n x hb d (by simpa [toDigits] using hd)

theorem toDigits_succ (b n x : Nat) : toDigits b (n + 1) x = toDigits b n (x / b) ++ [x % b] := by
  simp [toDigits, toDigitsLE]

/-- fixed-width digits of the value of a digit list are that list -/
theorem toDigits_ofDigits (b : Nat) (ds : List Nat) (h : ∀ d ∈ ds, d < b) :
    toDigits b ds.length (ofDigits b ds) = ds := by
  induction ds using rev_induction with
  | nil => rfl
  | append_singleton xs d ih =>
    have h2 : d < b := h d (by simp)
    have hb : 0 < b := by omega
    simp only [List.length_append, List.length_cons, List.length_nil, Nat.zero_add]
    rw [toDigits_succ, ofDigits_concat]
    have e1 : (ofDigits b xs * b + d) / b = ofDigits b xs := by
      rw [Nat.add_comm, Nat.add_mul_div_right _ _ hb, Nat.div_eq_of_lt h2, Nat.zero_add]
    have e2 : (ofDigits b xs * b + d) % b = d := by
      rw [Nat.add_comm, Nat.add_mul_mod_self_right, Nat.mod_eq_of_lt h2]
    rw [e1, e2, ih (fun x hx => h x (List.mem_append_left _ hx))]

/-- the value of the fixed-width digits of a number that fits is that number -/
theorem ofDigits_toDigits (b n x : Nat) (h : x < b ^ n) : ofDigits b (toDigits b n x) = x := by
  induction n generalizing x with
  | zero => simp at h; subst h; rfl
  | succ n ih =>
    have hb : 0 < b := by
      rcases Nat.eq_zero_or_pos b with h0 | h0
      · subst h0; simp at h
      · exact h0
    rw [toDigits_succ, ofDigits_concat, ih]
    · exact Nat.div_add_mod' x b
    · rw [Nat.pow_succ] at h
      exact Nat.div_lt_of_lt_mul (by rwa [Nat.mul_comm] at h)

/-! ### base 32 → bytes → base 16 -/

theorem b16Digits_foldl (bytes : List Nat) (a : Nat) :
    (b16Digits bytes).foldl (fun a d => a * 16 + d) a = bytes.foldl (fun a d => a * 256 + d) a := by
  induction bytes generalizing a with
  | nil => rfl
  | cons b t ih =>
    simp only [b16Digits, List.flatMap_cons, List.foldl_append, List.foldl_cons, List.foldl_nil] at ih ⊢
    rw [show (a * 16 + b / 16) * 16 + b % 16 = a * 256 + b by omega]
    exact ih _

theorem b16Digits_value (bytes : List Nat) : ofDigits 16 (b16Digits bytes) = ofDigits 256 bytes :=
  b16Digits_foldl bytes 0

theorem b16Digits_length (bytes : List Nat) : (b16Digits bytes).length = 2 * bytes.length := by
  induction bytes with
  | nil => rfl
  | cons b t ih => simp only [b16Digits, List.flatMap_cons, List.length_append] at ih ⊢; simp [ih]; omega

theorem b16Digits_lt (bytes : List Nat) (h : ∀ b ∈ bytes, b < 256) : ∀ d ∈ b16Digits bytes, d < 16 := by
  intro d hd
  simp only [b16Digits, List.mem_flatMap, List.mem_cons, List.not_mem_nil, or_false] at hd
  obtain ⟨b, hb, rfl | rfl⟩ := hd
  · have := h b hb; omega
  · omega

theorem b32Quanta_length (ds : List Nat) : (b32Quanta ds).length = ds.length / 8 * 5 := by
  fun_induction b32Quanta ds with
  | case1 a b c d e f g h rest ih =>
    simp only [List.length_append, toDigits_length, ih, List.length_cons]
    omega
  | case2 ds hds =>
    have : ds.length < 8 := by
      match ds, hds with
      | [], _ => simp
      | [_], _ => simp
      | [_, _], _ => simp
      | [_, _, _], _ => simp
      | [_, _, _, _], _ => simp
      | [_, _, _, _, _], _ => simp
      | [_, _, _, _, _, _], _ => simp
      | [_, _, _, _, _, _, _], _ => simp
      | a :: b :: c :: d :: e :: f :: g :: h :: rest, hds => exact absurd rfl (hds a b c d e f g h rest)
    simp; omega

theorem b32Quanta_lt (ds : List Nat) : ∀ b ∈ b32Quanta ds, b < 256 := by
  fun_induction b32Quanta ds with
  | case1 a b c d e f g h rest ih =>
    intro x hx
    rcases List.mem_append.mp hx with hx | hx
    · exact toDigits_lt 256 5 _ (by omega) x hx
    · exact ih x hx
  | case2 ds hds => simp

/-- the general digit lemma: the bytes that `b32decode` produces denote the same number as the
    base-32 digits (whole quanta) -/
theorem b32Quanta_foldl (ds : List Nat) (hl : ds.length % 8 = 0) (hd : ∀ d ∈ ds, d < 32) (acc : Nat) :
    (b32Quanta ds).foldl (fun a d => a * 256 + d) acc = ds.foldl (fun a d => a * 32 + d) acc := by
  fun_induction b32Quanta ds generalizing acc with
  | case1 a b c d e f g h rest ih =>
    have hq : ofDigits 32 [a, b, c, d, e, f, g, h] < 256 ^ 5 := by
      have := ofDigits_lt 32 [a, b, c, d, e, f, g, h] (fun x hx => hd x (by
        have := List.mem_append_left rest hx; simpa using this))
      simpa using this
    rw [List.foldl_append, foldl_digits 256 (toDigits 256 5 _), toDigits_length,
      ofDigits_toDigits 256 5 _ hq]
    rw [ih (by simp only [List.length_cons] at hl; omega)
      (fun x hx => hd x (by simp only [List.mem_cons]; simp [hx]))]
    rw [show a :: b :: c :: d :: e :: f :: g :: h :: rest = [a, b, c, d, e, f, g, h] ++ rest from rfl,
      List.foldl_append, foldl_digits 32 [a, b, c, d, e, f, g, h] acc]
    have e : (256 : Nat) ^ 5 = 32 ^ [a, b, c, d, e, f, g, h].length := by simp only [List.length_cons, List.length_nil]
    rw [e]
  | case2 ds hds =>
    have : ds = [] := by
      match ds, hds, hl with
      | [], _, _ => rfl
      | [_], _, hl => simp at hl
      | [_, _], _, hl => simp at hl
      | [_, _, _], _, hl => simp at hl
      | [_, _, _, _], _, hl => simp at hl
      | [_, _, _, _, _], _, hl => simp at hl
      | [_, _, _, _, _, _], _, hl => simp at hl
      | [_, _, _, _, _, _, _], _, hl => simp at hl
      | a :: b :: c :: d :: e :: f :: g :: h :: rest, hds, _ => exact absurd rfl (hds a b c d e f g h rest)
    subst this; rfl

theorem b32_to_b16_value (ds : List Nat) (hl : ds.length % 8 = 0) (hd : ∀ d ∈ ds, d < 32) :
    ofDigits 16 (b16Digits (b32Quanta ds)) = ofDigits 32 ds := by
  rw [b16Digits_value]; exact b32Quanta_foldl ds hl hd 0

/-- 32 base-32 digits become the 40 base-16 digits of the same number -/
theorem b32_to_b16_40 (ds : List Nat) (hl : ds.length = 32) (hd : ∀ d ∈ ds, d < 32) :
    b16Digits (b32Quanta ds) = toDigits 16 40 (ofDigits 32 ds) := by
  have hlen : (b16Digits (b32Quanta ds)).length = 40 := by
    rw [b16Digits_length, b32Quanta_length, hl]
  have := toDigits_ofDigits 16 (b16Digits (b32Quanta ds)) (b16Digits_lt _ (b32Quanta_lt ds))
  rw [hlen, b32_to_b16_value ds (by omega) hd] at this
  exact this.symm

/-! ### characters -/

theorem toNat_ofNat_lt (n : Nat) (h : n < 55296) : (Char.ofNat n).toNat = n := by
  have hv : n.isValidChar := Or.inl h
  simp [Char.ofNat, hv, Char.ofNatAux, Char.toNat]

theorem hexDigit_lower_upper : ∀ d : Fin 16, asciiLower (hexDigitUpper d.val) = hexDigitLower d.val := by
  decide

theorem hex_char (c : Char) (h : isHexAscii c = true) :
    hexDigitLower (hexValD c) = asciiLower c ∧ hexValD c < 16 := by
  simp only [isHexAscii, isDigit, inR, Bool.or_eq_true, Bool.and_eq_true, decide_eq_true_eq] at h
  simp only [hexValD, hexVal, isDigit, inR, asciiLower, isUpperAZ, hexDigitLower]
  rcases h with (h | h) | h
  · have h1 : (decide (48 ≤ c.toNat) && decide (c.toNat ≤ 57)) = true := by simp [h]
    have h2 : (decide (65 ≤ c.toNat) && decide (c.toNat ≤ 90)) = false := by simp; omega
    simp only [h1, h2, if_true, Option.getD_some]
    constructor
    · rw [if_pos (by omega), show 48 + (c.toNat - 48) = c.toNat by omega, Char.ofNat_toNat]; simp
    · omega
  · have h1 : (decide (48 ≤ c.toNat) && decide (c.toNat ≤ 57)) = false := by simp; omega
    have h2 : (decide (65 ≤ c.toNat) && decide (c.toNat ≤ 90)) = false := by simp; omega
    have h3 : (decide (97 ≤ c.toNat) && decide (c.toNat ≤ 102)) = true := by simp [h]
    simp only [h1, h2, h3, if_true, Bool.false_eq_true, if_false, Option.getD_some]
    constructor
    · rw [if_neg (by omega), show 87 + (c.toNat - 87) = c.toNat by omega, Char.ofNat_toNat]
    · omega
  · have h1 : (decide (48 ≤ c.toNat) && decide (c.toNat ≤ 57)) = false := by simp; omega
    have h2 : (decide (65 ≤ c.toNat) && decide (c.toNat ≤ 90)) = true := by simp; omega
    have h3 : (decide (97 ≤ c.toNat) && decide (c.toNat ≤ 102)) = false := by simp; omega
    have h4 : (decide (65 ≤ c.toNat) && decide (c.toNat ≤ 70)) = true := by simp [h]
    simp only [h1, h2, h3, h4, if_true, Bool.false_eq_true, if_false, Option.getD_some]
    constructor
    · rw [if_neg (by omega), show 87 + (c.toNat - 55) = c.toNat + 32 by omega]
    · omega

theorem b32_char (c : Char) (h : isB32Ascii c = true) :
    b32Val (asciiUpper c) = some (b32ValD c) ∧ b32ValD c < 32 := by
  have key : ∃ d, b32Val (asciiUpper c) = some d ∧ d < 32 := by
    simp only [isB32Ascii, isLowerAZ, isUpperAZ, inR, Bool.or_eq_true, Bool.and_eq_true,
      decide_eq_true_eq] at h
    simp only [b32Val, asciiUpper, isLowerAZ, isUpperAZ, inR]
    rcases h with (h | h) | h
    · have h1 : (decide (97 ≤ c.toNat) && decide (c.toNat ≤ 122)) = true := by simp [h]
      have e : (Char.ofNat (c.toNat - 32)).toNat = c.toNat - 32 := toNat_ofNat_lt _ (by omega)
      simp only [h1, if_true, e]
      have h2 : (decide (65 ≤ c.toNat - 32) && decide (c.toNat - 32 ≤ 90)) = true := by simp; omega
      simp only [h2, if_true]
      exact ⟨_, rfl, by omega⟩
    · have h1 : (decide (97 ≤ c.toNat) && decide (c.toNat ≤ 122)) = false := by simp; omega
      have h2 : (decide (65 ≤ c.toNat) && decide (c.toNat ≤ 90)) = true := by simp [h]
      simp only [h1, h2, if_true, Bool.false_eq_true, if_false]
      exact ⟨_, rfl, by omega⟩
    · have h1 : (decide (97 ≤ c.toNat) && decide (c.toNat ≤ 122)) = false := by simp; omega
      have h2 : (decide (65 ≤ c.toNat) && decide (c.toNat ≤ 90)) = false := by simp; omega
      have h3 : (decide (50 ≤ c.toNat) && decide (c.toNat ≤ 55)) = true := by simp [h]
      simp only [h1, h2, h3, if_true, Bool.false_eq_true, if_false]
      exact ⟨_, rfl, by omega⟩
  obtain ⟨d, hd, hlt⟩ := key
  simp only [b32ValD, hd, Option.getD_some]
  exact ⟨trivial, hlt⟩

theorem mapM_some_of_forall {α β : Type} (f : α → Option β) (g : α → β) (l : List α)
    (h : ∀ a ∈ l, f a = some (g a)) : l.mapM f = some (l.map g) := by
  induction l with
  | nil => rfl
  | cons a t ih =>
    rw [List.mapM_cons, h a (by simp), ih (fun x hx => h x (by simp [hx]))]
    rfl

/-! ### moved helpers -/

theorem hexVal_hexDigitLower : ∀ d : Fin 16, hexValD (hexDigitLower d.val) = d.val := by decide

theorem mkUrl_eq (isUrl : Str → Bool) (v : Str) :
    mkUrl isUrl v = if urlAccepts isUrl v then .ok (plusForSpace v) else .error .url := by
  unfold mkUrl urlAccepts
  cases isUrl v <;> cases isUrl (plusForSpace v) <;> rfl

theorem mapM_mkUrl (isUrl : Str → Bool) (vs : List Str) :
    vs.mapM (mkUrl isUrl) =
      if vs.all (urlAccepts isUrl) then .ok (vs.map plusForSpace) else .error .url := by
  induction vs with
  | nil => rfl
  | cons v t ih =>
    rw [List.mapM_cons, ih, mkUrl_eq]
    by_cases h1 : urlAccepts isUrl v = true
    · by_cases h2 : t.all (urlAccepts isUrl) = true
      · simp [h1, h2]; rfl
      · simp [h1, h2]; rfl
    · simp [h1]; rfl

theorem dedup_spec (acc us : List Str) (ha : acc.Nodup) :
    (dedup acc us).Nodup ∧ (∀ u, u ∈ dedup acc us ↔ u ∈ acc ∨ u ∈ us) := by
  induction us generalizing acc with
  | nil => simp [dedup, ha]
  | cons u t ih =>
    unfold dedup
    by_cases hu : u ∈ acc
    · rw [if_pos hu]
      obtain ⟨a, b⟩ := ih acc ha
      refine ⟨a, fun x => ?_⟩
      rw [b x]; simp only [List.mem_cons]
      constructor
      · rintro (h | h); exact Or.inl h; exact Or.inr (Or.inr h)
      · rintro (h | h | h); exact Or.inl h; exact Or.inl (h ▸ hu); exact Or.inr h
    · rw [if_neg hu]
      have hn : (acc ++ [u]).Nodup := by
        rw [List.nodup_append]; refine ⟨ha, by simp, ?_⟩
        intro a ha' b hb; simp at hb; subst hb; intro e; subst e; exact hu ha'
      obtain ⟨a, b⟩ := ih (acc ++ [u]) hn
      refine ⟨a, fun x => ?_⟩
      rw [b x]; simp only [List.mem_append, List.mem_cons, List.not_mem_nil, or_false]
      constructor
      · rintro ((h | h) | h); exact Or.inl h; exact Or.inr (Or.inl h); exact Or.inr (Or.inr h)
      · rintro (h | h | h); exact Or.inl (Or.inl h); exact Or.inl (Or.inr h); exact Or.inr h


theorem pairBytes_b16Digits (bytes : List Nat) : pairBytes (b16Digits bytes) = bytes := by
  induction bytes with
  | nil => rfl
  | cons b t ih =>
    simp only [b16Digits, List.flatMap_cons, List.cons_append, List.nil_append, pairBytes] at ih ⊢
    rw [ih]
    congr 1
    exact Nat.div_add_mod' b 16

theorem b16Digits_length_even (bytes : List Nat) : (b16Digits bytes).length % 2 = 0 := by
  rw [b16Digits_length]; omega

/-- the 40 hex digits of a 160-bit number are the hex digits of its 20 bytes -/
theorem toDigits16_eq_b16Digits (n : Nat) (h : n < 2 ^ 160) :
    toDigits 16 40 n = b16Digits (toDigits 256 20 n) := by
  have hlen : (b16Digits (toDigits 256 20 n)).length = 40 := by
    rw [b16Digits_length, toDigits_length]
  have hlt := b16Digits_lt _ (toDigits_lt 256 20 n (by decide))
  have := toDigits_ofDigits 16 _ hlt
  rw [hlen, b16Digits_value, ofDigits_toDigits 256 20 n (by simpa using h)] at this
  exact this

theorem plusForSpace_idem (s : Str) : plusForSpace (plusForSpace s) = plusForSpace s := by
  unfold plusForSpace
  rw [List.map_map]
  apply List.map_congr_left
  intro c _
  by_cases h : c = ' ' <;> simp [h]

/-- a coerced item passes the second coercion (inside `insert`) unchanged -/
theorem mkUrl_coerced (isUrl : Str → Bool) (v : Str) (h : urlAccepts isUrl v = true) :
    mkUrl isUrl (plusForSpace v) = .ok (plusForSpace v) := by
  simp only [urlAccepts, Bool.and_eq_true] at h
  simp [mkUrl_eq, urlAccepts, plusForSpace_idem, h.2]

theorem insertAll_stable (isUrl : Str → Bool) (acc us : List Str)
    (h : ∀ u ∈ us, mkUrl isUrl u = .ok u) :
    insertAll isUrl acc us = (none, dedup acc us) := by
  induction us generalizing acc with
  | nil => rfl
  | cons u t ih =>
    have h1 := h u (by simp)
    have ht := fun x hx => h x (List.mem_cons_of_mem _ hx)
    simp only [insertAll, h1, dedup]
    by_cases hm : u ∈ acc
    · simp only [hm, if_true]; exact ih acc ht
    · simp only [hm, if_false]; exact ih _ ht

theorem mem_filter_ne {u x : Str} {l : List Str} : x ∈ l.filter (· ≠ u) ↔ x ∈ l ∧ x ≠ u := by
  simp [List.mem_filter]

/-- the accumulating loop of `extend` keeps every item at its first occurrence -/
theorem dedup_eq_keepFirst (acc us : List Str) :
    dedup acc us = acc ++ (keepFirst us).filter (fun u => decide (u ∉ acc)) := by
  induction us generalizing acc with
  | nil => simp [dedup, keepFirst]
  | cons u t ih =>
    unfold dedup keepFirst
    by_cases hu : u ∈ acc
    · rw [if_pos hu, ih acc, List.filter_cons_of_neg (by simpa using hu), List.filter_filter]
      congr 1
      apply List.filter_congr
      intro x _
      by_cases hx : x ∈ acc
      · simp [hx]
      · have : x ≠ u := fun e => hx (e ▸ hu)
        simp [hx, this]
    · rw [if_neg hu, ih (acc ++ [u]), List.filter_cons_of_pos (by simpa using hu), List.filter_filter,
        List.append_assoc, List.singleton_append]
      congr 2
      apply List.filter_congr
      intro x _
      simp only [List.mem_append, List.mem_cons, List.not_mem_nil, or_false, not_or]
      by_cases hx : x ∈ acc <;> by_cases hxu : x = u <;> simp [hx, hxu]

theorem dedup_nil (us : List Str) : dedup [] us = keepFirst us := by
  rw [dedup_eq_keepFirst]; simp

theorem keepFirst_nodup (us : List Str) : (keepFirst us).Nodup := by
  induction us with
  | nil => simp [keepFirst]
  | cons u t ih =>
    unfold keepFirst
    rw [List.nodup_cons]
    exact ⟨by simp [List.mem_filter], ih.filter _⟩

theorem mem_keepFirst (us : List Str) (x : Str) : x ∈ keepFirst us ↔ x ∈ us := by
  induction us with
  | nil => simp [keepFirst]
  | cons u t ih =>
    unfold keepFirst
    simp only [List.mem_cons, List.mem_filter, ih]
    by_cases hxu : x = u <;> simp [hxu]

/-! ### the object with adopted metadata -/

/-- the hash part of an assignment does not depend on the adopted metadata, and the metadata is
    dropped exactly when an accepted assignment stores another string -/
theorem stepM_eq (st : MState) (op : HashOp) :
    stepM st op = ((stepHash st.hash op).1,
      { hash := (stepHash st.hash op).2,
        info := if (stepHash st.hash op).1 = none ∧ (stepHash st.hash op).2 ≠ st.hash then none else st.info }) := by
  cases st with
  | mk hash info =>
  cases op with
  | xt v =>
    have key : ∀ x y : Option Str,
        (match x with
          | some _ => ((none : Option MErr), setInfohashAttr ⟨hash, info⟩ v)
          | none => match y with
            | some g => (none, setInfohashAttr ⟨hash, info⟩ g)
            | none => (some .magnet, ⟨hash, info⟩)) =
        (let r : Option MErr × HState := (match x with
          | some _ => (none, some v)
          | none => match y with
            | some g => (none, some g)
            | none => (some .magnet, hash))
         (r.1, { hash := r.2, info := if r.1 = none ∧ r.2 ≠ hash then none else info })) := by
      intro x y
      cases x with
      | some g => by_cases h : hash = some v <;> simp [setInfohashAttr, h, eq_comm]
      | none =>
        cases y with
        | some g => by_cases h : hash = some g <;> simp [setInfohashAttr, h, eq_comm]
        | none => simp
    exact key (infohashRe v) (xtRe v)
  | infohash v =>
    have key : ∀ x : Option Str,
        (match x with
          | some _ => ((none : Option MErr), setInfohashAttr ⟨hash, info⟩ v)
          | none => (some .magnet, ⟨hash, info⟩)) =
        (let r : Option MErr × HState := (match x with
          | some _ => (none, some v)
          | none => (some .magnet, hash))
         (r.1, { hash := r.2, info := if r.1 = none ∧ r.2 ≠ hash then none else info })) := by
      intro x
      cases x with
      | some g => by_cases h : hash = some v <;> simp [setInfohashAttr, h, eq_comm]
      | none => simp
    exact key (infohashRe v)

/-- on an object without metadata the loop of `get_info` is the function `getInfo` -/
theorem fetchLoop_none (validate : Bool) (ih : Str) (srcs : List Served) (k : Nat) :
    fetchLoop validate ih none srcs k =
      (match getInfo validate ih srcs k with
       | .raised e n => (some e, none, n)
       | .adopted h n => (none, some h, n)
       | .nothing n => (none, none, n)) := by
  induction srcs generalizing k with
  | nil => rfl
  | cons s rest ihr =>
    cases s with
    | connError => simp only [fetchLoop, setInfoFrom, getInfo, Option.isSome_none, Bool.false_eq_true, if_false, ihr]
    | unreadable => simp only [fetchLoop, setInfoFrom, getInfo, Option.isSome_none, Bool.false_eq_true, if_false, ihr]
    | torrent h ne =>
      simp only [fetchLoop, setInfoFrom, getInfo]
      cases validate with
      | false =>
        cases ne with
        | true => simp
        | false => simp [ihr]
      | true =>
        simp only [if_true]
        cases infohashAsBase16 ih with
        | error e => simp
        | ok own =>
          by_cases e : own = h
          · cases ne with
            | true => simp [e]
            | false => simp [e, ihr]
          · simp [e]

/-- with validation, on an object whose metadata (if any) denotes its hash, the loop of `get_info`
    does what `specFetch` says -/
theorem fetchLoop_spec (s own : Str) (hown : infohashAsBase16 s = .ok own) (info : Option Str)
    (hinfo : ∀ a, info = some a → a = own) (srcs : List Served) (k : Nat) :
    fetchLoop true s info srcs k =
      ((specFetch own info.isSome srcs k).1,
       (if (specFetch own info.isSome srcs k).2.1 then some own else none),
       (specFetch own info.isSome srcs k).2.2) := by
  cases info with
  | some a =>
    obtain rfl := hinfo a rfl
    cases srcs with
    | nil => rfl
    | cons x rest =>
      cases x with
      | connError => simp [fetchLoop, setInfoFrom, specFetch]
      | unreadable => simp [fetchLoop, setInfoFrom, specFetch]
      | torrent h ne =>
        simp only [fetchLoop, setInfoFrom, specFetch, hown, if_true]
        by_cases e : a = h
        · subst e; cases ne <;> simp
        · have e' : ¬ h = a := fun x => e x.symm
          simp [e, e']
  | none =>
    induction srcs generalizing k with
    | nil => rfl
    | cons x rest ihr =>
      cases x with
      | connError => simp only [fetchLoop, setInfoFrom, specFetch, Option.isSome_none, Bool.false_eq_true, if_false]; exact ihr _
      | unreadable => simp only [fetchLoop, setInfoFrom, specFetch, Option.isSome_none, Bool.false_eq_true, if_false]; exact ihr _
      | torrent h ne =>
        simp only [fetchLoop, setInfoFrom, specFetch, hown, if_true]
        by_cases e : own = h
        · subst e
          cases ne with
          | true => simp
          | false =>
            simp only [ne_eq, not_true_eq_false, if_false, Option.isSome_none, Bool.false_eq_true, Bool.or_self]
            exact ihr _
        · have e' : ¬ h = own := fun x => e x.symm
          simp [e, e']

end Torf.Magnet
