/-
  Helper lemmas for C02: the main loop of `iter_pieces` on an undamaged disk, the first bad
  file, and the collector fold of `verifySeq`.
-/
import Torf.Lemmas.Stream
import Torf.Spec.Verify
namespace Torf.Verify
open Torf Torf.Missing

/-! ### `consume` with an arbitrary initial output -/

theorem consume_out (L : Nat) (out : List (List α)) (ps : List (List α)) :
    Stream.consume L out ps = ((Stream.consume L [] ps).1, out ++ (Stream.consume L [] ps).2) := by
  unfold Stream.consume
  suffices h : ∀ (t : List α) (acc : List (List α)),
      ps.foldl (fun st p => if p.length = L then (st.1, st.2 ++ [p]) else (p, st.2)) (t, out ++ acc)
        = ((ps.foldl (fun st p => if p.length = L then (st.1, st.2 ++ [p]) else (p, st.2)) (t, acc)).1,
           out ++ (ps.foldl (fun st p => if p.length = L then (st.1, st.2 ++ [p]) else (p, st.2)) (t, acc)).2) by
    simpa using h [] []
  induction ps with
  | nil => intro t acc; rfl
  | cons p ps ih =>
    intro t acc
    simp only [List.foldl_cons]
    by_cases hp : p.length = L
    · simp only [hp, if_true]
      rw [List.append_assoc]
      exact ih t (acc ++ [p])
    · simp only [hp, if_false]
      exact ih p acc

/-! ### the main loop on good files -/

/-- content of file `k` on disk (`[]` if missing) -/
def contentOf (disk : List (Option (List α))) (k : Nat) : List α := (disk.getD k none).getD []

/-- "nothing bad has happened yet": the state is the one the all-good loop would have -/
structure GoodSt (st : St α) (tr : List α) (out : List (List α)) : Prop where
  trailing : st.trailing = tr
  out : st.out = out.map dataItem
  skip : st.skip = 0
  bycatch : st.bycatch = []
  failed : st.failed = false

theorem step_good (L : Nat) (sizes : List Nat) (disk : List (Option (List α))) (st : St α)
    (tr : List α) (out : List (List α)) (j : Nat)
    (hg : GoodSt st tr out) (hj : fileError sizes disk j = none) :
    GoodSt (step L sizes disk st j)
      (Stream.fileStep L (tr, out) (contentOf disk j)).1
      (Stream.fileStep L (tr, out) (contentOf disk j)).2 := by
  obtain ⟨h1, h2, h3, h4, h5⟩ := hg
  unfold step
  simp only [h5, h4, List.contains_nil, hj, h3, List.drop_zero, h1, Bool.false_eq_true, if_false]
  unfold Stream.fileStep contentOf
  simp only
  rw [consume_out L out]
  constructor <;> simp [h2]

theorem fold_good (L : Nat) (sizes : List Nat) (disk : List (Option (List α))) (js : List Nat)
    (st : St α) (tr : List α) (out : List (List α))
    (hg : GoodSt st tr out) (hjs : ∀ j ∈ js, fileError sizes disk j = none) :
    GoodSt (js.foldl (step L sizes disk) st)
      ((js.map (contentOf disk)).foldl (Stream.fileStep L) (tr, out)).1
      ((js.map (contentOf disk)).foldl (Stream.fileStep L) (tr, out)).2 := by
  induction js generalizing st tr out with
  | nil => simpa using hg
  | cons j js ih =>
    simp only [List.foldl_cons, List.map_cons]
    exact ih _ _ _ (step_good L sizes disk st tr out j hg (hjs j (by simp)))
      (fun k hk => hjs k (by simp [hk]))

theorem goodSt_init : GoodSt ({} : St α) [] [] := ⟨rfl, rfl, rfl, rfl, rfl⟩

/-- on an undamaged disk the items are the chunks of the concatenated contents -/
theorem iterItems_all_good (L : Nat) (hL : 0 < L) (sizes : List Nat) (disk : List (Option (List α)))
    (hgood : AllGood sizes disk = true) :
    iterItems L sizes disk = some ((chunks L (diskStream sizes disk)).map dataItem) := by
  have hall : ∀ j ∈ List.range sizes.length, fileError sizes disk j = none := by
    intro j hj
    have := List.all_eq_true.mp hgood j hj
    simpa using this
  have hg := fold_good L sizes disk (List.range sizes.length) {} [] [] goodSt_init hall
  have hiter := Stream.iterPieces_eq_chunks L hL ((List.range sizes.length).map (contentOf disk))
  unfold Stream.iterPieces at hiter
  simp only at hiter
  unfold iterItems
  simp only
  generalize (List.range sizes.length).foldl (step L sizes disk) {} = st at hg
  generalize ((List.range sizes.length).map (contentOf disk)).foldl (Stream.fileStep L) ([], []) = s at hg hiter
  obtain ⟨h1, h2, _, _, h5⟩ := hg
  have hds : diskStream sizes disk = ((List.range sizes.length).map (contentOf disk)).flatten := rfl
  rw [hds, ← hiter, h5, h1, h2]
  simp only [Bool.false_eq_true, if_false]
  by_cases he : s.1.isEmpty = true
  · simp [he]
  · simp [he]

/-! ### `out` only grows, and the first bad file leaves an exception in it -/

theorem step_out_prefix (L : Nat) (sizes : List Nat) (disk : List (Option (List α))) (st : St α)
    (j : Nat) : ∃ ext, (step L sizes disk st j).out = st.out ++ ext := by
  unfold step
  split
  · exact ⟨[], by simp⟩
  · split
    · exact ⟨[], by simp⟩
    · split
      · exact ⟨_, rfl⟩
      · split
        · exact ⟨[], by simp⟩
        · exact ⟨_, rfl⟩

theorem fold_out_prefix (L : Nat) (sizes : List Nat) (disk : List (Option (List α))) (js : List Nat)
    (st : St α) : ∃ ext, (js.foldl (step L sizes disk) st).out = st.out ++ ext := by
  induction js generalizing st with
  | nil => exact ⟨[], by simp⟩
  | cons j js ih =>
    obtain ⟨e1, h1⟩ := step_out_prefix L sizes disk st j
    obtain ⟨e2, h2⟩ := ih (step L sizes disk st j)
    exact ⟨e1 ++ e2, by simp only [List.foldl_cons]; rw [h2, h1, List.append_assoc]⟩

theorem step_failed_stays (L : Nat) (sizes : List Nat) (disk : List (Option (List α))) (st : St α)
    (j : Nat) (h : st.failed = true) : (step L sizes disk st j).failed = true := by
  unfold step; simp [h]

theorem fold_failed_stays (L : Nat) (sizes : List Nat) (disk : List (Option (List α)))
    (js : List Nat) (st : St α) (h : st.failed = true) :
    (js.foldl (step L sizes disk) st).failed = true := by
  induction js generalizing st with
  | nil => simpa using h
  | cons j js ih => exact ih _ (step_failed_stays L sizes disk st j h)

/-- an item that reports an exception (and therefore carries no data) -/
def IsExcItem (it : Item α) : Prop := it.excs ≠ [] ∧ it.data = none

/-- processing a bad file from a "good" state either fails or appends an exception item whose
    first exception names that file -/
theorem step_bad (L : Nat) (sizes : List Nat) (disk : List (Option (List α))) (st : St α)
    (tr : List α) (out : List (List α)) (j : Nat) (e : ErrKind)
    (hg : GoodSt st tr out) (hj : fileError sizes disk j = some e) :
    (step L sizes disk st j).failed = true ∨
    ∃ (first : Item α) (rest : List (Item α)),
      (step L sizes disk st j).out = out.map dataItem ++ first :: rest ∧
      first.data = none ∧ first.excs.head? = some (j, e) := by
  obtain ⟨h1, h2, h3, h4, h5⟩ := hg
  unfold step
  simp only [h5, h4, List.contains_nil, hj, Bool.false_eq_true, if_false]
  cases hm : missingCall L sizes disk st.seen [] j e with
  | none => left; rfl
  | some r =>
    right
    simp only
    unfold missingCall at hm
    simp only at hm
    split at hm
    · exact absurd hm (by simp)
    · split at hm
      · exact absurd hm (by simp)
      · split at hm
        · exact absurd hm (by simp)
        · simp only [Option.some.injEq] at hm
          subst hm
          exact ⟨_, _, by rw [h2], rfl, rfl⟩

/-- If some file is bad, `iter_pieces` either fails with an internal error or yields an item that
    carries an exception naming the *first* bad file, preceded by data items only. -/
theorem iterItems_first_bad (L : Nat) (sizes : List Nat) (disk : List (Option (List α)))
    (j0 : Nat) (e : ErrKind) (hj0 : j0 < sizes.length)
    (hbad : fileError sizes disk j0 = some e)
    (hfirst : ∀ k < j0, fileError sizes disk k = none) :
    iterItems L sizes disk = none ∨
    ∃ (pre : List (List α)) (first : Item α) (rest : List (Item α)),
      iterItems L sizes disk = some (pre.map dataItem ++ first :: rest) ∧
      first.data = none ∧ first.excs.head? = some (j0, e) := by
  have hsplit : List.range sizes.length = List.range j0 ++ j0 :: (List.range' (j0 + 1) (sizes.length - j0 - 1)) := by
    have h1 : sizes.length = j0 + (1 + (sizes.length - j0 - 1)) := by omega
    rw [List.range_eq_range', List.range_eq_range']
    conv => lhs; rw [h1]
    rw [← List.range'_append_1]
    simp only [Nat.zero_add]
    congr 1
    rw [Nat.add_comm 1, List.range'_succ]
  have hg := fold_good L sizes disk (List.range j0) {} [] [] goodSt_init
    (by intro k hk; exact hfirst k (List.mem_range.mp hk))
  unfold iterItems
  simp only
  rw [hsplit, List.foldl_append, List.foldl_cons]
  generalize (List.range j0).foldl (step L sizes disk) {} = st0 at hg
  generalize ((List.range j0).map (contentOf disk)).foldl (Stream.fileStep L) ([], []) = s at hg
  rcases step_bad L sizes disk st0 s.1 s.2 j0 e hg hbad with hf | ⟨first, rest, hout, hd, he⟩
  · left
    rw [fold_failed_stays L sizes disk _ _ hf]
    simp
  · obtain ⟨ext, hext⟩ := fold_out_prefix L sizes disk (List.range' (j0 + 1) (sizes.length - j0 - 1))
      (step L sizes disk st0 j0)
    generalize (List.range' (j0 + 1) (sizes.length - j0 - 1)).foldl (step L sizes disk)
      (step L sizes disk st0 j0) = stf at hext
    by_cases hfail : stf.failed = true
    · left; simp [hfail]
    · right
      simp only [hfail, Bool.false_eq_true, if_false]
      rw [hext, hout]
      by_cases htr : stf.trailing.isEmpty = true
      · exact ⟨s.2, first, rest ++ ext, by simp [htr], hd, he⟩
      · exact ⟨s.2, first, rest ++ ext ++ [dataItem stf.trailing], by simp [htr], hd, he⟩

end Torf.Verify
