/-
  Torf.Lemmas.PipelineC04RefuseJan — the janitor invariant `InvB3` of C03 also holds when non-vital
  hashers are refused (a refused hasher is tracked by the pool but never runs; the janitor prunes
  it like a finished one), hence: when main returns, no thread is running.
-/
import Torf.Lemmas.PipelineC04Refuse
namespace Torf.Pipeline

/-- a step that only moves main's program counter -/
theorem InvB3.set_main {cfg : Cfg} {s : State} (h : InvB3 cfg s) (m : MPc)
    (h5 : ∀ r, m = MPc.finished r → s.jan = JPc.done)
    (h1 : s.jan = JPc.done → m = MPc.collect → none ∈ s.hq) : InvB3 cfg { s with main := m } :=
  ⟨h.j2, h.jp, h.js1, h.js2, h.jc1, h.jc2, h5, h1, h.h2, h.h3⟩

theorem InvB3.mainG {cfg : Cfg} {s s' : State} (hnv : NonVital cfg) (hB : InvR1 cfg s)
    (h : InvB3 cfg s) (hs : MainStepG cfg s s') : InvB3 cfg s' := by
  have h0 := h
  obtain ⟨j2, jp, js1, js2, jc1, jc2, m5, h1, h2, h3⟩ := h
  have hjs := hB.jstart
  have htrk0 := hB.trk0
  have hlen := hB.len
  have hnj := hB.nrefJ
  cases hs with
  | ok h' _ _ _ =>
    cases h' <;>
      (have hm := ‹s.main = _›
       simp [hm, preJan] at hjs
       first
       | (refine h0.set_main _ ?_ ?_ <;> grind [JPc.done_of, joinTarget_cases])
       | (constructor <;> grind [q_pop, JPc.done_of, HPc.running, joinTarget_cases]))
  | refReader hm hr => obtain ⟨i, _, hi⟩ := hnv _ hr; simp at hi
  | refJanitor hm hr => obtain ⟨i, _, hi⟩ := hnv _ hr; simp at hi
  | refVital hm hr => obtain ⟨i, h1, hi⟩ := hnv _ hr; simp at hi; omega
  | refHasherNext i hm h0 hr hi =>
    simp [hm, preJan] at hjs
    constructor <;> grind [HPc.running]
  | refHasherLast i hm h0 hr hi =>
    simp [hm, preJan] at hjs
    constructor <;> grind [HPc.running]

/-- control and janitor invariant together, for configurations that refuse non-vital hashers only -/
structure InvR (cfg : Cfg) (s : State) : Prop where
  b1 : InvR1 cfg s
  b3 : InvB3 cfg s

theorem InvR.step {cfg : Cfg} {s s' : State} (hnv : NonVital cfg) (h : InvR cfg s)
    (hs : StepG cfg s s') : InvR cfg s' := by
  refine ⟨h.b1.step hnv hs, ?_⟩
  cases hs with
  | main h' => exact h.b3.mainG hnv h.b1 h'
  | reader h' => exact h.b3.reader h'
  | hasher i h' => exact h.b3.hasher h'
  | janitor h' => exact h.b3.janitorG h.b1 h'

theorem InvR.of_reachable {cfg : Cfg} {s : State} (hnv : NonVital cfg) (h : Reachable cfg s) :
    InvR cfg s :=
  Reachable.induction (P := InvR cfg) ⟨.init cfg, .init cfg⟩
    (fun _ _ _ hr hp hs => hp.step hnv (StepG.of_step (InvA.of_reachable hr) hs)) h

theorem InvR.threads_done {cfg : Cfg} {s : State} (h : InvR cfg s) (ht : terminal s = true) :
    allThreadsDone s = true := by
  obtain ⟨r, hm⟩ := result_of_terminal ht
  have hj := h.b3.m5 r hm
  have hr := h.b1.rjoined (by simp [hm, postReaderJoin])
  have hh := h.b3.jc2 (Or.inr hj)
  unfold allThreadsDone
  simp only [hr, hj, RPc.running, JPc.running, Bool.not_false, Bool.true_and, Bool.and_true,
    List.all_eq_true, Bool.not_eq_eq_eq_not, Bool.not_true]
  intro p hp
  obtain ⟨i, hi⟩ := List.mem_iff_getElem?.1 hp
  exact hh i p hi

end Torf.Pipeline
