/-
  Helper lemmas for C13 (quote/unquote, splitting, rendering).
-/
import Torf.Spec.MagnetUri
import Torf.Lemmas.MagnetHash
namespace Torf.Magnet

/-! ### quote_plus / unquote_plus -/

theorem utf8Decode_encode (s : Str) : utf8Decode (s.flatMap String.utf8EncodeChar) = some s := by
  have := @List.utf8Decode?_utf8Encode s
  unfold List.utf8Encode at this
  simp [utf8Decode, this]

/-- what one byte looks like after `quote_plus` and `replace('+', ' ')` -/
def quoteByteSp (b : UInt8) : Str :=
  if b.toNat = 32 then [' ']
  else if alwaysSafe b.toNat then [Char.ofNat b.toNat]
  else ['%', hexDigitUpper (b.toNat / 16), hexDigitUpper (b.toNat % 16)]

set_option maxRecDepth 100000 in
theorem byte_facts : ∀ n : Fin 256,
    (alwaysSafe n.val = true →
      Char.ofNat n.val ≠ '%' ∧ Char.ofNat n.val ≠ '+' ∧
      String.utf8EncodeChar (Char.ofNat n.val) = [UInt8.ofNat n.val]) ∧
    hexDigitUpper (n.val / 16) ≠ '+' ∧ hexDigitUpper (n.val % 16) ≠ '+' ∧
    hexVal (hexDigitUpper (n.val / 16)) = some (n.val / 16) ∧
    hexVal (hexDigitUpper (n.val % 16)) = some (n.val % 16) := by
  decide

theorem spaceForPlus_quoteByte (b : UInt8) : spaceForPlus (quotePlusByte b) = quoteByteSp b := by
  have hb := byte_facts ⟨b.toNat, UInt8.toNat_lt b⟩
  unfold quotePlusByte quoteByteSp spaceForPlus
  by_cases h1 : b.toNat = 32
  · simp [h1]
  · by_cases h2 : alwaysSafe b.toNat = true
    · simp [h1, h2, (hb.1 h2).2.1]
    · simp [h1, h2, hb.2.1, hb.2.2.1]

theorem spaceForPlus_flatMap (bs : List UInt8) :
    spaceForPlus (bs.flatMap quotePlusByte) = bs.flatMap quoteByteSp := by
  induction bs with
  | nil => rfl
  | cons b t ih =>
    simp only [List.flatMap_cons]
    unfold spaceForPlus at ih ⊢
    rw [List.map_append, ih]
    congr 1
    exact spaceForPlus_quoteByte b

theorem unquote_cons_ne (c : Char) (rest : Str) (h : c ≠ '%') :
    unquoteToBytes (c :: rest) = String.utf8EncodeChar c ++ unquoteToBytes rest := by
  rw [unquoteToBytes.eq_def]; simp [h]

theorem unquote_pct (a b : Char) (rest : Str) (x y : Nat) (ha : hexVal a = some x)
    (hb : hexVal b = some y) :
    unquoteToBytes ('%' :: a :: b :: rest) = UInt8.ofNat (x * 16 + y) :: unquoteToBytes rest := by
  rw [unquoteToBytes.eq_def]; simp [ha, hb]

theorem unquote_quoteByteSp (b : UInt8) (rest : Str) :
    unquoteToBytes (quoteByteSp b ++ rest) = b :: unquoteToBytes rest := by
  have hb := byte_facts ⟨b.toNat, UInt8.toNat_lt b⟩
  have hbb : UInt8.ofNat b.toNat = b := UInt8.ofNat_toNat
  unfold quoteByteSp
  by_cases h1 : b.toNat = 32
  · have : b = 32 := by rw [← hbb, h1]; rfl
    subst this
    show unquoteToBytes (' ' :: rest) = _
    rw [unquote_cons_ne _ _ (by decide)]
    rfl
  · by_cases h2 : alwaysSafe b.toNat = true
    · obtain ⟨n1, _, n3⟩ := hb.1 h2
      simp only [h1, h2, if_false, if_true, List.cons_append, List.nil_append]
      rw [unquote_cons_ne _ _ n1, n3, hbb]
      rfl
    · simp only [h1, h2, if_false, List.cons_append, List.nil_append, Bool.false_eq_true]
      rw [unquote_pct _ _ _ _ _ hb.2.2.2.1 hb.2.2.2.2]
      have : b.toNat / 16 * 16 + b.toNat % 16 = b.toNat := Nat.div_add_mod' _ _
      rw [this, hbb]

theorem unquote_flatMap (bs : List UInt8) : unquoteToBytes (bs.flatMap quoteByteSp) = bs := by
  induction bs with
  | nil => simp [unquoteToBytes]
  | cons b t ih => rw [List.flatMap_cons, unquote_quoteByteSp, ih]

theorem unquotePlus_quotePlus (s : Str) : unquotePlus (quotePlus s) = some s := by
  unfold unquotePlus quotePlus
  rw [spaceForPlus_flatMap, unquote_flatMap, utf8Decode_encode]

end Torf.Magnet
