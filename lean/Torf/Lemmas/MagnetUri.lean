/-
  Helper lemmas for C13 (quote/unquote, splitting, rendering).
-/
import Torf.Spec.MagnetUri
import Torf.Lemmas.MagnetHash
namespace Torf.Magnet

/-! ### quote_plus / unquote_plus -/

theorem utf8Decode_encode (s : Str) : utf8Decode (s.flatMap String.utf8EncodeChar) = some s := by
  have := @List.utf8Decode?_utf8Encode s
  unfold List.utf8Encode at this
  simp [utf8Decode, this]

/-- what one byte looks like after `quote_plus` and `replace('+', ' ')` -/
def quoteByteSp (b : UInt8) : Str :=
  if b.toNat = 32 then [' ']
  else if alwaysSafe b.toNat then [Char.ofNat b.toNat]
  else ['%', hexDigitUpper (b.toNat / 16), hexDigitUpper (b.toNat % 16)]

set_option maxRecDepth 100000 in
theorem byte_facts : ∀ n : Fin 256,
    (alwaysSafe n.val = true →
      Char.ofNat n.val ≠ '%' ∧ Char.ofNat n.val ≠ '+' ∧
      String.utf8EncodeChar (Char.ofNat n.val) = [UInt8.ofNat n.val]) ∧
    hexDigitUpper (n.val / 16) ≠ '+' ∧ hexDigitUpper (n.val % 16) ≠ '+' ∧
    hexVal (hexDigitUpper (n.val / 16)) = some (n.val / 16) ∧
    hexVal (hexDigitUpper (n.val % 16)) = some (n.val % 16) := by
  decide

theorem spaceForPlus_quoteByte (b : UInt8) : spaceForPlus (quotePlusByte b) = quoteByteSp b := by
  have hb := byte_facts ⟨b.toNat, UInt8.toNat_lt b⟩
  unfold quotePlusByte quoteByteSp spaceForPlus
  by_cases h1 : b.toNat = 32
  · simp [h1]
  · by_cases h2 : alwaysSafe b.toNat = true
    · simp [h1, h2, (hb.1 h2).2.1]
    · simp [h1, h2, hb.2.1, hb.2.2.1]

theorem spaceForPlus_flatMap (bs : List UInt8) :
    spaceForPlus (bs.flatMap quotePlusByte) = bs.flatMap quoteByteSp := by
  induction bs with
  | nil => rfl
  | cons b t ih =>
    simp only [List.flatMap_cons]
    unfold spaceForPlus at ih ⊢
    rw [List.map_append, ih]
    congr 1
    exact spaceForPlus_quoteByte b

theorem unquote_cons_ne (c : Char) (rest : Str) (h : c ≠ '%') :
    unquoteToBytes (c :: rest) = String.utf8EncodeChar c ++ unquoteToBytes rest := by
  rw [unquoteToBytes.eq_def]; simp [h]

theorem unquote_pct (a b : Char) (rest : Str) (x y : Nat) (ha : hexVal a = some x)
    (hb : hexVal b = some y) :
    unquoteToBytes ('%' :: a :: b :: rest) = UInt8.ofNat (x * 16 + y) :: unquoteToBytes rest := by
  rw [unquoteToBytes.eq_def]; simp [ha, hb]

theorem unquote_quoteByteSp (b : UInt8) (rest : Str) :
    unquoteToBytes (quoteByteSp b ++ rest) = b :: unquoteToBytes rest := by
  have hb := byte_facts ⟨b.toNat, UInt8.toNat_lt b⟩
  have hbb : UInt8.ofNat b.toNat = b := UInt8.ofNat_toNat
  unfold quoteByteSp
  by_cases h1 : b.toNat = 32
  · have : b = 32 := by rw [← hbb, h1]; rfl
    subst this
    show unquoteToBytes (' ' :: rest) = _
    rw [unquote_cons_ne _ _ (by decide)]
    rfl
  · by_cases h2 : alwaysSafe b.toNat = true
    · obtain ⟨n1, _, n3⟩ := hb.1 h2
      simp only [h1, h2, if_false, if_true, List.cons_append, List.nil_append]
      rw [unquote_cons_ne _ _ n1, n3, hbb]
      rfl
    · simp only [h1, h2, if_false, List.cons_append, List.nil_append, Bool.false_eq_true]
      rw [unquote_pct _ _ _ _ _ hb.2.2.2.1 hb.2.2.2.2]
      have : b.toNat / 16 * 16 + b.toNat % 16 = b.toNat := Nat.div_add_mod' _ _
      rw [this, hbb]

theorem unquote_flatMap (bs : List UInt8) : unquoteToBytes (bs.flatMap quoteByteSp) = bs := by
  induction bs with
  | nil => simp [unquoteToBytes]
  | cons b t ih => rw [List.flatMap_cons, unquote_quoteByteSp, ih]

theorem unquotePlus_quotePlus (s : Str) : unquotePlus (quotePlus s) = some s := by
  unfold unquotePlus quotePlus
  rw [spaceForPlus_flatMap, unquote_flatMap, utf8Decode_encode]

/-! ### splitting what was joined -/

theorem splitOnAux_noSep (sep : Char) (p cur : Str) (h : sep ∉ p) :
    splitOnAux sep p cur = [cur.reverse ++ p] := by
  induction p generalizing cur with
  | nil => simp [splitOnAux]
  | cons c t ih =>
    have hc : c ≠ sep := fun e => h (by simp [e])
    have ht : sep ∉ t := fun e => h (by simp [e])
    simp only [splitOnAux, hc, if_false]
    rw [ih _ ht]; simp

theorem splitOnAux_sep (sep : Char) (p rest cur : Str) (h : sep ∉ p) :
    splitOnAux sep (p ++ sep :: rest) cur = (cur.reverse ++ p) :: splitOnAux sep rest [] := by
  induction p generalizing cur with
  | nil => simp [splitOnAux]
  | cons c t ih =>
    have hc : c ≠ sep := fun e => h (by simp [e])
    have ht : sep ∉ t := fun e => h (by simp [e])
    simp only [List.cons_append, splitOnAux, hc, if_false]
    rw [ih _ ht]; simp

theorem splitOn_intercalate (sep : Char) (ps : List Str) (hne : ps ≠ [])
    (h : ∀ p ∈ ps, sep ∉ p) : splitOn sep (intercalateStr [sep] ps) = ps := by
  unfold splitOn
  induction ps with
  | nil => exact absurd rfl hne
  | cons p t ih =>
    cases t with
    | nil => simp [intercalateStr, splitOnAux_noSep sep p [] (h p (by simp))]
    | cons q t' =>
      simp only [intercalateStr, List.append_assoc, List.cons_append, List.nil_append]
      rw [splitOnAux_sep sep p _ [] (h p (by simp)), ih (by simp) (fun x hx => h x (by simp [hx]))]
      simp

theorem splitFirst_kv (sep : Char) (k v : Str) (h : sep ∉ k) :
    splitFirst sep (k ++ sep :: v) = (k, some v) := by
  induction k with
  | nil => simp [splitFirst]
  | cons c t ih =>
    have hc : c ≠ sep := fun e => h (by simp [e])
    have ht : sep ∉ t := fun e => h (by simp [e])
    simp only [List.cons_append, splitFirst, hc, if_false, ih ht]

/-- an encoded parameter: key, encoded value, decoded value -/
structure EP where
  k : Str
  enc : Str
  dec : Str

def EP.good (e : EP) : Prop :=
  '&' ∉ e.k ∧ '=' ∉ e.k ∧ '&' ∉ e.enc ∧ e.enc ≠ [] ∧ unquotePlus e.k = some e.k ∧
  unquotePlus e.enc = some e.dec

theorem parseQsl_pieces (eps : List EP) (hne : eps ≠ []) (h : ∀ e ∈ eps, e.good) :
    parseQsl (intercalateStr ['&'] (eps.map fun e => kv e.k e.enc)) =
      some (eps.map fun e => (e.k, e.dec)) := by
  unfold parseQsl
  rw [splitOn_intercalate '&' _ (by simpa using hne)]
  · clear hne
    induction eps with
    | nil => rfl
    | cons e t ih =>
      obtain ⟨_, h2, _, h4, h5, h6⟩ := h e (by simp)
      simp only [List.map_cons, List.foldr_cons]
      rw [ih (fun x hx => h x (by simp [hx]))]
      have hk : (e.k ++ '=' :: e.enc).isEmpty = false := by
        cases e.k <;> simp
      have he : e.enc.isEmpty = false := by cases hx : e.enc with
        | nil => exact absurd hx h4
        | cons _ _ => rfl
      simp only [kv, hk, splitFirst_kv '=' e.k e.enc h2, he, h5, h6, Bool.false_eq_true, if_false]
  · intro p hp
    obtain ⟨e, he, rfl⟩ := List.mem_map.mp hp
    obtain ⟨h1, _, h3, _⟩ := h e he
    unfold kv
    simp only [List.mem_append, List.mem_cons, not_or]
    exact ⟨h1, by decide, h3⟩

/-! ### characters of rendered values -/

theorem spaceForPlus_noPlus (s : Str) (h : ∀ c ∈ s, c ≠ '+') : spaceForPlus s = s := by
  unfold spaceForPlus
  conv => rhs; rw [← List.map_id s]
  apply List.map_congr_left
  intro c hc; simp [h c hc]

theorem unquoteToBytes_noPct (s : Str) (h : ∀ c ∈ s, c ≠ '%') :
    unquoteToBytes s = s.flatMap String.utf8EncodeChar := by
  induction s with
  | nil => simp [unquoteToBytes]
  | cons c t ih =>
    rw [unquote_cons_ne c t (h c (by simp)), ih (fun x hx => h x (by simp [hx]))]
    simp

/-- text without '%' and '+' is its own decoding -/
theorem unquotePlus_plain (s : Str) (h : ∀ c ∈ s, c ≠ '%' ∧ c ≠ '+') : unquotePlus s = some s := by
  unfold unquotePlus
  rw [spaceForPlus_noPlus s (fun c hc => (h c hc).2), unquoteToBytes_noPct s (fun c hc => (h c hc).1),
    utf8Decode_encode]

/-- a character that may appear in an encoded value: not a separator, not whitespace -/
def qOk (c : Char) : Bool := c != '&' && c != '=' && !isPySpace c

set_option maxRecDepth 100000 in
theorem quoteByte_chars : ∀ n : Fin 256, (quotePlusByte (UInt8.ofNat n.val)).all qOk = true ∧
    quotePlusByte (UInt8.ofNat n.val) ≠ [] := by
  decide

theorem quotePlus_chars (s : Str) : ∀ c ∈ quotePlus s, qOk c = true := by
  intro c hc
  unfold quotePlus at hc
  obtain ⟨b, _, hb⟩ := List.mem_flatMap.mp hc
  have := (quoteByte_chars ⟨b.toNat, UInt8.toNat_lt b⟩).1
  rw [UInt8.ofNat_toNat] at this
  exact List.all_eq_true.mp this c hb

theorem quotePlus_ne_nil (s : Str) (h : s ≠ []) : quotePlus s ≠ [] := by
  cases s with
  | nil => exact absurd rfl h
  | cons c t =>
    unfold quotePlus
    rw [List.flatMap_cons, List.flatMap_append]
    cases hb : String.utf8EncodeChar c with
    | nil => exact absurd hb String.utf8EncodeChar_ne_nil
    | cons b bs =>
      have := (quoteByte_chars ⟨b.toNat, UInt8.toNat_lt b⟩).2
      rw [UInt8.ofNat_toNat] at this
      rw [List.flatMap_cons]
      cases hq : quotePlusByte b with
      | nil => exact absurd hq this
      | cons _ _ => simp

theorem quotePlus_append (a b : Str) : quotePlus (a ++ b) = quotePlus a ++ quotePlus b := by
  simp [quotePlus, List.flatMap_append]

theorem quotePlus_space : quotePlus [' '] = ['+'] := by decide

theorem quotePlus_intercalate (ks : List Str) :
    quotePlus (intercalateStr [' '] ks) = intercalateStr ['+'] (ks.map quotePlus) := by
  induction ks with
  | nil => rfl
  | cons k t ih =>
    cases t with
    | nil => rfl
    | cons q t' =>
      simp only [intercalateStr, List.map_cons, quotePlus_append, quotePlus_space] at ih ⊢
      rw [ih]

theorem pySplitAux_word (k rest cur : Str) (h : ∀ c ∈ k, isPySpace c = false) :
    pySplitAux (k ++ rest) cur = pySplitAux rest (k.reverse ++ cur) := by
  induction k generalizing cur with
  | nil => rfl
  | cons c t ih =>
    simp only [List.cons_append, pySplitAux, h c (by simp), Bool.false_eq_true, if_false]
    rw [ih _ (fun x hx => h x (by simp [hx]))]
    simp

theorem pySplit_intercalate (ks : List Str)
    (h : ∀ k ∈ ks, k ≠ [] ∧ ∀ c ∈ k, isPySpace c = false) :
    pySplit (intercalateStr [' '] ks) = ks := by
  unfold pySplit
  induction ks with
  | nil => rfl
  | cons k t ih =>
    obtain ⟨hk1, hk2⟩ := h k (by simp)
    have hrev : (k.reverse ++ ([] : Str)).isEmpty = false := by
      cases k with
      | nil => exact absurd rfl hk1
      | cons _ _ => simp
    cases t with
    | nil =>
      have := pySplitAux_word k [] [] hk2
      simp only [List.append_nil] at this hrev
      simp only [intercalateStr, this, pySplitAux, hrev, Bool.false_eq_true, if_false, List.reverse_reverse]
    | cons q t' =>
      simp only [intercalateStr, List.append_assoc, List.cons_append, List.nil_append]
      rw [pySplitAux_word k _ [] hk2]
      have hsp : isPySpace ' ' = true := by decide
      simp only [List.append_nil] at hrev ⊢
      simp only [pySplitAux, hsp, if_true, hrev, Bool.false_eq_true, if_false, List.reverse_reverse]
      rw [ih (fun x hx => h x (by simp [hx]))]

/-! ### decimal rendering of xl -/

theorem decLen_spec (fuel n : Nat) (h : n ≤ fuel) : n < 10 ^ decLen fuel n := by
  induction fuel generalizing n with
  | zero => have : n = 0 := by omega
            subst this; simp [decLen]
  | succ f ih =>
    unfold decLen
    by_cases hn : n < 10
    · simp [hn]
    · simp only [hn, if_false, Nat.pow_succ]
      have := ih (n / 10) (by omega)
      omega

theorem decLen_pos (fuel n : Nat) : 0 < decLen fuel n := by
  cases fuel with
  | zero => simp [decLen]
  | succ f => unfold decLen; split <;> omega

theorem digit_facts : ∀ d : Fin 10, isDigit (digitChar d.val) = true ∧ (digitChar d.val).toNat - 48 = d.val ∧
    digitChar d.val ≠ '%' ∧ digitChar d.val ≠ '+' ∧ qOk (digitChar d.val) = true := by decide

theorem decimal_mem (n : Nat) (c : Char) (hc : c ∈ decimal n) : ∃ d : Fin 10, c = digitChar d.val := by
  unfold decimal at hc
  obtain ⟨d, hd, rfl⟩ := List.mem_map.mp hc
  exact ⟨⟨d, toDigits_lt 10 _ n (by decide) d hd⟩, rfl⟩

theorem decimal_ne_nil (n : Nat) : decimal n ≠ [] := by
  intro h
  have := congrArg List.length h
  simp [decimal, toDigits_length] at this
  have := decLen_pos n n
  omega

theorem pyIntStr_decimal (oracle : Str → IntResult) (n : Nat) (h : decLen n n ≤ 4300) :
    pyIntStr oracle (decimal n) = some (Int.ofNat n) := by
  unfold pyIntStr
  have h1 : (decimal n).isEmpty = false := by
    cases hx : decimal n with
    | nil => exact absurd hx (decimal_ne_nil n)
    | cons _ _ => rfl
  have h2 : (decimal n).all isDigit = true := by
    rw [List.all_eq_true]; intro c hc
    obtain ⟨d, rfl⟩ := decimal_mem n c hc
    exact (digit_facts d).1
  have h3 : (decimal n).length ≤ 4300 := by simpa [decimal, toDigits_length] using h
  simp only [h1, h2, h3, Bool.not_false, Bool.and_self, decide_true, if_true]
  congr 2
  unfold decimal
  rw [List.map_map]
  have : (toDigits 10 (decLen n n) n).map ((fun c => c.toNat - 48) ∘ digitChar) = toDigits 10 (decLen n n) n := by
    conv => rhs; rw [← List.map_id (toDigits 10 (decLen n n) n)]
    apply List.map_congr_left
    intro d hd
    exact (digit_facts ⟨d, toDigits_lt 10 _ n (by decide) d hd⟩).2.1
  rw [this]
  exact ofDigits_toDigits 10 _ n (decLen_spec n n (Nat.le_refl n))

/-! ### strip and urlparse on a rendered link -/

theorem dropWhile_none (p : Char → Bool) (s : Str) (h : ∀ c ∈ s, p c = false) : s.dropWhile p = s := by
  cases s with
  | nil => rfl
  | cons c t => simp [List.dropWhile, h c (by simp)]

theorem pyStrip_id (s : Str) (h : ∀ c ∈ s, isPySpace c = false) : pyStrip s = s := by
  unfold pyStrip
  rw [dropWhile_none _ s h, dropWhile_none _ s.reverse (fun c hc => h c (by simpa using hc))]
  simp

theorem notSpace_notCtl (c : Char) (h : isPySpace c = false) :
    (!(c = '\t' || c = '\r' || c = '\n')) = true := by
  by_cases h1 : c = '\t'
  · subst h1; revert h; decide
  · by_cases h2 : c = '\r'
    · subst h2; revert h; decide
    · by_cases h3 : c = '\n'
      · subst h3; revert h; decide
      · simp [h1, h2, h3]

theorem urlparse_rendered (q : Str) (h : ∀ c ∈ q, isPySpace c = false) :
    urlparseMagnet (pyStrip (magnetPrefix ++ q)) = some (['m', 'a', 'g', 'n', 'e', 't'], q) := by
  have hall : ∀ c ∈ magnetPrefix ++ q, isPySpace c = false := by
    intro c hc
    rcases List.mem_append.mp hc with hc | hc
    · have : ∀ x ∈ magnetPrefix, isPySpace x = false := by decide
      exact this c hc
    · exact h c hc
  rw [pyStrip_id _ hall]
  unfold urlparseMagnet
  have hf : (magnetPrefix ++ q).filter (fun c => !(c = '\t' || c = '\r' || c = '\n')) = magnetPrefix ++ q := by
    rw [List.filter_eq_self]
    intro c hc
    exact notSpace_notCtl c (hall c hc)
  have hd : (magnetPrefix ++ q).dropWhile (fun c => decide (c.toNat ≤ 32)) = magnetPrefix ++ q := by
    simp [magnetPrefix, List.dropWhile]
  simp only [hd, hf]
  simp [magnetPrefix, splitFirst, isLowerAZ, isUpperAZ, isSchemeChar, isDigit, inR, asciiLower]

/-! ### the rendered parameters of a well-formed magnet -/

def epsOf (m : MagnetObj) : List EP :=
  [⟨kXt, urnPrefix ++ m.infohash, urnPrefix ++ m.infohash⟩]
  ++ (match m.dn with | some d => [⟨kDn, quotePlus d, d⟩] | none => [])
  ++ (match m.xl with | some n => [⟨kXl, decimal n, decimal n⟩] | none => [])
  ++ (match m.xs with | some u => [⟨kXs, quotePlus u, u⟩] | none => [])
  ++ (if m.kt.isEmpty then [] else
        [⟨kKt, intercalateStr ['+'] (m.kt.map quotePlus), intercalateStr [' '] m.kt⟩])
  ++ m.tr.map (fun u => ⟨kTr, quotePlus u, u⟩)
  ++ m.ws.map (fun u => ⟨kWs, quotePlus u, u⟩)

theorem pieces_eq (m : MagnetObj) (h1 : m.as_ = none) (h2 : m.x = []) :
    pieces m = (epsOf m).map (fun e => kv e.k e.enc) := by
  unfold pieces epsOf
  rw [h1, h2]
  cases m.dn <;> cases m.xl <;> cases m.xs <;> by_cases hk : m.kt.isEmpty = true <;>
    simp [optPiece, hk, List.map_map, Function.comp_def]

def EP.good2 (e : EP) : Prop := e.good ∧ ∀ c ∈ e.k ++ e.enc, isPySpace c = false

def isKey (k : Str) : Prop := k = kXt ∨ k = kDn ∨ k = kXl ∨ k = kXs ∨ k = kKt ∨ k = kTr ∨ k = kWs

theorem key_facts (k : Str) (hk : isKey k) :
    '&' ∉ k ∧ '=' ∉ k ∧ unquotePlus k = some k ∧ ∀ c ∈ k, isPySpace c = false := by
  have plain : (∀ c ∈ k, c ≠ '%' ∧ c ≠ '+') := by
    rcases hk with h | h | h | h | h | h | h <;> subst h <;> decide
  refine ⟨?_, ?_, unquotePlus_plain k plain, ?_⟩ <;>
    rcases hk with h | h | h | h | h | h | h <;> subst h <;> decide

theorem good_quoted (k s : Str) (hk : isKey k) (hs : s ≠ []) : (EP.mk k (quotePlus s) s).good2 := by
  obtain ⟨k1, k2, k3, k4⟩ := key_facts k hk
  have hq := quotePlus_chars s
  refine ⟨⟨k1, k2, ?_, quotePlus_ne_nil s hs, k3, unquotePlus_quotePlus s⟩, ?_⟩
  · intro hm
    have := hq _ hm
    revert this; decide
  · intro c hc
    rcases List.mem_append.mp hc with hc | hc
    · exact k4 c hc
    · have := hq c hc
      simp only [qOk, Bool.and_eq_true, Bool.not_eq_true'] at this
      exact this.2

theorem good_plain (k v : Str) (hk : isKey k) (hv : v ≠ [])
    (hc : ∀ c ∈ v, c ≠ '%' ∧ c ≠ '+' ∧ c ≠ '&' ∧ isPySpace c = false) : (EP.mk k v v).good2 := by
  obtain ⟨k1, k2, k3, k4⟩ := key_facts k hk
  refine ⟨⟨k1, k2, fun hm => (hc _ hm).2.2.1 rfl, hv, k3,
    unquotePlus_plain v (fun c h => ⟨(hc c h).1, (hc c h).2.1⟩)⟩, ?_⟩
  intro c h
  rcases List.mem_append.mp h with h | h
  · exact k4 c h
  · exact (hc c h).2.2.2

theorem mid_char_ok (c : Char) (h : 48 ≤ c.toNat) (h2 : c.toNat ≤ 122) :
    c ≠ '%' ∧ c ≠ '+' ∧ c ≠ '&' ∧ isPySpace c = false := by
  refine ⟨?_, ?_, ?_, ?_⟩
  · intro e; subst e; revert h; decide
  · intro e; subst e; revert h; decide
  · intro e; subst e; revert h; decide
  · simp [isPySpace]; omega

theorem hash_chars (ih : Str) (h : validHash ih = true) :
    ∀ c ∈ urnPrefix ++ ih, c ≠ '%' ∧ c ≠ '+' ∧ c ≠ '&' ∧ isPySpace c = false := by
  intro c hc
  rcases List.mem_append.mp hc with hc | hc
  · have : ∀ x ∈ urnPrefix, x ≠ '%' ∧ x ≠ '+' ∧ x ≠ '&' ∧ isPySpace x = false := by decide
    exact this c hc
  · simp only [validHash, Hex40, B32x32, Bool.or_eq_true, Bool.and_eq_true, decide_eq_true_eq,
      List.all_eq_true] at h
    have : isHexAscii c = true ∨ isB32Ascii c = true := by
      rcases h with ⟨_, h⟩ | ⟨_, h⟩
      · exact Or.inl (h c hc)
      · exact Or.inr (h c hc)
    apply mid_char_ok
    · simp only [isHexAscii, isB32Ascii, isDigit, isLowerAZ, isUpperAZ, inR, Bool.or_eq_true,
        Bool.and_eq_true, decide_eq_true_eq] at this
      omega
    · simp only [isHexAscii, isB32Ascii, isDigit, isLowerAZ, isUpperAZ, inR, Bool.or_eq_true,
        Bool.and_eq_true, decide_eq_true_eq] at this
      omega

theorem decimal_chars (n : Nat) :
    ∀ c ∈ decimal n, c ≠ '%' ∧ c ≠ '+' ∧ c ≠ '&' ∧ isPySpace c = false := by
  intro c hc
  obtain ⟨d, rfl⟩ := decimal_mem n c hc
  obtain ⟨_, _, h3, h4, h5⟩ := digit_facts d
  simp only [qOk, Bool.and_eq_true, Bool.not_eq_true', bne_iff_ne, ne_eq] at h5
  exact ⟨h3, h4, h5.1.1, h5.2⟩

theorem intercalate_ne_nil (sep : Str) (ks : List Str) (h : ∀ k ∈ ks, k ≠ []) (hne : ks ≠ []) :
    intercalateStr sep ks ≠ [] := by
  cases ks with
  | nil => exact absurd rfl hne
  | cons k t =>
    have hk := h k (by simp)
    cases t with
    | nil => simpa [intercalateStr] using hk
    | cons q t' => simp [intercalateStr, hk]

theorem epsOf_good (isUrl : Str → Bool) (m : MagnetObj) (h : WF isUrl m = true) :
    ∀ e ∈ epsOf m, e.good2 := by
  simp only [WF, Bool.and_eq_true, List.all_eq_true, decide_eq_true_eq] at h
  obtain ⟨⟨⟨⟨⟨⟨⟨⟨⟨⟨hih, hdn⟩, hxl⟩, htr⟩, _⟩, hxs⟩, _⟩, hws⟩, _⟩, hkt⟩, _⟩ := h
  intro e he
  simp only [epsOf, List.mem_append, List.mem_cons, List.not_mem_nil, or_false, List.mem_map] at he
  rcases he with (((((he | he) | he) | he) | he) | he) | he
  · subst he
    exact good_plain _ _ (Or.inl rfl) (by simp [urnPrefix]) (hash_chars _ hih)
  · cases hd : m.dn with
    | none => rw [hd] at he; simp at he
    | some d =>
      rw [hd] at he hdn; simp at he; subst he
      refine good_quoted _ _ (Or.inr (Or.inl rfl)) ?_
      intro e; subst e; simp at hdn
  · cases hd : m.xl with
    | none => rw [hd] at he; simp at he
    | some n =>
      rw [hd] at he; simp at he; subst he
      exact good_plain _ _ (Or.inr (Or.inr (Or.inl rfl))) (decimal_ne_nil n) (decimal_chars n)
  · cases hd : m.xs with
    | none => rw [hd] at he; simp at he
    | some u =>
      rw [hd] at he hxs; simp at he; subst he
      refine good_quoted _ _ (Or.inr (Or.inr (Or.inr (Or.inl rfl)))) ?_
      intro e; subst e; simp [urlOk] at hxs
  · by_cases hk : m.kt.isEmpty = true
    · simp [hk] at he
    · simp only [hk, if_false, List.mem_cons, List.not_mem_nil, or_false, Bool.false_eq_true] at he
      subst he
      rw [← quotePlus_intercalate]
      refine good_quoted _ _ (Or.inr (Or.inr (Or.inr (Or.inr (Or.inl rfl))))) ?_
      apply intercalate_ne_nil
      · intro k hk' e; subst e
        have := hkt _ hk'; simp [keywordOk] at this
      · intro e; simp [e] at hk
  · obtain ⟨u, hu, rfl⟩ := he
    refine good_quoted _ _ (Or.inr (Or.inr (Or.inr (Or.inr (Or.inr (Or.inl rfl)))))) ?_
    intro e; subst e; have := htr _ hu; simp [urlOk] at this
  · obtain ⟨u, hu, rfl⟩ := he
    refine good_quoted _ _ (Or.inr (Or.inr (Or.inr (Or.inr (Or.inr (Or.inr rfl)))))) ?_
    intro e; subst e; have := hws _ hu; simp [urlOk] at this

/-! ### the parser on the rendered parameters -/

theorem mem_intercalate (sep : Str) (ps : List Str) (c : Char) (h : c ∈ intercalateStr sep ps) :
    c ∈ sep ∨ ∃ p ∈ ps, c ∈ p := by
  induction ps with
  | nil => simp [intercalateStr] at h
  | cons p t ih =>
    cases t with
    | nil => exact Or.inr ⟨p, by simp, by simpa [intercalateStr] using h⟩
    | cons q t' =>
      simp only [intercalateStr, List.mem_append] at h
      rcases h with (h | h) | h
      · exact Or.inr ⟨p, by simp, h⟩
      · exact Or.inl h
      · rcases ih h with h' | ⟨x, hx, hc⟩
        · exact Or.inl h'
        · exact Or.inr ⟨x, by simp [hx], hc⟩

def pairsOf (m : MagnetObj) : List (Str × Str) := (epsOf m).map (fun e => (e.k, e.dec))

theorem epsOf_ne_nil (m : MagnetObj) : epsOf m ≠ [] := by simp [epsOf]

theorem query_parse (isUrl : Str → Bool) (m : MagnetObj) (h : WF isUrl m = true) :
    urlparseMagnet (pyStrip (render m)) =
      some (['m', 'a', 'g', 'n', 'e', 't'], intercalateStr ['&'] (pieces m)) ∧
    parseQsl (intercalateStr ['&'] (pieces m)) = some (pairsOf m) := by
  have hwf := h
  simp only [WF, Bool.and_eq_true, Option.isNone_iff_eq_none, List.isEmpty_iff] at h
  have has : m.as_ = none := h.1.1.1.1.2
  have hx : m.x = [] := h.2
  have hg := epsOf_good isUrl m hwf
  rw [pieces_eq m has hx]
  constructor
  · unfold render
    rw [pieces_eq m has hx]
    apply urlparse_rendered
    intro c hc
    rcases mem_intercalate _ _ c hc with hc | ⟨p, hp, hc⟩
    · simp at hc; subst hc; decide
    · obtain ⟨e, he, rfl⟩ := List.mem_map.mp hp
      have := (hg e he).2
      unfold kv at hc
      simp only [List.mem_append, List.mem_cons] at hc this
      rcases hc with hc | hc | hc
      · exact this c (Or.inl hc)
      · subst hc; decide
      · exact this c (Or.inr hc)
  · exact parseQsl_pieces (epsOf m) (epsOf_ne_nil m) (fun e he => (hg e he).1)

theorem valuesOf_append (k : Str) (a b : List (Str × Str)) :
    valuesOf k (a ++ b) = valuesOf k a ++ valuesOf k b := by
  simp [valuesOf, List.filterMap_append]

theorem valuesOf_map (k k' : Str) (us : List Str) :
    valuesOf k (us.map fun u => (k', u)) = if k' = k then us else [] := by
  induction us with
  | nil => simp [valuesOf]
  | cons u t ih =>
    simp only [valuesOf, List.map_cons, List.filterMap_cons] at ih ⊢
    by_cases h : k' = k <;> simp [h] at ih ⊢ <;> exact ih

theorem isKey_known (k : Str) (h : isKey k) : isKnownKey k = true := by
  rcases h with h | h | h | h | h | h | h <;> subst h <;> decide

theorem epsOf_keys (m : MagnetObj) : ∀ e ∈ epsOf m, isKey e.k := by
  intro e he
  simp only [epsOf, List.mem_append, List.mem_cons, List.not_mem_nil, or_false, List.mem_map] at he
  rcases he with (((((he | he) | he) | he) | he) | he) | he
  · subst he; exact Or.inl rfl
  · cases hd : m.dn <;> rw [hd] at he <;> simp at he; subst he; exact Or.inr (Or.inl rfl)
  · cases hd : m.xl <;> rw [hd] at he <;> simp at he; subst he; exact Or.inr (Or.inr (Or.inl rfl))
  · cases hd : m.xs <;> rw [hd] at he <;> simp at he; subst he
    exact Or.inr (Or.inr (Or.inr (Or.inl rfl)))
  · by_cases hk : m.kt.isEmpty = true
    · simp [hk] at he
    · simp only [hk, if_false, List.mem_cons, List.not_mem_nil, or_false, Bool.false_eq_true] at he
      subst he; exact Or.inr (Or.inr (Or.inr (Or.inr (Or.inl rfl))))
  · obtain ⟨u, _, rfl⟩ := he; exact Or.inr (Or.inr (Or.inr (Or.inr (Or.inr (Or.inl rfl)))))
  · obtain ⟨u, _, rfl⟩ := he; exact Or.inr (Or.inr (Or.inr (Or.inr (Or.inr (Or.inr rfl)))))

theorem pairsOf_eq (m : MagnetObj) : pairsOf m =
    [(kXt, urnPrefix ++ m.infohash)]
    ++ (match m.dn with | some d => [(kDn, d)] | none => [])
    ++ (match m.xl with | some n => [(kXl, decimal n)] | none => [])
    ++ (match m.xs with | some u => [(kXs, u)] | none => [])
    ++ (if m.kt.isEmpty then [] else [(kKt, intercalateStr [' '] m.kt)])
    ++ m.tr.map (fun u => (kTr, u)) ++ m.ws.map (fun u => (kWs, u)) := by
  unfold pairsOf epsOf
  cases m.dn <;> cases m.xl <;> cases m.xs <;> by_cases hk : m.kt.isEmpty = true <;>
    simp [hk, List.map_map, Function.comp_def]

theorem valuesOf_pairsOf (m : MagnetObj) :
    valuesOf kXt (pairsOf m) = [urnPrefix ++ m.infohash] ∧
    valuesOf kDn (pairsOf m) = m.dn.toList ∧
    valuesOf kXl (pairsOf m) = (m.xl.map decimal).toList ∧
    valuesOf kXs (pairsOf m) = m.xs.toList ∧
    valuesOf kAs (pairsOf m) = [] ∧
    valuesOf kKt (pairsOf m) = (if m.kt.isEmpty then [] else [intercalateStr [' '] m.kt]) ∧
    valuesOf kTr (pairsOf m) = m.tr ∧
    valuesOf kWs (pairsOf m) = m.ws := by
  rw [pairsOf_eq]
  simp only [valuesOf_append, valuesOf_map]
  cases m.dn <;> cases m.xl <;> cases m.xs <;> by_cases hk : m.kt.isEmpty = true <;>
    simp [hk, valuesOf, kXt, kDn, kXl, kXs, kAs, kKt, kTr, kWs]

/-! ### the setters on the parsed values -/

theorem construct_urn (ih : Str) (h : validHash ih = true) :
    construct (urnPrefix ++ ih) = (none, some ih) := by
  have hlen : validHash (urnPrefix ++ ih) = false := by
    have hl : ih.length = 40 ∨ ih.length = 32 := by
      simp only [validHash, Hex40, B32x32, Bool.or_eq_true, Bool.and_eq_true, decide_eq_true_eq] at h
      rcases h with ⟨h, _⟩ | ⟨h, _⟩ <;> omega
    simp only [validHash, Hex40, B32x32, List.length_append, urnPrefix_length]
    rcases hl with hl | hl <;> simp [hl]
  have h1 : infohashRe (urnPrefix ++ ih) = none := by
    have := infohashRe_isSome (urnPrefix ++ ih)
    rw [hlen] at this
    simpa using this
  have hdrop : (urnPrefix ++ ih).drop 9 = ih := by simp [urnPrefix]
  have h2 : xtRe (urnPrefix ++ ih) = some ih := by
    rw [xtRe_eq_some, hdrop]
    refine ⟨?_, h, rfl⟩
    have : (urnPrefix ++ ih).take 9 = urnPrefix := by simp [urnPrefix]
    simp only [hasUrn, this]
    decide
  simp [construct, setXt, h1, h2]

theorem dedup_nodup (acc us : List Str) (h : (acc ++ us).Nodup) : dedup acc us = acc ++ us := by
  induction us generalizing acc with
  | nil => simp [dedup]
  | cons u t ih =>
    have hu : u ∉ acc := by
      intro hm
      rw [List.nodup_append] at h
      exact h.2.2 u hm u (by simp) rfl
    simp only [dedup, hu, if_false]
    rw [ih (acc ++ [u]) (by simpa using h)]
    simp

theorem plusForSpace_noSpace (u : Str) (h : ' ' ∉ u) : plusForSpace u = u := by
  unfold plusForSpace
  conv => rhs; rw [← List.map_id u]
  apply List.map_congr_left
  intro c hc
  have : c ≠ ' ' := fun e => h (e ▸ hc)
  simp [this]

theorem normDn_id (d : Str) (h : '\n' ∉ d) : normDn d = d := by
  unfold normDn
  conv => rhs; rw [← List.map_id d]
  apply List.map_congr_left
  intro c hc
  have : c ≠ '\n' := fun e => h (e ▸ hc)
  simp [this]

theorem urlOk_iff (isUrl : Str → Bool) (u : Str) (h : urlOk isUrl u = true) :
    isUrl u = true ∧ ' ' ∉ u := by
  simp only [urlOk, Bool.and_eq_true, Bool.not_eq_true', List.contains_eq_mem, decide_eq_false_iff_not] at h
  exact ⟨h.1.1, h.2⟩

theorem setUrls_ok (isUrl : Str → Bool) (us : List Str) (h : us.all (urlOk isUrl) = true)
    (hn : us.Nodup) : setUrls isUrl [] us = (none, us) := by
  rw [List.all_eq_true] at h
  have hmap : us.map plusForSpace = us := by
    conv => rhs; rw [← List.map_id us]
    apply List.map_congr_left
    intro u hu; exact plusForSpace_noSpace u (urlOk_iff isUrl u (h u hu)).2
  unfold setUrls
  rw [mapM_mkUrl]
  have hacc : ∀ u ∈ us, urlAccepts isUrl u = true := by
    intro u hu
    obtain ⟨h1, h2⟩ := urlOk_iff isUrl u (h u hu)
    simp [urlAccepts, plusForSpace_noSpace u h2, h1]
  have hall : us.all (urlAccepts isUrl) = true := List.all_eq_true.mpr hacc
  simp only [hall, if_true, hmap]
  rw [insertAll_stable isUrl [] us (fun u hu => by
    have := mkUrl_coerced isUrl u (hacc u hu)
    rwa [plusForSpace_noSpace u (urlOk_iff isUrl u (h u hu)).2] at this)]
  rw [dedup_nodup [] us (by simpa using hn)]
  rfl

theorem setUrl_ok (isUrl : Str → Bool) (u : Str) (h : urlOk isUrl u = true) :
    setUrl isUrl none (some u) = (none, some u) := by
  obtain ⟨h1, h2⟩ := urlOk_iff isUrl u h
  simp [setUrl, mkUrl, h1, plusForSpace_noSpace u h2]

theorem setUrl_none (isUrl : Str → Bool) : setUrl isUrl none none = (none, none) := rfl

theorem fromPairs_pairsOf (isUrl : Str → Bool) (intO : Str → IntResult) (m : MagnetObj)
    (h : WF isUrl m = true) : fromPairs isUrl intO (pairsOf m) = .ok m := by
  obtain ⟨vXt, vDn, vXl, vXs, vAs, vKt, vTr, vWs⟩ := valuesOf_pairsOf m
  have hknown : ((pairsOf m).all fun p => isKnownKey p.1) = true := by
    rw [List.all_eq_true]
    intro p hp
    obtain ⟨e, he, rfl⟩ := List.mem_map.mp hp
    exact isKey_known _ (epsOf_keys m e he)
  simp only [WF, Bool.and_eq_true, List.all_eq_true, decide_eq_true_eq, Option.isNone_iff_eq_none,
    List.isEmpty_iff] at h
  obtain ⟨⟨⟨⟨⟨⟨⟨⟨⟨⟨hih, hdn⟩, hxl⟩, htr⟩, htrn⟩, hxs⟩, has⟩, hws⟩, hwsn⟩, hkt⟩, hx⟩ := h
  have c1 := construct_urn m.infohash hih
  have c2 := setUrls_ok isUrl m.tr (List.all_eq_true.mpr htr) htrn
  have c3 := setUrls_ok isUrl m.ws (List.all_eq_true.mpr hws) hwsn
  have hsp : m.kt ≠ [] → pySplit (intercalateStr [' '] m.kt) = m.kt := by
    intro _
    apply pySplit_intercalate
    intro k hk'
    have := hkt k hk'
    simp only [keywordOk, Bool.and_eq_true, Bool.not_eq_true', List.all_eq_true, List.isEmpty_eq_false_iff] at this
    exact ⟨this.1, this.2⟩
  obtain ⟨ih, dn, xl, tr, xs, as_, ws, kt, x⟩ := m
  simp only at *
  subst has hx
  unfold fromPairs
  simp only [hknown, vXt, vDn, vXl, vXs, vAs, vKt, vTr, vWs]
  cases dn with
  | none =>
    cases xl with
    | none =>
      cases xs with
      | none =>
        by_cases hk : kt = []
        · subst hk; simp [c1, c2, c3, liftSet, single, setUrl_none, bind, Except.bind, pure, Except.pure]
        · simp [c1, c2, c3, liftSet, single, setUrl_none, hk, hsp hk, bind, Except.bind, pure, Except.pure]
      | some u =>
        by_cases hk : kt = []
        · subst hk; simp [c1, c2, c3, liftSet, single, setUrl_ok isUrl u hxs, setUrl_none, bind, Except.bind, pure, Except.pure]
        · simp [c1, c2, c3, liftSet, single, setUrl_ok isUrl u hxs, setUrl_none, hk, hsp hk, bind, Except.bind, pure, Except.pure]
    | some n =>
      have hxl' : 1 ≤ n ∧ decLen n n ≤ 4300 := by simpa using hxl
      have hn := pyIntStr_decimal intO n hxl'.2
      have h1 : ¬ ((n : Int) < 1) := by have := hxl'.1; omega
      cases xs with
      | none =>
        by_cases hk : kt = []
        · subst hk; simp [c1, c2, c3, liftSet, single, setUrl_none, setXl, hn, h1, bind, Except.bind, pure, Except.pure]
        · simp [c1, c2, c3, liftSet, single, setUrl_none, setXl, hn, h1, hk, hsp hk, bind, Except.bind, pure, Except.pure]
      | some u =>
        by_cases hk : kt = []
        · subst hk; simp [c1, c2, c3, liftSet, single, setUrl_ok isUrl u hxs, setUrl_none, setXl, hn, h1, bind, Except.bind, pure, Except.pure]
        · simp [c1, c2, c3, liftSet, single, setUrl_ok isUrl u hxs, setUrl_none, setXl, hn, h1, hk, hsp hk, bind, Except.bind, pure, Except.pure]
  | some d =>
    have hdn' : ¬ d = [] ∧ '\n' ∉ d := by simpa using hdn
    have hd : normDn d = d := normDn_id d hdn'.2
    cases xl with
    | none =>
      cases xs with
      | none =>
        by_cases hk : kt = []
        · subst hk; simp [c1, c2, c3, liftSet, single, setUrl_none, hd, bind, Except.bind, pure, Except.pure]
        · simp [c1, c2, c3, liftSet, single, setUrl_none, hd, hk, hsp hk, bind, Except.bind, pure, Except.pure]
      | some u =>
        by_cases hk : kt = []
        · subst hk; simp [c1, c2, c3, liftSet, single, setUrl_ok isUrl u hxs, setUrl_none, hd, bind, Except.bind, pure, Except.pure]
        · simp [c1, c2, c3, liftSet, single, setUrl_ok isUrl u hxs, setUrl_none, hd, hk, hsp hk, bind, Except.bind, pure, Except.pure]
    | some n =>
      have hxl' : 1 ≤ n ∧ decLen n n ≤ 4300 := by simpa using hxl
      have hn := pyIntStr_decimal intO n hxl'.2
      have h1 : ¬ ((n : Int) < 1) := by have := hxl'.1; omega
      cases xs with
      | none =>
        by_cases hk : kt = []
        · subst hk; simp [c1, c2, c3, liftSet, single, setUrl_none, setXl, hn, h1, hd, bind, Except.bind, pure, Except.pure]
        · simp [c1, c2, c3, liftSet, single, setUrl_none, setXl, hn, h1, hd, hk, hsp hk, bind, Except.bind, pure, Except.pure]
      | some u =>
        by_cases hk : kt = []
        · subst hk; simp [c1, c2, c3, liftSet, single, setUrl_ok isUrl u hxs, setUrl_none, setXl, hn, h1, hd, bind, Except.bind, pure, Except.pure]
        · simp [c1, c2, c3, liftSet, single, setUrl_ok isUrl u hxs, setUrl_none, setXl, hn, h1, hd, hk, hsp hk, bind, Except.bind, pure, Except.pure]

end Torf.Magnet
