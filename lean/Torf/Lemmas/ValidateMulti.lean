/-
  `validate`, the multi-file branch, part 2: `checkMulti` and the content-path loop.
-/
import Torf.Lemmas.ValidateFile
namespace Torf.Validate
open Torf Torf.Export

variable (urlOk : Bytes → Bool) (fs : FsOracle)

theorem checkFileOnDisk_err {x : PyVal} {i : Nat} {e : ErrKind} (hx : EntryFacts x)
    (hj : entryJoinable x = true) (h : checkFileOnDisk fs i x = .error e) :
    e = .metainfo := by
  obtain ⟨en, l, len, p, comps, rfl, hl, _, _, hnum, _, hp, hpi, hcomps, _⟩ := hx
  obtain ⟨comps', hcomps', hie⟩ := iterE_of_isIterable hpi
  have hjo : joinable comps' = true := by
    simpa [entryJoinable, hp, hcomps'] using hj
  unfold checkFileOnDisk at h
  simp only [bind, Except.bind, getE_ok (getItem_dict_s_some hp), hie, hjo, Bool.not_true,
    Bool.false_eq_true, if_false, pure, Except.pure] at h
  rcases statSize_cases (fs.fileStat i) with ⟨n, _, hs⟩ | ⟨_, hs⟩
  · rw [hs] at h
    simp only [getE_ok (getItem_dict_s_some hl), hnum] at h
    split at h
    · simpa [throw, throwThe, MonadExceptOf.throw, eq_comm] using h
    · exact absurd h (by simp)
  · rw [hs] at h; simpa [eq_comm] using h

/-- what the multi-file branch establishes -/
def MultiFacts (info : Items) (plen : Nat) : Prop :=
  ∃ fl files pv, PyVal.lookupStr "files" info = some fl ∧ fl.isIterable = true ∧
    pyIter fl = some files ∧ (∀ x ∈ files, EntryFacts x) ∧
    PyVal.lookupStr "piece length" info = some pv ∧
    ((plen / 20 : Nat) : Int) = expPieces ((files.map fileLen).sum) (intVal pv)

theorem checkMulti_cases {items info : Items} (cf : CommonFacts urlOk items info) (plen : Nat)
    (hnm : ∀ fl, PyVal.lookupStr "files" info = some fl → fl.isDict = false)
    (r : Except ErrKind Unit) (h : checkMulti fs (.dict items) (.dict info) plen = r) :
    (r = .ok () → MultiFacts info plen) ∧
    (∀ e, r = .error e →
      (fs.hasPath = true → ∀ fl files, PyVal.lookupStr "files" info = some fl →
        pyIter fl = some files → ∀ x ∈ files, entryJoinable x = true) → e = .metainfo) := by
  subst h
  obtain ⟨pv, hpv, _, hpd⟩ := cf.pieceLength
  unfold checkMulti
  rw [assertType_info cf.hinfo]
  cases h1 : assertFinal (.dict info) (.s "files") { types := PyVal.isIterable } with
  | error e1 =>
    refine ⟨fun h => absurd h (by simp [bind, Except.bind]), fun e h _ => ?_⟩
    simp only [bind, Except.bind, Except.error.injEq] at h
    subst h
    exact assertFinal_dict_err h1
  | ok _ =>
    obtain ⟨fl, hfl, hflp⟩ := (assertFinal_dict_ok h1).2 rfl
    have hfli : fl.isIterable = true := by simpa [passes] using hflp
    obtain ⟨files, hfiles, hie⟩ := iterE_of_isIterable hfli
    have hnd := hnm fl hfl
    simp only [bind, Except.bind, getE_ok (getItem_dict_s_some hfl), hie]
    cases h2 : forEnum (checkFile (.dict items)) 0 files with
    | error e2 =>
      refine ⟨fun h => absurd h (by simp), fun e h _ => ?_⟩
      simp only [Except.error.injEq] at h
      subst h
      obtain ⟨j, x, hx, hf⟩ := forEnum_err h2
      rw [Nat.zero_add] at hf
      exact (checkFile_cases cf.hinfo hfl (getItem_of_iter hnd hfiles hx) _ hf).2 _ rfl
    | ok _ =>
      have hfacts : ∀ x ∈ files, EntryFacts x := by
        intro x hx
        obtain ⟨j, hj⟩ := List.getElem?_of_mem hx
        have := forEnum_ok h2 j x hj
        rw [Nat.zero_add] at this
        exact (checkFile_cases cf.hinfo hfl (getItem_of_iter hnd hfiles hj) _ this).1 rfl
      have hpos := pieceLength_pos hpd
      simp only [sumLengths_ok files 0 hfacts, Int.zero_add, getE_ok (getItem_dict_s_some hpv)]
      by_cases hc : ((plen / 20 : Nat) : Int) = expPieces ((files.map fileLen).sum) (intVal pv)
      · constructor
        · intro _
          exact ⟨fl, files, pv, hfl, hfli, hfiles, hfacts, hpv, hc⟩
        · intro e h hjoin
          simp only [hc, ne_eq, not_true_eq_false, if_false, pure, Except.pure] at h
          split at h
          · rename_i hp
            split at h
            · simpa [throw, throwThe, MonadExceptOf.throw, eq_comm] using h
            · obtain ⟨j, x, hx, hf⟩ := forEnum_err h
              have hxm := List.mem_of_getElem? hx
              exact checkFileOnDisk_err fs (hfacts x hxm) (hjoin hp fl files hfl hfiles x hxm) hf
          · exact absurd h (by simp)
      · simp only [hc, ne_eq, not_false_eq_true, if_true]
        refine ⟨fun h => absurd h (by simp [throw, throwThe, MonadExceptOf.throw]), fun e h _ => ?_⟩
        simpa [throw, throwThe, MonadExceptOf.throw, eq_comm] using h

theorem lookupNat_some_key {n : Nat} {l : Items} {v : PyVal} (h : lookupNat n l = some v) :
    ∃ k ∈ l.map (·.1), keyEqNat n k = true := by
  induction l with
  | nil => simp [lookupNat] at h
  | cons q r ih =>
    obtain ⟨qk, qv⟩ := q
    simp only [lookupNat] at h
    by_cases hq : keyEqNat n qk = true
    · exact ⟨qk, by simp, hq⟩
    · simp only [hq, Bool.false_eq_true, if_false] at h
      obtain ⟨k, hk, hk0⟩ := ih h
      exact ⟨k, by simp only [List.map_cons, List.mem_cons]; exact .inr hk, hk0⟩

/-- a mapping as `files` never validates: `files[0]` must exist, so some key equals `0`, but every
    key the loop sees must be subscriptable with `'path'` -/
theorem checkMulti_not_dict {items info : Items} (cf : CommonFacts urlOk items info) {plen : Nat}
    (hplen : plen / 20 ≠ 0) (h : checkMulti fs (.dict items) (.dict info) plen = .ok ()) :
    ∀ fl, PyVal.lookupStr "files" info = some fl → fl.isDict = false := by
  intro fl hfl
  cases hd : fl.isDict with
  | false => rfl
  | true =>
    exfalso
    obtain ⟨kvs, rfl⟩ := isDict_iff.mp hd
    obtain ⟨pv, hpv, _, hpd⟩ := cf.pieceLength
    unfold checkMulti at h
    obtain ⟨_, _, h⟩ := bind_ok h
    simp only [bind, Except.bind, getE_ok (getItem_dict_s_some hfl), iterE, pyIter, pure,
      Except.pure] at h
    cases h2 : forEnum (checkFile (.dict items)) 0 (kvs.map (·.1)) with
    | error e2 => rw [h2] at h; exact absurd h (by simp)
    | ok _ =>
      rw [h2] at h
      cases kvs with
      | nil =>
        simp only [List.map_nil, sumLengths, pure, Except.pure,
          getE_ok (getItem_dict_s_some hpv)] at h
        have hpos := pieceLength_pos hpd
        have h0 : expPieces 0 (intVal pv) = 0 := by
          rw [expPieces_eq (Int.le_refl 0) hpos.1]
          have : (0 : Int).toNat = 0 := rfl
          rw [this, Nat.zero_add]
          have : (intVal pv).toNat - 1 < (intVal pv).toNat := by omega
          rw [Nat.div_eq_of_lt this]; rfl
        rw [h0] at h
        have hne : ((plen / 20 : Nat) : Int) ≠ 0 := by omega
        simp only [ne_eq, hne, not_false_eq_true, if_true] at h
        exact absurd h (by simp [throw, throwThe, MonadExceptOf.throw])
      | cons kv t =>
        -- every key is subscriptable with 'path', so every key is a dict
        have hkeys : ∀ k ∈ (kv :: t).map (·.1), k.isDict = true := by
          intro k hk
          obtain ⟨j, hj⟩ := List.getElem?_of_mem hk
          have := forEnum_ok h2 j k hj
          obtain ⟨_, p, hp⟩ := checkFile_ok_weak cf.hinfo hfl this
          cases k <;> simp [Validate.getItem] at hp
          rfl
        -- files[0] exists, so some key equals 0
        have h0 := forEnum_ok h2 0 kv.1 (by simp)
        obtain ⟨⟨f', hf'⟩, _⟩ := checkFile_ok_weak cf.hinfo hfl h0
        have : ∃ k ∈ (kv :: t).map (·.1), keyEqNat 0 k = true := by
          simp only [Validate.getItem, lookupKey, Nat.add_zero] at hf'
          split at hf'
          · rename_i v hv; exact lookupNat_some_key hv
          · exact absurd hf' (by simp)
        obtain ⟨k, hk, hk0⟩ := this
        have := hkeys k hk
        obtain ⟨kk, rfl⟩ := isDict_iff.mp this
        simp [keyEqNat] at hk0

end Torf.Validate
