/-
  Torf.Lemmas.StreamFault — facts about the reading loop over a failing read layer
  (`Model/StreamFault.lean`):
  * without a retry of OSErrors a result that is not ReadError raised no OSError;
  * the ghost counter `lost` never decreases; a run that lost no byte and did not fail read
    exactly what the fault-free loop of `Model/Stream.lean` reads.
-/
import Torf.Model.StreamFault
import Torf.Lemmas.Stream
namespace Torf.StreamFault
open Torf

/-! ### OSErrors are fatal unless retried -/

theorem readFh_os {pol : Policy} (hp : pol.retryOs = none) (size : Nat) :
    ∀ (fuel att : Nat) (rest : List α) (env : Env) (p rest' : List α) (env' : Env),
      readFh pol size fuel att rest env = (some p, rest', env') → env'.osRaised = env.osRaised := by
  intro fuel
  induction fuel with
  | zero => intro att rest env p rest' env' h; simp [readFh] at h
  | succ fuel ih =>
    intro att rest env p rest' env' h
    unfold readFh at h
    split at h
    · simp only [Prod.mk.injEq] at h; rw [← h.2.2]
    · simp only [Prod.mk.injEq] at h; rw [← h.2.2]
    · rename_i k e plan hpl
      cases e with
      | mem =>
        simp only at h
        split at h
        · have := ih _ _ _ _ _ _ h
          simpa using this
        · simp at h
      | os =>
        simp only [hp] at h
        simp at h

theorem readLoop_os {pol : Policy} (hp : pol.retryOs = none) (L : Nat) :
    ∀ (fuel : Nat) (rest : List α) (env : Env) (ps : List (List α)) (env' : Env),
      readLoop pol L fuel rest env = (some ps, env') → env'.osRaised = env.osRaised := by
  intro fuel
  induction fuel with
  | zero => intro rest env ps env' h; simp only [readLoop, Prod.mk.injEq] at h; rw [← h.2]
  | succ fuel ih =>
    intro rest env ps env' h
    unfold readLoop at h
    split at h
    · simp at h
    · rename_i piece rest1 env1 hr
      have h1 := readFh_os hp L _ _ _ _ _ _ _ hr
      split at h
      · simp only [Prod.mk.injEq] at h; rw [← h.2, h1]
      · split at h
        · simp at h
        · rename_i ps1 env2 hl
          simp only [Prod.mk.injEq] at h
          rw [← h.2, ih _ _ _ _ hl, h1]

theorem iterFromHandle_os {pol : Policy} (hp : pol.retryOs = none) (L : Nat) (prepend content : List α)
    (env : Env) (ps : List (List α)) (env' : Env)
    (h : iterFromHandle pol L prepend content env = (some ps, env')) : env'.osRaised = env.osRaised := by
  unfold iterFromHandle at h
  simp only at h
  split at h
  · split at h
    · simp at h
    · rename_i ps1 env1 hl
      simp only [Prod.mk.injEq] at h
      rw [← h.2, readLoop_os hp L _ _ _ _ _ hl]
  · split at h
    · simp at h
    · rename_i got rest env1 hr
      have h1 := readFh_os hp _ _ _ _ _ _ _ _ hr
      split at h
      · simp at h
      · rename_i ps1 env2 hl
        simp only [Prod.mk.injEq] at h
        rw [← h.2, readLoop_os hp L _ _ _ _ _ hl, h1]

theorem fileStep_os {pol : Policy} (hp : pol.retryOs = none) (L : Nat) (st : St α) (f : List α)
    (h : (fileStep pol L st f).1 ≠ none) : st.1 ≠ none ∧ (fileStep pol L st f).2.osRaised = st.2.osRaised := by
  unfold fileStep at h ⊢
  cases hs : st.1 with
  | none => simp [hs] at h
  | some to =>
    obtain ⟨trailing, out⟩ := to
    simp only [hs] at h ⊢
    cases hi : iterFromHandle pol L trailing f st.2 with
    | mk r env' =>
      cases r with
      | none => simp [hi] at h
      | some pieces =>
        simp only
        exact ⟨by simp, iterFromHandle_os hp L _ _ _ _ _ hi⟩

theorem foldl_fileStep_os {pol : Policy} (hp : pol.retryOs = none) (L : Nat) (files : List (List α)) :
    ∀ (st : St α), (files.foldl (fileStep pol L) st).1 ≠ none →
      (files.foldl (fileStep pol L) st).2.osRaised = st.2.osRaised := by
  induction files with
  | nil => intro st _; rfl
  | cons f fs ih =>
    intro st h
    simp only [List.foldl_cons] at h ⊢
    have h1 := ih _ h
    have hne : (fileStep pol L st f).1 ≠ none := by
      intro hn
      -- once failed, always failed
      have : ∀ (gs : List (List α)) (s : St α), s.1 = none → (gs.foldl (fileStep pol L) s).1 = none := by
        intro gs
        induction gs with
        | nil => intro s hs; exact hs
        | cons g gs ihg =>
          intro s hs
          simp only [List.foldl_cons]
          apply ihg
          unfold fileStep
          simp [hs]
      exact h (this fs _ hn)
    rw [h1, (fileStep_os hp L st f hne).2]

/-- without a retry of OSErrors: a run that ends with pieces raised no OSError -/
theorem iterPieces_os {pol : Policy} (hp : pol.retryOs = none) (L : Nat) (files : List (List α))
    (plan : List Ev) (ps : List (List α)) (h : (iterPieces pol L files plan).1 = some ps) :
    (iterPieces pol L files plan).2.osRaised = 0 := by
  unfold iterPieces at h ⊢
  simp only at h ⊢
  cases hs : (files.foldl (fileStep pol L) (some ([], []), { plan := plan })).1 with
  | none => simp [hs] at h
  | some to =>
    simp only
    have := foldl_fileStep_os hp L files (some ([], []), { plan := plan }) (by rw [hs]; simp)
    simpa using this

/-! ### no byte lost ⇒ the fault-free loop -/

theorem readFh_lost (pol : Policy) (size : Nat) :
    ∀ (fuel att : Nat) (rest : List α) (env : Env),
      env.lost ≤ (readFh pol size fuel att rest env).2.2.lost ∧
      ∀ p rest' env', readFh pol size fuel att rest env = (some p, rest', env') → env'.lost = env.lost →
        p = rest.take size ∧ rest' = rest.drop size := by
  intro fuel
  induction fuel with
  | zero => intro att rest env; simp [readFh]
  | succ fuel ih =>
    intro att rest env
    unfold readFh
    split
    · refine ⟨Nat.le_refl _, ?_⟩
      intro p rest' env' h _
      simp only [Prod.mk.injEq, Option.some.injEq] at h
      exact ⟨h.1.symm, h.2.1.symm⟩
    · refine ⟨Nat.le_refl _, ?_⟩
      intro p rest' env' h _
      simp only [Prod.mk.injEq, Option.some.injEq] at h
      exact ⟨h.1.symm, h.2.1.symm⟩
    · rename_i k e plan hpl
      -- the recursive call, in either error kind, starts from an environment that lost `g` more bytes
      have key : ∀ (env1 : Env) (att1 : Nat),
          env1.lost = env.lost + (if pol.seekBack then 0 else min k (min size rest.length)) →
          env.lost ≤ (readFh pol size fuel att1
              (if pol.seekBack then rest else rest.drop (min k (min size rest.length))) env1).2.2.lost ∧
          ∀ p rest' env', readFh pol size fuel att1
              (if pol.seekBack then rest else rest.drop (min k (min size rest.length))) env1 = (some p, rest', env') →
            env'.lost = env.lost → p = rest.take size ∧ rest' = rest.drop size := by
        intro env1 att1 h1
        obtain ⟨m1, m2⟩ := ih att1 (if pol.seekBack then rest else rest.drop (min k (min size rest.length))) env1
        refine ⟨by omega, ?_⟩
        intro p rest' env' h hl
        have hmono : env1.lost ≤ env'.lost := by rw [h] at m1; exact m1
        have hg : (if pol.seekBack then 0 else min k (min size rest.length)) = 0 := by omega
        have hrest : (if pol.seekBack then rest else rest.drop (min k (min size rest.length))) = rest := by
          by_cases hsb : pol.seekBack
          · simp [hsb]
          · simp only [hsb, Bool.false_eq_true, ↓reduceIte] at hg ⊢
            rw [hg]; rfl
        have hres := m2 p rest' env' h (by omega)
        rw [hrest] at hres
        exact hres
      cases e with
      | mem =>
        simp only
        split
        · exact key _ att rfl
        · refine ⟨by simp only; omega, ?_⟩
          intro p rest' env' h _; simp at h
      | os =>
        simp only
        split
        · refine ⟨by simp only; omega, ?_⟩
          intro p rest' env' h _; simp at h
        · split
          · refine ⟨by simp only; omega, ?_⟩
            intro p rest' env' h _; simp at h
          · exact key _ (att + 1) rfl

theorem read_lost (pol : Policy) (size : Nat) (rest : List α) (env : Env) :
    env.lost ≤ (read pol size rest env).2.2.lost ∧
    ∀ p rest' env', read pol size rest env = (some p, rest', env') → env'.lost = env.lost →
      p = rest.take size ∧ rest' = rest.drop size :=
  readFh_lost pol size _ 0 rest env

theorem readLoop_lost (pol : Policy) (L : Nat) :
    ∀ (fuel : Nat) (rest : List α) (env : Env),
      env.lost ≤ (readLoop pol L fuel rest env).2.lost ∧
      ∀ ps env', readLoop pol L fuel rest env = (some ps, env') → env'.lost = env.lost →
        ps = Stream.readLoop L fuel rest := by
  intro fuel
  induction fuel with
  | zero =>
    intro rest env
    refine ⟨Nat.le_refl _, ?_⟩
    intro ps env' h _
    simp only [readLoop, Prod.mk.injEq, Option.some.injEq] at h
    rw [← h.1]; rfl
  | succ fuel ih =>
    intro rest env
    obtain ⟨r1, r2⟩ := read_lost pol L rest env
    unfold readLoop
    cases hr : read pol L rest env with
    | mk a b =>
      obtain ⟨rest1, env1⟩ := b
      rw [hr] at r1
      simp only at r1
      cases a with
      | none =>
        refine ⟨r1, ?_⟩
        intro ps env' h _; simp at h
      | some piece =>
        simp only
        by_cases he : piece.isEmpty = true
        · simp only [he, ↓reduceIte]
          refine ⟨r1, ?_⟩
          intro ps env' h hl
          simp only [Prod.mk.injEq, Option.some.injEq] at h
          obtain ⟨hp, _⟩ := r2 piece rest1 env1 hr (by rw [h.2]; exact hl)
          rw [← h.1]
          unfold Stream.readLoop
          simp only [← hp, he, ↓reduceIte]
        · simp only [he, Bool.false_eq_true, ↓reduceIte]
          obtain ⟨l1, l2⟩ := ih rest1 env1
          cases hl : readLoop pol L fuel rest1 env1 with
          | mk a2 env2 =>
            rw [hl] at l1
            simp only at l1
            cases a2 with
            | none =>
              refine ⟨by simp only; omega, ?_⟩
              intro ps env' h _; simp at h
            | some ps1 =>
              refine ⟨by simp only; omega, ?_⟩
              intro ps env' h hlost
              simp only [Prod.mk.injEq, Option.some.injEq] at h
              have h2 : env2.lost = env.lost := by rw [h.2]; exact hlost
              obtain ⟨hp, hrest⟩ := r2 piece rest1 env1 hr (by omega)
              have hps := l2 ps1 env2 hl (by omega)
              rw [← h.1]
              unfold Stream.readLoop
              simp only [← hp, he, Bool.false_eq_true, ↓reduceIte, ← hrest, hps]

theorem iterFromHandle_lost (pol : Policy) (L : Nat) (prepend content : List α) (env : Env) :
    env.lost ≤ (iterFromHandle pol L prepend content env).2.lost ∧
    ∀ ps env', iterFromHandle pol L prepend content env = (some ps, env') → env'.lost = env.lost →
      ps = Stream.iterFromHandle L prepend content := by
  unfold iterFromHandle Stream.iterFromHandle
  simp only
  by_cases hp : (Stream.prependLoop L (prepend.length + 1) prepend).2.isEmpty = true
  · simp only [hp, ↓reduceIte]
    obtain ⟨l1, l2⟩ := readLoop_lost pol L (content.length + 1) content env
    cases hl : readLoop pol L (content.length + 1) content env with
    | mk a env1 =>
      rw [hl] at l1
      cases a with
      | none => exact ⟨l1, by intro ps env' h _; simp at h⟩
      | some ps1 =>
        refine ⟨l1, ?_⟩
        intro ps env' h hlost
        simp only [Prod.mk.injEq, Option.some.injEq] at h
        rw [← h.1, l2 ps1 env1 hl (by rw [h.2]; exact hlost)]
  · simp only [hp, Bool.false_eq_true, ↓reduceIte]
    obtain ⟨r1, r2⟩ := read_lost pol (L - (Stream.prependLoop L (prepend.length + 1) prepend).2.length) content env
    cases hr : read pol (L - (Stream.prependLoop L (prepend.length + 1) prepend).2.length) content env with
    | mk a b =>
      obtain ⟨rest1, env1⟩ := b
      rw [hr] at r1
      simp only at r1
      cases a with
      | none => exact ⟨r1, by intro ps env' h _; simp at h⟩
      | some got =>
        simp only
        obtain ⟨l1, l2⟩ := readLoop_lost pol L (rest1.length + 1) rest1 env1
        cases hl : readLoop pol L (rest1.length + 1) rest1 env1 with
        | mk a2 env2 =>
          rw [hl] at l1
          simp only at l1
          cases a2 with
          | none => exact ⟨by simp only; omega, by intro ps env' h _; simp at h⟩
          | some ps1 =>
            refine ⟨by simp only; omega, ?_⟩
            intro ps env' h hlost
            simp only [Prod.mk.injEq, Option.some.injEq] at h
            have h2 : env2.lost = env.lost := by rw [h.2]; exact hlost
            obtain ⟨hg, hrest⟩ := r2 got rest1 env1 hr (by omega)
            have hps := l2 ps1 env2 hl (by omega)
            rw [← h.1, hps, hg, hrest]

theorem fileStep_lost (pol : Policy) (L : Nat) (st : St α) (f : List α) :
    st.2.lost ≤ (fileStep pol L st f).2.lost ∧
    ∀ to, st.1 = some to → ∀ to', (fileStep pol L st f).1 = some to' →
      (fileStep pol L st f).2.lost = st.2.lost → to' = Stream.fileStep L to f := by
  unfold fileStep
  cases hs : st.1 with
  | none => exact ⟨Nat.le_refl _, by intro to h; simp at h⟩
  | some to =>
    obtain ⟨trailing, out⟩ := to
    simp only
    obtain ⟨i1, i2⟩ := iterFromHandle_lost pol L trailing f st.2
    cases hi : iterFromHandle pol L trailing f st.2 with
    | mk a env1 =>
      rw [hi] at i1
      cases a with
      | none => exact ⟨i1, by intro to _ to' h; simp at h⟩
      | some pieces =>
        refine ⟨i1, ?_⟩
        intro to hto to' h hlost
        simp only [Option.some.injEq] at hto h
        subst hto
        rw [← h, i2 pieces env1 hi hlost]
        rfl

theorem foldl_fileStep_lost (pol : Policy) (L : Nat) (files : List (List α)) :
    ∀ (st : St α), st.2.lost ≤ (files.foldl (fileStep pol L) st).2.lost ∧
      ∀ to, st.1 = some to → ∀ to', (files.foldl (fileStep pol L) st).1 = some to' →
        (files.foldl (fileStep pol L) st).2.lost = st.2.lost → to' = files.foldl (Stream.fileStep L) to := by
  induction files with
  | nil =>
    intro st
    refine ⟨Nat.le_refl _, ?_⟩
    intro to hto to' h _
    simp only [List.foldl_nil] at h ⊢
    rw [hto] at h
    exact (Option.some.inj h).symm
  | cons f fs ih =>
    intro st
    simp only [List.foldl_cons]
    obtain ⟨s1, s2⟩ := fileStep_lost pol L st f
    obtain ⟨f1, f2⟩ := ih (fileStep pol L st f)
    refine ⟨by omega, ?_⟩
    intro to hto to' h hlost
    cases hm : (fileStep pol L st f).1 with
    | none =>
      -- once failed, always failed
      have : ∀ (gs : List (List α)) (s : St α), s.1 = none → (gs.foldl (fileStep pol L) s).1 = none := by
        intro gs
        induction gs with
        | nil => intro s hs; exact hs
        | cons g gs ihg =>
          intro s hs
          simp only [List.foldl_cons]
          apply ihg
          unfold fileStep
          simp [hs]
      rw [this fs _ hm] at h
      simp at h
    | some mid =>
      have hmid := s2 to hto mid hm (by omega)
      have := f2 mid hm to' h (by omega)
      rw [this, hmid]

/-- **No byte lost.**  Whatever the policy and whatever was raised and retried: a run that does
    not end in ReadError and lost no byte yields exactly what the fault-free reader yields. -/
theorem iterPieces_lost_zero (pol : Policy) (L : Nat) (files : List (List α)) (plan : List Ev)
    (ps : List (List α)) (h : (iterPieces pol L files plan).1 = some ps)
    (hl : (iterPieces pol L files plan).2.lost = 0) : ps = Stream.iterPieces L files := by
  unfold iterPieces at h hl
  unfold Stream.iterPieces
  simp only at h hl ⊢
  obtain ⟨_, f2⟩ := foldl_fileStep_lost pol L files (some ([], []), { plan := plan })
  cases hs : (files.foldl (fileStep pol L) (some ([], []), { plan := plan })).1 with
  | none => simp [hs] at h
  | some to =>
    simp only [hs, Option.some.injEq] at h hl
    have := f2 ([], []) rfl to hs (by simpa using hl)
    rw [← h, this]

/-- a policy that seeks back before it reads again never loses a byte -/
theorem readFh_seekBack {pol : Policy} (hp : pol.seekBack = true) (size : Nat) :
    ∀ (fuel att : Nat) (rest : List α) (env : Env),
      (readFh pol size fuel att rest env).2.2.lost = env.lost := by
  intro fuel
  induction fuel with
  | zero => intro att rest env; rfl
  | succ fuel ih =>
    intro att rest env
    unfold readFh
    split
    · rfl
    · rfl
    · rename_i k e plan hpl
      cases e with
      | mem =>
        simp only [hp, ↓reduceIte, Nat.add_zero]
        split
        · rw [ih]
        · rfl
      | os =>
        simp only [hp, ↓reduceIte, Nat.add_zero]
        split
        · rfl
        · split
          · rfl
          · rw [ih]

/-! ### lifting an invariant of single reads to whole runs -/

section Inv
variable {pol : Policy} (P : Env → Prop)
  (hread : ∀ (size : Nat) (rest : List α) (env : Env) (p rest' : List α) (env' : Env),
    P env → read pol size rest env = (some p, rest', env') → P env')
include hread

theorem readLoop_inv (L : Nat) :
    ∀ (fuel : Nat) (rest : List α) (env : Env) (ps : List (List α)) (env' : Env),
      P env → readLoop pol L fuel rest env = (some ps, env') → P env' := by
  intro fuel
  induction fuel with
  | zero => intro rest env ps env' hP h; simp only [readLoop, Prod.mk.injEq] at h; rw [← h.2]; exact hP
  | succ fuel ih =>
    intro rest env ps env' hP h
    unfold readLoop at h
    split at h
    · simp at h
    · rename_i piece rest1 env1 hr
      have h1 := hread L _ _ _ _ _ hP hr
      split at h
      · simp only [Prod.mk.injEq] at h; rw [← h.2]; exact h1
      · split at h
        · simp at h
        · rename_i ps1 env2 hl
          simp only [Prod.mk.injEq] at h
          rw [← h.2]; exact ih _ _ _ _ h1 hl

theorem iterFromHandle_inv (L : Nat) (prepend content : List α) (env : Env) (ps : List (List α))
    (env' : Env) (hP : P env) (h : iterFromHandle pol L prepend content env = (some ps, env')) : P env' := by
  unfold iterFromHandle at h
  simp only at h
  split at h
  · split at h
    · simp at h
    · rename_i ps1 env1 hl
      simp only [Prod.mk.injEq] at h
      rw [← h.2]; exact readLoop_inv P hread L _ _ _ _ _ hP hl
  · split at h
    · simp at h
    · rename_i got rest env1 hr
      have h1 := hread _ _ _ _ _ _ hP hr
      split at h
      · simp at h
      · rename_i ps1 env2 hl
        simp only [Prod.mk.injEq] at h
        rw [← h.2]; exact readLoop_inv P hread L _ _ _ _ _ h1 hl

theorem foldl_fileStep_inv (L : Nat) (files : List (List α)) :
    ∀ (st : St α), P st.2 → (files.foldl (fileStep pol L) st).1 ≠ none →
      P (files.foldl (fileStep pol L) st).2 := by
  induction files with
  | nil => intro st hP _; exact hP
  | cons f fs ih =>
    intro st hP h
    simp only [List.foldl_cons] at h ⊢
    apply ih _ ?_ h
    unfold fileStep
    cases hs : st.1 with
    | none => simp only; exact hP
    | some to =>
      obtain ⟨trailing, out⟩ := to
      simp only
      cases hi : iterFromHandle pol L trailing f st.2 with
      | mk a env1 =>
        cases a with
        | none =>
          -- the run has failed: the fold stays failed, contradiction with `h`
          exfalso
          have : ∀ (gs : List (List α)) (s : St α), s.1 = none → (gs.foldl (fileStep pol L) s).1 = none := by
            intro gs
            induction gs with
            | nil => intro s hs; exact hs
            | cons g gs ihg =>
              intro s hs
              simp only [List.foldl_cons]
              apply ihg
              unfold fileStep
              simp [hs]
          apply h
          apply this
          unfold fileStep
          simp [hs, hi]
        | some pieces => exact iterFromHandle_inv P hread L _ _ _ _ _ hP hi

theorem iterPieces_inv (L : Nat) (files : List (List α)) (plan : List Ev) (hP : P { plan := plan })
    (ps : List (List α)) (h : (iterPieces pol L files plan).1 = some ps) :
    P (iterPieces pol L files plan).2 := by
  unfold iterPieces at h ⊢
  simp only at h ⊢
  cases hs : (files.foldl (fileStep pol L) (some ([], []), { plan := plan })).1 with
  | none => simp [hs] at h
  | some to =>
    simp only
    exact foldl_fileStep_inv P hread L files (some ([], []), { plan := plan }) hP (by rw [hs]; simp)

end Inv

/-- a policy that seeks back before it reads again loses nothing in a whole run -/
theorem iterPieces_seekBack {pol : Policy} (hp : pol.seekBack = true) (L : Nat) (files : List (List α))
    (plan : List Ev) (ps : List (List α)) (h : (iterPieces pol L files plan).1 = some ps) :
    (iterPieces pol L files plan).2.lost = 0 :=
  iterPieces_inv (pol := pol) (fun env => env.lost = 0)
    (by
      intro size rest env p rest' env' hP hr
      have := readFh_seekBack hp size (env.plan.length + 1) 0 rest env
      unfold read at hr
      rw [hr] at this
      simp only at this
      omega)
    L files plan rfl ps h

/-- every MemoryError of the plan strikes before the read consumed anything (the allocation of
    the result fails up front) -/
def memUpFront (plan : List Ev) : Prop := ∀ k, Ev.fail k .mem ∈ plan → k = 0

theorem readFh_memUpFront {pol : Policy} (hp : pol.retryOs = none) (size : Nat) :
    ∀ (fuel att : Nat) (rest : List α) (env : Env) (p rest' : List α) (env' : Env),
      memUpFront env.plan → readFh pol size fuel att rest env = (some p, rest', env') →
        memUpFront env'.plan ∧ env'.lost = env.lost := by
  intro fuel
  induction fuel with
  | zero => intro att rest env p rest' env' _ h; simp [readFh] at h
  | succ fuel ih =>
    intro att rest env p rest' env' hm h
    unfold readFh at h
    split at h
    · simp only [Prod.mk.injEq] at h; rw [← h.2.2]; exact ⟨hm, rfl⟩
    · rename_i plan hpl
      simp only [Prod.mk.injEq] at h
      rw [← h.2.2]
      refine ⟨?_, rfl⟩
      intro k hk
      exact hm k (by rw [hpl]; exact List.mem_cons_of_mem _ hk)
    · rename_i k e plan hpl
      cases e with
      | mem =>
        have hk0 : k = 0 := hm k (by rw [hpl]; simp)
        simp only at h
        split at h
        · obtain ⟨a, b⟩ := ih _ _ _ _ _ _ (by
            intro k' hk'
            exact hm k' (by rw [hpl]; exact List.mem_cons_of_mem _ hk')) h
          refine ⟨a, ?_⟩
          rw [b]
          subst hk0
          simp
        · simp at h
      | os =>
        simp only [hp] at h
        simp at h

/-- OSErrors fatal, MemoryErrors only up front: a run that does not fail lost nothing -/
theorem iterPieces_memUpFront {pol : Policy} (hp : pol.retryOs = none) (L : Nat) (files : List (List α))
    (plan : List Ev) (hm : memUpFront plan) (ps : List (List α))
    (h : (iterPieces pol L files plan).1 = some ps) : (iterPieces pol L files plan).2.lost = 0 :=
  (iterPieces_inv (pol := pol) (fun env => memUpFront env.plan ∧ env.lost = 0)
    (by
      intro size rest env p rest' env' hP hr
      unfold read at hr
      obtain ⟨a, b⟩ := readFh_memUpFront hp size _ _ _ _ _ _ _ hP.1 hr
      exact ⟨a, by rw [b]; exact hP.2⟩)
    L files plan ⟨hm, rfl⟩ ps h).2

end Torf.StreamFault
