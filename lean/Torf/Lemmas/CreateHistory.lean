/-
  Torf.Lemmas.CreateHistory — helper lemmas for the history theorems of C15
  (`C15_history_independent` …): `Torrent.path = …` raises nothing on a listing with real names,
  and the invariant "what `info` holds is what reading `_path` with the current settings gives"
  along every sequence of `path` assignments and callback firings.
-/
import Torf.Lemmas.Create
import Torf.Model.CreateHistory
namespace Torf.Create
open Torf Torf.Paths

/-! ### `_set_files` raises nothing on listed files with real names -/

theorem parent_isPrefixOf_append (a r : Comps) : (parent a).isPrefixOf (a ++ r) = true := by
  apply List.isPrefixOf_iff_prefix.mpr
  unfold parent
  exact (List.dropLast_prefix a).trans (List.prefix_append a r)

theorem withGetter_ok (cwd : Comps) (B : PPath) (L : List FileEnt)
    (hL : ∀ f ∈ L, f.rel.all isClean = true) :
    withGetter cwd (abspath cwd B) (L.map (mkItem B))
      = .ok (L.map fun f => (mkItem B f,
          (abspath cwd B ++ f.rel).drop (parent (abspath cwd B)).length)) := by
  unfold withGetter
  rw [mapM_except_ok _ (fun it => (it,
      (abspath cwd B ++ it.ent.rel).drop (parent (abspath cwd B)).length))]
  · rw [List.map_map]; rfl
  · intro it hit
    obtain ⟨f, hf, rfl⟩ := List.mem_map.mp hit
    simp only [mkItem]
    rw [abspath_listedPath cwd B f (hL f hf)]
    unfold relativeTo
    rw [parent_isPrefixOf_append]
    rfl

theorem setFiles_ok (o : Oracles) (st : Settings) (cwd : Comps) (ex : PPath → Bool) (B : PPath)
    (L : List FileEnt) (hL : ∀ f ∈ L, f.rel.all isClean = true) :
    ∃ c, setFiles o st cwd ex (L.map (mkItem B)) B = .ok c := by
  have hdrop : ∃ L' : List FileEnt, (∀ f ∈ L', f ∈ L) ∧ dropEmpty ex (L.map (mkItem B)) = L'.map (mkItem B) := by
    unfold dropEmpty
    rw [List.filter_map]
    exact ⟨_, fun f hf => (List.mem_filter.mp hf).1, rfl⟩
  obtain ⟨L', hsub, hdrop⟩ := hdrop
  have hL' : ∀ f ∈ L', f.rel.all isClean = true := fun f hf => hL f (hsub f hf)
  have hw := withGetter_ok cwd B L' hL'
  unfold setFiles
  simp only [bind, Except.bind, pure, Except.pure, hdrop, hw]
  have hkept : ∀ k ∈ (filterFiles o st cwd (some (name (abspath cwd B)))
      (L'.map fun f => (mkItem B f,
        (abspath cwd B ++ f.rel).drop (parent (abspath cwd B)).length))).map (·.1),
      ∃ f, f.rel.all isClean = true ∧ k = mkItem B f := by
    intro k hk
    obtain ⟨it, hit, rfl⟩ := List.mem_map.mp hk
    unfold filterFiles at hit
    obtain ⟨f, hf, rfl⟩ := List.mem_map.mp (List.mem_filter.mp hit).1
    exact ⟨f, hL' f hf, rfl⟩
  generalize (filterFiles o st cwd (some (name (abspath cwd B)))
      (L'.map fun f => (mkItem B f,
        (abspath cwd B ++ f.rel).drop (parent (abspath cwd B)).length))).map (·.1) = kept at hkept
  split
  · exact ⟨_, rfl⟩
  · split
    · exact ⟨_, rfl⟩
    · have hinfo : filesInfo cwd (abspath cwd B)
          (sortBy (fun a b => decide (a.path.comps ≤ b.path.comps)) kept)
          = .ok ((sortBy (fun a b => decide (a.path.comps ≤ b.path.comps)) kept).map
              fun it => (it.ent.rel, it.ent.size)) := by
        unfold filesInfo
        apply mapM_except_ok
        intro it hit
        obtain ⟨f, hf, rfl⟩ := hkept it (mem_sortBy.mp hit)
        simp only [mkItem]
        rw [abspath_listedPath cwd B f hf, relativeTo_append]
        rfl
      rw [hinfo]
      exact ⟨_, rfl⟩

theorem pathSetter_ok (o : Oracles) (st : Settings) (env : Env)
    (h : ∀ f ∈ env.order, f.rel.all isClean = true) : ∃ c, pathSetter o st env = .ok c := by
  unfold pathSetter
  obtain ⟨L, hL, hlist⟩ := listFiles_eq o.cf (pathlibNorm env.spelling) env.order
  simp only [hlist]
  exact setFiles_ok o st env.cwd env.pathExists _ L (fun f hf => h f (hL.mem_iff.mp hf))

/-! ### the world lists real names; reading a path then only fails with `ReadError` -/

/-- `os.walk` yields directory entries: no `""`, `"."`, `".."` -/
def World.Clean (w : World) : Prop :=
  ∀ B order, w.listing B = some order → ∀ f ∈ order, f.rel.all isClean = true

theorem scan_ok_of_listing (o : Oracles) (st : Settings) (w : World) (hw : w.Clean) (B : PPath)
    (order : List FileEnt) (hl : w.listing B = some order) : ∃ c, scan o st w B = .ok c := by
  unfold scan
  rw [hl]
  obtain ⟨c, hc⟩ := pathSetter_ok o st ⟨w.cwd, B, order, w.pathExists⟩ (hw B order hl)
  exact ⟨c, by simp only [hc]⟩

theorem listing_of_scan_ok {o : Oracles} {st : Settings} {w : World} {B : PPath} {c : Created}
    (h : scan o st w B = .ok c) : ∃ order, w.listing B = some order := by
  unfold scan at h
  cases hl : w.listing B with
  | none => rw [hl] at h; cases h
  | some order => exact ⟨order, rfl⟩

/-- whether reading a path succeeds does not depend on the settings -/
theorem scan_ok_settings (o : Oracles) (st st' : Settings) (w : World) (hw : w.Clean) (B : PPath)
    (c : Created) (h : scan o st w B = .ok c) : ∃ c', scan o st' w B = .ok c' := by
  obtain ⟨order, hl⟩ := listing_of_scan_ok h
  exact scan_ok_of_listing o st' w hw B order hl

/-! ### the invariant of a history -/

theorem pathlibNorm_idem (p : PPath) : pathlibNorm (pathlibNorm p) = pathlibNorm p := by
  unfold pathlibNorm
  simp only [List.filter_filter, Bool.and_self]

/-- as long as `_path` was set by reading a path, `info` holds what reading that path with the
    current settings gives -/
def HInv (o : Oracles) (w : World) (s : HSt) : Prop :=
  s.reattached = false → ∀ B, s.path = some B → scan o s.st w B = .ok s.created

theorem HInv_init (o : Oracles) (w : World) : HInv o w HSt.init := by
  intro _ B hB; cases hB

theorem HInv_setPath (o : Oracles) (w : World) (s : HSt) (B : PPath)
    (hfail : ∀ e, scan o s.st w B = .error e → HInv o w s) :
    HInv o w (setPath o w s B).1 := by
  unfold setPath
  cases hs : scan o s.st w B with
  | error e => exact hfail e hs
  | ok c =>
    intro _ B' hB'
    simp only [pathAfter] at hB'
    split at hB'
    · cases hB'; exact hs
    · cases hB'

theorem HInv_step (o : Oracles) (w : World) (hw : w.Clean) (s : HSt) (op : HOp)
    (h : HInv o w s) : HInv o w (step o w s op).1 := by
  cases op with
  | path sp =>
    cases sp with
    | none => intro _ B hB; cases hB
    | some sp => exact HInv_setPath o w s _ (fun _ _ => h)
  | fire st' =>
    unfold step
    simp only
    cases hp : s.path with
    | some B =>
      simp only
      apply HInv_setPath
      intro e he hre B' hB'
      -- reading `B` worked with the old settings, so it cannot fail with the new ones
      have hB : B' = B := by
        have : some B = some B' := hB'
        exact (Option.some.inj this).symm
      subst hB
      obtain ⟨c', hc'⟩ := scan_ok_settings o s.st st' w hw B' s.created (h hre B' hp)
      have he' : scan o st' w B' = .error e := he
      rw [hc'] at he'
      cases he'
    | none =>
      simp only
      unfold refilter
      simp only
      split
      · intro _ B hB; cases hB
      · split
        · intro _ B hB
          have : (none : Option PPath) = some B := hB
          cases this
        · intro hre B hB
          simp only at hre hB
          rw [hB] at hre
          cases hre

theorem HInv_run (o : Oracles) (w : World) (hw : w.Clean) (s : HSt) (ops : List HOp)
    (h : HInv o w s) : HInv o w (run o w s ops) := by
  induction ops generalizing s with
  | nil => exact h
  | cons op ops ih => exact ih _ (HInv_step o w hw s op h)

/-! ### `_path` is a `pathlib` path -/

def HNorm (s : HSt) : Prop := ∀ B, s.path = some B → pathlibNorm B = B

theorem HNorm_setPath (o : Oracles) (w : World) (s : HSt) (B : PPath) (hn : pathlibNorm B = B)
    (h : HNorm s) : HNorm (setPath o w s B).1 := by
  unfold setPath
  cases scan o s.st w B with
  | error e => exact h
  | ok c =>
    intro B' hB'
    simp only [pathAfter] at hB'
    split at hB'
    · cases hB'; exact hn
    · cases hB'

theorem HNorm_step (o : Oracles) (w : World) (s : HSt) (op : HOp) (h : HNorm s) :
    HNorm (step o w s op).1 := by
  cases op with
  | path sp =>
    cases sp with
    | none => intro B hB; cases hB
    | some sp => exact HNorm_setPath o w s _ (pathlibNorm_idem sp) h
  | fire st' =>
    unfold step
    simp only
    cases hp : s.path with
    | some B =>
      simp only
      apply HNorm_setPath _ _ _ _ (h B hp)
      intro B' hB'
      have : some B = some B' := hB'
      cases this
      exact h B hp
    | none =>
      simp only
      unfold refilter
      simp only
      split
      · intro B hB; cases hB
      · split
        · intro B hB
          have : (none : Option PPath) = some B := hB
          cases this
        · intro B hB
          simp only [pathAfter] at hB
          split at hB
          · cases hB; exact pathlibNorm_idem _
          · cases hB

theorem HNorm_run (o : Oracles) (w : World) (s : HSt) (ops : List HOp) (h : HNorm s) :
    HNorm (run o w s ops) := by
  induction ops generalizing s with
  | nil => exact h
  | cons op ops ih => exact ih _ (HNorm_step o w s op h)

/-! ### `info['name']` agrees with the stored content whenever there is content -/

def nameOf : Created → Option String
  | .empty => none
  | .single n _ => some n
  | .multi n _ => some n

def HName (s : HSt) : Prop := ∀ n, nameOf s.created = some n → s.infoName = some n

theorem nameAfter_of_nameOf (old : Option String) (c : Created) (n : String)
    (h : nameOf c = some n) : nameAfter old c = some n := by
  cases c <;> simp_all [nameOf, nameAfter]

theorem HName_setPath (o : Oracles) (w : World) (s : HSt) (B : PPath) (h : HName s) :
    HName (setPath o w s B).1 := by
  unfold setPath
  cases scan o s.st w B with
  | error e => exact h
  | ok c => intro n hn; exact nameAfter_of_nameOf _ c n hn

theorem HName_step (o : Oracles) (w : World) (s : HSt) (op : HOp) (h : HName s) :
    HName (step o w s op).1 := by
  cases op with
  | path sp =>
    cases sp with
    | none => exact h
    | some sp => exact HName_setPath o w s _ h
  | fire st' =>
    unfold step
    simp only
    cases hp : s.path with
    | some B => exact HName_setPath o w _ B h
    | none =>
      simp only
      unfold refilter
      simp only
      split
      · intro n hn; cases hn
      · split
        · exact h
        · intro n hn; exact nameAfter_of_nameOf _ _ n hn

theorem HName_run (o : Oracles) (w : World) (s : HSt) (ops : List HOp) (h : HName s) :
    HName (run o w s ops) := by
  induction ops generalizing s with
  | nil => exact h
  | cons op ops ih => exact ih _ (HName_step o w s op h)

/-! ### the fresh object -/

theorem run_fire_init (o : Oracles) (w : World) (s : HSt) (st' : Settings)
    (hp : s.path = none) (hc : s.created = .empty) :
    (step o w s (.fire st')).1 = { s with st := st', reattached := false } := by
  unfold step
  simp only [hp]
  unfold refilter
  simp [hc, filesOfCreated]

theorem fresh_eq (o : Oracles) (w : World) (st : Settings) (sp : PPath) :
    fresh o w st sp = (setPath o w { HSt.init with st := st } (pathlibNorm sp)).1 := by
  unfold fresh run
  simp only [List.foldl_cons, List.foldl_nil]
  rw [run_fire_init o w HSt.init _ rfl rfl]
  rw [run_fire_init o w _ _ rfl rfl]
  rw [run_fire_init o w _ _ rfl rfl]
  rw [run_fire_init o w _ _ rfl rfl]
  rfl

theorem fresh_created (o : Oracles) (w : World) (st : Settings) (sp : PPath) (c : Created)
    (h : scan o st w (pathlibNorm sp) = .ok c) :
    (fresh o w st sp).created = c ∧ (fresh o w st sp).infoName = nameOf c := by
  rw [fresh_eq]
  unfold setPath
  have h' : scan o ({ HSt.init with st := st } : HSt).st w (pathlibNorm sp) = .ok c := h
  rw [h']
  refine ⟨rfl, ?_⟩
  cases c <;> rfl

end Torf.Create
