/-
  Helper lemmas for C16, URL level: `coerce`, `filterIns`, `coerceAll`, `addAll`, `urlsReplace`,
  `mkURLs`, `extendLoop`, `urlsOp` of `Torf.Model.Lists` preserve "no duplicates, every URL
  valid and free of spaces, nothing that is known elsewhere", and re-reading a stored good list
  is the identity.
-/
import Torf.Model.Lists
namespace Torf.Lists

/-- a URL as it may sit in the metainfo: valid and a fixed point of the coercion -/
def Good (isUrl : String → Bool) (u : String) : Prop := isUrl u = true ∧ spaceToPlus u = u

/-- items of a `URLs` object: no duplicates, all good, none of them known elsewhere -/
def UOK (isUrl : String → Bool) (known items : List String) : Prop :=
  items.Nodup ∧ (∀ u ∈ items, Good isUrl u) ∧ (∀ u ∈ items, u ∉ known)

variable {isUrl : String → Bool}

/-! ### coercion -/

theorem spaceToPlus_idem (u : String) : spaceToPlus (spaceToPlus u) = spaceToPlus u := by
  unfold spaceToPlus
  rw [String.toList_ofList, List.map_map]
  congr 1
  apply List.map_congr_left
  intro c _
  simp only [Function.comp]
  split <;> simp_all

theorem coerce_ok_iff {u c : String} :
    coerce isUrl u = .ok c ↔ (accepts isUrl u = true ∧ c = spaceToPlus u) := by
  unfold coerce
  split
  · constructor
    · intro h; cases h; exact ⟨‹_›, rfl⟩
    · rintro ⟨_, rfl⟩; rfl
  · constructor
    · intro h; cases h
    · rintro ⟨h, _⟩; contradiction

theorem accepts_iff {u : String} :
    accepts isUrl u = true ↔ (isUrl u = true ∧ isUrl (spaceToPlus u) = true) := by
  simp [accepts]

/-- a good URL (valid, no space) is accepted -/
theorem accepts_of_good {u : String} (hg : Good isUrl u) : accepts isUrl u = true := by
  rw [accepts_iff, hg.2]; exact ⟨hg.1, hg.1⟩

/-- what `URL()` keeps is valid and a fixed point of the coercion — no assumption on `is_url` -/
theorem coerce_ok_good {u c : String} (hc : coerce isUrl u = .ok c) :
    Good isUrl c := by
  obtain ⟨hu, rfl⟩ := coerce_ok_iff.1 hc
  exact ⟨(accepts_iff.1 hu).2, spaceToPlus_idem u⟩

theorem coerce_of_good {u : String} (hg : Good isUrl u) : coerce isUrl u = .ok u :=
  coerce_ok_iff.2 ⟨accepts_of_good hg, hg.2.symm⟩

/-- the second coercion of an item (`MonitoredList.replace`: `tuple(map(self._coerce, items))`,
    then `insert` coerces again) cannot fail and changes nothing -/
theorem coerce_coerced {u c : String} (hc : coerce isUrl u = .ok c) : coerce isUrl c = .ok c :=
  coerce_of_good (coerce_ok_good hc)

theorem coerce_error {u : String} {e : Err} (hc : coerce isUrl u = .error e) :
    e = .url ∧ accepts isUrl u = false := by
  unfold coerce at hc
  split at hc
  · cases hc
  · cases hc; exact ⟨rfl, by simpa using ‹¬ accepts isUrl u = true›⟩

theorem coerce_invalid {u : String} (hu : accepts isUrl u = false) : coerce isUrl u = .error .url := by
  simp [coerce, hu]

/-! ### Python list primitives -/

theorem mem_splice_of {α} {xs vs : List α} {lo hi : Nat} {x : α}
    (hx : x ∈ splice xs lo hi vs) : x ∈ xs ∨ x ∈ vs := by
  simp only [splice, List.mem_append] at hx
  rcases hx with (hx | hx) | hx
  · exact .inl (List.mem_of_mem_take hx)
  · exact .inr hx
  · exact .inl (List.mem_of_mem_drop hx)

theorem splice_nil_sublist {α} (xs : List α) {lo hi : Nat} (h : lo ≤ hi) :
    (splice xs lo hi []).Sublist xs := by
  have h1 : (xs.take lo ++ xs.drop hi).Sublist (xs.take lo ++ xs.drop lo) :=
    List.Sublist.append (List.Sublist.refl _) (List.drop_sublist_drop_left xs h)
  rw [List.take_append_drop] at h1
  simpa [splice] using h1

theorem splice_nodup {α} {xs vs : List α} {lo hi : Nat} (h : lo ≤ hi) (hx : xs.Nodup)
    (hv : vs.Nodup) (hd : ∀ v ∈ vs, v ∉ splice xs lo hi []) : (splice xs lo hi vs).Nodup := by
  have hs : (splice xs lo hi []).Nodup := (splice_nil_sublist xs h).nodup hx
  simp only [splice, List.append_nil, List.mem_append, not_or] at hd hs
  simp only [splice]
  rw [List.nodup_append] at hs
  obtain ⟨ht, hdr, htd⟩ := hs
  rw [List.nodup_append]
  refine ⟨?_, hdr, ?_⟩
  · rw [List.nodup_append]
    refine ⟨ht, hv, ?_⟩
    intro a ha b hb hab
    subst hab
    exact (hd a hb).1 ha
  · intro a ha b hb hab
    subst hab
    rcases List.mem_append.1 ha with ha | ha
    · exact htd a ha a hb rfl
    · exact (hd a ha).2 hb

theorem splice_length_self {α} (xs : List α) (v : α) :
    splice xs xs.length xs.length [v] = xs ++ [v] := by
  simp [splice]

theorem clampIdx_le (n : Nat) (i : Int) : clampIdx n i ≤ n := by
  unfold clampIdx
  split <;> omega

theorem clampIdx_length (n : Nat) : clampIdx n (n : Int) = n := by
  unfold clampIdx
  split <;> omega

theorem sliceRange_le (n : Nat) (a b : Option Int) :
    (sliceRange n a b).1 ≤ (sliceRange n a b).2 := by
  simp only [sliceRange]
  omega

theorem pyIndex_lt {n : Nat} {i : Int} {k : Nat} (h : pyIndex n i = some k) : k < n := by
  unfold pyIndex at h
  split at h
  · split at h
    · cases h; assumption
    · cases h
  · split at h
    · cases h; omega
    · cases h

/-! ### `UOK` -/

theorem UOK_nil (known : List String) : UOK isUrl known [] := by
  simp [UOK]

theorem UOK_sublist {known items items' : List String} (h : UOK isUrl known items)
    (hs : items'.Sublist items) : UOK isUrl known items' :=
  ⟨hs.nodup h.1, fun u hu => h.2.1 u (hs.subset hu), fun u hu => h.2.2 u (hs.subset hu)⟩

/-- inserting a fresh good URL anywhere keeps `UOK` -/
theorem UOK_splice_singleton {known items : List String} {k : Nat} {c : String}
    (hk : UOK isUrl known items) (hg : Good isUrl c) (h1 : c ∉ items) (h2 : c ∉ known) :
    UOK isUrl known (splice items k k [c]) := by
  refine ⟨?_, ?_, ?_⟩
  · apply splice_nodup (Nat.le_refl k) hk.1 (by simp)
    intro v hv hm
    rw [List.mem_singleton] at hv
    subst hv
    rcases mem_splice_of hm with hm | hm
    · exact h1 hm
    · cases hm
  · intro u hu
    rcases mem_splice_of hu with hu | hu
    · exact hk.2.1 u hu
    · rw [List.mem_singleton] at hu; subst hu; exact hg
  · intro u hu
    rcases mem_splice_of hu with hu | hu
    · exact hk.2.2 u hu
    · rw [List.mem_singleton] at hu; subst hu; exact h2

/-! ### `filterIns` -/

theorem filterIns_ok {known items r : List String} {i : Int}
    {u : String} (hk : UOK isUrl known items) (hr : filterIns isUrl known items i u = .ok r) :
    UOK isUrl known r := by
  unfold filterIns at hr
  split at hr
  · cases hr
  · rename_i c hc
    split at hr
    · cases hr; exact hk
    · rename_i hn
      cases hr
      have hn' : c ∉ items ∧ c ∉ known := by simpa [not_or] using hn
      exact UOK_splice_singleton hk (coerce_ok_good hc) hn'.1 hn'.2

theorem filterIns_error {known items : List String} {i : Int} {u : String} {e : Err}
    (hr : filterIns isUrl known items i u = .error e) : e = .url ∧ accepts isUrl u = false := by
  unfold filterIns at hr
  split at hr
  · rename_i e' hc
    cases hr
    exact coerce_error hc
  · split at hr <;> cases hr

theorem filterIns_invalid {known items : List String} {i : Int} {u : String}
    (hu : accepts isUrl u = false) : filterIns isUrl known items i u = .error .url := by
  simp [filterIns, coerce_invalid hu]

theorem filterIns_fresh {known items : List String} {u : String} (hg : Good isUrl u)
    (h1 : u ∉ items) (h2 : u ∉ known) :
    filterIns isUrl known items items.length u = .ok (items ++ [u]) := by
  simp [filterIns, coerce_of_good hg, h1, h2, clampIdx_length, splice_length_self]

/-- an `ok` result of `filterIns` means the argument was a valid URL -/
theorem filterIns_ok_valid {known items r : List String} {i : Int} {u : String}
    (hr : filterIns isUrl known items i u = .ok r) : accepts isUrl u = true := by
  cases hv : accepts isUrl u
  · rw [filterIns_invalid hv] at hr; cases hr
  · rfl

/-! ### `coerceAll` -/

theorem coerceAll_id {cs : List String} (hg : ∀ u ∈ cs, Good isUrl u) :
    coerceAll isUrl cs = .ok cs := by
  induction cs with
  | nil => rfl
  | cons c cs ih =>
    have h1 := coerce_of_good (hg c (by simp))
    have h2 := ih (fun u hu => hg u (by simp [hu]))
    simp [coerceAll, h1, h2]

theorem coerceAll_error {us : List String} {e : Err} (hr : coerceAll isUrl us = .error e) :
    e = .url := by
  induction us with
  | nil => cases hr
  | cons u us ih =>
    unfold coerceAll at hr
    split at hr
    · rename_i e' hc; cases hr; exact (coerce_error hc).1
    · split at hr
      · rename_i e' hc; cases hr; exact ih hc
      · cases hr

theorem coerceAll_invalid {us : List String} {u : String} (hm : u ∈ us) (hu : accepts isUrl u = false) :
    coerceAll isUrl us = .error .url := by
  induction us with
  | nil => cases hm
  | cons v us ih =>
    unfold coerceAll
    split
    · rename_i e hc; rw [(coerce_error hc).1]
    · rename_i c hc
      have hv := (coerce_ok_iff.1 hc).1
      rcases List.mem_cons.1 hm with rfl | hm
      · rw [hu] at hv; cases hv
      · rw [ih hm]

theorem coerceAll_ok_valid {us cs : List String} (hr : coerceAll isUrl us = .ok cs) :
    ∀ u ∈ us, accepts isUrl u = true := by
  intro u hm
  cases hv : accepts isUrl u
  · rw [coerceAll_invalid hm hv] at hr; cases hr
  · rfl

/-! ### `addAll` -/

theorem addAll_ok {known items cs r : List String}
    (hk : UOK isUrl known items) (hr : addAll isUrl known items cs = .ok r) :
    UOK isUrl known r := by
  induction cs generalizing items with
  | nil => unfold addAll at hr; cases hr; exact hk
  | cons c cs ih =>
    unfold addAll at hr
    split at hr
    · cases hr
    · rename_i items' hf
      exact ih (filterIns_ok hk hf) hr

theorem addAll_id {known items cs : List String} (hk : UOK isUrl known (items ++ cs)) :
    addAll isUrl known items cs = .ok (items ++ cs) := by
  induction cs generalizing items with
  | nil => simp [addAll]
  | cons c cs ih =>
    have hg : Good isUrl c := hk.2.1 c (by simp)
    have h2 : c ∉ known := hk.2.2 c (by simp)
    have h1 : c ∉ items := by
      have := hk.1
      rw [List.nodup_append] at this
      intro hm
      exact this.2.2 c hm c (by simp) rfl
    unfold addAll
    rw [filterIns_fresh hg h1 h2]
    have hk' : UOK isUrl known ((items ++ [c]) ++ cs) := by simpa using hk
    simpa using ih hk'

theorem addAll_error {known items cs : List String} {e : Err}
    (hr : addAll isUrl known items cs = .error e) : e = .url := by
  induction cs generalizing items with
  | nil => unfold addAll at hr; cases hr
  | cons c cs ih =>
    unfold addAll at hr
    split at hr
    · rename_i e' hf; cases hr; exact (filterIns_error hf).1
    · exact ih hr

/-- the items `replace` has coerced once are all good … -/
theorem coerceAll_ok_good {us cs : List String} (hr : coerceAll isUrl us = .ok cs) :
    ∀ c ∈ cs, Good isUrl c := by
  induction us generalizing cs with
  | nil => unfold coerceAll at hr; cases hr; simp
  | cons u us ih =>
    unfold coerceAll at hr
    split at hr
    · cases hr
    · rename_i c hc
      split at hr
      · cases hr
      · rename_i cs' hcs
        cases hr
        intro x hx
        rcases List.mem_cons.1 hx with rfl | hx
        · exact coerce_ok_good hc
        · exact ih hcs x hx

/-- … so adding them with the callback disabled (second coercion in `insert`) cannot raise -/
theorem addAll_good_ok {known items cs : List String} (hg : ∀ c ∈ cs, Good isUrl c) :
    ∃ r, addAll isUrl known items cs = .ok r := by
  induction cs generalizing items with
  | nil => exact ⟨items, by simp [addAll]⟩
  | cons c cs ih =>
    unfold addAll
    have hc : coerce isUrl c = .ok c := coerce_of_good (hg c (by simp))
    have hg' : ∀ x ∈ cs, Good isUrl x := fun x hx => hg x (by simp [hx])
    have hf : ∃ items', filterIns isUrl known items items.length c = .ok items' := by
      simp only [filterIns, hc]
      split
      · exact ⟨_, rfl⟩
      · exact ⟨_, rfl⟩
    obtain ⟨items', hf⟩ := hf
    rw [hf]
    exact ih hg'

/-- `MonitoredList.replace` on a URL list raises only BEFORE the list is cleared (while the
    items are coerced for the first time): it is atomic -/
theorem urlsReplace_error_before_clear {known us : List String} {e : Err}
    (hr : urlsReplace isUrl known us = .error e) : coerceAll isUrl us = .error e := by
  unfold urlsReplace at hr
  split at hr
  · rename_i e' hc; cases hr; exact hc
  · rename_i cs hc
    obtain ⟨r, hr'⟩ := addAll_good_ok (known := known) (items := []) (coerceAll_ok_good hc)
    rw [hr'] at hr; cases hr

/-! ### `urlsReplace`, `mkURLs` -/

theorem urlsReplace_ok {known us r : List String}
    (hr : urlsReplace isUrl known us = .ok r) : UOK isUrl known r := by
  unfold urlsReplace at hr
  split at hr
  · cases hr
  · exact addAll_ok (UOK_nil known) hr

theorem urlsReplace_id {known us : List String} (hk : UOK isUrl known us) :
    urlsReplace isUrl known us = .ok us := by
  unfold urlsReplace
  rw [coerceAll_id hk.2.1]
  simpa using addAll_id (items := []) (by simpa using hk)

theorem urlsReplace_error {known us : List String} {e : Err}
    (hr : urlsReplace isUrl known us = .error e) : e = .url := by
  unfold urlsReplace at hr
  split at hr
  · rename_i e' hc; cases hr; exact coerceAll_error hc
  · exact addAll_error hr

theorem urlsReplace_invalid {known us : List String} {u : String} (hm : u ∈ us)
    (hu : accepts isUrl u = false) : urlsReplace isUrl known us = .error .url := by
  unfold urlsReplace
  rw [coerceAll_invalid hm hu]

theorem urlsReplace_ok_valid {known us r : List String}
    (hr : urlsReplace isUrl known us = .ok r) : ∀ u ∈ us, accepts isUrl u = true := by
  unfold urlsReplace at hr
  split at hr
  · cases hr
  · rename_i cs hc; exact coerceAll_ok_valid hc

theorem mkURLs_ok {known r : List String} {v : TierVal}
    (hr : mkURLs isUrl known v = .ok r) : UOK isUrl known r := by
  cases v with
  | str s =>
    simp only [mkURLs] at hr
    split at hr <;> exact urlsReplace_ok hr
  | list us => exact urlsReplace_ok hr

theorem mkURLs_error {known : List String} {v : TierVal} {e : Err}
    (hr : mkURLs isUrl known v = .error e) : e = .url := by
  cases v with
  | str s =>
    simp only [mkURLs] at hr
    split at hr <;> exact urlsReplace_error hr
  | list us => exact urlsReplace_error hr

theorem mkURLs_list_id {known us : List String} (hk : UOK isUrl known us) :
    mkURLs isUrl known (.list us) = .ok us := by
  unfold mkURLs
  exact urlsReplace_id hk

/-! ### `extendLoop` -/

theorem extendLoop_ok {known items us : List String}
    {last last' : Option (List String)} {out : Outcome}
    (hk : UOK isUrl known items) (hl : ∀ l, last = some l → UOK isUrl known l)
    (hr : extendLoop isUrl known items last us = (last', out)) :
    (∀ l, last' = some l → UOK isUrl known l) ∧ (∀ e, out = .error e → e = .url) := by
  induction us generalizing items last with
  | nil =>
    unfold extendLoop at hr
    cases hr
    exact ⟨hl, fun e he => by cases he⟩
  | cons u us ih =>
    unfold extendLoop at hr
    split at hr
    · rename_i e' hf
      cases hr
      exact ⟨hl, fun e he => by cases he; exact (filterIns_error hf).1⟩
    · rename_i items' hf
      have hk' := filterIns_ok hk hf
      exact ih hk' (fun l hl' => by cases hl'; exact hk') hr

theorem extendLoop_invalid {known items us : List String} {last : Option (List String)}
    {u : String} (hm : u ∈ us) (hu : accepts isUrl u = false) :
    (extendLoop isUrl known items last us).2 = .error .url := by
  induction us generalizing items last with
  | nil => cases hm
  | cons v us ih =>
    unfold extendLoop
    split
    · rename_i e hf; rw [(filterIns_error hf).1]
    · rename_i items' hf
      rcases List.mem_cons.1 hm with rfl | hm
      · have := filterIns_ok_valid hf
        rw [hu] at this; cases this
      · exact ih hm

/-- on success the final snapshot is the last callback argument, or nothing was appended -/
theorem extendLoop_ok_last {known items us : List String}
    {last' : Option (List String)} {out : Outcome} (hk : UOK isUrl known items)
    (hr : extendLoop isUrl known items none us = (last', out)) :
    UOK isUrl known (last'.getD items) := by
  have := (extendLoop_ok hk (fun l hl => by cases hl) hr).1
  cases last' with
  | none => exact hk
  | some l => exact this l rfl

/-! ### index / slice assignment: assignment on a copy, then every item is added again -/

theorem mem_setEach_of {α} {xs vs : List α} {is : List Nat} {x : α}
    (hx : x ∈ setEach xs is vs) : x ∈ xs ∨ x ∈ vs := by
  induction is generalizing xs vs with
  | nil => simp only [setEach] at hx; exact .inl hx
  | cons i is ih =>
    cases vs with
    | nil => simp only [setEach] at hx; exact .inl hx
    | cons v vs =>
      simp only [setEach] at hx
      rcases ih hx with h | h
      · rcases List.mem_or_eq_of_mem_set h with h | h
        · exact .inl h
        · exact .inr (by simp [h])
      · exact .inr (by simp [h])

/-- whatever the slice, the list after `xs[a:b:st] = vs` only holds items of `xs` and of `vs` -/
theorem mem_sliceAssign_of {α} {xs vs r : List α} {a b st : Option Int} {x : α}
    (hr : sliceAssign xs a b st vs = some r) (hx : x ∈ r) : x ∈ xs ∨ x ∈ vs := by
  unfold sliceAssign at hr
  simp only at hr
  split at hr
  · cases hr; exact mem_splice_of hx
  · split at hr
    · cases hr
    · split at hr
      · cases hr; exact mem_setEach_of hx
      · cases hr

/-- adding items again through the filter: duplicates and known URLs are dropped, so the result is
    `UOK` whatever was assigned (as long as every item is a good URL) -/
theorem readd_ok {known acc xs : List String} (hk : UOK isUrl known acc)
    (hg : ∀ x ∈ xs, Good isUrl x) : UOK isUrl known (readd known acc xs) := by
  induction xs generalizing acc with
  | nil => simpa [readd] using hk
  | cons x xs ih =>
    have hg' : ∀ y ∈ xs, Good isUrl y := fun y hy => hg y (by simp [hy])
    unfold readd
    split
    · exact ih hk hg'
    · rename_i hn
      have hn' : x ∉ acc ∧ x ∉ known := by simpa [not_or] using hn
      apply ih _ hg'
      have := UOK_splice_singleton (k := acc.length) hk (hg x (by simp)) hn'.1 hn'.2
      rwa [splice_length_self] at this

/-- a list that is `UOK` already is added again unchanged (`l[:] = l`, `l[i] = l[i]`) -/
theorem readd_id {known acc xs : List String} (hk : UOK isUrl known (acc ++ xs)) :
    readd known acc xs = acc ++ xs := by
  induction xs generalizing acc with
  | nil => simp [readd]
  | cons x xs ih =>
    have h2 : x ∉ known := hk.2.2 x (by simp)
    have h1 : x ∉ acc := by
      have := hk.1
      rw [List.nodup_append] at this
      intro hm
      exact this.2.2 x hm x (by simp) rfl
    unfold readd
    rw [if_neg (by simp [h1, h2])]
    have hk' : UOK isUrl known ((acc ++ [x]) ++ xs) := by simpa using hk
    simpa using ih hk'

theorem urlsSetSlice_ok {known items us r : List String} {a b st : Option Int} {out : Outcome}
    (hk : UOK isUrl known items)
    (hr : urlsSetSlice isUrl known items a b st us = (some r, out)) : UOK isUrl known r := by
  unfold urlsSetSlice at hr
  split at hr
  · cases hr
  · rename_i cs hc
    split at hr
    · cases hr
    · rename_i items' hs
      cases hr
      apply readd_ok (UOK_nil known)
      intro x hx
      rcases mem_sliceAssign_of hs hx with h | h
      · exact hk.2.1 x h
      · exact coerceAll_ok_good hc x h

theorem nodup_reverse' {α} {l : List α} (h : l.Nodup) : l.reverse.Nodup := by
  simp only [List.Nodup, List.pairwise_reverse] at h ⊢
  exact h.imp (fun hab => Ne.symm hab)

theorem UOK_reverse {known items : List String} (hk : UOK isUrl known items) :
    UOK isUrl known items.reverse :=
  ⟨nodup_reverse' hk.1, fun u hu => hk.2.1 u (List.mem_reverse.1 hu),
   fun u hu => hk.2.2 u (List.mem_reverse.1 hu)⟩

/-- assigning a good list `us` to the whole slice `[:]` hands exactly `us` to the callback -/
theorem urlsSetSlice_whole {known items us : List String} (hk : UOK isUrl known us) :
    urlsSetSlice isUrl known items none none none us = (some us, .ok) := by
  simp only [urlsSetSlice, coerceAll_id hk.2.1, sliceAssign, sliceRange, Option.getD_none, if_true, splice]
  simp only [List.take_zero, List.nil_append, Nat.max_eq_right, Nat.zero_le,
    List.drop_length, List.append_nil]
  have := readd_id (isUrl := isUrl) (known := known) (acc := []) (xs := us) (by simpa using hk)
  simpa using this

/-- `MonitoredList.reverse()` on a good list: exactly the reversed list, one callback, no error -/
theorem urlsOp_reverse {known items : List String} (hk : UOK isUrl known items) :
    urlsOp isUrl known items .reverse = (some items.reverse, .ok) := by
  simp only [urlsOp]
  exact urlsSetSlice_whole (UOK_reverse hk)

/-! ### `urlsOp` -/

/-- EVERY in-place operation on a URL list — index and slice assignment included since
    /repo e62ce6d — hands a duplicate-free list of good URLs to the callback -/
theorem urlsOp_ok {known items r : List String} {op : UOp}
    {out : Outcome} (hk : UOK isUrl known items)
    (hr : urlsOp isUrl known items op = (some r, out)) : UOK isUrl known r := by
  have hdel : ∀ k, UOK isUrl known (splice items k (k + 1) []) := fun k =>
    UOK_sublist hk (splice_nil_sublist items (Nat.le_succ k))
  cases op with
  | insert i u =>
    simp only [urlsOp] at hr
    split at hr
    · cases hr
    · rename_i r' hf; cases hr; exact filterIns_ok hk hf
  | append u =>
    simp only [urlsOp] at hr
    split at hr
    · cases hr
    · rename_i r' hf; cases hr; exact filterIns_ok hk hf
  | extend us =>
    simp only [urlsOp] at hr
    exact (extendLoop_ok hk (fun l hl => by cases hl) hr).1 r rfl
  | iadd us =>
    simp only [urlsOp] at hr
    exact (extendLoop_ok hk (fun l hl => by cases hl) hr).1 r rfl
  | delete i =>
    simp only [urlsOp] at hr
    split at hr
    · cases hr
    · cases hr; exact hdel _
  | delSlice a b =>
    simp only [urlsOp] at hr
    cases hr
    exact UOK_sublist hk (splice_nil_sublist items (sliceRange_le _ a b))
  | clear =>
    simp only [urlsOp] at hr
    cases hr
    exact UOK_nil known
  | remove u =>
    simp only [urlsOp] at hr
    split at hr
    · cases hr; exact hdel _
    · cases hr
  | pop i =>
    simp only [urlsOp] at hr
    split at hr
    · cases hr
    · cases hr; exact hdel _
  | replace us =>
    simp only [urlsOp] at hr
    split at hr
    · cases hr
    · rename_i r' hf; cases hr; exact urlsReplace_ok hf
  | setItem i u =>
    simp only [urlsOp] at hr
    split at hr
    · cases hr
    · rename_i c hc
      split at hr
      · cases hr
      · cases hr
        apply readd_ok (UOK_nil known)
        intro x hx
        rcases List.mem_or_eq_of_mem_set hx with h | h
        · exact hk.2.1 x h
        · subst h; exact coerce_ok_good hc
  | setSlice a b st us =>
    simp only [urlsOp] at hr
    exact urlsSetSlice_ok hk hr
  | reverse =>
    simp only [urlsOp] at hr
    exact urlsSetSlice_ok hk hr

end Torf.Lists
