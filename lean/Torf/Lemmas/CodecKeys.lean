/-
  `encode_dict` and the keys of the Python dict: it returns only if *every* key is a `str` (any other
  key type — bytes, int, bool, None, tuple, float, … — makes it raise ValueError), and then the
  output has exactly one entry per key: entry `i` of the converted list is (key `i`, encoding of
  value `i`).  Owned by C06.
-/
import Torf.Lemmas.CodecLookup
namespace Torf.Codec
open Torf Torf.Bencode

/-- the structure of a successful `encodeKvs`: one output entry per pair, every key is a `str`, the
    keys are the dict's keys in order, every entry is (key, encoding of that key's value) -/
theorem encodeKvs_keys : ∀ (kvs : List (PyVal × PyVal)) (es : List (String × BVal)),
    encodeKvs kvs = .ok es →
    es.length = kvs.length ∧ (∀ p ∈ kvs, ∃ k, p.1 = .str k) ∧ strKeys kvs = es.map (·.1) ∧
    (∀ e ∈ es, ∃ p ∈ kvs, p.1 = .str e.1 ∧ encodeValue p.2 = .ok e.2)
  | [], es, h => by simp only [encodeKvs, Except.ok.injEq] at h; subst h; simp [strKeys]
  | (.str k, v) :: t, es, h => by
    simp only [encodeKvs] at h
    split at h
    · exact absurd h (by simp)
    · rename_i v' hv
      split at h
      · exact absurd h (by simp)
      · rename_i t' ht
        simp only [Except.ok.injEq] at h; subst h
        obtain ⟨h1, h2, h3, h4⟩ := encodeKvs_keys t t' ht
        refine ⟨by simp [h1], ?_, by simp [strKeys, h3], ?_⟩
        · intro q hq
          rcases List.mem_cons.mp hq with rfl | hq
          · exact ⟨_, rfl⟩
          · exact h2 q hq
        · intro e' he'
          rcases List.mem_cons.mp he' with rfl | he'
          · exact ⟨_, List.mem_cons_self, rfl, hv⟩
          · obtain ⟨q, hq, hh⟩ := h4 e' he'
            exact ⟨q, List.mem_cons_of_mem _ hq, hh⟩
  | (.none, _) :: _, es, h => by simp [encodeKvs] at h
  | (.bool _, _) :: _, es, h => by simp [encodeKvs] at h
  | (.int _, _) :: _, es, h => by simp [encodeKvs] at h
  | (.float _, _) :: _, es, h => by simp [encodeKvs] at h
  | (.bytes _, _) :: _, es, h => by simp [encodeKvs] at h
  | (.list _, _) :: _, es, h => by simp [encodeKvs] at h
  | (.tuple _, _) :: _, es, h => by simp [encodeKvs] at h
  | (.dict _, _) :: _, es, h => by simp [encodeKvs] at h
  | (.datetime _, _) :: _, es, h => by simp [encodeKvs] at h
  | (.other _, _) :: _, es, h => by simp [encodeKvs] at h

/-- a pair of the dict whose key is the `str` `k`, keys pairwise distinct ⇒ it is what a lookup of `k` finds -/
theorem lookupStr_of_mem {k : String} {m : PyVal} : ∀ {kvs : List (PyVal × PyVal)},
    (strKeys kvs).Nodup → (PyVal.str k, m) ∈ kvs → PyVal.lookupStr k kvs = some m
  | [], _, h => by simp at h
  | (.str k', v) :: t, hn, h => by
    simp only [strKeys, List.nodup_cons] at hn
    rcases List.mem_cons.mp h with heq | ht
    · simp only [Prod.mk.injEq, PyVal.str.injEq] at heq
      obtain ⟨rfl, rfl⟩ := heq
      simp [PyVal.lookupStr]
    · have hne : k ≠ k' := by
        intro he; subst he
        apply hn.1
        clear hn h
        induction t with
        | nil => simp at ht
        | cons q r ih =>
          rcases List.mem_cons.mp ht with rfl | hr
          · simp [strKeys]
          · obtain ⟨qk, qv⟩ := q
            cases qk <;> simp [strKeys, ih hr]
      simp only [PyVal.lookupStr, hne, if_false]
      exact lookupStr_of_mem hn.2 ht
  | (.none, _) :: t, hn, h => by
    rcases List.mem_cons.mp h with heq | ht
    · simp at heq
    · simp only [PyVal.lookupStr]; exact lookupStr_of_mem (by simpa [strKeys] using hn) ht
  | (.bool _, _) :: t, hn, h => by
    rcases List.mem_cons.mp h with heq | ht
    · simp at heq
    · simp only [PyVal.lookupStr]; exact lookupStr_of_mem (by simpa [strKeys] using hn) ht
  | (.int _, _) :: t, hn, h => by
    rcases List.mem_cons.mp h with heq | ht
    · simp at heq
    · simp only [PyVal.lookupStr]; exact lookupStr_of_mem (by simpa [strKeys] using hn) ht
  | (.float _, _) :: t, hn, h => by
    rcases List.mem_cons.mp h with heq | ht
    · simp at heq
    · simp only [PyVal.lookupStr]; exact lookupStr_of_mem (by simpa [strKeys] using hn) ht
  | (.bytes _, _) :: t, hn, h => by
    rcases List.mem_cons.mp h with heq | ht
    · simp at heq
    · simp only [PyVal.lookupStr]; exact lookupStr_of_mem (by simpa [strKeys] using hn) ht
  | (.list _, _) :: t, hn, h => by
    rcases List.mem_cons.mp h with heq | ht
    · simp at heq
    · simp only [PyVal.lookupStr]; exact lookupStr_of_mem (by simpa [strKeys] using hn) ht
  | (.tuple _, _) :: t, hn, h => by
    rcases List.mem_cons.mp h with heq | ht
    · simp at heq
    · simp only [PyVal.lookupStr]; exact lookupStr_of_mem (by simpa [strKeys] using hn) ht
  | (.dict _, _) :: t, hn, h => by
    rcases List.mem_cons.mp h with heq | ht
    · simp at heq
    · simp only [PyVal.lookupStr]; exact lookupStr_of_mem (by simpa [strKeys] using hn) ht
  | (.datetime _, _) :: t, hn, h => by
    rcases List.mem_cons.mp h with heq | ht
    · simp at heq
    · simp only [PyVal.lookupStr]; exact lookupStr_of_mem (by simpa [strKeys] using hn) ht
  | (.other _, _) :: t, hn, h => by
    rcases List.mem_cons.mp h with heq | ht
    · simp at heq
    · simp only [PyVal.lookupStr]; exact lookupStr_of_mem (by simpa [strKeys] using hn) ht

/-- what `encode_dict` returns, in terms of the dict's keys -/
theorem encodeDict_keys (kvs : List (PyVal × PyVal)) (u : BVal) (h : encodeDict kvs = .ok u)
    (hn : (strKeys kvs).Nodup) :
    ∃ ukvs, u = .dict ukvs ∧
      (∀ p ∈ kvs, ∃ k, p.1 = .str k) ∧
      ukvs.length = kvs.length ∧
      (ukvs.map (·.1)).Nodup ∧
      (∀ kb v, (kb, v) ∈ ukvs →
        ∃ k m, PyVal.lookupStr k kvs = some m ∧ kb = utf8Enc k ∧ encodeValue m = .ok v) := by
  simp only [encodeDict, encodeValue] at h
  split at h
  · rename_i es hes
    simp only [Except.ok.injEq] at h
    obtain ⟨hlen, hstr, hkeys, hback⟩ := encodeKvs_keys kvs es hes
    have hperm := isort_perm strLe es
    refine ⟨_, h.symm, hstr, by simp [hperm.length_eq, hlen], ?_, ?_⟩
    · have hnd : (es.map (·.1)).Nodup := hkeys ▸ hn
      have h1 : ((isort strLe es).map (·.1)).Nodup := (hperm.map _).nodup_iff.mpr hnd
      have : ((isort strLe es).map encKey).map (·.1) = ((isort strLe es).map (·.1)).map utf8Enc := by
        simp [List.map_map, encKey, Function.comp_def]
      rw [this]
      exact nodup_map_of_inj (fun a b => utf8Enc_inj) _ h1
    · intro kb v hm
      obtain ⟨e, he, heq⟩ := List.mem_map.mp hm
      have he' : e ∈ es := hperm.subset he
      obtain ⟨p, hp, hpk, hpv⟩ := hback e he'
      obtain ⟨pk, pv⟩ := p
      simp only at hpk hpv
      subst hpk
      simp only [encKey, Prod.mk.injEq] at heq
      exact ⟨e.1, pv, lookupStr_of_mem hn hp, heq.1.symm, heq.2 ▸ hpv⟩
  · exact absurd h (by simp)

/-- a key that is not a `str` — whatever else it is — makes `encode_dict` raise ValueError -/
theorem encodeDict_nonstr_key (kvs : List (PyVal × PyVal)) (p : PyVal × PyVal) (hp : p ∈ kvs)
    (hk : ∀ k, p.1 ≠ .str k) : ∃ e, encodeDict kvs = .error e := by
  cases h : encodeDict kvs with
  | error e => exact ⟨e, rfl⟩
  | ok u =>
    simp only [encodeDict, encodeValue] at h
    split at h
    · rename_i es hes
      obtain ⟨_, hstr, _, _⟩ := encodeKvs_keys kvs es hes
      obtain ⟨k, hk'⟩ := hstr p hp
      exact absurd hk' (hk k)
    · exact absurd h (by simp)

end Torf.Codec
