/-
  Torf.Lemmas.PipelineLive — deadlock freedom of the pipeline: in every state that satisfies the
  invariant and in which main has not returned, some thread can take a progress step (for the
  janitor: after the idle steps of its current polling round).
-/
import Torf.Lemmas.PipelineProg
namespace Torf.Pipeline

/-- no hasher is running -/
def AllDead (s : State) : Prop := ∀ (i : Nat) (p : HPc), s.hs[i]? = some p → p.running = false

theorem AllDead.not_running {s : State} (h : AllDead s) (i : Nat) : hasherRunning s i = false := by
  unfold hasherRunning
  rw [List.getD_eq_getElem?_getD]
  cases hp : s.hs[i]? with
  | none => simp [HPc.running]
  | some p => simpa using h i p hp

theorem step_janitor (cfg : Cfg) (s : State) (b : Bool) :
    step cfg s ⟨.janitor, b⟩ = stepJanitor cfg s b := rfl

theorem coreJan_spinPc_ne_waiting (l : List Nat) : coreJan .waiting ≠ coreJan (spinPc l) := by
  rcases spinPc_cases l with ⟨_, h⟩ | ⟨_, h⟩ <;> rw [h] <;> simp [coreJan]

/-- the janitor's busy wait ends when all hashers are dead -/
theorem janitor_spin_progress (cfg : Cfg) :
    ∀ (n : Nat) (rest : List Nat) (s : State), s.jan = .spin rest → rest ≠ [] → rest.length ≤ n →
      AllDead s → janitorReachesProgress cfg s n = true := by
  intro n
  induction n with
  | zero =>
    intro rest s _ hne hlen _
    exact absurd (List.length_eq_zero_iff.1 (Nat.le_zero.1 hlen)) hne
  | succ n ih =>
    intro rest s hj hne hlen hd
    cases rest with
    | nil => exact absurd rfl hne
    | cons h r =>
      have hr := hd.not_running h
      have hstep : step cfg s ⟨.janitor, false⟩ = some (enterSpin s r) := by
        simp [step_janitor, stepJanitor, hj, hr]
      unfold janitorReachesProgress
      rw [hstep]
      simp only [Bool.or_eq_true]
      cases r with
      | nil =>
        left
        exact isProgress_of_jan (by simp [hj, enterSpin, coreJan])
      | cons h' r' =>
        right
        exact ih (h' :: r') _ rfl (by simp) (by simpa using hlen) hd

/-- a pruning round ends, and then the janitor sees the finalize event -/
theorem janitor_prune_progress (cfg : Cfg) :
    ∀ (n : Nat) (snap : List Nat) (s : State), s.jan = .prune snap → snap ≠ [] →
      snap.length + 1 ≤ n → AllDead s → s.fin = true → janitorReachesProgress cfg s n = true := by
  intro n
  induction n with
  | zero => intro snap s _ _ hlen; omega
  | succ n ih =>
    intro snap s hj hne hlen hd hf
    cases snap with
    | nil => exact absurd rfl hne
    | cons h r =>
      have hr := hd.not_running h
      have hstep : step cfg s ⟨.janitor, false⟩ =
          some (enterPrune { s with tracked := s.tracked.erase h } r) := by
        simp [step_janitor, stepJanitor, hj, hr]
      unfold janitorReachesProgress
      rw [hstep]
      simp only [Bool.or_eq_true]
      right
      cases r with
      | nil =>
        cases n with
        | zero => simp at hlen
        | succ m =>
          unfold janitorReachesProgress
          have hstep2 : step cfg (enterPrune { s with tracked := s.tracked.erase h } [])
              ⟨.janitor, false⟩ = some (enterSpin (enterPrune { s with tracked := s.tracked.erase h } [])
                (s.tracked.erase h)) := by
            simp [step_janitor, stepJanitor, enterPrune, hf]
          rw [hstep2]
          simp only [Bool.or_eq_true]
          left
          apply isProgress_of_jan
          rw [enterSpin_eq]
          exact coreJan_spinPc_ne_waiting _
      | cons h' r' =>
        exact ih (h' :: r') _ rfl (by simp) (by simpa using hlen) hd hf

/-- when the reader and all hashers are done and the event is set, the janitor (if still running)
    gets to a progress step by itself -/
theorem janitor_progress {cfg : Cfg} {s : State} (h3 : InvB3 cfg s) (hd : AllDead s)
    (hf : s.fin = true) (hrun : s.jan.running = true) : canProgress cfg s = true := by
  cases hj : s.jan with
  | notStarted => simp [hj, JPc.running] at hrun
  | refused => simp [hj, JPc.running] at hrun
  | done => simp [hj, JPc.running] at hrun
  | begin_ =>
    exact canProgress_of_label (mem_allLabels_janitor cfg false) (s' := { s with jan := .waiting })
      (by simp [step_janitor, stepJanitor, hj]) (isProgress_of_jan (by simp [hj, coreJan]))
  | waiting =>
    exact canProgress_of_label (mem_allLabels_janitor cfg false) (s' := enterSpin s s.tracked)
      (by simp [step_janitor, stepJanitor, hj, hf])
      (isProgress_of_jan (by rw [enterSpin_eq, hj]; exact coreJan_spinPc_ne_waiting _))
  | closing =>
    exact canProgress_of_label (mem_allLabels_janitor cfg false)
      (s' := { s with hq := s.hq ++ [none], jan := .done })
      (by simp [step_janitor, stepJanitor, hj]) (isProgress_of_jan (by simp [hj, coreJan]))
  | prune snap =>
    obtain ⟨hne, hlen⟩ := h3.jp snap hj
    exact canProgress_of_janitor (janitor_prune_progress cfg _ snap s hj hne (by omega) hd hf)
  | spin rest =>
    obtain ⟨hne, hlen, _⟩ := h3.js1 rest hj
    exact canProgress_of_janitor (janitor_spin_progress cfg _ rest s hj hne (by omega) hd)

theorem startedCnt_of_not_preJan (cfg : Cfg) {m : MPc} (h : preJan m = false) :
    startedCnt cfg m = cfg.N := by
  cases m <;> simp_all [preJan, startedCnt]

theorem preReader_of_not_preJan {m : MPc} (h : preJan m = false) : preReader m = false := by
  cases m <;> simp_all [preJan, preReader]

/-- Once main has started every thread: as long as the reader, a hasher or the janitor is
    running, one of them can take a progress step (main is never needed: the hash queue is
    unbounded). -/
theorem workers_progress {cfg : Cfg} {s : State} (hN : 1 ≤ cfg.N) (hcap : 1 ≤ cfg.cap)
    (h : Inv cfg s) (hpre : preJan s.main = false)
    (hrun : s.rpc.running = true ∨ (∃ (i : Nat) (p : HPc), s.hs[i]? = some p ∧ p.running = true) ∨
      s.jan.running = true) : canProgress cfg s = true := by
  have hlen := h.b1.len
  by_cases c1 : ∃ i : Nat, s.hs[i]? = some .begin_
  · obtain ⟨i, hi⟩ := c1; exact canProgress_hasher_begin hlen hi
  by_cases c2 : ∃ (i k : Nat), s.hs[i]? = some (.holding k)
  · obtain ⟨i, k, hi⟩ := c2; exact canProgress_hasher_holding hlen hi
  by_cases c3 : ∃ i : Nat, s.hs[i]? = some .setEv
  · obtain ⟨i, hi⟩ := c3; exact canProgress_hasher_setEv hlen hi
  by_cases c4 : ∃ i : Nat, s.hs[i]? = some .requeue
  · obtain ⟨i, hi⟩ := c4
    exact canProgress_hasher_requeue hlen hi (by rw [h.b2.e3 i hi]; exact hcap)
  have hstart := h.b1.hstart
  rw [startedCnt_of_not_preJan cfg hpre] at hstart
  have hnref := h.b1.nrefH
  have hrs : s.rpc ≠ .notStarted := by
    intro hc
    have := h.b1.rstart.2 hc
    rw [preReader_of_not_preJan hpre] at this
    exact absurd this (by simp)
  by_cases hpq : s.pq = []
  · -- the reader has room
    cases hr : s.rpc with
    | begin_ => exact canProgress_reader_begin hr
    | putting k => exact canProgress_reader_put hr (by rw [hpq]; exact hcap)
    | closing => exact canProgress_reader_close hr (by rw [hpq]; exact hcap)
    | notStarted => exact absurd hr hrs
    | refused => exact absurd hr h.b1.nrefR
    | done =>
      rcases h.b2.e2 hr with hn | ⟨i, hi⟩
      · rw [hpq] at hn; simp at hn
      · exact absurd ⟨i, hi⟩ c4
  · by_cases c5 : ∃ i : Nat, s.hs[i]? = some .getting
    · obtain ⟨i, hi⟩ := c5; exact canProgress_hasher_getting hlen hi hpq
    · -- every hasher is done
      have hdone : ∀ (i : Nat) (p : HPc), s.hs[i]? = some p → p = .done := by
        intro i p hi
        have hiN : i < cfg.N := by
          rw [← hlen]
          rcases Nat.lt_or_ge i s.hs.length with h' | h'
          · exact h'
          · simp [List.getElem?_eq_none h'] at hi
        cases p with
        | done => rfl
        | notStarted => exact absurd hi (hstart i hiN)
        | refused => exact absurd hi (hnref i)
        | begin_ => exact absurd ⟨i, hi⟩ c1
        | getting => exact absurd ⟨i, hi⟩ c5
        | holding k => exact absurd ⟨i, k, hi⟩ c2
        | requeue => exact absurd ⟨i, hi⟩ c4
        | setEv => exact absurd ⟨i, hi⟩ c3
      have hd : AllDead s := by
        intro i p hi; rw [hdone i p hi]; rfl
      have h0 : s.hs[0]? = some .done := by
        have : 0 < s.hs.length := by omega
        rw [List.getElem?_eq_getElem this]
        congr 1
        exact hdone 0 _ (List.getElem?_eq_getElem this)
      have hf := h.b2.v2 h0
      have hrd : s.rpc = .done := by
        cases hc : s.rpc with
        | done => rfl
        | _ => have := h.b2.e1fin (by simp [hc]); rw [hf] at this; simp at this
      rcases hrun with hr | ⟨i, p, hi, hp⟩ | hj
      · simp [hrd, RPc.running] at hr
      · rw [hd i p hi] at hp; simp at hp
      · exact janitor_progress h.b3 hd hf hj

theorem Inv.deadlock_free {cfg : Cfg} {s : State} (hwf : wf cfg = true) (hrf : cfg.refuse = [])
    (h : Inv cfg s) (ht : terminal s = false) : canProgress cfg s = true := by
  have hN : 1 ≤ cfg.N := by simp [wf] at hwf; exact hwf.1
  have hcap : 1 ≤ cfg.cap := by simp [wf] at hwf; exact hwf.2
  cases hm : s.main with
  | finished r => simp [terminal, hm] at ht
  | collect =>
    by_cases hq : s.hq = []
    · refine workers_progress hN hcap h (by simp [hm, preJan]) (Or.inr (Or.inr ?_))
      cases hr : s.jan.running with
      | true => rfl
      | false =>
        have hns : s.jan ≠ .notStarted := by
          intro hc
          have := h.b1.jstart.2 hc
          simp [hm, preJan] at this
        have := h.b3.h1 (JPc.done_of hr hns h.b1.nrefJ) hm
        rw [hq] at this; simp at this
    · exact canProgress_collect h.a hm hq
  | joinReader e =>
    cases hr : s.rpc.running with
    | false => exact canProgress_joinReader hm hr
    | true => exact workers_progress hN hcap h (by simp [hm, preJan]) (Or.inl hr)
  | joinHasher hh idx e =>
    cases hr : hasherRunning s hh with
    | false => exact canProgress_joinHasher hm hr
    | true =>
      obtain ⟨p, hp, hpr⟩ := hasherRunning_true hr
      exact workers_progress hN hcap h (by simp [hm, preJan]) (Or.inr (Or.inl ⟨hh, p, hp, hpr⟩))
  | joinJanitor e =>
    cases hr : s.jan.running with
    | false => exact canProgress_joinJanitor hm hr
    | true => exact workers_progress hN hcap h (by simp [hm, preJan]) (Or.inr (Or.inr hr))
  | _ => exact canProgress_main_free hrf (by simp [hm])

end Torf.Pipeline
