/-
  Torf.Lemmas.GenHistory — the private stream of `generate()` reads the current bytes.
-/
import Torf.Model.GenHistory
namespace Torf.GenHistory
open Torf

/-- every cached handle is open on the inode its path names now -/
def Consistent (dir : List Nat) (t : Table) : Prop := ∀ h ∈ t, h.ino = dir.getD h.file 0

theorem consistent_nil (dir : List Nat) : Consistent dir [] := by intro h hh; simp at hh

theorem evict_suffix (cap : Nat) (t : Table) : ∀ h ∈ evict cap t, h ∈ t := by
  induction t with
  | nil => intro h hh; simp [evict] at hh
  | cons e t ih =>
    intro h hh
    unfold evict at hh
    split at hh
    · exact List.mem_cons_of_mem _ (ih h hh)
    · exact hh

theorem consistent_evict {dir : List Nat} {t : Table} (cap : Nat) (h : Consistent dir t) :
    Consistent dir (evict cap t) := fun x hx => h x (evict_suffix cap t x hx)

theorem hasKey_false_iff (t : Table) (j : Nat) : hasKey t j = false ↔ ∀ h ∈ t, h.file ≠ j := by
  unfold hasKey
  simp [List.any_eq_false]

theorem hasKey_evict_false {t : Table} {j : Nat} (cap : Nat) (h : hasKey t j = false) :
    hasKey (evict cap t) j = false := by
  rw [hasKey_false_iff] at h ⊢
  exact fun x hx => h x (evict_suffix cap t x hx)

theorem consistent_getOpenFile {dir : List Nat} {t : Table} (cap j : Nat) (h : Consistent dir t) :
    Consistent dir (getOpenFile cap dir t j) := by
  unfold getOpenFile
  split
  · exact h
  · intro x hx
    rcases List.mem_append.1 hx with hx | hx
    · exact consistent_evict cap h x hx
    · simp only [List.mem_singleton] at hx
      subst hx
      rfl

theorem inoOf_of_consistent {dir : List Nat} {t : Table} {j : Nat} (h : Consistent dir t)
    (hk : hasKey t j = true) : inoOf t j = some (dir.getD j 0) := by
  induction t with
  | nil => simp [hasKey] at hk
  | cons e t ih =>
    unfold inoOf
    by_cases he : e.file = j
    · have := h e (by simp)
      simp [he, this]
    · have hk' : hasKey t j = true := by
        simpa [hasKey, he] using hk
      simp only [beq_iff_eq, he, ↓reduceIte]
      exact ih (fun x hx => h x (List.mem_cons_of_mem _ hx)) hk'

theorem inoOf_append_new {t : Table} {j i : Nat} (hk : hasKey t j = false) :
    inoOf (t ++ [⟨j, i⟩]) j = some i := by
  induction t with
  | nil => simp [inoOf]
  | cons e t ih =>
    have he : e.file ≠ j := (hasKey_false_iff _ _).1 hk e (by simp)
    have hk' : hasKey t j = false :=
      (hasKey_false_iff _ _).2 (fun x hx => (hasKey_false_iff _ _).1 hk x (List.mem_cons_of_mem _ hx))
    simp only [List.cons_append, inoOf, beq_iff_eq, he, ↓reduceIte]
    exact ih hk'

/-- through a consistent table `_get_open_file` hands out a handle on the current inode -/
theorem inoOf_getOpenFile {dir : List Nat} {t : Table} (cap j : Nat) (h : Consistent dir t) :
    inoOf (getOpenFile cap dir t j) j = some (dir.getD j 0) := by
  unfold getOpenFile
  by_cases hk : hasKey t j = true
  · simp only [hk, ↓reduceIte]
    exact inoOf_of_consistent h hk
  · have hk' : hasKey t j = false := by simpa using hk
    simp only [hk', Bool.false_eq_true, ↓reduceIte]
    exact inoOf_append_new (hasKey_evict_false cap hk')

theorem openAll_consistent {dir : List Nat} (cap : Nat) (js : List Nat) :
    ∀ {t : Table}, Consistent dir t →
      (openAll cap dir js t).1 = js.map (fun j => dir.getD j 0) ∧ Consistent dir (openAll cap dir js t).2 := by
  induction js with
  | nil => intro t h; exact ⟨rfl, h⟩
  | cons j js ih =>
    intro t h
    have h1 := consistent_getOpenFile cap j h
    obtain ⟨ih1, ih2⟩ := ih h1
    refine ⟨?_, ?_⟩
    · simp only [openAll, List.map_cons, inoOf_getOpenFile cap j h, Option.getD_some, ih1]
    · simpa only [openAll] using ih2

theorem map_range_getD (dir : List Nat) :
    (List.range dir.length).map (fun j => dir.getD j 0) = dir := by
  apply List.ext_getElem
  · simp
  · intro i h1 h2
    simp [List.getElem?_eq_getElem h2]

/-- the private stream of `generate()` (code as it is: instance-level cache) reads exactly the
    current contents, whatever the other streams hold -/
theorem readAll_private (cap : Nat) (w : World α) :
    readAll false cap w = (w.cur, w) := by
  unfold readAll
  simp only [Bool.false_eq_true, ↓reduceIte]
  rw [(openAll_consistent cap (List.range w.dir.length) (consistent_nil w.dir)).1, map_range_getD]
  rfl

/-! ### well-formed worlds -/

structure WF (w : World α) : Prop where
  lt : ∀ i ∈ w.dir, i < w.inodes.length
  nodup : w.dir.Nodup

theorem WF.init (files : List (List α)) : WF (World.init files) :=
  ⟨by intro i hi; simpa [World.init] using hi, by simpa [World.init] using List.nodup_range⟩

theorem cur_init (files : List (List α)) : (World.init files).cur = files := by
  unfold World.cur World.init
  apply List.ext_getElem
  · simp
  · intro i h1 h2
    simp at h1
    simp [List.getElem?_eq_getElem h1]

theorem cur_replace {w : World α} (hw : WF w) (j : Nat) (bytes : List α) :
    ({ w with inodes := w.inodes ++ [bytes], dir := w.dir.set j w.inodes.length } : World α).cur =
      w.cur.set j bytes := by
  unfold World.cur
  simp only
  apply List.ext_getElem
  · simp
  · intro i h1 h2
    simp only [List.length_map, List.length_set] at h1
    simp only [List.getElem_map, List.getElem_set, List.map_set]
    by_cases hij : j = i
    · simp [hij]
    · simp only [hij, ↓reduceIte]
      have hlt := hw.lt w.dir[i] (List.getElem_mem h1)
      simp [List.getD_eq_getElem?_getD, List.getElem?_append_left hlt]

theorem cur_rewrite {w : World α} (hw : WF w) (j : Nat) (hj : j < w.dir.length) (bytes : List α) :
    ({ w with inodes := w.inodes.set (w.dir.getD j 0) bytes } : World α).cur = w.cur.set j bytes := by
  unfold World.cur
  simp only
  have hdj : w.dir.getD j 0 = w.dir[j] := by simp [List.getD_eq_getElem?_getD, List.getElem?_eq_getElem hj]
  rw [hdj]
  apply List.ext_getElem
  · simp
  · intro i h1 h2
    simp only [List.length_map] at h1
    simp only [List.getElem_map, List.getElem_set]
    by_cases hij : j = i
    · subst hij
      have hlt := hw.lt w.dir[j] (List.getElem_mem hj)
      simp [List.getD_eq_getElem?_getD, hlt]
    · simp only [hij, ↓reduceIte]
      have hne : w.dir[j] ≠ w.dir[i] := by
        intro heq
        exact hij ((List.getElem_inj hw.nodup).1 heq)
      simp [List.getD_eq_getElem?_getD, hne]

theorem WF.replace {w : World α} (hw : WF w) (j : Nat) (bytes : List α) :
    WF ({ w with inodes := w.inodes ++ [bytes], dir := w.dir.set j w.inodes.length } : World α) := by
  refine ⟨?_, ?_⟩
  · intro i hi
    simp only [List.length_append, List.length_singleton]
    rcases List.mem_or_eq_of_mem_set hi with h | h
    · have := hw.lt i h; omega
    · omega
  · simp only
    rw [List.nodup_iff_pairwise_ne, List.pairwise_iff_getElem]
    intro a b ha hb hab
    simp only [List.length_set] at ha hb
    simp only [List.getElem_set]
    have hnd := hw.nodup
    rw [List.nodup_iff_pairwise_ne, List.pairwise_iff_getElem] at hnd
    by_cases h1 : j = a
    · subst h1
      have h2 : ¬ j = b := by omega
      simp only [↓reduceIte, h2]
      have := hw.lt w.dir[b] (List.getElem_mem hb)
      omega
    · by_cases h2 : j = b
      · subst h2
        simp only [h1, ↓reduceIte]
        have := hw.lt w.dir[a] (List.getElem_mem ha)
        omega
      · simp only [h1, ↓reduceIte, h2]
        exact hnd a b ha hb hab

/-- a step of the code-as-it-is variant keeps the world well-formed; the current contents change
    only by `replace` / `rewrite`, exactly as in the specification -/
theorem step_private (H : List α → δ) (L cap : Nat) {w : World α} (hw : WF w) (op : Op α) :
    WF (step false H L cap w op).1 ∧
      (step false H L cap w op).1.cur =
        (match op with
          | .replace j b => w.cur.set j b
          | .rewrite j b => w.cur.set j b
          | _ => w.cur) ∧
      (step false H L cap w op).2 =
        (match op with
          | .generate => some (Generate.seq H L w.cur)
          | _ => none) := by
  cases op with
  | replace j b =>
    unfold step
    by_cases hj : j < w.dir.length
    · simp only [hj, ↓reduceIte]
      exact ⟨hw.replace j b, cur_replace hw j b, by trivial⟩
    · simp only [hj, ↓reduceIte]
      refine ⟨hw, ?_, by trivial⟩
      rw [List.set_eq_of_length_le]
      simp [World.cur]; omega
  | rewrite j b =>
    unfold step
    by_cases hj : j < w.dir.length
    · simp only [hj, ↓reduceIte]
      refine ⟨⟨?_, hw.nodup⟩, cur_rewrite hw j hj b, by trivial⟩
      intro i hi
      simp only [List.length_set]
      exact hw.lt i hi
    · simp only [hj, ↓reduceIte]
      refine ⟨hw, ?_, by trivial⟩
      rw [List.set_eq_of_length_le]
      simp [World.cur]; omega
  | newStream => exact ⟨⟨hw.lt, hw.nodup⟩, rfl, rfl⟩
  | touch s j =>
    unfold step
    by_cases hj : j < w.dir.length
    · simp only [hj, ↓reduceIte, setTable, Bool.false_eq_true]
      exact ⟨⟨hw.lt, hw.nodup⟩, rfl, by trivial⟩
    · simp only [hj, ↓reduceIte]
      exact ⟨hw, by trivial, by trivial⟩
  | close s =>
    simp only [step, setTable, Bool.false_eq_true, ↓reduceIte]
    exact ⟨⟨hw.lt, hw.nodup⟩, rfl, by trivial⟩
  | generate =>
    simp only [step, readAll_private]
    exact ⟨hw, by trivial, by trivial⟩

/-- replacing a file's content by content of the recorded length keeps the size list -/
theorem map_length_set_kept (cur : List (List α)) (sizes : List Nat)
    (h : cur.map List.length = sizes) (j : Nat) (b : List α) (hb : sizes[j]? = some b.length) :
    (cur.set j b).map List.length = sizes := by
  rw [List.map_set, h]
  apply List.ext_getElem?
  intro i
  rw [List.getElem?_set]
  by_cases hij : j = i
  · subst hij
    have hlt : j < sizes.length := by
      rcases Nat.lt_or_ge j sizes.length with h' | h'
      · exact h'
      · simp [List.getElem?_eq_none h'] at hb
    have hb' : sizes[j] = b.length := by
      rw [List.getElem?_eq_getElem hlt] at hb
      exact Option.some.inj hb
    simp [hlt, hb']
  · simp [hij]

end Torf.GenHistory
