/-
  Torf.Lemmas.GenHistory — the private stream of `generate()` reads the current bytes.
-/
import Torf.Model.GenHistory
namespace Torf.GenHistory
open Torf

/-- every cached handle is open on the inode its path names now -/
def Consistent (dir : List Nat) (t : Table) : Prop := ∀ h ∈ t, h.ino = dir.getD h.file 0

theorem consistent_nil (dir : List Nat) : Consistent dir [] := by intro h hh; simp at hh

theorem evict_suffix (cap : Nat) (t : Table) : ∀ h ∈ evict cap t, h ∈ t := by
  induction t with
  | nil => intro h hh; simp [evict] at hh
  | cons e t ih =>
    intro h hh
    unfold evict at hh
    split at hh
    · exact List.mem_cons_of_mem _ (ih h hh)
    · exact hh

theorem consistent_evict {dir : List Nat} {t : Table} (cap : Nat) (h : Consistent dir t) :
    Consistent dir (evict cap t) := fun x hx => h x (evict_suffix cap t x hx)

theorem hasKey_false_iff (t : Table) (j : Nat) : hasKey t j = false ↔ ∀ h ∈ t, h.file ≠ j := by
  unfold hasKey
  simp [List.any_eq_false]

theorem hasKey_evict_false {t : Table} {j : Nat} (cap : Nat) (h : hasKey t j = false) :
    hasKey (evict cap t) j = false := by
  rw [hasKey_false_iff] at h ⊢
  exact fun x hx => h x (evict_suffix cap t x hx)

theorem consistent_getOpenFile {dir : List Nat} {t : Table} (cap j : Nat) (h : Consistent dir t) :
    Consistent dir (getOpenFile cap dir t j) := by
  unfold getOpenFile
  split
  · exact h
  · intro x hx
    rcases List.mem_append.1 hx with hx | hx
    · exact consistent_evict cap h x hx
    · simp only [List.mem_singleton] at hx
      subst hx
      rfl

theorem inoOf_of_consistent {dir : List Nat} {t : Table} {j : Nat} (h : Consistent dir t)
    (hk : hasKey t j = true) : inoOf t j = some (dir.getD j 0) := by
  induction t with
  | nil => simp [hasKey] at hk
  | cons e t ih =>
    unfold inoOf
    by_cases he : e.file = j
    · have := h e (by simp)
      simp [he, this]
    · have hk' : hasKey t j = true := by
        simpa [hasKey, he] using hk
      simp only [beq_iff_eq, he, ↓reduceIte]
      exact ih (fun x hx => h x (List.mem_cons_of_mem _ hx)) hk'

theorem inoOf_append_new {t : Table} {j i : Nat} (hk : hasKey t j = false) :
    inoOf (t ++ [⟨j, i⟩]) j = some i := by
  induction t with
  | nil => simp [inoOf]
  | cons e t ih =>
    have he : e.file ≠ j := (hasKey_false_iff _ _).1 hk e (by simp)
    have hk' : hasKey t j = false :=
      (hasKey_false_iff _ _).2 (fun x hx => (hasKey_false_iff _ _).1 hk x (List.mem_cons_of_mem _ hx))
    simp only [List.cons_append, inoOf, beq_iff_eq, he, ↓reduceIte]
    exact ih hk'

/-- through a consistent table `_get_open_file` hands out a handle on the current inode -/
theorem inoOf_getOpenFile {dir : List Nat} {t : Table} (cap j : Nat) (h : Consistent dir t) :
    inoOf (getOpenFile cap dir t j) j = some (dir.getD j 0) := by
  unfold getOpenFile
  by_cases hk : hasKey t j = true
  · simp only [hk, ↓reduceIte]
    exact inoOf_of_consistent h hk
  · have hk' : hasKey t j = false := by simpa using hk
    simp only [hk', Bool.false_eq_true, ↓reduceIte]
    exact inoOf_append_new (hasKey_evict_false cap hk')

theorem openAll_consistent {dir : List Nat} (cap : Nat) (js : List Nat) :
    ∀ {t : Table}, Consistent dir t →
      (openAll cap dir js t).1 = js.map (fun j => dir.getD j 0) ∧ Consistent dir (openAll cap dir js t).2 := by
  induction js with
  | nil => intro t h; exact ⟨rfl, h⟩
  | cons j js ih =>
    intro t h
    have h1 := consistent_getOpenFile cap j h
    obtain ⟨ih1, ih2⟩ := ih h1
    refine ⟨?_, ?_⟩
    · simp only [openAll, List.map_cons, inoOf_getOpenFile cap j h, Option.getD_some, ih1]
    · simpa only [openAll] using ih2

theorem map_range_getD (dir : List Nat) :
    (List.range dir.length).map (fun j => dir.getD j 0) = dir := by
  apply List.ext_getElem
  · simp
  · intro i h1 h2
    simp [List.getElem?_eq_getElem h2]

/-- the private stream of `generate()` (code as it is: instance-level cache) reads exactly the
    current contents, whatever the other streams hold -/
theorem readPaths_private (cap : Nat) (w : World α) (js : List Nat) :
    readPaths false cap w js = (js.map fun j => w.inodes.getD (w.dir.getD j 0) [], w) := by
  unfold readPaths
  simp only [Bool.false_eq_true, ↓reduceIte]
  rw [(openAll_consistent cap js (consistent_nil w.dir)).1, List.map_map]
  rfl

theorem readAll_private (cap : Nat) (w : World α) :
    readAll false cap w = (w.cur, w) := by
  unfold readAll
  rw [readPaths_private]
  have h := map_range_getD w.dir
  unfold World.cur
  conv => rhs; rw [← h]
  rw [List.map_map]
  rfl

/-! ### well-formed worlds -/

structure WF (w : World α) : Prop where
  lt : ∀ i ∈ w.dir, i < w.inodes.length
  nodup : w.dir.Nodup

theorem WF.init (files : List (List α)) : WF (World.init files) :=
  ⟨by intro i hi; simpa [World.init] using hi, by simpa [World.init] using List.nodup_range⟩

theorem cur_init (files : List (List α)) : (World.init files).cur = files := by
  unfold World.cur World.init
  apply List.ext_getElem
  · simp
  · intro i h1 h2
    simp at h1
    simp [List.getElem?_eq_getElem h1]

theorem cur_replace {w : World α} (hw : WF w) (j : Nat) (bytes : List α) :
    ({ w with inodes := w.inodes ++ [bytes], dir := w.dir.set j w.inodes.length } : World α).cur =
      w.cur.set j bytes := by
  unfold World.cur
  simp only
  apply List.ext_getElem
  · simp
  · intro i h1 h2
    simp only [List.length_map, List.length_set] at h1
    simp only [List.getElem_map, List.getElem_set, List.map_set]
    by_cases hij : j = i
    · simp [hij]
    · simp only [hij, ↓reduceIte]
      have hlt := hw.lt w.dir[i] (List.getElem_mem h1)
      simp [List.getD_eq_getElem?_getD, List.getElem?_append_left hlt]

theorem cur_rewrite {w : World α} (hw : WF w) (j : Nat) (hj : j < w.dir.length) (bytes : List α) :
    ({ w with inodes := w.inodes.set (w.dir.getD j 0) bytes } : World α).cur = w.cur.set j bytes := by
  unfold World.cur
  simp only
  have hdj : w.dir.getD j 0 = w.dir[j] := by simp [List.getD_eq_getElem?_getD, List.getElem?_eq_getElem hj]
  rw [hdj]
  apply List.ext_getElem
  · simp
  · intro i h1 h2
    simp only [List.length_map] at h1
    simp only [List.getElem_map, List.getElem_set]
    by_cases hij : j = i
    · subst hij
      have hlt := hw.lt w.dir[j] (List.getElem_mem hj)
      simp [List.getD_eq_getElem?_getD, hlt]
    · simp only [hij, ↓reduceIte]
      have hne : w.dir[j] ≠ w.dir[i] := by
        intro heq
        exact hij ((List.getElem_inj hw.nodup).1 heq)
      simp [List.getD_eq_getElem?_getD, hne]

theorem WF.replace {w : World α} (hw : WF w) (j : Nat) (bytes : List α) :
    WF ({ w with inodes := w.inodes ++ [bytes], dir := w.dir.set j w.inodes.length } : World α) := by
  refine ⟨?_, ?_⟩
  · intro i hi
    simp only [List.length_append, List.length_singleton]
    rcases List.mem_or_eq_of_mem_set hi with h | h
    · have := hw.lt i h; omega
    · omega
  · simp only
    rw [List.nodup_iff_pairwise_ne, List.pairwise_iff_getElem]
    intro a b ha hb hab
    simp only [List.length_set] at ha hb
    simp only [List.getElem_set]
    have hnd := hw.nodup
    rw [List.nodup_iff_pairwise_ne, List.pairwise_iff_getElem] at hnd
    by_cases h1 : j = a
    · subst h1
      have h2 : ¬ j = b := by omega
      simp only [↓reduceIte, h2]
      have := hw.lt w.dir[b] (List.getElem_mem hb)
      omega
    · by_cases h2 : j = b
      · subst h2
        simp only [h1, ↓reduceIte]
        have := hw.lt w.dir[a] (List.getElem_mem ha)
        omega
      · simp only [h1, ↓reduceIte, h2]
        exact hnd a b ha hb hab

/-- a step of the code-as-it-is variant keeps the world well-formed; the current contents change
    only by `replace` / `rewrite`, exactly as in the specification -/
theorem step_private (H : List α → δ) (L cap : Nat) {w : World α} (hw : WF w) (op : Op α) :
    WF (step false H L cap w op).1 ∧
      (step false H L cap w op).1.cur =
        (match op with
          | .replace j b => w.cur.set j b
          | .rewrite j b => w.cur.set j b
          | _ => w.cur) ∧
      (step false H L cap w op).2 =
        (match op with
          | .generate => some (Generate.seq H L w.cur)
          | _ => none) := by
  cases op with
  | replace j b =>
    unfold step
    by_cases hj : j < w.dir.length
    · simp only [hj, ↓reduceIte]
      exact ⟨hw.replace j b, cur_replace hw j b, by trivial⟩
    · simp only [hj, ↓reduceIte]
      refine ⟨hw, ?_, by trivial⟩
      rw [List.set_eq_of_length_le]
      simp [World.cur]; omega
  | rewrite j b =>
    unfold step
    by_cases hj : j < w.dir.length
    · simp only [hj, ↓reduceIte]
      refine ⟨⟨?_, hw.nodup⟩, cur_rewrite hw j hj b, by trivial⟩
      intro i hi
      simp only [List.length_set]
      exact hw.lt i hi
    · simp only [hj, ↓reduceIte]
      refine ⟨hw, ?_, by trivial⟩
      rw [List.set_eq_of_length_le]
      simp [World.cur]; omega
  | newStream => exact ⟨⟨hw.lt, hw.nodup⟩, rfl, rfl⟩
  | touch s j =>
    unfold step
    by_cases hj : j < w.dir.length
    · simp only [hj, ↓reduceIte, setTable, Bool.false_eq_true]
      exact ⟨⟨hw.lt, hw.nodup⟩, rfl, by trivial⟩
    · simp only [hj, ↓reduceIte]
      exact ⟨hw, by trivial, by trivial⟩
  | close s =>
    simp only [step, setTable, Bool.false_eq_true, ↓reduceIte]
    exact ⟨⟨hw.lt, hw.nodup⟩, rfl, by trivial⟩
  | generate =>
    simp only [step, readAll_private]
    exact ⟨hw, by trivial, by trivial⟩

/-- replacing a file's content by content of the recorded length keeps the size list -/
theorem map_length_set_kept (cur : List (List α)) (sizes : List Nat)
    (h : cur.map List.length = sizes) (j : Nat) (b : List α) (hb : sizes[j]? = some b.length) :
    (cur.set j b).map List.length = sizes := by
  rw [List.map_set, h]
  apply List.ext_getElem?
  intro i
  rw [List.getElem?_set]
  by_cases hij : j = i
  · subst hij
    have hlt : j < sizes.length := by
      rcases Nat.lt_or_ge j sizes.length with h' | h'
      · exact h'
      · simp [List.getElem?_eq_none h'] at hb
    have hb' : sizes[j] = b.length := by
      rw [List.getElem?_eq_getElem hlt] at hb
      exact Option.some.inj hb
    simp [hlt, hb']
  · simp [hij]

/-! ## the metainfo side -/

theorem diskStep_private (cap : Nat) {w : World α} (hw : WF w) (op : Op α) :
    WF (diskStep cap w op) ∧
      (diskStep cap w op).cur =
        (match op with
          | .replace j b => w.cur.set j b
          | .rewrite j b => w.cur.set j b
          | _ => w.cur) := by
  obtain ⟨h1, h2, _⟩ := step_private (fun _ : List α => ()) 1 cap hw op
  exact ⟨h1, h2⟩

theorem WF.create {w : World α} (hw : WF w) (bytes : List α) :
    WF ({ w with inodes := w.inodes ++ [bytes], dir := w.dir ++ [w.inodes.length] } : World α) := by
  refine ⟨?_, ?_⟩
  · intro i hi
    simp only [List.length_append, List.length_singleton]
    rcases List.mem_append.1 hi with h | h
    · have := hw.lt i h; omega
    · simp only [List.mem_singleton] at h; omega
  · simp only
    rw [List.nodup_append]
    refine ⟨hw.nodup, by simp, ?_⟩
    intro a ha b hb
    simp only [List.mem_singleton] at hb
    have := hw.lt a ha
    omega

theorem cur_create {w : World α} (hw : WF w) (bytes : List α) :
    ({ w with inodes := w.inodes ++ [bytes], dir := w.dir ++ [w.inodes.length] } : World α).cur =
      w.cur ++ [bytes] := by
  unfold World.cur
  simp only [List.map_append, List.map_cons, List.map_nil]
  congr 1
  · apply List.map_congr_left
    intro i hi
    have := hw.lt i hi
    simp [List.getD_eq_getElem?_getD, List.getElem?_append_left this]
  · simp [List.getD_eq_getElem?_getD]

theorem sizeOnDisk_eq_cur (w : World α) (p : Nat) :
    sizeOnDisk w p = (w.cur[p]?).map List.length := by
  unfold sizeOnDisk World.cur
  rw [List.getElem?_map]
  cases w.dir[p]? <;> rfl

theorem sum_map_congr {β : Type} (l : List β) (f g : β → Nat) (h : ∀ x ∈ l, f x = g x) :
    (l.map f).sum = (l.map g).sum := by
  rw [List.map_congr_left h]

/-! ### `metasOk` -/

theorem metasOk_split (ms : List Meta) (ops : List (MOp α)) :
    metasOk ms ops = ((ms.all fun m => decide (0 < m.L)) && metasOk [] ops) := by
  induction ops with
  | nil => simp [metasOk]
  | cons op ops ih =>
    cases op <;> simp only [metasOk, ih] <;> simp [Bool.and_left_comm]

theorem metasOk_pos (ms : List Meta) (ops : List (MOp α)) (h : metasOk ms ops = true) (m : Meta)
    (hm : m ∈ ms) : 0 < m.L := by
  rw [metasOk_split, Bool.and_eq_true] at h
  have := List.all_eq_true.1 h.1 m hm
  simpa using this

theorem metasOk_set (ms : List Meta) (k : Nat) (m : Meta) (ops : List (MOp α)) (hm : 0 < m.L)
    (h : metasOk ms ops = true) : metasOk (ms.set k m) ops = true := by
  rw [metasOk_split, Bool.and_eq_true] at h ⊢
  refine ⟨?_, h.2⟩
  rw [List.all_eq_true] at h ⊢
  intro x hx
  rcases List.mem_or_eq_of_mem_set hx with hx | hx
  · exact h.1 x hx
  · subst hx; simpa using hm

theorem metasOk_append (ms : List Meta) (m : Meta) (ops : List (MOp α)) (hm : 0 < m.L)
    (h : metasOk ms ops = true) : metasOk (ms ++ [m]) ops = true := by
  rw [metasOk_split, Bool.and_eq_true] at h ⊢
  refine ⟨?_, h.2⟩
  rw [List.all_eq_true] at h ⊢
  intro x hx
  rcases List.mem_append.1 hx with hx | hx
  · exact h.1 x hx
  · simp only [List.mem_singleton] at hx; subst hx; simpa using hm

/-! ### the Torrent objects of a world -/

/-- the current metainfo of every Torrent object -/
def infos (ts : List Tor) : List Meta := ts.map Tor.info

theorem infos_setMeta (ts : List Tor) (k : Nat) (m : Meta) :
    infos (modifyTor ts k fun t => { t with info := m }) = (infos ts).set k m := by
  unfold infos modifyTor
  cases hk : ts[k]? with
  | some t => simp [List.map_set]
  | none =>
    have : ts.length ≤ k := by simpa using hk
    simp only
    rw [List.set_eq_of_length_le (by simpa using this)]

theorem set_of_getElem? {β : Type} {l : List β} {k : Nat} {x : β} (h : l[k]? = some x) :
    l.set k x = l := by
  obtain ⟨hlt, rfl⟩ := List.getElem?_eq_some_iff.1 h
  exact List.set_getElem_self hlt

theorem tors_get_same (fp : Meta → List Nat) (ts : List Tor) (k : Nat) :
    (modifyTor ts k fun t => (filesOf false fp t).2) = ts := by
  unfold modifyTor
  cases hk : ts[k]? with
  | some t =>
    simp only [filesOf, Bool.false_eq_true, ↓reduceIte]
    exact set_of_getElem? hk
  | none => rfl

theorem infos_append (ts : List Tor) (m : Meta) : infos (ts ++ [{ info := m }]) = infos ts ++ [m] := by
  simp [infos]

theorem infos_init (metas : List Meta) : infos (metas.map fun m => ({ info := m } : Tor)) = metas := by
  simp [infos, List.map_map, Function.comp_def]

theorem infos_getElem? (ts : List Tor) (k : Nat) : (infos ts)[k]? = (ts[k]?).map Tor.info := by
  simp [infos]

/-! ### a memoising `files` getter whose fingerprint determines the file list -/

/-- every filled memo slot holds the file list of some metainfo with the stored fingerprint -/
def MemoOk (fp : Meta → List Nat) (t : Tor) : Prop :=
  ∀ f es, t.memo = some (f, es) → ∃ m' : Meta, f = fp m' ∧ es = m'.files

theorem filesOf_memo {fp : Meta → List Nat} (hfp : ∀ m m' : Meta, fp m = fp m' → m.files = m'.files)
    {t : Tor} (ht : MemoOk fp t) :
    (filesOf true fp t).1 = t.info.files ∧ (filesOf true fp t).2.info = t.info ∧
      MemoOk fp (filesOf true fp t).2 := by
  unfold filesOf
  simp only [↓reduceIte]
  cases hm : t.memo with
  | none =>
    refine ⟨rfl, rfl, ?_⟩
    intro f es h
    simp only [Option.some.injEq, Prod.mk.injEq] at h
    exact ⟨t.info, h.1.symm, h.2.symm⟩
  | some fe =>
    obtain ⟨f, es⟩ := fe
    simp only
    by_cases hf : f = fp t.info
    · simp only [hf, ↓reduceIte]
      obtain ⟨m', h1, h2⟩ := ht f es hm
      refine ⟨?_, by trivial, ht⟩
      rw [h2]
      exact (hfp t.info m' (by rw [← h1, hf])).symm
    · simp only [hf, ↓reduceIte]
      refine ⟨by trivial, by trivial, ?_⟩
      intro f' es' h
      simp only [Option.some.injEq, Prod.mk.injEq] at h
      exact ⟨t.info, h.1.symm, h.2.symm⟩

theorem genM_memo (fp : Meta → List Nat) (H : List α → δ) (cap : Nat) (w : World α) (t : Tor)
    (h : (filesOf true fp t).1 = t.info.files) :
    genM true fp H cap w t =
      ((genM false fp H cap w t).1, (genM false fp H cap w t).2.1, (filesOf true fp t).2) := by
  have hf : filesOf false fp t = (t.info.files, t) := by simp [filesOf]
  unfold genM
  simp only [h, hf]
  split
  · rfl
  · split <;> rfl

theorem infos_modify_same (ts : List Tor) (k : Nat) (f : Tor → Tor) (hf : ∀ t, (f t).info = t.info) :
    infos (modifyTor ts k f) = infos ts := by
  unfold infos modifyTor
  cases hk : ts[k]? with
  | none => rfl
  | some t =>
    simp only [List.map_set, hf]
    exact set_of_getElem? (by simp [hk])

theorem mem_modifyTor {ts : List Tor} {k : Nat} {f : Tor → Tor} {x : Tor} (hx : x ∈ modifyTor ts k f) :
    x ∈ ts ∨ ∃ t ∈ ts, x = f t := by
  unfold modifyTor at hx
  cases hk : ts[k]? with
  | none => simp only [hk] at hx; exact Or.inl hx
  | some t =>
    simp only [hk] at hx
    rcases List.mem_or_eq_of_mem_set hx with h | h
    · exact Or.inl h
    · exact Or.inr ⟨t, List.mem_of_getElem? hk, h⟩

end Torf.GenHistory
