/-
  Unfolding lemmas for `dump` / `infoBytes`, the regex fact used by `magnet()`, and the concrete
  metainfo used by the non-vacuity examples of C05/C06.
-/
import Torf.Lemmas.Base32
import Torf.Model.ReadStream
namespace Torf.ReadStream
open Torf Torf.Bencode Torf.Codec

/-- what `dump` returns: the serialisation of the converted metainfo -/
theorem dump_ok {env : Env} {md : List (PyVal × PyVal)} {validate : Bool} {bs : Bytes}
    (h : dump env md validate = .ok bs) :
    ∃ u, encodeDict (ensureInfo md) = .ok u ∧ small env.lim u = true ∧ bs = ser u := by
  unfold dump at h
  split at h
  · exact absurd h (by simp)
  · split at h
    · exact absurd h (by simp)
    · rename_i u hu
      split at h
      · rename_i hs
        simp only [Except.ok.injEq] at h
        unfold convert at hu
        split at hu
        · rename_i u' hu'
          simp only [Except.ok.injEq] at hu; subst hu
          exact ⟨u', hu', hs, h.symm⟩
        · exact absurd hu (by simp)
      · exact absurd h (by simp)

/-- what `infoBytes` returns: the serialisation of the converted `info` dict -/
theorem infoBytes_ok {env : Env} {md : List (PyVal × PyVal)} {ib : Bytes}
    (h : infoBytes env md = .ok ib) :
    ∃ ikvs iu, env.validate (.dict (ensureInfo md)) = true ∧
      PyVal.lookupStr "info" (ensureInfo md) = some (.dict ikvs) ∧
      encodeDict ikvs = .ok iu ∧ small env.lim iu = true ∧ ib = ser iu := by
  unfold infoBytes at h
  split at h
  · exact absurd h (by simp)
  · rename_i hval
    split at h
    · rename_i ikvs hl
      split at h
      · exact absurd h (by simp)
      · rename_i iu hiu
        split at h
        · rename_i hs
          simp only [Except.ok.injEq] at h
          exact ⟨ikvs, iu, by simpa using hval, hl, hiu, hs, h.symm⟩
        · exact absurd h (by simp)
    · exact absurd h (by simp)

/-- a 20-byte digest in lower-case hex is accepted by `_INFOHASH_REGEX` -/
theorem matchesInfohash_hexLower (d : Bytes) (hd : d.length = 20) :
    matchesInfohash (Base32.hexLower d) = true := by
  have hl := Base32.hexLower_length d
  have ha : (Base32.hexLower d).all isHexDigitCI = true := by
    rw [List.all_eq_true]
    intro c hc
    have := Base32.hexLower_all_hex d c hc
    simp only [isHexDigitCI, Bool.or_eq_true, Bool.and_eq_true, decide_eq_true_eq]
    omega
  simp [matchesInfohash, hl, hd, ha]

theorem ok_of_toOption {ε α : Type} {x : Except ε α} {a : α} (h : x.toOption = some a) :
    x = .ok a := by
  cases x with
  | ok b => simp only [Except.toOption, Option.some.injEq] at h; rw [h]
  | error e => simp [Except.toOption] at h

/-- a validating environment, a 20-byte "digest" and a metainfo with a non-ASCII top-level key
    sorting after `info`, a key sorting before it, a bool, a float and a tuple -/
def exEnv : Env := { fromTs := fun _ => none, validate := fun _ => true }
def exH : Bytes → Bytes := fun x => List.replicate 20 (UInt8.ofNat x.length)
def exMd : List (PyVal × PyVal) :=
  [(.str "é", .tuple [.bool true, .float (.fin 1 false false)]),
   (.str "info", .dict [(.str "name", .str "a"), (.str "piece length", .int 16384)]),
   (.str "a", .datetime (some 5))]

def exDump : Bytes :=
  [100, 49, 58, 97, 105, 53, 101, 52, 58, 105, 110, 102, 111, 100, 52, 58, 110, 97, 109, 101, 49,
   58, 97, 49, 50, 58, 112, 105, 101, 99, 101, 32, 108, 101, 110, 103, 116, 104, 105, 49, 54, 51,
   56, 52, 101, 101, 50, 58, 195, 169, 108, 105, 49, 101, 105, 49, 101, 101, 101]
   -- d1:ai5e4:infod4:name1:a12:piece lengthi16384ee2:él i1e i1e ee

theorem exists_ok_of_toBool {ε α : Type} {x : Except ε α} (h : x.toBool = true) : ∃ a, x = .ok a := by
  cases x with
  | ok b => exact ⟨b, rfl⟩
  | error e => simp [Except.toBool] at h

/-- a representable-date environment and a canonical document with a multi-byte UTF-8 key, a
    non-UTF-8 `pieces`, `private = 1`, a creation date, nested containers and a non-UTF-8 byte
    string value -/
def rtEnv : Env := { fromTs := fun i => some (.datetime (some i)), validate := fun _ => true }
def rtInfo : List (Bytes × BVal) :=
  [([110, 97, 109, 101], .bytes [97]), (kPieces, .bytes [255, 254]), (kPrivate, .int 1),
   ([195, 169], .list [.int (-3), .dict []])]
def rtEnc : List (Bytes × BVal) :=
  [(kCreationDate, .int 5), (kInfo, .dict rtInfo), ([122], .bytes [255])]
/-- `d13:creation datei5e4:infod4:name1:a6:pieces2:\xff\xfe7:privatei1e2:éli-3edeee1:z1:\xffe` -/
def rtX : Bytes :=
  [100, 49, 51, 58, 99, 114, 101, 97, 116, 105, 111, 110, 32, 100, 97, 116, 101, 105, 53, 101, 52,
   58, 105, 110, 102, 111, 100, 52, 58, 110, 97, 109, 101, 49, 58, 97, 54, 58, 112, 105, 101, 99,
   101, 115, 50, 58, 255, 254, 55, 58, 112, 114, 105, 118, 97, 116, 101, 105, 49, 101, 50, 58, 195,
   169, 108, 105, 45, 51, 101, 100, 101, 101, 101, 49, 58, 122, 49, 58, 255, 101]

/-- `read_stream(x).dump()` as one function, `none` = some step raised (used to state counterexamples) -/
def readDump (env : Env) (x : Bytes) (v : Bool) : Option Bytes :=
  match read env x v with
  | .ok t => (dump env t v).toOption
  | .error _ => none

theorem readDump_of {env : Env} {x y : Bytes} {v : Bool} {t : List (PyVal × PyVal)}
    (hr : read env x v = .ok t) (hd : dump env t v = .ok y) : readDump env x v = some y := by
  simp [readDump, hr, hd, Except.toOption]

end Torf.ReadStream
