/-
  Torf.Lemmas.CreateNames — helper lemmas for Torf/Properties/C15Names.lean: `sortBy` under
  comparisons that agree on the members, the specification under a renaming of all names,
  `normpath` of an absolute path is a fixed point of `normpath`.
-/
import Torf.Lemmas.Create
import Torf.Spec.CreateNames
namespace Torf.Create
open Torf Torf.Paths

theorem insertBy_congr (le₁ le₂ : α → α → Bool) (a : α) (l : List α)
    (h : ∀ b ∈ l, le₁ a b = le₂ a b) : insertBy le₁ a l = insertBy le₂ a l := by
  induction l with
  | nil => rfl
  | cons b l ih =>
    simp only [insertBy]
    rw [h b (by simp), ih (fun c hc => h c (by simp [hc]))]

theorem sortBy_congr (le₁ le₂ : α → α → Bool) (l : List α)
    (h : ∀ a ∈ l, ∀ b ∈ l, le₁ a b = le₂ a b) : sortBy le₁ l = sortBy le₂ l := by
  induction l with
  | nil => rfl
  | cons a l ih =>
    simp only [sortBy]
    rw [ih (fun x hx y hy => h x (by simp [hx]) y (by simp [hy]))]
    apply insertBy_congr
    intro b hb
    exact h a (by simp) b (by simp [mem_sortBy.mp hb])

/-! ### the specification under a renaming -/

theorem keep_rename (o o' : Oracles) (st st' : Settings) (ρ : String → String) (t : Tree)
    (h : Spec.opaqueB o o' st st' ρ t = true) (f : FileEnt) (hf : f ∈ t.files) :
    Spec.keep o' st' (ρ t.name) (Spec.renameEnt ρ f) = Spec.keep o st t.name f := by
  unfold Spec.opaqueB at h
  simp only [Bool.and_eq_true, List.all_eq_true, beq_iff_eq] at h
  obtain ⟨⟨hhid, _⟩, hpat⟩ := h
  unfold Spec.keep
  have hr : (Spec.renameEnt ρ f).rel = f.rel.map ρ := rfl
  have hs : (Spec.renameEnt ρ f).size = f.size := rfl
  rw [hr, hs, hhid f hf, (hpat f hf).1, (hpat f hf).2]

theorem kept_rename (o o' : Oracles) (st st' : Settings) (ρ : String → String) (t : Tree)
    (h : Spec.opaqueB o o' st st' ρ t = true) :
    Spec.kept o' st' (Spec.renameTree ρ t) = (Spec.kept o st t).map (Spec.renameEnt ρ) := by
  have hkeep := keep_rename o o' st st' ρ t h
  unfold Spec.opaqueB at h
  simp only [Bool.and_eq_true, List.all_eq_true, beq_iff_eq, Bool.or_eq_true] at h
  obtain ⟨⟨_, hord⟩, _⟩ := h
  unfold Spec.kept Spec.renameTree
  simp only
  rw [List.filter_map]
  have hfil : List.filter (Spec.keep o' st' (ρ t.name) ∘ Spec.renameEnt ρ) t.files
      = List.filter (Spec.keep o st t.name) t.files :=
    List.filter_congr (fun f hf => hkeep f hf)
  rw [hfil, sortBy_map]
  congr 1
  apply sortBy_congr
  intro a ha b hb
  rw [List.mem_filter] at ha hb
  have hna : isHidden a.rel = false := by
    have := ha.2; unfold Spec.keep at this
    simp only [Bool.and_eq_true, Bool.not_eq_true'] at this
    exact this.1.1
  have hnb : isHidden b.rel = false := by
    have := hb.2; unfold Spec.keep at this
    simp only [Bool.and_eq_true, Bool.not_eq_true'] at this
    exact this.1.1
  have := hord a ha.1 b hb.1
  rw [hna, hnb] at this
  have hra : (Spec.renameEnt ρ a).rel = a.rel.map ρ := rfl
  have hrb : (Spec.renameEnt ρ b).rel = b.rel.map ρ := rfl
  rw [hra, hrb]
  simpa using this

theorem created_rename (o o' : Oracles) (st st' : Settings) (ρ : String → String) (t : Tree)
    (h : Spec.opaqueB o o' st st' ρ t = true) :
    Spec.created o' st' (Spec.renameTree ρ t) = Spec.renameCreated ρ (Spec.created o st t) := by
  unfold Spec.created
  simp only
  rw [kept_rename o o' st st' ρ t h]
  have hn : (Spec.renameTree ρ t).name = ρ t.name := rfl
  rw [hn]
  generalize Spec.kept o st t = k
  cases k with
  | nil => rfl
  | cons g k1 =>
    cases k1 with
    | nil =>
      by_cases hr : g.rel = []
      · simp [Spec.renameCreated, Spec.renameEnt, hr]
      · simp [Spec.renameCreated, Spec.renameEnt, hr]
    | cons g2 k2 => simp [Spec.renameCreated, Spec.renameEnt]

/-! ### `normpath` of an absolute path: only real names are left, and it is a fixed point -/

theorem normStep_true_clean (st : List String) (c : String) (h : st.all isClean = true) :
    (normStep true st c).all isClean = true := by
  unfold normStep
  by_cases h1 : (c == "" || c == ".") = true
  · simp only [h1, if_true]; exact h
  · simp only [h1, Bool.false_eq_true, if_false]
    by_cases h2 : (c == "..") = true
    · simp only [h2, if_true]
      cases st with
      | nil => simp
      | cons t s =>
        simp only [List.all_cons, Bool.and_eq_true] at h
        have ht : (t == "..") = false := by
          have := h.1; unfold isClean at this
          simp only [Bool.and_eq_true, bne_iff_ne, ne_eq] at this
          simpa using this.2
        simp only [ht, Bool.false_eq_true, if_false]
        exact h.2
    · simp only [h2, Bool.false_eq_true, if_false, List.all_cons, Bool.and_eq_true]
      refine ⟨?_, h⟩
      unfold isClean
      simp only [Bool.or_eq_true, not_or, beq_iff_eq] at h1
      simp only [beq_iff_eq] at h2
      simp [h1.1, h1.2, h2]

theorem foldl_normStep_true_clean (xs st : List String) (h : st.all isClean = true) :
    (xs.foldl (normStep true) st).all isClean = true := by
  induction xs generalizing st with
  | nil => exact h
  | cons c xs ih => exact ih _ (normStep_true_clean st c h)

theorem normpath_true_clean (xs : List String) : (normpath true xs).all isClean = true := by
  unfold normpath
  rw [List.all_reverse]
  exact foldl_normStep_true_clean xs [] rfl

theorem normpath_idem (xs : List String) : normpath true (normpath true xs) = normpath true xs := by
  have := normpath_append_clean true [] (normpath true xs) (normpath_true_clean xs)
  simpa [normpath] using this

theorem pathlibNorm_clean (a : Bool) (xs : List String) (h : xs.all isClean = true) :
    (pathlibNorm ⟨a, xs⟩).comps = xs := by
  unfold pathlibNorm
  simp only
  rw [List.filter_eq_self]
  intro c hc
  have := List.all_eq_true.mp h c hc
  unfold isClean at this
  simp only [Bool.and_eq_true] at this ⊢
  exact this.1

/-! ### a renaming that is strictly monotone and injective on the names that occur -/

theorem map_lt_map_iff (ρ : String → String) (N : List String)
    (h : ∀ a ∈ N, ∀ b ∈ N, (ρ a < ρ b ↔ a < b) ∧ (ρ a = ρ b → a = b)) (x y : List String)
    (hx : ∀ c ∈ x, c ∈ N) (hy : ∀ c ∈ y, c ∈ N) : x.map ρ < y.map ρ ↔ x < y := by
  induction x generalizing y with
  | nil =>
    cases y with
    | nil => simp
    | cons b y => simp [List.nil_lt_cons]
  | cons a x ih =>
    cases y with
    | nil => simp
    | cons b y =>
      have ha : a ∈ N := hx a (by simp)
      have hb : b ∈ N := hy b (by simp)
      have hxy := ih y (fun c hc => hx c (by simp [hc])) (fun c hc => hy c (by simp [hc]))
      simp only [List.map_cons, List.cons_lt_cons_iff, (h a ha b hb).1, hxy]
      constructor
      · rintro (h1 | ⟨h1, h2⟩)
        · exact .inl h1
        · exact .inr ⟨(h a ha b hb).2 h1, h2⟩
      · rintro (h1 | ⟨h1, h2⟩)
        · exact .inl h1
        · exact .inr ⟨by rw [h1], h2⟩

theorem map_le_map_iff (ρ : String → String) (N : List String)
    (h : ∀ a ∈ N, ∀ b ∈ N, (ρ a < ρ b ↔ a < b) ∧ (ρ a = ρ b → a = b)) (x y : List String)
    (hx : ∀ c ∈ x, c ∈ N) (hy : ∀ c ∈ y, c ∈ N) : x.map ρ ≤ y.map ρ ↔ x ≤ y := by
  rw [← List.not_lt, ← List.not_lt, map_lt_map_iff ρ N h y x hy hx]

theorem isHidden_map (ρ : String → String) (cs : Comps)
    (h : ∀ c ∈ cs, isHidden [ρ c] = isHidden [c]) : isHidden (cs.map ρ) = isHidden cs := by
  induction cs with
  | nil => rfl
  | cons c cs ih =>
    have h1 := h c (by simp)
    have h2 := ih (fun d hd => h d (by simp [hd]))
    have e1 : isHidden ((c :: cs).map ρ) = (isHidden [ρ c] || isHidden (cs.map ρ)) := by
      rw [List.map_cons]; exact isHidden_append [ρ c] (cs.map ρ)
    have e2 : isHidden (c :: cs) = (isHidden [c] || isHidden cs) := isHidden_append [c] cs
    rw [e1, e2, h1, h2]

end Torf.Create
