/-
  `verifySeq` in closed form (under the hypotheses of C02): result and callback trace in terms of
  the items of `iter_pieces`, and the link between the collected digests and `SpecOk`.
-/
import Torf.Lemmas.VerifyCb
namespace Torf.Verify
open Torf Torf.Missing

variable {α δ : Type} [DecidableEq δ]

/-! ### collected digests -/

omit [DecidableEq δ] in
theorem hashes_dataItems (H : List α → δ) (ps : List (List α)) :
    (ps.map dataItem).flatMap (itemHashes H) = ps.map H := by
  induction ps with
  | nil => rfl
  | cons p ps ih =>
    simp only [List.map_cons, List.flatMap_cons, ih]
    rfl

omit [DecidableEq δ] in
theorem length_itemHashes_le (H : List α → δ) (it : Item α) : (itemHashes H it).length ≤ 1 := by
  unfold itemHashes
  split
  · simp
  · split <;> simp

omit [DecidableEq δ] in
theorem length_hashes_le (H : List α → δ) (items : List (Item α)) :
    (items.flatMap (itemHashes H)).length ≤ items.length := by
  induction items with
  | nil => simp
  | cons it items ih =>
    simp only [List.flatMap_cons, List.length_append, List.length_cons]
    have := length_itemHashes_le H it
    omega

omit [DecidableEq δ] in
theorem length_hashes_lt (H : List α → δ) (items : List (Item α))
    (h : ∃ it ∈ items, it.excs ≠ []) :
    (items.flatMap (itemHashes H)).length < items.length := by
  induction items with
  | nil => obtain ⟨_, h, _⟩ := h; cases h
  | cons it items ih =>
    simp only [List.flatMap_cons, List.length_append, List.length_cons]
    obtain ⟨it', hmem, hne⟩ := h
    rcases List.mem_cons.mp hmem with rfl | hmem'
    · have h0 : (itemHashes H it').length = 0 := by
        unfold itemHashes
        have : it'.excs.isEmpty = false := by
          cases hx : it'.excs with
          | nil => exact absurd hx hne
          | cons _ _ => rfl
        simp [this]
      have := length_hashes_le H items
      omega
    · have := ih ⟨it', hmem', hne⟩
      have := length_itemHashes_le H it
      omega

/-! ### bad files -/

theorem badFiles_eq_nil_of_good (sizes : List Nat) (disk : List (Option (List α)))
    (h : AllGood sizes disk = true) : badFiles sizes disk = [] := by
  unfold badFiles
  rw [List.filterMap_eq_nil_iff]
  intro k hk
  have := List.all_eq_true.mp h k hk
  cases hf : fileError sizes disk k with
  | none => rfl
  | some _ => simp [hf] at this

theorem badFiles_ne_nil_of_not_good (sizes : List Nat) (disk : List (Option (List α)))
    (h : ¬ AllGood sizes disk = true) : badFiles sizes disk ≠ [] := by
  intro hnil
  apply h
  unfold AllGood
  rw [List.all_eq_true]
  intro k hk
  unfold badFiles at hnil
  rw [List.filterMap_eq_nil_iff] at hnil
  have := hnil k hk
  cases hf : fileError sizes disk k with
  | none => rfl
  | some _ => simp [hf] at this

theorem exists_excs_of_reported_ne_nil (items : List (Item α)) (h : reported items ≠ []) :
    ∃ it ∈ items, it.excs ≠ [] := by
  induction items with
  | nil => exact absurd rfl h
  | cons it items ih =>
    by_cases he : it.excs = []
    · have : reported (it :: items) = reported items := by simp [reported, he]
      rw [this] at h
      obtain ⟨it', h1, h2⟩ := ih h
      exact ⟨it', List.mem_cons_of_mem _ h1, h2⟩
    · exact ⟨it, List.mem_cons_self, he⟩

/-! ### the run -/

/-- everything the C02 theorems need to know about one run of `verify` -/
structure Run (H : List α → δ) (L : Nat) (sizes : List Nat) (disk : List (Option (List α)))
    (stored : List δ) (items : List (Item α)) : Prop where
  hit : iterItems L sizes disk = some items
  len : items.length = nPieces L sizes.sum
  data : items.map (·.data) = specData L sizes disk
  clean : ∀ it ∈ items, it.data.isSome → it.excs = []
  rep : reported items = badFiles sizes disk
  good : AllGood sizes disk = true → items = (chunks L (diskStream sizes disk)).map dataItem
  spec : (items.flatMap (itemHashes H) == stored) = SpecOk H L sizes disk stored
  exc : SpecOk H L sizes disk stored = false →
    excsOf (items.zipIdx.flatMap (itemCalls H L sizes stored)) ≠ []

theorem run_exists (H : List α → δ) (L : Nat) (hL : 0 < L) (sizes : List Nat)
    (disk : List (Option (List α))) (stored : List δ)
    (hyp : NoBadEmpty sizes disk = true) (hlen : stored.length = nPieces L sizes.sum) :
    ∃ items, Run H L sizes disk stored items := by
  obtain ⟨items, hit, hdata, hclean, hrep⟩ := iterItems_spec L hL sizes disk hyp
  have hclean' : ∀ it ∈ items, it.data.isSome → it.excs = [] :=
    fun it h1 h2 => (hclean it h1 h2).1
  have hcount : items.length = nPieces L sizes.sum := by
    have := congrArg List.length hdata
    rwa [List.length_map, length_specData L hL] at this
  have hgood : AllGood sizes disk = true →
      items = (chunks L (diskStream sizes disk)).map dataItem := by
    intro hg
    have := iterItems_all_good L hL sizes disk hg
    rw [hit] at this
    exact Option.some.inj this
  refine ⟨items, hit, hcount, hdata, hclean', hrep, hgood, ?_, ?_⟩
  · by_cases hg : AllGood sizes disk = true
    · rw [hgood hg, hashes_dataItems]
      unfold SpecOk
      simp [hg]
    · have hs : SpecOk H L sizes disk stored = false := by unfold SpecOk; simp [hg]
      rw [hs]
      have hex := exists_excs_of_reported_ne_nil items
        (by rw [hrep]; exact badFiles_ne_nil_of_not_good sizes disk hg)
      have hlt := length_hashes_lt H items hex
      rw [beq_eq_false_iff_ne]
      intro heq
      rw [heq] at hlt
      omega
  · intro hs
    intro hnil
    by_cases hg : AllGood sizes disk = true
    · -- every digest matches, so the digests are the stored ones
      have hc := excs_content H L sizes stored items 0 hclean'
      rw [hnil, List.filter_nil] at hc
      have hc' := (List.map_eq_nil_iff.mp hc.symm)
      rw [hgood hg, List.map_map, List.filterMap_eq_nil_iff] at hc'
      unfold SpecOk at hs
      simp only [hg, Bool.true_and, beq_eq_false_iff_ne] at hs
      apply hs
      have hl : (chunks L (diskStream sizes disk)).length = stored.length := by
        have := hcount
        rw [hgood hg, List.length_map] at this
        rw [this, hlen]
      apply List.ext_getElem (by rw [List.length_map, hl])
      intro i h1 h2
      rw [List.getElem_map]
      rw [List.length_map] at h1
      have hm := hc' ((some (chunks L (diskStream sizes disk))[i], i)) (by
        rw [List.mem_zipIdx_iff_getElem?]
        simp [h1, dataItem])
      unfold mmOf at hm
      simp only at hm
      split at hm
      · rename_i heq
        rw [List.getElem?_eq_getElem h2] at heq
        exact Option.some.inj heq
      · cases hm
    · have hf := excs_file H L sizes stored items 0
      rw [hnil, List.filter_nil, hrep] at hf
      exact badFiles_ne_nil_of_not_good sizes disk hg (List.map_eq_nil_iff.mp hf.symm)

/-- `verify` with a callback, in closed form -/
theorem verifySeq_cb (H : List α → δ) (L : Nat) (sizes : List Nat)
    (disk : List (Option (List α))) (stored : List δ) (items : List (Item α))
    (hlen : stored.length = nPieces L sizes.sum)
    (run : Run H L sizes disk stored items) (single pathIsDir : Bool)
    (hp : single = !pathIsDir) :
    verifySeq H L sizes disk stored true single pathIsDir =
      (.ok (SpecOk H L sizes disk stored), items.zipIdx.flatMap (itemCalls H L sizes stored)) := by
  have hp1 : (single && pathIsDir) = false := by subst hp; cases pathIsDir <;> rfl
  have hp2 : (!single && !pathIsDir) = false := by subst hp; cases pathIsDir <;> rfl
  unfold verifySeq
  simp only [hp1, hp2, Bool.false_eq_true, if_false, run.hit]
  rw [fold_cb H L sizes stored items 0 {} rfl (by rw [run.len, hlen]; omega)]
  simp only [List.nil_append]
  rw [run.spec]

/-- `verify` without a callback raises the first exception the callback would have been given,
    and returns `True` if there is none -/
theorem verifySeq_nocb (H : List α → δ) (L : Nat) (sizes : List Nat)
    (disk : List (Option (List α))) (stored : List δ) (items : List (Item α))
    (hlen : stored.length = nPieces L sizes.sum)
    (run : Run H L sizes disk stored items) (single pathIsDir : Bool)
    (hp : single = !pathIsDir) :
    verifySeq H L sizes disk stored false single pathIsDir =
      (match (excsOf (items.zipIdx.flatMap (itemCalls H L sizes stored))).head? with
        | some e => .error e
        | none => .ok true, []) := by
  have hp1 : (single && pathIsDir) = false := by subst hp; cases pathIsDir <;> rfl
  have hp2 : (!single && !pathIsDir) = false := by subst hp; cases pathIsDir <;> rfl
  unfold verifySeq
  simp only [hp1, hp2, Bool.false_eq_true, if_false, run.hit]
  obtain ⟨h1, h2, h3⟩ := fold_nocb H L sizes stored items 0 {} rfl (by rw [run.len, hlen]; omega)
  simp only at h1 h2 h3
  rw [h1, h2]
  cases hx : excsOf (items.zipIdx.flatMap (itemCalls H L sizes stored)) with
  | nil =>
    simp only [List.head?_nil]
    rw [h3 hx]
    simp only [List.nil_append]
    rw [run.spec]
    have := run.exc
    rw [hx] at this
    cases hs : SpecOk H L sizes disk stored with
    | true => rfl
    | false => exact absurd rfl (this hs)
  | cons e es => simp

end Torf.Verify
