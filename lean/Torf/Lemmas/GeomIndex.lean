/-
  Helper lemmas for the piece-index methods of C11 (`get_piece_indexes_of_file`,
  `get_absolute_piece_indexes`, `get_relative_piece_indexes`).
-/
import Torf.Lemmas.GeomScan
namespace Torf.GeomLemmas
open Torf Torf.Geometry

/-- decidable equality of results, so that concrete witnesses can be checked by `decide` -/
instance instDecEqExcept {ε α : Type} [DecidableEq ε] [DecidableEq α] : DecidableEq (Except ε α)
  | .ok a, .ok b => if h : a = b then isTrue (by rw [h]) else isFalse (by intro h'; cases h'; exact h rfl)
  | .error a, .error b => if h : a = b then isTrue (by rw [h]) else isFalse (by intro h'; cases h'; exact h rfl)
  | .ok _, .error _ => isFalse (by intro h; cases h)
  | .error _, .ok _ => isFalse (by intro h; cases h)

/-- two lists sorted by an asymmetric relation with the same members are equal -/
theorem eq_of_sorted_of_mem_iff {α : Type} (r : α → α → Prop) (hasym : ∀ a b, r a b → r b a → False)
    (l1 l2 : List α) (h1 : l1.Pairwise r) (h2 : l2.Pairwise r) (h : ∀ x, x ∈ l1 ↔ x ∈ l2) :
    l1 = l2 := by
  have irr : ∀ {a b : α}, r a b → a ≠ b := by
    intro a b hab heq
    subst heq
    exact hasym a a hab hab
  have n1 : l1.Nodup := h1.imp irr
  have n2 : l2.Nodup := h2.imp irr
  have hp : l1.Perm l2 := (List.perm_ext_iff_of_nodup n1 n2).mpr h
  exact List.Perm.eq_of_pairwise (fun a b _ _ hab hba => (hasym a b hab hba).elim) h1 h2 hp

theorem mem_rangeIncl (a b x : Int) : x ∈ rangeIncl a b ↔ a ≤ x ∧ x ≤ b := by
  unfold rangeIncl
  simp only [List.mem_map, List.mem_range]
  constructor
  · rintro ⟨k, hk, rfl⟩; omega
  · intro h; exact ⟨(x - a).toNat, by omega, by omega⟩

theorem rangeIncl_sorted (a b : Int) : (rangeIncl a b).Pairwise (· < ·) := by
  unfold rangeIncl
  rw [List.pairwise_map]
  exact List.pairwise_lt_range.imp (by intro x y h; omega)

theorem rangeIncl_head (a b : Int) (h : a ≤ b) : (rangeIncl a b).head? = some a := by
  unfold rangeIncl
  rw [List.head?_map, List.head?_range]
  have : (b + 1 - a).toNat ≠ 0 := by omega
  simp [this]

theorem rangeIncl_getLast (a b : Int) (h : a ≤ b) : (rangeIncl a b).getLast? = some b := by
  unfold rangeIncl
  rw [List.getLast?_map, List.getLast?_range]
  have : (b + 1 - a).toNat ≠ 0 := by omega
  simp only [this, if_false, Option.map_some]
  congr 1
  omega

theorem lookupFile_lt (sizes : List Nat) (j : Nat) (hj : j < sizes.length) :
    lookupFile sizes j = .ok (GeomSpec.pos sizes j, GeomSpec.size sizes j) := by
  unfold lookupFile GeomSpec.pos GeomSpec.size
  simp [List.getElem?_eq_getElem hj, List.getD, hj]

theorem lookupFile_ge (sizes : List Nat) (j : Nat) (hj : ¬ j < sizes.length) :
    lookupFile sizes j = .error .value := by
  unfold lookupFile
  have : sizes[j]? = none := by simp; omega
  simp [this]

/-- first/last piece arithmetic: `x` lies between `floor(p/L)` and `floor((p+s-1)/L)` iff piece `x`
    and the byte interval `[p, p+s-1]` intersect -/
theorem between_iff (p s L : Nat) (x : Int) (hL : 0 < L) :
    ((p : Int) / (L : Int) ≤ x ∧ x ≤ ((p : Int) + (s : Int) - 1) / (L : Int)) ↔
    (x * (L : Int) ≤ (p : Int) + (s : Int) - 1 ∧ (p : Int) ≤ (x + 1) * (L : Int) - 1) := by
  have hL' : (0 : Int) < (L : Int) := by omega
  rw [Int.le_ediv_iff_mul_le hL']
  have h2 : (p : Int) / (L : Int) ≤ x ↔ (p : Int) / (L : Int) < x + 1 := by omega
  rw [h2, Int.ediv_lt_iff_lt_mul hL']
  omega

theorem lt_nPieces_iff (L T i : Nat) (hL : 0 < L) : i < nPieces L T ↔ i * L < T := by
  unfold nPieces
  have : i < (T + L - 1) / L ↔ i + 1 ≤ (T + L - 1) / L := by omega
  rw [this, Nat.le_div_iff_mul_le hL, Nat.succ_mul]
  omega

theorem getPieceIndexesOfFile_spec (sizes : List Nat) (L : Nat) (j : Nat) (hL : 0 < L)
    (hj : j < sizes.length → 0 < GeomSpec.size sizes j) :
    getPieceIndexesOfFile sizes L j false = GeomSpec.pieceIndexesOfFile sizes L j false := by
  unfold getPieceIndexesOfFile GeomSpec.pieceIndexesOfFile
  by_cases hlt : j < sizes.length
  · have hs := hj hlt
    rw [lookupFile_lt sizes j hlt]
    simp only [hlt, if_true, bind, Except.bind, Bool.false_eq_true, if_false, pure, Except.pure]
    congr 1
    apply eq_of_sorted_of_mem_iff (· < ·) (by intro a b h1 h2; omega)
    · exact rangeIncl_sorted _ _
    · rw [List.pairwise_map]
      exact (List.Pairwise.sublist List.filter_sublist List.pairwise_lt_range).imp
        (by intro a b h; exact Int.ofNat_lt.mpr h)
    · intro x
      unfold floorDiv
      rw [mem_rangeIncl, between_iff _ _ _ _ hL]
      simp only [List.mem_map, List.mem_filter, List.mem_range, GeomSpec.pieceOfFile,
        GeomSpec.fileInPiece, GeomSpec.fileInRange, Bool.not_false, Bool.true_or, Bool.and_true,
        Bool.and_eq_true, decide_eq_true_eq]
      have htot := pos_add_size_le_total sizes j hlt
      constructor
      · rintro ⟨h1, h2⟩
        have hx : 0 ≤ x := by
          by_cases hneg : x < 0
          · exfalso
            have : (x + 1) * (L : Int) ≤ 0 := Int.mul_nonpos_of_nonpos_of_nonneg (by omega) (by omega)
            omega
          · omega
        refine ⟨x.toNat, ⟨?_, ⟨⟨hs, ?_⟩, ?_⟩⟩, ?_⟩
        · rw [lt_nPieces_iff _ _ _ hL]
          have e : ((x.toNat * L : Nat) : Int) = x * (L : Int) := by
            rw [Int.natCast_mul, Int.toNat_of_nonneg hx]
          have : ((x.toNat * L : Nat) : Int) < (GeomSpec.total sizes : Int) := by omega
          exact Int.ofNat_lt.mp this
        · rw [Int.toNat_of_nonneg hx]; exact h1
        · rw [Int.toNat_of_nonneg hx]; exact h2
        · exact Int.toNat_of_nonneg hx
      · rintro ⟨i, ⟨_, ⟨⟨_, h1⟩, h2⟩⟩, rfl⟩
        exact ⟨h1, h2⟩
  · rw [lookupFile_ge sizes j hlt]
    simp [hlt, bind, Except.bind]

theorem clampRel_eq (m r : Int) : clampRel m r = GeomSpec.clamp (m + 1) r := by
  unfold clampRel GeomSpec.clamp
  by_cases h : r < 0
  · simp only [h, if_true]
    have e1 : m - (r.natAbs : Int) + 1 = m + 1 + r := by omega
    have e2 : m + 1 - 1 = m := by omega
    rw [e1, e2]
  · simp only [h, if_false]
    have e2 : m + 1 - 1 = m := by omega
    rw [e2]

theorem getAbsolutePieceIndexes_spec (sizes : List Nat) (L : Nat) (j : Nat) (rels : List Int)
    (hL : 0 < L) (hj : j < sizes.length → 0 < GeomSpec.size sizes j) :
    getAbsolutePieceIndexes sizes L j rels = GeomSpec.absolutePieceIndexes sizes L j rels := by
  unfold getAbsolutePieceIndexes
  rw [getPieceIndexesOfFile_spec sizes L j hL hj, ← getPieceIndexesOfFile_spec sizes L j hL hj]
  unfold getPieceIndexesOfFile GeomSpec.absolutePieceIndexes
  by_cases hlt : j < sizes.length
  · have hs := hj hlt
    have hL' : (0 : Int) < (L : Int) := by omega
    rw [lookupFile_lt sizes j hlt]
    have hle : floorDiv (GeomSpec.pos sizes j : Int) L ≤
        floorDiv ((GeomSpec.pos sizes j : Int) + (GeomSpec.size sizes j : Int) - 1) L := by
      unfold floorDiv
      exact Int.ediv_le_ediv hL' (by omega)
    have hs0 : GeomSpec.size sizes j ≠ 0 := by omega
    simp only [hlt, hs0, if_true, if_false, bind, Except.bind, Bool.false_eq_true, pure, Except.pure,
      rangeIncl_head _ _ hle, rangeIncl_getLast _ _ hle]
    congr 2
    apply List.map_congr_left
    intro r _
    rw [clampRel_eq]
    unfold GeomSpec.firstPiece GeomSpec.pieceCount floorDiv
    rfl
  · rw [lookupFile_ge sizes j hlt]
    simp [hlt, bind, Except.bind]

/-- the condition under which a file's piece count can be read off its size alone -/
def SizeOnlyOk (sizes : List Nat) (L : Nat) (j : Nat) : Prop :=
  (GeomSpec.pos sizes j % L + GeomSpec.size sizes j - 1) / L = (GeomSpec.size sizes j - 1) / L

theorem getRelativePieceIndexes_partial (sizes : List Nat) (L : Nat) (j : Nat) (rels : List Int)
    (hL : 0 < L) (hlt : j < sizes.length) (hs : 0 < GeomSpec.size sizes j)
    (hal : SizeOnlyOk sizes L j) :
    .ok (getRelativePieceIndexes L (GeomSpec.size sizes j) rels) =
      GeomSpec.relativePieceIndexes sizes L j rels := by
  unfold getRelativePieceIndexes GeomSpec.relativePieceIndexes
  have hs0 : GeomSpec.size sizes j ≠ 0 := by omega
  simp only [hlt, hs0, if_true, if_false]
  congr 2
  apply List.map_congr_left
  intro r _
  rw [clampRel_eq]
  congr 1
  unfold GeomSpec.pieceCount floorDiv
  unfold SizeOnlyOk at hal
  generalize GeomSpec.pos sizes j = p at *
  generalize GeomSpec.size sizes j = s at *
  -- Nat-level: (p + s - 1) / L = (p % L + s - 1) / L + p / L
  have h1 : (p + s - 1) / L = (p % L + s - 1) / L + p / L := by
    have e : p + s - 1 = (p % L + s - 1) + (p / L) * L := by
      have := Nat.div_add_mod p L
      have hc : L * (p / L) = (p / L) * L := Nat.mul_comm _ _
      omega
    rw [e, Nat.add_mul_div_right _ _ hL]
  have c1 : ((p : Int) + (s : Int) - 1) = ((p + s - 1 : Nat) : Int) := by omega
  have c2 : ((s : Int) - 1) = ((s - 1 : Nat) : Int) := by omega
  rw [c1, c2, ← Int.natCast_ediv, ← Int.natCast_ediv, ← Int.natCast_ediv, h1, hal]
  omega

end Torf.GeomLemmas
