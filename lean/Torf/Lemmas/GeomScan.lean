import Torf.Spec.Geometry
namespace Torf.GeomLemmas
open Torf Torf.Geometry

def NoEmpty (sizes : List Nat) : Prop := ∀ s ∈ sizes, 0 < s

theorem pos_zero (sizes : List Nat) : GeomSpec.pos sizes 0 = 0 := by simp [GeomSpec.pos]
theorem pos_cons_succ (s : Nat) (rest : List Nat) (k : Nat) :
    GeomSpec.pos (s :: rest) (k+1) = s + GeomSpec.pos rest k := by simp [GeomSpec.pos]
theorem size_cons_zero (s : Nat) (rest : List Nat) : GeomSpec.size (s :: rest) 0 = s := by
  simp [GeomSpec.size]
theorem size_cons_succ (s : Nat) (rest : List Nat) (k : Nat) :
    GeomSpec.size (s :: rest) (k+1) = GeomSpec.size rest k := by simp [GeomSpec.size]

theorem neg_one_ediv (L : Nat) (hL : 0 < L) : (-1 : Int) / (L : Int) = -1 := by
  have hL' : (0 : Int) < (L : Int) := by omega
  have h1 : (-1 : Int) / (L : Int) < 0 := by
    rw [Int.ediv_lt_iff_lt_mul hL']; omega
  have h2 : (-1 : Int) ≤ (-1 : Int) / (L : Int) := by
    rw [Int.le_ediv_iff_mul_le hL']; omega
  omega

theorem maxPieceIndex_spec (sizes : List Nat) (L : Nat) (hL : 0 < L) :
    Geometry.maxPieceIndex sizes L = GeomSpec.maxPieceIndex sizes L := by
  unfold Geometry.maxPieceIndex GeomSpec.maxPieceIndex Geometry.floorDiv nPieces
  have hT : Geometry.total sizes = GeomSpec.total sizes := rfl
  rw [hT]
  generalize GeomSpec.total sizes = T
  cases T with
  | zero =>
    have h1 : (0 + L - 1) / L = 0 := Nat.div_eq_of_lt (by omega)
    rw [h1]
    simpa using neg_one_ediv L hL
  | succ t =>
    have h1 : (t + 1 + L - 1) / L = t / L + 1 := by
      have : t + 1 + L - 1 = t + L := by omega
      rw [this, Nat.add_div_right _ hL]
    rw [h1]
    have : ((t+1 : Nat) : Int) - 1 = (t : Int) := by omega
    rw [this]
    have : ((t / L : Nat) : Int) = (t : Int) / (L : Int) := Int.natCast_ediv t L
    omega

theorem getFilePosition_spec (sizes : List Nat) (j : Nat) :
    Geometry.getFilePosition sizes j = GeomSpec.filePosition sizes j := by
  unfold Geometry.getFilePosition Geometry.lookupFile GeomSpec.filePosition
  by_cases h : j < sizes.length
  · simp [h, GeomSpec.pos]; rfl
  · simp [h]; rfl

theorem getByteRangeOfFile_spec (sizes : List Nat) (j : Nat) :
    Geometry.getByteRangeOfFile sizes j = GeomSpec.byteRangeOfFile sizes j := by
  unfold Geometry.getByteRangeOfFile Geometry.lookupFile GeomSpec.byteRangeOfFile
  by_cases h : j < sizes.length
  · simp [h, GeomSpec.pos, GeomSpec.size]; rfl
  · simp [h]; rfl

theorem mem_filesAtByteRange (sizes : List Nat) (a b : Int) (j : Nat) :
    j ∈ GeomSpec.filesAtByteRange sizes a b ↔ j < sizes.length ∧ GeomSpec.fileInRange sizes a b j = true := by
  simp [GeomSpec.filesAtByteRange, GeomSpec.allFiles, List.mem_filter, List.mem_range]

theorem filesAtByteRange_sorted (sizes : List Nat) (a b : Int) :
    (GeomSpec.filesAtByteRange sizes a b).Pairwise (· < ·) := by
  unfold GeomSpec.filesAtByteRange GeomSpec.allFiles
  exact List.Pairwise.sublist List.filter_sublist List.pairwise_lt_range


/-! ### get_file_at_position -/

theorem fileAtPosLoop_eq (p : Int) (sizes : List Nat) (off : Int) (hoff : off ≤ p) :
    Geometry.fileAtPosLoop p sizes off =
      (List.range sizes.length).find? (fun j =>
        decide (off + (GeomSpec.pos sizes j : Int) ≤ p) &&
        decide (p < off + (GeomSpec.pos sizes j : Int) + (GeomSpec.size sizes j : Int))) := by
  induction sizes generalizing off with
  | nil => simp [Geometry.fileAtPosLoop]
  | cons s rest ih =>
    simp only [Geometry.fileAtPosLoop, List.length_cons, List.range_succ_eq_map,
      List.find?_cons, pos_zero, size_cons_zero]
    by_cases h : off + (s : Int) - 1 ≥ p
    · have h2 : (decide (off + ((0 : Nat) : Int) ≤ p) && decide (p < off + ((0 : Nat) : Int) + (s : Int))) = true := by
        simp; omega
      rw [if_pos h, h2]
    · have h2 : (decide (off + ((0 : Nat) : Int) ≤ p) && decide (p < off + ((0 : Nat) : Int) + (s : Int))) = false := by
        simp; omega
      rw [if_neg h, h2]
      have h3 : off + (s : Int) - 1 + 1 = off + (s : Int) := by omega
      rw [h3, ih (off + (s : Int)) (by omega), List.find?_map]
      congr 2
      funext k
      simp only [Function.comp, Nat.succ_eq_add_one, pos_cons_succ, size_cons_succ]
      have : ((s + GeomSpec.pos rest k : Nat) : Int) = (s : Int) + (GeomSpec.pos rest k : Int) := by
        omega
      rw [this, Int.add_assoc]

theorem getFileAtPosition_spec (sizes : List Nat) (p : Int) :
    Geometry.getFileAtPosition sizes p = GeomSpec.fileAtPosition sizes p := by
  unfold Geometry.getFileAtPosition GeomSpec.fileAtPosition GeomSpec.allFiles
  by_cases hp : p ≥ 0
  · rw [if_pos hp, fileAtPosLoop_eq p sizes 0 hp]
    simp only [Int.zero_add]
    rfl
  · rw [if_neg hp]
    have : (List.range sizes.length).find? (fun j => decide ((GeomSpec.pos sizes j : Int) ≤ p) &&
      decide (p < (GeomSpec.pos sizes j : Int) + (GeomSpec.size sizes j : Int))) = none := by
      rw [List.find?_eq_none]
      intro j _
      simp
      omega
    rw [this]


/-! ### get_files_at_byte_range -/

theorem byteRangeLoop_eq (a b : Int) (sizes : List Nat) (off : Int) :
    Geometry.byteRangeLoop a b sizes off =
      (List.range sizes.length).filter (fun j =>
        Geometry.rangeHit a b (off + (GeomSpec.pos sizes j : Int)) (GeomSpec.size sizes j)) := by
  induction sizes generalizing off with
  | nil => simp [Geometry.byteRangeLoop]
  | cons s rest ih =>
    simp only [Geometry.byteRangeLoop, List.length_cons, List.range_succ_eq_map,
      List.filter_cons, pos_zero, size_cons_zero, List.filter_map]
    have h0 : off + ((0 : Nat) : Int) = off := by omega
    rw [h0, ih (off + (s : Int))]
    have hf : ((fun j => Geometry.rangeHit a b (off + (GeomSpec.pos (s :: rest) j : Int))
        (GeomSpec.size (s :: rest) j)) ∘ Nat.succ) =
        (fun j => Geometry.rangeHit a b (off + (s : Int) + (GeomSpec.pos rest j : Int))
        (GeomSpec.size rest j)) := by
      funext k
      simp only [Function.comp, Nat.succ_eq_add_one, pos_cons_succ, size_cons_succ]
      have : ((s + GeomSpec.pos rest k : Nat) : Int) = (s : Int) + (GeomSpec.pos rest k : Int) := by
        omega
      rw [this, Int.add_assoc]
    rw [hf]
    have hm : (fun x : Nat => x + 1) = Nat.succ := rfl
    rw [hm]
    by_cases h : Geometry.rangeHit a b off s = true
    · simp [h]
    · simp [h]

theorem size_pos_of_noEmpty (sizes : List Nat) (hne : NoEmpty sizes) (j : Nat)
    (hj : j < sizes.length) : 0 < GeomSpec.size sizes j := by
  unfold GeomSpec.size
  have : sizes.getD j 0 = sizes[j] := by simp [List.getD, hj]
  rw [this]
  exact hne _ (List.getElem_mem hj)

theorem rangeHit_eq (a b pos : Int) (s : Nat) (hs : 0 < s) (hab : a ≤ b) :
    Geometry.rangeHit a b pos s =
      (decide (0 < s) && decide (a ≤ pos + (s : Int) - 1) && decide (pos ≤ b)) := by
  unfold Geometry.rangeHit
  rw [Bool.eq_iff_iff]
  simp only [Bool.or_eq_true, Bool.and_eq_true, decide_eq_true_eq]
  omega

theorem byteRangeLoop_spec (sizes : List Nat) (a b : Int) (hne : NoEmpty sizes) (hab : a ≤ b) :
    Geometry.byteRangeLoop a b sizes 0 = GeomSpec.filesAtByteRange sizes a b := by
  rw [byteRangeLoop_eq]
  unfold GeomSpec.filesAtByteRange GeomSpec.allFiles
  apply List.filter_congr
  intro j hj
  rw [List.mem_range] at hj
  rw [rangeHit_eq _ _ _ _ (size_pos_of_noEmpty sizes hne j hj) hab]
  unfold GeomSpec.fileInRange
  simp only [Int.zero_add]

theorem getFilesAtByteRange_spec (sizes : List Nat) (a b : Int) (hne : NoEmpty sizes) (hab : a ≤ b) :
    Geometry.getFilesAtByteRange sizes a b = .ok (GeomSpec.filesAtByteRange sizes a b) := by
  unfold Geometry.getFilesAtByteRange
  rw [if_pos hab, byteRangeLoop_spec sizes a b hne hab]


/-! ### get_files_at_piece_index -/

theorem pos_add_size_le_total (sizes : List Nat) (j : Nat) (hj : j < sizes.length) :
    GeomSpec.pos sizes j + GeomSpec.size sizes j ≤ GeomSpec.total sizes := by
  induction sizes generalizing j with
  | nil => simp at hj
  | cons s rest ih =>
    cases j with
    | zero => simp [pos_zero, size_cons_zero, GeomSpec.total]
    | succ k =>
      have := ih k (by simpa using hj)
      simp only [pos_cons_succ, size_cons_succ, GeomSpec.total, List.sum_cons] at *
      omega

theorem exists_owner (sizes : List Nat) (p : Nat) (hp : p < GeomSpec.total sizes) :
    ∃ j, j < sizes.length ∧ GeomSpec.pos sizes j ≤ p ∧
      p < GeomSpec.pos sizes j + GeomSpec.size sizes j := by
  induction sizes generalizing p with
  | nil => simp [GeomSpec.total] at hp
  | cons s rest ih =>
    by_cases h : p < s
    · exact ⟨0, by simp, by simp [pos_zero], by simpa [pos_zero, size_cons_zero] using h⟩
    · have hp' : p - s < GeomSpec.total rest := by
        simp only [GeomSpec.total, List.sum_cons] at *
        omega
      obtain ⟨j, hj, h1, h2⟩ := ih (p - s) hp'
      refine ⟨j + 1, by simpa using hj, ?_, ?_⟩
      · rw [pos_cons_succ]; omega
      · rw [pos_cons_succ, size_cons_succ]; omega

theorem filesAtPieceIndex_filter_eq (sizes : List Nat) (L : Nat) (i : Int) :
    (GeomSpec.allFiles sizes).filter (GeomSpec.fileInPiece sizes L i) =
      GeomSpec.filesAtByteRange sizes (i * (L : Int)) ((i + 1) * (L : Int) - 1) := rfl

theorem filesAtByteRange_ne_nil_of_valid (sizes : List Nat) (L : Nat) (i : Int) (hL : 0 < L)
    (hi : 0 ≤ i) (hv : i * (L : Int) < (GeomSpec.total sizes : Int)) :
    GeomSpec.filesAtByteRange sizes (i * (L : Int)) ((i + 1) * (L : Int) - 1) ≠ [] := by
  have hnn : 0 ≤ i * (L : Int) := Int.mul_nonneg hi (by omega)
  obtain ⟨p, hpe⟩ := Int.eq_ofNat_of_zero_le hnn
  have hp : p < GeomSpec.total sizes := by omega
  obtain ⟨j, hj, h1, h2⟩ := exists_owner sizes p hp
  have hmem : j ∈ GeomSpec.filesAtByteRange sizes (i * (L : Int)) ((i + 1) * (L : Int) - 1) := by
    rw [mem_filesAtByteRange]
    refine ⟨hj, ?_⟩
    unfold GeomSpec.fileInRange
    have e : (i + 1) * (L : Int) = i * (L : Int) + (L : Int) := by
      rw [Int.add_mul, Int.one_mul]
    rw [e, hpe]
    simp only [Bool.and_eq_true, decide_eq_true_eq]
    omega
  intro hnil
  rw [hnil] at hmem
  simp at hmem

theorem filesAtByteRange_eq_nil_of_ge (sizes : List Nat) (a b : Int)
    (hv : (GeomSpec.total sizes : Int) ≤ a) :
    GeomSpec.filesAtByteRange sizes a b = [] := by
  rw [List.eq_nil_iff_forall_not_mem]
  intro j hmem
  rw [mem_filesAtByteRange] at hmem
  obtain ⟨hj, hr⟩ := hmem
  have := pos_add_size_le_total sizes j hj
  unfold GeomSpec.fileInRange at hr
  simp only [Bool.and_eq_true, decide_eq_true_eq] at hr
  omega

theorem getFilesAtPieceIndex_spec (sizes : List Nat) (L : Nat) (i : Int) (hL : 0 < L) (hne : NoEmpty sizes) :
    Geometry.getFilesAtPieceIndex sizes L i = GeomSpec.filesAtPieceIndex sizes L i := by
  unfold Geometry.getFilesAtPieceIndex GeomSpec.filesAtPieceIndex GeomSpec.validPiece
  rw [filesAtPieceIndex_filter_eq]
  by_cases hi : i ≥ 0
  · have hab : i * (L : Int) ≤ (i + 1) * (L : Int) - 1 := by
      rw [Int.add_mul, Int.one_mul]; omega
    rw [if_pos hi, getFilesAtByteRange_spec sizes _ _ hne hab]
    by_cases hv : i * (L : Int) < (GeomSpec.total sizes : Int)
    · have hnil := filesAtByteRange_ne_nil_of_valid sizes L i hL hi hv
      have hemp : (GeomSpec.filesAtByteRange sizes (i * (L : Int)) ((i + 1) * (L : Int) - 1)).isEmpty = false := by
        simpa [List.isEmpty_iff] using hnil
      simp [bind, Except.bind, hemp, hi, hv]
      rfl
    · have hnil := filesAtByteRange_eq_nil_of_ge sizes (i * (L : Int)) ((i + 1) * (L : Int) - 1) (by omega)
      rw [hnil]
      simp [bind, Except.bind, hv]
  · rw [if_neg hi]
    have : ¬ (0 ≤ i) := hi
    simp [this]

end Torf.GeomLemmas
