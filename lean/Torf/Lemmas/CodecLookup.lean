/-
  `encode_dict` keeps every entry: the value bound to a `str` key is encoded and appears under
  the UTF-8 encoding of that key.
-/
import Torf.Lemmas.Codec
namespace Torf.Codec
open Torf Torf.Bencode

theorem mem_encodeKvs (k : String) (m : PyVal) :
    ∀ (kvs : List (PyVal × PyVal)) (es : List (String × BVal)), encodeKvs kvs = .ok es →
    PyVal.lookupStr k kvs = some m → ∃ v, encodeValue m = .ok v ∧ (k, v) ∈ es
  | [], es, _, hl => by simp [PyVal.lookupStr] at hl
  | (.str k', v) :: t, es, h, hl => by
    simp only [encodeKvs] at h
    split at h
    · exact absurd h (by simp)
    · rename_i v' hv
      split at h
      · exact absurd h (by simp)
      · rename_i t' ht
        simp only [Except.ok.injEq] at h; subst h
        simp only [PyVal.lookupStr] at hl
        split at hl
        · rename_i hk
          simp only [Option.some.injEq] at hl; subst hl; subst hk
          exact ⟨v', hv, List.mem_cons_self⟩
        · obtain ⟨w, hw, hm⟩ := mem_encodeKvs k m t t' ht hl
          exact ⟨w, hw, List.mem_cons_of_mem _ hm⟩
  | (.none, _) :: _, es, h, _ => by simp [encodeKvs] at h
  | (.bool _, _) :: _, es, h, _ => by simp [encodeKvs] at h
  | (.int _, _) :: _, es, h, _ => by simp [encodeKvs] at h
  | (.float _, _) :: _, es, h, _ => by simp [encodeKvs] at h
  | (.bytes _, _) :: _, es, h, _ => by simp [encodeKvs] at h
  | (.list _, _) :: _, es, h, _ => by simp [encodeKvs] at h
  | (.tuple _, _) :: _, es, h, _ => by simp [encodeKvs] at h
  | (.dict _, _) :: _, es, h, _ => by simp [encodeKvs] at h
  | (.datetime _, _) :: _, es, h, _ => by simp [encodeKvs] at h
  | (.other _, _) :: _, es, h, _ => by simp [encodeKvs] at h

/-- the value of `str` key `k` of a dict is encoded into the entry with key `k.encode()` -/
theorem mem_encodeDict (k : String) (m : PyVal) (kvs : List (PyVal × PyVal)) (u : BVal)
    (h : encodeDict kvs = .ok u) (hl : PyVal.lookupStr k kvs = some m) :
    ∃ ukvs v, u = .dict ukvs ∧ encodeValue m = .ok v ∧ (utf8Enc k, v) ∈ ukvs := by
  simp only [encodeDict, encodeValue] at h
  split at h
  · rename_i es hes
    simp only [Except.ok.injEq] at h
    obtain ⟨v, hv, hm⟩ := mem_encodeKvs k m kvs es hes hl
    refine ⟨_, v, h.symm, hv, ?_⟩
    exact List.mem_map.mpr ⟨(k, v), (isort_perm strLe es).symm.subset hm, rfl⟩
  · exact absurd h (by simp)

end Torf.Codec
