/-
  Torf.Lemmas.PipelineExit — the pipeline with exit paths (`Model/PipelineExit.lean`):

  * every run of the extended system is, on its base component, a run of the base system with the
    same labels (`runE_base`), and as long as main has not failed in a window every base step
    lifts (`stepE_lift`): the safety, deadlock-freedom and termination theorems of C03/C04 carry
    over;
  * `InvX` (every configuration): the ghost variables of the reader's exit protocol are functions
    of the base state — one end-of-stream marker queued iff the reader thread has ended, the
    stream closed only then, the reader's stored exception = `exitExc`;
  * `InvJ` (no refused start): `reader.join()` re-raised exactly the reader's stored exception;
  * `InvP`: after a failure in `HasherPool.__init__` only the reader moves, and what it queued is
    still in the piece queue.
-/
import Torf.Model.PipelineExit
import Torf.Lemmas.PipelineC04Inv
import Torf.Lemmas.PipelineInv
namespace Torf.PipelineExit
open Torf.Pipeline

/-! ### shapes of the steps -/

theorem stepE_main {c : CfgE} {x x' : StateE} (h : stepE c x ⟨.main, false⟩ = some x') :
    x.failed = none ∧ ∃ b, stepMain c.base x.base = some b ∧
      x' = { x with base := b, failed := windowOf c x.base.main b,
                    joinRaised := if joiningReader x.base.main && !x.base.rpc.running then x.rexcKind
                                  else x.joinRaised } := by
  simp only [stepE, Bool.false_eq_true, ↓reduceIte, stepMainE] at h
  split at h
  · simp at h
  · rename_i hf
    cases hb : stepMain c.base x.base with
    | none => simp [hb] at h
    | some b =>
      simp only [hb, Option.some.injEq] at h
      refine ⟨by simpa using hf, b, rfl, h.symm⟩

theorem stepE_reader {c : CfgE} {x x' : StateE} (h : stepE c x ⟨.reader, false⟩ = some x') :
    ∃ b, stepReader c.base x.base = some b ∧
      ((x.base.rpc = .closing ∧
          x' = { x with base := b, sentinels := x.sentinels + 1, closed := true,
                        rexcKind := if c.closeFault then some .osError else x.rexcKind }) ∨
       (x.base.rpc ≠ .closing ∧
          x' = { x with base := b,
                        rexcKind := if b.rexc && !x.base.rexc then some c.faultCall.exc
                                    else x.rexcKind })) := by
  simp only [stepE, Bool.false_eq_true, ↓reduceIte, stepReaderE] at h
  cases hb : stepReader c.base x.base with
  | none => simp [hb] at h
  | some b =>
    simp only [hb] at h
    refine ⟨b, rfl, ?_⟩
    split at h
    · rename_i hr
      simp only [Option.some.injEq] at h
      exact .inl ⟨hr, h.symm⟩
    · rename_i hr
      simp only [Option.some.injEq] at h
      exact .inr ⟨fun hc => hr hc, h.symm⟩

theorem stepE_other {c : CfgE} {x x' : StateE} {l : Label} (hm : l.tid ≠ .main) (hr : l.tid ≠ .reader)
    (h : stepE c x l = some x') : ∃ b, step c.base x.base l = some b ∧ x' = { x with base := b } := by
  unfold stepE at h
  split at h
  · rename_i ht; exact absurd ht hm
  · rename_i ht; exact absurd ht hr
  · cases hb : step c.base x.base l with
    | none => simp [hb] at h
    | some b =>
      simp only [hb, Option.map_some, Option.some.injEq] at h
      exact ⟨b, rfl, h.symm⟩

/-- a step of the extended system, by thread -/
theorem stepE_cases {c : CfgE} {x x' : StateE} {l : Label} (h : stepE c x l = some x') :
    (l = ⟨.main, false⟩) ∨ (l = ⟨.reader, false⟩) ∨ (l.tid ≠ .main ∧ l.tid ≠ .reader) := by
  rcases l with ⟨t, b⟩
  cases t with
  | main =>
    cases b with
    | false => exact .inl rfl
    | true => simp [stepE] at h
  | reader =>
    cases b with
    | false => exact .inr (.inl rfl)
    | true => simp [stepE] at h
  | hasher i => exact .inr (.inr ⟨by simp, by simp⟩)
  | janitor => exact .inr (.inr ⟨by simp, by simp⟩)

/-! ### the base component of a run is a run of the base system -/

theorem stepE_base {c : CfgE} {x x' : StateE} {l : Label} (h : stepE c x l = some x') :
    step c.base x.base l = some x'.base := by
  rcases stepE_cases h with hl | hl | ⟨hm, hr⟩
  · subst hl
    obtain ⟨_, b, hb, hx⟩ := stepE_main h
    subst hx
    simpa [step] using hb
  · subst hl
    obtain ⟨b, hb, hx | hx⟩ := stepE_reader h <;>
      (obtain ⟨_, hx⟩ := hx; subst hx; simpa [step] using hb)
  · obtain ⟨b, hb, hx⟩ := stepE_other hm hr h
    subst hx
    exact hb

theorem runE_base {c : CfgE} {ls : List Label} {x x' : StateE} (h : runE c x ls = some x') :
    run c.base x.base ls = some x'.base := by
  induction ls generalizing x with
  | nil => simp only [runE, Option.some.injEq] at h; subst h; rfl
  | cons l ls ih =>
    simp only [runE] at h
    cases hs : stepE c x l with
    | none => simp [hs] at h
    | some x₁ =>
      simp only [hs] at h
      simp only [run, stepE_base hs]
      exact ih h

theorem ReachableE.base {c : CfgE} {x : StateE} (h : ReachableE c x) : Reachable c.base x.base := by
  obtain ⟨ls, hls⟩ := h
  exact ⟨ls, runE_base hls⟩

theorem runE_append (c : CfgE) (x : StateE) (l₁ l₂ : List Label) :
    runE c x (l₁ ++ l₂) = (runE c x l₁).bind fun x' => runE c x' l₂ := by
  induction l₁ generalizing x with
  | nil => simp [runE]
  | cons l ls ih =>
    simp only [List.cons_append, runE]
    cases stepE c x l with
    | none => simp
    | some x' => simpa using ih x'

theorem ReachableE.init (c : CfgE) : ReachableE c (initE c) := ⟨[], rfl⟩

theorem ReachableE.step {c : CfgE} {x x' : StateE} {l : Label} (h : ReachableE c x)
    (hs : stepE c x l = some x') : ReachableE c x' := by
  obtain ⟨ls, hls⟩ := h
  refine ⟨ls ++ [l], ?_⟩
  rw [runE_append, hls]
  simp [runE, hs]

theorem ReachableE.induction {c : CfgE} {P : StateE → Prop} (h0 : P (initE c))
    (hstep : ∀ x x' l, ReachableE c x → P x → stepE c x l = some x' → P x')
    {x : StateE} (h : ReachableE c x) : P x := by
  obtain ⟨ls, hls⟩ := h
  suffices ∀ (ls : List Label) (x₀ : StateE), ReachableE c x₀ → P x₀ →
      ∀ x, runE c x₀ ls = some x → P x from this ls _ (ReachableE.init c) h0 x hls
  intro ls
  induction ls with
  | nil => intro x₀ _ hp x hr; simp [runE] at hr; exact hr ▸ hp
  | cons l ls ih =>
    intro x₀ hr₀ hp x hr
    simp only [runE] at hr
    cases hst : stepE c x₀ l with
    | none => simp [hst] at hr
    | some x₁ =>
      simp only [hst] at hr
      exact ih x₁ (hr₀.step hst) (hstep _ _ _ hr₀ hp hst) x hr

/-- as long as main has not failed in a window, every step of the base system is a step of the
    extended system -/
theorem stepE_lift {c : CfgE} {x : StateE} {l : Label} {b : State}
    (hf : x.failed = none ∨ l.tid ≠ .main) (h : step c.base x.base l = some b) :
    ∃ x', stepE c x l = some x' ∧ x'.base = b := by
  rcases l with ⟨t, to⟩
  cases t with
  | main =>
    have hf' : x.failed = none := by
      rcases hf with hf | hf
      · exact hf
      · simp at hf
    cases to with
    | true => simp [step] at h
    | false =>
      simp only [step, Bool.false_eq_true, ↓reduceIte] at h
      refine ⟨{ x with base := b, failed := windowOf c x.base.main b,
                       joinRaised := if joiningReader x.base.main && !x.base.rpc.running then x.rexcKind
                                     else x.joinRaised }, ?_, rfl⟩
      simp [stepE, stepMainE, hf', h]
  | reader =>
    cases to with
    | true => simp [step] at h
    | false =>
      simp only [step, Bool.false_eq_true, ↓reduceIte] at h
      by_cases hc : x.base.rpc = .closing
      · refine ⟨{ x with base := b, sentinels := x.sentinels + 1, closed := true,
                         rexcKind := if c.closeFault then some .osError else x.rexcKind }, ?_, rfl⟩
        simp [stepE, stepReaderE, h, hc]
      · refine ⟨{ x with base := b, rexcKind := if b.rexc && !x.base.rexc then some c.faultCall.exc
                                               else x.rexcKind }, ?_, rfl⟩
        simp [stepE, stepReaderE, h]
  | hasher i => exact ⟨{ x with base := b }, by simp [stepE, h], rfl⟩
  | janitor => exact ⟨{ x with base := b }, by simp [stepE, h], rfl⟩

/-! ### what the steps of the base system do to the reader's variables -/

theorem _root_.Torf.Pipeline.MainStepG.reader_vars {cfg : Cfg} {s s' : State} (hA : InvA cfg s) (h : MainStepG cfg s s') :
    s'.rexc = s.rexc ∧ (s'.rpc = .done ↔ s.rpc = .done) ∧ (s'.rpc = .closing ↔ s.rpc = .closing) := by
  have hrf := hA.rfresh
  cases h with
  | ok h' _ _ _ => cases h' <;> simp_all
  | refReader hm _ => simp_all
  | refVital => simp
  | refHasherNext => simp
  | refHasherLast => simp
  | refJanitor => simp

theorem _root_.Torf.Pipeline.HasherStep.reader_vars {cfg : Cfg} {s s' : State} {i : Nat} (h : HasherStep cfg s i s') :
    s'.rexc = s.rexc ∧ s'.rpc = s.rpc ∧ s'.main = s.main := by
  cases h <;> simp

theorem _root_.Torf.Pipeline.JanitorStep.reader_vars {s s' : State} (h : JanitorStep s s') :
    s'.rexc = s.rexc ∧ s'.rpc = s.rpc ∧ s'.main = s.main := by
  cases h <;> simp

/-- a step of a thread other than main and the reader leaves the reader's variables and main's
    program counter alone -/
theorem step_other_vars {cfg : Cfg} {s s' : State} {l : Label} (hm : l.tid ≠ .main) (hr : l.tid ≠ .reader)
    (h : step cfg s l = some s') : s'.rexc = s.rexc ∧ s'.rpc = s.rpc ∧ s'.main = s.main := by
  rcases l with ⟨t, b⟩
  cases t with
  | main => simp at hm
  | reader => simp at hr
  | hasher i => exact (HasherStep.of_step (by simpa [step] using h)).reader_vars
  | janitor => exact (JanitorStep.of_step (cfg := cfg) (by simpa [step] using h)).reader_vars

theorem _root_.Torf.Pipeline.ReaderStep.main_eq {cfg : Cfg} {s s' : State} (h : ReaderStep cfg s s') : s'.main = s.main := by
  cases h with
  | begin _ _ hn => cases hn <;> rfl
  | put _ _ _ _ hn => cases hn <;> rfl
  | close => rfl

/-! ### `InvX`: the reader's exit protocol (every configuration) -/

/-- the exception stored in the reader's `Worker._exception`, as a function of the base state -/
def exitExc (c : CfgE) (s : State) : Option RExc :=
  if c.closeFault = true ∧ s.rpc = .done then some .osError
  else if s.rexc = true then some c.faultCall.exc else none

structure InvX (c : CfgE) (x : StateE) : Prop where
  sent : x.sentinels = if x.base.rpc = .done then 1 else 0
  closed : x.closed = decide (x.base.rpc = .done)
  kind : x.rexcKind = exitExc c x.base
  failedCfg : ∀ p, x.failed = some p → c.mainFail = some p

theorem InvX.init (c : CfgE) : InvX c (initE c) := by
  constructor <;> simp [initE, Pipeline.init, exitExc]

theorem InvX.step {c : CfgE} {x x' : StateE} {l : Label} (hre : ReachableE c x) (h : InvX c x)
    (hs : stepE c x l = some x') : InvX c x' := by
  have hA := InvA.of_reachable hre.base
  obtain ⟨sent, closed, kind, failedCfg⟩ := h
  rcases stepE_cases hs with hl | hl | ⟨hm, hr⟩
  · subst hl
    obtain ⟨hf, b, hb, hx⟩ := stepE_main hs
    obtain ⟨h1, h2, _⟩ := (MainStepG.of_step hA hb).reader_vars hA
    subst hx
    refine ⟨?_, ?_, ?_, ?_⟩
    · simp only [sent, h2]
    · simp only [closed, h2]
    · simp only [kind, exitExc, h1, h2]
    · intro p hp
      simp only [windowOf] at hp
      split at hp
      · split at hp <;> simp_all
      · split at hp <;> simp_all
      · simp at hp
  · subst hl
    obtain ⟨b, hb, hx⟩ := stepE_reader hs
    have hst := ReaderStep.of_step hb
    rcases hx with ⟨hc, hx⟩ | ⟨hc, hx⟩
    · subst hx
      cases hst with
      | begin hr => simp [hc] at hr
      | put k hr => simp [hc] at hr
      | close hr hcap =>
        refine ⟨?_, ?_, ?_, failedCfg⟩
        · simp [sent, hc]
        · simp
        · simp only [kind, exitExc, hc]
          cases c.closeFault <;> simp
    · subst hx
      cases hst with
      | close hr => exact absurd hr hc
      | begin hr t hn =>
        refine ⟨?_, ?_, ?_, failedCfg⟩
        · cases hn <;> simp [sent, hr]
        · cases hn <;> simp [closed, hr]
        · cases hn <;> simp [kind, exitExc, hr] <;> (cases x.base.rexc <;> simp)
      | put k hr hcap t hn =>
        refine ⟨?_, ?_, ?_, failedCfg⟩
        · cases hn <;> simp [sent, hr]
        · cases hn <;> simp [closed, hr]
        · cases hn <;> simp [kind, exitExc, hr] <;> (cases x.base.rexc <;> simp)
  · obtain ⟨b, hb, hx⟩ := stepE_other hm hr hs
    obtain ⟨h1, h2, _⟩ := step_other_vars hm hr hb
    subst hx
    exact ⟨by simp only [sent, h2], by simp only [closed, h2], by simp only [kind, exitExc, h1, h2],
      failedCfg⟩

theorem InvX.of_reachable {c : CfgE} {x : StateE} (h : ReachableE c x) : InvX c x :=
  ReachableE.induction (P := InvX c) (InvX.init c) (fun _ _ _ hre hp hs => hp.step hre hs) h

/-! ### `InvJ`: what `reader.join()` re-raises (no refused start) -/

theorem _root_.Torf.Pipeline.MainStep.join_flow {cfg : Cfg} {s s' : State} (h : MainStep cfg s s') :
    (postReaderJoin s'.main = true →
      postReaderJoin s.main = true ∨ (joiningReader s.main = true ∧ s.rpc.running = false)) ∧
    (postReaderJoin s'.main = false →
      postReaderJoin s.main = false ∧ (joiningReader s.main = true → s.rpc.running = true)) ∧
    (postReaderJoin s.main = true → joiningReader s.main = false) := by
  cases h <;> (try simp only [postReaderJoin_joinTarget]) <;> simp_all [postReaderJoin, joiningReader]

structure InvJ (x : StateE) : Prop where
  joined : postReaderJoin x.base.main = true → x.joinRaised = x.rexcKind
  notJoined : postReaderJoin x.base.main = false → x.joinRaised = none

theorem InvJ.init (c : CfgE) : InvJ (initE c) := by
  constructor <;> simp [initE, Pipeline.init, postReaderJoin]

theorem InvJ.step {c : CfgE} {x x' : StateE} {l : Label} (hrf : c.base.refuse = [])
    (hre : ReachableE c x) (h : InvJ x) (hs : stepE c x l = some x') : InvJ x' := by
  have hI := Inv.of_reachable hrf hre.base
  obtain ⟨joined, notJoined⟩ := h
  rcases stepE_cases hs with hl | hl | ⟨hm, hr⟩
  · subst hl
    obtain ⟨hf, b, hb, hx⟩ := stepE_main hs
    obtain ⟨f1, f2, f3⟩ := (MainStep.of_step hrf hI.a hb).join_flow
    subst hx
    refine ⟨fun hp => ?_, fun hp => ?_⟩
    · rcases f1 hp with hq | ⟨hq, hrun⟩
      · have := f3 hq
        simp only [this, Bool.false_and, Bool.false_eq_true, ↓reduceIte]
        exact joined hq
      · simp [hq, hrun]
    · obtain ⟨hq, hrun⟩ := f2 hp
      have hn := notJoined hq
      by_cases hj : joiningReader x.base.main = true
      · simp [hj, hrun hj, hn]
      · simp [hj, hn]
  · subst hl
    obtain ⟨b, hb, hx⟩ := stepE_reader hs
    have hmn := (ReaderStep.of_step hb).main_eq
    have hnp : postReaderJoin x.base.main = false := by
      cases hp : postReaderJoin x.base.main with
      | false => rfl
      | true =>
        have hd := hI.b1.rjoined hp
        simp [stepReader, hd] at hb
    rcases hx with ⟨_, hx⟩ | ⟨_, hx⟩ <;>
      (subst hx
       refine ⟨fun hp => ?_, fun _ => notJoined hnp⟩
       simp only [hmn, hnp, Bool.false_eq_true] at hp)
  · obtain ⟨b, hb, hx⟩ := stepE_other hm hr hs
    obtain ⟨_, _, h3⟩ := step_other_vars hm hr hb
    subst hx
    exact ⟨fun hp => joined (by simpa only [h3] using hp), fun hp => notJoined (by simpa only [h3] using hp)⟩

theorem InvJ.of_reachable {c : CfgE} {x : StateE} (hrf : c.base.refuse = []) (h : ReachableE c x) :
    InvJ x :=
  ReachableE.induction (P := InvJ) (InvJ.init c) (fun _ _ _ hre hp hs => hp.step hrf hre hs) h

/-- without a failure window main never fails outside `collect()` -/
theorem failed_none {c : CfgE} {x : StateE} (hmf : c.mainFail = none) (h : ReachableE c x) :
    x.failed = none := by
  cases hf : x.failed with
  | none => rfl
  | some p => have := (InvX.of_reachable h).failedCfg p hf; simp [hmf] at this

/-! ### `InvP`: a failure in `HasherPool.__init__` leaves the reader alone with its queue -/

structure Quiet (s : State) : Prop where
  stop : s.stop = false
  hs : ∀ h ∈ s.hs, h = HPc.notStarted
  jan : s.jan = .notStarted
  seen : s.seen = []
  hq : s.hq = []
  pq : s.pq.length = (s.pq.filterMap id).length + (if s.rpc = .done then 1 else 0)

structure InvP (x : StateE) : Prop where
  quiet : x.failed = some .poolInit ∨ preReader x.base.main = true → Quiet x.base
  started : x.failed = some .poolInit → x.base.rpc.running = true ∨ x.base.rpc = .done

theorem InvP.init (c : CfgE) : InvP (initE c) := by
  refine ⟨fun _ => ?_, by simp [initE]⟩
  constructor <;> simp [initE, Pipeline.init]

theorem _root_.Torf.Pipeline.ReaderStep.running {cfg : Cfg} {s s' : State} (h : ReaderStep cfg s s') :
    s'.rpc.running = true ∨ s'.rpc = .done := by
  cases h with
  | begin _ _ hn => cases hn <;> simp [RPc.running]
  | put _ _ _ _ hn => cases hn <;> simp [RPc.running]
  | close => simp

theorem Quiet.reader {cfg : Cfg} {s s' : State} (q : Quiet s) (h : ReaderStep cfg s s') : Quiet s' := by
  obtain ⟨q1, q2, q3, q4, q5, q6⟩ := q
  cases h with
  | begin hr _ hn => cases hn <;> (constructor <;> first | assumption | simp_all)
  | put k hr _ _ hn => cases hn <;> (constructor <;> first | assumption | simp_all)
  | close hr => constructor <;> first | assumption | simp_all

theorem InvP.step {c : CfgE} {x x' : StateE} {l : Label} (hre : ReachableE c x) (h : InvP x)
    (hs : stepE c x l = some x') : InvP x' := by
  have hA := InvA.of_reachable hre.base
  obtain ⟨quiet, started⟩ := h
  rcases stepE_cases hs with hl | hl | ⟨hm, hr⟩
  · subst hl
    obtain ⟨hf, b, hb, hx⟩ := stepE_main hs
    have hst := MainStepG.of_step hA hb
    subst hx
    refine ⟨fun hp => ?_, fun hp => ?_⟩
    · -- the premise can only hold if main was before the start of the reader
      have hpre : preReader x.base.main = true := by
        rcases hp with hp | hp
        · simp only [windowOf] at hp
          split at hp
          · simp [*, preReader]
          · split at hp <;> simp at hp
          · simp at hp
        · cases hst with
          | ok h' _ _ _ =>
            cases h' <;> (try simp only [preReader_joinTarget] at hp) <;> simp_all [preReader]
          | refReader hm _ => simp [hm, preReader]
          | refVital hm _ => simp [preReader] at hp
          | refHasherNext i hm _ _ _ => simp [preReader] at hp
          | refHasherLast i hm _ _ _ => simp [preReader] at hp
          | refJanitor hm _ => simp [preReader] at hp
      obtain ⟨q1, q2, q3, q4, q5, q6⟩ := quiet (.inr hpre)
      have hrn := hA.rfresh (by
        cases hmm : x.base.main <;> simp_all [preReader])
      cases hst with
      | ok h' _ _ _ =>
        cases h' <;> (try simp only [preReader_joinTarget] at hpre) <;> simp_all [preReader] <;>
          (constructor <;> first | assumption | simp_all)
      | refReader hm _ => constructor <;> first | assumption | simp_all
      | refVital hm _ => simp_all [preReader]
      | refHasherNext i hm _ _ _ => simp_all [preReader]
      | refHasherLast i hm _ _ _ => simp_all [preReader]
      | refJanitor hm _ => simp_all [preReader]
    · simp only [windowOf] at hp
      split at hp
      · split at hp
        · rename_i hbr; simp [hbr, RPc.running]
        · simp at hp
      · split at hp <;> simp at hp
      · simp at hp
  · subst hl
    obtain ⟨b, hb, hx⟩ := stepE_reader hs
    have hst := ReaderStep.of_step hb
    have hmn := hst.main_eq
    rcases hx with ⟨_, hx⟩ | ⟨_, hx⟩ <;>
      (subst hx
       exact ⟨fun hp => (quiet (by simpa only [hmn] using hp)).reader hst, fun _ => hst.running⟩)
  · obtain ⟨b, hb, hx⟩ := stepE_other hm hr hs
    obtain ⟨_, h2, h3⟩ := step_other_vars hm hr hb
    subst hx
    refine ⟨fun hp => ?_, fun hp => by simpa only [h2] using started hp⟩
    -- neither a hasher nor the janitor can move: none of them has been started
    obtain ⟨q1, q2, q3, q4, q5, q6⟩ := quiet (by simpa only [h3] using hp)
    exfalso
    rcases l with ⟨t, to⟩
    cases t with
    | main => simp at hm
    | reader => simp at hr
    | hasher i =>
      have hb' : stepHasher c.base x.base i to = some b := by simpa [Pipeline.step] using hb
      cases hi : x.base.hs[i]? with
      | none => simp [stepHasher, hi] at hb'
      | some p =>
        have := q2 p (List.mem_of_getElem? hi)
        subst this
        simp [stepHasher, hi] at hb'
    | janitor =>
      have hb' : stepJanitor c.base x.base to = some b := by simpa [Pipeline.step] using hb
      simp [stepJanitor, q3] at hb'

theorem InvP.of_reachable {c : CfgE} {x : StateE} (h : ReachableE c x) : InvP x :=
  ReachableE.induction (P := InvP) (InvP.init c) (fun _ _ _ hre hp hs => hp.step hre hs) h

theorem held_nil_of_notStarted {s : State} (h : ∀ p ∈ s.hs, p = HPc.notStarted) : held s = [] := by
  unfold held
  rw [List.filterMap_eq_nil_iff]
  intro p hp
  rw [h p hp]

end Torf.PipelineExit
