/-
  `norm` sorts every dict; it does not change the serialisation and yields a canonical value
  whenever keys are pairwise distinct (the Python-dict invariant).
-/
import Torf.Lemmas.BencodeParse
namespace Torf.Bencode

theorem serKvs_eq_map (kvs : List (Bytes × BVal)) :
    serKvs kvs = kvs.map fun p => (p.1, serBytes p.1 ++ ser p.2) := by
  induction kvs with
  | nil => rfl
  | cons p t ih => obtain ⟨k, v⟩ := p; simp [serKvs, ih]

theorem serKvs_isort (kvs : List (Bytes × BVal)) :
    serKvs (isort keyLe kvs) = isort keyLe (serKvs kvs) := by
  rw [serKvs_eq_map, serKvs_eq_map]
  exact (isort_map (α := Bytes × BVal) (β := Bytes × Bytes) keyLe keyLe
    (fun p => (p.1, serBytes p.1 ++ ser p.2)) (fun a b => rfl) kvs).symm

mutual
theorem ser_norm : ∀ v : BVal, ser (norm v) = ser v
  | .int _ => rfl
  | .bytes _ => rfl
  | .list l => by simp only [norm, ser, serList_norm l]
  | .dict kvs => by
    simp only [norm, ser]
    rw [serKvs_isort, isort_idem keyLe keyLe_total keyLe_trans, serKvs_norm kvs]
theorem serList_norm : ∀ l : List BVal, serList (normList l) = serList l
  | [] => rfl
  | v :: t => by simp only [normList, serList, ser_norm v, serList_norm t]
theorem serKvs_norm : ∀ kvs : List (Bytes × BVal), serKvs (normKvs kvs) = serKvs kvs
  | [] => rfl
  | (k, v) :: t => by simp only [normKvs, serKvs, ser_norm v, serKvs_norm t]
end

theorem normKvs_keys (kvs : List (Bytes × BVal)) : (normKvs kvs).map (·.1) = kvs.map (·.1) := by
  induction kvs with
  | nil => rfl
  | cons p t ih => obtain ⟨k, v⟩ := p; simp [normKvs, ih]

theorem canonKvs_iff (l : List (Bytes × BVal)) :
    canonKvs l = true ↔ ∀ p ∈ l, canon p.2 = true := by
  induction l with
  | nil => simp [canonKvs]
  | cons p t ih => obtain ⟨k, v⟩ := p; simp [canonKvs, ih]

theorem smallKvs_iff (lim : Nat) (l : List (Bytes × BVal)) :
    smallKvs lim l = true ↔ ∀ p ∈ l, (decNat p.1.length).length ≤ lim ∧ small lim p.2 = true := by
  induction l with
  | nil => simp [smallKvs]
  | cons p t ih => obtain ⟨k, v⟩ := p; simp [smallKvs, ih, and_assoc]

theorem bytes_lt_of_le_of_ne {a b : Bytes} (h : a ≤ b) (hne : a ≠ b) : a < b := by
  rcases List.le_total b a with h' | h'
  · exact absurd (List.le_antisymm h h') hne
  · exact Decidable.byContradiction fun hlt => hne (List.le_antisymm h (List.not_lt.mp hlt))

theorem keysAsc_isort (l : List (Bytes × BVal)) (hn : (l.map (·.1)).Nodup) :
    keysAsc ((isort keyLe l).map (·.1)) = true := by
  apply pairwise_keysAsc
  rw [List.pairwise_map]
  have hs := isort_sorted keyLe keyLe_total keyLe_trans l
  have hn' : ((isort keyLe l).map (·.1)).Nodup :=
    ((isort_perm keyLe l).map (·.1)).nodup_iff.mpr hn
  rw [List.Nodup, List.pairwise_map] at hn'
  exact (hs.and hn').imp (fun ⟨h1, h2⟩ => by
    simp only [keyLe, decide_eq_true_eq] at h1
    exact bytes_lt_of_le_of_ne h1 h2)

mutual
theorem canon_norm : ∀ v : BVal, uniqKeys v = true → canon (norm v) = true
  | .int _, _ => rfl
  | .bytes _, _ => rfl
  | .list l, h => by simp only [norm, canon]; exact canonList_norm l (by simpa [uniqKeys] using h)
  | .dict kvs, h => by
    simp only [uniqKeys, Bool.and_eq_true, decide_eq_true_eq] at h
    simp only [norm, canon, Bool.and_eq_true]
    refine ⟨keysAsc_isort _ (by rw [normKvs_keys]; exact h.1), ?_⟩
    rw [canonKvs_iff]
    intro p hp
    exact (canonKvs_iff _).mp (canonKvs_norm kvs h.2) p ((isort_perm keyLe _).subset hp)
theorem canonList_norm : ∀ l : List BVal, uniqList l = true → canonList (normList l) = true
  | [], _ => rfl
  | v :: t, h => by
    simp only [uniqList, Bool.and_eq_true] at h
    simp only [normList, canonList, Bool.and_eq_true]
    exact ⟨canon_norm v h.1, canonList_norm t h.2⟩
theorem canonKvs_norm : ∀ kvs : List (Bytes × BVal), uniqKvs kvs = true →
    canonKvs (normKvs kvs) = true
  | [], _ => rfl
  | (k, v) :: t, h => by
    simp only [uniqKvs, Bool.and_eq_true] at h
    simp only [normKvs, canonKvs, Bool.and_eq_true]
    exact ⟨canon_norm v h.1, canonKvs_norm t h.2⟩
end

mutual
theorem small_norm (lim : Nat) : ∀ v : BVal, small lim v = true → small lim (norm v) = true
  | .int _, h => h
  | .bytes _, h => h
  | .list l, h => by simp only [norm, small] at h ⊢; exact smallList_norm lim l h
  | .dict kvs, h => by
    simp only [norm, small] at h ⊢
    rw [smallKvs_iff]
    intro p hp
    exact (smallKvs_iff lim _).mp (smallKvs_norm lim kvs h) p ((isort_perm keyLe _).subset hp)
theorem smallList_norm (lim : Nat) : ∀ l : List BVal, smallList lim l = true →
    smallList lim (normList l) = true
  | [], _ => rfl
  | v :: t, h => by
    simp only [smallList, Bool.and_eq_true] at h
    simp only [normList, smallList, Bool.and_eq_true]
    exact ⟨small_norm lim v h.1, smallList_norm lim t h.2⟩
theorem smallKvs_norm (lim : Nat) : ∀ kvs : List (Bytes × BVal), smallKvs lim kvs = true →
    smallKvs lim (normKvs kvs) = true
  | [], _ => rfl
  | (k, v) :: t, h => by
    simp only [smallKvs, Bool.and_eq_true] at h
    simp only [normKvs, smallKvs, Bool.and_eq_true]
    exact ⟨⟨h.1.1, small_norm lim v h.1.2⟩, smallKvs_norm lim t h.2⟩
end

/-- the strict parser accepts the serialisation of a canonical value -/
theorem parseStrict_ser (lim : Nat) (v : BVal) (hc : canon v = true) (hs : small lim v = true) :
    parseStrict lim (ser v) = some v := by
  simp [parseStrict, parse_ser lim v hc hs, hc]

/-- every serialisation of a value with distinct keys is a canonical encoding -/
theorem ser_canonical (lim : Nat) (u : BVal) (hu : uniqKeys u = true) (hs : small lim u = true) :
    ∃ v, canon v = true ∧ small lim v = true ∧ ser u = ser v ∧ parseStrict lim (ser u) = some v := by
  refine ⟨norm u, canon_norm u hu, small_norm lim u hs, (ser_norm u).symm, ?_⟩
  rw [← ser_norm u]
  exact parseStrict_ser lim _ (canon_norm u hu) (small_norm lim u hs)

end Torf.Bencode
