/-
  Torf.Lemmas.GeomPiece — `get_piece` (indexed read) agrees with the arithmetic slice of the
  concatenated stream, for every layout without zero-length files.
-/
import Torf.Spec.Geometry
import Torf.Lemmas.Stream
namespace Torf.GeomLemmas
open Torf Torf.Geometry

def NoEmptyFiles (files : List (List α)) : Prop := ∀ f ∈ files, f ≠ []

/-! ### owner of a byte -/

theorem exists_owner_files (files : List (List α)) (p : Nat) (h : p < files.flatten.length) :
    ∃ A f B, files = A ++ f :: B ∧ A.flatten.length ≤ p ∧ p < A.flatten.length + f.length := by
  induction files generalizing p with
  | nil => simp at h
  | cons g rest ih =>
    by_cases hp : p < g.length
    · exact ⟨[], g, rest, by simp, by simp, by simpa using hp⟩
    · have h' : p - g.length < rest.flatten.length := by
        simp only [List.flatten_cons, List.length_append] at h; omega
      obtain ⟨A, f, B, he, h1, h2⟩ := ih (p - g.length) h'
      refine ⟨g :: A, f, B, by simp [he], ?_, ?_⟩
      · simp only [List.flatten_cons, List.length_append]; omega
      · simp only [List.flatten_cons, List.length_append]; omega

/-! ### `get_files_at_byte_range` -/

theorem rangeHit_before (a b off : Int) (s : Nat) (hs : 0 < s) (h : off + (s : Int) ≤ a)
    (hab : a ≤ b) : rangeHit a b off s = false := by
  simp only [rangeHit, Bool.or_eq_false_iff, Bool.and_eq_false_iff, decide_eq_false_iff_not]
  omega

theorem rangeHit_inside (a b off : Int) (s : Nat) (h1 : off ≤ a) (h2 : a < off + (s : Int))
    (_hab : a ≤ b) : rangeHit a b off s = true := by
  simp only [rangeHit, Bool.or_eq_true, Bool.and_eq_true, decide_eq_true_eq]
  omega

theorem rangeHit_after (a b off : Int) (s : Nat) (hs : 0 < s) (h : a < off) :
    rangeHit a b off s = decide (off ≤ b) := by
  by_cases hb : off ≤ b
  · have h1 : a ≤ off := by omega
    simp [rangeHit, hb, h1]
  · simp only [hb, decide_false]
    simp only [rangeHit, Bool.or_eq_false_iff, Bool.and_eq_false_iff, decide_eq_false_iff_not]
    omega

theorem brl_before (a b : Int) (hab : a ≤ b) (rest : List Nat) (A : List Nat) (off : Int)
    (hpos : ∀ s ∈ A, 0 < s) (h : off + (A.sum : Int) ≤ a) :
    byteRangeLoop a b (A ++ rest) off =
      (byteRangeLoop a b rest (off + (A.sum : Int))).map (· + A.length) := by
  induction A generalizing off with
  | nil => simp
  | cons s A ih =>
    have hs : 0 < s := hpos s (by simp)
    simp only [List.sum_cons, Int.natCast_add] at h
    have hA : (0 : Int) ≤ (A.sum : Int) := Int.natCast_nonneg _
    simp only [List.cons_append, byteRangeLoop]
    rw [rangeHit_before a b off s hs (by omega) hab]
    rw [ih (off + (s : Int)) (fun t ht => hpos t (by simp [ht])) (by omega)]
    simp only [Bool.false_eq_true, if_false, List.nil_append, List.map_map, List.sum_cons,
      List.length_cons, Int.natCast_add]
    have e : off + ((s : Int) + (A.sum : Int)) = off + (s : Int) + (A.sum : Int) := by omega
    rw [e]
    apply List.map_congr_left
    intro x _
    simp only [Function.comp]
    omega

theorem brl_after (a b : Int) (B : List Nat) (off : Int)
    (hpos : ∀ s ∈ B, 0 < s) (h : a < off) :
    ∃ k, k ≤ B.length ∧ byteRangeLoop a b B off = List.range k ∧ (0 < k → off ≤ b) ∧
      (k < B.length → b < off + ((B.take k).sum : Int)) := by
  induction B generalizing off with
  | nil => exact ⟨0, by simp, by simp [byteRangeLoop], by simp, by simp⟩
  | cons s B ih =>
    have hs : 0 < s := hpos s (by simp)
    obtain ⟨k, hk, hr, h0, h1⟩ := ih (off + (s : Int)) (fun t ht => hpos t (by simp [ht])) (by omega)
    by_cases hb : off ≤ b
    · refine ⟨k + 1, by simp; omega, ?_, fun _ => hb, ?_⟩
      · simp only [byteRangeLoop, rangeHit_after a b off s hs h, hb, decide_true, if_true, hr,
          List.range_succ_eq_map]
        rfl
      · intro hlt
        simp only [List.length_cons] at hlt
        have := h1 (by omega)
        simp only [List.take_succ_cons, List.sum_cons, Int.natCast_add]
        omega
    · have hk0 : k = 0 := by
        rcases Nat.eq_zero_or_pos k with h | h
        · exact h
        · have := h0 h; omega
      subst hk0
      refine ⟨0, by simp, ?_, by simp, ?_⟩
      · simp only [byteRangeLoop, rangeHit_after a b off s hs h, hb, decide_false, hr]
        simp
      · intro _; simp; omega

theorem brl_decomp (a b : Int) (hab : a ≤ b) (As : List Nat) (s : Nat) (Bs : List Nat)
    (hA : ∀ t ∈ As, 0 < t) (hB : ∀ t ∈ Bs, 0 < t)
    (h1 : (As.sum : Int) ≤ a) (h2 : a < (As.sum : Int) + (s : Int)) :
    ∃ k, k ≤ Bs.length ∧
      byteRangeLoop a b (As ++ s :: Bs) 0 = List.range' As.length (k + 1) ∧
      (0 < k → (As.sum : Int) + (s : Int) ≤ b) ∧
      (k < Bs.length → b < (As.sum : Int) + (s : Int) + ((Bs.take k).sum : Int)) := by
  obtain ⟨k, hk, hr, h0, h3⟩ := brl_after a b Bs ((As.sum : Int) + (s : Int)) hB h2
  refine ⟨k, hk, ?_, h0, h3⟩
  rw [brl_before a b hab (s :: Bs) As 0 hA (by omega)]
  simp only [byteRangeLoop, Int.zero_add, rangeHit_inside a b _ s h1 h2 hab, if_true, hr]
  rw [List.range'_eq_map_range, List.range_succ_eq_map]
  simp only [List.singleton_append, List.map_cons, List.map_map, Nat.zero_add, Nat.add_zero,
    List.cons.injEq, true_and]
  apply List.map_congr_left
  intro x _
  simp only [Function.comp]
  omega

/-! ### `get_file_at_position` -/

theorem fapl_decomp (p : Int) (s : Nat) (Bs As : List Nat) (off : Int)
    (h1 : off + (As.sum : Int) ≤ p) (h2 : p < off + (As.sum : Int) + (s : Int)) :
    fileAtPosLoop p (As ++ s :: Bs) off = some As.length := by
  induction As generalizing off with
  | nil =>
    simp only [List.sum_nil, Int.natCast_zero, Int.add_zero] at h1 h2
    have : off + (s : Int) - 1 ≥ p := by omega
    simp [fileAtPosLoop, this]
  | cons t As ih =>
    simp only [List.sum_cons, Int.natCast_add] at h1 h2
    have hA : (0 : Int) ≤ (As.sum : Int) := Int.natCast_nonneg _
    have : ¬ (off + (t : Int) - 1 ≥ p) := by omega
    simp only [List.cons_append, fileAtPosLoop, this, if_false]
    rw [ih (off + (t : Int) - 1 + 1) (by omega) (by omega)]
    simp

/-! ### the read loop -/

theorem readLoop_consec (R : List (List α)) (G A : List (List α)) (s : Int) (n : Nat)
    (hs : 0 ≤ s) (hg : ∀ g G', G = g :: G' → s ≤ (g.length : Int)) :
    readLoop (A ++ G ++ R) true (List.range' A.length G.length) s n =
      .ok ((G.flatten.drop s.toNat).take n) := by
  induction G generalizing A s n with
  | nil => simp [readLoop]
  | cons g G ih =>
    have hsg : s ≤ (g.length : Int) := hg g G rfl
    have hlt : ¬ s < 0 := by omega
    have hget : (A ++ g :: (G ++ R)).getD A.length [] = g := by
      simp [List.getD_eq_getElem?_getD]
    have hih := ih (A ++ [g]) 0 (n - ((g.drop s.toNat).take n).length) (by omega)
      (fun g' G' _ => Int.natCast_nonneg _)
    simp only [List.append_assoc, List.singleton_append, List.length_append, List.length_cons,
      List.length_nil, Nat.zero_add] at hih
    simp only [List.length_cons, List.range'_succ, readLoop, Bool.not_true, Bool.false_eq_true,
      if_false, hlt, hget, List.append_assoc, List.cons_append] at hih ⊢
    rw [hih]
    simp only [bind, Except.bind, pure, Except.pure, List.flatten_cons, Int.toNat_zero,
      List.drop_zero]
    congr 1
    have hle : s.toNat ≤ g.length := by omega
    rw [List.drop_append_of_le_length hle, List.take_append]
    congr 2
    simp only [List.length_take, List.length_drop]
    omega

/-! ### `seek_to` -/

theorem seekTo_decomp (As : List Nat) (s : Nat) (Bs : List Nat) (L : Nat) (i : Int) (k : Nat)
    (last : Int)
    (h1 : (As.sum : Int) ≤ i * (L : Int)) (h2 : i * (L : Int) < (As.sum : Int) + (s : Int))
    (h0 : 0 < k → (As.sum : Int) + (s : Int) ≤ last) (hlast : last ≤ i * (L : Int) + (L : Int) - 1) :
    seekTo (As ++ s :: Bs) L (i * (L : Int)) (List.range' As.length (k + 1)) =
      .ok (i * (L : Int) - (As.sum : Int)) := by
  have hA : (0 : Int) ≤ (As.sum : Int) := Int.natCast_nonneg _
  have hlook : lookupFile (As ++ s :: Bs) As.length = .ok (As.sum, s) := by
    simp [lookupFile]
  cases k with
  | zero =>
    simp only [Nat.zero_add, List.range'_succ, List.range'_zero, seekTo, getFilePosition, hlook,
      bind, Except.bind, pure, Except.pure]
  | succ k =>
    have hle := h0 (Nat.succ_pos k)
    have hm : ((As.sum : Int) + (s : Int)) % (L : Int) = (As.sum : Int) + (s : Int) - i * (L : Int) := by
      have h := Int.add_mul_emod_self_right ((As.sum : Int) + (s : Int) - i * (L : Int)) i (L : Int)
      rw [Int.emod_eq_of_lt (a := (As.sum : Int) + (s : Int) - i * (L : Int)) (by omega)
        (by omega)] at h
      have e : (As.sum : Int) + (s : Int) - i * (L : Int) + i * (L : Int) = (As.sum : Int) + (s : Int) := by
        omega
      rw [e] at h
      exact h
    have hpos : i * (L : Int) ≥ 0 := by omega
    have hf : fileAtPosLoop (i * (L : Int)) (As ++ s :: Bs) 0 = some As.length :=
      fapl_decomp (i * (L : Int)) s Bs As 0 (by omega) (by omega)
    simp only [List.range'_succ, seekTo, getFileAtPosition, hpos, if_true, hf, hlook,
      bind, Except.bind, pure, Except.pure, hm]
    congr 1
    omega

/-! ### the slice -/

theorem slice_lemma (X Y Z : List α) (p L : Nat) (h1 : X.length ≤ p)
    (h2 : p ≤ X.length + Y.length) (h3 : Z = [] ∨ p + L ≤ X.length + Y.length) :
    ((X ++ Y ++ Z).drop p).take L = (Y.drop (p - X.length)).take L := by
  rw [List.append_assoc, List.drop_append, List.drop_eq_nil_of_le h1, List.nil_append,
    List.drop_append_of_le_length (by omega), List.take_append]
  rcases h3 with h | h
  · subst h; simp
  · have : L - (Y.drop (p - X.length)).length = 0 := by
      simp only [List.length_drop]; omega
    rw [this]; simp

theorem pos_of_noEmpty (X : List (List α)) (h : ∀ f ∈ X, f ≠ []) :
    ∀ t ∈ X.map List.length, 0 < t := by
  intro t ht
  simp only [List.mem_map] at ht
  obtain ⟨f, hf, rfl⟩ := ht
  exact List.length_pos_iff.mpr (h f hf)

theorem total_cast (files : List (List α)) :
    total (files.map List.length) = files.flatten.length := by
  simp [total, List.length_flatten]

/-! ### assembling `get_piece` -/

theorem getPiece_core (files : List (List α)) (L : Nat) (i : Int) (hL : 0 < L)
    (hne : NoEmptyFiles files) (hi : 0 ≤ i)
    (hlt : i * (L : Int) < (files.flatten.length : Int)) :
    ∃ rel st, rel ≠ [] ∧
      getFilesAtByteRange (files.map List.length) (i * (L : Int))
        (min (i * (L : Int) + (L : Int) - 1) ((total (files.map List.length) : Int) - 1))
          = .ok rel ∧
      seekTo (files.map List.length) L (i * (L : Int)) rel = .ok st ∧
      readLoop files true rel st L = .ok ((files.flatten.drop (i.toNat * L)).take L) := by
  rw [total_cast]
  obtain ⟨P, hPdef⟩ : ∃ P, P = i.toNat * L := ⟨_, rfl⟩
  have hP : (P : Int) = i * (L : Int) := by
    rw [hPdef, Int.natCast_mul, Int.toNat_of_nonneg hi]
  rw [← hPdef]
  obtain ⟨A, f, B, rfl, hA1, hA2⟩ := exists_owner_files files P (by omega)
  have hposA : ∀ t ∈ A.map List.length, 0 < t :=
    pos_of_noEmpty A (fun g hg => hne g (by simp [hg]))
  have hposB : ∀ t ∈ B.map List.length, 0 < t :=
    pos_of_noEmpty B (fun g hg => hne g (by simp [hg]))
  have hsizes : (A ++ f :: B).map List.length = A.map List.length ++ f.length :: B.map List.length := by
    simp
  have hAlen : (A.map List.length).sum = A.flatten.length := by rw [List.length_flatten]
  have hTlen : (A ++ f :: B).flatten.length
      = A.flatten.length + (f.length + B.flatten.length) := by simp
  rw [hsizes]
  have hab : i * (L : Int) ≤ min (i * (L : Int) + (L : Int) - 1)
      (((A ++ f :: B).flatten.length : Int) - 1) := by omega
  obtain ⟨k, hk, hrel, h0, h3⟩ := brl_decomp (i * (L : Int)) _ hab (A.map List.length) f.length
    (B.map List.length) hposA hposB (by rw [hAlen]; omega) (by rw [hAlen]; omega)
  refine ⟨List.range' (A.map List.length).length (k + 1),
    i * (L : Int) - ((A.map List.length).sum : Int), by simp [List.range'_succ], ?_, ?_, ?_⟩
  · simp only [getFilesAtByteRange, hab, if_true, hrel]
  · exact seekTo_decomp _ _ _ L i k _ (by rw [hAlen]; omega) (by rw [hAlen]; omega) h0 (by omega)
  · simp only [List.length_map] at hk
    have hfiles : A ++ f :: B = A ++ (f :: B.take k) ++ B.drop k := by
      simp [List.take_append_drop]
    have hlenG : (f :: B.take k).length = k + 1 := by
      simp only [List.length_cons, List.length_take]; omega
    have hr := readLoop_consec (B.drop k) (f :: B.take k) A
      (i * (L : Int) - ((A.map List.length).sum : Int)) L (by rw [hAlen]; omega)
      (by
        intro g G' hg
        simp only [List.cons.injEq] at hg
        rw [← hg.1, hAlen]; omega)
    rw [hlenG, ← hfiles] at hr
    rw [List.length_map, hr]
    congr 1
    have hst : (i * (L : Int) - ((A.map List.length).sum : Int)).toNat = P - A.flatten.length := by
      rw [hAlen]; omega
    rw [hst, hfiles, List.flatten_append, List.flatten_append]
    have hG : (f :: B.take k).flatten.length
        = f.length + ((B.map List.length).take k).sum := by
      simp [List.length_flatten, List.map_take]
    have hB : B.flatten.length = ((B.map List.length).take k).sum + (B.drop k).flatten.length := by
      have e : B.flatten = (B.take k).flatten ++ (B.drop k).flatten := by
        rw [← List.flatten_append, List.take_append_drop]
      rw [e, List.length_append, List.length_flatten (L := B.take k), List.map_take]
    symm
    apply slice_lemma
    · exact hA1
    · rw [hG]; omega
    · by_cases hkB : k < B.length
      · have h4 := h3 (by simpa using hkB)
        rw [hAlen] at h4
        by_cases hc : i * (L : Int) + (L : Int) - 1 ≤ ((A ++ f :: B).flatten.length : Int) - 1
        · right; rw [hG]; omega
        · left
          have : (B.drop k).flatten.length = 0 := by omega
          exact List.eq_nil_of_length_eq_zero this
      · left
        have : B.drop k = [] := List.drop_eq_nil_of_le (by omega)
        rw [this]; rfl

theorem range_check (sizes : List Nat) (L : Nat) (i : Int) (hL : 0 < L) :
    (decide (0 ≤ i) && decide (i ≤ floorDiv ((total sizes : Int) - 1) L))
      = GeomSpec.validPiece sizes L i := by
  have hL' : (0 : Int) < (L : Int) := by omega
  simp only [GeomSpec.validPiece, floorDiv, GeomSpec.total, total, Int.le_ediv_iff_mul_le hL']
  congr 2
  apply propext
  omega

theorem exp_lemma (T L : Nat) (i : Int) (hi : 0 ≤ i) (hlt : i * (L : Int) < (T : Int)) :
    ((min L (T - i.toNat * L) : Nat) : Int) =
      if min (i * (L : Int) + (L : Int) - 1) ((T : Int) - 1) = (T : Int) - 1 then
        (if (T : Int) % (L : Int) = 0 then (L : Int) else (T : Int) % (L : Int))
      else (L : Int) := by
  obtain ⟨P, hPdef⟩ : ∃ P, P = i.toNat * L := ⟨_, rfl⟩
  have hP : (P : Int) = i * (L : Int) := by
    rw [hPdef, Int.natCast_mul, Int.toNat_of_nonneg hi]
  rw [← hPdef]
  have hmod : (T : Int) % (L : Int) = ((T : Int) - i * (L : Int)) % (L : Int) := by
    have h := Int.add_mul_emod_self_right ((T : Int) - i * (L : Int)) i (L : Int)
    have e : (T : Int) - i * (L : Int) + i * (L : Int) = (T : Int) := by omega
    rw [e] at h
    exact h
  by_cases h1 : i * (L : Int) + (L : Int) < (T : Int)
  · have : ¬ (min (i * (L : Int) + (L : Int) - 1) ((T : Int) - 1) = (T : Int) - 1) := by omega
    rw [if_neg this]; omega
  · have : min (i * (L : Int) + (L : Int) - 1) ((T : Int) - 1) = (T : Int) - 1 := by omega
    rw [if_pos this]
    by_cases h2 : (T : Int) - i * (L : Int) = (L : Int)
    · have h0 : (T : Int) % (L : Int) = 0 := by rw [hmod, h2, Int.emod_self]
      rw [if_pos h0]; omega
    · have h3 : (T : Int) % (L : Int) = (T : Int) - i * (L : Int) := by
        rw [hmod, Int.emod_eq_of_lt (by omega) (by omega)]
      have h0 : ¬ ((T : Int) % (L : Int) = 0) := by rw [h3]; omega
      rw [if_neg h0, h3]; omega

theorem validPiece_iff (files : List (List α)) (L : Nat) (i : Int) :
    GeomSpec.validPiece (files.map List.length) L i = true ↔
      (0 ≤ i ∧ i * (L : Int) < (files.flatten.length : Int)) := by
  rw [List.length_flatten]
  unfold GeomSpec.validPiece GeomSpec.total
  rw [Bool.and_eq_true, decide_eq_true_iff, decide_eq_true_iff]

theorem getPiece_oor (files : List (List α)) (L : Nat) (hp : Bool) (i : Int) (hL : 0 < L)
    (hv : ¬ GeomSpec.validPiece (files.map List.length) L i = true) :
    Geometry.getPiece files L hp i = .error .value := by
  simp only [getPiece, range_check _ L i hL, hv]
  rfl

theorem getPiece_spec (files : List (List α)) (L : Nat) (i : Int) (hL : 0 < L)
    (hne : NoEmptyFiles files) :
    Geometry.getPiece files L true i = GeomSpec.piece files L i := by
  by_cases hv : GeomSpec.validPiece (files.map List.length) L i = true
  · obtain ⟨hi, hlt⟩ := (validPiece_iff files L i).mp hv
    obtain ⟨rel, st, _, h1, h2, h3⟩ := getPiece_core files L i hL hne hi hlt
    have h4 : (((files.flatten.drop (i.toNat * L)).take L).length : Int) =
        if min (i * (L : Int) + (L : Int) - 1) ((total (files.map List.length) : Int) - 1)
            = (total (files.map List.length) : Int) - 1 then
          (if (total (files.map List.length) : Int) % (L : Int) = 0 then (L : Int)
            else (total (files.map List.length) : Int) % (L : Int))
        else (L : Int) := by
      rw [List.length_take, List.length_drop, total_cast]
      exact exp_lemma files.flatten.length L i hi hlt
    simp only [getPiece, GeomSpec.piece, range_check _ L i hL, hv, h1, h2, h3, bind, Except.bind,
      h4]
    rfl
  · rw [getPiece_oor files L true i hL hv]
    simp only [GeomSpec.piece, hv]
    rfl

theorem getPiece_noPath (files : List (List α)) (L : Nat) (i : Int) (hL : 0 < L)
    (hne : NoEmptyFiles files) :
    Geometry.getPiece files L false i = .error .value := by
  by_cases hv : GeomSpec.validPiece (files.map List.length) L i = true
  · obtain ⟨hi, hlt⟩ := (validPiece_iff files L i).mp hv
    obtain ⟨rel, st, hrel, h1, h2, _⟩ := getPiece_core files L i hL hne hi hlt
    obtain ⟨j, rest, rfl⟩ := List.exists_cons_of_ne_nil hrel
    simp only [getPiece, range_check _ L i hL, hv, h1, h2, bind, Except.bind, readLoop]
    simp
  · exact getPiece_oor files L false i hL hv

theorem toNat_mul_lt_iff (L T : Nat) (i : Int) (hi : 0 ≤ i) :
    i.toNat * L < T ↔ i * (L : Int) < (T : Int) := by
  have hP : ((i.toNat * L : Nat) : Int) = i * (L : Int) := by
    rw [Int.natCast_mul, Int.toNat_of_nonneg hi]
  omega

theorem getPiece_eq_iter (files : List (List α)) (L : Nat) (i : Int) (p : List α) (hL : 0 < L)
    (hne : NoEmptyFiles files) :
    Geometry.getPiece files L true i = .ok p ↔
      (0 ≤ i ∧ (Stream.iterPieces L files)[i.toNat]? = some p) := by
  rw [getPiece_spec files L i hL hne, Stream.iterPieces_eq_chunks L hL, getElem?_chunks L hL]
  by_cases hv : GeomSpec.validPiece (files.map List.length) L i = true
  · obtain ⟨hi, hlt⟩ := (validPiece_iff files L i).mp hv
    have hlt' := (toNat_mul_lt_iff L files.flatten.length i hi).mpr hlt
    simp only [GeomSpec.piece, hv, if_true, hlt', hi, true_and, Except.ok.injEq, Option.some.injEq]
  · simp only [GeomSpec.piece, hv]
    constructor
    · intro h; cases h
    · rintro ⟨hi, h⟩
      have hnlt : ¬ i.toNat * L < files.flatten.length := by
        intro hc
        exact hv ((validPiece_iff files L i).mpr ⟨hi, (toNat_mul_lt_iff L _ i hi).mp hc⟩)
      rw [if_neg hnlt] at h
      cases h

theorem getPieceHash_spec (H : List α → δ) (files : List (List α)) (L : Nat) (i : Int) (hL : 0 < L)
    (hne : NoEmptyFiles files) :
    Geometry.getPieceHash H files L true i = GeomSpec.pieceHash H files L i := by
  simp only [getPieceHash, GeomSpec.pieceHash, getPiece_spec files L i hL hne]
  cases GeomSpec.piece files L i <;> rfl

theorem storedHash_cases (stored : List δ) (i : Int) :
    storedHash stored i = .error .value ∨ ∃ h, storedHash stored i = .ok h := by
  unfold storedHash
  simp only
  split
  · exact Or.inl rfl
  · split
    · exact Or.inr ⟨_, rfl⟩
    · exact Or.inl rfl

theorem verifyPiece_spec [BEq δ] (H : List α → δ) (stored : List δ) (files : List (List α)) (L : Nat)
    (i : Int) (hL : 0 < L) (hne : NoEmptyFiles files) :
    Geometry.verifyPiece H stored files L true i = GeomSpec.verifyPiece H stored files L i := by
  simp only [Geometry.verifyPiece, GeomSpec.verifyPiece, getPieceHash_spec H files L i hL hne,
    GeomSpec.pieceHash]
  by_cases hv : GeomSpec.validPiece (files.map List.length) L i = true
  · obtain ⟨hi, _⟩ := (validPiece_iff files L i).mp hv
    have hp : GeomSpec.piece files L i = .ok ((files.flatten.drop (i.toNat * L)).take L) := by
      simp only [GeomSpec.piece, hv, if_true]
    rw [hp]
    by_cases hn : i ≥ (stored.length : Int)
    · have hnone : stored[i.toNat]? = none := List.getElem?_eq_none (by omega)
      simp only [storedHash, hn, true_or, if_true, hnone, bind, Except.bind]
    · have hc : ¬ (i ≥ (stored.length : Int) ∨ i < -(stored.length : Int)) := by omega
      have hlt : i.toNat < stored.length := by omega
      have hge : i ≥ 0 := hi
      simp only [storedHash, hc, if_false, hge, if_true, List.getElem?_eq_getElem hlt, bind,
        Except.bind, pure, Except.pure]
  · have hp : GeomSpec.piece files L i = .error .value := by
      simp only [GeomSpec.piece, hv]
      rfl
    rw [hp]
    simp only [bind, Except.bind]
    rcases storedHash_cases stored i with h | ⟨h, hh⟩
    · rw [h]
    · rw [hh]

end Torf.GeomLemmas
