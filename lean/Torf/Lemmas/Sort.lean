/-
  Torf.Lemmas.Sort — facts about the insertion sort `Torf.sortBy` (Torf/Base/Sort.lean):
  it permutes its input, its result is pairwise ordered for a total transitive `le`
  (hypotheses only needed on the members of the list), and therefore it is determined by the
  multiset of its input whenever `le` is antisymmetric on the members.
-/
import Torf.Base.Sort
namespace Torf

theorem insertBy_perm (le : α → α → Bool) (a : α) (l : List α) :
    (insertBy le a l).Perm (a :: l) := by
  induction l with
  | nil => exact List.Perm.refl _
  | cons b l ih =>
    unfold insertBy
    split
    · exact List.Perm.refl _
    · exact (List.Perm.cons b ih).trans (List.Perm.swap a b l)

theorem sortBy_perm (le : α → α → Bool) (l : List α) : (sortBy le l).Perm l := by
  induction l with
  | nil => exact List.Perm.refl _
  | cons a l ih =>
    unfold sortBy
    exact (insertBy_perm le a _).trans (List.Perm.cons a ih)

theorem mem_sortBy {le : α → α → Bool} {l : List α} {x : α} : x ∈ sortBy le l ↔ x ∈ l :=
  (sortBy_perm le l).mem_iff

theorem length_sortBy (le : α → α → Bool) (l : List α) : (sortBy le l).length = l.length :=
  (sortBy_perm le l).length_eq

theorem mem_insertBy {le : α → α → Bool} {a x : α} {l : List α} :
    x ∈ insertBy le a l ↔ x = a ∨ x ∈ l := by
  rw [(insertBy_perm le a l).mem_iff, List.mem_cons]

/-- local version: transitivity/totality are only needed on the elements involved -/
theorem insertBy_pairwise (le : α → α → Bool) (a : α) (l : List α)
    (htrans : ∀ x ∈ a :: l, ∀ y ∈ a :: l, ∀ z ∈ a :: l, le x y = true → le y z = true → le x z = true)
    (htotal : ∀ x ∈ a :: l, ∀ y ∈ a :: l, le x y = true ∨ le y x = true)
    (h : l.Pairwise (fun x y => le x y = true)) :
    (insertBy le a l).Pairwise (fun x y => le x y = true) := by
  induction l with
  | nil => simp [insertBy]
  | cons b l ih =>
    unfold insertBy
    have hb := List.pairwise_cons.mp h
    split
    · rename_i hab
      refine List.pairwise_cons.mpr ⟨?_, h⟩
      intro y hy
      rcases List.mem_cons.mp hy with rfl | hy
      · exact hab
      · exact htrans a (by simp) b (by simp) y (by simp [hy]) hab (hb.1 y hy)
    · rename_i hab
      have hba : le b a = true := by
        rcases htotal a (by simp) b (by simp) with h1 | h1
        · exact absurd h1 hab
        · exact h1
      refine List.pairwise_cons.mpr ⟨?_, ?_⟩
      · intro y hy
        rcases mem_insertBy.mp hy with rfl | hy
        · exact hba
        · exact hb.1 y hy
      · apply ih
        · intro x hx y hy z hz
          exact htrans x (by rcases List.mem_cons.mp hx with rfl | hx <;> simp [*])
            y (by rcases List.mem_cons.mp hy with rfl | hy <;> simp [*])
            z (by rcases List.mem_cons.mp hz with rfl | hz <;> simp [*])
        · intro x hx y hy
          exact htotal x (by rcases List.mem_cons.mp hx with rfl | hx <;> simp [*])
            y (by rcases List.mem_cons.mp hy with rfl | hy <;> simp [*])
        · exact hb.2

theorem sortBy_pairwise_of_mem (le : α → α → Bool) (l : List α)
    (htrans : ∀ x ∈ l, ∀ y ∈ l, ∀ z ∈ l, le x y = true → le y z = true → le x z = true)
    (htotal : ∀ x ∈ l, ∀ y ∈ l, le x y = true ∨ le y x = true) :
    (sortBy le l).Pairwise (fun x y => le x y = true) := by
  induction l with
  | nil => simp [sortBy]
  | cons a l ih =>
    unfold sortBy
    have sub : ∀ x, x ∈ a :: sortBy le l → x ∈ a :: l := by
      intro x hx
      rcases List.mem_cons.mp hx with rfl | hx
      · simp
      · exact List.mem_cons_of_mem _ (mem_sortBy.mp hx)
    apply insertBy_pairwise
    · intro x hx y hy z hz
      exact htrans x (sub x hx) y (sub y hy) z (sub z hz)
    · intro x hx y hy
      exact htotal x (sub x hx) y (sub y hy)
    · apply ih
      · intro x hx y hy z hz
        exact htrans x (List.mem_cons_of_mem _ hx) y (List.mem_cons_of_mem _ hy)
          z (List.mem_cons_of_mem _ hz)
      · intro x hx y hy
        exact htotal x (List.mem_cons_of_mem _ hx) y (List.mem_cons_of_mem _ hy)

theorem sortBy_pairwise (le : α → α → Bool)
    (htrans : ∀ x y z, le x y = true → le y z = true → le x z = true)
    (htotal : ∀ x y, le x y = true ∨ le y x = true) (l : List α) :
    (sortBy le l).Pairwise (fun x y => le x y = true) :=
  sortBy_pairwise_of_mem le l (fun x _ y _ z _ => htrans x y z) (fun x _ y _ => htotal x y)

/-- a sorted permutation is unique when `le` is antisymmetric on the members -/
theorem sortBy_eq_of_perm (le : α → α → Bool) (l₁ l₂ : List α) (hp : l₁.Perm l₂)
    (htrans : ∀ x ∈ l₁, ∀ y ∈ l₁, ∀ z ∈ l₁, le x y = true → le y z = true → le x z = true)
    (htotal : ∀ x ∈ l₁, ∀ y ∈ l₁, le x y = true ∨ le y x = true)
    (hanti : ∀ x ∈ l₁, ∀ y ∈ l₁, le x y = true → le y x = true → x = y) :
    sortBy le l₁ = sortBy le l₂ := by
  have m : ∀ x, x ∈ l₂ → x ∈ l₁ := fun x hx => hp.mem_iff.mpr hx
  apply List.Perm.eq_of_pairwise (le := fun x y => le x y = true)
  · intro a b ha hb
    exact hanti a (mem_sortBy.mp ha) b (m b (mem_sortBy.mp hb))
  · exact sortBy_pairwise_of_mem le l₁ htrans htotal
  · exact sortBy_pairwise_of_mem le l₂
      (fun x hx y hy z hz => htrans x (m x hx) y (m y hy) z (m z hz))
      (fun x hx y hy => htotal x (m x hx) y (m y hy))
  · exact (sortBy_perm le l₁).trans (hp.trans (sortBy_perm le l₂).symm)

/-- a pairwise-ordered list is a fixed point -/
theorem sortBy_eq_self_of_pairwise (le : α → α → Bool) (l : List α)
    (h : l.Pairwise (fun x y => le x y = true)) : sortBy le l = l := by
  induction l with
  | nil => rfl
  | cons a l ih =>
    have hb := List.pairwise_cons.mp h
    unfold sortBy
    rw [ih hb.2]
    cases l with
    | nil => rfl
    | cons b l => unfold insertBy; rw [if_pos (hb.1 b (by simp))]

end Torf
