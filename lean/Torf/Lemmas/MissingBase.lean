/-
  Helper lemmas for C10 (part 1): generic list / chunk facts, file positions, the expected stream.
-/
import Torf.Lemmas.Stream
import Torf.Spec.Missing
namespace Torf.Missing
open Torf

/-! ### chunks -/

theorem chunks_take (L : Nat) (hL : 0 < L) (q : Nat) (xs : List α) :
    (chunks L xs).take q = chunks L (xs.take (q * L)) := by
  induction q generalizing xs with
  | zero => simp
  | succ q ih =>
    by_cases hne : xs = []
    · subst hne; simp
    · have hpos : 0 < xs.length := List.length_pos_iff.mpr hne
      have hne2 : xs.take ((q + 1) * L) ≠ [] := by
        intro h
        have h1 : (xs.take ((q + 1) * L)).length = 0 := by rw [h]; rfl
        rw [List.length_take, Nat.succ_mul] at h1
        omega
      rw [chunks_cons_of_ne L hL xs hne, chunks_cons_of_ne L hL _ hne2, List.take_succ_cons, ih]
      have e1 : (xs.take ((q + 1) * L)).take L = xs.take L := by
        rw [List.take_take]; congr 1; rw [Nat.succ_mul]; omega
      have e2 : (xs.take ((q + 1) * L)).drop L = (xs.drop L).take (q * L) := by
        rw [List.drop_take]; congr 1; rw [Nat.succ_mul]; omega
      rw [e1, e2]

theorem chunks_drop (L : Nat) (hL : 0 < L) (q : Nat) (xs : List α) :
    (chunks L xs).drop q = chunks L (xs.drop (q * L)) := by
  induction q generalizing xs with
  | zero => simp
  | succ q ih =>
    by_cases hne : xs = []
    · subst hne; simp
    · rw [chunks_cons_of_ne L hL xs hne, List.drop_succ_cons, ih, List.drop_drop]
      congr 2; rw [Nat.succ_mul]; omega

theorem chunks_map (L : Nat) (hL : 0 < L) (f : α → β) (xs : List α) :
    chunks L (xs.map f) = (chunks L xs).map (List.map f) := by
  apply List.ext_getElem?
  intro i
  rw [List.getElem?_map, getElem?_chunks L hL, getElem?_chunks L hL]
  simp only [List.length_map]
  split
  · simp [List.map_drop, List.map_take]
  · simp

theorem nPieces_mul (L : Nat) (hL : 0 < L) (c : Nat) : nPieces L (c * L) = c := by
  unfold nPieces
  apply Nat.div_eq_of_lt_le
  · omega
  · rw [Nat.succ_mul]; omega

theorem nPieces_le_of_le_mul (L : Nat) (hL : 0 < L) (T q : Nat) (h : T ≤ q * L) :
    nPieces L T ≤ q := by
  unfold nPieces
  have : (T + L - 1) / L < q + 1 := by
    rw [Nat.div_lt_iff_lt_mul hL, Nat.succ_mul]; omega
  omega

/-! ### chunkData -/

theorem chunkData_map_some (c : List α) : chunkData (c.map some) = some c := by
  unfold chunkData
  simp [List.filterMap_map]

theorem chunkData_eq_none (c : List (Option α)) (h : none ∈ c) : chunkData c = none := by
  unfold chunkData
  have : c.all Option.isSome = false := by
    rw [List.all_eq_false]
    exact ⟨none, h, by simp⟩
  simp [this]

/-! ### slices -/

theorem slice_add (l : List α) (a b c : Nat) (hab : a ≤ b) (hbc : b ≤ c) (hc : c ≤ l.length) :
    (l.take c).drop a = (l.take b).drop a ++ (l.take c).drop b := by
  have h1 : l.take c = l.take b ++ (l.take c).drop b := by
    have := (List.take_append_drop b (l.take c)).symm
    rwa [List.take_take, Nat.min_eq_left hbc] at this
  conv => lhs; rw [h1]
  rw [List.drop_append_of_le_length (by rw [List.length_take]; omega)]

/-! ### positions -/

theorem pos_zero (sizes : List Nat) : pos sizes 0 = 0 := by simp [pos]

theorem pos_succ (sizes : List Nat) (j : Nat) :
    pos sizes (j + 1) = pos sizes j + sizeOf sizes j := by
  unfold pos sizeOf
  rw [List.take_add_one, List.sum_append]
  congr 1
  rw [List.getD_eq_getElem?_getD]
  cases sizes[j]? <;> simp

theorem pos_mono (sizes : List Nat) {j k : Nat} (h : j ≤ k) : pos sizes j ≤ pos sizes k := by
  induction k with
  | zero => have : j = 0 := by omega
            subst this; exact Nat.le_refl _
  | succ k ih =>
    by_cases hjk : j = k + 1
    · subst hjk; exact Nat.le_refl _
    · have := ih (by omega)
      rw [pos_succ]; omega

theorem pos_length (sizes : List Nat) : pos sizes sizes.length = sizes.sum := by
  simp [pos]

theorem pos_le_sum (sizes : List Nat) (k : Nat) : pos sizes k ≤ sizes.sum := by
  by_cases h : k ≤ sizes.length
  · rw [← pos_length]; exact pos_mono sizes h
  · unfold pos
    rw [List.take_of_length_le (by omega)]
    exact Nat.le_refl _

/-! ### the expected stream -/

theorem length_expFile (sizes : List Nat) (disk : List (Option (List α))) (k : Nat) :
    (expFile sizes disk k).length = sizeOf sizes k := by
  unfold expFile
  split
  · rename_i h
    unfold fileError at h
    split at h
    · cases h
    · rename_i c hc
      split at h
      · rename_i hl
        rw [hc]; simpa using hl
      · cases h
  · simp

theorem expFile_good (sizes : List Nat) (disk : List (Option (List α))) (k : Nat)
    (h : fileError sizes disk k = none) :
    expFile sizes disk k = ((disk.getD k none).getD []).map some ∧
      ((disk.getD k none).getD []).length = sizeOf sizes k := by
  have hl := length_expFile sizes disk k
  unfold expFile at hl ⊢
  simp only [h] at hl ⊢
  refine ⟨trivial, ?_⟩
  simpa using hl

theorem expFile_bad (sizes : List Nat) (disk : List (Option (List α))) (k : Nat)
    (h : fileError sizes disk k ≠ none) :
    expFile sizes disk k = List.replicate (sizeOf sizes k) none := by
  unfold expFile
  split
  · rename_i h'; exact absurd h' h
  · rfl

/-- expected stream of the first `k` files -/
def expPre (sizes : List Nat) (disk : List (Option (List α))) (k : Nat) : List (Option α) :=
  ((List.range k).map (expFile sizes disk)).flatten

theorem expPre_succ (sizes : List Nat) (disk : List (Option (List α))) (k : Nat) :
    expPre sizes disk (k + 1) = expPre sizes disk k ++ expFile sizes disk k := by
  simp [expPre, List.range_succ]

theorem length_expPre (sizes : List Nat) (disk : List (Option (List α))) (k : Nat) :
    (expPre sizes disk k).length = pos sizes k := by
  induction k with
  | zero => simp [expPre, pos_zero]
  | succ k ih => rw [expPre_succ, List.length_append, ih, length_expFile, pos_succ]

theorem expPre_prefix (sizes : List Nat) (disk : List (Option (List α))) (k d : Nat) :
    expPre sizes disk k <+: expPre sizes disk (k + d) := by
  induction d with
  | zero => exact List.prefix_refl _
  | succ d ih =>
    rw [← Nat.add_assoc, expPre_succ]
    exact ih.trans (List.prefix_append _ _)

theorem expStream_eq (sizes : List Nat) (disk : List (Option (List α))) :
    expStream sizes disk = expPre sizes disk sizes.length := rfl

theorem length_expStream (sizes : List Nat) (disk : List (Option (List α))) :
    (expStream sizes disk).length = sizes.sum := by
  rw [expStream_eq, length_expPre, pos_length]

theorem take_pos_expStream (sizes : List Nat) (disk : List (Option (List α))) (k : Nat)
    (hk : k ≤ sizes.length) :
    (expStream sizes disk).take (pos sizes k) = expPre sizes disk k := by
  have hp := expPre_prefix sizes disk k (sizes.length - k)
  rw [show k + (sizes.length - k) = sizes.length by omega, ← expStream_eq] at hp
  rw [List.prefix_iff_eq_take] at hp
  rw [length_expPre] at hp
  exact hp.symm

theorem take_pos_succ_expStream (sizes : List Nat) (disk : List (Option (List α))) (k : Nat)
    (hk : k < sizes.length) :
    (expStream sizes disk).take (pos sizes (k + 1)) =
      (expStream sizes disk).take (pos sizes k) ++ expFile sizes disk k := by
  rw [take_pos_expStream sizes disk (k + 1) hk, take_pos_expStream sizes disk k (by omega),
    expPre_succ]

/-- a byte of a bad file is unknown in the expected stream -/
theorem expStream_getElem?_bad (sizes : List Nat) (disk : List (Option (List α))) (k : Nat)
    (hk : k < sizes.length) (hbad : fileError sizes disk k ≠ none) (y : Nat)
    (h1 : pos sizes k ≤ y) (h2 : y < pos sizes (k + 1)) :
    (expStream sizes disk)[y]? = some none := by
  have e : (expStream sizes disk)[y]? = ((expStream sizes disk).take (pos sizes (k + 1)))[y]? := by
    rw [List.getElem?_take_of_lt h2]
  rw [e, take_pos_succ_expStream sizes disk k hk]
  have hl : ((expStream sizes disk).take (pos sizes k)).length = pos sizes k := by
    rw [take_pos_expStream sizes disk k (by omega), length_expPre]
  rw [List.getElem?_append_right (by omega), hl, expFile_bad sizes disk k hbad]
  rw [pos_succ] at h2
  rw [List.getElem?_replicate]
  simp; omega

/-! ### specData -/

theorem length_specData (L : Nat) (hL : 0 < L) (sizes : List Nat) (disk : List (Option (List α))) :
    (specData L sizes disk).length = nPieces L sizes.sum := by
  unfold specData
  rw [List.length_map, length_chunks L hL, length_expStream]

theorem specData_take (L : Nat) (hL : 0 < L) (sizes : List Nat) (disk : List (Option (List α)))
    (q : Nat) :
    (specData L sizes disk).take q =
      (chunks L ((expStream sizes disk).take (q * L))).map chunkData := by
  unfold specData
  rw [← List.map_take, chunks_take L hL]

theorem specData_drop (L : Nat) (hL : 0 < L) (sizes : List Nat) (disk : List (Option (List α)))
    (q : Nat) :
    (specData L sizes disk).drop q =
      (chunks L ((expStream sizes disk).drop (q * L))).map chunkData := by
  unfold specData
  rw [← List.map_drop, chunks_drop L hL]

/-- piece `i` has no data if it contains an unknown byte -/
theorem specData_getElem?_none (L : Nat) (hL : 0 < L) (sizes : List Nat)
    (disk : List (Option (List α))) (i y : Nat)
    (h1 : i * L ≤ y) (h2 : y < i * L + L) (hy : (expStream sizes disk)[y]? = some none) :
    (specData L sizes disk)[i]? = some none := by
  have hylt : y < (expStream sizes disk).length := by
    rcases Nat.lt_or_ge y (expStream sizes disk).length with h | h
    · exact h
    · rw [List.getElem?_eq_none h] at hy; cases hy
  unfold specData
  rw [List.getElem?_map, getElem?_chunks L hL]
  have : i * L < (expStream sizes disk).length := by omega
  simp only [this, if_true, Option.map_some]
  congr 1
  apply chunkData_eq_none
  rw [List.mem_iff_getElem?]
  refine ⟨y - i * L, ?_⟩
  rw [List.getElem?_take_of_lt (by omega), List.getElem?_drop]
  rw [show i * L + (y - i * L) = y by omega]
  exact hy

end Torf.Missing
