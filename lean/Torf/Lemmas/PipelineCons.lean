/-
  Torf.Lemmas.PipelineCons — the conservation invariant of the pipeline (C03 clause (i)):
  the pieces in flight are a permutation of the pieces pushed so far; consequences: the
  collector's duplicate assertion never fires, the stored digests are the seen data pieces.
  Holds for every configuration (any N, cap, fault plan, callback).
-/
import Torf.Lemmas.PipelineBase
namespace Torf.Pipeline

/-- the exception main is carrying through its join phase / has raised -/
def mainExc : MPc → Option Exc
  | .joinReaderChk e | .joinReader e | .joinHasherChk _ _ e | .joinHasher _ _ e
  | .joinJanitorChk e | .joinJanitor e => e
  | .finished (.raised x) => some x
  | _ => none

def internalExc : Option Exc → Prop
  | some .assertion => True
  | some .index => True
  | _ => False

/-- hashers with a number ≥ this bound have not been started yet -/
def startBound : MPc → Option Nat
  | .startReaderChk | .startReader => some 0
  | .startHasherChk i | .startHasher i => some i
  | _ => none

structure InvA (cfg : Cfg) (s : State) : Prop where
  perm : (inFlight s).Perm (List.range (inFlight s).length)
  putting : ∀ k, s.rpc = .putting k → (inFlight s).length = k ∧ k < cfg.items.length
  early : s.rpc = .notStarted ∨ s.rpc = .refused ∨ s.rpc = .begin_ → inFlight s = []
  bound : (inFlight s).length ≤ cfg.items.length
  noInt : ¬ internalExc (mainExc s.main)
  coll : s.collected = s.seen.filter (isHashed cfg)
  rfresh : s.main = .startReaderChk ∨ s.main = .startReader → s.rpc = .notStarted
  fresh : ∀ b, startBound s.main = some b → ∀ j p, b ≤ j → s.hs[j]? = some p → p = .notStarted
  full : (s.rpc = .closing ∨ s.rpc = .done) → s.stop = false → s.rexc = false →
    (inFlight s).length = cfg.items.length

theorem inFlight_def (s : State) :
    inFlight s = s.seen ++ s.hq.filterMap id ++ s.hs.filterMap hk ++ s.pq.filterMap id := by
  rw [inFlight, held_eq]

theorem InvA.init (cfg : Cfg) : InvA cfg (init cfg) := by
  have h : inFlight (Pipeline.init cfg) = [] := by
    rw [inFlight_def]
    simp [Pipeline.init, hk]
  refine ⟨by rw [h]; simp, by simp [Pipeline.init], fun _ => h, by rw [h]; simp,
    by simp [Pipeline.init, mainExc, internalExc], by simp [Pipeline.init], by simp [Pipeline.init], ?_,
    by simp [Pipeline.init]⟩
  intro b _ j p _ hj
  simp only [Pipeline.init, List.getElem?_replicate] at hj
  split at hj <;> simp_all

/-- a step that only moves pieces around and leaves the reader alone -/
theorem InvA.of_perm {cfg : Cfg} {s s' : State} (h : InvA cfg s)
    (hp : (inFlight s').Perm (inFlight s)) (hr : s'.rpc = s.rpc)
    (hn : ¬ internalExc (mainExc s'.main))
    (hc : s'.collected = s'.seen.filter (isHashed cfg))
    (hrf : s'.main = .startReaderChk ∨ s'.main = .startReader → s'.rpc = .notStarted)
    (hf : ∀ b, startBound s'.main = some b → ∀ j p, b ≤ j → s'.hs[j]? = some p → p = .notStarted)
    (hsr : (s'.stop = false → s.stop = false) ∧ (s'.rexc = false → s.rexc = false) := by
      first | exact ⟨fun h => h, fun h => h⟩ | simp) :
    InvA cfg s' := by
  have hl := hp.length_eq
  refine ⟨?_, ?_, ?_, ?_, hn, hc, hrf, hf, ?_⟩
  rotate_right
  · intro h1 h2 h3; rw [hl]; exact h.full (hr ▸ h1) (hsr.1 h2) (hsr.2 h3)
  · rw [hl]; exact hp.trans h.perm
  · intro k hk; rw [hl]; exact h.putting k (hr ▸ hk)
  · intro he
    have := h.early (hr ▸ he)
    rw [this] at hp
    exact hp.eq_nil
  · rw [hl]; exact h.bound

theorem InvA.nodup {cfg : Cfg} {s : State} (h : InvA cfg s) : (inFlight s).Nodup :=
  (h.perm.nodup_iff).2 List.nodup_range

theorem InvA.lt {cfg : Cfg} {s : State} (h : InvA cfg s) {k : Nat} (hk : k ∈ inFlight s) :
    k < cfg.items.length := by
  have := (h.perm.mem_iff).1 hk
  have := h.bound
  simp at *
  omega

/-! ### main -/

/-- main takes piece `k` from the hash queue and records it -/
theorem InvA.collect {cfg : Cfg} {s s' : State} {k : Nat} {rest : List (Option Nat)} (h : InvA cfg s)
    (hq : s.hq = some k :: rest) (hq' : s'.hq = rest) (hseen : s'.seen = s.seen ++ [k])
    (hcoll : s'.collected = if isHashed cfg k then s.collected ++ [k] else s.collected)
    (hhs : s'.hs = s.hs) (hpq : s'.pq = s.pq) (hr : s'.rpc = s.rpc)
    (hm : startBound s'.main = none) (hn : ¬ internalExc (mainExc s'.main))
    (hst : s'.stop = false → s.stop = false) (hrx : s'.rexc = s.rexc) : InvA cfg s' := by
  refine h.of_perm ?_ hr hn ?_ ?_ ?_ ⟨hst, fun h => hrx ▸ h⟩
  · simp [inFlight_def, hq, hq', hseen, hhs, hpq]
  · rw [hcoll, hseen, h.coll]
    by_cases hk : isHashed cfg k <;> simp [hk]
  · intro hm'
    rcases hm' with hm' | hm' <;> simp [hm', startBound] at hm
  · intro b hb; simp [hm] at hb

theorem InvA.not_seen {cfg : Cfg} {s : State} {k : Nat} {rest : List (Option Nat)} (h : InvA cfg s)
    (hq : s.hq = some k :: rest) : k ∉ s.seen := by
  have := h.nodup
  rw [inFlight_def, hq] at this
  simp only [List.filterMap_cons, id, List.append_assoc] at this
  intro hk
  have := (List.nodup_append.1 this).2.2 k hk k (by simp)
  simp at this

theorem InvA.main {cfg : Cfg} {s s' : State} (h : InvA cfg s) (hs : stepMain cfg s = some s') :
    InvA cfg s' := by
  have hA := h
  obtain ⟨hperm, hput, hearly, hbound, hnoInt, hcoll, hrfresh, hfresh, hfull⟩ := h
  have hs0 := hs
  unfold stepMain at hs
  split at hs
  case h_2 hm =>
    have hr := hrfresh (Or.inr hm)
    have he := hearly (Or.inl hr)
    split at hs <;>
    · simp only [Option.some.injEq] at hs; subst hs
      have hi : ∀ r m, inFlight { s with rpc := r, main := m } = [] := by
        intro r m; rw [← he]; simp [inFlight_def]
      refine ⟨by simp [hi], by simp, fun _ => hi _ _, by simp [hi], by simp [mainExc, internalExc],
        hcoll, by simp, ?_, by simp⟩
      rw [hm] at hfresh
      simp only [startBound] at hfresh ⊢
      grind
  case h_7 hm =>
    split at hs
    · simp at hs
    · rename_i rest hq
      simp only [Option.some.injEq] at hs; subst hs
      refine hA.of_perm (by simp [inFlight_def, hq]) rfl (by simp [mainExc, internalExc]) hcoll
        (by simp) (by simp [startBound])
    · rename_i k rest hq
      have hns := hA.not_seen hq
      clear hs
      rw [stepMain_collect hm hq hns, Option.some.injEq] at hs0
      subst hs0
      unfold collectNext
      split
      · exact hA.collect hq rfl rfl rfl rfl rfl rfl rfl (by simp [mainExc, internalExc]) (by simp) rfl
      · split
        · exact hA.collect hq rfl rfl rfl rfl rfl rfl (by simp [collectItem, hm, startBound])
            (by simp [collectItem, hm, mainExc, internalExc]) (fun h => h) rfl
        · exact hA.collect hq rfl rfl rfl rfl rfl rfl (by simp [collectItem, hm, startBound])
            (by simp [collectItem, hm, mainExc, internalExc]) (by simp) rfl
        · exact hA.collect hq rfl rfl rfl rfl rfl rfl rfl (by simp [mainExc, internalExc]) (by simp) rfl
  all_goals
    rename_i hm
    rw [hm] at hfresh hnoInt hrfresh
    try simp only [startBound, mainExc] at hfresh hnoInt
    try simp only [afterReaderJoin, enterJoinHasher, finishWith, setHasher] at hs
    repeat' split at hs
  all_goals
    first
    | (simp at hs; done)
    | (simp only [Option.some.injEq] at hs; subst hs
       refine hA.of_perm ?_ rfl ?_ hcoll ?_ ?_
       · first
         | (simp [inFlight_def]; done)
         | (simp only [inFlight_def]
            refine (List.Perm.append_right _ (List.Perm.append_left _ (held_set_nn _ _ _ rfl ?_)))
            grind [hk])
       · simp_all [mainExc, internalExc]
       · simp_all
       · simp only [startBound]; grind)
    | skip

/-! ### reader -/

theorem inFlight_readerNext (cfg : Cfg) (t : State) (k : Nat) :
    inFlight (readerNext cfg t k) = inFlight t := by
  unfold readerNext
  split
  · simp [inFlight_def]
  · split
    · simp [inFlight_def]
    · split <;> simp [inFlight_def]

theorem InvA.readerNext {cfg : Cfg} {t : State} {k : Nat}
    (hperm : (inFlight t).Perm (List.range (inFlight t).length))
    (hlen : (inFlight t).length = k) (hb : k ≤ cfg.items.length)
    (hn : ¬ internalExc (mainExc t.main)) (hc : t.collected = t.seen.filter (isHashed cfg))
    (hm : t.main ≠ .startReaderChk ∧ t.main ≠ .startReader)
    (hf : ∀ b, startBound t.main = some b → ∀ j p, b ≤ j → t.hs[j]? = some p → p = .notStarted) :
    InvA cfg (readerNext cfg t k) := by
  have hi := inFlight_readerNext cfg t k
  have hmain := readerNext_main cfg t k
  have hcoll := readerNext_collected cfg t k
  have hseen := readerNext_seen cfg t k
  have hhs := readerNext_hs cfg t k
  have hstop := readerNext_stop cfg t k
  have hrpc : (Pipeline.readerNext cfg t k).rpc = .closing ∨
      ((Pipeline.readerNext cfg t k).rpc = .putting k ∧ k < cfg.items.length) := by
    unfold Pipeline.readerNext
    split
    · simp
    · split
      · simp
      · split
        · simp
        · right; simp; omega
  have hfull : (Pipeline.readerNext cfg t k).stop = false → (Pipeline.readerNext cfg t k).rexc = false →
      ((Pipeline.readerNext cfg t k).rpc = .putting k ∨ cfg.items.length ≤ k) := by
    rw [hstop]
    unfold Pipeline.readerNext
    split
    · simp
    · split
      · intro _ _; right; assumption
      · split
        · intro h1; simp_all
        · intro _ _; left; rfl
  refine ⟨by rw [hi]; exact hperm, ?_, ?_, by rw [hi]; omega, by rw [hmain]; exact hn,
    by rw [hcoll, hseen]; exact hc, ?_, by rw [hmain, hhs]; exact hf, ?_⟩
  rotate_right
  · intro h1 h2 h3
    rw [hi]
    rcases hfull h2 h3 with h4 | h4
    · rw [h4] at h1; simp at h1
    · omega
  · intro k' hk'
    rw [hi]
    rcases hrpc with h | ⟨h, hlt⟩ <;> rw [h] at hk'
    · simp at hk'
    · simp only [RPc.putting.injEq] at hk'; subst hk'; exact ⟨hlen, hlt⟩
  · intro he
    rcases hrpc with h | ⟨h, _⟩ <;> rw [h] at he <;> simp at he
  · rw [hmain]; intro h; rcases h with h | h
    · exact absurd h hm.1
    · exact absurd h hm.2

theorem InvA.reader {cfg : Cfg} {s s' : State} (h : InvA cfg s) (hs : stepReader cfg s = some s') :
    InvA cfg s' := by
  have hmain : s.rpc ≠ .notStarted → s.main ≠ .startReaderChk ∧ s.main ≠ .startReader := by
    intro hr
    exact ⟨fun hm => hr (h.rfresh (Or.inl hm)), fun hm => hr (h.rfresh (Or.inr hm))⟩
  unfold stepReader at hs
  split at hs
  · rename_i hr
    simp only [Option.some.injEq] at hs; subst hs
    have he := h.early (Or.inr (Or.inr hr))
    exact InvA.readerNext (by simp [he]) (by simp [he]) (Nat.zero_le _) h.noInt h.coll
      (hmain (by simp [hr])) h.fresh
  · rename_i k hr
    split at hs
    · simp only [Option.some.injEq] at hs; subst hs
      obtain ⟨hlen, hlt⟩ := h.putting k hr
      have hi : inFlight { s with pq := s.pq ++ [some k] } = inFlight s ++ [k] := by
        simp [inFlight_def]
      refine InvA.readerNext ?_ (by rw [hi]; simp [hlen]) hlt h.noInt h.coll
        (hmain (by simp [hr])) h.fresh
      rw [hi]
      simp only [List.length_append, List.length_singleton, List.range_succ]
      rw [hlen]
      exact (hlen ▸ h.perm).append_right _
    · simp at hs
  · rename_i hr
    split at hs
    · simp only [Option.some.injEq] at hs; subst hs
      have hi : inFlight { s with pq := s.pq ++ [none], rpc := .done } = inFlight s := by
        simp [inFlight_def]
      have hm := hmain (by simp [hr])
      refine ⟨by rw [hi]; exact h.perm, by simp, by simp, by rw [hi]; exact h.bound, h.noInt, h.coll,
        ?_, h.fresh, ?_⟩
      · intro hx; rcases hx with hx | hx
        · exact absurd hx hm.1
        · exact absurd hx hm.2
      · intro _ h2 h3; rw [hi]; exact h.full (Or.inl hr) h2 h3
    · simp at hs
  · simp at hs

/-! ### hashers -/

/-- a started hasher has a number below main's start bound -/
theorem InvA.fresh_set {cfg : Cfg} {s : State} {i : Nat} {p q : HPc} (h : InvA cfg s)
    (hi : s.hs[i]? = some p) (hp : p ≠ .notStarted) :
    ∀ b, startBound s.main = some b → ∀ j r, b ≤ j → (s.hs.set i q)[j]? = some r → r = .notStarted := by
  intro b hb j r hbj hj
  have := h.fresh b hb
  rw [List.getElem?_set] at hj
  split at hj
  · subst_vars; exact absurd (this _ _ hbj hi) hp
  · exact this _ _ hbj hj

theorem InvA.hasher {cfg : Cfg} {s s' : State} {i : Nat} {b : Bool} (h : InvA cfg s)
    (hs : stepHasher cfg s i b = some s') : InvA cfg s' := by
  unfold stepHasher at hs
  split at hs
  · simp at hs
  · -- begin
    rename_i hi
    split at hs
    · simp at hs
    · simp only [Option.some.injEq] at hs; subst hs
      refine h.of_perm ?_ rfl h.noInt h.coll h.rfresh (h.fresh_set hi (by simp))
      simp only [inFlight_def, setHasher]
      exact (List.Perm.append_right _ (List.Perm.append_left _ (held_set_nn _ _ _ rfl (by simp [hi, hk]))))
  · -- getting
    rename_i hi
    split at hs
    · split at hs
      · split at hs
        · simp only [Option.some.injEq] at hs; subst hs; exact h
        · simp only [Option.some.injEq] at hs; subst hs
          refine h.of_perm ?_ rfl h.noInt h.coll h.rfresh (h.fresh_set hi (by simp))
          simp only [inFlight_def, setHasher]
          exact (List.Perm.append_right _ (List.Perm.append_left _ (held_set_nn _ _ _ rfl (by simp [hi, hk]))))
      · simp at hs
    · rename_i x rest hpq
      split at hs
      · simp at hs
      · split at hs
        · rename_i k
          simp only [Option.some.injEq] at hs; subst hs
          refine h.of_perm ?_ rfl h.noInt h.coll h.rfresh (h.fresh_set hi (by simp))
          simp only [inFlight_def, setHasher, hpq, List.filterMap_cons, id, List.append_assoc]
          refine List.Perm.append_left _ (List.Perm.append_left _ ?_)
          have := (held_set_take s.hs i k _ hi rfl).append_right (List.filterMap id rest)
          simpa using this
        · simp only [Option.some.injEq] at hs; subst hs
          refine h.of_perm ?_ rfl h.noInt h.coll h.rfresh (h.fresh_set hi (by simp))
          simp only [inFlight_def, setHasher, hpq, List.filterMap_cons, id]
          exact (List.Perm.append_right _ (List.Perm.append_left _ (held_set_nn _ _ _ rfl (by simp [hi, hk]))))
  · -- holding
    rename_i k hi
    split at hs
    · simp at hs
    · simp only [Option.some.injEq] at hs; subst hs
      refine h.of_perm ?_ rfl h.noInt h.coll h.rfresh (h.fresh_set hi (by simp))
      simp only [inFlight_def, setHasher, List.filterMap_append, List.filterMap_cons, id,
        List.filterMap_nil, List.append_assoc]
      refine List.Perm.append_left _ (List.Perm.append_left _ ?_)
      have := (held_set_give s.hs i k .getting hi rfl).append_right (List.filterMap id s.pq)
      refine List.Perm.trans ?_ this
      simp only [List.append_assoc]
      simp only [List.singleton_append]
      exact List.perm_middle.symm
  · -- requeue
    rename_i hi
    split at hs
    · simp at hs
    · split at hs
      · simp only [Option.some.injEq] at hs; subst hs
        refine h.of_perm ?_ rfl h.noInt h.coll h.rfresh (h.fresh_set hi (by simp))
        simp only [inFlight_def, setHasher, List.filterMap_append, List.filterMap_cons, id,
          List.filterMap_nil, List.append_nil]
        exact (List.Perm.append_right _ (List.Perm.append_left _ (held_set_nn _ _ _ rfl (by simp [hi, hk]))))
      · simp at hs
  · -- setEv
    rename_i hi
    split at hs
    · simp at hs
    · simp only [Option.some.injEq] at hs; subst hs
      refine h.of_perm ?_ rfl h.noInt h.coll h.rfresh (h.fresh_set hi (by simp))
      simp only [inFlight_def, setHasher]
      exact (List.Perm.append_right _ (List.Perm.append_left _ (held_set_nn _ _ _ rfl (by simp [hi, hk]))))
  · simp at hs

/-! ### janitor -/

theorem InvA.janitor {cfg : Cfg} {s s' : State} {b : Bool} (h : InvA cfg s)
    (hs : stepJanitor cfg s b = some s') : InvA cfg s' := by
  have key : ∀ t : State, t.seen = s.seen → t.hq.filterMap id = s.hq.filterMap id → t.hs = s.hs →
      t.pq = s.pq → t.rpc = s.rpc → t.main = s.main → t.collected = s.collected →
      t.stop = s.stop → t.rexc = s.rexc → InvA cfg t := by
    intro t h1 h2 h3 h4 h5 h6 h7 h8 h9
    refine h.of_perm (by simp [inFlight_def, h1, h2, h3, h4]) h5 (h6 ▸ h.noInt) (by rw [h7, h1]; exact h.coll)
      (by rw [h6, h5]; exact h.rfresh) (by rw [h6, h3]; exact h.fresh) ⟨fun h => h8 ▸ h, fun h => h9 ▸ h⟩
  unfold stepJanitor at hs
  simp only [enterSpin, enterPrune] at hs
  repeat' split at hs
  all_goals
    first
    | (simp at hs; done)
    | (simp only [Option.some.injEq] at hs; subst hs; apply key <;> simp)

/-! ### every reachable state -/

theorem InvA.step {cfg : Cfg} {s s' : State} {l : Label} (h : InvA cfg s)
    (hs : step cfg s l = some s') : InvA cfg s' := by
  unfold Pipeline.step at hs
  split at hs
  · split at hs
    · simp at hs
    · exact h.main hs
  · split at hs
    · simp at hs
    · exact h.reader hs
  · exact h.hasher hs
  · exact h.janitor hs

theorem InvA.of_reachable {cfg : Cfg} {s : State} (h : Reachable cfg s) : InvA cfg s :=
  Reachable.induction (P := InvA cfg) (InvA.init cfg) (fun _ _ _ _ hp hs => hp.step hs) h

theorem InvA.conserved {cfg : Cfg} {s : State} (h : InvA cfg s) : Conserved s = true := by
  unfold Conserved
  rw [mergeSort_of_perm_range h.perm]
  simp

theorem InvA.noInternalError {cfg : Cfg} {s : State} (h : InvA cfg s) : noInternalError s = true := by
  have := h.noInt
  unfold Pipeline.noInternalError
  split <;> simp_all [mainExc, internalExc]

end Torf.Pipeline
