/-
  Lemmas about `Torf.Model.HandlesIter` (the code: `pop = false`): every descriptor the object
  has open sits in its table (`opened = tbl.map hid`), whatever iterators are suspended; the table
  never exceeds `cap + 1`; `close()` empties both; consecutive `next()` calls compose.
-/
import Torf.Model.HandlesIter
namespace Torf.HandlesIter
open Torf

/-- the generator does not hold a handle outside the table -/
def Gen.plain : Gen α → Bool
  | .inFile _ _ _ _ held => held.isNone
  | _ => true

/-- the invariant of the code: every open descriptor is in the table (in `open()` order), no
    generator holds one privately, and the table is within its bound -/
structure Good (cap : Nat) (o : Obj α) : Prop where
  desc : o.opened = o.tbl.map (·.hid)
  gens : ∀ g ∈ o.gens, g.plain = true
  bound : o.tbl.length ≤ cap + 1

theorem good_empty (cap : Nat) : Good cap ({} : Obj α) :=
  ⟨rfl, by simp, by simp⟩

/-! ### primitives -/

theorem evict_spec (cap : Nat) (o : Obj α) (fuel : Nat) (h : o.opened = o.tbl.map (·.hid)) :
    (evict cap o fuel).opened = (evict cap o fuel).tbl.map (·.hid) ∧
      (evict cap o fuel).gens = o.gens ∧ (evict cap o fuel).next = o.next ∧
      (evict cap o fuel).tbl.length ≤ o.tbl.length ∧
      (o.tbl.length ≤ fuel → (evict cap o fuel).tbl.length ≤ cap) := by
  induction fuel generalizing o with
  | zero =>
    refine ⟨h, rfl, rfl, Nat.le_refl _, fun hl => ?_⟩
    simp only [evict]
    omega
  | succ n ih =>
    unfold evict
    cases ht : o.tbl with
    | nil => simp [ht, h]
    | cons e t =>
      simp only
      split
      · have h' : o.opened.erase e.hid = t.map (·.hid) := by
          rw [h, ht]; simp
        have := ih { o with tbl := t, opened := o.opened.erase e.hid } h'
        refine ⟨this.1, this.2.1, this.2.2.1, ?_, fun hl => this.2.2.2.2 ?_⟩
        · have := this.2.2.2.1; simp only [List.length_cons] at this ⊢; omega
        · simp only [List.length_cons] at hl ⊢; omega
      · rename_i hc
        refine ⟨by rw [h, ht], rfl, rfl, by simp [ht], fun _ => ?_⟩
        simp only [ht, List.length_cons] at hc ⊢
        omega

theorem getOpenFile_good (cap : Nat) (o : Obj α) (j : Nat) (h : Good cap o) :
    Good cap (getOpenFile cap o j).2 := by
  unfold getOpenFile
  split
  · exact h
  · have he := evict_spec cap o o.tbl.length h.desc
    refine ⟨?_, ?_, ?_⟩
    · simp only [List.map_append, List.map_cons, List.map_nil]; rw [he.1]
    · simp only [he.2.1]; exact h.gens
    · have := he.2.2.2.2 (Nat.le_refl _)
      simp only [List.length_append, List.length_cons, List.length_nil]; omega

theorem seek_good (cap : Nat) (o : Obj α) (hid off : Nat) (h : Good cap o) : Good cap (seek o hid off) := by
  refine ⟨?_, h.gens, ?_⟩
  · simp only [seek, List.map_map]
    rw [h.desc]
    apply List.map_congr_left
    intro e _
    simp only [Function.comp]
    split <;> rfl
  · simp only [seek, List.length_map]; exact h.bound

theorem read_good (cap : Nat) (files : List (List α)) (o : Obj α) (hid n : Nat) (h : Good cap o)
    (bs : List α) (o' : Obj α) (hr : read files o hid n = some (bs, o')) : Good cap o' := by
  unfold read at hr
  split at hr
  · simp at hr
  · simp only [Option.some.injEq, Prod.mk.injEq] at hr
    rw [← hr.2]
    exact seek_good cap o hid _ h

theorem closeAll_tbl (snap : Table) (o : Obj α) (h : ∀ x ∈ o.tbl, ∃ e ∈ snap, e.file = x.file) :
    (closeAll snap o).tbl = [] := by
  induction snap generalizing o with
  | nil =>
    cases ht : o.tbl with
    | nil => simp [closeAll, ht]
    | cons x t =>
      have := h x (by rw [ht]; exact List.mem_cons_self ..)
      simp at this
  | cons e snap ih =>
    simp only [closeAll]
    apply ih
    intro x hx
    simp only [List.mem_filter, decide_eq_true_eq] at hx
    obtain ⟨e', he', hf⟩ := h x hx.1
    rcases List.mem_cons.1 he' with rfl | he'
    · exact absurd hf.symm hx.2
    · exact ⟨e', he', hf⟩

theorem closeAll_opened (snap : Table) (o : Obj α) :
    (closeAll snap o).opened = (snap.map (·.hid)).foldl (fun acc h => acc.erase h) o.opened ∧
      (closeAll snap o).gens = o.gens := by
  induction snap generalizing o with
  | nil => exact ⟨rfl, rfl⟩
  | cons e snap ih =>
    simp only [closeAll, List.map_cons, List.foldl_cons]
    have := ih { o with tbl := o.tbl.filter (fun x => x.file ≠ e.file), opened := o.opened.erase e.hid }
    exact ⟨this.1, this.2⟩

theorem foldl_erase_self (l : List Nat) : l.foldl (fun acc h => acc.erase h) l = [] := by
  induction l with
  | nil => rfl
  | cons h t ih => simp only [List.foldl_cons, List.erase_cons_head]; exact ih

/-- `close()` closes every descriptor and empties the table — whatever generators exist -/
theorem closeAll_good (cap : Nat) (o : Obj α) (h : Good cap o) :
    (closeAll o.tbl o).tbl = [] ∧ (closeAll o.tbl o).opened = [] ∧ Good cap (closeAll o.tbl o) := by
  have ht := closeAll_tbl o.tbl o (fun x hx => ⟨x, hx, rfl⟩)
  have ho := closeAll_opened o.tbl o
  have ho' : (closeAll o.tbl o).opened = [] := by rw [ho.1, h.desc]; exact foldl_erase_self _
  exact ⟨ht, ho', ⟨by rw [ho', ht]; rfl, by rw [ho.2]; exact h.gens, by rw [ht]; simp⟩⟩

/-! ### the generator -/

theorem go_good (c : Cfg α δ) (hp : c.pop = false) (fuel : Nat) (ctl : Ctl α) (o : Obj α)
    (hc : match ctl with | .enter .. => True | .reading _ _ _ held => held = none)
    (h : Good c.cap o) :
    (go c fuel ctl o).2.1.plain = true ∧ Good c.cap (go c fuel ctl o).2.2 := by
  induction fuel generalizing ctl o with
  | zero => exact ⟨rfl, h⟩
  | succ n ih =>
    cases ctl with
    | enter j tr =>
      unfold go
      split
      · split <;> exact ⟨rfl, h⟩
      · have h1 := seek_good c.cap _ (getOpenFile c.cap o j).1 0 (getOpenFile_good c.cap o j h)
        simp only [hp, Bool.false_eq_true, ↓reduceIte]
        split
        · exact ih _ _ rfl h1
        · simp only [readG]
          cases hr : read c.files (seek (getOpenFile c.cap o j).2 (getOpenFile c.cap o j).1 0)
              (getOpenFile c.cap o j).1 (c.L - tr.length) with
          | none => simp only [Option.map_none, unhide]; exact ⟨rfl, h1⟩
          | some r =>
            have h2 := read_good c.cap c.files _ _ _ h1 r.1 r.2 (by rw [hr])
            simp only [Option.map_some]
            split
            · exact ⟨rfl, h2⟩
            · exact ih _ _ rfl h2
    | reading j hid tr held =>
      simp only at hc
      subst hc
      unfold go
      simp only [readG]
      cases hr : read c.files o hid c.L with
      | none => simp only [Option.map_none, unhide]; exact ⟨rfl, h⟩
      | some r =>
        have h2 := read_good c.cap c.files _ _ _ h r.1 r.2 (by rw [hr])
        simp only [Option.map_some, unhide]
        split
        · exact ih _ _ trivial h2
        · split
          · exact ⟨rfl, h2⟩
          · exact ih _ _ rfl h2

theorem pull_good (c : Cfg α δ) (hp : c.pop = false) (g : Gen α) (o : Obj α) (hg : g.plain = true)
    (h : Good c.cap o) : (pull c g o).2.1.plain = true ∧ Good c.cap (pull c g o).2.2 := by
  cases g with
  | fresh => exact go_good c hp _ _ o trivial h
  | inFile j hid off tr held =>
    have : held = none := by simpa [Gen.plain] using hg
    subst this
    exact go_good c hp _ _ o rfl h
  | atEnd => exact ⟨rfl, h⟩
  | finished => exact ⟨rfl, h⟩

theorem pulls_good (c : Cfg α δ) (hp : c.pop = false) (k : Nat) (g : Gen α) (o : Obj α)
    (acc : List (List α)) (hg : g.plain = true) (h : Good c.cap o) :
    (pulls c k g o acc).2.1.plain = true ∧ Good c.cap (pulls c k g o acc).2.2 := by
  induction k generalizing g o acc with
  | zero => exact ⟨hg, h⟩
  | succ k ih =>
    have hpl := pull_good c hp g o hg h
    unfold pulls
    rcases hr : pull c g o with ⟨r, g1, o1⟩
    rw [hr] at hpl
    cases r with
    | item p => exact ih g1 o1 _ hpl.1 hpl.2
    | stop => exact hpl
    | closedFile => exact hpl
    | fuel => exact hpl

theorem dropGen_plain (g : Gen α) (o : Obj α) (hg : g.plain = true) : dropGen g o = o := by
  cases g with
  | inFile j hid off tr held =>
    have : held = none := by simpa [Gen.plain] using hg
    subst this
    rfl
  | _ => rfl

/-! ### `get_piece` -/

theorem getPieceLoop_good (c : Cfg α δ) (rel : List Nat) (seekTo n : Nat) (piece : List α) (o : Obj α)
    (h : Good c.cap o) : Good c.cap (getPieceLoop c rel seekTo n piece o).2 := by
  induction rel generalizing seekTo n piece o with
  | nil => exact h
  | cons j js ih =>
    unfold getPieceLoop
    have h1 := seek_good c.cap _ (getOpenFile c.cap o j).1 seekTo (getOpenFile_good c.cap o j h)
    simp only
    cases hr : read c.files (seek (getOpenFile c.cap o j).2 (getOpenFile c.cap o j).1 seekTo)
        (getOpenFile c.cap o j).1 n with
    | none => exact h1
    | some r => exact ih _ _ _ _ (read_good c.cap c.files _ _ _ h1 r.1 r.2 (by rw [hr]))

theorem getPiece_good (c : Cfg α δ) (i : Int) (o : Obj α) (h : Good c.cap o) :
    Good c.cap (getPiece c i o).2 := by
  unfold getPiece
  simp only
  split
  · exact h
  · split
    · exact h
    · have := getPieceLoop_good c ‹_› ‹_› c.L [] o h
      split
      · exact this
      · split <;> exact this

/-! ### operations and histories -/

theorem set_gens_good (cap : Nat) (o : Obj α) (s : Nat) (g : Gen α) (hg : g.plain = true) (h : Good cap o) :
    Good cap { o with gens := o.gens.set s g } :=
  ⟨h.desc, fun x hx => by
    rcases List.mem_or_eq_of_mem_set hx with hx | rfl
    · exact h.gens x hx
    · exact hg, h.bound⟩

theorem run_good [BEq δ] (c : Cfg α δ) (hp : c.pop = false) (op : Op) (o : Obj α) (h : Good c.cap o) :
    Good c.cap (run c op o).obj := by
  cases op with
  | iterFull =>
    have := pulls_good c hp (nPieces c.L c.total + 2) .fresh o [] rfl h
    simp only [run]
    rw [dropGen_plain _ _ this.1]
    exact this.2
  | iterAbandon k =>
    have := pulls_good c hp k .fresh o [] rfl h
    simp only [run]
    rw [dropGen_plain _ _ this.1]
    exact this.2
  | getPiece i =>
    have := getPiece_good c i o h
    simp only [run]
    rcases hr : getPiece c i o with ⟨x, u⟩
    rw [hr] at this
    cases x <;> exact this
  | getPieceHash i =>
    have := getPiece_good c i o h
    simp only [run]
    rcases hr : getPiece c i o with ⟨x, u⟩
    rw [hr] at this
    cases x <;> exact this
  | verifyPiece i =>
    have := getPiece_good c i o h
    simp only [run]
    cases Handles.pyIndex c.stored i with
    | none => exact h
    | some st =>
      simp only
      rcases hr : getPiece c i o with ⟨x, u⟩
      rw [hr] at this
      cases x <;> exact this
  | close => exact (closeAll_good c.cap o h).2.2
  | ctxExit => exact (closeAll_good c.cap o h).2.2
  | iterStart =>
    exact ⟨h.desc, fun g hg => by
      rcases List.mem_append.1 hg with hg | hg
      · exact h.gens g hg
      · simp only [List.mem_singleton] at hg; subst hg; rfl, h.bound⟩
  | iterNext s k =>
    simp only [run]
    cases hg : o.gens[s]? with
    | none => exact h
    | some g =>
      have hgp := h.gens g (List.mem_of_getElem? hg)
      have := pulls_good c hp k g o [] hgp h
      exact set_gens_good c.cap _ s _ this.1 this.2
  | iterDrop s =>
    simp only [run]
    cases hg : o.gens[s]? with
    | none => exact h
    | some g =>
      have hgp := h.gens g (List.mem_of_getElem? hg)
      simp only [dropGen_plain g o hgp]
      exact set_gens_good c.cap o s .finished rfl h

theorem runAll_good [BEq δ] (c : Cfg α δ) (hp : c.pop = false) (ops : List Op) (o : Obj α)
    (h : Good c.cap o) : ∀ r ∈ runAll c ops o, r.nopen = r.ntbl ∧ r.nopen ≤ c.cap + 1 := by
  induction ops generalizing o with
  | nil => simp [runAll]
  | cons op ops ih =>
    have hg := run_good c hp op o h
    intro r hr
    simp only [runAll, List.mem_cons] at hr
    rcases hr with rfl | hr
    · have : (run c op o).obj.opened.length = (run c op o).obj.tbl.length := by
        rw [hg.desc, List.length_map]
      exact ⟨this, by rw [this]; exact hg.bound⟩
    · exact ih _ hg r hr

/-- the object after a history -/
def after [BEq δ] (c : Cfg α δ) : List Op → Obj α → Obj α
  | [], o => o
  | op :: ops, o => after c ops (run c op o).obj

theorem after_good [BEq δ] (c : Cfg α δ) (hp : c.pop = false) (ops : List Op) (o : Obj α)
    (h : Good c.cap o) : Good c.cap (after c ops o) := by
  induction ops generalizing o with
  | nil => exact h
  | cons op ops ih => exact ih _ (run_good c hp op o h)

/-! ### consecutive `next()` calls compose; resuming on a closed handle -/

theorem pulls_finished (c : Cfg α δ) (k : Nat) (o : Obj α) (acc : List (List α)) :
    pulls c k .finished o acc = (.ok acc, .finished, o) := by
  cases k with
  | zero => rfl
  | succ k => simp [pulls, pull]

theorem go_stop (c : Cfg α δ) (fuel : Nat) (ctl : Ctl α) (o : Obj α) :
    ∀ res, go c fuel ctl o = res → res.1 = .stop → res.2.1 = .finished := by
  induction fuel generalizing ctl o with
  | zero => intro res h; subst h; intro h; simp [go] at h
  | succ n ih =>
    intro res hres
    cases ctl with
    | enter j tr =>
      unfold go at hres
      (repeat' split at hres) <;> first
        | exact ih _ _ _ hres
        | (subst hres; simp; done)
        | (subst hres
           simp only
           split
           · simp
           · split
             · simp
             · exact ih _ _ _ rfl)
    | reading j hid tr held =>
      unfold go at hres
      (repeat' split at hres) <;> first | exact ih _ _ _ hres | (subst hres; simp)

theorem pull_stop (c : Cfg α δ) (g : Gen α) (o : Obj α) (h : (pull c g o).1 = .stop) :
    (pull c g o).2.1 = .finished := by
  cases g with
  | fresh => exact go_stop c _ _ o _ rfl h
  | inFile j hid off tr held => exact go_stop c _ _ o _ rfl h
  | atEnd => rfl
  | finished => rfl

theorem pulls_succ (c : Cfg α δ) (k : Nat) (g : Gen α) (o : Obj α) (acc : List (List α)) :
    pulls c (k + 1) g o acc =
      match pull c g o with
      | (.item p, g1, o1) => pulls c k g1 o1 (acc ++ [p])
      | (.stop, g1, o1) => (.ok acc, g1, o1)
      | (.closedFile, g1, o1) => (.error .closedHandle, g1, o1)
      | (.fuel, g1, o1) => (.error .fuel, g1, o1) := rfl

/-- `k1` calls of `next()` followed at once by `k2` more are `k1 + k2` calls: suspending and
    resuming an iterator is transparent when nothing else happens in between -/
theorem pulls_compose (c : Cfg α δ) (k1 k2 : Nat) (g : Gen α) (o : Obj α) (acc : List (List α)) :
    pulls c (k1 + k2) g o acc =
      match pulls c k1 g o acc with
      | (.ok acc1, g1, o1) => pulls c k2 g1 o1 acc1
      | r => r := by
  induction k1 generalizing g o acc with
  | zero => simp only [Nat.zero_add, pulls]
  | succ k ih =>
    rw [Nat.succ_add, pulls_succ, pulls_succ]
    have hs := pull_stop c g o
    rcases hr : pull c g o with ⟨r, g1, o1⟩
    rw [hr] at hs
    cases r with
    | item p => simp only; exact ih g1 o1 _
    | stop =>
      have : g1 = .finished := hs rfl
      subst this
      simp only [pulls_finished]
    | closedFile => rfl
    | fuel => rfl

/-- resuming an iterator that is suspended inside a file whose handle has been closed (evicted, or
    `close()`): ValueError, the iterator is dead, nothing is opened or changed -/
theorem pull_closed (c : Cfg α δ) (j hid off : Nat) (tr : List α) (o : Obj α)
    (h : findHid o.tbl hid = none) :
    pull c (.inFile j hid off tr none) o = (.closedFile, .finished, o) := by
  simp only [pull, Cfg.fuel]
  unfold go
  simp [readG, read, h, unhide]

end Torf.HandlesIter
