/-
  Lemmas about `Torf.Model.HandlesDisk`: an object whose handles of the files it reads are all
  current (opened on the inode the path names now) answers `specOut`; `_get_open_file` only adds
  current handles; disk changes that do not rename an open file keep every handle current; the
  table never exceeds `cap + 1`.
-/
import Torf.Model.HandlesDisk
namespace Torf.HandlesDisk
open Torf

/-! ### primitives -/

theorem statSize_code (d : Disk α) (o : Obj) (j : Nat) : statSize false d o j = (d.size j, o) := rfl

theorem bycatchView_code [Inhabited α] (d : Disk α) (base n : Nat) (o : Obj) :
    bycatchView false d base n o = d.view base n := rfl

theorem inoOf_some_mem {t : Table} {j i : Nat} (h : inoOf t j = some i) : (⟨j, i⟩ : Handle) ∈ t := by
  induction t with
  | nil => simp [inoOf] at h
  | cons e t ih =>
    simp only [inoOf] at h
    split at h
    · rename_i hj
      cases e
      simp only [Option.some.injEq] at h
      simp_all
    · exact List.mem_cons_of_mem _ (ih h)

theorem inoOf_none_mem {t : Table} {j : Nat} (h : inoOf t j = none) : ∀ e ∈ t, e.file ≠ j := by
  induction t with
  | nil => simp
  | cons e t ih =>
    simp only [inoOf] at h
    split at h
    · simp at h
    · rename_i hj
      intro x hx
      rcases List.mem_cons.1 hx with rfl | hx
      · exact hj
      · exact ih h x hx

theorem mem_evict {cap : Nat} {t : Table} {e : Handle} (h : e ∈ evict cap t) : e ∈ t := by
  induction t with
  | nil => simp [evict] at h
  | cons x t ih =>
    simp only [evict] at h
    split at h
    · exact List.mem_cons_of_mem _ (ih h)
    · exact h

theorem length_evict_le (cap : Nat) (t : Table) : (evict cap t).length ≤ cap := by
  induction t with
  | nil => simp [evict]
  | cons x t ih =>
    simp only [evict]
    split
    · exact ih
    · omega

theorem length_evict_le_self (cap : Nat) (t : Table) : (evict cap t).length ≤ t.length := by
  induction t with
  | nil => simp [evict]
  | cons x t ih =>
    simp only [evict]
    split
    · simp only [List.length_cons]; omega
    · exact Nat.le_refl _

/-- every handle of a file in `P` is current -/
def OkOn (P : Nat → Prop) (d : Disk α) (t : Table) : Prop :=
  ∀ h ∈ t, P h.file → h.current d = true

theorem OkOn.mono {P Q : Nat → Prop} {d : Disk α} {t : Table} (h : OkOn P d t) (hq : ∀ j, Q j → P j) :
    OkOn Q d t := fun e he hQ => h e he (hq _ hQ)

theorem noStale_iff (d : Disk α) (t : Table) : noStale d t = true ↔ OkOn (fun _ => True) d t := by
  simp [noStale, OkOn, List.all_eq_true]

theorem cleanFor_iff (c : Cfg α δ) (d : Disk α) (arg : Option Nat) (op : Handles.Op) (t : Table) :
    cleanFor c d arg op t = true ↔ OkOn (· ∈ touched c arg op) d t := by
  simp only [cleanFor, OkOn, List.all_eq_true, Bool.or_eq_true, Bool.not_eq_true',
    List.contains_eq_mem, decide_eq_false_iff_not]
  constructor
  · intro h e he hp
    rcases h e he with h | h
    · exact absurd hp h
    · exact h
  · intro h e he
    by_cases hp : e.file ∈ touched c arg op
    · exact Or.inr (h e he hp)
    · exact Or.inl hp

theorem openPath_of_current {d : Disk α} {j i : Nat} (h : Handle.current d ⟨j, i⟩ = true) :
    openPath d j = .ok i := by
  simp only [Handle.current, beq_iff_eq] at h
  simp [openPath, h]

theorem current_of_openPath {d : Disk α} {j i : Nat} (h : openPath d j = .ok i) :
    Handle.current d ⟨j, i⟩ = true := by
  simp only [openPath] at h
  simp only [Handle.current, beq_iff_eq]
  split at h <;> simp_all

/-- `_get_open_file` of a file in `P` on a table whose `P`-handles are current: the caller gets
    what `open(path)` gives now, and the `P`-handles of the new table are current -/
theorem getOpenFile_ok {P : Nat → Prop} {d : Disk α} {t : Table} (cap j : Nat) (h : OkOn P d t)
    (hj : P j) :
    (getOpenFile cap d t j).1 = openPath d j ∧ OkOn P d (getOpenFile cap d t j).2 := by
  unfold getOpenFile
  cases hi : inoOf t j with
  | some i =>
    have := h _ (inoOf_some_mem hi) hj
    exact ⟨(openPath_of_current this).symm, h⟩
  | none =>
    cases ho : openPath d j with
    | error e => exact ⟨rfl, fun e he hp => h e (mem_evict he) hp⟩
    | ok i =>
      refine ⟨rfl, fun e he hp => ?_⟩
      rcases List.mem_append.1 he with he | he
      · exact h e (mem_evict he) hp
      · simp only [List.mem_singleton] at he
        subst he
        exact current_of_openPath ho

/-- without the hypothesis on `j`: the other `P`-handles stay current and the new handle is current -/
theorem getOpenFile_okOn {P : Nat → Prop} {d : Disk α} {t : Table} (cap j : Nat) (h : OkOn P d t) :
    OkOn (fun k => P k ∧ k ≠ j) d (getOpenFile cap d t j).2 := by
  unfold getOpenFile
  cases hi : inoOf t j with
  | some i => exact fun e he hp => h e he hp.1
  | none =>
    cases ho : openPath d j with
    | error e => exact fun e he hp => h e (mem_evict he) hp.1
    | ok i =>
      intro e he hp
      rcases List.mem_append.1 he with he | he
      · exact h e (mem_evict he) hp.1
      · simp only [List.mem_singleton] at he
        subst he
        exact absurd rfl hp.2

theorem length_getOpenFile_le (cap : Nat) (d : Disk α) (t : Table) (j : Nat) (h : t.length ≤ cap + 1) :
    (getOpenFile cap d t j).2.length ≤ cap + 1 := by
  unfold getOpenFile
  cases inoOf t j with
  | some i => exact h
  | none =>
    have := length_evict_le cap t
    cases openPath d j with
    | error e => simp only; omega
    | ok i => simp only [List.length_append, List.length_cons, List.length_nil]; omega

/-! ### `iter_pieces` -/

/-- without a fault: the loop variables evolve as in the specification -/
theorem iterStep_spec [Inhabited α] (c : Cfg α δ) (hm : c.memo = false) (d : Disk α) (base : Nat)
    (k : Option Nat) (s : ISt α) (j : Nat) (P : Nat → Prop) (hj : P (base + j)) (h : OkOn P d s.obj.tbl)
    (hio : s.io = none) :
    (iterStep c d base none k s j).st = specIterStep c d base k s.st j ∧
      (iterStep c d base none k s j).io = none ∧ OkOn P d (iterStep c d base none k s j).obj.tbl := by
  unfold iterStep specIterStep
  simp only [hm, statSize_code, bycatchView_code, hio, Option.isSome_none, Bool.or_false, faultAt]
  split
  · exact ⟨rfl, hio, h⟩
  · split
    · exact ⟨rfl, by simp [hio], h⟩
    · have hg := getOpenFile_ok c.cap (base + j) h hj
      rw [hg.1]
      cases openPath d (base + j) with
      | ok i => exact ⟨rfl, by simp [hio], hg.2⟩
      | error e => exact ⟨rfl, by simp [hio], hg.2⟩

theorem foldl_iterStep_spec [Inhabited α] (c : Cfg α δ) (hm : c.memo = false) (d : Disk α) (base : Nat)
    (k : Option Nat) (js : List Nat) (s : ISt α) (P : Nat → Prop) (hP : ∀ j ∈ js, P (base + j))
    (h : OkOn P d s.obj.tbl) (hio : s.io = none) :
    (js.foldl (iterStep c d base none k) s).st = js.foldl (specIterStep c d base k) s.st ∧
      (js.foldl (iterStep c d base none k) s).io = none ∧
      OkOn P d (js.foldl (iterStep c d base none k) s).obj.tbl := by
  induction js generalizing s with
  | nil => exact ⟨rfl, hio, h⟩
  | cons j js ih =>
    simp only [List.foldl_cons]
    have h1 := iterStep_spec c hm d base k s j P (hP j (List.mem_cons_self ..)) h hio
    have h2 := ih (iterStep c d base none k s j) (fun j hj => hP j (List.mem_cons_of_mem _ hj)) h1.2.2 h1.2.1
    rw [h2.1, h1.1]
    exact ⟨rfl, h2.2⟩

theorem iterRun_spec [Inhabited α] (c : Cfg α δ) (hm : c.memo = false) (d : Disk α) (base : Nat)
    (k : Option Nat) (o : Obj) (P : Nat → Prop) (hP : ∀ j ∈ List.range c.sizes.length, P (base + j))
    (h : OkOn P d o.tbl) :
    (iterRun c d base none k o).1 =
        (iterOut k ((List.range c.sizes.length).foldl (specIterStep c d base k) {}) : Out α δ) ∧
      OkOn P d (iterRun c d base none k o).2.tbl := by
  have := foldl_iterStep_spec c hm d base k (List.range c.sizes.length) { obj := o } P hP h rfl
  simp only [iterRun]
  exact ⟨by rw [this.1, this.2.1], this.2.2⟩

/-- with or without a fault: operations only add current handles -/
theorem iterStep_okOn [Inhabited α] (c : Cfg α δ) (d : Disk α) (base : Nat) (fault : Option Fault)
    (k : Option Nat) (s : ISt α) (j : Nat) (h : OkOn (fun _ => True) d s.obj.tbl) :
    OkOn (fun _ => True) d (iterStep c d base fault k s j).obj.tbl := by
  have hs : ∀ key, (statSize c.memo d s.obj key).2.tbl = s.obj.tbl := by
    intro key
    unfold statSize
    split
    · split
      · rfl
      · split <;> rfl
    · rfl
  unfold iterStep
  split
  · exact h
  · simp only
    split
    · rw [hs]; exact h
    · have hg := getOpenFile_ok (P := fun _ => True) c.cap (base + j) (hs (base + j) ▸ h) trivial
      split
      · split <;> exact hg.2
      · exact hg.2

theorem foldl_iterStep_okOn [Inhabited α] (c : Cfg α δ) (d : Disk α) (base : Nat) (fault : Option Fault)
    (k : Option Nat) (js : List Nat) (s : ISt α) (h : OkOn (fun _ => True) d s.obj.tbl) :
    OkOn (fun _ => True) d (js.foldl (iterStep c d base fault k) s).obj.tbl := by
  induction js generalizing s with
  | nil => exact h
  | cons j js ih => exact ih _ (iterStep_okOn c d base fault k s j h)

/-! ### `get_piece` -/

theorem getPieceLoop_spec (c : Cfg α δ) (hm : c.memo = false) (d : Disk α) (base : Nat) (rel : List Nat)
    (seekTo n : Nat) (piece : List α) (o : Obj) (P : Nat → Prop) (hP : ∀ j ∈ rel, P (base + j))
    (h : OkOn P d o.tbl) :
    (getPieceLoop c d base none rel seekTo n piece o).1 = specGetPieceLoop c d base rel seekTo n piece ∧
      OkOn P d (getPieceLoop c d base none rel seekTo n piece o).2.tbl := by
  induction rel generalizing seekTo n piece o with
  | nil => exact ⟨rfl, h⟩
  | cons j js ih =>
    unfold getPieceLoop specGetPieceLoop
    have hg := getOpenFile_ok c.cap (base + j) h (hP j (List.mem_cons_self ..))
    simp only [hm, statSize_code]
    rw [hg.1]
    cases openPath d (base + j) with
    | error e => exact ⟨rfl, hg.2⟩
    | ok i =>
      simp only
      split
      · exact ⟨rfl, hg.2⟩
      · simp only [faultAt, Option.isSome_none, Bool.false_eq_true, ↓reduceIte]
        exact ih _ _ _ _ (fun j hj => hP j (List.mem_cons_of_mem _ hj)) hg.2

theorem getPieceLoop_okOn (c : Cfg α δ) (d : Disk α) (base : Nat) (fault : Option Fault) (rel : List Nat)
    (seekTo n : Nat) (piece : List α) (o : Obj) (h : OkOn (fun _ => True) d o.tbl) :
    OkOn (fun _ => True) d (getPieceLoop c d base fault rel seekTo n piece o).2.tbl := by
  have hs : ∀ (o : Obj) key, (statSize c.memo d o key).2.tbl = o.tbl := by
    intro o key
    unfold statSize
    split
    · split
      · rfl
      · split <;> rfl
    · rfl
  induction rel generalizing seekTo n piece o with
  | nil => exact h
  | cons j js ih =>
    unfold getPieceLoop
    have hg := getOpenFile_ok (P := fun _ => True) c.cap (base + j) h trivial
    simp only
    split
    · exact hg.2
    · split
      · rw [hs]; exact hg.2
      · split
        · rw [hs]; exact hg.2
        · exact ih _ _ _ _ (by rw [hs]; exact hg.2)

theorem getPiece_spec (c : Cfg α δ) (hm : c.memo = false) (d : Disk α) (base : Nat) (i : Int) (o : Obj)
    (P : Nat → Prop) (hP : ∀ rel s, c.geom i.toNat = .ok (rel, s) → ∀ j ∈ rel, P (base + j))
    (h : OkOn P d o.tbl) :
    (getPiece c d base none i o).1 = specGetPiece c d base i ∧ OkOn P d (getPiece c d base none i o).2.tbl := by
  unfold getPiece specGetPiece
  simp only
  split
  · exact ⟨rfl, h⟩
  · cases hg : c.geom i.toNat with
    | error e => exact ⟨rfl, h⟩
    | ok r =>
      obtain ⟨rel, seekTo⟩ := r
      have := getPieceLoop_spec c hm d base rel seekTo c.L [] o P (hP rel seekTo hg) h
      simp only
      rw [this.1]
      cases specGetPieceLoop c d base rel seekTo c.L [] with
      | error e => exact ⟨rfl, this.2⟩
      | ok p =>
        simp only
        split
        · exact ⟨rfl, this.2⟩
        · exact ⟨rfl, this.2⟩

theorem getPiece_okOn (c : Cfg α δ) (d : Disk α) (base : Nat) (fault : Option Fault) (i : Int) (o : Obj)
    (h : OkOn (fun _ => True) d o.tbl) :
    OkOn (fun _ => True) d (getPiece c d base fault i o).2.tbl := by
  unfold getPiece
  simp only
  split
  · exact h
  · split
    · exact h
    · have := getPieceLoop_okOn c d base fault ‹_› ‹_› c.L [] o h
      split
      · exact this
      · split <;> exact this

/-! ### whole operations -/

theorem touched_geom (c : Cfg α δ) (arg : Option Nat) (i : Int) (rel : List Nat) (s : Nat)
    (h : c.geom i.toNat = .ok (rel, s)) :
    touched c arg (.getPiece i) = rel.map (c.base arg + ·) ∧
      touched c arg (.getPieceHash i) = rel.map (c.base arg + ·) ∧
      touched c arg (.verifyPiece i) = rel.map (c.base arg + ·) := by
  simp [touched, h]

/-- an object whose handles of the paths the operation reads are all current answers the
    specification (no fault), and the handles in `P` stay current -/
theorem run_spec [BEq δ] [Inhabited α] (c : Cfg α δ) (hm : c.memo = false) (d : Disk α)
    (arg : Option Nat) (op : Handles.Op) (o : Obj) (P : Nat → Prop) (hP : ∀ j ∈ touched c arg op, P j)
    (h : OkOn P d o.tbl) :
    (run c d arg none op o).out = specOut c d arg op ∧ OkOn P d (run c d arg none op o).obj.tbl := by
  have hmem : ∀ (l : List Nat) j, j ∈ l → c.base arg + j ∈ l.map (c.base arg + ·) :=
    fun l j hj => List.mem_map.2 ⟨j, hj, rfl⟩
  cases op with
  | iterFull => exact iterRun_spec c hm d _ none o P (fun j hj => hP _ (hmem _ j hj)) h
  | iterAbandon k => exact iterRun_spec c hm d _ (some k) o P (fun j hj => hP _ (hmem _ j hj)) h
  | getPiece i =>
    have := getPiece_spec c hm d (c.base arg) i o P
      (fun rel s hg j hj => hP _ (by rw [(touched_geom c arg i rel s hg).1]; exact hmem _ j hj)) h
    simp only [run, specOut]
    rw [← this.1]
    rcases hr : getPiece c d (c.base arg) none i o with ⟨x, u⟩
    rw [hr] at this
    cases x <;> exact ⟨rfl, this.2⟩
  | getPieceHash i =>
    have := getPiece_spec c hm d (c.base arg) i o P
      (fun rel s hg j hj => hP _ (by rw [(touched_geom c arg i rel s hg).2.1]; exact hmem _ j hj)) h
    simp only [run, specOut]
    rw [this.1]
    exact ⟨rfl, this.2⟩
  | verifyPiece i =>
    have := getPiece_spec c hm d (c.base arg) i o P
      (fun rel s hg j hj => hP _ (by rw [(touched_geom c arg i rel s hg).2.2]; exact hmem _ j hj)) h
    simp only [run, specOut]
    cases Handles.pyIndex c.stored i with
    | none => exact ⟨rfl, h⟩
    | some st =>
      simp only
      rw [← this.1]
      rcases hr : getPiece c d (c.base arg) none i o with ⟨x, u⟩
      rw [hr] at this
      cases x with
      | ok p => exact ⟨rfl, this.2⟩
      | error e => cases e <;> exact ⟨rfl, this.2⟩
  | close => exact ⟨rfl, fun e he => by simp [run, closeObj] at he⟩
  | ctxExit => exact ⟨rfl, fun e he => by simp [run, closeObj] at he⟩

theorem run_clean [BEq δ] [Inhabited α] (c : Cfg α δ) (hm : c.memo = false) (d : Disk α)
    (arg : Option Nat) (op : Handles.Op) (o : Obj) (h : cleanFor c d arg op o.tbl = true) :
    (run c d arg none op o).out = specOut c d arg op :=
  (run_spec c hm d arg op o (· ∈ touched c arg op) (fun _ hj => hj) ((cleanFor_iff c d arg op o.tbl).1 h)).1

/-- with or without a fault, whatever the answer: an object without stale handles has none afterwards -/
theorem run_keeps_noStale [BEq δ] [Inhabited α] (c : Cfg α δ) (d : Disk α) (arg : Option Nat) (fault : Option Fault)
    (op : Handles.Op) (o : Obj) (h : noStale d o.tbl = true) :
    noStale d (run c d arg fault op o).obj.tbl = true := by
  rw [noStale_iff] at h ⊢
  cases op with
  | iterFull => exact foldl_iterStep_okOn c d _ fault none _ _ h
  | iterAbandon k => exact foldl_iterStep_okOn c d _ fault (some k) _ _ h
  | getPiece i =>
    have := getPiece_okOn c d (c.base arg) fault i o h
    simp only [run]
    rcases hr : getPiece c d (c.base arg) fault i o with ⟨x, u⟩
    rw [hr] at this
    cases x <;> exact this
  | getPieceHash i => exact getPiece_okOn c d (c.base arg) fault i o h
  | verifyPiece i =>
    have := getPiece_okOn c d (c.base arg) fault i o h
    simp only [run]
    cases Handles.pyIndex c.stored i with
    | none => exact h
    | some st =>
      simp only
      rcases hr : getPiece c d (c.base arg) fault i o with ⟨x, u⟩
      rw [hr] at this
      cases x with
      | ok p => exact this
      | error e => cases e <;> exact this
  | close => exact fun e he => by simp [run, closeObj] at he
  | ctxExit => exact fun e he => by simp [run, closeObj] at he

theorem run_noStale [BEq δ] [Inhabited α] (c : Cfg α δ) (hm : c.memo = false) (d : Disk α)
    (arg : Option Nat) (op : Handles.Op) (o : Obj) (h : noStale d o.tbl = true) :
    (run c d arg none op o).out = specOut c d arg op :=
  (run_spec c hm d arg op o (fun _ => True) (fun _ _ => trivial) ((noStale_iff d o.tbl).1 h)).1

theorem run_fresh [BEq δ] [Inhabited α] (c : Cfg α δ) (hm : c.memo = false) (d : Disk α)
    (arg : Option Nat) (op : Handles.Op) : (run c d arg none op {}).out = specOut c d arg op :=
  run_noStale c hm d arg op {} rfl

/-! ### changes of the disk -/

theorem setIno_entry (d : Disk α) (j : Nat) (f : List α → List α) (k : Nat) :
    (d.setIno j f).entry k = d.entry k := by
  unfold Disk.setIno
  split <;> rfl

theorem entry_set_ne (d : Disk α) (inodes : List (List α)) (j k : Nat) (e : Entry) (h : k ≠ j) :
    ({ inodes := inodes, dir := d.dir.set j e } : Disk α).entry k = d.entry k := by
  simp only [Disk.entry, List.getD_eq_getElem?_getD]
  rw [List.getElem?_set_ne (Ne.symm h)]

/-- a change that is made in place, or whose target the object has no handle of, leaves every
    current handle current -/
theorem apply_okOn (d : Disk α) (x : DiskOp α) (t : Table) (P : Nat → Prop) (h : OkOn P d t)
    (hx : x.hitsOpen t = false) : OkOn P (d.apply x) t := by
  intro e he hp
  have hc := h e he hp
  simp only [Handle.current, beq_iff_eq] at hc ⊢
  have hne : x.inPlace = false → e.file ≠ x.target := by
    intro hi
    simp only [DiskOp.hitsOpen, hi, Bool.not_false, Bool.true_and] at hx
    have : inoOf t x.target = none := by
      cases h' : inoOf t x.target with
      | none => rfl
      | some i => simp [h'] at hx
    exact inoOf_none_mem this e he
  cases x with
  | truncate j n => simpa only [Disk.apply, setIno_entry] using hc
  | extend j b => simpa only [Disk.apply, setIno_entry] using hc
  | rewrite j b => simpa only [Disk.apply, setIno_entry] using hc
  | replace j b =>
    simp only [Disk.apply]
    split
    · rw [entry_set_ne d _ j e.file _ (hne rfl)]; exact hc
    · exact hc
  | unlink j =>
    simp only [Disk.apply]
    rw [entry_set_ne d _ j e.file _ (hne rfl)]; exact hc
  | mkdir j sz =>
    simp only [Disk.apply]
    rw [entry_set_ne d _ j e.file _ (hne rfl)]; exact hc

theorem apply_noStale (d : Disk α) (x : DiskOp α) (t : Table) (h : noStale d t = true)
    (hx : x.hitsOpen t = false) : noStale (d.apply x) t = true :=
  (noStale_iff _ t).2 (apply_okOn d x t _ ((noStale_iff d t).1 h) hx)

/-! ### histories -/

theorem runAllD_clean [BEq δ] [Inhabited α] (c : Cfg α δ) (hm : c.memo = false) (d : Disk α)
    (ss : List (Step α δ)) (o : Obj) :
    ∀ p ∈ (runAllD c d ss o).zip (specAllD c d ss), p.1.clean = true → p.1.out = p.2 := by
  induction ss generalizing c d o with
  | nil => simp [runAllD]
  | cons s ss ih =>
    cases s with
    | op a f x =>
      intro p hp
      simp only [runAllD, specAllD, List.zip_cons_cons, List.mem_cons] at hp
      rcases hp with rfl | hp
      · intro hc
        simp only [Bool.and_eq_true, Option.isNone_iff_eq_none] at hc
        obtain ⟨rfl, hc⟩ := hc
        exact run_clean c hm d a x o hc
      · exact ih c hm d _ p hp
    | disk x =>
      intro p hp
      simp only [runAllD, specAllD, List.zip_cons_cons, List.mem_cons] at hp
      rcases hp with rfl | hp
      · exact fun _ => rfl
      · exact ih c hm _ o p hp
    | setStored hs =>
      intro p hp
      simp only [runAllD, specAllD, List.zip_cons_cons, List.mem_cons] at hp
      rcases hp with rfl | hp
      · exact fun _ => rfl
      · exact ih { c with stored := hs } hm d o p hp

theorem runAllD_noHit [BEq δ] [Inhabited α] (c : Cfg α δ) (hm : c.memo = false) (d : Disk α)
    (ss : List (Step α δ)) (o : Obj) (h0 : noStale d o.tbl = true) (h : noHit c d ss o = true) :
    ∀ p ∈ ((runAllD c d ss o).zip (specAllD c d ss)).zip (ss.map Step.faultFree),
      p.2 = true → p.1.1.out = p.1.2 := by
  induction ss generalizing c d o with
  | nil => simp [runAllD]
  | cons s ss ih =>
    cases s with
    | op a f x =>
      simp only [noHit] at h
      intro p hp
      simp only [runAllD, specAllD, List.map_cons, List.zip_cons_cons, List.mem_cons] at hp
      rcases hp with rfl | hp
      · intro hf
        simp only [Step.faultFree, Option.isNone_iff_eq_none] at hf
        subst hf
        exact run_noStale c hm d a x o h0
      · exact ih c hm d _ (run_keeps_noStale c d a f x o h0) h p hp
    | disk x =>
      simp only [noHit, Bool.and_eq_true, Bool.not_eq_true'] at h
      intro p hp
      simp only [runAllD, specAllD, List.map_cons, List.zip_cons_cons, List.mem_cons] at hp
      rcases hp with rfl | hp
      · exact fun _ => rfl
      · exact ih c hm _ o (apply_noStale d x o.tbl h0 h.1) h.2 p hp
    | setStored hs =>
      simp only [noHit] at h
      intro p hp
      simp only [runAllD, specAllD, List.map_cons, List.zip_cons_cons, List.mem_cons] at hp
      rcases hp with rfl | hp
      · exact fun _ => rfl
      · exact ih { c with stored := hs } hm d o h0 h p hp

/-- … without faults in the history: all answers -/
theorem runAllD_noHit_all [BEq δ] [Inhabited α] (c : Cfg α δ) (hm : c.memo = false) (d : Disk α)
    (ss : List (Step α δ)) (o : Obj) (h0 : noStale d o.tbl = true) (h : noHit c d ss o = true)
    (hf : ss.all Step.faultFree = true) :
    (runAllD c d ss o).map (·.out) = specAllD c d ss := by
  induction ss generalizing c d o with
  | nil => rfl
  | cons s ss ih =>
    simp only [List.all_cons, Bool.and_eq_true] at hf
    cases s with
    | op a f x =>
      have hf1 := hf.1
      simp only [Step.faultFree, Option.isNone_iff_eq_none] at hf1
      subst hf1
      simp only [noHit] at h
      simp only [runAllD, specAllD, List.map_cons]
      rw [run_noStale c hm d a x o h0, ih c hm d _ (run_keeps_noStale c d a none x o h0) h hf.2]
    | disk x =>
      simp only [noHit, Bool.and_eq_true, Bool.not_eq_true'] at h
      simp only [runAllD, specAllD, List.map_cons]
      rw [ih c hm _ o (apply_noStale d x o.tbl h0 h.1) h.2 hf.2]
    | setStored hs =>
      simp only [noHit] at h
      simp only [runAllD, specAllD, List.map_cons]
      rw [ih { c with stored := hs } hm d o h0 h hf.2]

theorem specAllD_eq_freshAllD [BEq δ] [Inhabited α] (c : Cfg α δ) (hm : c.memo = false) (d : Disk α)
    (ss : List (Step α δ)) : specAllD c d ss = freshAllD c d ss := by
  induction ss generalizing c d with
  | nil => rfl
  | cons s ss ih =>
    cases s with
    | op a f x => simp only [specAllD, freshAllD]; rw [ih c hm d, run_fresh c hm d a x]
    | disk x => simp only [specAllD, freshAllD]; rw [ih c hm _]
    | setStored hs => simp only [specAllD, freshAllD]; rw [ih { c with stored := hs } hm d]

/-- histories that change files only in place never hit an open file -/
def inPlaceOnly : List (Step α δ) → Bool
  | [] => true
  | .disk x :: ss => x.inPlace && inPlaceOnly ss
  | _ :: ss => inPlaceOnly ss

theorem noHit_of_inPlaceOnly [BEq δ] [Inhabited α] (c : Cfg α δ) (d : Disk α) (ss : List (Step α δ))
    (o : Obj) (h : inPlaceOnly ss = true) : noHit c d ss o = true := by
  induction ss generalizing c d o with
  | nil => rfl
  | cons s ss ih =>
    cases s with
    | op a f x => exact ih c d _ h
    | disk x =>
      simp only [inPlaceOnly, Bool.and_eq_true] at h
      simp only [noHit, DiskOp.hitsOpen, h.1, Bool.not_true, Bool.false_and, Bool.not_false, Bool.true_and]
      exact ih c _ o h.2
    | setStored hs => exact ih _ d o h

/-! ### the bound on open files -/

theorem statSize_tbl (m : Bool) (d : Disk α) (o : Obj) (j : Nat) : (statSize m d o j).2.tbl = o.tbl := by
  unfold statSize
  split
  · split
    · rfl
    · split <;> rfl
  · rfl

theorem iterStep_bound [Inhabited α] (c : Cfg α δ) (d : Disk α) (base : Nat) (fault : Option Fault)
    (k : Option Nat) (s : ISt α) (j : Nat) (h : s.obj.tbl.length ≤ c.cap + 1) :
    (iterStep c d base fault k s j).obj.tbl.length ≤ c.cap + 1 := by
  unfold iterStep
  split
  · exact h
  · simp only
    split
    · rw [statSize_tbl]; exact h
    · have := length_getOpenFile_le c.cap d (statSize c.memo d s.obj (base + j)).2.tbl (base + j)
        (by rw [statSize_tbl]; exact h)
      split
      · split <;> exact this
      · exact this

theorem foldl_iterStep_bound [Inhabited α] (c : Cfg α δ) (d : Disk α) (base : Nat) (fault : Option Fault)
    (k : Option Nat) (js : List Nat) (s : ISt α) (h : s.obj.tbl.length ≤ c.cap + 1) :
    (js.foldl (iterStep c d base fault k) s).obj.tbl.length ≤ c.cap + 1 := by
  induction js generalizing s with
  | nil => exact h
  | cons j js ih => exact ih _ (iterStep_bound c d base fault k s j h)

theorem getPieceLoop_bound (c : Cfg α δ) (d : Disk α) (base : Nat) (fault : Option Fault) (rel : List Nat)
    (seekTo n : Nat) (piece : List α) (o : Obj) (h : o.tbl.length ≤ c.cap + 1) :
    (getPieceLoop c d base fault rel seekTo n piece o).2.tbl.length ≤ c.cap + 1 := by
  induction rel generalizing seekTo n piece o with
  | nil => exact h
  | cons j js ih =>
    unfold getPieceLoop
    have hg := length_getOpenFile_le c.cap d o.tbl (base + j) h
    simp only
    split
    · exact hg
    · split
      · rw [statSize_tbl]; exact hg
      · split
        · rw [statSize_tbl]; exact hg
        · exact ih _ _ _ _ (by rw [statSize_tbl]; exact hg)

theorem getPiece_bound (c : Cfg α δ) (d : Disk α) (base : Nat) (fault : Option Fault) (i : Int) (o : Obj)
    (h : o.tbl.length ≤ c.cap + 1) : (getPiece c d base fault i o).2.tbl.length ≤ c.cap + 1 := by
  unfold getPiece
  simp only
  split
  · exact h
  · split
    · exact h
    · have := getPieceLoop_bound c d base fault ‹_› ‹_› c.L [] o h
      split
      · exact this
      · split <;> exact this

theorem run_bound [BEq δ] [Inhabited α] (c : Cfg α δ) (d : Disk α) (arg : Option Nat) (fault : Option Fault)
    (op : Handles.Op) (o : Obj) (h : o.tbl.length ≤ c.cap + 1) :
    (run c d arg fault op o).obj.tbl.length ≤ c.cap + 1 := by
  cases op with
  | iterFull => exact foldl_iterStep_bound c d _ fault none _ _ h
  | iterAbandon k => exact foldl_iterStep_bound c d _ fault (some k) _ _ h
  | getPiece i =>
    have := getPiece_bound c d (c.base arg) fault i o h
    simp only [run]
    rcases hr : getPiece c d (c.base arg) fault i o with ⟨x, u⟩
    rw [hr] at this
    cases x <;> exact this
  | getPieceHash i => exact getPiece_bound c d (c.base arg) fault i o h
  | verifyPiece i =>
    have := getPiece_bound c d (c.base arg) fault i o h
    simp only [run]
    cases Handles.pyIndex c.stored i with
    | none => exact h
    | some st =>
      simp only
      rcases hr : getPiece c d (c.base arg) fault i o with ⟨x, u⟩
      rw [hr] at this
      cases x with
      | ok p => exact this
      | error e => cases e <;> exact this
  | close => simp [run, closeObj]
  | ctxExit => simp [run, closeObj]

theorem runAllD_bound [BEq δ] [Inhabited α] (c : Cfg α δ) (d : Disk α) (ss : List (Step α δ)) (o : Obj)
    (h : o.tbl.length ≤ c.cap + 1) : ∀ r ∈ runAllD c d ss o, r.nopen ≤ c.cap + 1 := by
  induction ss generalizing c d o with
  | nil => simp [runAllD]
  | cons s ss ih =>
    cases s with
    | op a f x =>
      intro r hr
      simp only [runAllD, List.mem_cons] at hr
      rcases hr with rfl | hr
      · exact run_bound c d a f x o h
      · exact ih c d _ (run_bound c d a f x o h) r hr
    | disk x =>
      intro r hr
      simp only [runAllD, List.mem_cons] at hr
      rcases hr with rfl | hr
      · exact h
      · exact ih c _ o h r hr
    | setStored hs =>
      intro r hr
      simp only [runAllD, List.mem_cons] at hr
      rcases hr with rfl | hr
      · exact h
      · exact ih { c with stored := hs } d o h r hr

/-! ### undocumented errors need a stale handle -/

/-- the documented outcomes: ValueError, VerifyFileSizeError, ReadError -/
def Err.documented : Err → Bool
  | .value | .size | .readNoent | .readOther => true
  | .assertion | .internal => false

/-- the number of bytes the loop of `get_piece` collects when every relevant file has its recorded
    size (a function of the torrent only) -/
def readLen (sizes : List Nat) : List Nat → Nat → Nat → Nat
  | [], _, _ => 0
  | j :: js, seekTo, n =>
    let k := min n (Missing.sizeOf sizes j - seekTo)
    k + readLen sizes js 0 (n - k)

/-- the geometry helpers name files and a first offset that yield exactly the expected piece
    length (what property C11 proves about the code's geometry) and raise documented errors only -/
def GeomConsistent (c : Cfg α δ) : Prop :=
  ∀ n, match c.geom n with
    | .ok (rel, seekTo) => readLen c.sizes rel seekTo c.L = Handles.expLen c.L c.total n
    | .error e => e.documented = true

theorem specGetPieceLoop_length (c : Cfg α δ) (d : Disk α) (base : Nat) (rel : List Nat) (seekTo n : Nat)
    (piece p : List α) (h : specGetPieceLoop c d base rel seekTo n piece = .ok p) :
    p.length = piece.length + readLen c.sizes rel seekTo n := by
  induction rel generalizing seekTo n piece with
  | nil =>
    simp only [specGetPieceLoop, Except.ok.injEq] at h
    simp [readLen, h]
  | cons j js ih =>
    unfold specGetPieceLoop at h
    cases ho : openPath d (base + j) with
    | error e => simp [ho] at h
    | ok i =>
      have hs : d.size (base + j) = some (d.bytes i).length := by
        simp only [openPath] at ho
        simp only [Disk.size]
        split at ho <;> simp_all
      simp only [ho, hs, Option.isSome_some, Bool.true_and] at h
      split at h
      · simp at h
      · rename_i hne
        have hlen : (d.bytes i).length = Missing.sizeOf c.sizes j := by simpa using hne
        rw [ih _ _ _ h]
        simp only [readLen, List.length_append, List.length_take, List.length_drop, hlen]
        omega

theorem specGetPiece_documented (c : Cfg α δ) (hg : GeomConsistent c) (d : Disk α) (base : Nat)
    (i : Int) (e : Err) (h : specGetPiece c d base i = .error e) : e.documented = true := by
  unfold specGetPiece at h
  simp only at h
  split at h
  · injection h with h; subst h; rfl
  · have hgi := hg i.toNat
    cases hgeom : c.geom i.toNat with
    | error e' =>
      simp only [hgeom] at h hgi
      injection h with h
      subst h
      exact hgi
    | ok r =>
      obtain ⟨rel, seekTo⟩ := r
      simp only [hgeom] at h hgi
      cases hl : specGetPieceLoop c d base rel seekTo c.L [] with
      | error e' =>
        simp only [hl] at h
        injection h with h
        subst h
        -- errors of the loop: ReadError from `open`, VerifyFileSizeError
        clear hgi hgeom
        generalize c.L = n at hl
        generalize ([] : List α) = piece at hl
        induction rel generalizing seekTo n piece with
        | nil => simp [specGetPieceLoop] at hl
        | cons j js ih =>
          unfold specGetPieceLoop at hl
          cases ho : openPath d (base + j) with
          | error e'' =>
            simp only [ho] at hl
            injection hl with hl
            subst hl
            simp only [openPath] at ho
            split at ho <;> simp at ho <;> subst ho <;> rfl
          | ok i' =>
            simp only [ho] at hl
            split at hl
            · injection hl with hl; subst hl; rfl
            · exact ih _ _ _ hl
      | ok p =>
        simp only [hl] at h
        split at h
        · rename_i hne
          have := specGetPieceLoop_length c d base rel seekTo c.L [] p hl
          simp only [List.length_nil, Nat.zero_add] at this
          exact absurd (this.trans hgi) hne
        · simp at h

/-- the specification never answers with an undocumented error, except `internal` from the loop of
    `iter_pieces` (excluded by `C10_no_internal_error` under C10's hypothesis) -/
theorem specOut_documented [BEq δ] [Inhabited α] (c : Cfg α δ) (hg : GeomConsistent c) (d : Disk α)
    (arg : Option Nat) (op : Handles.Op) (e : Err) (h : specOut c d arg op = .err e) :
    e.documented = true ∨ e = .internal := by
  cases op with
  | iterFull =>
    simp only [specOut, iterOut] at h
    split at h
    · injection h with h; exact Or.inr h.symm
    · simp at h
  | iterAbandon k =>
    simp only [specOut, iterOut] at h
    split at h
    · injection h with h; exact Or.inr h.symm
    · simp at h
  | getPiece i =>
    simp only [specOut] at h
    cases hp : specGetPiece c d (c.base arg) i with
    | ok p => simp [hp] at h
    | error e' =>
      simp only [hp] at h
      injection h with h
      subst h
      exact Or.inl (specGetPiece_documented c hg d _ i _ hp)
  | getPieceHash i =>
    simp only [specOut, hashOut] at h
    cases hp : specGetPiece c d (c.base arg) i with
    | ok p => simp [hp] at h
    | error e' =>
      have hd := specGetPiece_documented c hg d _ i _ hp
      simp only [hp] at h
      cases e' <;> first | (simp at h; done) | (injection h with h; subst h; exact Or.inl hd)
  | verifyPiece i =>
    simp only [specOut] at h
    cases hpi : Handles.pyIndex c.stored i with
    | none => simp only [hpi] at h; injection h with h; subst h; exact Or.inl rfl
    | some st =>
      simp only [hpi] at h
      cases hp : specGetPiece c d (c.base arg) i with
      | ok p => simp [hp] at h
      | error e' =>
        have hd := specGetPiece_documented c hg d _ i _ hp
        simp only [hp] at h
        cases e' <;> first | (simp at h; done) | (injection h with h; subst h; exact Or.inl hd)
  | close => simp [specOut] at h
  | ctxExit => simp [specOut] at h

/-! #### a fault surfaces as ReadError, or the operation does not get to it -/

theorem getPieceLoop_fault (c : Cfg α δ) (d : Disk α) (base : Nat) (f : Fault) (rel : List Nat)
    (seekTo n : Nat) (piece : List α) (o : Obj) :
    (getPieceLoop c d base (some f) rel seekTo n piece o).1 = .error .readOther ∨
      getPieceLoop c d base (some f) rel seekTo n piece o = getPieceLoop c d base none rel seekTo n piece o := by
  induction rel generalizing seekTo n piece o with
  | nil => exact Or.inr rfl
  | cons j js ih =>
    unfold getPieceLoop
    simp only
    split
    · exact Or.inr rfl
    · split
      · exact Or.inr rfl
      · have hn : (faultAt (none : Option Fault) j).isSome = false := rfl
        rw [hn]
        cases hf : (faultAt (some f) j).isSome
        · simp only [Bool.false_eq_true, ↓reduceIte]
          exact ih _ _ _ _
        · simp

theorem getPiece_fault (c : Cfg α δ) (d : Disk α) (base : Nat) (f : Fault) (i : Int) (o : Obj) :
    (getPiece c d base (some f) i o).1 = .error .readOther ∨
      getPiece c d base (some f) i o = getPiece c d base none i o := by
  unfold getPiece
  simp only
  split
  · exact Or.inr rfl
  · split
    · exact Or.inr rfl
    · rename_i rel seekTo _
      rcases getPieceLoop_fault c d base f rel seekTo c.L [] o with h | h
      · left; simp [h]
      · right; rw [h]

theorem iterStep_dead [Inhabited α] (c : Cfg α δ) (d : Disk α) (base : Nat) (fault : Option Fault)
    (k : Option Nat) (s : ISt α) (j : Nat) (h : s.io.isSome = true) : iterStep c d base fault k s j = s := by
  unfold iterStep
  simp [h]

theorem foldl_iterStep_dead [Inhabited α] (c : Cfg α δ) (d : Disk α) (base : Nat) (fault : Option Fault)
    (k : Option Nat) (js : List Nat) (s : ISt α) (h : s.io.isSome = true) :
    js.foldl (iterStep c d base fault k) s = s := by
  induction js with
  | nil => rfl
  | cons j js ih => simp only [List.foldl_cons, iterStep_dead c d base fault k s j h, ih]

theorem iterStep_fault [Inhabited α] (c : Cfg α δ) (d : Disk α) (base : Nat) (f : Fault) (k : Option Nat)
    (s : ISt α) (j : Nat) :
    (iterStep c d base (some f) k s j).io = some .readOther ∨
      iterStep c d base (some f) k s j = iterStep c d base none k s j := by
  unfold iterStep
  split
  · exact Or.inr rfl
  · simp only
    split
    · exact Or.inr rfl
    · split
      · cases hfa : faultAt (some f) j with
        | some b => left; rfl
        | none => right; simp [faultAt]
      · exact Or.inr rfl

theorem foldl_iterStep_fault [Inhabited α] (c : Cfg α δ) (d : Disk α) (base : Nat) (f : Fault)
    (k : Option Nat) (js : List Nat) (s : ISt α) :
    (js.foldl (iterStep c d base (some f) k) s).io = some .readOther ∨
      js.foldl (iterStep c d base (some f) k) s = js.foldl (iterStep c d base none k) s := by
  induction js generalizing s with
  | nil => exact Or.inr rfl
  | cons j js ih =>
    simp only [List.foldl_cons]
    rcases iterStep_fault c d base f k s j with h | h
    · left
      rw [foldl_iterStep_dead c d base (some f) k js _ (by rw [h]; rfl)]
      exact h
    · rw [h]
      exact ih _

/-- a transient fault makes the operation answer ReadError — or the operation never gets to the
    faulty `seek`/`read` and answers (and leaves the object) exactly as without the fault -/
theorem run_fault [BEq δ] [Inhabited α] (c : Cfg α δ) (d : Disk α) (arg : Option Nat) (f : Fault)
    (op : Handles.Op) (o : Obj) :
    (run c d arg (some f) op o).out = .err .readOther ∨
      ((run c d arg (some f) op o).out = (run c d arg none op o).out ∧
       (run c d arg (some f) op o).obj = (run c d arg none op o).obj) := by
  have hiter : ∀ k, (iterRun c d (c.base arg) (some f) k o).1 = (.err .readOther : Out α δ) ∨
      iterRun c d (c.base arg) (some f) k o = iterRun c d (c.base arg) none k o := by
    intro k
    rcases foldl_iterStep_fault c d (c.base arg) f k (List.range c.sizes.length) { obj := o } with h | h
    · left; simp only [iterRun, h]
    · right; simp only [iterRun, h]
  cases op with
  | iterFull =>
    rcases hiter none with h | h
    · exact Or.inl h
    · exact Or.inr (by simp only [run, h, and_self])
  | iterAbandon k =>
    rcases hiter (some k) with h | h
    · exact Or.inl h
    · exact Or.inr (by simp only [run, h, and_self])
  | getPiece i =>
    rcases getPiece_fault c d (c.base arg) f i o with h | h
    · left
      simp only [run]
      rcases hr : getPiece c d (c.base arg) (some f) i o with ⟨x, u⟩
      rw [hr] at h
      simp only at h
      subst h
      rfl
    · exact Or.inr (by simp only [run, h, and_self])
  | getPieceHash i =>
    rcases getPiece_fault c d (c.base arg) f i o with h | h
    · left; simp only [run, h, hashOut]
    · exact Or.inr (by simp only [run, h, and_self])
  | verifyPiece i =>
    rcases getPiece_fault c d (c.base arg) f i o with h | h
    · simp only [run]
      cases Handles.pyIndex c.stored i with
      | none => exact Or.inr ⟨rfl, rfl⟩
      | some st => left; simp only [h]
    · exact Or.inr (by simp only [run, h, and_self])
  | close => exact Or.inr ⟨rfl, rfl⟩
  | ctxExit => exact Or.inr ⟨rfl, rfl⟩

/-! ### sequential iteration = property C10's model on the disk as it is now -/

theorem view_getD [Inhabited α] (d : Disk α) (base n j : Nat) (hj : j < n) :
    (d.view base n).getD j none =
      match d.entry (base + j) with
      | .absent => none
      | .file i => some (d.bytes i)
      | .dir s => some (List.replicate s default) := by
  rw [Disk.view, List.getD_eq_getElem?_getD, List.getElem?_map, List.getElem?_range hj]
  rfl

theorem view_getD_ge [Inhabited α] (d : Disk α) (base n j : Nat) (hj : ¬ j < n) :
    (d.view base n).getD j none = none := by
  have h2 : (d.view base n)[j]? = none := List.getElem?_eq_none (by simp [Disk.view]; omega)
  rw [List.getD_eq_getElem?_getD, h2]
  rfl

/-- no directory happens to have the recorded size of the file whose place it has taken -/
def NoDirClash (c : Cfg α δ) (d : Disk α) (base : Nat) : Prop :=
  ∀ j s, d.entry (base + j) = .dir s → s ≠ Missing.sizeOf c.sizes j

theorem specIterStep_eq_missing [Inhabited α] (c : Cfg α δ) (d : Disk α) (base : Nat)
    (hd : NoDirClash c d base) (st : Missing.St α) (j : Nat) (hj : j < c.sizes.length) :
    specIterStep c d base none st j = Missing.step c.L c.sizes (d.view base c.sizes.length) st j := by
  unfold specIterStep Missing.step
  simp only [live, Bool.not_true, Bool.false_or]
  cases hf : st.failed
  · cases hb : st.bycatch.contains j
    · simp only [Bool.or_self, Bool.false_eq_true, ↓reduceIte]
      have hv := view_getD d base c.sizes.length j hj
      rw [List.getD_eq_getElem?_getD] at hv
      rcases he : d.entry (base + j) with _ | i | s
      · have h1 : d.size (base + j) = none := by simp [Disk.size, he]
        have h2 : openPath d (base + j) = .error .readNoent := by simp [openPath, he]
        rw [he] at hv
        simp [Missing.fileError, h1, h2, hv, badFile, hf] <;> rfl
      · have h1 : d.size (base + j) = some (d.bytes i).length := by simp [Disk.size, he]
        have h2 : openPath d (base + j) = .ok i := by simp [openPath, he]
        rw [he] at hv
        by_cases hs : (d.bytes i).length = Missing.sizeOf c.sizes j
        · simp [Missing.fileError, h1, h2, hv, hs, goodFile, hf]
        · simp [Missing.fileError, h1, hv, hs, badFile, hf] <;> rfl
      · have h1 : d.size (base + j) = some s := by simp [Disk.size, he]
        have h2 : openPath d (base + j) = .error .readOther := by simp [openPath, he]
        rw [he] at hv
        have := hd j s he
        simp [Missing.fileError, h1, hv, this, badFile, hf] <;> rfl
    · simp
  · simp

theorem foldl_congr_mem {β γ : Type} (f g : β → γ → β) (l : List γ) (b : β)
    (h : ∀ b x, x ∈ l → f b x = g b x) : l.foldl f b = l.foldl g b := by
  induction l generalizing b with
  | nil => rfl
  | cons x xs ih =>
    simp only [List.foldl_cons]
    rw [h b x (List.mem_cons_self ..)]
    exact ih _ (fun b y hy => h b y (List.mem_cons_of_mem _ hy))

theorem specOut_iterFull_eq_missing [BEq δ] [Inhabited α] (c : Cfg α δ) (d : Disk α) (arg : Option Nat)
    (hd : NoDirClash c d (c.base arg)) :
    specOut c d arg .iterFull =
      match Missing.iterItems c.L c.sizes (d.view (c.base arg) c.sizes.length) with
      | none => .err .internal
      | some xs => .items xs := by
  have : (List.range c.sizes.length).foldl (specIterStep c d (c.base arg) none) {} =
      (List.range c.sizes.length).foldl (Missing.step c.L c.sizes (d.view (c.base arg) c.sizes.length)) {} :=
    foldl_congr_mem _ _ _ _ fun st j hj =>
      specIterStep_eq_missing c d (c.base arg) hd st j (List.mem_range.1 hj)
  simp only [specOut, iterOut, Missing.iterItems, this]
  split
  · rfl
  · split <;> rfl

/-! ### an abandoned iteration yields a prefix of the complete one -/

theorem specIterStep_out [Inhabited α] (c : Cfg α δ) (d : Disk α) (base : Nat) (st : Missing.St α) (j : Nat) :
    ∃ rest, (specIterStep c d base none st j).out = st.out ++ rest := by
  unfold specIterStep
  split
  · exact ⟨[], by simp⟩
  · have hbad : ∀ r, ∃ rest, (badFile c.L c.sizes (d.view base c.sizes.length) st j r).out = st.out ++ rest := by
      intro r
      unfold badFile
      split
      · exact ⟨[], by simp⟩
      · exact ⟨_, rfl⟩
    simp only
    split
    · exact hbad _
    · split
      · exact ⟨_, rfl⟩
      · exact hbad _

theorem specIterStep_live [Inhabited α] (c : Cfg α δ) (d : Disk α) (base k : Nat) (st : Missing.St α) (j : Nat)
    (h : live (some k) st = true) : specIterStep c d base (some k) st j = specIterStep c d base none st j := by
  unfold specIterStep
  rw [h]
  rfl

theorem specIterStep_dead [Inhabited α] (c : Cfg α δ) (d : Disk α) (base k : Nat) (st : Missing.St α) (j : Nat)
    (h : live (some k) st = false) : specIterStep c d base (some k) st j = st := by
  unfold specIterStep
  simp [h]

theorem specIterStep_failed [Inhabited α] (c : Cfg α δ) (d : Disk α) (base : Nat) (k : Option Nat) (st : Missing.St α)
    (j : Nat) (h : st.failed = true) : specIterStep c d base k st j = st := by
  unfold specIterStep
  simp [h]

/-- the state of the abandoned iteration is the state of the complete one, or it froze with at
    least `k` items that the complete one only extends -/
def Frozen (k : Nat) (g f : Missing.St α) : Prop :=
  g = f ∨ (k ≤ g.out.length ∧ g.failed = false ∧ ∃ rest, f.out = g.out ++ rest)

theorem foldl_frozen [Inhabited α] (c : Cfg α δ) (d : Disk α) (base k : Nat) (js : List Nat)
    (g f : Missing.St α) (h : Frozen k g f) :
    Frozen k (js.foldl (specIterStep c d base (some k)) g) (js.foldl (specIterStep c d base none) f) := by
  induction js generalizing g f with
  | nil => exact h
  | cons j js ih =>
    simp only [List.foldl_cons]
    apply ih
    rcases h with rfl | ⟨hk, hnf, rest, hr⟩
    · by_cases hl : live (some k) g = true
      · exact Or.inl (specIterStep_live c d base k g j hl)
      · have hl' : live (some k) g = false := by simpa using hl
        rw [specIterStep_dead c d base k g j hl']
        by_cases hf : g.failed = true
        · exact Or.inl (specIterStep_failed c d base none g j hf).symm
        · refine Or.inr ⟨?_, by simpa using hf, specIterStep_out c d base g j⟩
          simp only [live, decide_eq_false_iff_not, Nat.not_lt] at hl'
          exact hl'
    · have hl' : live (some k) g = false := by
        simp only [live, decide_eq_false_iff_not, Nat.not_lt]; exact hk
      rw [specIterStep_dead c d base k g j hl']
      obtain ⟨r2, hr2⟩ := specIterStep_out c d base f j
      exact Or.inr ⟨hk, hnf, rest ++ r2, by rw [hr2, hr, List.append_assoc]⟩

theorem specOut_iterAbandon [BEq δ] [Inhabited α] (c : Cfg α δ) (d : Disk α) (arg : Option Nat) (k : Nat)
    (xs : List (Missing.Item α)) (h : specOut c d arg .iterFull = .items xs) :
    specOut c d arg (.iterAbandon k) = .items (xs.take k) := by
  have hfz := foldl_frozen c d (c.base arg) k (List.range c.sizes.length) {} {} (Or.inl rfl)
  simp only [specOut, iterOut] at h ⊢
  generalize (List.range c.sizes.length).foldl (specIterStep c d (c.base arg) none) {} = f at h hfz
  generalize (List.range c.sizes.length).foldl (specIterStep c d (c.base arg) (some k)) {} = g at hfz
  split at h
  · simp at h
  · rename_i hff
    simp only [Out.items.injEq] at h
    rcases hfz with rfl | ⟨hk, hnf, rest, hr⟩
    · simp only [hff, Bool.false_eq_true, ↓reduceIte, Out.items.injEq]
      rw [← h]
    · simp only [hnf, Bool.false_eq_true, ↓reduceIte, Out.items.injEq]
      rw [← h]
      have h1 : ∀ (tl : List (Missing.Item α)), (g.out ++ tl).take k = g.out.take k := by
        intro tl
        rw [List.take_append_of_le_length hk]
      split <;> split <;> simp only [hr, List.append_assoc, h1]

end Torf.HandlesDisk
