/-
  The sequential reader of the handle-table model (C19) computes `chunks`.
-/
import Torf.Lemmas.Handles
namespace Torf.Handles
open Torf

/-! ### the loops as folds over explicit chunk lists -/

/-- outer loop body, guarded by the consumer's budget -/
def item (L : Nat) (x : List α) (p : IterP α) : IterP α :=
  if p.live then outerItem L x p else p

def feedB (L : Nat) (cs : List (List α)) (p : IterP α) : IterP α :=
  cs.foldl (fun p x => item L x p) p

/-- table-free version of `fileStep` -/
def fstep (L : Nat) (p : IterP α) (F : List α) : IterP α :=
  if p.live then feedB L (chunks L (p.carry ++ F)) { p with carry := [] } else p

theorem feedB_cons (L : Nat) (x : List α) (cs : List (List α)) (p : IterP α) :
    feedB L (x :: cs) p = feedB L cs (item L x p) := rfl

theorem feedB_nil (L : Nat) (p : IterP α) : feedB L [] p = p := rfl

theorem item_dead (L : Nat) (x : List α) (p : IterP α) (h : p.live = false) : item L x p = p := by
  simp [item, h]

theorem item_live (L : Nat) (x : List α) (p : IterP α) (h : p.live = true) :
    item L x p = outerItem L x p := by
  simp [item, h]

theorem feedB_dead (L : Nat) (cs : List (List α)) (p : IterP α) (h : p.live = false) :
    feedB L cs p = p := by
  induction cs with
  | nil => rfl
  | cons x cs ih => rw [feedB_cons, item_dead L x p h]; exact ih

theorem drop_length_take (L : Nat) (xs : List α) : xs.drop (xs.take L).length = xs.drop L := by
  rw [List.length_take]
  by_cases h : L ≤ xs.length
  · rw [Nat.min_eq_left h]
  · rw [List.drop_eq_nil_of_le (by omega), List.drop_eq_nil_of_le (by omega)]

theorem isEmpty_take_false (L : Nat) (hL : 0 < L) (rest : List α) (hne : rest ≠ []) :
    (rest.take L).isEmpty = false := by
  cases rest with
  | nil => exact absurd rfl hne
  | cons a t =>
    cases L with
    | zero => omega
    | succ l => simp

theorem eta_self (p : IterP α) : IterP.mk p.out p.left p.carry p.bad p.starved = p := by cases p; rfl

theorem readLoop_feedB (files : List (List α)) (L j : Nat) (hL : 0 < L) (fuel : Nat) (p : IterP α)
    (t : Table) (o : Nat) (ho : offsetOf t j = some o)
    (hf : ((files.getD j []).drop o).length < fuel) :
    (readLoop files L j fuel p t).1 = feedB L (chunks L ((files.getD j []).drop o)) p := by
  induction fuel generalizing p t o with
  | zero => omega
  | succ fuel ih =>
    unfold readLoop
    by_cases hl : p.live = true
    · rw [read_of_offset files t j L o ho]
      simp only [hl, Bool.not_true, Bool.false_eq_true, if_false, Bool.or_false]
      rw [eta_self]
      by_cases hne : (files.getD j []).drop o = []
      · rw [hne]; simp [feedB_nil]
      · rw [isEmpty_take_false L hL _ hne]
        simp only [Bool.false_eq_true, if_false]
        rw [chunks_cons_of_ne L hL _ hne, feedB_cons, item_live L _ p hl]
        have hpos := List.length_pos_iff.mpr hne
        have hd : (files.getD j []).drop (o + (((files.getD j []).drop o).take L).length)
            = ((files.getD j []).drop o).drop L := by
          rw [← drop_length_take L ((files.getD j []).drop o), List.drop_drop]
        have := ih (outerItem L (((files.getD j []).drop o).take L) p)
          (seek t j (o + (((files.getD j []).drop o).take L).length))
          (o + (((files.getD j []).drop o).take L).length)
          (offsetOf_seek_self t j _ o ho)
          (by rw [hd]; simp only [List.length_drop] at hf hpos ⊢; omega)
        rw [this, hd]
    · have hl' : p.live = false := by simpa using hl
      simp only [hl', Bool.not_false, if_true]
      rw [feedB_dead _ _ _ hl']

theorem prependLoop_short (L n : Nat) (pre : List α) (p : IterP α) (hl : p.live = true)
    (h : pre.length < L) : prependLoop L (n + 1) pre p = (p, pre) := by
  unfold prependLoop
  by_cases hne : pre = []
  · subst hne; simp [hl]
  · have he : pre.isEmpty = false := by
      cases pre with
      | nil => exact absurd rfl hne
      | cons _ _ => rfl
    have ht : pre.take L = pre := List.take_of_length_le (by omega)
    have hn : ¬ pre.length = L := by omega
    simp only [hl, he, ht, hn, Bool.not_true, Bool.or_false, Bool.false_eq_true, if_false]

theorem live_carry_nil (p : IterP α) : ({ p with carry := [] } : IterP α).live = p.live := rfl

theorem fromHandle_fstep (files : List (List α)) (L j : Nat) (hL : 0 < L) (p : IterP α) (t : Table)
    (hl : p.live = true) (hc : p.carry.length < L) (ho : offsetOf t j = some 0) :
    (fromHandle files L j p t).1 = fstep L p (files.getD j []) := by
  unfold fromHandle fstep
  · rw [prependLoop_short L _ _ _ (by rw [live_carry_nil]; exact hl) hc]
    unfold afterPrepend
    simp only [hl, live_carry_nil, Bool.not_true, Bool.false_eq_true, if_false, if_true]
    by_cases hp : p.carry = []
    · simp only [hp, List.isEmpty_nil, if_true, List.nil_append]
      rw [readLoop_feedB files L j hL _ _ t 0 ho (by simp)]
      simp
    · have he : p.carry.isEmpty = false := by
        cases hs : p.carry with
        | nil => exact absurd hs hp
        | cons _ _ => rfl
      simp only [he, Bool.false_eq_true, if_false]
      rw [read_of_offset files t j _ 0 ho]
      simp only [Bool.not_true, Bool.or_false, List.drop_zero, Nat.zero_add]
      rw [readLoop_feedB files L j hL _ _ _ _ (offsetOf_seek_self t j _ 0 ho)
        (by simp only [List.length_drop]; omega)]
      have hne : p.carry ++ files.getD j [] ≠ [] := by simp [hp]
      rw [chunks_cons_of_ne L hL _ hne, feedB_cons, item_live L _ _ (by rw [live_carry_nil]; exact hl)]
      have ht : (p.carry ++ files.getD j []).take L
          = p.carry ++ (files.getD j []).take (L - p.carry.length) := by
        rw [List.take_append, List.take_of_length_le (by omega)]
      have hd : (p.carry ++ files.getD j []).drop L = (files.getD j []).drop (L - p.carry.length) := by
        rw [List.drop_append, List.drop_eq_nil_of_le (by omega)]
        simp
      rw [ht, hd, drop_length_take]


/-! ### `fileStep` without tables -/

theorem carry_item (L : Nat) (x : List α) (p : IterP α) (hc : p.carry.length < L)
    (hx : x.length ≤ L) : (item L x p).carry.length < L := by
  unfold item outerItem
  split
  · split
    · exact hc
    · show x.length < L
      omega
  · exact hc

theorem carry_feedB (L : Nat) (cs : List (List α)) (p : IterP α) (hc : p.carry.length < L)
    (hcs : ∀ c ∈ cs, c.length ≤ L) : (feedB L cs p).carry.length < L := by
  induction cs generalizing p with
  | nil => exact hc
  | cons x cs ih =>
    rw [feedB_cons]
    exact ih _ (carry_item L x p hc (hcs x (List.mem_cons_self ..)))
      (fun c h => hcs c (List.mem_cons_of_mem _ h))

theorem carry_fstep (L : Nat) (hL : 0 < L) (p : IterP α) (F : List α) (hc : p.carry.length < L) :
    (fstep L p F).carry.length < L := by
  unfold fstep
  split
  · exact carry_feedB L _ _ hL (fun c h => (length_of_mem_chunks L hL _ c h).2)
  · exact hc

theorem fileStep_fstep (files : List (List α)) (cap L j : Nat) (hL : 0 < L) (p : IterP α) (t : Table)
    (hc : p.carry.length < L) :
    (fileStep true files cap L (p, t) j).1 = fstep L p (files.getD j []) := by
  unfold fileStep
  by_cases hl : p.live = true
  · simp only [hl, Bool.not_true, Bool.false_eq_true, if_false, if_true]
    exact fromHandle_fstep files L j hL p _ hl hc (offsetOf_open_seek cap t j 0)
  · have hl' : p.live = false := by simpa using hl
    simp [hl', fstep]

theorem foldl_fileStep_fstep (files : List (List α)) (cap L : Nat) (hL : 0 < L) (js : List Nat)
    (p : IterP α) (t : Table) (hc : p.carry.length < L) :
    (js.foldl (fileStep true files cap L) (p, t)).1 =
      (js.map (fun j => files.getD j [])).foldl (fstep L) p := by
  induction js generalizing p t with
  | nil => rfl
  | cons j js ih =>
    simp only [List.foldl_cons, List.map_cons]
    have e : fileStep true files cap L (p, t) j =
        (fstep L p (files.getD j []), (fileStep true files cap L (p, t) j).2) := by
      rw [← fileStep_fstep files cap L j hL p t hc]
    rw [e]
    exact ih _ _ (carry_fstep L hL p _ hc)

theorem map_range_getD (files : List (List α)) :
    (List.range files.length).map (fun j => files.getD j []) = files := by
  apply List.ext_getElem
  · simp
  · intro i h1 h2
    simp [List.getElem?_eq_getElem h2]

/-- the generator's own state after the `for file in files` loop, table-free -/
theorem iterRun_fold (files : List (List α)) (cap L : Nat) (hL : 0 < L) (k : Option Nat) (t : Table) :
    ((List.range files.length).foldl (fileStep true files cap L) (iterInit k, t)).1 =
      files.foldl (fstep L) (iterInit k) := by
  rw [foldl_fileStep_fstep files cap L hL _ _ _ (by simpa [iterInit] using hL), map_range_getD]


/-! ### unbounded consumer (`left = none`): the pure model of C01 -/

theorem feedB_none (L : Nat) (cs : List (List α)) (p : IterP α) (hp : p.left = none) :
    feedB L cs p = { p with
      out := (cs.foldl (fun st x => if x.length = L then (st.1, st.2 ++ [x]) else (x, st.2))
        (p.carry, p.out)).2,
      carry := (cs.foldl (fun st x => if x.length = L then (st.1, st.2 ++ [x]) else (x, st.2))
        (p.carry, p.out)).1 } := by
  induction cs generalizing p with
  | nil => cases p; rfl
  | cons x cs ih =>
    have hl : p.live = true := by simp [IterP.live, hp]
    rw [feedB_cons, item_live L x p hl]
    simp only [List.foldl_cons]
    by_cases hx : x.length = L
    · have e : outerItem L x p = { p with out := p.out ++ [x] } := by
        cases p
        simp only at hp
        subst hp
        simp [outerItem, emit, hx]
      rw [e, ih { p with out := p.out ++ [x] } hp]
      simp only [hx, if_true]
    · have e : outerItem L x p = { p with carry := x } := by
        simp [outerItem, hx]
      rw [e, ih { p with carry := x } hp]
      simp only [hx, if_false]

theorem fstep_none (L : Nat) (hL : 0 < L) (p : IterP α) (F : List α) (hp : p.left = none) :
    fstep L p F = { p with
      out := (Stream.fileStep L (p.carry, p.out) F).2,
      carry := (Stream.fileStep L (p.carry, p.out) F).1 } := by
  have hl : p.live = true := by simp [IterP.live, hp]
  unfold fstep
  simp only [hl, if_true]
  rw [feedB_none L _ { p with carry := [] } hp]
  unfold Stream.fileStep Stream.consume
  rw [Stream.iterFromHandle_eq_chunks L hL]

theorem foldl_fstep_none (L : Nat) (hL : 0 < L) (files : List (List α)) (p : IterP α)
    (hp : p.left = none) :
    files.foldl (fstep L) p = { p with
      out := (files.foldl (Stream.fileStep L) (p.carry, p.out)).2,
      carry := (files.foldl (Stream.fileStep L) (p.carry, p.out)).1 } := by
  induction files generalizing p with
  | nil => cases p; rfl
  | cons F fs ih =>
    simp only [List.foldl_cons]
    rw [fstep_none L hL p F hp]
    exact ih { p with
      out := (Stream.fileStep L (p.carry, p.out) F).2,
      carry := (Stream.fileStep L (p.carry, p.out) F).1 } hp

theorem iterRun_none (files : List (List α)) (cap L : Nat) (hL : 0 < L) (t : Table) :
    (iterRun true files cap L none t).1.out = chunks L files.flatten ∧
      (iterRun true files cap L none t).1.starved = false := by
  unfold iterRun
  simp only
  have h := iterRun_fold files cap L hL none t
  generalize (List.range files.length).foldl (fileStep true files cap L) (iterInit none, t) = r at h ⊢
  rw [foldl_fstep_none L hL files _ rfl] at h
  have hc := Stream.iterPieces_eq_chunks L hL files
  unfold Stream.iterPieces at hc
  simp only [iterInit] at h
  simp only at hc
  generalize files.foldl (Stream.fileStep L) ([], []) = st at h hc
  obtain ⟨r1, r2⟩ := r
  simp only at h
  subst h
  have hl : ∀ (o : List (List α)) (c : List α), (IterP.mk o none c false false).live = true :=
    fun _ _ => rfl
  simp only [hl, Bool.true_and]
  by_cases he : st.1.isEmpty = true
  · simp only [he, if_true] at hc
    simp only [he, Bool.not_true, Bool.false_eq_true, if_false]
    exact ⟨hc, by trivial⟩
  · have he' : st.1.isEmpty = false := by simpa using he
    simp only [he', Bool.false_eq_true, if_false] at hc
    simp only [he', Bool.not_false, if_true]
    exact ⟨hc, by trivial⟩

theorem run_iterFull_spec [BEq δ] (c : Cfg α δ) (hfix : c.fix = true) (hL : 0 < c.L) (t : Table) :
    (run c .iterFull t).out = .pieces (chunks c.L c.files.flatten) := by
  simp only [run, hfix]
  obtain ⟨h1, h2⟩ := iterRun_none c.files c.cap c.L hL t
  have h3 := (iterRun_indep c.files c.cap c.L none t t).2
  simp only [iterOut, h1, h2, h3, Bool.false_eq_true, if_false]


/-! ### a consumer that stops after `k` items sees the first `k` items of the unbounded run -/

/-- `q`: state of the unbounded run, `p`: state of the run abandoned after `k` items -/
structure Sim (k : Nat) (q p : IterP α) : Prop where
  qleft : q.left = none
  bad : p.bad = q.bad
  starved : p.starved = q.starved
  out : p.out = q.out.take k
  left : p.left = some (k - q.out.length)
  carry : q.out.length < k → p.carry = q.carry

theorem Sim.live_iff {k : Nat} {q p : IterP α} (h : Sim k q p) :
    p.live = decide (q.out.length < k) := by
  by_cases hlt : q.out.length < k
  · have : ¬ k - q.out.length = 0 := by omega
    simp [IterP.live, h.left, hlt, this]
  · have : k - q.out.length = 0 := by omega
    simp [IterP.live, h.left, hlt, this]

theorem Sim.qlive {k : Nat} {q p : IterP α} (h : Sim k q p) : q.live = true := by
  simp [IterP.live, h.qleft]

theorem sim_emit {k : Nat} {q p : IterP α} (x : List α) (h : Sim k q p) :
    Sim k (emit x q) (if p.live then emit x p else p) := by
  have hlive := h.live_iff
  by_cases hlt : q.out.length < k
  · have hl : p.live = true := by rw [hlive]; simpa using hlt
    rw [hl]
    simp only [if_true]
    constructor
    · simp [emit, h.qleft]
    · exact h.bad
    · exact h.starved
    · show p.out ++ [x] = (q.out ++ [x]).take k
      rw [h.out, List.take_append, List.take_of_length_le (l := [x]) (by simp; omega)]
    · show p.left.map (· - 1) = some (k - (q.out ++ [x]).length)
      rw [h.left]
      simp only [Option.map_some, List.length_append, List.length_cons, List.length_nil]
      congr 1 <;> omega
    · intro _; exact h.carry hlt
  · have hl : p.live = false := by rw [hlive]; simpa using hlt
    rw [hl]
    simp only [Bool.false_eq_true, if_false]
    constructor
    · simp [emit, h.qleft]
    · exact h.bad
    · exact h.starved
    · show p.out = (q.out ++ [x]).take k
      rw [List.take_append_of_le_length (by omega)]
      exact h.out
    · show p.left = some (k - (q.out ++ [x]).length)
      rw [h.left]
      simp only [List.length_append, List.length_cons, List.length_nil]
      congr 1
      omega
    · intro h'
      have : (emit x q).out.length = q.out.length + 1 := by simp [emit]
      omega

theorem sim_carry {k : Nat} {q p : IterP α} (c : List α) (h : Sim k q p) :
    Sim k { q with carry := c } (if p.live then { p with carry := c } else p) := by
  have hlive := h.live_iff
  by_cases hlt : q.out.length < k
  · have hl : p.live = true := by rw [hlive]; simpa using hlt
    rw [hl]
    simp only [if_true]
    exact ⟨h.qleft, h.bad, h.starved, h.out, h.left, fun _ => rfl⟩
  · have hl : p.live = false := by rw [hlive]; simpa using hlt
    rw [hl]
    simp only [Bool.false_eq_true, if_false]
    exact ⟨h.qleft, h.bad, h.starved, h.out, h.left, fun h' => absurd h' hlt⟩

theorem sim_item {k : Nat} {q p : IterP α} (L : Nat) (x : List α) (h : Sim k q p) :
    Sim k (item L x q) (item L x p) := by
  rw [item_live L x q h.qlive]
  unfold item outerItem
  by_cases hx : x.length = L
  · simp only [hx, if_true]
    exact sim_emit x h
  · simp only [hx, if_false]
    exact sim_carry x h

theorem sim_feedB {k : Nat} (L : Nat) (cs : List (List α)) {q p : IterP α} (h : Sim k q p) :
    Sim k (feedB L cs q) (feedB L cs p) := by
  induction cs generalizing q p with
  | nil => exact h
  | cons x cs ih => rw [feedB_cons, feedB_cons]; exact ih (sim_item L x h)

theorem sim_fstep {k : Nat} (L : Nat) (F : List α) {q p : IterP α} (h : Sim k q p) :
    Sim k (fstep L q F) (fstep L p F) := by
  unfold fstep
  rw [h.qlive]
  simp only [if_true]
  have h0 := sim_carry [] h
  by_cases hl : p.live = true
  · simp only [hl, if_true] at h0 ⊢
    have hc : p.carry = q.carry := h.carry (by simpa [h.live_iff] using hl)
    rw [hc]
    exact sim_feedB L _ h0
  · have hl' : p.live = false := by simpa using hl
    simp only [hl', Bool.false_eq_true, if_false] at h0 ⊢
    have := sim_feedB L (chunks L (q.carry ++ F)) h0
    rw [feedB_dead L _ p hl'] at this
    exact this

theorem sim_foldl {k : Nat} (L : Nat) (files : List (List α)) {q p : IterP α} (h : Sim k q p) :
    Sim k (files.foldl (fstep L) q) (files.foldl (fstep L) p) := by
  induction files generalizing q p with
  | nil => exact h
  | cons F fs ih => simp only [List.foldl_cons]; exact ih (sim_fstep L F h)

/-- the final `if trailing_bytes: yield trailing_bytes` -/
def fin (p : IterP α) : IterP α := if p.live && !p.carry.isEmpty then emit p.carry p else p

theorem sim_fin {k : Nat} {q p : IterP α} (h : Sim k q p) : Sim k (fin q) (fin p) := by
  unfold fin
  rw [h.qlive]
  simp only [Bool.true_and]
  by_cases hl : p.live = true
  · have hc : p.carry = q.carry := h.carry (by simpa [h.live_iff] using hl)
    have := sim_emit q.carry h
    simp only [hl, if_true] at this
    simp only [hl, Bool.true_and, hc]
    by_cases he : q.carry.isEmpty = true
    · simp only [he, Bool.not_true, Bool.false_eq_true, if_false]; exact h
    · have he' : q.carry.isEmpty = false := by simpa using he
      simp only [he', Bool.not_false, if_true]; exact this
  · have hl' : p.live = false := by simpa using hl
    have := sim_emit q.carry h
    simp only [hl', Bool.false_eq_true, if_false] at this
    simp only [hl', Bool.false_and, Bool.false_eq_true, if_false]
    by_cases he : q.carry.isEmpty = true
    · simp only [he, Bool.not_true, Bool.false_eq_true, if_false]; exact h
    · have he' : q.carry.isEmpty = false := by simpa using he
      simp only [he', Bool.not_false, if_true]; exact this

theorem iterRun_fst (files : List (List α)) (cap L : Nat) (hL : 0 < L) (k : Option Nat) (t : Table) :
    (iterRun true files cap L k t).1 = fin (files.foldl (fstep L) (iterInit k)) := by
  rw [← iterRun_fold files cap L hL k t]
  unfold iterRun fin
  simp only
  split <;> rfl

theorem sim_iterRun (files : List (List α)) (cap L : Nat) (hL : 0 < L) (k : Nat) (t : Table) :
    Sim k (iterRun true files cap L none t).1 (iterRun true files cap L (some k) t).1 := by
  rw [iterRun_fst files cap L hL, iterRun_fst files cap L hL]
  apply sim_fin
  apply sim_foldl
  exact ⟨rfl, rfl, rfl, by simp [iterInit], rfl, fun _ => rfl⟩

theorem run_iterAbandon_spec [BEq δ] (c : Cfg α δ) (hfix : c.fix = true) (hL : 0 < c.L) (k : Nat)
    (t : Table) :
    (run c (.iterAbandon k) t).out = .pieces ((chunks c.L c.files.flatten).take k) := by
  simp only [run, hfix]
  obtain ⟨h1, h2⟩ := iterRun_none c.files c.cap c.L hL t
  have hs := sim_iterRun c.files c.cap c.L hL k t
  have h3 := (iterRun_indep c.files c.cap c.L (some k) t t).2
  have h4 := hs.starved
  have h5 := hs.out
  rw [h2] at h4
  rw [h1] at h5
  simp only [iterOut, h3, h4, h5, Bool.false_eq_true, if_false]

end Torf.Handles
