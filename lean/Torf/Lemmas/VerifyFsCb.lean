/-
  Helper lemmas for C02 over the full alphabet of path states (part 4): `verifyFs` in closed form
  when no `read` fails — the run of the classic model on `mainDisk` with the by-catch exceptions
  a stat-only probe does not confirm dropped — and what is known when one does fail.
-/
import Torf.Lemmas.VerifyFsSim
import Torf.Lemmas.VerifyFsFirst
namespace Torf.VerifyFs
open Torf Torf.Missing Torf.Verify

variable {α δ : Type} [Inhabited α] [DecidableEq δ]

/-- the ReadError (file, errno) with which the reader thread dies, if it does -/
def readFault (L : Nat) (sizes : List Nat) (fd : List (FState α)) : Option (Nat × Nat) :=
  ((List.range sizes.length).foldl (stepFs L sizes fd) {}).fault

theorem weaker_disks (sizes : List Nat) (fd : List (FState α)) :
    Weaker sizes (mainDisk sizes fd) (statDisk fd) := fileError_statDisk sizes fd

theorem iterItemsFs_nofault (L : Nat) (sizes : List Nat) (fd : List (FState α))
    (h : readFault L sizes fd = none) :
    iterItemsFs L sizes fd =
      (iterItems L sizes (mainDisk sizes fd)).map fun items =>
        ⟨items.map (dropSilent sizes (statDisk fd)), none⟩ := by
  unfold readFault at h
  rcases fold_fs L sizes fd (List.range sizes.length) {} rfl with ⟨_, hst⟩ | ⟨j, e, hflt, _⟩
  · obtain ⟨h1, _, _, _, h5, h6⟩ := fold_step2_sim L sizes (mainDisk sizes fd) (statDisk fd)
      (weaker_disks sizes fd) (List.range sizes.length) {} {} ⟨rfl, rfl, rfl, rfl, rfl, rfl⟩
    unfold iterItemsFs iterItems
    simp only [h, hst, h1, h5, h6, Option.isSome_none, Bool.false_eq_true, if_false]
    split
    · rfl
    · split
      · rfl
      · simp [dropSilent_dataItem]
  · rw [h] at hflt; cases hflt

theorem iterItemsFs_fault (L : Nat) (sizes : List Nat) (fd : List (FState α)) (j e : Nat)
    (h : readFault L sizes fd = some (j, e)) :
    ReadFails sizes fd j e ∧ j < sizes.length ∧
      ∃ items, iterItemsFs L sizes fd = some ⟨items, some (j, e)⟩ := by
  unfold readFault at h
  rcases fold_fs L sizes fd (List.range sizes.length) {} rfl with ⟨hn, _⟩ | ⟨j', e', hflt, hmem, hrf, hnf⟩
  · rw [h] at hn; cases hn
  · rw [h] at hflt
    cases hflt
    refine ⟨hrf, List.mem_range.mp hmem, ((List.range sizes.length).foldl (stepFs L sizes fd) {}).st.out, ?_⟩
    unfold iterItemsFs
    simp only [hnf, h, Bool.false_eq_true, if_false, Option.isSome_some, if_true]

/-! ### the run when no `read` fails -/

omit [Inhabited α] [DecidableEq δ] in
theorem itemHashes_dropSilent (H : List α → δ) (sizes : List Nat) (dB : List (Option (List α)))
    (it : Item α) (hclean : it.data.isSome → it.excs = []) :
    itemHashes H (dropSilent sizes dB it) = itemHashes H it := by
  cases hd : it.data with
  | none =>
    unfold itemHashes
    simp only [dropSilent_data, hd, ite_self]
  | some d =>
    have he := hclean (by rw [hd]; rfl)
    have : dropSilent sizes dB it = it := by
      unfold dropSilent; cases it; simp only at he; subst he; rfl
    rw [this]

omit [Inhabited α] [DecidableEq δ] in
theorem hashes_dropSilent (H : List α → δ) (sizes : List Nat) (dB : List (Option (List α)))
    (items : List (Item α)) (hclean : ∀ it ∈ items, it.data.isSome → it.excs = []) :
    (items.map (dropSilent sizes dB)).flatMap (itemHashes H) = items.flatMap (itemHashes H) := by
  induction items with
  | nil => rfl
  | cons it items ih =>
    simp only [List.map_cons, List.flatMap_cons]
    rw [itemHashes_dropSilent H sizes dB it (hclean it List.mem_cons_self),
      ih (fun x hx => hclean x (List.mem_cons_of_mem _ hx))]

/-- everything the C02 theorems need to know about one run of `verify` in which no `read` fails -/
structure RunFs (H : List α → δ) (L : Nat) (sizes : List Nat) (fd : List (FState α))
    (stored : List δ) (items : List (Item α)) : Prop where
  hit : iterItemsFs L sizes fd = some ⟨items, none⟩
  len : items.length = nPieces L sizes.sum
  data : items.map (·.data) = specData L sizes (mainDisk sizes fd)
  clean : ∀ it ∈ items, it.data.isSome → it.excs = []
  repSub : (reported items).Sublist (badFiles sizes (mainDisk sizes fd))
  repSup : (badFiles sizes (statDisk fd)).Sublist (reported items)
  spec : (items.flatMap (itemHashes H) == stored) = SpecOk H L sizes (mainDisk sizes fd) stored
  exc : SpecOk H L sizes (mainDisk sizes fd) stored = false →
    excsOf (items.zipIdx.flatMap (itemCalls H L sizes stored)) ≠ []

omit [Inhabited α] in
theorem excs_ne_nil_of_head (H : List α → δ) (L : Nat) (sizes : List Nat) (stored : List δ)
    (pre : List (Item α)) (first : Item α) (rest : List (Item α)) (e : Nat × ErrKind)
    (he : first.excs.head? = some e) :
    excsOf ((pre ++ first :: rest).zipIdx.flatMap (itemCalls H L sizes stored)) ≠ [] := by
  rw [List.zipIdx_append, List.flatMap_append, excsOf_append]
  simp only [List.zipIdx_cons, List.flatMap_cons, excsOf_append]
  have hne : first.excs.isEmpty = false := by
    cases hx : first.excs with
    | nil => simp [hx] at he
    | cons _ _ => rfl
  rw [excsOf_itemCalls]
  simp only [hne, Bool.not_false, if_true]
  cases hx : first.excs with
  | nil => simp [hx] at he
  | cons x xs => simp

omit [Inhabited α] in
theorem mem_excs_of_head (H : List α → δ) (L : Nat) (sizes : List Nat) (stored : List δ)
    (pre : List (Item α)) (first : Item α) (rest : List (Item α)) (e : Nat × ErrKind)
    (he : first.excs.head? = some e) :
    excOf e ∈ excsOf ((pre ++ first :: rest).zipIdx.flatMap (itemCalls H L sizes stored)) := by
  rw [List.zipIdx_append, List.flatMap_append, excsOf_append]
  simp only [List.zipIdx_cons, List.flatMap_cons, excsOf_append]
  have hne : first.excs.isEmpty = false := by
    cases hx : first.excs with
    | nil => simp [hx] at he
    | cons _ _ => rfl
  rw [excsOf_itemCalls]
  simp only [hne, Bool.not_false, if_true]
  cases hx : first.excs with
  | nil => simp [hx] at he
  | cons x xs =>
    rw [hx] at he
    simp only [List.head?_cons, Option.some.injEq] at he
    subst he
    simp

theorem runFs_exists (H : List α → δ) (L : Nat) (hL : 0 < L) (sizes : List Nat)
    (fd : List (FState α)) (stored : List δ)
    (hyp : NoBadEmpty sizes (mainDisk sizes fd) = true)
    (hlen : stored.length = nPieces L sizes.sum) (hnf : readFault L sizes fd = none) :
    ∃ items, RunFs H L sizes fd stored items := by
  obtain ⟨items, run⟩ := run_exists H L hL sizes (mainDisk sizes fd) stored hyp hlen
  have hit : iterItemsFs L sizes fd =
      some ⟨items.map (dropSilent sizes (statDisk fd)), none⟩ := by
    rw [iterItemsFs_nofault L sizes fd hnf, run.hit]; rfl
  refine ⟨items.map (dropSilent sizes (statDisk fd)), hit, ?_, ?_, ?_, ?_, ?_, ?_, ?_⟩
  · rw [List.length_map, run.len]
  · rw [List.map_map, ← run.data]
    apply List.map_congr_left
    intro it _
    rfl
  · intro it hit' hd
    obtain ⟨it0, h0, rfl⟩ := List.mem_map.mp hit'
    have := run.clean it0 h0 (by rwa [dropSilent_data] at hd)
    unfold dropSilent
    simp only [this, List.filter_nil]
  · rw [← run.rep]
    exact reported_dropSilent_sublist sizes (statDisk fd) items
  · exact badFiles_sublist_reported sizes (mainDisk sizes fd) (statDisk fd)
      (weaker_disks sizes fd) items run.rep
  · rw [hashes_dropSilent H sizes (statDisk fd) items run.clean, run.spec]
  · intro hs
    by_cases hg : AllGood sizes (mainDisk sizes fd) = true
    · -- nothing to drop: the items are data items
      have := run.exc hs
      rwa [run.good hg, map_dropSilent_dataItem, ← run.good hg]
    · -- the first damaged file is reported by an item of its own
      have hgf : AllGoodFs sizes fd = false := by
        cases hx : AllGoodFs sizes fd with
        | false => rfl
        | true => exact absurd (allGood_of_allGoodFs sizes fd hx) hg
      obtain ⟨j0, o, hj0, hbad, hfirst⟩ := exists_first_owed sizes fd hgf
      have hfd := iterItemsFs_first_damaged L sizes fd j0 o hj0 hbad hfirst
      rw [hit] at hfd
      generalize hrun : (some (⟨items.map (dropSilent sizes (statDisk fd)), none⟩ : FsRun α)) = r
        at hfd
      cases hfd with
      | internal => cases hrun
      | reported pre first rest fault kind hd he hfile ho herrno =>
        simp only [Option.some.injEq, FsRun.mk.injEq] at hrun
        rw [hrun.1]
        exact excs_ne_nil_of_head H L sizes stored _ first rest _ he
      | readFault pre e ho =>
        simp only [Option.some.injEq, FsRun.mk.injEq] at hrun
        exact absurd hrun.2 (by simp)

/-- `verify` with a callback, in closed form (no `read` fails) -/
theorem verifyFs_cb (H : List α → δ) (L : Nat) (sizes : List Nat)
    (fd : List (FState α)) (stored : List δ) (items : List (Item α))
    (hlen : stored.length = nPieces L sizes.sum)
    (run : RunFs H L sizes fd stored items) (single pathIsDir : Bool)
    (hp : single = !pathIsDir) :
    verifyFs H L sizes fd stored true single pathIsDir =
      (.ok (SpecOk H L sizes (mainDisk sizes fd) stored),
        items.zipIdx.flatMap (itemCalls H L sizes stored)) := by
  have hp1 : (single && pathIsDir) = false := by subst hp; cases pathIsDir <;> rfl
  have hp2 : (!single && !pathIsDir) = false := by subst hp; cases pathIsDir <;> rfl
  unfold verifyFs
  simp only [hp1, hp2, Bool.false_eq_true, if_false, run.hit]
  rw [fold_cb H L sizes stored items 0 {} rfl (by rw [run.len, hlen]; omega)]
  simp only [List.nil_append]
  rw [run.spec]

/-- `verify` without a callback raises the first exception the callback would have been given,
    and returns `True` if there is none (no `read` fails) -/
theorem verifyFs_nocb (H : List α → δ) (L : Nat) (sizes : List Nat)
    (fd : List (FState α)) (stored : List δ) (items : List (Item α))
    (hlen : stored.length = nPieces L sizes.sum)
    (run : RunFs H L sizes fd stored items) (single pathIsDir : Bool)
    (hp : single = !pathIsDir) :
    verifyFs H L sizes fd stored false single pathIsDir =
      (match (excsOf (items.zipIdx.flatMap (itemCalls H L sizes stored))).head? with
        | some e => .error e
        | none => .ok true, []) := by
  have hp1 : (single && pathIsDir) = false := by subst hp; cases pathIsDir <;> rfl
  have hp2 : (!single && !pathIsDir) = false := by subst hp; cases pathIsDir <;> rfl
  unfold verifyFs
  simp only [hp1, hp2, Bool.false_eq_true, if_false, run.hit]
  obtain ⟨h1, h2, h3⟩ := fold_nocb H L sizes stored items 0 {} rfl (by rw [run.len, hlen]; omega)
  simp only at h1 h2 h3
  rw [h1, h2]
  cases hx : excsOf (items.zipIdx.flatMap (itemCalls H L sizes stored)) with
  | nil =>
    simp only [List.head?_nil]
    rw [h3 hx]
    simp only [List.nil_append]
    rw [run.spec]
    have := run.exc
    rw [hx] at this
    cases hs : SpecOk H L sizes (mainDisk sizes fd) stored with
    | true => rfl
    | false => exact absurd rfl (this hs)
  | cons e es => simp

end Torf.VerifyFs
