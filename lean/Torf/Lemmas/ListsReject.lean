/-
  Helper lemmas for C16: an operation that tries to store an invalid URL fails with the URL error
  (and, unless it is extend / +=, leaves the metainfo untouched).
-/
import Torf.Lemmas.Lists
namespace Torf.Lists
variable {isUrl : String → Bool}

/-- URLs an in-place edit of a URL list tries to store -/
def UOp.urls : UOp → List String
  | .insert _ u => [u] | .append u => [u] | .extend us => us | .iadd us => us
  | .replace us => us | .setItem _ u => [u] | .setSlice _ _ _ us => us
  | _ => []

/-- extend and += store the values one by one: the values before the invalid one stay stored -/
def UOp.atomic : UOp → Bool
  | .extend _ => false | .iadd _ => false | _ => true

/-- URLs of one tier value; a blank string given as a tier is the empty tier -/
def tierValUrls : TierVal → List String
  | .str s => if isBlank s then [] else [s]
  | .list us => us

def TOp.urls : TOp → List String
  | .set .none => [] | .set (.str s) => [s] | .set (.list vs) => vs.flatMap tierValUrls
  | .set .other => []
  | .insert _ v => tierValUrls v | .append v => tierValUrls v | .setItem _ v => tierValUrls v
  | .extend vs => vs.flatMap tierValUrls | .iadd vs => vs.flatMap tierValUrls
  | .replace vs => vs.flatMap tierValUrls
  | .setSlice _ _ vs => flatVals vs
  | .tier _ op => op.urls
  | _ => []

def TOp.atomic : TOp → Bool
  | .extend _ => false | .iadd _ => false | .tier _ op => op.atomic | _ => true

def SOp.urls : SOp → List String
  | .set .none => [] | .set (.str s) => [s] | .set (.list us) => us | .set .other => []
  | .edit op => op.urls

def SOp.atomic : SOp → Bool
  | .edit op => op.atomic | _ => true

def Op.urls : Op → List String
  | .trackers op => op.urls | .webseeds op => op.urls | .httpseeds op => op.urls

def Op.atomic : Op → Bool
  | .trackers op => op.atomic | .webseeds op => op.atomic | .httpseeds op => op.atomic

/-- the tier addressed by `torrent.trackers[ti].<op>` exists (otherwise Python raises IndexError
    before the URL is looked at) -/
def Op.tierInRange (T : Tiers) : Op → Bool
  | .trackers (.tier ti _) => (pyIndex T.length ti).isSome
  | _ => true

/-! ### URL lists -/

theorem urlsOp_reject {known items : List String} {op : UOp} {u : String}
    (hu : u ∈ op.urls) (hinv : accepts isUrl u = false) :
    (urlsOp isUrl known items op).2 = .error .url ∧
      (op.atomic = true → (urlsOp isUrl known items op).1 = none) := by
  cases op with
  | insert i v =>
    simp only [UOp.urls, List.mem_singleton] at hu; subst hu
    simp [urlsOp, filterIns_invalid hinv]
  | append v =>
    simp only [UOp.urls, List.mem_singleton] at hu; subst hu
    simp [urlsOp, filterIns_invalid hinv]
  | extend us =>
    simp only [UOp.urls] at hu
    refine ⟨?_, fun h => by simp [UOp.atomic] at h⟩
    simp only [urlsOp]; exact extendLoop_invalid hu hinv
  | iadd us =>
    simp only [UOp.urls] at hu
    refine ⟨?_, fun h => by simp [UOp.atomic] at h⟩
    simp only [urlsOp]; exact extendLoop_invalid hu hinv
  | replace us =>
    simp only [UOp.urls] at hu
    simp [urlsOp, urlsReplace_invalid hu hinv]
  | setItem i v =>
    simp only [UOp.urls, List.mem_singleton] at hu; subst hu
    simp [urlsOp, coerce_invalid hinv]
  | setSlice a b st us =>
    simp only [UOp.urls] at hu
    simp [urlsOp, urlsSetSlice, coerceAll_invalid hu hinv]
  | delete i => simp [UOp.urls] at hu
  | delSlice a b => simp [UOp.urls] at hu
  | clear => simp [UOp.urls] at hu
  | remove v => simp [UOp.urls] at hu
  | pop i => simp [UOp.urls] at hu
  | reverse => simp [UOp.urls] at hu

/-! ### webseeds / httpseeds -/

theorem getSeeds_error {stored : Option (List String)} {e : Err}
    (h : getSeeds isUrl stored = .error e) : e = .url :=
  urlsReplace_error h

theorem seedsOp_generic {stored : Option (List String)} {op : UOp} (hop : ∀ us, op ≠ .iadd us) :
    seedsOp isUrl stored (.edit op) =
      match getSeeds isUrl stored with
      | .error e => (stored, .error e)
      | .ok items =>
        match urlsOp isUrl [] items op with
        | (last, out) => (lastSeeds stored last, out) := by
  cases op <;> first | rfl | exact absurd rfl (hop _)

theorem seedsOp_reject {stored : Option (List String)} {op : SOp} {u : String}
    (hu : u ∈ op.urls) (hinv : accepts isUrl u = false) :
    (seedsOp isUrl stored op).2 = .error .url ∧
      (op.atomic = true → (seedsOp isUrl stored op).1 = stored) := by
  cases op with
  | set v =>
    cases v with
    | none => simp [SOp.urls] at hu
    | other => simp [SOp.urls] at hu
    | str s =>
      simp only [SOp.urls, List.mem_singleton] at hu; subst hu
      simp [seedsOp, mkSeeds, urlsReplace_invalid (List.mem_singleton.2 rfl) hinv]
    | list us =>
      simp only [SOp.urls] at hu
      simp [seedsOp, mkSeeds, urlsReplace_invalid hu hinv]
  | edit op =>
    simp only [SOp.urls] at hu
    simp only [SOp.atomic]
    by_cases hi : ∃ us, op = .iadd us
    · obtain ⟨us, rfl⟩ := hi
      simp only [UOp.urls] at hu
      refine ⟨?_, fun h => by simp [UOp.atomic] at h⟩
      simp only [seedsOp]
      split
      · rename_i e he; rw [getSeeds_error he]
      · rename_i items _
        have h := extendLoop_invalid (isUrl := isUrl) (known := []) (items := items)
          (last := none) hu hinv
        rcases he : extendLoop isUrl [] items none us with ⟨last, o⟩
        rw [he] at h
        simp only at h
        subst h
        rfl
    · have hni : ∀ us, op ≠ .iadd us := fun us h => hi ⟨us, h⟩
      rw [seedsOp_generic hni]
      split
      · rename_i e he; rw [getSeeds_error he]; exact ⟨rfl, fun _ => rfl⟩
      · rename_i items _
        obtain ⟨h1, h2⟩ := urlsOp_reject (known := []) (items := items) hu hinv
        rcases he : urlsOp isUrl [] items op with ⟨last, o⟩
        rw [he] at h1 h2
        simp only at h1 h2 ⊢
        refine ⟨h1, fun ha => ?_⟩
        rw [h2 ha]; rfl

/-! ### Trackers -/

theorem mkURLs_reject {known : List String} {v : TierVal} {u : String}
    (hu : u ∈ tierValUrls v) (hinv : accepts isUrl u = false) : mkURLs isUrl known v = .error .url := by
  cases v with
  | str s =>
    simp only [tierValUrls] at hu
    split at hu
    · cases hu
    · rename_i hb
      rw [List.mem_singleton] at hu; subst hu
      simp only [mkURLs, hb]
      exact urlsReplace_invalid (List.mem_singleton.2 rfl) hinv
  | list us =>
    simp only [tierValUrls] at hu
    exact urlsReplace_invalid hu hinv

theorem tiersInsert_reject {T : Tiers} {i : Int} {v : TierVal} {u : String}
    (hu : u ∈ tierValUrls v) (hinv : accepts isUrl u = false) : tiersInsert isUrl T i v = .error .url := by
  simp [tiersInsert, mkURLs_reject hu hinv]

theorem tiersAddAll_reject {T : Tiers} {vs : List TierVal} {u : String}
    (hu : u ∈ vs.flatMap tierValUrls) (hinv : accepts isUrl u = false) :
    tiersAddAll isUrl T vs = .error .url := by
  induction vs generalizing T with
  | nil => simp at hu
  | cons v vs ih =>
    unfold tiersAddAll
    split
    · rename_i e he; rw [tiersInsert_error he]
    · rename_i T' he
      simp only [List.flatMap_cons, List.mem_append] at hu
      rcases hu with hu | hu
      · rw [tiersInsert_reject hu hinv] at he; cases he
      · exact ih hu

theorem tiersExtendLoop_reject {T : Tiers} {last : Option Tiers} {vs : List TierVal} {u : String}
    (hu : u ∈ vs.flatMap tierValUrls) (hinv : accepts isUrl u = false) :
    (tiersExtendLoop isUrl T last vs).2.2 = .error .url := by
  induction vs generalizing T last with
  | nil => simp at hu
  | cons v vs ih =>
    unfold tiersExtendLoop
    split
    · rename_i e he; rw [tiersInsert_error he]
    · rename_i T' he
      simp only [List.flatMap_cons, List.mem_append] at hu
      rcases hu with hu | hu
      · rw [tiersInsert_reject hu hinv] at he; cases he
      · exact ih hu

theorem tiersSetItem_reject {T : Tiers} {i : Int} {v : TierVal} {u : String}
    (hu : u ∈ tierValUrls v) (hinv : accepts isUrl u = false) :
    tiersSetItem isUrl T i v = (none, .error .url) := by
  simp [tiersSetItem, tiersSetItemT, mkURLs_reject hu hinv]

theorem tiersSetSlice_reject {T : Tiers} {a b : Option Int} {vs : List TierVal} {u : String}
    (hu : u ∈ flatVals vs) (hinv : accepts isUrl u = false) :
    tiersSetSlice isUrl T a b vs = (none, .error .url) := by
  simp [tiersSetSlice, urlsReplace_invalid hu hinv]

theorem tierOp_generic {T : Tiers} {ti : Int} {op : UOp} {k : Nat} {tier : Tier}
    (hop : ∀ us, op ≠ .iadd us) (hpi : pyIndex T.length ti = some k) (hget : T[k]? = some tier) :
    tierOp isUrl T ti op =
      ((urlsOp isUrl (splice T k (k + 1) []).flatten tier op).1.map
          fun t' => wOf (afterTier T k t'),
       (urlsOp isUrl (splice T k (k + 1) []).flatten tier op).2) := by
  cases op <;> first | exact absurd rfl (hop _) | simp only [tierOp, hpi, hget]

theorem tierOp_reject {T : Tiers} {ti : Int} {op : UOp} {u : String}
    (hu : u ∈ op.urls) (hinv : accepts isUrl u = false) (hti : (pyIndex T.length ti).isSome = true) :
    (tierOp isUrl T ti op).2 = .error .url ∧
      (op.atomic = true → (tierOp isUrl T ti op).1 = none) := by
  obtain ⟨k, hpi⟩ := Option.isSome_iff_exists.1 hti
  have hk := pyIndex_lt hpi
  have hget : T[k]? = some T[k] := List.getElem?_eq_getElem hk
  by_cases hi : ∃ us, op = .iadd us
  · obtain ⟨us, rfl⟩ := hi
    simp only [UOp.urls] at hu
    refine ⟨?_, fun h => by simp [UOp.atomic] at h⟩
    have h := extendLoop_invalid (isUrl := isUrl) (known := (splice T k (k + 1) []).flatten)
      (items := T[k]) (last := none) hu hinv
    simp only [tierOp, hpi, hget]
    rcases he : extendLoop isUrl (splice T k (k + 1) []).flatten T[k] none us with ⟨last, o⟩
    rw [he] at h
    simp only at h
    subst h
    rfl
  · have hni : ∀ us, op ≠ .iadd us := fun us h => hi ⟨us, h⟩
    rw [tierOp_generic hni hpi hget]
    obtain ⟨h1, h2⟩ := urlsOp_reject (known := (splice T k (k + 1) []).flatten)
      (items := T[k]) hu hinv
    refine ⟨h1, fun ha => ?_⟩
    simp only [h2 ha, Option.map_none]

theorem tiersOp_reject {T : Tiers} {op : TOp} {u : String}
    (hu : u ∈ op.urls) (hinv : accepts isUrl u = false) (hset : ∀ v, op ≠ .set v)
    (hti : ∀ ti o, op = .tier ti o → (pyIndex T.length ti).isSome = true) :
    (tiersOp isUrl T op).2 = .error .url ∧
      (op.atomic = true → (tiersOp isUrl T op).1 = none) := by
  cases op with
  | set v => exact absurd rfl (hset v)
  | insert i v =>
    simp only [TOp.urls] at hu
    simp [tiersOp, tiersInsert_reject hu hinv]
  | append v =>
    simp only [TOp.urls] at hu
    simp [tiersOp, tiersInsert_reject hu hinv]
  | extend vs =>
    simp only [TOp.urls] at hu
    refine ⟨?_, fun h => by simp [TOp.atomic] at h⟩
    have h := tiersExtendLoop_reject (isUrl := isUrl) (T := T) (last := none) hu hinv
    simp only [tiersOp]
    exact h
  | iadd vs =>
    simp only [TOp.urls] at hu
    refine ⟨?_, fun h => by simp [TOp.atomic] at h⟩
    have h := tiersExtendLoop_reject (isUrl := isUrl) (T := T) (last := none) hu hinv
    simp only [tiersOp]
    rcases he : tiersExtendLoop isUrl T none vs with ⟨T', last, o⟩
    rw [he] at h
    simp only at h
    subst h
    rfl
  | replace vs =>
    simp only [TOp.urls] at hu
    simp [tiersOp, tiersAddAll_reject hu hinv]
  | setItem i v =>
    simp only [TOp.urls] at hu
    simp [tiersOp, tiersSetItem_reject hu hinv]
  | setSlice a b vs =>
    simp only [TOp.urls] at hu
    simp [tiersOp, tiersSetSlice_reject hu hinv]
  | tier ti o =>
    simp only [TOp.urls] at hu
    simp only [tiersOp, TOp.atomic]
    exact tierOp_reject hu hinv (hti ti o rfl)
  | delete i => simp [TOp.urls] at hu
  | delSlice a b => simp [TOp.urls] at hu
  | clear => simp [TOp.urls] at hu
  | remove us => simp [TOp.urls] at hu
  | pop i => simp [TOp.urls] at hu
  | reverse => simp [TOp.urls] at hu

theorem mkTrackers_reject {v : TrackersVal} {u : String}
    (hu : u ∈ (TOp.set v).urls) (hinv : accepts isUrl u = false) :
    mkTrackers isUrl v = .error .url := by
  cases v with
  | none => simp [TOp.urls] at hu
  | other => simp [TOp.urls] at hu
  | str s =>
    simp only [TOp.urls, List.mem_singleton] at hu; subst hu
    simp only [mkTrackers]
    apply tiersAddAll_reject (u := u) _ hinv
    simp [tierValUrls]
  | list vs =>
    simp only [TOp.urls] at hu
    simp only [mkTrackers]
    exact tiersAddAll_reject hu hinv

theorem getTrackers_error {s : MI} {e : Err} (h : getTrackers isUrl s = .error e) : e = .url :=
  tiersAddAll_error h

theorem trackersOp_reject {s : MI} {op : TOp} {u : String}
    (hu : u ∈ op.urls) (hinv : accepts isUrl u = false)
    (hti : ∀ T, getTrackers isUrl s = .ok T →
      ∀ ti o, op = .tier ti o → (pyIndex T.length ti).isSome = true) :
    (trackersOp isUrl s op).2 = .error .url ∧
      (op.atomic = true → (trackersOp isUrl s op).1 = s) := by
  by_cases hset : ∃ v, op = .set v
  · obtain ⟨v, rfl⟩ := hset
    simp [trackersOp, mkTrackers_reject hu hinv]
  · have hns : ∀ v, op ≠ .set v := fun v hv => hset ⟨v, hv⟩
    rw [trackersOp_generic hns]
    split
    · rename_i e he; rw [getTrackers_error he]; exact ⟨rfl, fun _ => rfl⟩
    · rename_i T hT
      obtain ⟨h1, h2⟩ := tiersOp_reject (T := T) hu hinv hns (hti T hT)
      rcases he : tiersOp isUrl T op with ⟨last, o⟩
      rw [he] at h1 h2
      simp only at h1 h2 ⊢
      refine ⟨h1, fun ha => ?_⟩
      rw [h2 ha]; rfl

/-! ### the whole state -/

/-- an operation that tries to store an invalid URL fails with the URL error; unless it is
    extend / += it leaves the metainfo untouched -/
theorem step_reject {s : MI} {op : Op} {u : String}
    (hu : u ∈ op.urls) (hinv : accepts isUrl u = false)
    (hti : ∀ T, getTrackers isUrl s = .ok T → op.tierInRange T = true) :
    (step isUrl s op).2 = .error .url ∧ (op.atomic = true → (step isUrl s op).1 = s) := by
  cases op with
  | trackers t =>
    simp only [Op.urls] at hu
    simp only [step, Op.atomic]
    apply trackersOp_reject hu hinv
    intro T hT ti o ho
    subst ho
    exact hti T hT
  | webseeds o =>
    simp only [Op.urls] at hu
    simp only [step, Op.atomic]
    obtain ⟨h1, h2⟩ := seedsOp_reject (stored := s.urlList) hu hinv
    rcases he : seedsOp isUrl s.urlList o with ⟨f, out⟩
    rw [he] at h1 h2
    simp only at h1 h2 ⊢
    refine ⟨h1, fun ha => ?_⟩
    rw [h2 ha]
  | httpseeds o =>
    simp only [Op.urls] at hu
    simp only [step, Op.atomic]
    obtain ⟨h1, h2⟩ := seedsOp_reject (stored := s.httpseeds) hu hinv
    rcases he : seedsOp isUrl s.httpseeds o with ⟨f, out⟩
    rw [he] at h1 h2
    simp only at h1 h2 ⊢
    refine ⟨h1, fun ha => ?_⟩
    rw [h2 ha]

end Torf.Lists
