/-
  Torf.Lemmas.PipelineStep — the transition function of the pipeline as inductive relations, one
  constructor per (thread, program point, branch), with the successor state written out.  The
  invariant proofs do a case analysis on these relations instead of unfolding `step` each time.
  `MainStep` is stated for configurations without refused thread starts.
-/
import Torf.Lemmas.PipelineCons
namespace Torf.Pipeline

theorem RPc.done_of {r : RPc} (h : r.running = false) (h1 : r ≠ .notStarted) (h2 : r ≠ .refused) :
    r = .done := by cases r <;> simp_all [RPc.running]

theorem JPc.done_of {r : JPc} (h : r.running = false) (h1 : r ≠ .notStarted) (h2 : r ≠ .refused) :
    r = .done := by cases r <;> simp_all [JPc.running]

theorem HPc.done_of {r : HPc} (h : r.running = false) (h1 : r ≠ .notStarted) (h2 : r ≠ .refused) :
    r = .done := by cases r <;> simp_all [HPc.running]

/-- where main goes when it enters `for hasher in self._hashers` at position `idx` -/
def joinTarget (s : State) (idx : Nat) (e : Option Exc) : MPc :=
  match s.tracked[idx]? with
  | some h => .joinHasherChk h idx e
  | none => .joinJanitorChk e

theorem joinTarget_cases (s : State) (idx : Nat) (e : Option Exc) :
    (∃ h, joinTarget s idx e = .joinHasherChk h idx e) ∨ joinTarget s idx e = .joinJanitorChk e := by
  unfold joinTarget; split <;> simp

def resultOf (s : State) (e : Option Exc) : Result :=
  match e with
  | some x => .raised x
  | none => .returned s.collected

inductive MainStep (cfg : Cfg) (s : State) : State → Prop
  | startReaderChk (hm : s.main = .startReaderChk) : MainStep cfg s { s with main := .startReader }
  | startReader (hm : s.main = .startReader) :
      MainStep cfg s { s with rpc := .begin_, main := .startHasherChk 0 }
  | startHasherChk (i : Nat) (hm : s.main = .startHasherChk i) :
      MainStep cfg s { s with main := .startHasher i }
  | startHasherNext (i : Nat) (hm : s.main = .startHasher i) (hi : i + 1 < cfg.N) :
      MainStep cfg s { s with hs := s.hs.set i .begin_, main := .startHasherChk (i + 1) }
  | startHasherLast (i : Nat) (hm : s.main = .startHasher i) (hi : ¬ i + 1 < cfg.N) :
      MainStep cfg s { s with hs := s.hs.set i .begin_, main := .startJanitorChk }
  | startJanitorChk (hm : s.main = .startJanitorChk) : MainStep cfg s { s with main := .startJanitor }
  | startJanitor (hm : s.main = .startJanitor) : MainStep cfg s { s with jan := .begin_, main := .collect }
  | collectClosed (rest : List (Option Nat)) (hm : s.main = .collect) (hq : s.hq = none :: rest) :
      MainStep cfg s { s with hq := rest, main := .joinReaderChk none }
  | collectRaise (k : Nat) (rest : List (Option Nat)) (hm : s.main = .collect)
      (hq : s.hq = some k :: rest) (hk : k ∉ s.seen)
      (hr : isRaising cfg (cfg.items.getD k .nodata) = true) :
      MainStep cfg s { s with hq := rest, seen := s.seen ++ [k],
                              collected := if isHashed cfg k then s.collected ++ [k] else s.collected,
                              stop := true, main := .joinReaderChk (some (.item k)) }
  | collectPass (k : Nat) (rest : List (Option Nat)) (hm : s.main = .collect)
      (hq : s.hq = some k :: rest) (hk : k ∉ s.seen)
      (hr : isRaising cfg (cfg.items.getD k .nodata) = false)
      (hcb : cfg.cb k (s.seen.length + 1) = .pass) :
      MainStep cfg s { s with hq := rest, seen := s.seen ++ [k],
                              collected := if isHashed cfg k then s.collected ++ [k] else s.collected }
  | collectCancel (k : Nat) (rest : List (Option Nat)) (hm : s.main = .collect)
      (hq : s.hq = some k :: rest) (hk : k ∉ s.seen)
      (hr : isRaising cfg (cfg.items.getD k .nodata) = false)
      (hcb : cfg.cb k (s.seen.length + 1) = .cancel) :
      MainStep cfg s { s with hq := rest, seen := s.seen ++ [k],
                              collected := if isHashed cfg k then s.collected ++ [k] else s.collected,
                              stop := true }
  | collectCbRaise (k : Nat) (rest : List (Option Nat)) (hm : s.main = .collect)
      (hq : s.hq = some k :: rest) (hk : k ∉ s.seen)
      (hr : isRaising cfg (cfg.items.getD k .nodata) = false)
      (hcb : cfg.cb k (s.seen.length + 1) = .raise) :
      MainStep cfg s { s with hq := rest, seen := s.seen ++ [k],
                              collected := if isHashed cfg k then s.collected ++ [k] else s.collected,
                              stop := true, main := .joinReaderChk (some (.cb (s.seen.length + 1))) }
  | joinReaderChkRun (e : Option Exc) (hm : s.main = .joinReaderChk e) (hr : s.rpc.running = true) :
      MainStep cfg s { s with main := .joinReader e }
  | joinReaderSkip (e : Option Exc) (hm : s.main = .joinReaderChk e) (hr : s.rpc.running = false) :
      MainStep cfg s { s with main := joinTarget s 0 (if s.rexc then some .read else e) }
  | joinReaderDone (e : Option Exc) (hm : s.main = .joinReader e) (hr : s.rpc.running = false) :
      MainStep cfg s { s with main := joinTarget s 0 (if s.rexc then some .read else e) }
  | joinHasherChkRun (h idx : Nat) (e : Option Exc) (hm : s.main = .joinHasherChk h idx e)
      (hr : hasherRunning s h = true) : MainStep cfg s { s with main := .joinHasher h idx e }
  | joinHasherSkip (h idx : Nat) (e : Option Exc) (hm : s.main = .joinHasherChk h idx e)
      (hr : hasherRunning s h = false) : MainStep cfg s { s with main := joinTarget s (idx + 1) e }
  | joinHasherDone (h idx : Nat) (e : Option Exc) (hm : s.main = .joinHasher h idx e)
      (hr : hasherRunning s h = false) : MainStep cfg s { s with main := joinTarget s (idx + 1) e }
  | joinJanitorChkRun (e : Option Exc) (hm : s.main = .joinJanitorChk e) (hr : s.jan.running = true) :
      MainStep cfg s { s with main := .joinJanitor e }
  | joinJanitorSkip (e : Option Exc) (hm : s.main = .joinJanitorChk e)
      (hr : s.jan.running = false) : MainStep cfg s { s with main := .finished (resultOf s e) }
  | joinJanitorDone (e : Option Exc) (hm : s.main = .joinJanitor e)
      (hr : s.jan.running = false) : MainStep cfg s { s with main := .finished (resultOf s e) }

theorem enterJoinHasher_eq (s : State) (idx : Nat) (e : Option Exc) :
    enterJoinHasher s idx e = { s with main := joinTarget s idx e } := by
  unfold enterJoinHasher joinTarget
  split <;> simp_all

theorem finishWith_eq (s : State) (e : Option Exc) :
    finishWith s e = { s with main := .finished (resultOf s e) } := by
  unfold finishWith resultOf
  rfl

theorem MainStep.of_step {cfg : Cfg} {s s' : State} (hrf : cfg.refuse = []) (hA : InvA cfg s)
    (hs : stepMain cfg s = some s') : MainStep cfg s s' := by
  by_cases hc : s.main = .collect
  · cases hq : s.hq with
    | nil => simp [stepMain, hc, hq] at hs
    | cons x rest =>
      cases x with
      | none =>
        simp only [stepMain, hc, hq, Option.some.injEq] at hs
        subst hs
        exact .collectClosed rest hc hq
      | some k =>
        have hk := hA.not_seen hq
        rw [stepMain_collect hc hq hk, Option.some.injEq] at hs
        subst hs
        unfold collectNext
        split
        · rename_i hr
          exact .collectRaise k rest hc hq hk hr
        · rename_i hr
          split
          · rename_i hcb; exact .collectPass k rest hc hq hk (by simpa using hr) hcb
          · rename_i hcb; exact .collectCancel k rest hc hq hk (by simpa using hr) hcb
          · rename_i hcb; exact .collectCbRaise k rest hc hq hk (by simpa using hr) hcb
  · unfold stepMain at hs
    simp only [hrf, List.contains_nil, Bool.false_eq_true, ↓reduceIte, afterReaderJoin,
      enterJoinHasher_eq, finishWith_eq, setHasher] at hs
    split at hs
    case h_7 hm => exact absurd hm hc
    case h_1 hm => simp only [Option.some.injEq] at hs; subst hs; exact .startReaderChk hm
    case h_2 hm => simp only [Option.some.injEq] at hs; subst hs; exact .startReader hm
    case h_3 i hm => simp only [Option.some.injEq] at hs; subst hs; exact .startHasherChk i hm
    case h_4 i hm =>
      simp only [Option.some.injEq] at hs; subst hs
      by_cases hi : i + 1 < cfg.N
      · simp only [hi, ↓reduceIte]; exact .startHasherNext i hm hi
      · simp only [hi, ↓reduceIte]; exact .startHasherLast i hm hi
    case h_5 hm => simp only [Option.some.injEq] at hs; subst hs; exact .startJanitorChk hm
    case h_6 hm => simp only [Option.some.injEq] at hs; subst hs; exact .startJanitor hm
    case h_8 e hm =>
      split at hs <;> (simp only [Option.some.injEq] at hs; subst hs)
      · rename_i hr; exact .joinReaderChkRun e hm hr
      · rename_i hr; exact .joinReaderSkip e hm (by simpa using hr)
    case h_9 e hm =>
      split at hs
      · simp at hs
      · rename_i hr
        simp only [Option.some.injEq] at hs; subst hs
        exact .joinReaderDone e hm (by simpa using hr)
    case h_10 h idx e hm =>
      split at hs <;> (simp only [Option.some.injEq] at hs; subst hs)
      · rename_i hr; exact .joinHasherChkRun h idx e hm hr
      · rename_i hr; exact .joinHasherSkip h idx e hm (by simpa using hr)
    case h_11 h idx e hm =>
      split at hs
      · simp at hs
      · rename_i hr
        simp only [Option.some.injEq] at hs; subst hs
        exact .joinHasherDone h idx e hm (by simpa using hr)
    case h_12 e hm =>
      split at hs <;> (simp only [Option.some.injEq] at hs; subst hs)
      · rename_i hr; exact .joinJanitorChkRun e hm hr
      · rename_i hr; exact .joinJanitorSkip e hm (by simpa using hr)
    case h_13 e hm =>
      split at hs
      · simp at hs
      · rename_i hr
        simp only [Option.some.injEq] at hs; subst hs
        exact .joinJanitorDone e hm (by simpa using hr)
    case h_14 => simp at hs

/-! ### reader -/

/-- the reader after pushing item `k - 1`: read item `k` -/
inductive ReaderNext (cfg : Cfg) (t : State) (k : Nat) : State → Prop
  | fault (h1 : cfg.readFault = some k) : ReaderNext cfg t k { t with rpc := .closing, rexc := true }
  | eof (h1 : cfg.readFault ≠ some k) (h2 : cfg.items.length ≤ k) :
      ReaderNext cfg t k { t with rpc := .closing }
  | stopped (h1 : cfg.readFault ≠ some k) (h2 : k < cfg.items.length) (h3 : t.stop = true) :
      ReaderNext cfg t k { t with rpc := .closing }
  | next (h1 : cfg.readFault ≠ some k) (h2 : k < cfg.items.length) (h3 : t.stop = false) :
      ReaderNext cfg t k { t with rpc := .putting k }

theorem ReaderNext.of_readerNext (cfg : Cfg) (t : State) (k : Nat) :
    ReaderNext cfg t k (readerNext cfg t k) := by
  unfold readerNext
  split
  · rename_i h; exact .fault h
  · rename_i h1
    split
    · rename_i h2; exact .eof h1 h2
    · rename_i h2
      split
      · rename_i h3; exact .stopped h1 (by omega) h3
      · rename_i h3; exact .next h1 (by omega) (by simpa using h3)

inductive ReaderStep (cfg : Cfg) (s : State) : State → Prop
  | begin (hr : s.rpc = .begin_) (t : State) (hn : ReaderNext cfg s 0 t) : ReaderStep cfg s t
  | put (k : Nat) (hr : s.rpc = .putting k) (hc : s.pq.length < cfg.cap) (t : State)
      (hn : ReaderNext cfg { s with pq := s.pq ++ [some k] } (k + 1) t) : ReaderStep cfg s t
  | close (hr : s.rpc = .closing) (hc : s.pq.length < cfg.cap) :
      ReaderStep cfg s { s with pq := s.pq ++ [none], rpc := .done }

theorem ReaderStep.of_step {cfg : Cfg} {s s' : State} (hs : stepReader cfg s = some s') :
    ReaderStep cfg s s' := by
  unfold stepReader at hs
  split at hs
  · rename_i hr
    simp only [Option.some.injEq] at hs; subst hs
    exact .begin hr _ (.of_readerNext ..)
  · rename_i k hr
    split at hs
    · rename_i hc
      simp only [Option.some.injEq] at hs; subst hs
      exact .put k hr hc _ (.of_readerNext ..)
    · simp at hs
  · rename_i hr
    split at hs
    · rename_i hc
      simp only [Option.some.injEq] at hs; subst hs
      exact .close hr hc
    · simp at hs
  · simp at hs

/-! ### hashers -/

inductive HasherStep (cfg : Cfg) (s : State) (i : Nat) : State → Prop
  | begin (hi : s.hs[i]? = some .begin_) : HasherStep cfg s i { s with hs := s.hs.set i .getting }
  | idle (hi : s.hs[i]? = some .getting) (hpq : s.pq = []) (h0 : i = 0) : HasherStep cfg s i s
  | quit (hi : s.hs[i]? = some .getting) (hpq : s.pq = []) (h0 : i ≠ 0) :
      HasherStep cfg s i { s with hs := s.hs.set i .done }
  | take (k : Nat) (rest : List (Option Nat)) (hi : s.hs[i]? = some .getting)
      (hpq : s.pq = some k :: rest) :
      HasherStep cfg s i { s with pq := rest, hs := s.hs.set i (.holding k) }
  | takeClosed (rest : List (Option Nat)) (hi : s.hs[i]? = some .getting) (hpq : s.pq = none :: rest) :
      HasherStep cfg s i { s with pq := rest, hs := s.hs.set i .requeue }
  | deliver (k : Nat) (hi : s.hs[i]? = some (.holding k)) :
      HasherStep cfg s i { s with hq := s.hq ++ [some k], hs := s.hs.set i .getting }
  | requeue (hi : s.hs[i]? = some .requeue) (hc : s.pq.length < cfg.cap) :
      HasherStep cfg s i { s with pq := s.pq ++ [none], hs := s.hs.set i .setEv }
  | setEv (hi : s.hs[i]? = some .setEv) : HasherStep cfg s i { s with fin := true, hs := s.hs.set i .done }

theorem HasherStep.of_step {cfg : Cfg} {s s' : State} {i : Nat} {b : Bool}
    (hs : stepHasher cfg s i b = some s') : HasherStep cfg s i s' := by
  unfold stepHasher at hs
  simp only [setHasher] at hs
  split at hs
  · simp at hs
  · rename_i hi
    split at hs
    · simp at hs
    · simp only [Option.some.injEq] at hs; subst hs; exact .begin hi
  · rename_i hi
    split at hs
    · rename_i hpq
      split at hs
      · split at hs
        · rename_i h0; simp only [Option.some.injEq] at hs; subst hs; exact .idle hi hpq h0
        · rename_i h0; simp only [Option.some.injEq] at hs; subst hs; exact .quit hi hpq h0
      · simp at hs
    · rename_i x rest hpq
      split at hs
      · simp at hs
      · split at hs
        · rename_i k; simp only [Option.some.injEq] at hs; subst hs; exact .take k rest hi hpq
        · simp only [Option.some.injEq] at hs; subst hs; exact .takeClosed rest hi hpq
  · rename_i k hi
    split at hs
    · simp at hs
    · simp only [Option.some.injEq] at hs; subst hs; exact .deliver k hi
  · rename_i hi
    split at hs
    · simp at hs
    · split at hs
      · rename_i hc; simp only [Option.some.injEq] at hs; subst hs; exact .requeue hi hc
      · simp at hs
  · rename_i hi
    split at hs
    · simp at hs
    · simp only [Option.some.injEq] at hs; subst hs; exact .setEv hi
  · simp at hs

/-! ### janitor -/

def spinPc : List Nat → JPc
  | [] => .closing
  | h :: rest => .spin (h :: rest)

def prunePc : List Nat → JPc
  | [] => .waiting
  | h :: rest => .prune (h :: rest)

theorem spinPc_cases (l : List Nat) :
    (l = [] ∧ spinPc l = .closing) ∨ (l ≠ [] ∧ spinPc l = .spin l) := by
  cases l <;> simp [spinPc]

theorem prunePc_cases (l : List Nat) :
    (l = [] ∧ prunePc l = .waiting) ∨ (l ≠ [] ∧ prunePc l = .prune l) := by
  cases l <;> simp [prunePc]

theorem enterSpin_eq (s : State) (l : List Nat) : enterSpin s l = { s with jan := spinPc l } := by
  cases l <;> rfl

theorem enterPrune_eq (s : State) (l : List Nat) : enterPrune s l = { s with jan := prunePc l } := by
  cases l <;> rfl

inductive JanitorStep (s : State) : State → Prop
  | begin (hj : s.jan = .begin_) : JanitorStep s { s with jan := .waiting }
  | wake (hj : s.jan = .waiting) (hf : s.fin = true) : JanitorStep s { s with jan := spinPc s.tracked }
  | timeout (hj : s.jan = .waiting) (hf : s.fin = false) :
      JanitorStep s { s with jan := prunePc s.tracked }
  | pruneKeep (h : Nat) (rest : List Nat) (hj : s.jan = .prune (h :: rest))
      (hr : hasherRunning s h = true) : JanitorStep s { s with jan := prunePc rest }
  | pruneDrop (h : Nat) (rest : List Nat) (hj : s.jan = .prune (h :: rest))
      (hr : hasherRunning s h = false) :
      JanitorStep s { s with tracked := s.tracked.erase h, jan := prunePc rest }
  | spinRestart (h : Nat) (rest : List Nat) (hj : s.jan = .spin (h :: rest))
      (hr : hasherRunning s h = true) : JanitorStep s { s with jan := spinPc s.tracked }
  | spinNext (h : Nat) (rest : List Nat) (hj : s.jan = .spin (h :: rest))
      (hr : hasherRunning s h = false) : JanitorStep s { s with jan := spinPc rest }
  | close (hj : s.jan = .closing) : JanitorStep s { s with hq := s.hq ++ [none], jan := .done }

theorem JanitorStep.of_step {cfg : Cfg} {s s' : State} {b : Bool}
    (hs : stepJanitor cfg s b = some s') : JanitorStep s s' := by
  unfold stepJanitor at hs
  simp only [enterSpin_eq, enterPrune_eq] at hs
  split at hs
  · rename_i hj
    split at hs
    · simp at hs
    · simp only [Option.some.injEq] at hs; subst hs; exact .begin hj
  · rename_i hj
    split at hs
    · rename_i hf
      split at hs
      · simp at hs
      · simp only [Option.some.injEq] at hs; subst hs; exact .wake hj hf
    · rename_i hf
      split at hs
      · simp only [Option.some.injEq] at hs; subst hs; exact .timeout hj (by simpa using hf)
      · simp at hs
  · simp at hs
  · rename_i h rest hj
    split at hs
    · simp at hs
    · split at hs
      · rename_i hr; simp only [Option.some.injEq] at hs; subst hs; exact .pruneKeep h rest hj hr
      · rename_i hr; simp only [Option.some.injEq] at hs; subst hs
        exact .pruneDrop h rest hj (by simpa using hr)
  · simp at hs
  · rename_i h rest hj
    split at hs
    · simp at hs
    · split at hs
      · rename_i hr; simp only [Option.some.injEq] at hs; subst hs; exact .spinRestart h rest hj hr
      · rename_i hr; simp only [Option.some.injEq] at hs; subst hs
        exact .spinNext h rest hj (by simpa using hr)
  · rename_i hj
    split at hs
    · simp at hs
    · simp only [Option.some.injEq] at hs; subst hs; exact .close hj
  · simp at hs

/-! ### all threads -/

/-- one step of any thread, for configurations in which no thread start is refused -/
inductive Step (cfg : Cfg) (s : State) : State → Prop
  | main {s' : State} (h : MainStep cfg s s') : Step cfg s s'
  | reader {s' : State} (h : ReaderStep cfg s s') : Step cfg s s'
  | hasher {s' : State} (i : Nat) (h : HasherStep cfg s i s') : Step cfg s s'
  | janitor {s' : State} (h : JanitorStep s s') : Step cfg s s'

theorem Step.of_step {cfg : Cfg} {s s' : State} {l : Label} (hrf : cfg.refuse = []) (hA : InvA cfg s)
    (hs : step cfg s l = some s') : Step cfg s s' := by
  unfold Pipeline.step at hs
  split at hs
  · split at hs
    · simp at hs
    · exact .main (.of_step hrf hA hs)
  · split at hs
    · simp at hs
    · exact .reader (.of_step hs)
  · exact .hasher _ (.of_step hs)
  · exact .janitor (.of_step hs)

end Torf.Pipeline
