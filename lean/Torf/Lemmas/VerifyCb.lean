/-
  The collector fold of `verifySeq` in closed form: what one item contributes to the callback
  trace (`itemCalls`) and to the collected digests (`itemHashes`), with and without a callback.
  Without a callback the run raises the first exception the callback would have been given.
-/
import Torf.Lemmas.VerifyCollect
import Torf.Lemmas.Missing
namespace Torf.Verify
open Torf Torf.Missing

variable {α δ : Type} [DecidableEq δ]

/-- the callback invocations caused by item number `i` -/
def itemCalls (H : List α → δ) (L : Nat) (sizes : List Nat) (stored : List δ)
    (ii : Item α × Nat) : List (CbCall δ) :=
  if !ii.1.excs.isEmpty then ii.1.excs.map fun e => ⟨ii.2 + 1, ii.2, none, some (excOf e)⟩
  else match ii.1.data with
    | none => [⟨ii.2 + 1, ii.2, none, none⟩]
    | some d =>
      if some (H d) = stored[ii.2]? then [⟨ii.2 + 1, ii.2, some (H d), none⟩]
      else [⟨ii.2 + 1, ii.2, some (H d), some (.content ii.2 (corruptFiles L sizes ii.2))⟩]

/-- the digests collected for an item -/
def itemHashes (H : List α → δ) (it : Item α) : List δ :=
  if !it.excs.isEmpty then [] else
    match it.data with
    | none => []
    | some d => [H d]

/-- exceptions handed to the callback, in call order -/
def excsOf (calls : List (CbCall δ)) : List VErr := calls.filterMap (·.exc)

omit [DecidableEq δ] in
theorem excsOf_append (a b : List (CbCall δ)) : excsOf (a ++ b) = excsOf a ++ excsOf b := by
  simp [excsOf]

theorem collectItem_cb (H : List α → δ) (L : Nat) (sizes : List Nat) (stored : List δ)
    (acc : Acc δ) (ii : Item α × Nat) (h : acc.raised = none) (hi : ii.2 < stored.length) :
    collectItem H L sizes stored true acc ii =
      { collected := acc.collected ++ itemHashes H ii.1,
        calls := acc.calls ++ itemCalls H L sizes stored ii,
        raised := none } := by
  obtain ⟨it, i⟩ := ii
  simp only at hi
  cases acc with
  | mk col calls raised =>
  simp only at h
  subst h
  unfold collectItem itemCalls itemHashes
  simp only [Option.isSome_none, Bool.false_eq_true, if_false, if_true]
  by_cases he : it.excs.isEmpty = true
  · simp only [he, Bool.not_true, Bool.false_eq_true, if_false]
    cases hd : it.data with
    | none => simp
    | some d =>
      simp only
      rw [List.getElem?_eq_getElem hi]
      by_cases hm : H d = stored[i]
      · simp [hm]
      · simp [hm]
  · simp [he]

theorem collectItem_nocb (H : List α → δ) (L : Nat) (sizes : List Nat) (stored : List δ)
    (acc : Acc δ) (ii : Item α × Nat) (h : acc.raised = none) (hi : ii.2 < stored.length) :
    collectItem H L sizes stored false acc ii =
      { collected := acc.collected ++ itemHashes H ii.1,
        calls := acc.calls,
        raised := (excsOf (itemCalls H L sizes stored ii)).head? } := by
  obtain ⟨it, i⟩ := ii
  simp only at hi
  cases acc with
  | mk col calls raised =>
  simp only at h
  subst h
  unfold collectItem itemCalls itemHashes excsOf
  simp only [Option.isSome_none, Bool.false_eq_true, if_false]
  by_cases he : it.excs.isEmpty = true
  · simp only [he, Bool.not_true, Bool.false_eq_true, if_false]
    cases hd : it.data with
    | none => simp
    | some d =>
      simp only
      rw [List.getElem?_eq_getElem hi]
      by_cases hm : H d = stored[i]
      · simp [hm]
      · simp [hm]
  · cases hx : it.excs with
    | nil => simp [hx] at he
    | cons e es => simp

/-- the whole run with a callback -/
theorem fold_cb (H : List α → δ) (L : Nat) (sizes : List Nat) (stored : List δ)
    (items : List (Item α)) (k : Nat) (acc : Acc δ) (h : acc.raised = none)
    (hk : k + items.length ≤ stored.length) :
    (items.zipIdx k).foldl (collectItem H L sizes stored true) acc =
      { collected := acc.collected ++ items.flatMap (itemHashes H),
        calls := acc.calls ++ (items.zipIdx k).flatMap (itemCalls H L sizes stored),
        raised := none } := by
  induction items generalizing k acc with
  | nil => cases acc; simp only at h; subst h; simp
  | cons it items ih =>
    simp only [List.zipIdx_cons, List.foldl_cons, List.length_cons] at hk ⊢
    rw [collectItem_cb H L sizes stored acc (it, k) h (by simp only; omega)]
    rw [ih (k + 1) _ rfl (by omega)]
    simp [List.append_assoc]

/-- the whole run without a callback: the first exception (if any) is raised -/
theorem fold_nocb (H : List α → δ) (L : Nat) (sizes : List Nat) (stored : List δ)
    (items : List (Item α)) (k : Nat) (acc : Acc δ) (h : acc.raised = none)
    (hk : k + items.length ≤ stored.length) :
    let acc' := (items.zipIdx k).foldl (collectItem H L sizes stored false) acc
    let cs := (items.zipIdx k).flatMap (itemCalls H L sizes stored)
    acc'.raised = (excsOf cs).head? ∧ acc'.calls = acc.calls ∧
      (excsOf cs = [] → acc'.collected = acc.collected ++ items.flatMap (itemHashes H)) := by
  induction items generalizing k acc with
  | nil => simp [h, excsOf]
  | cons it items ih =>
    simp only [List.zipIdx_cons, List.foldl_cons, List.length_cons, List.flatMap_cons,
      excsOf_append] at hk ⊢
    rw [collectItem_nocb H L sizes stored acc (it, k) h (by simp only; omega)]
    cases hx : excsOf (itemCalls H L sizes stored (it, k)) with
    | nil =>
      simp only [List.head?_nil, List.nil_append]
      obtain ⟨h1, h2, h3⟩ := ih (k + 1)
        { collected := acc.collected ++ itemHashes H it, calls := acc.calls, raised := none }
        rfl (by omega)
      refine ⟨h1, h2, ?_⟩
      intro h0
      rw [h3 h0]
      simp [List.append_assoc]
    | cons e es =>
      rw [fold_raised _ _ _ _ _ _ _ (by simp)]
      simp

/-! ### what the callback sees, in terms of the items -/

/-- ReadError / VerifyFileSizeError -/
def isFileErr : VErr → Bool
  | .read _ => true
  | .size _ => true
  | _ => false

/-- VerifyContentError -/
def isContentErr : VErr → Bool
  | .content _ _ => true
  | _ => false

/-- the test of `mismatches` for one entry of `specData.zipIdx` -/
def mmOf (H : List α → δ) (stored : List δ) (di : Option (List α) × Nat) : Option Nat :=
  match di.1 with
  | none => none
  | some bytes => if some (H bytes) = stored[di.2]? then none else some di.2

theorem mismatches_eq (H : List α → δ) (L : Nat) (sizes : List Nat)
    (disk : List (Option (List α))) (stored : List δ) :
    mismatches H L sizes disk stored = (specData L sizes disk).zipIdx.filterMap (mmOf H stored) := by
  unfold mismatches
  congr 1

omit [DecidableEq δ] in
theorem filter_file_map_excOf (l : List (Nat × ErrKind)) :
    (l.map excOf).filter isFileErr = l.map excOf := by
  rw [List.filter_eq_self]
  intro x hx
  obtain ⟨e, _, rfl⟩ := List.mem_map.mp hx
  obtain ⟨f, k⟩ := e
  cases k <;> rfl

omit [DecidableEq δ] in
theorem filter_content_map_excOf (l : List (Nat × ErrKind)) :
    (l.map excOf).filter isContentErr = [] := by
  rw [List.filter_eq_nil_iff]
  intro x hx
  obtain ⟨e, _, rfl⟩ := List.mem_map.mp hx
  obtain ⟨f, k⟩ := e
  cases k <;> simp [excOf, isContentErr]

/-- the exceptions of one item's calls -/
theorem excsOf_itemCalls (H : List α → δ) (L : Nat) (sizes : List Nat) (stored : List δ)
    (ii : Item α × Nat) :
    excsOf (itemCalls H L sizes stored ii) =
      if !ii.1.excs.isEmpty then ii.1.excs.map excOf else
        ((mmOf H stored (ii.1.data, ii.2)).map
          fun p => VErr.content p (corruptFiles L sizes p)).toList := by
  obtain ⟨it, i⟩ := ii
  unfold itemCalls excsOf mmOf
  by_cases he : it.excs.isEmpty = true
  · simp only [he, Bool.not_true, Bool.false_eq_true, if_false]
    cases hd : it.data with
    | none => simp
    | some d =>
      simp only
      by_cases hm : some (H d) = stored[i]?
      · simp [hm]
      · simp [hm]
  · simp only [he, Bool.not_false, if_true, List.filterMap_map]
    rw [← List.filterMap_eq_map]
    rfl

/-- **read / size errors**: the callback is given exactly the exceptions the items carry -/
theorem excs_file (H : List α → δ) (L : Nat) (sizes : List Nat) (stored : List δ)
    (items : List (Item α)) (k : Nat) :
    (excsOf ((items.zipIdx k).flatMap (itemCalls H L sizes stored))).filter isFileErr =
      (reported items).map excOf := by
  induction items generalizing k with
  | nil => simp [excsOf, reported]
  | cons it items ih =>
    simp only [List.zipIdx_cons, List.flatMap_cons, excsOf_append, List.filter_append, ih]
    have hr : reported (it :: items) = it.excs ++ reported items := by simp [reported]
    rw [hr, List.map_append]
    congr 1
    rw [excsOf_itemCalls]
    by_cases he : it.excs.isEmpty = true
    · simp only [he, Bool.not_true, Bool.false_eq_true, if_false]
      have : it.excs = [] := by simpa using he
      rw [this]
      cases mmOf H stored (it.data, k) <;> simp [isFileErr]
    · simp only [he, Bool.not_false, if_true]
      exact filter_file_map_excOf _

/-- **content errors**: exactly the data items whose digest differs from the stored one -/
theorem excs_content (H : List α → δ) (L : Nat) (sizes : List Nat) (stored : List δ)
    (items : List (Item α)) (k : Nat)
    (hclean : ∀ it ∈ items, it.data.isSome → it.excs = []) :
    (excsOf ((items.zipIdx k).flatMap (itemCalls H L sizes stored))).filter isContentErr =
      (((items.map (·.data)).zipIdx k).filterMap (mmOf H stored)).map
        fun p => VErr.content p (corruptFiles L sizes p) := by
  induction items generalizing k with
  | nil => simp [excsOf]
  | cons it items ih =>
    simp only [List.zipIdx_cons, List.flatMap_cons, excsOf_append, List.filter_append,
      List.map_cons, List.filterMap_cons]
    rw [ih (k + 1) (fun it' h' => hclean it' (List.mem_cons_of_mem _ h'))]
    rw [excsOf_itemCalls]
    by_cases he : it.excs.isEmpty = true
    · simp only [he, Bool.not_true, Bool.false_eq_true, if_false]
      cases mmOf H stored (it.data, k) with
      | none => simp
      | some p =>
        simp only [Option.map_some, Option.toList_some, List.map_cons]
        rw [List.filter_cons_of_pos (by rfl)]
        simp
    · simp only [he, Bool.not_false, if_true]
      rw [filter_content_map_excOf]
      have hd : it.data = none := by
        cases hdd : it.data with
        | none => rfl
        | some d =>
          have := hclean it List.mem_cons_self (by rw [hdd]; rfl)
          rw [this] at he
          exact absurd rfl he
      simp [hd, mmOf]

/-- nothing else is ever handed to the callback -/
theorem excs_kinds (H : List α → δ) (L : Nat) (sizes : List Nat) (stored : List δ)
    (xs : List (Item α × Nat)) :
    ∀ e ∈ excsOf (xs.flatMap (itemCalls H L sizes stored)),
      isFileErr e = true ∨ isContentErr e = true := by
  intro e he
  unfold excsOf at he
  obtain ⟨c, hc, hce⟩ := List.mem_filterMap.mp he
  obtain ⟨ii, _, hci⟩ := List.mem_flatMap.mp hc
  have : e ∈ excsOf (itemCalls H L sizes stored ii) := List.mem_filterMap.mpr ⟨c, hci, hce⟩
  rw [excsOf_itemCalls] at this
  split at this
  · left
    rw [← filter_file_map_excOf] at this
    exact (List.mem_filter.mp this).2
  · right
    cases hm : mmOf H stored (ii.1.data, ii.2) with
    | none => simp [hm] at this
    | some p =>
      simp only [hm, Option.map_some, Option.toList_some, List.mem_singleton] at this
      subst this; rfl

/-- progress arguments of every call -/
theorem calls_progress (H : List α → δ) (L : Nat) (sizes : List Nat) (stored : List δ)
    (items : List (Item α)) :
    ∀ c ∈ items.zipIdx.flatMap (itemCalls H L sizes stored),
      c.done = c.piece + 1 ∧ c.piece < items.length ∧
      (∀ p fs, c.exc = some (.content p fs) → p = c.piece ∧ fs = corruptFiles L sizes p) := by
  intro c hc
  obtain ⟨ii, hii, hci⟩ := List.mem_flatMap.mp hc
  obtain ⟨it, i⟩ := ii
  have hi : i < items.length := by
    have := List.mem_zipIdx hii
    omega
  unfold itemCalls at hci
  simp only at hci
  split at hci
  · obtain ⟨e, _, rfl⟩ := List.mem_map.mp hci
    refine ⟨rfl, hi, ?_⟩
    intro p fs h
    obtain ⟨f, k⟩ := e
    cases k <;> simp [excOf] at h
  · split at hci
    · simp only [List.mem_singleton] at hci
      subst hci
      exact ⟨rfl, hi, by intro p fs h; cases h⟩
    · split at hci
      · simp only [List.mem_singleton] at hci
        subst hci
        exact ⟨rfl, hi, by intro p fs h; cases h⟩
      · simp only [List.mem_singleton] at hci
        subst hci
        refine ⟨rfl, hi, ?_⟩
        intro p fs h
        simp only [Option.some.injEq, VErr.content.injEq] at h
        obtain ⟨h1, h2⟩ := h
        subst h1
        exact ⟨rfl, h2.symm⟩

end Torf.Verify
