/-
  Lemmas about `Torrent.infohash` on an object that carries an explicitly stored hash
  (`_infohash`, set by `Magnet.torrent()`): when the calculation fails, that every failure of it is
  a `MetainfoError`, and that a successful (validated) dump implies that the hash can be
  calculated.  Owned by C06.
-/
import Torf.Lemmas.Dump
import Torf.Lemmas.CodecLookup
import Torf.Lemmas.BencodeNorm
import Torf.Model.ReadStream
namespace Torf.ReadStream
open Torf Torf.Bencode Torf.Codec

/-- every error of the calculation (the `try` block of `Torrent.infohash`) is a `MetainfoError` -/
theorem infoBytes_err {env : Env} {md : List (PyVal × PyVal)} {e : Err}
    (h : infoBytes env md = .error e) : e = .metainfo := by
  unfold infoBytes at h
  split at h
  · exact (Except.error.inj h).symm
  · split at h
    · split at h
      · exact (Except.error.inj h).symm
      · split at h
        · exact absurd h (by simp)
        · exact (Except.error.inj h).symm
    · exact (Except.error.inj h).symm

theorem infohash_err {env : Env} {H : Bytes → Bytes} {md : List (PyVal × PyVal)} {e : Err}
    (h : infohash env H md = .error e) : infoBytes env md = .error .metainfo ∧ e = .metainfo := by
  unfold infohash at h
  split at h
  · exact absurd h (by simp)
  · rename_i e' he'
    have := infoBytes_err he'
    subst this
    exact ⟨he', (Except.error.inj h).symm⟩

theorem infohash_of_infoBytes {env : Env} {H : Bytes → Bytes} {md : List (PyVal × PyVal)} {ib : Bytes}
    (h : infoBytes env md = .ok ib) : infohash env H md = .ok (Base32.hexLower (H ib)) := by
  simp only [infohash, h]

/-- the calculation succeeds exactly when validation accepts, `info` is a dict, the converter
    accepts it and every numeral fits the digit limit -/
theorem infoBytes_ok_iff (env : Env) (md : List (PyVal × PyVal)) (ib : Bytes) :
    infoBytes env md = .ok ib ↔
      ∃ ikvs iu, env.validate (.dict (ensureInfo md)) = true ∧
        PyVal.lookupStr "info" (ensureInfo md) = some (.dict ikvs) ∧
        encodeDict ikvs = .ok iu ∧ small env.lim iu = true ∧ ib = ser iu := by
  constructor
  · exact infoBytes_ok
  · rintro ⟨ikvs, iu, hv, hl, hiu, hs, rfl⟩
    simp only [infoBytes, hv, hl, hiu, hs]
    simp

/-- a member of a small dictionary is small -/
theorem small_of_mem {lim : Nat} {ukvs : List (Bytes × BVal)} {k : Bytes} {v : BVal}
    (hs : small lim (.dict ukvs) = true) (hm : (k, v) ∈ ukvs) : small lim v = true := by
  have : smallKvs lim ukvs = true := by simpa [small] using hs
  exact ((smallKvs_iff lim ukvs).mp this (k, v) hm).2

/-- **If the whole metainfo can be dumped, the hash can be calculated**: validation accepts, `info`
    is a dict (what validation establishes: hypothesis `hval`), the converter accepted the whole
    metainfo, hence its `info` entry, and the numerals of the part fit the limit because those of
    the whole do. -/
theorem infoBytes_of_dump {env : Env} {md : List (PyVal × PyVal)} {validate : Bool} {bs : Bytes}
    (hv : env.validate (.dict (ensureInfo md)) = true)
    (hval : env.validate (.dict (ensureInfo md)) = true →
      ∃ ikvs, PyVal.lookupStr "info" (ensureInfo md) = some (.dict ikvs))
    (hd : dump env md validate = .ok bs) :
    ∃ ib, infoBytes env md = .ok ib := by
  obtain ⟨ikvs, hl⟩ := hval hv
  obtain ⟨u, hu, hs, _⟩ := dump_ok hd
  obtain ⟨ukvs, v, hukvs, hev, hm⟩ := mem_encodeDict "info" (.dict ikvs) _ u hu hl
  subst hukvs
  have hiu : encodeDict ikvs = .ok v := hev
  exact ⟨ser v, (infoBytes_ok_iff env md _).mpr ⟨ikvs, v, hv, hl, hiu, small_of_mem hs hm, rfl⟩⟩

/-- `dump(validate=True)` succeeded ⇒ validation accepted -/
theorem validate_of_dump_true {env : Env} {md : List (PyVal × PyVal)} {bs : Bytes}
    (hd : dump env md true = .ok bs) : env.validate (.dict (ensureInfo md)) = true := by
  unfold dump at hd
  split at hd
  · exact absurd hd (by simp)
  · rename_i h
    simpa using h

/-- validation accepted ⇒ the `validate` argument of `dump` makes no difference -/
theorem dump_validate_irrel {env : Env} {md : List (PyVal × PyVal)} (v w : Bool)
    (hv : env.validate (.dict (ensureInfo md)) = true) : dump env md v = dump env md w := by
  simp [dump, hv]

end Torf.ReadStream
