/-
  From facts about the Python metainfo to the exported value: encodings of the atoms that pass
  the rules of `validate`, and of the "iterables" it lets through (lists/tuples, but also the
  empty byte string and the empty mapping).
-/
import Torf.Lemmas.SoundBridge
import Torf.Lemmas.ValidateTop
namespace Torf.Sound
open Torf Torf.Bencode Torf.Codec Torf.Validate
open Torf.Export (utf8)

theorem norm_bytes (b : Bytes) : norm (.bytes b) = .bytes b := by simp [norm]
theorem norm_int (i : Int) : norm (.int i) = .int i := by simp [norm]

theorem enc_strOrBytes {v : PyVal} {v' : BVal} (h : isStrOrBytes v = true)
    (he : Codec.encodeValue v = .ok v') : ∃ b, v' = .bytes b := by
  cases v <;> simp [isStrOrBytes, PyVal.isStr, PyVal.isBytes] at h
  · simp only [Codec.encodeValue, Except.ok.injEq] at he; exact ⟨_, he.symm⟩
  · simp only [Codec.encodeValue, Except.ok.injEq] at he; exact ⟨_, he.symm⟩

theorem enc_url {urlOk : Bytes → Bool} {v : PyVal} {v' : BVal} (h1 : v.isStr = true)
    (h2 : isUrl urlOk v = true) (he : Codec.encodeValue v = .ok v') :
    ∃ b, v' = .bytes b ∧ urlOk b = true := by
  obtain ⟨s, rfl⟩ := isStr_iff.mp h1
  simp only [Codec.encodeValue, Except.ok.injEq] at he
  exact ⟨_, he.symm, by simpa [isUrl, Export.utf8] using h2⟩

theorem enc_numVal {l : PyVal} {len : Int} {v' : BVal} (hn : numVal? l = some len)
    (he : Codec.encodeValue l = .ok v') : v' = .int len := by
  cases l with
  | int i =>
    simp only [numVal?, Option.some.injEq] at hn
    simp only [Codec.encodeValue, Except.ok.injEq] at he; rw [← he, hn]
  | bool b =>
    simp only [numVal?, Option.some.injEq] at hn
    simp only [Codec.encodeValue, Except.ok.injEq] at he; rw [← he, hn]
  | float f =>
    cases f with
    | fin t integral neg =>
      cases integral with
      | true =>
        simp only [numVal?, Option.some.injEq] at hn
        simp only [Codec.encodeValue, Except.ok.injEq] at he; rw [← he, hn]
      | false => simp [numVal?] at hn
    | _ => simp [numVal?] at hn
  | _ => simp [numVal?] at hn

theorem enc_int {v : PyVal} {v' : BVal} (hi : v.isInt = true)
    (he : Codec.encodeValue v = .ok v') : v' = .int (intVal v) := by
  cases v <;> simp [PyVal.isInt] at hi
  · simp only [Codec.encodeValue, Except.ok.injEq] at he; rw [← he]; rfl
  · simp only [Codec.encodeValue, Except.ok.injEq] at he; rw [← he]; rfl

theorem enc_empty_dict {u : BVal} (he : Codec.encodeValue (.dict []) = .ok u) :
    norm u = .dict [] := by
  simp only [Codec.encodeValue, encodeKvs, isort, List.map_nil, Except.ok.injEq] at he
  rw [← he]; simp [norm, normKvs, isort]

/-- what an "iterable" whose every position holds a value with property `Q` (never an `int`)
    is exported as: a list of such values, or the empty byte string, or the empty dictionary -/
theorem iter_enc {Q : PyVal → Prop} (hQ : ∀ n, ¬ Q (.int n)) {p : PyVal} {comps : List PyVal}
    {p' : BVal} (hpi : p.isIterable = true) (hcomps : pyIter p = some comps)
    (hall : ∀ j, j < comps.length → ∃ v, getItem p (.i j) = .val v ∧ Q v)
    (henc : Codec.encodeValue p = .ok p') :
    (∃ l l', (p = .list l ∨ p = .tuple l) ∧ comps = l ∧ Codec.encodeList l = .ok l' ∧
        norm p' = .list (l'.map norm) ∧ ∀ v ∈ l, Q v) ∨
      norm p' = .bytes [] ∨ norm p' = .dict [] := by
  have hmem : ∀ l : List PyVal, comps = l →
      (∀ j v, l[j]? = some v → getItem p (.i j) = .val v) → ∀ v ∈ l, Q v := by
    intro l hl hg v hv
    subst hl
    obtain ⟨j, hj⟩ := List.getElem?_of_mem hv
    have hlt : j < comps.length := by
      have := List.getElem?_eq_some_iff.mp hj; exact this.1
    obtain ⟨v', hv', hq⟩ := hall j hlt
    rw [hg j v hj] at hv'
    simp only [Get.val.injEq] at hv'; subst hv'; exact hq
  cases p with
  | list l =>
    left
    simp only [pyIter, Option.some.injEq] at hcomps
    obtain ⟨l', hl', rfl⟩ := encodeValue_list_ok l p' henc
    refine ⟨l, l', .inl rfl, hcomps.symm, hl', by simp [norm, normList_eq_map],
      hmem l hcomps.symm (fun j v hj => by simp [Validate.getItem, hj])⟩
  | tuple l =>
    left
    simp only [pyIter, Option.some.injEq] at hcomps
    obtain ⟨l', hl', rfl⟩ := encodeValue_tuple_ok l p' henc
    refine ⟨l, l', .inr rfl, hcomps.symm, hl', by simp [norm, normList_eq_map],
      hmem l hcomps.symm (fun j v hj => by simp [Validate.getItem, hj])⟩
  | bytes b =>
    right; left
    cases b with
    | nil =>
      simp only [Codec.encodeValue, Except.ok.injEq] at henc
      rw [← henc]; exact norm_bytes []
    | cons y t =>
      simp only [pyIter, Option.some.injEq] at hcomps
      subst hcomps
      obtain ⟨v, hv, hq⟩ := hall 0 (by simp)
      simp only [Validate.getItem, List.getElem?_cons_zero, Get.val.injEq] at hv
      subst hv
      exact absurd hq (hQ _)
  | dict kvs =>
    right; right
    cases kvs with
    | nil => exact enc_empty_dict henc
    | cons kv t =>
      simp only [pyIter, Option.some.injEq] at hcomps
      subst hcomps
      obtain ⟨v, hv, _⟩ := hall 0 (by simp)
      simp only [Validate.getItem, lookupKey] at hv
      split at hv
      · rename_i v' hl
        obtain ⟨k, hk, hk0⟩ := lookupNat_some_key hl
        obtain ⟨es, hes, _⟩ := encodeValue_dict_ok _ p' henc
        obtain ⟨q, hq, rfl⟩ := List.mem_map.mp hk
        obtain ⟨s, hs⟩ := encodeKvs_keys_str _ es hes q hq
        rw [hs] at hk0
        simp [keyEqNat] at hk0
      · exact absurd hv (by simp)
  | none => simp [PyVal.isIterable] at hpi
  | bool _ => simp [PyVal.isIterable] at hpi
  | int _ => simp [PyVal.isIterable] at hpi
  | float _ => simp [PyVal.isIterable] at hpi
  | str _ => simp [PyVal.isIterable] at hpi
  | datetime _ => simp [PyVal.isIterable] at hpi
  | other _ => simp [PyVal.isIterable] at hpi

end Torf.Sound
