/-
  The collector fold of `verifySeq`.
-/
import Torf.Lemmas.Verify
namespace Torf.Verify
open Torf Torf.Missing

variable {α δ : Type} [DecidableEq δ]

theorem collectItem_raised (H : List α → δ) (L : Nat) (sizes : List Nat) (stored : List δ)
    (hasCb : Bool) (acc : Acc δ) (x : Item α × Nat) (h : acc.raised.isSome = true) :
    collectItem H L sizes stored hasCb acc x = acc := by
  unfold collectItem; simp [h]

theorem fold_raised (H : List α → δ) (L : Nat) (sizes : List Nat) (stored : List δ)
    (hasCb : Bool) (xs : List (Item α × Nat)) (acc : Acc δ) (h : acc.raised.isSome = true) :
    xs.foldl (collectItem H L sizes stored hasCb) acc = acc := by
  induction xs with
  | nil => rfl
  | cons x xs ih => simp only [List.foldl_cons]; rw [collectItem_raised _ _ _ _ _ _ _ h]; exact ih

/-- one data item, nothing raised so far -/
theorem collectItem_data (H : List α → δ) (L : Nat) (sizes : List Nat) (stored : List δ)
    (hasCb : Bool) (acc : Acc δ) (p : List α) (i : Nat) (h : acc.raised = none) :
    let acc' := collectItem H L sizes stored hasCb acc (dataItem p, i)
    acc'.collected = acc.collected ++ [H p] ∧
    (stored[i]? = some (H p) → acc'.raised = none ∧
        acc'.calls = (if hasCb then acc.calls ++ [⟨i + 1, i, some (H p), none⟩] else acc.calls)) ∧
    (stored[i]? ≠ some (H p) → hasCb = false → acc'.raised.isSome = true) ∧
    (stored[i]? = none → acc'.raised = some .internal) ∧
    (∀ s, stored[i]? = some s → s ≠ H p → hasCb = false →
        acc'.raised = some (.content i (corruptFiles L sizes i))) ∧
    (∀ s, stored[i]? = some s → s ≠ H p → hasCb = true →
        acc'.raised = none ∧
        acc'.calls = acc.calls ++ [⟨i + 1, i, some (H p), some (.content i (corruptFiles L sizes i))⟩]) := by
  unfold collectItem dataItem
  simp only [h, Option.isSome_none, Bool.false_eq_true, if_false, List.isEmpty_nil, Bool.not_true]
  cases hs : stored[i]? with
  | none => simp
  | some s =>
    by_cases heq : H p = s
    · subst heq; cases hasCb <;> simp
    · have hne : s ≠ H p := fun h => heq h.symm
      cases hasCb <;> simp [heq, hne, h]

/-- a run of data items without callback: either every digest matches (nothing raised, all
    collected) or something is raised -/
theorem fold_data_nocb (H : List α → δ) (L : Nat) (sizes : List Nat) (stored : List δ)
    (ps : List (List α)) (k : Nat) (acc : Acc δ) (h : acc.raised = none) :
    let acc' := ((ps.map dataItem).zipIdx k).foldl (collectItem H L sizes stored false) acc
    ((∀ i, (hi : i < ps.length) → stored[k + i]? = some (H ps[i])) →
        acc'.raised = none ∧ acc'.collected = acc.collected ++ ps.map H ∧ acc'.calls = acc.calls) ∧
    (¬ (∀ i, (hi : i < ps.length) → stored[k + i]? = some (H ps[i])) → acc'.raised.isSome = true) := by
  induction ps generalizing k acc with
  | nil => simp [h]
  | cons p ps ih =>
    simp only [List.map_cons, List.zipIdx_cons, List.foldl_cons]
    obtain ⟨hc, hmatch, hmis, _, _, _⟩ := collectItem_data H L sizes stored false acc p k h
    by_cases hk : stored[k]? = some (H p)
    · obtain ⟨hr, hcalls⟩ := hmatch hk
      obtain ⟨ih1, ih2⟩ := ih (k + 1) _ hr
      constructor
      · intro hall
        have hall' : ∀ i, (hi : i < ps.length) → stored[k + 1 + i]? = some (H ps[i]) := by
          intro i hi
          have := hall (i + 1) (by simp; omega)
          simpa [Nat.add_assoc, Nat.add_comm 1 i] using this
        obtain ⟨a, b, c⟩ := ih1 hall'
        refine ⟨a, ?_, ?_⟩
        · rw [b, hc]; simp
        · rw [c, hcalls]; simp
      · intro hnot
        apply ih2
        intro hall'
        apply hnot
        intro i hi
        cases i with
        | zero => simpa using hk
        | succ i =>
          have := hall' i (by simp at hi; omega)
          simpa [Nat.add_assoc, Nat.add_comm 1 i] using this
    · have hr := hmis hk rfl
      constructor
      · intro hall
        have h0 := hall 0 (by simp)
        simp only [Nat.add_zero, List.getElem_cons_zero] at h0
        exact absurd h0 hk
      · intro _
        rw [fold_raised _ _ _ _ _ _ _ hr]
        exact hr

/-- an item with exceptions, no callback: the first exception is raised -/
theorem collectItem_exc_nocb (H : List α → δ) (L : Nat) (sizes : List Nat) (stored : List δ)
    (acc : Acc δ) (it : Item α) (i : Nat) (e : Nat × ErrKind) (h : acc.raised = none)
    (he : it.excs.head? = some e) :
    (collectItem H L sizes stored false acc (it, i)).raised = some (excOf e) := by
  unfold collectItem
  have hne : it.excs.isEmpty = false := by
    cases hx : it.excs with
    | nil => simp [hx] at he
    | cons _ _ => rfl
  simp [h, hne, he]

end Torf.Verify
