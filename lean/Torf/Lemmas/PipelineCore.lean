/-
  Torf.Lemmas.PipelineCore — the steps of main, the reader and the hashers do not depend on the
  janitor's position inside its polling round: they commute with `core`.  Each thread has at most
  one enabled label in a state.
-/
import Torf.Lemmas.PipelineMeasure
namespace Torf.Pipeline

@[simp] theorem coreJan_idem (j : JPc) : coreJan (coreJan j) = coreJan j := by cases j <;> rfl

@[simp] theorem coreJan_running (j : JPc) : (coreJan j).running = j.running := by cases j <;> rfl

@[simp] theorem core_core (s : State) : core (core s) = core s := by simp [core]

theorem core_hasher (cfg : Cfg) (s : State) (i : Nat) (b : Bool) :
    (stepHasher cfg s i b).map core = (stepHasher cfg (core s) i b).map core := by
  rcases s with ⟨main, rpc, stop, rexc, pq, hs, fin, hq, jan, tracked, seen, collected⟩
  dsimp only [stepHasher, core, setHasher]
  repeat' split
  all_goals simp_all [core]

theorem core_reader (cfg : Cfg) (s : State) :
    (stepReader cfg s).map core = (stepReader cfg (core s)).map core := by
  rcases s with ⟨main, rpc, stop, rexc, pq, hs, fin, hq, jan, tracked, seen, collected⟩
  dsimp only [stepReader, readerNext, core]
  repeat' split
  all_goals simp_all [core]

@[simp] theorem core_main' (s : State) : (core s).main = s.main := rfl
@[simp] theorem core_rpc' (s : State) : (core s).rpc = s.rpc := rfl
@[simp] theorem core_stop' (s : State) : (core s).stop = s.stop := rfl
@[simp] theorem core_rexc' (s : State) : (core s).rexc = s.rexc := rfl
@[simp] theorem core_pq' (s : State) : (core s).pq = s.pq := rfl
@[simp] theorem core_hs' (s : State) : (core s).hs = s.hs := rfl
@[simp] theorem core_fin' (s : State) : (core s).fin = s.fin := rfl
@[simp] theorem core_hq' (s : State) : (core s).hq = s.hq := rfl
@[simp] theorem core_tracked' (s : State) : (core s).tracked = s.tracked := rfl
@[simp] theorem core_seen' (s : State) : (core s).seen = s.seen := rfl
@[simp] theorem core_collected' (s : State) : (core s).collected = s.collected := rfl
@[simp] theorem core_jan' (s : State) : (core s).jan = coreJan s.jan := rfl
@[simp] theorem hasherRunning_core (s : State) (h : Nat) : hasherRunning (core s) h = hasherRunning s h := rfl

theorem core_with_main (s : State) (m : MPc) :
    core { core s with main := m } = core { s with main := m } := by simp [core]

theorem core_main (cfg : Cfg) (s : State) :
    (stepMain cfg s).map core = (stepMain cfg (core s)).map core := by
  unfold stepMain
  simp only [core_main', core_rpc', core_hq', core_seen', core_tracked', core_jan', coreJan_running,
    hasherRunning_core, afterReaderJoin, enterJoinHasher, finishWith, core_rexc', core_collected']
  split
  case h_4 i hm =>
    by_cases h1 : Tid.hasher i ∈ cfg.refuse
    · by_cases h2 : i = 0
      · subst h2; simp [h1, core, setHasher]
      · simp [h1, h2, core, setHasher]
    · simp [h1, core, setHasher]
  all_goals first
    | rfl
    | (repeat' split) <;> first | rfl | (simp_all [core]; done)
    | skip

/-- a step of main, the reader or a hasher from the core state leads to the core of the
    successor -/
theorem core_step (cfg : Cfg) (s : State) (l : Label) (hl : l.tid ≠ .janitor) :
    (step cfg s l).map core = (step cfg (core s) l).map core := by
  unfold step
  split
  · split
    · rfl
    · exact core_main cfg s
  · split
    · rfl
    · exact core_reader cfg s
  · exact core_hasher cfg s _ _
  · rename_i h; exact absurd h hl

/-- states with the same core have the same non-janitor steps, up to the core -/
theorem step_of_core_eq {cfg : Cfg} {s t s' : State} {l : Label} (hl : l.tid ≠ .janitor)
    (hc : core s = core t) (hs : step cfg s l = some s') :
    ∃ t', step cfg t l = some t' ∧ core t' = core s' := by
  have h1 := core_step cfg s l hl
  have h2 := core_step cfg t l hl
  rw [hc, ← h2, hs] at h1
  cases ht : step cfg t l with
  | none => simp [ht] at h1
  | some t' => exact ⟨t', rfl, by simpa [ht] using h1.symm⟩

/-- in a state a thread has at most one enabled label: the timeout alternative of a `get`/`wait`
    is enabled exactly when the blocking alternative is not -/
theorem label_unique {cfg : Cfg} {s s₁ s₂ : State} {t : Tid} {b b' : Bool}
    (h1 : step cfg s ⟨t, b⟩ = some s₁) (h2 : step cfg s ⟨t, b'⟩ = some s₂) : b = b' := by
  cases t with
  | main =>
    simp only [step] at h1 h2
    cases b <;> cases b' <;> simp_all
  | reader =>
    simp only [step] at h1 h2
    cases b <;> cases b' <;> simp_all
  | hasher i =>
    simp only [step, stepHasher] at h1 h2
    cases b <;> cases b' <;> first | rfl | (exfalso; repeat' split at h1 <;> simp_all)
  | janitor =>
    simp only [step, stepJanitor] at h1 h2
    cases b <;> cases b' <;> first | rfl | (exfalso; repeat' split at h1 <;> simp_all)

end Torf.Pipeline
