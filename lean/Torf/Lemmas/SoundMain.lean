/-
  The exported value of a validated metainfo satisfies `Sound.soundVal`.
-/
import Torf.Lemmas.SoundFacts
namespace Torf.Sound
open Torf Torf.Bencode Torf.Codec Torf.Validate
open Torf.Export (utf8)

variable (urlOk : Bytes → Bool)

theorem div20 {n m : Nat} (h20 : n % 20 = 0) (h : n / 20 = m) : n = 20 * m := by omega

theorem soundVal_of_valid {md0 : Items} {u : BVal} (vf : ValidFacts urlOk md0)
    (hw : wf (.dict md0) = true) (henc : Codec.encodeValue (.dict md0) = .ok u) :
    soundVal urlOk (norm u) = true := by
  obtain ⟨info, b, cf, af, hb, hz, h20, hbranch⟩ := vf.ex
  obtain ⟨L, hL, hlook⟩ := lookup_encoded md0 u henc (wf_strKeys md0 hw)
  obtain ⟨iv', hiv', hib⟩ := (hlook "info").2 _ cf.hinfo
  have hwi : wf (.dict info) = true := wf_lookup md0 "info" _ hw cf.hinfo
  obtain ⟨Li, hLi, hlooki⟩ := lookup_encoded info iv' hiv' (wf_strKeys info hwi)
  rw [hL]
  have hinfoOf : infoOf (.dict L) = some Li := by simp [infoOf, hib, hLi]
  simp only [soundVal, hinfoOf, Bool.and_eq_true]
  -- piece length and pieces
  obtain ⟨pv, hpv, hpi, hpd⟩ := cf.pieceLength
  obtain ⟨pv', hpv', hpb⟩ := (hlooki "piece length").2 pv hpv
  have := enc_int hpi hpv'
  subst this
  have hpos := pieceLength_pos hpd
  have hPL : pieceLength? Li = some (intVal pv).toNat := by
    simp [pieceLength?, hpb, norm_int, hpos.1, hpos.2]
  obtain ⟨bw, hbw, hbb⟩ := (hlooki "pieces").2 _ hb
  simp only [Codec.encodeValue, Except.ok.injEq] at hbw
  subst hbw
  have hPC : piecesLen? Li = some b.length := by
    have : b.isEmpty = false := by cases b <;> simp_all
    simp [piecesLen?, hbb, norm_bytes, this]
  refine ⟨⟨?_, ?_⟩, ?_⟩
  · -- name
    obtain ⟨nv, hnv, hns⟩ := cf.name
    obtain ⟨nv', hnv', hnb⟩ := (hlooki "name").2 nv hnv
    obtain ⟨bb, rfl⟩ := enc_strOrBytes hns hnv'
    simp [nameOk, hnb, norm_bytes]
  · -- piece count
    rcases hbranch with ⟨hfil, l, len, pv2, hl, _, _, hnum, hlen0, hpv2, hcount⟩ |
      ⟨hlen, ⟨fl, files, pv2, hfl, hfli, hfiles, hfacts, hpv2, hcount⟩, hnd⟩
    · have : pv2 = pv := by rw [hpv] at hpv2; exact (Option.some.inj hpv2).symm
      subst this
      obtain ⟨lv', hlv', hlb⟩ := (hlooki "length").2 l hl
      have := enc_numVal hnum hlv'
      subst this
      have hS : size? Li = some len.toNat := by
        simp [size?, hlb, (hlooki "files").1 hfil, norm_int, hlen0]
      rw [expPieces_eq hlen0 hpos.1] at hcount
      simp only [countOk, hPL, hPC, hS, beq_iff_eq, ceilDiv]
      exact div20 h20 (by omega)
    · have : pv2 = pv := by rw [hpv] at hpv2; exact (Option.some.inj hpv2).symm
      subst this
      obtain ⟨fl', hfl', hfb⟩ := (hlooki "files").2 fl hfl
      have hwf : wf fl = true := wf_lookup info "files" _ hwi hfl
      have hne : b.length / 20 ≠ 0 := by omega
      -- `files` is a non-empty list or tuple of entries
      have hseq : ∃ l', Codec.encodeList files = .ok l' ∧ norm fl' = .list (l'.map norm) ∧
          ∀ x ∈ files, wf x = true := by
        cases fl with
        | list l =>
          simp only [pyIter, Option.some.injEq] at hfiles; subst hfiles
          obtain ⟨l', hl', rfl⟩ := encodeValue_list_ok _ fl' hfl'
          exact ⟨l', hl', by simp [norm, normList_eq_map], fun x hx => wf_list_mem _ x hwf hx⟩
        | tuple l =>
          simp only [pyIter, Option.some.injEq] at hfiles; subst hfiles
          obtain ⟨l', hl', rfl⟩ := encodeValue_tuple_ok _ fl' hfl'
          exact ⟨l', hl', by simp [norm, normList_eq_map], fun x hx => wf_tuple_mem _ x hwf hx⟩
        | bytes bb =>
          exfalso
          simp only [pyIter, Option.some.injEq] at hfiles; subst hfiles
          cases bb with
          | nil =>
            simp only [List.map_nil, List.sum_nil, expPieces_zero hpos.1] at hcount
            omega
          | cons y t =>
            obtain ⟨e, _, _, _, _, he, _⟩ := hfacts (.int y.toNat) (by simp)
            exact absurd he (by simp)
        | dict kvs => exact absurd (hnd _ hfl) (by simp [PyVal.isDict])
        | none => simp [PyVal.isIterable] at hfli
        | bool _ => simp [PyVal.isIterable] at hfli
        | int _ => simp [PyVal.isIterable] at hfli
        | float _ => simp [PyVal.isIterable] at hfli
        | str _ => simp [PyVal.isIterable] at hfli
        | datetime _ => simp [PyVal.isIterable] at hfli
        | other _ => simp [PyVal.isIterable] at hfli
      obtain ⟨l', hl', hnfl, hwx⟩ := hseq
      obtain ⟨n, hn, hne'⟩ := sumFiles_enc files l' hl' hfacts hwx
      have hS : size? Li = some n := by
        simp [size?, (hlooki "length").1 hlen, hfb, hnfl, hn]
      have ht0 := totalLen_bounds files hfacts
      rw [expPieces_eq ht0 hpos.1] at hcount
      have : ((files.map Validate.fileLen).sum).toNat = n := by omega
      rw [this] at hcount
      simp only [countOk, hPL, hPC, hS, beq_iff_eq, ceilDiv]
      exact div20 h20 (by omega)
  · -- announce URLs
    simp only [announceOk, Bool.and_eq_true]
    constructor
    · cases ha : PyVal.lookupStr "announce" md0 with
      | none => simp [(hlook "announce").1 ha]
      | some v =>
        obtain ⟨v', hv', hvb⟩ := (hlook "announce").2 v ha
        obtain ⟨h1, h2⟩ := cf.announce v ha
        obtain ⟨bb, rfl, hbb⟩ := enc_url h1 h2 hv'
        simp [hvb, norm_bytes, urlB, hbb]
    · cases ha : PyVal.lookupStr "announce-list" md0 with
      | none => simp [(hlook "announce-list").1 ha]
      | some al =>
        obtain ⟨al', hal', halb⟩ := (hlook "announce-list").2 al ha
        obtain ⟨xs, hxs, htiers⟩ := af al ha
        rcases announceList_enc urlOk (cf.announceList al ha) hxs htiers hal' with
          ⟨tiers, ht, hall⟩ | h | h
        · simp [halb, ht, hall]
        · simp [halb, h]
        · simp [halb, h]

end Torf.Sound
