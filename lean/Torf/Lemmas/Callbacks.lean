/-
  Lemmas about the progress-reporting fold.
-/
import Torf.Model.Callbacks
namespace Torf.Callbacks
open Torf.Pipeline (ItemKind)

/-- recursive form of the fold: calls produced from gate state (prev, done) -/
def callsFrom (verify : Bool) (interval : Int) (total : Nat) : Int → Nat → List Ev → List Call
  | _, _, [] => []
  | prev, d, e :: es =>
    if force verify total (d + 1) e.kind || decide (e.now - prev ≥ interval) then
      emit verify (d + 1) e ++ callsFrom verify interval total e.now (d + 1) es
    else callsFrom verify interval total prev (d + 1) es

theorem foldl_calls (verify : Bool) (interval : Int) (total : Nat) (evs : List Ev) (st : GateSt) :
    (evs.foldl (stepEv verify interval total) st).calls
      = st.calls ++ callsFrom verify interval total st.prev st.done evs ∧
    (evs.foldl (stepEv verify interval total) st).done = st.done + evs.length := by
  induction evs generalizing st with
  | nil => simp [callsFrom]
  | cons e es ih =>
    simp only [List.foldl_cons, callsFrom, List.length_cons]
    by_cases h : (force verify total (st.done + 1) e.kind || decide (e.now - st.prev ≥ interval)) = true
    · have hs : stepEv verify interval total st e =
          { prev := e.now, done := st.done + 1, calls := st.calls ++ emit verify (st.done + 1) e } := by
        unfold stepEv; simp only [h, if_true]
      rw [hs]
      obtain ⟨h1, h2⟩ := ih { prev := e.now, done := st.done + 1, calls := st.calls ++ emit verify (st.done + 1) e }
      simp only [h, if_true]
      refine ⟨by rw [h1]; simp, by rw [h2]; simp only; omega⟩
    · have hs : stepEv verify interval total st e = { st with done := st.done + 1 } := by
        unfold stepEv; simp only [h, if_false]; simp
      rw [hs]
      obtain ⟨h1, h2⟩ := ih { st with done := st.done + 1 }
      simp only [h, if_false]
      refine ⟨by rw [h1]; simp, by rw [h2]; simp; omega⟩

theorem calls_eq (verify : Bool) (interval : Int) (total : Nat) (evs : List Ev) :
    calls verify interval total evs = callsFrom verify interval total (-1) 0 evs := by
  unfold calls run
  have := (foldl_calls verify interval total evs {}).1
  simpa using this

theorem mem_emit (verify : Bool) (d : Nat) (e : Ev) (c : Call) (hc : c ∈ emit verify d e) :
    c.done = d ∧ c.piece = e.piece ∧ (c.exc.isSome ↔ (verify = true ∧ (e.kind = .exc ∨ e.kind = .mismatch))) := by
  unfold emit at hc
  cases verify with
  | false =>
    simp only [Bool.false_eq_true, if_false] at hc
    cases hk : e.kind <;> simp only [hk] at hc
    · simp at hc; subst hc; simp
    · simp at hc; subst hc; simp
    · simp at hc; subst hc; simp
    · simp at hc
  | true =>
    simp only [if_true] at hc
    cases hk : e.kind <;> simp only [hk] at hc
    · simp at hc; subst hc; simp
    · simp at hc; subst hc; simp
    · simp at hc; subst hc; simp
    · simp only [List.mem_map, List.mem_range] at hc
      obtain ⟨j, _, rfl⟩ := hc
      simp

/-- (A) every call reports a counter within the range of the results collected -/
theorem callsFrom_range (verify : Bool) (interval : Int) (total : Nat) (evs : List Ev)
    (prev : Int) (d : Nat) (c : Call) (hc : c ∈ callsFrom verify interval total prev d evs) :
    d + 1 ≤ c.done ∧ c.done ≤ d + evs.length := by
  induction evs generalizing prev d with
  | nil => simp [callsFrom] at hc
  | cons e es ih =>
    simp only [callsFrom] at hc
    simp only [List.length_cons]
    split at hc
    · rw [List.mem_append] at hc
      rcases hc with hc | hc
      · have := (mem_emit verify (d + 1) e c hc).1; omega
      · have := ih e.now (d + 1) hc; omega
    · have := ih prev (d + 1) hc; omega

/-- (B) the counter never decreases; a value repeats only within one piece's error reports -/
def Ordered (a b : Call) : Prop :=
  a.done ≤ b.done ∧ (a.done = b.done → a.piece = b.piece ∧ a.exc.isSome ∧ b.exc.isSome)

theorem emit_pairwise (verify : Bool) (d : Nat) (e : Ev) : (emit verify d e).Pairwise Ordered := by
  unfold emit
  cases verify with
  | false =>
    simp only [Bool.false_eq_true, if_false]
    cases hk : e.kind <;> simp
  | true =>
    simp only [if_true]
    cases hk : e.kind <;> simp only
    · simp
    · simp
    · simp
    · rw [List.pairwise_map]
      apply List.Pairwise.imp (R := fun _ _ => True)
      · intro a b _; simp [Ordered]
      · exact List.pairwise_of_forall (l := List.range e.nexc) (fun _ _ => trivial)

theorem callsFrom_pairwise (verify : Bool) (interval : Int) (total : Nat) (evs : List Ev)
    (prev : Int) (d : Nat) : (callsFrom verify interval total prev d evs).Pairwise Ordered := by
  induction evs generalizing prev d with
  | nil => simp [callsFrom]
  | cons e es ih =>
    simp only [callsFrom]
    split
    · rw [List.pairwise_append]
      refine ⟨emit_pairwise verify (d + 1) e, ih e.now (d + 1), ?_⟩
      intro a ha b hb
      have h1 := (mem_emit verify (d + 1) e a ha).1
      have h2 := callsFrom_range verify interval total es e.now (d + 1) b hb
      exact ⟨by omega, by intro h; omega⟩
    · exact ih prev (d + 1)

/-- the clock is monotone from `prev` on -/
def ClockMono : Int → List Ev → Prop
  | _, [] => True
  | prev, e :: es => prev ≤ e.now ∧ ClockMono e.now es

/-- (C) with a zero interval and a monotone clock every result produces its calls -/
theorem callsFrom_zero (verify : Bool) (interval : Int) (hi : interval ≤ 0) (total : Nat)
    (evs : List Ev) (prev : Int) (d : Nat) (hclk : ClockMono prev evs) :
    callsFrom verify interval total prev d evs
      = (evs.zipIdx (d + 1)).flatMap fun (e, i) => emit verify i e := by
  induction evs generalizing prev d with
  | nil => simp [callsFrom]
  | cons e es ih =>
    obtain ⟨h1, h2⟩ := hclk
    simp only [callsFrom, List.zipIdx_cons, List.flatMap_cons]
    have hg : (force verify total (d + 1) e.kind || decide (e.now - prev ≥ interval)) = true := by
      have : e.now - prev ≥ interval := by omega
      simp [this]
    simp only [hg, if_true]
    rw [ih e.now (d + 1) h2]

/-- (D) the last result of a complete run is always reported with `done = total` -/
theorem callsFrom_final (verify : Bool) (interval : Int) (total : Nat) (evs : List Ev)
    (prev : Int) (d : Nat) (hne : evs ≠ []) (htot : d + evs.length = total)
    (hexc : ∀ e ∈ evs, e.kind = .exc → verify = true ∧ 1 ≤ e.nexc) :
    ∃ c, (callsFrom verify interval total prev d evs).getLast? = some c ∧ c.done = total := by
  induction evs generalizing prev d with
  | nil => exact absurd rfl hne
  | cons e es ih =>
    simp only [callsFrom]
    by_cases hes : es = []
    · subst hes
      simp only [List.length_cons, List.length_nil] at htot
      have hf : force verify total (d + 1) e.kind = true := by
        unfold force; simp [show d + 1 ≥ total by omega]
      simp only [hf, Bool.true_or, if_true, callsFrom, List.append_nil]
      -- emit is non-empty and all its calls have done = d + 1
      have hne' : emit verify (d + 1) e ≠ [] := by
        unfold emit
        cases verify with
        | false =>
          simp only [Bool.false_eq_true, if_false]
          cases hk : e.kind <;> simp only
          · simp
          · simp
          · simp
          · exact absurd (hexc e (by simp) hk).1 (by simp)
        | true =>
          simp only [if_true]
          cases hk : e.kind <;> simp only
          · simp
          · simp
          · simp
          · have := (hexc e (by simp) hk).2
            intro h0
            have hl := congrArg List.length h0
            simp at hl; omega
      obtain ⟨c, hc⟩ : ∃ c, (emit verify (d + 1) e).getLast? = some c := by
        cases hl : (emit verify (d + 1) e).getLast? with
        | none => exact absurd (List.getLast?_eq_none_iff.mp hl) hne'
        | some c => exact ⟨c, rfl⟩
      refine ⟨c, hc, ?_⟩
      have hmem : c ∈ emit verify (d + 1) e := List.mem_of_getLast? hc
      have := (mem_emit verify (d + 1) e c hmem).1
      omega
    · have hlen : (d + 1) + es.length = total := by simp only [List.length_cons] at htot; omega
      have hexc' : ∀ x ∈ es, x.kind = .exc → verify = true ∧ 1 ≤ x.nexc := fun x hx => hexc x (by simp [hx])
      split
      · obtain ⟨c, hc, hd⟩ := ih e.now (d + 1) hes hlen hexc'
        refine ⟨c, ?_, hd⟩
        have hne2 : callsFrom verify interval total e.now (d + 1) es ≠ [] := by
          intro h0; rw [h0] at hc; simp at hc
        rw [List.getLast?_append, hc]
        simp
      · exact ih prev (d + 1) hes hlen hexc'

/-- (E) verify: every error item and every mismatch reaches the callback whatever the interval
    and the clock are -/
theorem callsFrom_errors (interval : Int) (total : Nat) (evs : List Ev) (prev : Int) (d : Nat) :
    (callsFrom true interval total prev d evs).filter (fun c => c.exc.isSome)
      = (evs.zipIdx (d + 1)).flatMap fun (e, i) =>
          match e.kind with
          | .exc => (List.range e.nexc).map fun j => (⟨i, e.piece, some j⟩ : Call)
          | .mismatch => [⟨i, e.piece, some 0⟩]
          | _ => [] := by
  induction evs generalizing prev d with
  | nil => simp [callsFrom]
  | cons e es ih =>
    simp only [callsFrom, List.zipIdx_cons, List.flatMap_cons]
    cases hk : e.kind
    · -- data: emits (if at all) a call without exception
      simp only
      split
      · rw [List.filter_append, ih]
        simp [emit, hk]
      · rw [ih]; simp
    · -- mismatch: forced
      have hf : force true total (d + 1) ItemKind.mismatch = true := by unfold force; simp
      simp only [hf, Bool.true_or, if_true]
      rw [List.filter_append, ih]
      simp [emit, hk]
    · simp only
      split
      · rw [List.filter_append, ih]
        simp [emit, hk]
      · rw [ih]; simp
    · have hf : force true total (d + 1) ItemKind.exc = true := by unfold force; simp
      simp only [hf, Bool.true_or, if_true]
      rw [List.filter_append, ih]
      congr 1
      simp only [emit, hk, if_true]
      rw [List.filter_eq_self]
      intro c hc
      simp only [List.mem_map, List.mem_range] at hc
      obtain ⟨j, _, rfl⟩ := hc
      rfl

end Torf.Callbacks
