/-
  Lemmas for property C08 (model: Torf/Model/Untrusted.lean).
-/
import Torf.Model.Untrusted
import Torf.Lemmas.BencodeParse
import Torf.Lemmas.Export
namespace Torf.Untrusted
open Torf Torf.Bencode Torf.Codec

/-! ### the wrapped decoder -/

/-- the primitives of the decoder raise nothing but ValueError, OverflowError, MemoryError -/
theorem bufRead_kinds {env : Env} {n : Nat} {r : Raise} (h : bufRead env n = some r) :
    r = .overflow ∨ r = .memory := by
  unfold bufRead at h
  split at h
  · simp at h; exact .inl h.symm
  · split at h
    · simp at h; exact .inr h.symm
    · simp at h

theorem bufRead_memory {env : Env} {n : Nat} (h : bufRead env n = some .memory) :
    env.memLimit < n ∧ n ≤ env.ssizeMax := by
  unfold bufRead at h
  split at h
  · simp at h
  · split at h
    · constructor <;> omega
    · simp at h

theorem intTokenRaise_kinds {lim : Nat} {s1 : Bytes} {r : Raise} (h : intTokenRaise lim s1 = some r) :
    r = .value := by
  unfold intTokenRaise at h
  split at h
  · split at h
    · simp at h
    · split at h
      · simp at h; exact h.symm
      · simp at h
  · simp at h

theorem strTokenRaise_kinds {env : Env} {s : Bytes} {r : Raise} (h : strTokenRaise env s = some r) :
    r = .value ∨ r = .overflow ∨ r = .memory := by
  unfold strTokenRaise at h
  split at h
  · split at h
    · simp at h; exact .inl h.symm
    · exact .inr (bufRead_kinds h)
  · simp at h

theorem tokenRaise_kinds {env : Env} {inp : Bytes} {r : Raise} (h : tokenRaise env inp = some r) :
    r = .value ∨ r = .overflow ∨ r = .memory := by
  unfold tokenRaise at h
  split at h
  · simp at h
  · split at h
    · simp at h
    · split at h
      · exact .inl (intTokenRaise_kinds h)
      · exact strTokenRaise_kinds h

theorem stepU_ok {env : Env} {inp : Bytes} {st : List Item} {s : StepResult}
    (h : stepU env inp st = .ok s) : s = step env.lim inp st := by
  unfold stepU at h
  split at h
  · simp at h
  · simp at h; exact h.symm

theorem stepU_err {env : Env} {inp : Bytes} {st : List Item} {r : Raise}
    (h : stepU env inp st = .error r) : tokenRaise env inp = some r := by
  unfold stepU at h
  split at h
  · rename_i r' hr; simp at h; rw [hr, h]
  · simp at h

/-- errors of the decoder loop: DecodingError, ValueError, OverflowError, MemoryError, or the
    model's fuel -/
theorem runU_kinds (env : Env) : ∀ (f : Nat) (inp : Bytes) (st : List Item) (r : Raise),
    runU env f inp st = .error r →
    r = .decoding ∨ r = .value ∨ r = .overflow ∨ r = .memory ∨ r = .fuel := by
  intro f
  induction f with
  | zero => intro inp st r h; simp [runU] at h; exact .inr (.inr (.inr (.inr h.symm)))
  | succ f ih =>
    intro inp st r h
    unfold runU at h
    split at h
    · rename_i r' hs
      simp at h; subst h
      rcases tokenRaise_kinds (stepU_err hs) with h1 | h1 | h1
      · exact .inr (.inl h1)
      · exact .inr (.inr (.inl h1))
      · exact .inr (.inr (.inr (.inl h1)))
    · simp at h
    · simp at h; exact .inl h.symm
    · exact ih _ _ _ h

/-- the loop fuel `|input| + 1` is never exhausted: every iteration consumes input -/
theorem runU_fuel (env : Env) : ∀ (f : Nat) (inp : Bytes) (st : List Item),
    inp.length < f → runU env f inp st ≠ .error .fuel := by
  intro f
  induction f with
  | zero => intro inp st h; omega
  | succ f ih =>
    intro inp st hlen h
    unfold runU at h
    split at h
    · rename_i r' hs
      simp at h; subst h
      rcases tokenRaise_kinds (stepU_err hs) with h1 | h1 | h1 <;> simp at h1
    · simp at h
    · simp at h
    · rename_i rest st' hs
      have hs' := stepU_ok hs
      have := step_length hs'.symm
      exact ih rest st' (by omega) h

theorem parseU_fuel (env : Env) (bs : Bytes) : parseU env bs ≠ .error .fuel :=
  runU_fuel env _ _ _ (by omega)

theorem parseU_kinds (env : Env) (bs : Bytes) (r : Raise) (h : parseU env bs = .error r) :
    r = .decoding ∨ r = .value ∨ r = .overflow ∨ r = .memory := by
  rcases runU_kinds env _ _ _ _ h with h1 | h1 | h1 | h1 | h1
  · exact .inl h1
  · exact .inr (.inl h1)
  · exact .inr (.inr (.inl h1))
  · exact .inr (.inr (.inr h1))
  · subst h1; exact absurd h (parseU_fuel env bs)

/-- the wrapper only adds exceptions: whatever it returns, C05's `parse` returns -/
theorem runU_ok (env : Env) : ∀ (f : Nat) (inp : Bytes) (st : List Item) (v : BVal),
    runU env f inp st = .ok v → run env.lim f inp st = some v := by
  intro f
  induction f with
  | zero => intro inp st v h; simp [runU] at h
  | succ f ih =>
    intro inp st v h
    unfold runU at h
    split at h
    · simp at h
    · rename_i v' hs
      simp at h; subst h
      simp [run, ← stepU_ok hs]
    · simp at h
    · rename_i rest st' hs
      simp only [run, ← stepU_ok hs]
      exact ih _ _ _ h

theorem parseU_ok (env : Env) (bs : Bytes) (v : BVal) (h : parseU env bs = .ok v) :
    parse env.lim bs = some v := runU_ok env _ _ _ _ h

/-- MemoryError needs a length prefix in the window (memLimit, ssizeMax] -/
theorem no_memory_of_limit (env : Env) (hm : env.ssizeMax ≤ env.memLimit) (inp : Bytes) :
    tokenRaise env inp ≠ some .memory := by
  intro h
  unfold tokenRaise at h
  split at h
  · simp at h
  · split at h
    · simp at h
    · split at h
      · have := intTokenRaise_kinds h; simp at this
      · unfold strTokenRaise at h
        split at h
        · split at h
          · simp at h
          · have := bufRead_memory h; omega
        · simp at h

theorem runU_no_memory (env : Env) (hm : env.ssizeMax ≤ env.memLimit) :
    ∀ (f : Nat) (inp : Bytes) (st : List Item), runU env f inp st ≠ .error .memory := by
  intro f
  induction f with
  | zero => intro inp st h; simp [runU] at h
  | succ f ih =>
    intro inp st h
    unfold runU at h
    split at h
    · rename_i r' hs
      simp at h; subst h
      exact no_memory_of_limit env hm inp (stepU_err hs)
    · simp at h
    · simp at h
    · exact ih _ _ h

/-! ### step counting -/

theorem popUntil_length : ∀ (st : List Item) (acc : List BVal) (e : BVal) (st' : List Item),
    popUntil st acc = some (e, st') → st'.length + popCount st = st.length := by
  intro st
  induction st with
  | nil => intro acc e st' h; simp [popUntil] at h
  | cons x t ih =>
    intro acc e st' h
    cases x with
    | lst => simp [popUntil] at h; simp [popCount, h.2]
    | dct =>
      simp only [popUntil, Option.map_eq_some_iff] at h
      obtain ⟨_, _, h2⟩ := h
      simp only [Prod.mk.injEq] at h2
      simp [popCount, h2.2]
    | val v =>
      simp only [popUntil] at h
      have := ih _ _ _ h
      simp only [popCount, List.length_cons]; omega

theorem popCount_le (st : List Item) : popCount st ≤ st.length := by
  induction st with
  | nil => simp [popCount]
  | cons x t ih => cases x <;> simp [popCount] <;> omega

theorem deliver_stack {elem rest st inp' st'} (h : deliver elem rest st = .cont inp' st') :
    st'.length = st.length + 1 := by
  unfold deliver at h
  split at h
  · simp at h
  · simp only [StepResult.cont.injEq] at h; rw [← h.2]; simp

/-- potential argument: an iteration costs at most 2 plus what it takes off the stack -/
theorem step_cost {lim inp st inp' st'} (h : step lim inp st = .cont inp' st') :
    stepCost inp st + st'.length ≤ st.length + 2 := by
  unfold step at h
  unfold stepCost
  split at h
  · simp at h
  · rename_i c rest
    dsimp only
    split at h
    · rename_i hc
      rw [if_pos hc]
      split at h
      · simp at h
      · rename_i elem st1 hp
        have h1 := popUntil_length _ _ _ _ hp
        have h2 := deliver_stack h
        omega
    · rename_i hc
      rw [if_neg hc]
      split at h
      · split at h
        · simp at h
        · have := deliver_stack h; omega
      · split at h
        · simp only [StepResult.cont.injEq] at h; rw [← h.2]; simp; omega
        · split at h
          · simp only [StepResult.cont.injEq] at h; rw [← h.2]; simp; omega
          · split at h
            · simp at h
            · have := deliver_stack h; omega

theorem stepCost_le (inp : Bytes) (st : List Item) : stepCost inp st ≤ st.length + 1 := by
  unfold stepCost
  split
  · omega
  · split
    · have := popCount_le st; omega
    · omega

theorem runSteps_le (lim : Nat) : ∀ (f : Nat) (inp : Bytes) (st : List Item),
    runSteps lim f inp st ≤ 2 * inp.length + st.length + 1 := by
  intro f
  induction f with
  | zero => intro inp st; simp [runSteps]
  | succ f ih =>
    intro inp st
    unfold runSteps
    split
    · have := stepCost_le inp st; omega
    · rename_i rest st' hs
      have h1 := step_cost hs
      have h2 := step_length hs
      have h3 := ih rest st'
      omega

/-! ### read_stream -/

theorem catchDecode_doc {r : Raise} (h : r = .decoding ∨ r = .value ∨ r = .overflow) :
    catchDecode r = .bdecode := by
  rcases h with h | h | h <;> subst h <;> rfl

theorem assertInfo_err {md : Items} {v : Bool} {e : Codec.Err}
    (h : ReadStream.assertInfo md v = .error e) : e = .metainfo := by
  unfold ReadStream.assertInfo at h
  split at h
  · split at h <;> simp at h; exact h.symm
  · simp at h
  · simp at h; exact h.symm

theorem setCreationDateU_err {env : Env} {v : BVal} {md : Items} {r : Raise}
    (h : setCreationDateU env v md = .error r) : catchCreationDate r = .metainfo := by
  unfold setCreationDateU at h
  split at h
  · split at h <;> simp at h <;> subst h <;> rfl
  · split at h
    · simp at h; subst h; rfl
    · simp at h

theorem decodeTopU_err {env : Env} {enc : List (Bytes × BVal)} {r : Raise}
    (h : decodeTopU env enc = .error r) : catchRecursion r = .bdecode := by
  unfold decodeTopU at h
  split at h
  · simp at h; subst h; rfl
  · simp at h

/-- what C08 needs from C07 about `validate()` without a content path.  It is C07's theorem
    `C07_validate_only_metainfo_error` at `fs = noPath`; `Properties/C08.lean` imports
    `Torf.Properties.C07` and proves it (`C08_validate_documented`), so the lemmas below that take
    it as an argument are applied unconditionally there.  (Kept as a `Prop` argument here so that
    this lemma file does not depend on C07's proof files.) -/
def ValidateDocumented : Prop :=
  ∀ (urlOk : Export.Bytes → Bool) (md : Items) (e : Export.ErrKind),
    Validate.filesNotMapping md = true →
    Validate.validate urlOk Validate.noPath md = .error e → e = .metainfo

theorem creationDateStep_err {env : Env} {enc : List (Bytes × BVal)} {md : Items} {e : Err}
    (h : creationDateStep env enc md = .error e) : e = .metainfo := by
  unfold creationDateStep at h
  split at h
  · split at h
    · simp at h
    · rename_i r hs
      simp at h; rw [← h]; exact setCreationDateU_err hs
  · simp at h

theorem assertInfo_false {md : Items} (h : ReadStream.assertInfo md true = .ok ()) :
    ReadStream.assertInfo md false = .ok () := by
  unfold ReadStream.assertInfo at h ⊢
  split <;> simp_all

/-- outcome analysis of `build`: ok (and validated if asked), BdecodeError, MetainfoError, or
    whatever `validate()` raised on the torrent that was built -/
theorem build_cases (env : Env) (enc : List (Bytes × BVal)) (validate : Bool) :
    (∃ t, build env enc validate = .ok t ∧ (validate = true → validateT env t = .ok ())) ∨
    build env enc validate = .error .bdecode ∨
    build env enc validate = .error .metainfo ∨
    (validate = true ∧ ∃ t e, build env enc false = .ok t ∧ validateT env t = .error e ∧
      build env enc validate = .error e) := by
  unfold build
  cases hd : decodeTopU env enc with
  | error r => right; left; simp [decodeTopU_err hd]
  | ok md =>
    dsimp only
    cases ha : ReadStream.assertInfo md validate with
    | error e =>
      have := assertInfo_err ha; subst this
      right; right; left; rfl
    | ok u =>
      cases u
      dsimp only
      cases hc : creationDateStep env enc md with
      | error e =>
        have := creationDateStep_err hc; subst this
        right; right; left; rfl
      | ok md1 =>
        dsimp only
        cases validate with
        | false => left; exact ⟨_, rfl, by simp⟩
        | true =>
          rw [assertInfo_false ha]
          dsimp only
          unfold finish
          simp only [if_true, Bool.false_eq_true, if_false]
          cases hv : validateT env (ReadStream.ensureInfo (ReadStream.setPrivate enc md1)) with
          | ok u => left; cases u; exact ⟨_, rfl, fun _ => hv⟩
          | error e =>
            right; right; right
            exact ⟨trivial, _, e, rfl, hv, rfl⟩

/-- outcome analysis of `readCore`: additionally MemoryError out of the decoder -/
theorem readCore_cases (env : Env) (bs : Bytes) (validate : Bool) :
    (∃ t, readCore env bs validate = .ok t ∧ (validate = true → validateT env t = .ok ())) ∨
    readCore env bs validate = .error .bdecode ∨
    readCore env bs validate = .error .metainfo ∨
    (parseU env bs = .error .memory ∧ readCore env bs validate = .error (.internal "MemoryError")) ∨
    (validate = true ∧ ∃ t e, readCore env bs false = .ok t ∧ validateT env t = .error e ∧
      readCore env bs validate = .error e) := by
  unfold readCore
  cases hp : parseU env bs with
  | error r =>
    rcases parseU_kinds env bs r hp with h | h | h | h
    · right; left; simp [catchDecode_doc (.inl h)]
    · right; left; simp [catchDecode_doc (.inr (.inl h))]
    · right; left; simp [catchDecode_doc (.inr (.inr h))]
    · subst h; right; right; right; left; exact ⟨rfl, rfl⟩
  | ok v =>
    cases v with
    | int i => right; left; rfl
    | bytes b => right; left; rfl
    | list l => right; left; rfl
    | dict enc =>
      dsimp only
      rcases build_cases env enc validate with h | h | h | h
      · exact .inl h
      · exact .inr (.inl h)
      · exact .inr (.inr (.inl h))
      · exact .inr (.inr (.inr (.inr h)))

/-! ### the returned torrent -/

theorem ofExport_metainfo {e : Export.ErrKind} (h : e = .metainfo) : ofExport e = .metainfo := by
  subst h; rfl

theorem validateT_doc (hV : ValidateDocumented) (env : Env) (t : Items)
    (hf : Validate.filesNotMapping t = true) :
    validateT env t = .ok () ∨ validateT env t = .error .metainfo := by
  unfold validateT
  cases h : Validate.validate env.urlOk Validate.noPath t with
  | ok u => left; cases u; rfl
  | error e => right; simp [ofExport_metainfo (hV _ _ _ hf h)]

/-- `dump(validate=False)`: success or MetainfoError, whatever the frames -/
theorem dumpT_novalidate (env : Env) (t : Items) :
    (∃ b, dumpT env t false = .ok b) ∨ dumpT env t false = .error .metainfo := by
  unfold dumpT
  simp only [Bool.false_eq_true, if_false]
  split
  · right; rfl
  · cases h : Validate.dumpNoValidate t with
    | ok b => left; exact ⟨b, rfl⟩
    | error e =>
      right
      have := Export.convertSer_err _ _ h
      simp [ofExport_metainfo this]

theorem dumpT_validate (hV : ValidateDocumented) (env : Env) (t : Items)
    (hf : Validate.filesNotMapping t = true) :
    (∃ b, dumpT env t true = .ok b) ∨ dumpT env t true = .error .metainfo := by
  unfold dumpT
  simp only [if_true]
  rcases validateT_doc hV env t hf with h | h
  · rw [h]
    dsimp only
    split
    · right; rfl
    · cases h' : Validate.dumpNoValidate t with
      | ok b => left; exact ⟨b, rfl⟩
      | error e =>
        right
        have := Export.convertSer_err _ _ h'
        simp [ofExport_metainfo this]
  · rw [h]; right; rfl

/-- too deep for the frames that are left: MetainfoError (regression of fix 19d011f) -/
theorem dumpT_deep (env : Env) (t : Items)
    (hdeep : env.encFuel < 3 + encFramesKvs (Validate.ensureInfo t)) :
    dumpT env t false = .error .metainfo := by
  unfold dumpT
  simp only [Bool.false_eq_true, if_false]
  rw [if_pos (by omega)]
  rfl

/-! ### magnets -/

theorem setXt_err {v : String} {e : Err} (h : setXt v = .error e) : e = .magnet := by
  unfold setXt at h
  split at h
  · simp at h
  · split at h
    · split at h <;> simp at h; exact h.symm
    · simp at h; exact h.symm

theorem setXl_err {o : MagnetOracle} {v : String} {e : Err} (h : setXl o v = .error e) : e = .magnet := by
  unfold setXl at h
  split at h
  · simp at h; exact h.symm
  · split at h <;> simp at h; exact h.symm

theorem mkUrl_err {o : MagnetOracle} {v : String} {e : Err} (h : mkUrl o v = .error e) : e = .url := by
  unfold mkUrl at h
  split at h
  · split at h <;> simp at h; exact h.symm
  · simp at h; exact h.symm

theorem mkUrl2_err {o : MagnetOracle} {v : String} {e : Err} (h : mkUrl2 o v = .error e) : e = .url :=
  mkUrl_err h

theorem mkUrls_err {o : MagnetOracle} : ∀ {l : List String} {e : Err}, mkUrls o l = .error e → e = .url := by
  intro l
  induction l with
  | nil => intro e h; simp [mkUrls] at h
  | cons v t ih =>
    intro e h
    unfold mkUrls at h
    split at h
    · rename_i e' he; simp at h; subst h; exact mkUrl2_err he
    · split at h
      · rename_i e' he; simp at h; subst h; exact ih he
      · simp at h

theorem optXl_err {o : MagnetOracle} {x : Option String} {e : Err} (h : optXl o x = .error e) : e = .magnet := by
  unfold optXl at h
  split at h
  · simp at h
  · split at h
    · simp at h
    · rename_i e' he; simp at h; subst h; exact setXl_err he

theorem optUrl_err {o : MagnetOracle} {x : Option String} {e : Err} (h : optUrl o x = .error e) : e = .url := by
  unfold optUrl at h
  split at h
  · simp at h
  · split at h
    · simp at h
    · rename_i e' he; simp at h; subst h; exact mkUrl_err he

/-- `parse_qs` never returns an empty value list -/
def QsNonempty (q : List (String × List String)) : Prop := ∀ k vs, qlookup k q = some vs → vs ≠ []

theorem single_err {q : List (String × List String)} {p : String} {e : Err} (hq : QsNonempty q)
    (h : single q p = .error e) : e = .magnet := by
  unfold single at h
  split at h
  · simp at h
  · rename_i vs hl
    split at h
    · simp at h; exact h.symm
    · split at h
      · simp at h
      · exact absurd rfl (hq _ _ hl)

theorem params_err {o : MagnetOracle} {q : List (String × List String)} {ih : String} {e : Err}
    (hq : QsNonempty q) (h : params o q ih = .error e) : e = .magnet ∨ e = .url := by
  unfold params at h
  cases h2 : single q "dn" with
  | error e' => rw [h2] at h; simp at h; subst h; exact .inl (single_err hq h2)
  | ok dn =>
  rw [h2] at h; dsimp only at h
  cases h3 : single q "xl" with
  | error e' => rw [h3] at h; simp at h; subst h; exact .inl (single_err hq h3)
  | ok xlS =>
  rw [h3] at h; dsimp only at h
  cases h4 : optXl o xlS with
  | error e' => rw [h4] at h; simp at h; subst h; exact .inl (optXl_err h4)
  | ok xl =>
  rw [h4] at h; dsimp only at h
  cases h5 : single q "xs" with
  | error e' => rw [h5] at h; simp at h; subst h; exact .inl (single_err hq h5)
  | ok xsS =>
  rw [h5] at h; dsimp only at h
  cases h6 : optUrl o xsS with
  | error e' => rw [h6] at h; simp at h; subst h; exact .inr (optUrl_err h6)
  | ok xs =>
  rw [h6] at h; dsimp only at h
  cases h7 : single q "as" with
  | error e' => rw [h7] at h; simp at h; subst h; exact .inl (single_err hq h7)
  | ok asS =>
  rw [h7] at h; dsimp only at h
  cases h8 : optUrl o asS with
  | error e' => rw [h8] at h; simp at h; subst h; exact .inr (optUrl_err h8)
  | ok as_ =>
  rw [h8] at h; dsimp only at h
  cases h9 : single q "kt" with
  | error e' => rw [h9] at h; simp at h; subst h; exact .inl (single_err hq h9)
  | ok ktS =>
  rw [h9] at h; dsimp only at h
  cases h10 : mkUrls o ((qlookup "tr" q).getD []) with
  | error e' => rw [h10] at h; simp at h; subst h; exact .inr (mkUrls_err h10)
  | ok tr =>
  rw [h10] at h; dsimp only at h
  cases h11 : mkUrls o ((qlookup "ws" q).getD []) with
  | error e' => rw [h11] at h; simp at h; subst h; exact .inr (mkUrls_err h11)
  | ok ws => rw [h11] at h; simp at h

theorem withXt_err {o : MagnetOracle} {q : List (String × List String)} {e : Err}
    (hq : QsNonempty q) (h : withXt o q = .error e) : e = .magnet ∨ e = .url := by
  unfold withXt at h
  split at h
  · simp at h; exact .inl h.symm
  · rename_i xts hx
    split at h
    · simp at h; exact .inl h.symm
    · split at h
      · exact absurd rfl (hq _ _ hx)
      · split at h
        · rename_i e' he; simp at h; subst h; exact .inl (setXt_err he)
        · exact params_err hq h

theorem errIs_eq {α : Type} {r : Except Err α} {e : Err} (h : errIs r e = true) : r = .error e := by
  unfold errIs at h
  split at h
  · simp at h; rw [h]
  · simp at h

theorem isMemoryError_iff {α : Type} (r : Except Raise α) : isMemoryError r = true ↔ r = .error .memory := by
  unfold isMemoryError
  split <;> simp_all

end Torf.Untrusted
