/-
  Torf.Lemmas.Create — helper lemmas for C15 (Torf/Properties/C15.lean):
  path algebra (`normpath`, `abspath`, `relativeTo`, `commonpath`, `relpath` on clean
  components), the order of component lists, `mapM` in `Except`, the filter of
  `utils.filter_files` against `Spec.keep`, and the refinement `pathSetter_eq_created`.
-/
import Torf.Lemmas.Sort
import Torf.Spec.Create
namespace Torf.Create
open Torf Torf.Paths

/-! ### `normpath` on clean components -/

theorem normStep_clean (a : Bool) (st : List String) (c : String) (h : isClean c = true) :
    normStep a st c = c :: st := by
  unfold isClean at h
  simp only [Bool.and_eq_true, bne_iff_ne, ne_eq] at h
  unfold normStep
  simp [h.1.1, h.1.2, h.2]

theorem foldl_normStep_clean (a : Bool) (st : List String) (r : List String)
    (h : r.all isClean = true) : r.foldl (normStep a) st = r.reverse ++ st := by
  induction r generalizing st with
  | nil => rfl
  | cons c r ih =>
    simp only [List.all_cons, Bool.and_eq_true] at h
    rw [List.foldl_cons, normStep_clean a st c h.1, ih _ h.2]
    simp

theorem normpath_append_clean (a : Bool) (xs r : List String) (h : r.all isClean = true) :
    normpath a (xs ++ r) = normpath a xs ++ r := by
  unfold normpath
  rw [List.foldl_append, foldl_normStep_clean a _ r h]
  simp

theorem abspath_listedPath (cwd : Comps) (B : PPath) (f : FileEnt)
    (h : f.rel.all isClean = true) :
    abspath cwd (listedPath B f) = abspath cwd B ++ f.rel := by
  unfold abspath listedPath
  cases hB : B.abs
  · simp only [Bool.false_eq_true, if_false]
    rw [← List.append_assoc, normpath_append_clean true _ _ h]
  · simp only [if_true]
    rw [normpath_append_clean true _ _ h]

theorem name_nil : name [] = "" := rfl

theorem name_concat (xs : Comps) (c : String) : name (xs ++ [c]) = c := by
  simp [name]

theorem name_of_getLast? {xs : Comps} {c : String} (h : xs.getLast? = some c) : name xs = c := by
  simp [name, h]

/-- a spelled path whose last component is a real name ends in that name when made absolute -/
theorem abspath_getLast?_of_clean (cwd : Comps) (B : PPath)
    (h : isClean (name B.comps) = true) :
    (abspath cwd B).getLast? = some (name B.comps) := by
  rcases List.eq_nil_or_concat B.comps with e | ⟨init, c, e⟩
  · rw [e] at h; exact absurd h (by decide)
  · rw [List.concat_eq_append] at e
    rw [e, name_concat] at h
    have hc : [c].all isClean = true := by simp [h]
    unfold abspath
    rw [e, name_concat]
    cases B.abs
    · simp only [Bool.false_eq_true, if_false]
      rw [← List.append_assoc, normpath_append_clean true _ [c] hc]
      simp
    · simp only [if_true]
      rw [normpath_append_clean true init [c] hc]
      simp

/-! ### `relativeTo` -/

theorem relativeTo_append (a r : Comps) : relativeTo (a ++ r) a = some r := by
  unfold relativeTo
  have : a.isPrefixOf (a ++ r) = true := List.isPrefixOf_iff_prefix.mpr (List.prefix_append a r)
  simp [this]

theorem eq_parent_append {a : Comps} {n : String} (h : a.getLast? = some n) :
    a = parent a ++ [n] := by
  obtain ⟨ys, rfl⟩ := List.getLast?_eq_some_iff.mp h
  simp [parent]

theorem relativeTo_parent (a r : Comps) (n : String) (h : a.getLast? = some n) :
    relativeTo (a ++ r) (parent a) = some (n :: r) := by
  have e := eq_parent_append h
  have : a ++ r = parent a ++ (n :: r) := by
    conv => lhs; rw [e]
    simp
  rw [this, relativeTo_append]

/-! ### `mapM` in `Except` -/

theorem mapM_except_ok {ε α β : Type} (g : α → Except ε β) (h : α → β) (l : List α)
    (hg : ∀ x ∈ l, g x = .ok (h x)) : l.mapM g = .ok (l.map h) := by
  induction l with
  | nil => rfl
  | cons a l ih =>
    rw [List.mapM_cons, hg a (by simp), ih (fun x hx => hg x (List.mem_cons_of_mem _ hx))]
    rfl

/-! ### `commonPrefix2`, `commonpath` -/

theorem commonPrefix2_cons (n : String) (a b : Comps) :
    commonPrefix2 (n :: a) (n :: b) = n :: commonPrefix2 a b := by
  simp [commonPrefix2]

theorem commonPrefix2_prefix_left (a b : Comps) : commonPrefix2 a b <+: a := by
  induction a generalizing b with
  | nil => simp [commonPrefix2]
  | cons x a ih =>
    cases b with
    | nil => simp [commonPrefix2]
    | cons y b =>
      unfold commonPrefix2
      split
      · exact (List.cons_prefix_cons).mpr ⟨rfl, ih b⟩
      · exact List.nil_prefix

theorem commonPrefix2_prefix_right (a b : Comps) : commonPrefix2 a b <+: b := by
  induction a generalizing b with
  | nil => simp [commonPrefix2]
  | cons x a ih =>
    cases b with
    | nil => simp [commonPrefix2]
    | cons y b =>
      unfold commonPrefix2
      split
      · rename_i hxy
        exact (List.cons_prefix_cons).mpr ⟨by simpa using hxy, ih b⟩
      · exact List.nil_prefix

theorem commonPrefix2_self_append (s d : Comps) : commonPrefix2 s (s ++ d) = s := by
  induction s with
  | nil => cases d <;> simp [commonPrefix2]
  | cons x s ih => simp [commonPrefix2, ih]

theorem foldl_commonPrefix2_prefix_init (a : Comps) (l : List Comps) :
    l.foldl commonPrefix2 a <+: a := by
  induction l generalizing a with
  | nil => exact List.prefix_refl _
  | cons b l ih => exact (ih _).trans (commonPrefix2_prefix_left a b)

theorem foldl_commonPrefix2_prefix_mem (a : Comps) (l : List Comps) :
    ∀ b ∈ l, l.foldl commonPrefix2 a <+: b := by
  induction l generalizing a with
  | nil => intro b hb; cases hb
  | cons c l ih =>
    intro b hb
    rcases List.mem_cons.mp hb with rfl | hb
    · exact (foldl_commonPrefix2_prefix_init _ l).trans (commonPrefix2_prefix_right a b)
    · exact ih _ b hb

theorem foldl_commonPrefix2_cons (n : String) (a : Comps) (l : List Comps) :
    (l.map (n :: ·)).foldl commonPrefix2 (n :: a) = n :: l.foldl commonPrefix2 a := by
  induction l generalizing a with
  | nil => rfl
  | cons b l ih => simp only [List.map_cons, List.foldl_cons, commonPrefix2_cons, ih]

/-! ### `isHidden` -/

theorem isHidden_append (a b : Comps) : isHidden (a ++ b) = (isHidden a || isHidden b) := by
  simp [isHidden, List.any_append]

theorem isHidden_prefix {a b : Comps} (h : a <+: b) (hb : isHidden b = false) :
    isHidden a = false := by
  obtain ⟨d, rfl⟩ := h
  rw [isHidden_append] at hb
  simpa using (Bool.or_eq_false_iff.mp hb).1

/-! ### `relpath` below a clean directory -/

theorem relpath_below (cwd : Comps) (base d : Comps)
    (hd : d.all isClean = true) : relpath cwd (base ++ d) base = d := by
  unfold relpath
  have e : cwd ++ (base ++ d) = (cwd ++ base) ++ d := by simp
  rw [e, normpath_append_clean true _ d hd]
  dsimp only
  rw [commonPrefix2_self_append]
  simp

/-! ### the order of component lists, `sortBy` under `map` -/

theorem append_lt_append_iff (p a b : List String) : p ++ a < p ++ b ↔ a < b := by
  induction p with
  | nil => simp
  | cons c p ih =>
    simp only [List.cons_append, List.cons_lt_cons_iff, ih]
    constructor
    · rintro (h | ⟨_, h⟩)
      · exact absurd h (String.lt_irrefl c)
      · exact h
    · intro h; exact Or.inr ⟨trivial, h⟩

theorem append_le_append_iff (p a b : List String) : p ++ a ≤ p ++ b ↔ a ≤ b := by
  rw [← List.not_lt, ← List.not_lt, append_lt_append_iff]

theorem insertBy_map (le : β → β → Bool) (f : α → β) (a : α) (l : List α) :
    insertBy le (f a) (l.map f) = (insertBy (fun x y => le (f x) (f y)) a l).map f := by
  induction l with
  | nil => rfl
  | cons b l ih =>
    simp only [List.map_cons, insertBy]
    split
    · rfl
    · rw [ih]; rfl

theorem sortBy_map (le : β → β → Bool) (f : α → β) (l : List α) :
    sortBy le (l.map f) = (sortBy (fun x y => le (f x) (f y)) l).map f := by
  induction l with
  | nil => rfl
  | cons a l ih => simp only [List.map_cons, sortBy, ih, insertBy_map]

def leRel (a b : FileEnt) : Bool := decide (a.rel ≤ b.rel)

theorem leRel_trans (a b c : FileEnt) : leRel a b = true → leRel b c = true → leRel a c = true := by
  simp only [leRel, decide_eq_true_eq]; exact List.le_trans

theorem leRel_total (a b : FileEnt) : leRel a b = true ∨ leRel b a = true := by
  simp only [leRel, decide_eq_true_eq]; exact List.le_total _ _

theorem leRel_antisymm (a b : FileEnt) : leRel a b = true → leRel b a = true → a.rel = b.rel := by
  simp only [leRel, decide_eq_true_eq]; exact List.le_antisymm

/-! ### the filter of `utils.filter_files` against `Spec.keep` -/

/-- the include-before-exclude cascade is "excluded and not included" -/
theorem isExcluded_eq (o : Oracles) (st : Settings) (p : String) :
    isExcluded o st p = (Spec.excluded o st p && !Spec.included o st p) := by
  unfold isExcluded Spec.excluded Spec.included
  generalize st.inRegexs.any (fun r => o.rex r p) = a
  generalize st.inGlobs.any (fun g => o.glob (o.cf p) (o.cf g)) = b
  generalize st.exRegexs.any (fun r => o.rex r p) = c
  generalize st.exGlobs.any (fun g => o.glob (o.cf p) (o.cf g)) = d
  cases a <;> cases b <;> cases c <;> cases d <;> rfl

theorem withBaseStr_top (n : String) (rel : Comps) :
    withBaseStr [n] (n :: rel) = joinSlash (n :: rel) := by
  simp [withBaseStr, parent, strOf]

/-- with the torrent's directory handed in (`basepath = name`) the two tests of `filter_files`
    are the specified ones, for every file of the tree -/
theorem filterKeep_eq_keep (o : Oracles) (st : Settings) (cwd : Comps)
    (n : String) (f : FileEnt)
    (hrel : f.rel.all isClean = true)
    (hsz : (f.size != 0) = true) :
    filterKeep o st cwd [n] (n :: f.rel) = Spec.keep o st n f := by
  have hrp : relpath cwd (n :: f.rel) [n] = f.rel := by
    have : n :: f.rel = [n] ++ f.rel := rfl
    rw [this, relpath_below cwd _ f.rel hrel]
  unfold filterKeep Spec.keep Spec.patPath
  simp only [hrp, hsz, withBaseStr_top, isExcluded_eq]
  generalize isHidden f.rel = a
  generalize Spec.excluded o st (joinSlash (n :: f.rel)) = c
  generalize Spec.included o st (joinSlash (n :: f.rel)) = e
  cases a <;> cases c <;> cases e <;> rfl

/-! ### the stages of `_set_files` -/

/-- the `File` that `list_files` makes of tree entry `f` -/
def mkItem (B : PPath) (f : FileEnt) : Item := ⟨listedPath B f, f⟩

theorem listFiles_eq (cf : String → String) (B : PPath) (order : List FileEnt) :
    ∃ L : List FileEnt, L.Perm order ∧ listFiles cf B order = L.map (mkItem B) := by
  unfold listFiles
  split
  · exact ⟨order, List.Perm.refl _, rfl⟩
  · refine ⟨sortBy (fun x y => decide (cf (walkStr B x) ≤ cf (walkStr B y))) order,
      sortBy_perm _ _, ?_⟩
    exact sortBy_map (fun a b : Item => decide (cf (walkStr B a.ent) ≤ cf (walkStr B b.ent)))
      (mkItem B) order

theorem withGetter_eq (cwd : Comps) (B : PPath) (n : String) (L : List FileEnt)
    (hn : (abspath cwd B).getLast? = some n) (hL : ∀ f ∈ L, f.rel.all isClean = true) :
    withGetter cwd (abspath cwd B) (L.map (mkItem B))
      = .ok (L.map fun f => (mkItem B f, n :: f.rel)) := by
  unfold withGetter
  rw [mapM_except_ok _ (fun it => (it, n :: it.ent.rel))]
  · rw [List.map_map]; rfl
  · intro it hit
    obtain ⟨f, hf, rfl⟩ := List.mem_map.mp hit
    simp only [mkItem]
    rw [abspath_listedPath cwd B f (hL f hf), relativeTo_parent _ _ n hn]
    rfl

theorem filesInfo_eq (cwd : Comps) (B : PPath) (L : List FileEnt)
    (hL : ∀ f ∈ L, f.rel.all isClean = true) :
    filesInfo cwd (abspath cwd B) (L.map (mkItem B)) = .ok (L.map fun f => (f.rel, f.size)) := by
  unfold filesInfo
  rw [mapM_except_ok _ (fun it => (it.ent.rel, it.ent.size))]
  · rw [List.map_map]; rfl
  · intro it hit
    obtain ⟨f, hf, rfl⟩ := List.mem_map.mp hit
    simp only [mkItem]
    rw [abspath_listedPath cwd B f (hL f hf), relativeTo_append]
    rfl

theorem pathlibNorm_single (n : String) (h : isClean n = true) :
    (pathlibNorm ⟨false, [n]⟩).comps = [n] := by
  unfold isClean at h
  simp only [Bool.and_eq_true, bne_iff_ne, ne_eq] at h
  simp [pathlibNorm, h.1.1, h.1.2]

theorem filterFiles_eq (o : Oracles) (st : Settings) (cwd : Comps)
    (B : PPath) (n : String) (hn : isClean n = true) (L : List FileEnt)
    (hrel : ∀ f ∈ L, f.rel.all isClean = true)
    (hsz : ∀ f ∈ L, (f.size != 0) = true) :
    (filterFiles o st cwd (some n) (L.map fun f => (mkItem B f, n :: f.rel))).map (·.1)
      = (L.filter (Spec.keep o st n)).map (mkItem B) := by
  unfold filterFiles
  simp only [pathlibNorm_single n hn]
  rw [List.filter_map, List.map_map]
  have hcongr : L.filter ((fun it : Item × Comps =>
        filterKeep o st cwd [n] it.2) ∘
          fun f => (mkItem B f, n :: f.rel)) = L.filter (Spec.keep o st n) := by
    apply List.filter_congr
    intro f hf
    exact filterKeep_eq_keep o st cwd n f (hrel f hf) (hsz f hf)
  rw [hcongr]
  rfl

/-- the final sort (`sorted(filepaths)` on pathlib paths) is the sort on relative paths -/
theorem sortBy_items (B : PPath) (K : List FileEnt) :
    sortBy (fun a b : Item => decide (a.path.comps ≤ b.path.comps)) (K.map (mkItem B))
      = (sortBy leRel K).map (mkItem B) := by
  rw [sortBy_map]
  have : (fun x y : FileEnt => decide ((mkItem B x).path.comps ≤ (mkItem B y).path.comps))
      = leRel := by
    funext x y
    simp only [mkItem, listedPath, leRel]
    exact decide_eq_decide.mpr (append_le_append_iff _ _ _)
  rw [this]

theorem listedPath_eq_self (B : PPath) (f : FileEnt) : listedPath B f = B ↔ f.rel = [] := by
  cases B with
  | mk a cs =>
    simp [listedPath]

theorem eq_of_nodup_map {f : α → β} {l : List α} (h : (l.map f).Nodup) {x y : α}
    (hx : x ∈ l) (hy : y ∈ l) (e : f x = f y) : x = y := by
  induction l with
  | nil => cases hx
  | cons a l ih =>
    rw [List.map_cons, List.nodup_cons] at h
    rcases List.mem_cons.mp hx with rfl | hx1 <;> rcases List.mem_cons.mp hy with rfl | hy1
    · rfl
    · exact (h.1 (List.mem_map.mpr ⟨y, hy1, e.symm⟩)).elim
    · exact (h.1 (List.mem_map.mpr ⟨x, hx1, e⟩)).elim
    · exact ih h.2 hx1 hy1

/-- the kept files of the specification, from any listing of the tree -/
theorem kept_eq_of_perm (o : Oracles) (st : Settings) (t : Tree) (L : List FileEnt)
    (hperm : L.Perm t.files) (hnodup : (t.files.map (·.rel)).Nodup) :
    Spec.kept o st t = sortBy leRel (L.filter (Spec.keep o st t.name)) := by
  show sortBy leRel (t.files.filter (Spec.keep o st t.name)) = _
  symm
  apply sortBy_eq_of_perm leRel _ _ (hperm.filter _)
  · intro x _ y _ z _; exact leRel_trans x y z
  · intro x _ y _; exact leRel_total x y
  · intro x hx y hy h1 h2
    have e := leRel_antisymm x y h1 h2
    have hx' : x ∈ t.files := hperm.mem_iff.mp (List.mem_filter.mp hx).1
    have hy' : y ∈ t.files := hperm.mem_iff.mp (List.mem_filter.mp hy).1
    exact eq_of_nodup_map hnodup hx' hy' e

/-! ### the name of the multi-file torrent -/

theorem dirName_eq (cwd : Comps) (B : PPath) (n : String)
    (hB : ∀ c ∈ B.comps, c ≠ "" ∧ c ≠ ".")
    (hn : (abspath cwd B).getLast? = some n) :
    dirName cwd B = n := by
  unfold dirName
  split
  · exact name_of_getLast? hn
  · rename_i h
    -- the last spelled component does not end in a dot, so it is a real name
    simp only [endsWithDot, Bool.or_eq_true, Bool.and_eq_true, Bool.not_eq_true',
      List.isEmpty_iff, beq_iff_eq, not_or, not_and] at h
    have hcl : isClean (name B.comps) = true := by
      rcases List.eq_nil_or_concat B.comps with e | ⟨init, c, e⟩
      · -- no component: the relative one is `.` (excluded by `h`), the absolute one is `/`,
        -- whose `abspath` is `[]` and has no last component
        cases ha : B.abs with
        | false => exact absurd e (h.1 ha)
        | true =>
          have : abspath cwd B = [] := by simp [abspath, ha, e, normpath]
          rw [this] at hn; cases hn
      · rw [List.concat_eq_append] at e
        rw [e, name_concat] at h ⊢
        have hm := hB c (by rw [e]; simp)
        have h4 : c ≠ ".." := by
          intro e'; rw [e'] at h; exact h.2 (by decide)
        simp [isClean, hm.1, hm.2, h4]
    have := abspath_getLast?_of_clean cwd B hcl
    rw [hn] at this
    exact (Option.some.inj this).symm

/-! ### `_set_files` as a whole -/

theorem pathlibNorm_mem (p : PPath) : ∀ c ∈ (pathlibNorm p).comps, c ≠ "" ∧ c ≠ "." := by
  intro c hc
  simp only [pathlibNorm, List.mem_filter, Bool.and_eq_true, bne_iff_ne, ne_eq] at hc
  exact hc.2

/-- `_set_files`' own empty-file rule on a listing whose paths exist: the empty files go -/
theorem dropEmpty_eq (ex : PPath → Bool) (B : PPath) (L : List FileEnt)
    (hex : ∀ f ∈ L, ex (listedPath B f) = true) :
    dropEmpty ex (L.map (mkItem B)) = (L.filter fun f => f.size != 0).map (mkItem B) := by
  unfold dropEmpty
  rw [List.filter_map]
  congr 1
  apply List.filter_congr
  intro f hf
  simp only [Function.comp, mkItem, hex f hf, Bool.and_true]
  rfl

theorem filter_keep_nonEmpty (o : Oracles) (st : Settings) (n : String) (L : List FileEnt) :
    (L.filter fun f => f.size != 0).filter (Spec.keep o st n) = L.filter (Spec.keep o st n) := by
  rw [List.filter_filter]
  apply List.filter_congr
  intro f _
  unfold Spec.keep
  cases (f.size != 0) <;> simp

theorem setFiles_eq_created (o : Oracles) (st : Settings) (cwd : Comps)
    (ex : PPath → Bool) (B : PPath) (t : Tree) (L0 : List FileEnt)
    (hperm0 : L0.Perm t.files)
    (hB : ∀ c ∈ B.comps, c ≠ "" ∧ c ≠ ".")
    (hclean : isClean t.name = true)
    (hrel : ∀ f ∈ t.files, f.rel.all isClean = true)
    (hnodup : (t.files.map (·.rel)).Nodup)
    (hn : (abspath cwd B).getLast? = some t.name)
    (hsp2 : (!t.files.any (·.rel.isEmpty) || isClean (name B.comps)) = true)
    (hex : ∀ f ∈ t.files, ex (listedPath B f) = true) :
    setFiles o st cwd ex (L0.map (mkItem B)) B = .ok (Spec.created o st t) := by
  have hm0 : ∀ f, f ∈ L0 → f ∈ t.files := fun f hf => hperm0.mem_iff.mp hf
  have hdrop := dropEmpty_eq ex B L0 (fun f hf => hex f (hm0 f hf))
  have hspec0 := kept_eq_of_perm o st t L0 hperm0 hnodup
  rw [← filter_keep_nonEmpty] at hspec0
  generalize hLdef : (L0.filter fun f => f.size != 0) = L at hdrop hspec0
  have hm : ∀ f, f ∈ L → f ∈ t.files := fun f hf => by
    rw [← hLdef] at hf; exact hm0 f (List.mem_filter.mp hf).1
  have hszL : ∀ f ∈ L, (f.size != 0) = true := fun f hf => by
    rw [← hLdef] at hf; exact (List.mem_filter.mp hf).2
  have hrelL : ∀ f ∈ L, f.rel.all isClean = true := fun f hf => hrel f (hm f hf)
  have hname : name (abspath cwd B) = t.name := name_of_getLast? hn
  have hk := filterFiles_eq o st cwd B t.name hclean L hrelL hszL
  have hK : ∀ f, f ∈ L.filter (Spec.keep o st t.name) →
      f ∈ t.files ∧ Spec.keep o st t.name f = true := by
    intro f hf
    have := List.mem_filter.mp hf
    exact ⟨hm f this.1, this.2⟩
  have hspec := hspec0
  have hdir := dirName_eq cwd B t.name hB hn
  unfold setFiles
  simp only [hdrop, withGetter_eq cwd B t.name L hn hrelL]
  dsimp only [bind, Except.bind]
  simp only [hname, hk, sortBy_items, hdir]
  unfold Spec.created
  simp only [hspec]
  generalize L.filter (Spec.keep o st t.name) = K at hK
  have hinfo := filesInfo_eq cwd B (sortBy leRel K)
    (fun f hf => hrel f (hK f (mem_sortBy.mp hf)).1)
  simp only [hinfo]
  have hpure : ∀ c : Created, (pure c : Except Err Created) = Except.ok c := fun _ => rfl
  simp only [hpure]
  cases K with
  | nil => simp [sortBy]
  | cons f K1 =>
    have hf := (hK f (by simp)).2
    have hft := (hK f (by simp)).1
    have hsz : (f.size == 0) = false := by
      unfold Spec.keep at hf
      simp only [Bool.and_eq_true, bne_iff_ne, ne_eq] at hf
      simpa using hf.1.2
    cases K1 with
    | nil =>
      have hs : sortBy leRel [f] = [f] := rfl
      rw [hs]
      by_cases hr : f.rel = []
      · have hany : t.files.any (·.rel.isEmpty) = true :=
          List.any_eq_true.mpr ⟨f, hft, by simp [hr]⟩
        rw [hany] at hsp2
        have hcl : isClean (name B.comps) = true := by simpa using hsp2
        have hname := abspath_getLast?_of_clean cwd B hcl
        rw [hn] at hname
        have hname' : name B.comps = t.name := (Option.some.inj hname).symm
        simp [mkItem, hsz, listedPath_eq_self, hr, hname']
      · simp [mkItem, hsz, listedPath_eq_self, hr]
    | cons g K2 =>
      have hlen := length_sortBy leRel (f :: g :: K2)
      generalize sortBy leRel (f :: g :: K2) = S at hlen ⊢
      cases S with
      | nil => simp at hlen
      | cons s S1 =>
        cases S1 with
        | nil => simp at hlen
        | cons s2 S2 =>
          have hsz' : f.size ≠ 0 := by simpa using hsz
          simp [mkItem, hsz']

/-- the refinement: under `hypB` the model computes the specified torrent -/
theorem pathSetter_eq_created (o : Oracles) (st : Settings) (env : Env) (t : Tree)
    (h : Spec.hypB env t = true) :
    pathSetter o st env = .ok (Spec.created o st t) := by
  unfold Spec.hypB at h
  simp only [Bool.and_eq_true] at h
  obtain ⟨⟨⟨⟨hct, hsp⟩, hnm⟩, hpr⟩, hord⟩ := h
  unfold Spec.cleanTree at hct
  simp only [Bool.and_eq_true, decide_eq_true_eq, List.all_eq_true] at hct
  obtain ⟨⟨⟨hclean, hrel⟩, hnodup⟩, _⟩ := hct
  unfold Spec.fileSpellOK at hsp
  unfold Spec.nameOK at hnm
  unfold Spec.listedExist at hpr
  simp only [List.all_eq_true] at hpr
  have hperm : env.order.Perm t.files := List.isPerm_iff.mp hord
  unfold pathSetter
  obtain ⟨L, hL, hlist⟩ := listFiles_eq o.cf (pathlibNorm env.spelling) env.order
  simp only [hlist]
  exact setFiles_eq_created o st env.cwd env.pathExists (pathlibNorm env.spelling) t L
    (hL.trans hperm) (pathlibNorm_mem env.spelling) hclean
    (fun f hf => List.all_eq_true.mpr (hrel f hf)) hnodup (by simpa using hnm) hsp hpr

/-! ### the stored file list -/

/-- the `(path, size)` entries of a result (`[]` path for the single-file form) -/
def filesOf : Except Err Created → List (Comps × Nat)
  | .ok .empty => []
  | .ok (.single _ s) => [([], s)]
  | .ok (.multi _ fs) => fs
  | .error _ => []

theorem filesOf_created (o : Oracles) (st : Settings) (t : Tree) :
    filesOf (.ok (Spec.created o st t)) = (Spec.kept o st t).map fun f => (f.rel, f.size) := by
  unfold Spec.created
  simp only
  generalize Spec.kept o st t = k
  cases k with
  | nil => rfl
  | cons g k1 =>
    cases k1 with
    | nil =>
      by_cases hr : g.rel = []
      · simp [filesOf, hr]
      · simp [filesOf, hr]
    | cons g2 k2 => simp [filesOf]

theorem mem_kept (o : Oracles) (st : Settings) (t : Tree) (f : FileEnt) :
    f ∈ Spec.kept o st t ↔ f ∈ t.files ∧ Spec.keep o st t.name f = true := by
  unfold Spec.kept
  rw [mem_sortBy, List.mem_filter]

theorem mem_filesOf_created (o : Oracles) (st : Settings) (t : Tree) (f : FileEnt) :
    (f.rel, f.size) ∈ filesOf (.ok (Spec.created o st t)) ↔ f ∈ Spec.kept o st t := by
  rw [filesOf_created, List.mem_map]
  constructor
  · rintro ⟨g, hg, e⟩
    have : g = f := by
      cases g; cases f
      simp only [Prod.mk.injEq] at e
      simp [e.1, e.2]
    rw [← this]; exact hg
  · intro h; exact ⟨f, h, rfl⟩

theorem keep_iff (o : Oracles) (st : Settings) (n : String) (f : FileEnt) :
    Spec.keep o st n f = true ↔
      (isHidden f.rel = false ∧ f.size ≠ 0 ∧
        ¬ (Spec.excluded o st (Spec.patPath n f) = true ∧
           Spec.included o st (Spec.patPath n f) = false)) := by
  unfold Spec.keep
  simp only [Bool.and_eq_true, Bool.not_eq_true', bne_iff_ne, ne_eq, Bool.and_eq_false_iff,
    and_assoc]
  constructor
  · rintro ⟨h1, h2, h3⟩
    refine ⟨h1, h2, ?_⟩
    rintro ⟨h4, h5⟩
    rcases h3 with h3 | h3
    · rw [h4] at h3; cases h3
    · rw [h5] at h3; cases h3
  · rintro ⟨h1, h2, h3⟩
    refine ⟨h1, h2, ?_⟩
    cases h4 : Spec.excluded o st (Spec.patPath n f)
    · exact Or.inl rfl
    · cases h5 : Spec.included o st (Spec.patPath n f)
      · exact absurd ⟨h4, h5⟩ h3
      · exact Or.inr rfl

/-! ### empty files never reach the result — for every spelling, cwd and pattern set -/

theorem mapM_except_mem {ε α β : Type} {g : α → Except ε β} {l : List α} {r : List β}
    (h : l.mapM g = .ok r) : ∀ y ∈ r, ∃ x ∈ l, g x = .ok y := by
  induction l generalizing r with
  | nil =>
    have : r = [] := by
      have h' : (Except.ok [] : Except ε (List β)) = .ok r := h
      cases h'; rfl
    subst this
    intro y hy; cases hy
  | cons a l ih =>
    rw [List.mapM_cons] at h
    cases ha : g a with
    | error e => rw [ha] at h; cases h
    | ok b =>
      cases hl : l.mapM g with
      | error e => rw [ha, hl] at h; cases h
      | ok bs =>
        rw [ha, hl] at h
        have h' : (Except.ok (b :: bs) : Except ε (List β)) = .ok r := h
        cases h'
        intro y hy
        rcases List.mem_cons.mp hy with rfl | hy
        · exact ⟨a, by simp, ha⟩
        · obtain ⟨x, hx, hgx⟩ := ih hl y hy
          exact ⟨x, List.mem_cons_of_mem _ hx, hgx⟩

theorem withGetter_mem {cwd absB : Comps} {files : List Item} {items : List (Item × Comps)}
    (h : withGetter cwd absB files = .ok items) : ∀ it ∈ items, it.1 ∈ files := by
  intro it hit
  obtain ⟨x, hx, hg⟩ := mapM_except_mem h it hit
  split at hg
  · have h' : (Except.ok (x, _) : Except Err (Item × Comps)) = .ok it := hg
    cases h'; exact hx
  · cases hg

theorem filesInfo_mem {cwd absB : Comps} {sorted : List Item} {info : List (Comps × Nat)}
    (h : filesInfo cwd absB sorted = .ok info) : ∀ e ∈ info, ∃ f ∈ sorted, e.2 = f.ent.size := by
  intro e he
  obtain ⟨x, hx, hg⟩ := mapM_except_mem h e he
  split at hg
  · have h' : (Except.ok (_, x.ent.size) : Except Err (Comps × Nat)) = .ok e := hg
    cases h'; exact ⟨x, hx, rfl⟩
  · cases hg

/-- whatever the spelling, the cwd, the patterns and the base path are: if the files of size 0
    that `_set_files` is handed exist under the path they were given with, none of them is stored -/
theorem setFiles_no_empty (o : Oracles) (st : Settings) (cwd : Comps) (ex : PPath → Bool)
    (files : List Item) (B : PPath)
    (hex : ∀ f ∈ files, f.ent.size = 0 → ex f.path = true) :
    ∀ e ∈ filesOf (setFiles o st cwd ex files B), e.2 ≠ 0 := by
  have hdrop : ∀ f ∈ dropEmpty ex files, f.ent.size ≠ 0 := by
    intro f hf hz
    unfold dropEmpty at hf
    obtain ⟨hf1, hf2⟩ := List.mem_filter.mp hf
    simp [hz, hex f hf1 hz] at hf2
  unfold setFiles
  simp only [bind, Except.bind, pure, Except.pure]
  cases hw : withGetter cwd (abspath cwd B) (dropEmpty ex files) with
  | error e => intro e he; simp [filesOf] at he
  | ok items =>
    have hkept : ∀ k ∈ (filterFiles o st cwd (some (name (abspath cwd B))) items).map (·.1),
        k.ent.size ≠ 0 := by
      intro k hk
      obtain ⟨it, hit, rfl⟩ := List.mem_map.mp hk
      unfold filterFiles at hit
      exact hdrop _ (withGetter_mem hw it (List.mem_filter.mp hit).1)
    simp only
    generalize (filterFiles o st cwd (some (name (abspath cwd B))) items).map (·.1) = kept at hkept
    split
    · intro e he; simp [filesOf] at he
    · split
      · intro e he
        simp only [filesOf, List.mem_singleton] at he
        rw [he]
        cases kept with
        | nil => simp_all
        | cons k ks => simpa using hkept k (by simp)
      · cases hi : filesInfo cwd (abspath cwd B)
            (sortBy (fun a b => decide (a.path.comps ≤ b.path.comps)) kept) with
        | error e => intro e he; simp [filesOf] at he
        | ok info =>
          intro e he
          simp only [filesOf] at he
          obtain ⟨f, hf, hsz⟩ := filesInfo_mem hi e he
          rw [hsz]
          exact hkept f (mem_sortBy.mp hf)

theorem pathSetter_no_empty (o : Oracles) (st : Settings) (env : Env)
    (hex : ∀ f ∈ env.order, f.size = 0 →
      env.pathExists (listedPath (pathlibNorm env.spelling) f) = true) :
    ∀ e ∈ filesOf (pathSetter o st env), e.2 ≠ 0 := by
  unfold pathSetter
  obtain ⟨L, hL, hlist⟩ := listFiles_eq o.cf (pathlibNorm env.spelling) env.order
  simp only [hlist]
  apply setFiles_no_empty
  intro it hit hz
  obtain ⟨f, hf, rfl⟩ := List.mem_map.mp hit
  exact hex f (hL.mem_iff.mp hf) hz

/-! ### case folding of globs, no case folding for regular expressions -/

theorem any_glob_cf (o : Oracles) (l : List String) (p : String) :
    l.any (fun g => o.glob (o.cf p) (o.cf g)) = (l.map o.cf).any (fun g => o.glob (o.cf p) g) := by
  rw [List.any_map]; rfl

/-! ### `normpath` and `pathlib` -/

theorem foldl_normStep_filter (a : Bool) (xs st : List String) :
    (xs.filter fun c => c != "" && c != ".").foldl (normStep a) st = xs.foldl (normStep a) st := by
  induction xs generalizing st with
  | nil => rfl
  | cons c xs ih =>
    by_cases h1 : c = "" ∨ c = "."
    · have hs : normStep a st c = st := by rcases h1 with rfl | rfl <;> simp [normStep]
      have hf : (c != "" && c != ".") = false := by rcases h1 with rfl | rfl <;> decide
      rw [List.filter_cons, hf, List.foldl_cons, hs]
      exact ih st
    · simp only [not_or] at h1
      have hf : (c != "" && c != ".") = true := by simp [h1.1, h1.2]
      rw [List.filter_cons, hf]
      exact ih _

/-- `os.path.normpath` does not see the difference between a spelling and its `pathlib` form -/
theorem normpath_pathlibNorm (a : Bool) (p : PPath) :
    normpath a (pathlibNorm p).comps = normpath a p.comps := by
  unfold normpath pathlibNorm
  rw [foldl_normStep_filter]

/-! ### the listed paths exist wherever the tree is addressed from -/

theorem normpath_append_pathlibNorm (a : Bool) (pre : Comps) (p : PPath) :
    normpath a (pre ++ (pathlibNorm p).comps) = normpath a (pre ++ p.comps) := by
  unfold normpath pathlibNorm
  rw [List.foldl_append, List.foldl_append, foldl_normStep_filter]

/-- `os.path.exists` of the path `list_files` produces for tree entry `f` (spelling + `rel`,
    read in `cwd`) finds the entry at the place the spelling leads to -/
theorem fsExists_listed (fs : FS) (cwd : Comps) (sp : PPath) (f : FileEnt)
    (hrel : f.rel.all isClean = true)
    (hc : fs.contains
      (normpath true (if sp.abs then sp.comps else cwd ++ sp.comps) ++ f.rel, some f.size) = true) :
    fsExists fs cwd (listedPath (pathlibNorm sp) f) = true := by
  unfold fsExists
  have hq : normpath true (if (listedPath (pathlibNorm sp) f).abs
        then (listedPath (pathlibNorm sp) f).comps
        else cwd ++ (listedPath (pathlibNorm sp) f).comps)
      = normpath true (if sp.abs then sp.comps else cwd ++ sp.comps) ++ f.rel := by
    have hab : (listedPath (pathlibNorm sp) f).abs = sp.abs := rfl
    have hco : (listedPath (pathlibNorm sp) f).comps = (pathlibNorm sp).comps ++ f.rel := rfl
    rw [hab, hco]
    cases sp.abs with
    | true =>
      simp only [if_true]
      rw [normpath_append_clean true _ _ hrel, normpath_pathlibNorm]
    | false =>
      simp only [Bool.false_eq_true, if_false]
      rw [← List.append_assoc, normpath_append_clean true _ _ hrel, normpath_append_pathlibNorm]
  simp only [hq]
  rw [List.any_eq_true]
  rw [List.contains_iff_mem] at hc
  exact ⟨_, hc, List.isPrefixOf_iff_prefix.mpr (List.prefix_refl _)⟩

end Torf.Create
