/-
  Helper lemmas for C02 over the full alphabet of path states (part 1): the two classic disks a
  description `fd` projects to (`mainDisk`: what the probes of the main loop make of it,
  `statDisk`: what a stat-only probe makes of it), the two-disk generalisation `step2` of
  `Missing.step`, and `stepFs` in terms of `step2` as long as no `read` fails.
-/
import Torf.Spec.VerifyFs
import Torf.Lemmas.VerifyRun
namespace Torf.VerifyFs
open Torf Torf.Missing Torf.Verify

variable {α : Type} [Inhabited α]

/-! ### the two projections -/

theorem getD_statDisk (fd : List (FState α)) (k : Nat) :
    (statDisk fd).getD k none = statView (stateAt fd k) := by
  unfold statDisk stateAt
  simp only [List.getD_eq_getElem?_getD, List.getElem?_map]
  cases fd[k]? <;> rfl

theorem getD_mainDisk (sizes : List Nat) (fd : List (FState α)) (k : Nat) :
    (mainDisk sizes fd).getD k none = mainView (sizeOf sizes k) (stateAt fd k) := by
  unfold mainDisk stateAt
  simp only [List.getD_eq_getElem?_getD, List.getElem?_map, List.getElem?_zipIdx]
  cases fd[k]? <;> simp [mainView, statView]

/-- the main loop's probe, read off the projected disk -/
theorem mainProbe_of_fileError (sizes : List Nat) (fd : List (FState α)) (k : Nat) :
    (fileError sizes (mainDisk sizes fd) k = none ∧
        mainProbe (sizeOf sizes k) (stateAt fd k) = .handle) ∨
    (∃ kind e, fileError sizes (mainDisk sizes fd) k = some kind ∧
        mainProbe (sizeOf sizes k) (stateAt fd k) = .exc kind e) := by
  unfold fileError
  rw [getD_mainDisk]
  cases hs : stateAt fd k with
  | file c =>
    by_cases h : c.length = sizeOf sizes k
    · left; simp [mainView, statView, mainProbe, statSize, getOpenFile, osOpen, h]
    · right; exact ⟨.size, 0, by simp [mainView, statView, mainProbe, statSize, h]⟩
  | gone e =>
    right; exact ⟨.read, e, by simp [mainView, statView, mainProbe, statSize, getOpenFile, osOpen, openCaught]⟩
  | noOpen n e =>
    by_cases h : n = sizeOf sizes k
    · right; exact ⟨.read, e, by simp [mainView, mainProbe, statSize, getOpenFile, osOpen, openCaught, h]⟩
    · right; exact ⟨.size, 0, by simp [mainView, mainProbe, statSize, h]⟩
  | readErr c off e =>
    by_cases h : c.length = sizeOf sizes k
    · left; simp [mainView, statView, mainProbe, statSize, getOpenFile, osOpen, h]
    · right; exact ⟨.size, 0, by simp [mainView, statView, mainProbe, statSize, h]⟩

/-- content of a file the main loop can open -/
theorem contentOf_of_handle (sizes : List Nat) (fd : List (FState α)) (k : Nat)
    (h : fileError sizes (mainDisk sizes fd) k = none) :
    ((mainDisk sizes fd).getD k none).getD [] = contentOf (stateAt fd k) := by
  unfold fileError at h
  rw [getD_mainDisk] at h ⊢
  cases hs : stateAt fd k with
  | file c => simp [mainView, statView, contentOf]
  | gone e => simp [hs, mainView, statView] at h
  | noOpen n e =>
    rw [hs] at h
    by_cases hn : n = sizeOf sizes k
    · simp [mainView, hn] at h
    · simp only [mainView, hn, if_false, List.length_replicate] at h
      exact absurd h (by simp)
  | readErr c off e => simp [mainView, statView, contentOf]

/-- a stat-only probe never sees more damage than the main loop, and the same kind -/
theorem fileError_statDisk (sizes : List Nat) (fd : List (FState α)) (k : Nat) :
    fileError sizes (statDisk fd) k = fileError sizes (mainDisk sizes fd) k ∨
    fileError sizes (statDisk fd) k = none := by
  unfold fileError
  rw [getD_statDisk, getD_mainDisk]
  cases hs : stateAt fd k with
  | file c => left; rfl
  | gone e => left; rfl
  | noOpen n e =>
    by_cases hn : n = sizeOf sizes k
    · right; simp [statView, hn]
    · left; simp [statView, mainView, hn]
  | readErr c off e => left; rfl

/-! ### `Missing.step` with one disk for the main loop and one for the by-catch probe -/

def step2 (L : Nat) (sizes : List Nat) (dM dB : List (Option (List α))) (st : St α) (j : Nat) :
    St α :=
  if st.failed then st else
  if st.bycatch.contains j then st else
  match fileError sizes dM j with
  | none =>
    let content := ((dM.getD j none).getD []).drop st.skip
    let r := Stream.consume L [] (Stream.iterFromHandle L st.trailing content)
    { st with trailing := r.1, skip := 0, out := st.out ++ r.2.map dataItem }
  | some reason =>
    match missingCall L sizes dB st.seen st.bycatch j reason with
    | none => { st with failed := true }
    | some r =>
      { st with trailing := [], skip := r.skip, seen := r.seen, bycatch := r.bycatch,
                out := st.out ++ r.items }

omit [Inhabited α] in
theorem step2_self (L : Nat) (sizes : List Nat) (d : List (Option (List α))) :
    step2 L sizes d d = step L sizes d := rfl

/-- does the `read` fail in this iteration? -/
def fires (sizes : List Nat) (fd : List (FState α)) (st : St α) (j : Nat) : Option (Nat × Nat) :=
  if st.failed || st.bycatch.contains j then none else
  match mainProbe (sizeOf sizes j) (stateAt fd j) with
  | .handle => faultAt (stateAt fd j) st.skip
  | _ => none

/-- the file whose `read` failed: a regular file of the recorded size with an unreadable byte -/
def ReadFails (sizes : List Nat) (fd : List (FState α)) (j e : Nat) : Prop :=
  ∃ c off, stateAt fd j = .readErr c off e ∧ c.length = sizeOf sizes j ∧ off ≤ c.length

omit [Inhabited α] in
theorem readFails_of_fires (sizes : List Nat) (fd : List (FState α)) (st : St α) (j : Nat)
    (r e : Nat) (h : fires sizes fd st j = some (r, e)) : ReadFails sizes fd j e := by
  unfold fires at h
  split at h
  · cases h
  · split at h
    · rename_i hp
      unfold faultAt at h
      split at h
      · rename_i c off e' hs
        split at h
        · rename_i hc
          simp only [Option.some.injEq, Prod.mk.injEq] at h
          obtain ⟨_, rfl⟩ := h
          refine ⟨c, off, hs, ?_, hc.2⟩
          rw [hs] at hp
          unfold mainProbe statSize at hp
          simp only at hp
          split at hp
          · cases hp
          · rename_i hn; simpa using hn
        · cases h
      · cases h
    · cases h

theorem stepFs_fault (L : Nat) (sizes : List Nat) (fd : List (FState α)) (s : StFs α) (j : Nat)
    (h : s.fault.isSome = true) : stepFs L sizes fd s j = s := by
  unfold stepFs; simp [h]

theorem stepFs_nofire (L : Nat) (sizes : List Nat) (fd : List (FState α)) (s : StFs α) (j : Nat)
    (hf : s.fault = none) (h : fires sizes fd s.st j = none) :
    stepFs L sizes fd s j =
      { st := step2 L sizes (mainDisk sizes fd) (statDisk fd) s.st j, fault := none } := by
  obtain ⟨st, fault⟩ := s
  simp only at hf h
  subst hf
  unfold stepFs step2 fires at *
  simp only [Option.isSome_none, Bool.false_eq_true, if_false]
  by_cases h1 : st.failed = true
  · simp only [h1, if_true]
  · by_cases h2 : st.bycatch.contains j = true
    · simp only [h1, h2, Bool.false_eq_true, if_false, if_true]
    · simp only [h1, h2, Bool.false_eq_true, if_false, Bool.or_self] at h ⊢
      rcases mainProbe_of_fileError sizes fd j with ⟨hfe, hp⟩ | ⟨kind, e, hfe, hp⟩
      · rw [hp] at h ⊢
        simp only at h ⊢
        rw [hfe, h, contentOf_of_handle sizes fd j hfe]
      · rw [hp, hfe]
        simp only
        cases missingCall L sizes (statDisk fd) st.seen st.bycatch j kind <;> rfl

theorem stepFs_fire (L : Nat) (sizes : List Nat) (fd : List (FState α)) (s : StFs α) (j : Nat)
    (r e : Nat) (hf : s.fault = none) (h : fires sizes fd s.st j = some (r, e)) :
    (stepFs L sizes fd s j).fault = some (j, e) ∧ (stepFs L sizes fd s j).st.failed = false ∧
    ∃ ext : List (List α), (stepFs L sizes fd s j).st.out = s.st.out ++ ext.map dataItem := by
  obtain ⟨st, fault⟩ := s
  simp only at hf h
  subst hf
  unfold stepFs fires at *
  simp only [Option.isSome_none, Bool.false_eq_true, if_false]
  by_cases h1 : st.failed = true
  · simp only [h1, Bool.true_or, if_true] at h; cases h
  · by_cases h2 : st.bycatch.contains j = true
    · simp only [h2, Bool.or_true, if_true] at h; cases h
    · simp only [h1, h2, Bool.false_eq_true, if_false, Bool.or_self] at h ⊢
      split at h
      · rename_i hp
        rw [hp]
        simp only [h, readCaught, if_true]
        refine ⟨?_, ?_, _, rfl⟩
        · trivial
        · simp
      · cases h

/-! ### the loop: no `read` fails and it is the two-disk loop, or one fails and it stops -/

theorem fold_fs_fault (L : Nat) (sizes : List Nat) (fd : List (FState α)) (js : List Nat)
    (s : StFs α) (h : s.fault.isSome = true) : js.foldl (stepFs L sizes fd) s = s := by
  induction js with
  | nil => rfl
  | cons j js ih => rw [List.foldl_cons, stepFs_fault L sizes fd s j h, ih]

theorem fold_fs (L : Nat) (sizes : List Nat) (fd : List (FState α)) (js : List Nat) (s : StFs α)
    (hf : s.fault = none) :
    ((js.foldl (stepFs L sizes fd) s).fault = none ∧
      (js.foldl (stepFs L sizes fd) s).st =
        js.foldl (step2 L sizes (mainDisk sizes fd) (statDisk fd)) s.st) ∨
    (∃ j e, (js.foldl (stepFs L sizes fd) s).fault = some (j, e) ∧ j ∈ js ∧
      ReadFails sizes fd j e ∧ (js.foldl (stepFs L sizes fd) s).st.failed = false) := by
  induction js generalizing s with
  | nil => left; exact ⟨hf, rfl⟩
  | cons j js ih =>
    rw [List.foldl_cons]
    cases hfire : fires sizes fd s.st j with
    | none =>
      have hstep := stepFs_nofire L sizes fd s j hf hfire
      rcases ih (stepFs L sizes fd s j) (by rw [hstep]) with ⟨h1, h2⟩ | ⟨j', e, h1, h2, h3, h4⟩
      · left
        refine ⟨h1, ?_⟩
        rw [h2, hstep, List.foldl_cons]
      · right; exact ⟨j', e, h1, List.mem_cons_of_mem _ h2, h3, h4⟩
    | some re =>
      obtain ⟨r, e⟩ := re
      obtain ⟨h1, h2, _⟩ := stepFs_fire L sizes fd s j r e hf hfire
      right
      rw [fold_fs_fault L sizes fd js _ (by rw [h1]; rfl)]
      exact ⟨j, e, h1, List.mem_cons_self, readFails_of_fires sizes fd s.st j r e hfire, h2⟩

end Torf.VerifyFs
