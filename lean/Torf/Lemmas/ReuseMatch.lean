import Torf.Lemmas.Reuse
namespace Torf.Reuse

theorem intercalate_ne (name p : String) (ps : List String) :
    String.intercalate "/" (name :: p :: ps) ≠ name := by
  intro h
  have := congrArg String.length h
  rw [String.intercalate_cons_cons] at this
  simp only [String.length_append] at this
  have h1 : "/".length = 1 := by decide
  omega

theorem joined_nil (name : String) (sz : Nat) : joined name ⟨[], sz⟩ = name := by
  simp [joined]

theorem joined_ne_name (name : String) (f : FileEnt) (h : f.path ≠ []) : joined name f ≠ name := by
  unfold joined
  cases hp : f.path with
  | nil => exact absurd hp h
  | cons p ps => exact intercalate_ne name p ps

theorem wfKind_single {files : List FileEnt} (h : wfKind true files = true) :
    ∃ f, files = [f] ∧ f.path = [] ∧ f.size ≠ 0 := by
  unfold wfKind at h
  simp only [if_true] at h
  match files, h with
  | [f], h =>
    simp only [Bool.and_eq_true, List.isEmpty_iff, bne_iff_ne, ne_eq] at h
    exact ⟨f, rfl, h.1, h.2⟩

theorem wfKind_multi {files : List FileEnt} (h : wfKind false files = true) :
    files ≠ [] ∧ ∀ f ∈ files, f.path ≠ [] := by
  unfold wfKind at h
  simp only [Bool.false_eq_true, if_false, Bool.and_eq_true, Bool.not_eq_true', List.isEmpty_eq_false_iff,
    List.all_eq_true, List.isEmpty_eq_false_iff] at h
  exact h

theorem fps_single (name : String) (f : FileEnt) (b : Bool) (h : f.size ≠ 0) :
    filepathsAndSizes name true [f] b = .ok [(name, f.size)] := by
  simp [filepathsAndSizes, h]

theorem fps_multi (name : String) (files : List FileEnt) (h : files ≠ []) :
    filepathsAndSizes name false files false = .ok (pathSizes name files) := by
  cases files with
  | nil => exact absurd rfl h
  | cons a l => simp [filepathsAndSizes, pathSizes]

theorem pathSizes_single (name : String) (f : FileEnt) (h : f.path = []) :
    pathSizes name [f] = [(name, f.size)] := by
  cases f with
  | mk p s => simp only at h; subst h; simp [pathSizes, joined_nil]

structure WfCand (t : Tor) (c : Cand) : Prop where
  bytes : c.bytesPath = false
  kind : wfKind c.single c.files = true
  pl : 0 < c.pieceLength
  len : c.hashes.length = ((c.files.map (·.size)).sum + c.pieceLength - 1) / c.pieceLength
  inj : ∀ f ∈ t.files, ∀ g ∈ c.files, joined c.name g = joined c.name f → g.path = f.path

theorem wfCand_unpack {t : Tor} {c : Cand} (h : wfCand t c = true) : WfCand t c := by
  unfold wfCand at h
  simp only [Bool.and_eq_true, Bool.not_eq_true', decide_eq_true_eq, beq_iff_eq, List.all_eq_true,
    Bool.or_eq_true, bne_iff_ne, ne_eq] at h
  obtain ⟨⟨⟨⟨h1, h2⟩, h3⟩, h4⟩, h5⟩ := h
  refine ⟨h1, h2, h3, h4, ?_⟩
  intro f hf g hg hj
  rcases h5 f hf g hg with h | h
  · exact absurd hj h
  · exact h

/-! ### the file match -/

theorem isFileMatch_iff (t : Tor) (c : Cand) :
    isFileMatch t c = .ok true ↔
      t.name = c.name ∧
      (∃ tid cid, filepathsAndSizes t.name t.single t.files = .ok tid ∧
        filepathsAndSizes c.name c.single c.files c.bytesPath = .ok cid ∧ tid.Perm cid) ∧
      t.plMin ≤ c.pieceLength ∧ c.pieceLength ≤ t.plMax := by
  constructor
  · exact isFileMatch_true
  · rintro ⟨hn, ⟨tid, cid, htid, hcid, hp⟩, h1, h2⟩
    unfold isFileMatch
    rw [hn] at htid
    simp [hn, htid, hcid, List.isPerm_iff.mpr hp, h1, h2]

theorem fps_of_wf (name : String) (single : Bool) (files : List FileEnt)
    (h : wfKind single files = true) :
    filepathsAndSizes name single files false = .ok (pathSizes name files) := by
  cases single with
  | true =>
    obtain ⟨f, rfl, hp, hs⟩ := wfKind_single h
    rw [fps_single name f false hs, pathSizes_single name f hp]
  | false => exact fps_multi name files (wfKind_multi h).1

theorem kind_eq_of_perm (n : String) {s1 s2 : Bool} {l1 l2 : List FileEnt}
    (h1 : wfKind s1 l1 = true) (h2 : wfKind s2 l2 = true)
    (hp : (pathSizes n l1).Perm (pathSizes n l2)) : s1 = s2 := by
  have key : ∀ {l1 l2 : List FileEnt}, wfKind true l1 = true → wfKind false l2 = true →
      (pathSizes n l1).Perm (pathSizes n l2) → False := by
    intro l1 l2 h1 h2 hp
    obtain ⟨f, rfl, hfp, hfs⟩ := wfKind_single h1
    obtain ⟨_, hall⟩ := wfKind_multi h2
    rw [pathSizes_single n f hfp] at hp
    have := List.perm_singleton.mp hp.symm
    unfold pathSizes at this
    cases l2 with
    | nil => simp at this
    | cons g r =>
      simp only [List.map_cons, List.cons.injEq, Prod.mk.injEq] at this
      exact joined_ne_name n g (hall g (List.mem_cons_self ..)) this.1.1
  cases s1 <;> cases s2
  · rfl
  · exact (key h2 h1 hp.symm).elim
  · exact (key h1 h2 hp).elim
  · rfl

theorem isFileMatch_wf (t : Tor) (c : Cand) (ht : wfTor t = true) (hc : wfCand t c = true) :
    isFileMatch t c = .ok true ↔
      t.name = c.name ∧ t.single = c.single ∧
      (pathSizes t.name t.files).Perm (pathSizes c.name c.files) ∧
      t.plMin ≤ c.pieceLength ∧ c.pieceLength ≤ t.plMax := by
  have wc := wfCand_unpack hc
  unfold wfTor at ht
  rw [isFileMatch_iff, wc.bytes, fps_of_wf _ _ _ ht, fps_of_wf _ _ _ wc.kind]
  constructor
  · rintro ⟨hn, ⟨tid, cid, htid, hcid, hp⟩, h1, h2⟩
    cases htid; cases hcid
    refine ⟨hn, ?_, hp, h1, h2⟩
    rw [hn] at hp
    exact kind_eq_of_perm c.name ht wc.kind hp
  · rintro ⟨hn, _, hp, h1, h2⟩
    exact ⟨hn, ⟨_, _, rfl, rfl, hp⟩, h1, h2⟩

theorem isFileMatch_total (t : Tor) (c : Cand) (ht : wfTor t = true) (hc : wfCand t c = true) :
    ∃ b, isFileMatch t c = .ok b := by
  have wc := wfCand_unpack hc
  unfold wfTor at ht
  unfold isFileMatch
  rw [wc.bytes, fps_of_wf _ _ _ ht, fps_of_wf _ _ _ wc.kind]
  simp only []
  split
  · exact ⟨_, rfl⟩
  · split
    · exact ⟨_, rfl⟩
    · exact ⟨_, rfl⟩


/-! ### the content match -/

theorem filePosition_some (name : String) (f : FileEnt) (files : List FileEnt) (start : Nat)
    (h : ∃ g ∈ files, joined name g = joined name f ∧ g.size = f.size) :
    ∃ pos, filePosition name f files start = some pos := by
  induction files generalizing start with
  | nil => obtain ⟨g, hg, _⟩ := h; cases hg
  | cons a rest ih =>
    unfold filePosition
    by_cases ha : joined name a = joined name f ∧ a.size = f.size
    · exact ⟨start, by simp [ha]⟩
    · simp only [ha, if_false]
      apply ih
      obtain ⟨g, hg, hgg⟩ := h
      rcases List.mem_cons.mp hg with rfl | hg
      · exact absurd hgg ha
      · exact ⟨g, hg, hgg⟩

theorem mem_of_pathSizes_perm {n : String} {l1 l2 : List FileEnt}
    (hp : (pathSizes n l1).Perm (pathSizes n l2)) {f : FileEnt} (hf : f ∈ l1) :
    ∃ g ∈ l2, joined n g = joined n f ∧ g.size = f.size := by
  have : (joined n f, f.size) ∈ pathSizes n l2 := by
    apply hp.subset
    unfold pathSizes
    exact List.mem_map.mpr ⟨f, hf, rfl⟩
  unfold pathSizes at this
  obtain ⟨g, hg, he⟩ := List.mem_map.mp this
  simp only [Prod.mk.injEq] at he
  exact ⟨g, hg, he.1, he.2⟩

theorem mem_fileSamples {pl pos size i : Nat} (h : i ∈ fileSamples pl pos size) :
    pos + size ≠ 0 ∧ i ≤ (pos + size - 1) / pl := by
  unfold fileSamples pieceRange at h
  simp only [List.mem_append] at h
  have hm : i ∈ List.range' (pos / pl) ((if pos + size = 0 then 0 else (pos + size - 1) / pl + 1) - pos / pl) := by
    rcases h with (h | h) | h
    · exact List.mem_of_mem_take h
    · exact List.mem_of_mem_drop (List.mem_of_mem_take h)
    · exact List.mem_of_mem_drop h
  rw [List.mem_range'_1] at hm
  by_cases h0 : pos + size = 0
  · simp only [h0, if_true] at hm; omega
  · simp only [h0, if_false] at hm
    exact ⟨h0, by omega⟩

theorem piece_bound {pl x total : Nat} (hpl : 0 < pl) (hx : x ≠ 0) (hle : x ≤ total) :
    (x - 1) / pl < (total + pl - 1) / pl := by
  have h1 : total + pl - 1 = (total - 1) + pl := by omega
  rw [h1, Nat.add_div_right _ hpl]
  have : (x - 1) / pl ≤ (total - 1) / pl := Nat.div_le_div_right (by omega)
  omega

theorem sum_sizes_split (pre post : List FileEnt) (g : FileEnt) :
    ((pre ++ g :: post).map (·.size)).sum = (pre.map (·.size)).sum + g.size + (post.map (·.size)).sum := by
  simp [List.sum_append]; omega

theorem samples_exists (c : Cand) (files : List FileEnt)
    (h : ∀ f ∈ files, ∃ pos, filePosition c.name f c.files 0 = some pos) :
    ∃ s, files.foldr (samplesStep c) (.ok []) = Except.ok s ∧
      ∀ i ∈ s, ∃ f ∈ files, ∃ pos, filePosition c.name f c.files 0 = some pos ∧
        i ∈ fileSamples c.pieceLength pos f.size := by
  induction files with
  | nil => exact ⟨[], rfl, fun i hi => by cases hi⟩
  | cons a rest ih =>
    obtain ⟨s, hs, hall⟩ := ih (fun f hf => h f (List.mem_cons_of_mem _ hf))
    obtain ⟨pos, hpos⟩ := h a (List.mem_cons_self ..)
    refine ⟨fileSamples c.pieceLength pos a.size ++ s, ?_, ?_⟩
    · simp only [List.foldr_cons, hs, samplesStep, hpos]
    · intro i hi
      rcases List.mem_append.mp hi with hi | hi
      · exact ⟨a, List.mem_cons_self .., pos, hpos, hi⟩
      · obtain ⟨f, hf, p, hp, hip⟩ := hall i hi
        exact ⟨f, List.mem_cons_of_mem _ hf, p, hp, hip⟩

/-- the outcome of a check that stays inside the stored hashes -/
def Benign (loc : Nat → LocalPiece) (r : Except Err Bool) : Prop :=
  (∃ b, r = .ok b) ∨ (r = .error .verifyFileSize ∧ ∃ i, loc i = .sizeError) ∨
    (r = .error .read ∧ ∃ i, loc i = .readError)

theorem checkAll_benign (c : Cand) (loc : Nat → LocalPiece) (l : List Nat)
    (h : ∀ i ∈ l, i < c.hashes.length) : Benign loc (checkAll c loc l) := by
  induction l with
  | nil => exact Or.inl ⟨true, rfl⟩
  | cons a rest ih =>
    have ha := h a (List.mem_cons_self ..)
    have ih' := ih (fun i hi => h i (List.mem_cons_of_mem _ hi))
    unfold checkAll verifyPiece
    rw [List.getElem?_eq_getElem ha]
    simp only []
    cases hl : loc a with
    | hash d =>
      simp only []
      cases hb : (c.hashes[a] == d) with
      | true => exact ih'
      | false => exact Or.inl ⟨false, rfl⟩
    | missing => exact Or.inl ⟨false, rfl⟩
    | sizeError => exact Or.inr (Or.inl ⟨rfl, a, hl⟩)
    | readError => exact Or.inr (Or.inr ⟨rfl, a, hl⟩)

theorem mem_sortedSet_lt {n : Nat} {s : List Nat} (h : ∀ i ∈ s, i < n) :
    ∀ i ∈ sortedSet n s, i < n := by
  intro i hi
  unfold sortedSet at hi
  rcases List.mem_append.mp hi with hi | hi
  · have := (List.mem_filter.mp hi).1
    exact List.mem_range.mp this
  · have := List.mem_filter.mp (List.mem_of_mem_take hi)
    exact h i this.1


/-- under a file match of a pair without oddities every file is located and every sampled piece
    has a stored hash -/
theorem samples_wf {t : Tor} {c : Cand} (wc : WfCand t c) (hn : t.name = c.name)
    (hp : (pathSizes t.name t.files).Perm (pathSizes c.name c.files)) :
    ∃ s, samples t c = .ok s ∧ ∀ i ∈ s, i < c.hashes.length := by
  rw [hn] at hp
  have hloc : ∀ f ∈ t.files, ∃ pos, filePosition c.name f c.files 0 = some pos :=
    fun f hf => filePosition_some c.name f c.files 0 (mem_of_pathSizes_perm hp hf)
  obtain ⟨s, hs, hall⟩ := samples_exists c t.files hloc
  refine ⟨s, hs, ?_⟩
  intro i hi
  obtain ⟨f, _, pos, hpos, him⟩ := hall i hi
  obtain ⟨pre, g, post, hfiles, _, hsz, hposeq, _⟩ := filePosition_spec c.name f c.files 0 pos hpos
  obtain ⟨hne, hle⟩ := mem_fileSamples him
  rw [wc.len]
  have htot : pos + f.size ≤ (c.files.map (·.size)).sum := by
    rw [hfiles, sum_sizes_split]; omega
  have := piece_bound wc.pl hne htot
  omega

theorem isContentMatch_benign {t : Tor} {c : Cand} (loc : Nat → LocalPiece) (wc : WfCand t c)
    (hn : t.name = c.name)
    (hp : (pathSizes t.name t.files).Perm (pathSizes c.name c.files)) :
    Benign loc (isContentMatch t c loc) := by
  obtain ⟨s, hs, hlt⟩ := samples_wf wc hn hp
  unfold isContentMatch
  simp only [hs]
  exact checkAll_benign c loc _ (mem_sortedSet_lt hlt)

/-! ### copy -/

theorem perm_of_map_perm {α β : Type} [DecidableEq α] (g : α → β) :
    ∀ (l₁ l₂ : List α), (l₁.map g).Perm (l₂.map g) →
      (∀ a ∈ l₁, ∀ b ∈ l₂, g a = g b → a = b) → l₁.Perm l₂ := by
  intro l₁
  induction l₁ with
  | nil =>
    intro l₂ hp _
    have := hp.length_eq
    cases l₂ with
    | nil => exact List.Perm.nil
    | cons b r => simp at this
  | cons a l ih =>
    intro l₂ hp hinj
    have hga : g a ∈ l₂.map g := hp.subset (by simp)
    obtain ⟨b, hb, hgb⟩ := List.mem_map.mp hga
    have hab : a = b := hinj a (List.mem_cons_self ..) b hb hgb.symm
    subst hab
    have h2 : l₂.Perm (a :: l₂.erase a) := List.perm_cons_erase hb
    have h3 : (g a :: l.map g).Perm (g a :: (l₂.erase a).map g) := by
      have := hp.trans (h2.map g)
      simpa using this
    have h4 := ih (l₂.erase a) h3.cons_inv
      (fun x hx y hy => hinj x (List.mem_cons_of_mem _ hx) y (List.mem_of_mem_erase hy))
    exact (h4.cons a).trans h2.symm

theorem files_perm {t : Tor} {c : Cand} (wc : WfCand t c) (hn : t.name = c.name)
    (hp : (pathSizes t.name t.files).Perm (pathSizes c.name c.files)) : t.files.Perm c.files := by
  rw [hn] at hp
  unfold pathSizes at hp
  apply perm_of_map_perm _ _ _ hp
  intro a ha b hb hab
  simp only [Prod.mk.injEq] at hab
  have := wc.inj a ha b hb hab.1.symm
  cases a; cases b
  simp only at this hab
  simp [this, hab.2]

theorem copy_wf {t : Tor} {c : Cand} (wc : WfCand t c) (hn : t.name = c.name)
    (hk : t.single = c.single)
    (hp : (pathSizes t.name t.files).Perm (pathSizes c.name c.files)) : ∃ t', copy c t = .ok t' := by
  unfold copy
  cases hcs : c.single with
  | true => exact ⟨_, rfl⟩
  | false =>
    rw [hcs] at hk
    simp [hk, List.isPerm_iff.mpr (files_perm wc hn hp)]


/-! ### a candidate without oddities gets through the three tests -/

theorem candidate_outcome (t : Tor) (c : Cand) (loc : Nat → LocalPiece)
    (ht : wfTor t = true) (hc : wfCand t c = true) :
    isFileMatch t c = .ok false ∨
    (isFileMatch t c = .ok true ∧ Benign loc (isContentMatch t c loc) ∧ ∃ t', copy c t = .ok t') := by
  obtain ⟨b, hb⟩ := isFileMatch_total t c ht hc
  cases b with
  | false => exact Or.inl hb
  | true =>
    obtain ⟨hn, hk, hp, _, _⟩ := (isFileMatch_wf t c ht hc).mp hb
    have wc := wfCand_unpack hc
    exact Or.inr ⟨hb, isContentMatch_benign loc wc hn hp, copy_wf wc hn hk hp⟩

theorem candidate_noRaise (t : Tor) (c : Cand) (loc : Nat → LocalPiece) (cb : Callback)
    (ht : wfTor t = true) (hc : wfCand t c = true)
    (hloc : ∀ i, loc i ≠ .sizeError ∧ loc i ≠ .readError) :
    NoRaise t cb (.file (.torrent c) loc) := by
  simp only [NoRaise]
  rcases candidate_outcome t c loc ht hc with h | ⟨h1, h2, h3⟩
  · exact Or.inl h
  · refine Or.inr ⟨h1, ?_⟩
    rcases h2 with ⟨b, hb⟩ | ⟨_, i, hi⟩ | ⟨_, i, hi⟩
    · cases b with
      | false => exact Or.inl hb
      | true => exact Or.inr ⟨hb, h3⟩
    · exact absurd hi (hloc i).1
    · exact absurd hi (hloc i).2

/-! ### the search loop -/

theorem maybeCall_error {cb : Callback} {elapsed : Bool} {call : Call} {e : Err}
    (h : maybeCall cb elapsed call = .error e) : call.exc = some e := by
  unfold maybeCall at h
  cases cb with
  | some g =>
    simp only [] at h
    split at h <;> cases h
  | none =>
    simp only [] at h
    split at h
    · rename_i e' he; cases h; exact he
    · cases h

theorem readItem_error {it : Item} {e : Err} (h : readItem it = .error e) :
    e = .read ∨ e = .bdecode ∨ e = .metainfo := by
  cases it with
  | pathError => simp [readItem] at h; simp [← h]
  | file r l =>
    cases r with
    | torrent c => simp [readItem] at h
    | unreadable => simp [readItem] at h; simp [← h]
    | undecodable => simp [readItem] at h; simp [← h]
    | invalid => simp [readItem] at h; simp [← h]

/-- the documented ways for the search to end -/
def Allowed (r : Res) : Prop :=
  (∃ b, r = .ok b) ∨ r = .raised .read ∨ r = .raised .bdecode ∨ r = .raised .metainfo ∨
    r = .raised .verifyFileSize

theorem loop_allowed (t : Tor) (cb : Callback) (elapsed : Bool) (tot : Nat) (ht : wfTor t = true)
    (items : List Item)
    (hall : ∀ c loc, Item.file (.torrent c) loc ∈ items → wfCand t c = true) :
    ∀ idx done, Allowed (loop t cb elapsed tot idx done items).1 := by
  induction items with
  | nil => intro idx done; exact Or.inl ⟨false, by simp [loop]⟩
  | cons it rest ih =>
    intro idx done
    have lift : ∀ idx' done', Allowed (loop t cb elapsed tot idx' done' rest).1 :=
      ih (fun c loc hm => hall c loc (List.mem_cons_of_mem _ hm))
    have okb : ∀ b, Allowed (.ok b) := fun b => Or.inl ⟨b, rfl⟩
    have rd : ∀ e, (e = Err.read ∨ e = .bdecode ∨ e = .metainfo) → Allowed (.raised e) := by
      intro e he
      rcases he with rfl | rfl | rfl
      · exact Or.inr (Or.inl rfl)
      · exact Or.inr (Or.inr (Or.inl rfl))
      · exact Or.inr (Or.inr (Or.inr (Or.inl rfl)))
    unfold loop
    simp only []
    split
    · -- read error
      rename_i e hread
      split
      · rename_i e' hmc
        have := maybeCall_error hmc
        simp only [Option.some.injEq] at this
        subst this
        exact rd _ (readItem_error hread)
      · split
        · exact okb _
        · exact lift _ _
    · rename_i c loc hread
      have hmem : Item.file (.torrent c) loc ∈ it :: rest := by
        rw [readItem_ok hread]; exact List.mem_cons_self ..
      have hout := candidate_outcome t c loc ht (hall c loc hmem)
      split
      · rename_i e hfm
        rcases hout with h | ⟨h, _⟩ <;> rw [h] at hfm <;> cases hfm
      · -- no file match
        split
        · rename_i e' hmc
          have := maybeCall_error hmc
          cases this
        · split
          · exact okb _
          · exact lift _ _
      · rename_i hfm
        split
        · rename_i e' hmc
          have := maybeCall_error hmc
          cases this
        · split
          · exact okb _
          · rcases hout with h | ⟨_, hben, t', hcopy⟩
            · rw [h] at hfm; cases hfm
            · split
              · rename_i e hcm
                rw [hcm] at hben
                rcases hben with ⟨b, hb⟩ | ⟨hb, _⟩ | ⟨hb, _⟩
                · cases hb
                · cases hb; exact Or.inr (Or.inr (Or.inr (Or.inr rfl)))
                · cases hb; exact Or.inr (Or.inl rfl)
              · split
                · rename_i e' hmc
                  have := maybeCall_error hmc
                  cases this
                · split
                  · exact okb _
                  · exact lift _ _
              · split
                · rename_i e hce
                  rw [hcopy] at hce; cases hce
                · exact okb _

theorem reuse_allowed (t : Tor) (items : List Item) (cb : Callback) (elapsed : Bool)
    (ht : wfTor t = true)
    (hall : ∀ c loc, Item.file (.torrent c) loc ∈ items → wfCand t c = true) :
    Allowed (reuse t items cb elapsed).1 := by
  unfold reuse
  exact loop_allowed t cb elapsed _ ht items hall 0 0

end Torf.Reuse
