/-
  Torf.Lemmas.PipelineProg — enabledness: closed forms of the steps that are used as progress
  witnesses in the deadlock-freedom proof, and criteria for `isProgress` / `canProgress`.
-/
import Torf.Lemmas.PipelineInv
namespace Torf.Pipeline

/-! ### progress criteria -/

theorem isProgress_of_main {s s' : State} (h : s.main ≠ s'.main) : isProgress s s' = true := by
  simp only [isProgress, decide_eq_true_eq]
  intro hc; exact h (by simpa [core] using congrArg State.main hc)

theorem isProgress_of_rpc {s s' : State} (h : s.rpc ≠ s'.rpc) : isProgress s s' = true := by
  simp only [isProgress, decide_eq_true_eq]
  intro hc; exact h (by simpa [core] using congrArg State.rpc hc)

theorem isProgress_of_hs {s s' : State} (h : s.hs ≠ s'.hs) : isProgress s s' = true := by
  simp only [isProgress, decide_eq_true_eq]
  intro hc; exact h (by simpa [core] using congrArg State.hs hc)

theorem isProgress_of_pq {s s' : State} (h : s.pq ≠ s'.pq) : isProgress s s' = true := by
  simp only [isProgress, decide_eq_true_eq]
  intro hc; exact h (by simpa [core] using congrArg State.pq hc)

theorem isProgress_of_hq {s s' : State} (h : s.hq ≠ s'.hq) : isProgress s s' = true := by
  simp only [isProgress, decide_eq_true_eq]
  intro hc; exact h (by simpa [core] using congrArg State.hq hc)

theorem isProgress_of_jan {s s' : State} (h : coreJan s.jan ≠ coreJan s'.jan) :
    isProgress s s' = true := by
  simp only [isProgress, decide_eq_true_eq]
  intro hc; exact h (by simpa [core] using congrArg State.jan hc)

theorem mem_allLabels_main (cfg : Cfg) : (⟨.main, false⟩ : Label) ∈ allLabels cfg := by
  simp [allLabels]

theorem mem_allLabels_reader (cfg : Cfg) : (⟨.reader, false⟩ : Label) ∈ allLabels cfg := by
  simp [allLabels]

theorem mem_allLabels_janitor (cfg : Cfg) (b : Bool) : (⟨.janitor, b⟩ : Label) ∈ allLabels cfg := by
  cases b <;> simp [allLabels]

theorem mem_allLabels_hasher (cfg : Cfg) {i : Nat} (hi : i < cfg.N) (b : Bool) :
    (⟨.hasher i, b⟩ : Label) ∈ allLabels cfg := by
  simp only [allLabels, List.mem_append, List.mem_flatMap, List.mem_range]
  right
  exact ⟨i, hi, by cases b <;> simp⟩

theorem canProgress_of_label {cfg : Cfg} {s s' : State} {l : Label} (hl : l ∈ allLabels cfg)
    (hs : step cfg s l = some s') (hp : isProgress s s' = true) : canProgress cfg s = true := by
  unfold canProgress
  simp only [Bool.or_eq_true, List.any_eq_true]
  left
  exact ⟨l, hl, by simp [hs, hp]⟩

theorem canProgress_of_janitor {cfg : Cfg} {s : State}
    (h : janitorReachesProgress cfg s (cfg.N + 2) = true) : canProgress cfg s = true := by
  unfold canProgress
  simp [h]

/-! ### hashers that can move -/

theorem step_hasher (cfg : Cfg) (s : State) (i : Nat) (b : Bool) :
    step cfg s ⟨.hasher i, b⟩ = stepHasher cfg s i b := rfl

theorem canProgress_of_hasher {cfg : Cfg} {s s' : State} {i : Nat} {b : Bool} {p : HPc}
    (hlen : s.hs.length = cfg.N) (hi : s.hs[i]? = some p)
    (hs : stepHasher cfg s i b = some s') (hne : s.hs ≠ s'.hs) : canProgress cfg s = true := by
  have hiN : i < cfg.N := by
    rw [← hlen]
    rcases Nat.lt_or_ge i s.hs.length with h | h
    · exact h
    · simp [List.getElem?_eq_none h] at hi
  exact canProgress_of_label (mem_allLabels_hasher cfg hiN b) (by rw [step_hasher]; exact hs)
    (isProgress_of_hs hne)

theorem canProgress_hasher_begin {cfg : Cfg} {s : State} {i : Nat} (hlen : s.hs.length = cfg.N)
    (hi : s.hs[i]? = some .begin_) : canProgress cfg s = true :=
  canProgress_of_hasher (b := false) (s' := setHasher s i .getting) hlen hi
    (by simp [stepHasher, hi]) (by simpa [setHasher] using (set_ne_self hi (by simp)).symm)

theorem canProgress_hasher_holding {cfg : Cfg} {s : State} {i k : Nat} (hlen : s.hs.length = cfg.N)
    (hi : s.hs[i]? = some (.holding k)) : canProgress cfg s = true :=
  canProgress_of_hasher (b := false) (s' := setHasher { s with hq := s.hq ++ [some k] } i .getting)
    hlen hi (by simp [stepHasher, hi]) (by simpa [setHasher] using (set_ne_self hi (by simp)).symm)

theorem canProgress_hasher_setEv {cfg : Cfg} {s : State} {i : Nat} (hlen : s.hs.length = cfg.N)
    (hi : s.hs[i]? = some .setEv) : canProgress cfg s = true :=
  canProgress_of_hasher (b := false) (s' := setHasher { s with fin := true } i .done)
    hlen hi (by simp [stepHasher, hi]) (by simpa [setHasher] using (set_ne_self hi (by simp)).symm)

theorem canProgress_hasher_requeue {cfg : Cfg} {s : State} {i : Nat} (hlen : s.hs.length = cfg.N)
    (hi : s.hs[i]? = some .requeue) (hc : s.pq.length < cfg.cap) : canProgress cfg s = true :=
  canProgress_of_hasher (b := false) (s' := setHasher { s with pq := s.pq ++ [none] } i .setEv)
    hlen hi (by simp [stepHasher, hi, hc]) (by simpa [setHasher] using (set_ne_self hi (by simp)).symm)

theorem canProgress_hasher_getting {cfg : Cfg} {s : State} {i : Nat} (hlen : s.hs.length = cfg.N)
    (hi : s.hs[i]? = some .getting) (hpq : s.pq ≠ []) : canProgress cfg s = true := by
  cases hq : s.pq with
  | nil => exact absurd hq hpq
  | cons x rest =>
    cases x with
    | none =>
      exact canProgress_of_hasher (b := false) (s' := setHasher { s with pq := rest } i .requeue)
        hlen hi (by simp [stepHasher, hi, hq])
        (by simpa [setHasher] using (set_ne_self hi (by simp)).symm)
    | some k =>
      exact canProgress_of_hasher (b := false) (s' := setHasher { s with pq := rest } i (.holding k))
        hlen hi (by simp [stepHasher, hi, hq])
        (by simpa [setHasher] using (set_ne_self hi (by simp)).symm)

theorem canProgress_hasher_quit {cfg : Cfg} {s : State} {i : Nat} (hlen : s.hs.length = cfg.N)
    (hi : s.hs[i]? = some .getting) (hpq : s.pq = []) (h0 : i ≠ 0) : canProgress cfg s = true :=
  canProgress_of_hasher (b := true) (s' := setHasher s i .done)
    hlen hi (by simp [stepHasher, hi, hpq, h0]) (by simpa [setHasher] using (set_ne_self hi (by simp)).symm)

end Torf.Pipeline
