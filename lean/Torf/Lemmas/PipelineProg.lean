/-
  Torf.Lemmas.PipelineProg — enabledness: closed forms of the steps that are used as progress
  witnesses in the deadlock-freedom proof, and criteria for `isProgress` / `canProgress`.
-/
import Torf.Lemmas.PipelineInv
namespace Torf.Pipeline

/-! ### progress criteria -/

theorem isProgress_of_main {s s' : State} (h : s.main ≠ s'.main) : isProgress s s' = true := by
  simp only [isProgress, decide_eq_true_eq]
  intro hc; exact h (by simpa [core] using congrArg State.main hc)

theorem isProgress_of_rpc {s s' : State} (h : s.rpc ≠ s'.rpc) : isProgress s s' = true := by
  simp only [isProgress, decide_eq_true_eq]
  intro hc; exact h (by simpa [core] using congrArg State.rpc hc)

theorem isProgress_of_hs {s s' : State} (h : s.hs ≠ s'.hs) : isProgress s s' = true := by
  simp only [isProgress, decide_eq_true_eq]
  intro hc; exact h (by simpa [core] using congrArg State.hs hc)

theorem isProgress_of_pq {s s' : State} (h : s.pq ≠ s'.pq) : isProgress s s' = true := by
  simp only [isProgress, decide_eq_true_eq]
  intro hc; exact h (by simpa [core] using congrArg State.pq hc)

theorem isProgress_of_hq {s s' : State} (h : s.hq ≠ s'.hq) : isProgress s s' = true := by
  simp only [isProgress, decide_eq_true_eq]
  intro hc; exact h (by simpa [core] using congrArg State.hq hc)

theorem isProgress_of_jan {s s' : State} (h : coreJan s.jan ≠ coreJan s'.jan) :
    isProgress s s' = true := by
  simp only [isProgress, decide_eq_true_eq]
  intro hc; exact h (by simpa [core] using congrArg State.jan hc)

theorem mem_allLabels_main (cfg : Cfg) : (⟨.main, false⟩ : Label) ∈ allLabels cfg := by
  simp [allLabels]

theorem mem_allLabels_reader (cfg : Cfg) : (⟨.reader, false⟩ : Label) ∈ allLabels cfg := by
  simp [allLabels]

theorem mem_allLabels_janitor (cfg : Cfg) (b : Bool) : (⟨.janitor, b⟩ : Label) ∈ allLabels cfg := by
  cases b <;> simp [allLabels]

theorem mem_allLabels_hasher (cfg : Cfg) {i : Nat} (hi : i < cfg.N) (b : Bool) :
    (⟨.hasher i, b⟩ : Label) ∈ allLabels cfg := by
  simp only [allLabels, List.mem_append, List.mem_flatMap, List.mem_range]
  right
  exact ⟨i, hi, by cases b <;> simp⟩

theorem canProgress_of_label {cfg : Cfg} {s s' : State} {l : Label} (hl : l ∈ allLabels cfg)
    (hs : step cfg s l = some s') (hp : isProgress s s' = true) : canProgress cfg s = true := by
  unfold canProgress
  simp only [Bool.or_eq_true, List.any_eq_true]
  left
  exact ⟨l, hl, by simp [hs, hp]⟩

theorem canProgress_of_janitor {cfg : Cfg} {s : State}
    (h : janitorReachesProgress cfg s (cfg.N + 2) = true) : canProgress cfg s = true := by
  unfold canProgress
  simp [h]

/-! ### hashers that can move -/

theorem step_hasher (cfg : Cfg) (s : State) (i : Nat) (b : Bool) :
    step cfg s ⟨.hasher i, b⟩ = stepHasher cfg s i b := rfl

theorem canProgress_of_hasher {cfg : Cfg} {s s' : State} {i : Nat} {b : Bool} {p : HPc}
    (hlen : s.hs.length = cfg.N) (hi : s.hs[i]? = some p)
    (hs : stepHasher cfg s i b = some s') (hne : s.hs ≠ s'.hs) : canProgress cfg s = true := by
  have hiN : i < cfg.N := by
    rw [← hlen]
    rcases Nat.lt_or_ge i s.hs.length with h | h
    · exact h
    · simp [List.getElem?_eq_none h] at hi
  exact canProgress_of_label (mem_allLabels_hasher cfg hiN b) (by rw [step_hasher]; exact hs)
    (isProgress_of_hs hne)

theorem canProgress_hasher_begin {cfg : Cfg} {s : State} {i : Nat} (hlen : s.hs.length = cfg.N)
    (hi : s.hs[i]? = some .begin_) : canProgress cfg s = true :=
  canProgress_of_hasher (b := false) (s' := setHasher s i .getting) hlen hi
    (by simp [stepHasher, hi]) (by simpa [setHasher] using (set_ne_self hi (by simp)).symm)

theorem canProgress_hasher_holding {cfg : Cfg} {s : State} {i k : Nat} (hlen : s.hs.length = cfg.N)
    (hi : s.hs[i]? = some (.holding k)) : canProgress cfg s = true :=
  canProgress_of_hasher (b := false) (s' := setHasher { s with hq := s.hq ++ [some k] } i .getting)
    hlen hi (by simp [stepHasher, hi]) (by simpa [setHasher] using (set_ne_self hi (by simp)).symm)

theorem canProgress_hasher_setEv {cfg : Cfg} {s : State} {i : Nat} (hlen : s.hs.length = cfg.N)
    (hi : s.hs[i]? = some .setEv) : canProgress cfg s = true :=
  canProgress_of_hasher (b := false) (s' := setHasher { s with fin := true } i .done)
    hlen hi (by simp [stepHasher, hi]) (by simpa [setHasher] using (set_ne_self hi (by simp)).symm)

theorem canProgress_hasher_requeue {cfg : Cfg} {s : State} {i : Nat} (hlen : s.hs.length = cfg.N)
    (hi : s.hs[i]? = some .requeue) (hc : s.pq.length < cfg.cap) : canProgress cfg s = true :=
  canProgress_of_hasher (b := false) (s' := setHasher { s with pq := s.pq ++ [none] } i .setEv)
    hlen hi (by simp [stepHasher, hi, hc]) (by simpa [setHasher] using (set_ne_self hi (by simp)).symm)

theorem canProgress_hasher_getting {cfg : Cfg} {s : State} {i : Nat} (hlen : s.hs.length = cfg.N)
    (hi : s.hs[i]? = some .getting) (hpq : s.pq ≠ []) : canProgress cfg s = true := by
  cases hq : s.pq with
  | nil => exact absurd hq hpq
  | cons x rest =>
    cases x with
    | none =>
      exact canProgress_of_hasher (b := false) (s' := setHasher { s with pq := rest } i .requeue)
        hlen hi (by simp [stepHasher, hi, hq])
        (by simpa [setHasher] using (set_ne_self hi (by simp)).symm)
    | some k =>
      exact canProgress_of_hasher (b := false) (s' := setHasher { s with pq := rest } i (.holding k))
        hlen hi (by simp [stepHasher, hi, hq])
        (by simpa [setHasher] using (set_ne_self hi (by simp)).symm)

theorem canProgress_hasher_quit {cfg : Cfg} {s : State} {i : Nat} (hlen : s.hs.length = cfg.N)
    (hi : s.hs[i]? = some .getting) (hpq : s.pq = []) (h0 : i ≠ 0) : canProgress cfg s = true :=
  canProgress_of_hasher (b := true) (s' := setHasher s i .done)
    hlen hi (by simp [stepHasher, hi, hpq, h0]) (by simpa [setHasher] using (set_ne_self hi (by simp)).symm)

/-! ### the reader -/

theorem step_reader (cfg : Cfg) (s : State) : step cfg s ⟨.reader, false⟩ = stepReader cfg s := rfl

theorem readerNext_rpc_ne_begin (cfg : Cfg) (t : State) (k : Nat) :
    (readerNext cfg t k).rpc ≠ .begin_ := by
  unfold readerNext; (repeat' split) <;> simp

theorem canProgress_reader_begin {cfg : Cfg} {s : State} (hr : s.rpc = .begin_) :
    canProgress cfg s = true :=
  canProgress_of_label (mem_allLabels_reader cfg) (s' := readerNext cfg s 0)
    (by simp [step_reader, stepReader, hr])
    (isProgress_of_rpc (by rw [hr]; exact (readerNext_rpc_ne_begin cfg s 0).symm))

theorem canProgress_reader_put {cfg : Cfg} {s : State} {k : Nat} (hr : s.rpc = .putting k)
    (hc : s.pq.length < cfg.cap) : canProgress cfg s = true :=
  canProgress_of_label (mem_allLabels_reader cfg)
    (s' := readerNext cfg { s with pq := s.pq ++ [some k] } (k + 1))
    (by simp [step_reader, stepReader, hr, hc])
    (isProgress_of_pq (by
      rw [readerNext_pq]
      intro h
      have := congrArg List.length h
      simp at this))

theorem canProgress_reader_close {cfg : Cfg} {s : State} (hr : s.rpc = .closing)
    (hc : s.pq.length < cfg.cap) : canProgress cfg s = true :=
  canProgress_of_label (mem_allLabels_reader cfg)
    (s' := { s with pq := s.pq ++ [none], rpc := .done })
    (by simp [step_reader, stepReader, hr, hc])
    (isProgress_of_rpc (by simp [hr]))

/-! ### main -/

theorem step_main (cfg : Cfg) (s : State) : step cfg s ⟨.main, false⟩ = stepMain cfg s := rfl

theorem canProgress_of_main {cfg : Cfg} {s s' : State} (hs : stepMain cfg s = some s')
    (hp : isProgress s s' = true) : canProgress cfg s = true :=
  canProgress_of_label (mem_allLabels_main cfg) (by rw [step_main]; exact hs) hp

theorem joinTarget_ne_joinReaderChk (s : State) (idx : Nat) (e e' : Option Exc) :
    joinTarget s idx e ≠ .joinReaderChk e' := by
  unfold joinTarget; split <;> simp

theorem joinTarget_ne_joinReader (s : State) (idx : Nat) (e e' : Option Exc) :
    joinTarget s idx e ≠ .joinReader e' := by
  unfold joinTarget; split <;> simp

theorem joinTarget_succ_ne (s : State) (h idx : Nat) (e : Option Exc) :
    joinTarget s (idx + 1) e ≠ .joinHasherChk h idx e ∧ joinTarget s (idx + 1) e ≠ .joinHasher h idx e := by
  unfold joinTarget; split <;> simp

/-- main's non-blocking program points -/
theorem canProgress_main_free {cfg : Cfg} {s : State} (hrf : cfg.refuse = [])
    (hm : match s.main with
      | .collect | .joinReader _ | .joinHasher .. | .joinJanitor _ | .finished _ => False
      | _ => True) : canProgress cfg s = true := by
  cases hmain : s.main <;> simp only [hmain] at hm
  case startReaderChk =>
    exact canProgress_of_main (s' := { s with main := .startReader }) (by simp [stepMain, hmain])
      (isProgress_of_main (by simp [hmain]))
  case startReader =>
    exact canProgress_of_main (s' := { s with rpc := .begin_, main := .startHasherChk 0 })
      (by simp [stepMain, hmain, hrf]) (isProgress_of_main (by simp [hmain]))
  case startHasherChk i =>
    exact canProgress_of_main (s' := { s with main := .startHasher i }) (by simp [stepMain, hmain])
      (isProgress_of_main (by simp [hmain]))
  case startHasher i =>
    exact canProgress_of_main
      (s' := { setHasher s i .begin_ with
                main := if i + 1 < cfg.N then .startHasherChk (i + 1) else .startJanitorChk })
      (by simp [stepMain, hmain, hrf])
      (isProgress_of_main (by simp only [hmain]; split <;> simp))
  case startJanitorChk =>
    exact canProgress_of_main (s' := { s with main := .startJanitor }) (by simp [stepMain, hmain])
      (isProgress_of_main (by simp [hmain]))
  case startJanitor =>
    exact canProgress_of_main (s' := { s with jan := .begin_, main := .collect })
      (by simp [stepMain, hmain, hrf]) (isProgress_of_main (by simp [hmain]))
  case joinReaderChk e =>
    by_cases hr : s.rpc.running = true
    · exact canProgress_of_main (s' := { s with main := .joinReader e })
        (by simp [stepMain, hmain, hr]) (isProgress_of_main (by simp [hmain]))
    · exact canProgress_of_main (s' := afterReaderJoin s e) (by simp [stepMain, hmain, hr])
        (isProgress_of_main (by
          rw [afterReaderJoin, enterJoinHasher_eq, hmain]
          exact (joinTarget_ne_joinReaderChk _ _ _ _).symm))
  case joinHasherChk h idx e =>
    by_cases hr : hasherRunning s h = true
    · exact canProgress_of_main (s' := { s with main := .joinHasher h idx e })
        (by simp [stepMain, hmain, hr]) (isProgress_of_main (by simp [hmain]))
    · exact canProgress_of_main (s' := enterJoinHasher s (idx + 1) e) (by simp [stepMain, hmain, hr])
        (isProgress_of_main (by
          rw [enterJoinHasher_eq, hmain]
          exact (joinTarget_succ_ne _ _ _ _).1.symm))
  case joinJanitorChk e =>
    by_cases hr : s.jan.running = true
    · exact canProgress_of_main (s' := { s with main := .joinJanitor e })
        (by simp [stepMain, hmain, hr]) (isProgress_of_main (by simp [hmain]))
    · exact canProgress_of_main (s' := finishWith s e) (by simp [stepMain, hmain, hr])
        (isProgress_of_main (by rw [finishWith_eq, hmain]; simp))

/-- main's blocking program points when the awaited condition holds -/
theorem canProgress_joinReader {cfg : Cfg} {s : State} {e : Option Exc} (hm : s.main = .joinReader e)
    (hr : s.rpc.running = false) : canProgress cfg s = true :=
  canProgress_of_main (s' := afterReaderJoin s e) (by simp [stepMain, hm, hr])
    (isProgress_of_main (by
      rw [afterReaderJoin, enterJoinHasher_eq, hm]
      exact (joinTarget_ne_joinReader _ _ _ _).symm))

theorem canProgress_joinHasher {cfg : Cfg} {s : State} {h idx : Nat} {e : Option Exc}
    (hm : s.main = .joinHasher h idx e) (hr : hasherRunning s h = false) :
    canProgress cfg s = true :=
  canProgress_of_main (s' := enterJoinHasher s (idx + 1) e) (by simp [stepMain, hm, hr])
    (isProgress_of_main (by
      rw [enterJoinHasher_eq, hm]
      exact (joinTarget_succ_ne _ _ _ _).2.symm))

theorem canProgress_joinJanitor {cfg : Cfg} {s : State} {e : Option Exc} (hm : s.main = .joinJanitor e)
    (hr : s.jan.running = false) : canProgress cfg s = true :=
  canProgress_of_main (s' := finishWith s e) (by simp [stepMain, hm, hr])
    (isProgress_of_main (by rw [finishWith_eq, hm]; simp))

theorem canProgress_collect {cfg : Cfg} {s : State} (hA : InvA cfg s) (hm : s.main = .collect)
    (hq : s.hq ≠ []) : canProgress cfg s = true := by
  cases hhq : s.hq with
  | nil => exact absurd hhq hq
  | cons x rest =>
    cases x with
    | none =>
      exact canProgress_of_main (s' := { s with hq := rest, main := .joinReaderChk none })
        (by simp [stepMain, hm, hhq]) (isProgress_of_main (by simp [hm]))
    | some k =>
      refine canProgress_of_main (stepMain_collect hm hhq (hA.not_seen hhq)) (isProgress_of_hq ?_)
      have : (collectNext cfg s k rest).hq = rest := by
        unfold collectNext collectItem; (repeat' split) <;> rfl
      rw [this, hhq]
      intro h
      have := congrArg List.length h
      simp at this

end Torf.Pipeline
