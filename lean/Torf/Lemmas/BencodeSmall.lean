/-
  Whatever `flatbencode.decode` returns under the digit limit `lim` only contains numerals that
  can be rendered within `lim` digits again: `parse lim bs = some v → small lim v`.
-/
import Torf.Lemmas.BencodeNorm
namespace Torf.Bencode

theorem spanDigits_all (s : Bytes) : ∀ c ∈ (spanDigits s).1, isDigit c = true := by
  induction s with
  | nil => simp [spanDigits]
  | cons a t ih =>
    simp only [spanDigits]
    split
    · rename_i ha
      intro c hc
      rcases List.mem_cons.mp hc with rfl | hc
      · exact ha
      · exact ih c hc
    · simp

theorem decNat_step_length (acc r : Nat) (hr : r < 10) :
    (decNat (acc * 10 + r)).length ≤ (decNat acc).length + 1 := by
  by_cases h0 : acc = 0
  · subst h0; rw [decNat_lt _ (by omega)]; simp
  · rw [decNat_ge _ (by omega)]
    have : (acc * 10 + r) / 10 = acc := by omega
    rw [this]; simp

theorem digit_val_lt (d : UInt8) (h : isDigit d = true) : d.toNat - 48 < 10 := by
  simp only [isDigit, Bool.and_eq_true, decide_eq_true_eq] at h; omega

theorem decNat_foldl_length (ds : Bytes) (hd : ∀ c ∈ ds, isDigit c = true) (acc : Nat) :
    (decNat (ds.foldl (fun a d => a * 10 + (d.toNat - 48)) acc)).length ≤
      (decNat acc).length + ds.length := by
  induction ds generalizing acc with
  | nil => simp
  | cons d t ih =>
    simp only [List.foldl_cons, List.length_cons]
    have h1 := ih (fun c hc => hd c (List.mem_cons_of_mem _ hc)) (acc * 10 + (d.toNat - 48))
    have h2 := decNat_step_length acc (d.toNat - 48) (digit_val_lt d (hd d List.mem_cons_self))
    omega

/-- the minimal rendering of the value of a digit string is not longer than the string -/
theorem decNat_valDigits_length (ds : Bytes) (hd : ∀ c ∈ ds, isDigit c = true) (hne : ds ≠ []) :
    (decNat (valDigits ds)).length ≤ ds.length := by
  cases ds with
  | nil => exact absurd rfl hne
  | cons d t =>
    simp only [valDigits, List.foldl_cons, List.length_cons, Nat.zero_mul, Nat.zero_add]
    have h1 := decNat_foldl_length t (fun c hc => hd c (List.mem_cons_of_mem _ hc)) (d.toNat - 48)
    rw [decNat_lt _ (digit_val_lt d (hd d List.mem_cons_self))] at h1
    simpa [Nat.add_comm] using h1

theorem readDigitsInt_small (lim : Nat) (neg : Bool) (s : Bytes) (n : Int) (r : Bytes)
    (h : readDigitsInt lim neg s = some (n, r)) : numDigits n ≤ lim := by
  unfold readDigitsInt at h
  dsimp only at h
  have hall := spanDigits_all s
  split at h
  · split at h
    · exact absurd h (by simp)
    · rename_i hne
      split at h
      · exact absurd h (by simp)
      · split at h
        · exact absurd h (by simp)
        · rename_i hlen
          split at h
          · exact absurd h (by simp)
          · simp only [Option.some.injEq, Prod.mk.injEq] at h
            have hne' : (spanDigits s).1 ≠ [] := by
              intro he; simp [he] at hne
            have hle := decNat_valDigits_length _ hall hne'
            have hn : n.natAbs = valDigits (spanDigits s).1 := by
              rw [← h.1]; split <;> simp
            simp only [numDigits, hn]
            omega
  · exact absurd h (by simp)

theorem readInteger_small (lim : Nat) (s : Bytes) (n : Int) (r : Bytes)
    (h : readInteger lim s = some (n, r)) : numDigits n ≤ lim := by
  unfold readInteger at h
  split at h
  · exact readDigitsInt_small _ _ _ _ _ h
  · exact readDigitsInt_small _ _ _ _ _ h

theorem readString_small (lim : Nat) (s : Bytes) (b r : Bytes)
    (h : readString lim s = some (b, r)) : (decNat b.length).length ≤ lim := by
  unfold readString at h
  dsimp only at h
  have hall := spanDigits_all s
  split at h
  · split at h
    · exact absurd h (by simp)
    · rename_i hne
      split at h
      · exact absurd h (by simp)
      · rename_i hlen
        split at h
        · exact absurd h (by simp)
        · rename_i hrest
          simp only [Option.some.injEq, Prod.mk.injEq] at h
          have hne' : (spanDigits s).1 ≠ [] := by
            intro he; simp [he] at hne
          have hle := decNat_valDigits_length _ hall hne'
          have hb : b.length = valDigits (spanDigits s).1 := by
            rw [← h.1, List.length_take]; omega
          rw [hb]; omega
  · exact absurd h (by simp)

/-! ### the stack only holds small values -/

def smallItem (lim : Nat) : Item → Bool
  | .val v => small lim v
  | _ => true

def SmallSt (lim : Nat) (st : List Item) : Prop := ∀ it ∈ st, smallItem lim it = true

theorem smallList_iff (lim : Nat) (l : List BVal) :
    smallList lim l = true ↔ ∀ v ∈ l, small lim v = true := by
  induction l with
  | nil => simp [smallList]
  | cons v t ih => simp [smallList, ih]

theorem mem_toPairs {a b : BVal} : ∀ {l : List BVal}, (a, b) ∈ toPairs l → a ∈ l ∧ b ∈ l
  | [], h => by simp [toPairs] at h
  | [_], h => by simp [toPairs] at h
  | x :: y :: t, h => by
    simp only [toPairs, List.mem_cons, Prod.mk.injEq] at h
    rcases h with ⟨rfl, rfl⟩ | h
    · simp
    · have := mem_toPairs h
      exact ⟨List.mem_cons_of_mem _ (List.mem_cons_of_mem _ this.1),
             List.mem_cons_of_mem _ (List.mem_cons_of_mem _ this.2)⟩

def entryOk (lim : Nat) (p : Bytes × BVal) : Prop :=
  (decNat p.1.length).length ≤ lim ∧ small lim p.2 = true

theorem mapM_bytesKey_small (lim : Nat) : ∀ (qs : List (BVal × BVal)) (ps : List (Bytes × BVal)),
    qs.mapM bytesKey = some ps → (∀ q ∈ qs, small lim q.1 = true ∧ small lim q.2 = true) →
    ∀ p ∈ ps, entryOk lim p
  | [], ps, h, _ => by
    simp only [List.mapM_nil, Option.pure_def, Option.some.injEq] at h; subst h; simp
  | q :: t, ps, h, hq => by
    simp only [List.mapM_cons, Option.bind_eq_bind, Option.pure_def] at h
    cases hb : bytesKey q with
    | none => simp [hb] at h
    | some p0 =>
      cases ht : t.mapM bytesKey with
      | none => simp [hb, ht] at h
      | some ps' =>
        simp only [hb, ht, Option.bind_some, Option.some.injEq] at h
        subst h
        intro p hp
        rcases List.mem_cons.mp hp with rfl | hp
        · obtain ⟨a, b⟩ := q
          have := hq (a, b) List.mem_cons_self
          cases a <;> simp only [bytesKey, Option.some.injEq] at hb <;> try exact absurd hb (by simp)
          subst hb
          exact ⟨by simpa [small] using this.1, this.2⟩
        · exact mapM_bytesKey_small lim t ps' ht (fun q hq' => hq q (List.mem_cons_of_mem _ hq')) p hp

theorem mem_dictSet_gen {k : Bytes} {w : BVal} {p : Bytes × BVal} : ∀ {l : List (Bytes × BVal)},
    p ∈ dictSet k w l → p ∈ l ∨ p = (k, w)
  | [], h => by simp [dictSet] at h; exact Or.inr h
  | (k', v') :: t, h => by
    simp only [dictSet] at h
    by_cases hk : k' = k
    · subst hk
      simp only [beq_self_eq_true, if_true, List.mem_cons] at h
      rcases h with h | h
      · exact Or.inr h
      · exact Or.inl (List.mem_cons_of_mem _ h)
    · have : (k' == k) = false := by simp [hk]
      simp only [this, Bool.false_eq_true, if_false, List.mem_cons] at h
      rcases h with h | h
      · exact Or.inl (h ▸ List.mem_cons_self)
      · rcases mem_dictSet_gen h with h | h
        · exact Or.inl (List.mem_cons_of_mem _ h)
        · exact Or.inr h

theorem foldl_dictSet_ok (lim : Nat) (ps : List (Bytes × BVal)) :
    ∀ (d : List (Bytes × BVal)), (∀ p ∈ ps, entryOk lim p) → (∀ p ∈ d, entryOk lim p) →
    ∀ p ∈ ps.foldl (fun d p => dictSet p.1 p.2 d) d, entryOk lim p := by
  induction ps with
  | nil => intro d _ hd; simpa using hd
  | cons q t ih =>
    intro d hps hd
    simp only [List.foldl_cons]
    apply ih
    · exact fun p hp => hps p (List.mem_cons_of_mem _ hp)
    · intro p hp
      rcases mem_dictSet_gen hp with hp | rfl
      · exact hd p hp
      · exact hps q List.mem_cons_self

theorem small_listToDict (lim : Nat) (l : List BVal) (d : BVal)
    (hl : ∀ v ∈ l, small lim v = true) (h : listToDict l = some d) : small lim d = true := by
  unfold listToDict at h
  split at h
  · exact absurd h (by simp)
  · rename_i ps hps
    simp only [Option.some.injEq] at h; subst h
    simp only [small]
    rw [smallKvs_iff]
    have hok := mapM_bytesKey_small lim _ ps hps (fun q hq => by
      obtain ⟨a, b⟩ := q
      have := mem_toPairs hq
      exact ⟨hl a this.1, hl b this.2⟩)
    exact foldl_dictSet_ok lim ps [] hok (by simp)

theorem popUntil_small (lim : Nat) : ∀ (st : List Item) (acc : List BVal) (elem : BVal)
    (st' : List Item), SmallSt lim st → (∀ v ∈ acc, small lim v = true) →
    popUntil st acc = some (elem, st') → small lim elem = true ∧ SmallSt lim st'
  | [], _, _, _, _, _, h => by simp [popUntil] at h
  | .lst :: st, acc, elem, st', hst, hacc, h => by
    simp only [popUntil, Option.some.injEq, Prod.mk.injEq] at h
    obtain ⟨rfl, rfl⟩ := h
    exact ⟨by simpa [small] using (smallList_iff lim acc).mpr hacc,
      fun it hit => hst it (List.mem_cons_of_mem _ hit)⟩
  | .dct :: st, acc, elem, st', hst, hacc, h => by
    simp only [popUntil, Option.map_eq_some_iff, Prod.mk.injEq] at h
    obtain ⟨d, hd, rfl, rfl⟩ := h
    exact ⟨small_listToDict lim acc d hacc hd, fun it hit => hst it (List.mem_cons_of_mem _ hit)⟩
  | .val x :: st, acc, elem, st', hst, hacc, h => by
    simp only [popUntil] at h
    refine popUntil_small lim st (x :: acc) elem st' (fun it hit => hst it (List.mem_cons_of_mem _ hit))
      ?_ h
    intro v hv
    rcases List.mem_cons.mp hv with rfl | hv
    · exact hst (.val v) List.mem_cons_self
    · exact hacc v hv

def GoodR (lim : Nat) : StepResult → Prop
  | .done (some v) => small lim v = true
  | .done none => True
  | .cont _ st' => SmallSt lim st'

theorem deliver_good (lim : Nat) (elem : BVal) (rest : Bytes) (st : List Item)
    (he : small lim elem = true) (hst : SmallSt lim st) : GoodR lim (deliver elem rest st) := by
  unfold deliver
  split
  · split
    · exact he
    · trivial
  · intro it hit
    rcases List.mem_cons.mp hit with rfl | hit
    · exact he
    · exact hst it hit

theorem step_good (lim : Nat) (inp : Bytes) (st : List Item) (hst : SmallSt lim st) :
    GoodR lim (step lim inp st) := by
  unfold step
  split
  · trivial
  · rename_i c rest
    split
    · split
      · trivial
      · rename_i elem st' hp
        obtain ⟨h1, h2⟩ := popUntil_small lim st [] elem st' hst (by simp) hp
        exact deliver_good lim elem rest st' h1 h2
    · split
      · split
        · trivial
        · rename_i n rest' hr
          exact deliver_good lim _ _ _ (by simpa [small] using readInteger_small lim _ _ _ hr) hst
      · split
        · intro it hit
          rcases List.mem_cons.mp hit with rfl | hit
          · rfl
          · exact hst it hit
        · split
          · intro it hit
            rcases List.mem_cons.mp hit with rfl | hit
            · rfl
            · exact hst it hit
          · split
            · trivial
            · rename_i b rest' hr
              exact deliver_good lim _ _ _ (by simpa [small] using readString_small lim _ _ _ hr) hst

theorem run_small (lim : Nat) : ∀ (f : Nat) (inp : Bytes) (st : List Item) (v : BVal),
    SmallSt lim st → run lim f inp st = some v → small lim v = true
  | 0, _, _, _, _, h => by simp [run] at h
  | f + 1, inp, st, v, hst, h => by
    have hg := step_good lim inp st hst
    simp only [run] at h
    split at h
    · rename_i r hr
      rw [hr] at hg
      subst h
      exact hg
    · rename_i rest st' hr
      rw [hr] at hg
      exact run_small lim f rest st' v hg h

/-- **everything the decoder returns is within the digit limit** -/
theorem parse_small (lim : Nat) (bs : Bytes) (v : BVal) (h : parse lim bs = some v) :
    small lim v = true :=
  run_small lim _ bs [] v (by intro it hit; simp at hit) h

end Torf.Bencode
