/-
  Lemmas about decimal numerals and the two token readers of the bencode model.
-/
import Torf.Model.Bencode
namespace Torf.Bencode

theorem toNat_digitByte (d : Nat) (h : d < 10) : (UInt8.ofNat (48 + d)).toNat = 48 + d := by
  simp only [UInt8.toNat_ofNat']; omega

theorem isDigit_digitByte (d : Nat) (h : d < 10) : isDigit (UInt8.ofNat (48 + d)) = true := by
  simp only [isDigit, toNat_digitByte d h, Bool.and_eq_true, decide_eq_true_eq]; omega

theorem decNat_lt (n : Nat) (h : n < 10) : decNat n = [UInt8.ofNat (48 + n)] := by
  rw [decNat]; simp [h]

theorem decNat_ge (n : Nat) (h : ¬ n < 10) :
    decNat n = decNat (n / 10) ++ [UInt8.ofNat (48 + n % 10)] := by
  rw [decNat]; simp [h]

theorem decNat_ne_nil (n : Nat) : decNat n ≠ [] := by
  by_cases h : n < 10
  · rw [decNat_lt n h]; simp
  · rw [decNat_ge n h]; simp

theorem decNat_allDigits (n : Nat) : ∀ c ∈ decNat n, isDigit c = true := by
  induction n using Nat.strongRecOn with
  | _ n ih =>
    by_cases h : n < 10
    · rw [decNat_lt n h]; intro c hc
      simp only [List.mem_singleton] at hc; subst hc; exact isDigit_digitByte n h
    · rw [decNat_ge n h]; intro c hc
      simp only [List.mem_append, List.mem_singleton] at hc
      rcases hc with hc | hc
      · exact ih (n / 10) (by omega) c hc
      · subst hc; exact isDigit_digitByte _ (by omega)

theorem valDigits_snoc (a : Bytes) (d : UInt8) :
    valDigits (a ++ [d]) = valDigits a * 10 + (d.toNat - 48) := by
  simp [valDigits, List.foldl_append]

theorem valDigits_decNat (n : Nat) : valDigits (decNat n) = n := by
  induction n using Nat.strongRecOn with
  | _ n ih =>
    by_cases h : n < 10
    · rw [decNat_lt n h]
      simp only [valDigits, List.foldl_cons, List.foldl_nil, toNat_digitByte n h]; omega
    · rw [decNat_ge n h, valDigits_snoc, ih (n / 10) (by omega), toNat_digitByte _ (by omega)]
      omega

/-- minimality: a leading `0` only for the numeral `0` itself -/
theorem decNat_head_zero (n : Nat) (h : (decNat n).head? = some 48) : n = 0 := by
  induction n using Nat.strongRecOn with
  | _ n ih =>
    by_cases hn : n < 10
    · rw [decNat_lt n hn] at h
      simp only [List.head?_cons, Option.some.injEq] at h
      have := congrArg UInt8.toNat h
      rw [toNat_digitByte n hn] at this
      simp at this; omega
    · rw [decNat_ge n hn] at h
      have hne := decNat_ne_nil (n / 10)
      have : (decNat (n / 10) ++ [UInt8.ofNat (48 + n % 10)]).head? = (decNat (n / 10)).head? := by
        cases hd : decNat (n / 10) with
        | nil => exact absurd hd hne
        | cons a t => simp
      rw [this] at h
      have := ih (n / 10) (by omega) h
      omega

theorem decNat_zero : decNat 0 = [48] := by rw [decNat_lt 0 (by omega)]; rfl

theorem decNat_inj (a b : Nat) (h : decNat a = decNat b) : a = b := by
  rw [← valDigits_decNat a, ← valDigits_decNat b, h]

/-! ### spanDigits -/

theorem spanDigits_append (ds : Bytes) (c : UInt8) (r : Bytes)
    (hd : ∀ x ∈ ds, isDigit x = true) (hc : isDigit c = false) :
    spanDigits (ds ++ c :: r) = (ds, c :: r) := by
  induction ds with
  | nil => simp [spanDigits, hc]
  | cons a t ih =>
    have ha : isDigit a = true := hd a (by simp)
    have := ih (fun x hx => hd x (by simp [hx]))
    simp only [List.cons_append, spanDigits, ha, if_true, this]

theorem spanDigits_length (s : Bytes) :
    (spanDigits s).1.length + (spanDigits s).2.length = s.length := by
  induction s with
  | nil => simp [spanDigits]
  | cons a t ih =>
    simp only [spanDigits]
    split
    · simp only [List.length_cons]; omega
    · simp

theorem isDigit_101 : isDigit 101 = false := by decide
theorem isDigit_58 : isDigit 58 = false := by decide

/-! ### the token readers on serialised tokens -/

theorem readDigitsInt_decNat (lim : Nat) (neg : Bool) (n : Nat) (rest : Bytes)
    (hl : (decNat n).length ≤ lim) (hz : ¬ (n = 0 ∧ neg = true)) :
    readDigitsInt lim neg (decNat n ++ 101 :: rest)
      = some (if neg then - (Int.ofNat n) else Int.ofNat n, rest) := by
  unfold readDigitsInt
  rw [spanDigits_append _ _ _ (decNat_allDigits n) isDigit_101]
  simp only
  have h1 : (decNat n).isEmpty = false := by
    cases hd : decNat n with
    | nil => exact absurd hd (decNat_ne_nil n)
    | cons a t => rfl
  have h2 : ((decNat n).head? == some 48 && decide ((decNat n).length > 1)) = false := by
    by_cases hh : (decNat n).head? = some 48
    · have := decNat_head_zero n hh
      subst this; rw [decNat_zero]; rfl
    · simp [hh]
  have h3 : ¬ (decNat n).length > lim := by omega
  have h4 : (n == 0 && neg) = false := by
    cases neg with
    | false => simp
    | true =>
      have : n ≠ 0 := fun h0 => hz ⟨h0, rfl⟩
      simp [this]
  simp only [h1, h2, h3, valDigits_decNat, h4, if_false, Bool.false_eq_true]

theorem decNat_head_ne_minus (n : Nat) : ∃ d t, decNat n = d :: t ∧ d ≠ 45 := by
  cases hd : decNat n with
  | nil => exact absurd hd (decNat_ne_nil n)
  | cons a t =>
    refine ⟨a, t, rfl, ?_⟩
    have := decNat_allDigits n a (by rw [hd]; simp)
    intro h45; subst h45; revert this; decide

theorem readInteger_decInt (lim : Nat) (i : Int) (rest : Bytes) (hl : numDigits i ≤ lim) :
    readInteger lim (decInt i ++ 101 :: rest) = some (i, rest) := by
  unfold decInt
  by_cases hi : i < 0
  · simp only [hi, if_true, List.cons_append, readInteger]
    rw [readDigitsInt_decNat lim true i.natAbs rest hl (by omega)]
    simp only [if_true, Int.ofNat_eq_natCast]
    congr 2; omega
  · simp only [hi, if_false]
    obtain ⟨d, t, hd, h45⟩ := decNat_head_ne_minus i.natAbs
    have : readInteger lim (decNat i.natAbs ++ 101 :: rest)
        = readDigitsInt lim false (decNat i.natAbs ++ 101 :: rest) := by
      rw [hd]; simp only [List.cons_append, readInteger]
      split
      · rename_i heq; simp only [List.cons.injEq] at heq; exact absurd heq.1 h45
      · rfl
    rw [this, readDigitsInt_decNat lim false i.natAbs rest hl (by simp)]
    simp only [Bool.false_eq_true, if_false, Int.ofNat_eq_natCast]
    congr 2; omega

theorem readString_serBytes (lim : Nat) (b rest : Bytes) (hl : (decNat b.length).length ≤ lim) :
    readString lim (serBytes b ++ rest) = some (b, rest) := by
  unfold readString serBytes
  rw [List.append_assoc, List.cons_append,
    spanDigits_append _ _ _ (decNat_allDigits _) isDigit_58]
  simp only
  have h1 : (decNat b.length).isEmpty = false := by
    cases hd : decNat b.length with
    | nil => exact absurd hd (decNat_ne_nil _)
    | cons a t => rfl
  have h3 : ¬ (decNat b.length).length > lim := by omega
  simp only [h1, h3, valDigits_decNat, List.length_append, if_false, Bool.false_eq_true]
  have h4 : ¬ (b.length + rest.length < b.length) := by omega
  simp only [h4, if_false, List.take_left', List.drop_left']

/-- a serialised byte string starts with a digit -/
theorem serBytes_head (b : Bytes) : ∃ d t, serBytes b = d :: t ∧ isDigit d = true := by
  unfold serBytes
  cases hd : decNat b.length with
  | nil => exact absurd hd (decNat_ne_nil _)
  | cons a t =>
    exact ⟨a, t ++ 58 :: b, by simp, decNat_allDigits b.length a (by rw [hd]; simp)⟩

/-! ### the readers only ever return a proper suffix -/

theorem readDigitsInt_length (lim : Nat) (neg : Bool) (s : Bytes) (n : Int) (r : Bytes)
    (h : readDigitsInt lim neg s = some (n, r)) : r.length < s.length := by
  unfold readDigitsInt at h
  dsimp only at h
  have hl := spanDigits_length s
  split at h
  · rename_i rest heq
    rw [heq] at hl
    simp only [List.length_cons] at hl
    iterate 4 (split at h; · exact absurd h (by simp))
    simp only [Option.some.injEq, Prod.mk.injEq] at h
    rw [← h.2]; omega
  · exact absurd h (by simp)

theorem readInteger_length (lim : Nat) (s : Bytes) (n : Int) (r : Bytes)
    (h : readInteger lim s = some (n, r)) : r.length < s.length := by
  unfold readInteger at h
  split at h
  · have := readDigitsInt_length _ _ _ _ _ h; simp only [List.length_cons]; omega
  · exact readDigitsInt_length _ _ _ _ _ h

theorem readString_length (lim : Nat) (s : Bytes) (b r : Bytes)
    (h : readString lim s = some (b, r)) : r.length < s.length := by
  unfold readString at h
  dsimp only at h
  have hl := spanDigits_length s
  split at h
  · rename_i rest heq
    rw [heq] at hl
    simp only [List.length_cons] at hl
    iterate 3 (split at h; · exact absurd h (by simp))
    simp only [Option.some.injEq, Prod.mk.injEq] at h
    rw [← h.2, List.length_drop]; omega
  · exact absurd h (by simp)

end Torf.Bencode
