/-
  Helper lemmas for C02 over the full alphabet of path states (part 6): a file that is bad on the
  projected disk owes exactly the error the classic model reports for it; the kinds of exception
  a run of data items can raise.
-/
import Torf.Lemmas.VerifyFsFault
namespace Torf.VerifyFs
open Torf Torf.Missing Torf.Verify

variable {α δ : Type} [Inhabited α] [DecidableEq δ]

omit [Inhabited α] in
/-- the data items before the first exception: nothing raised, or an internal / content error -/
theorem fold_data_kind (H : List α → δ) (L : Nat) (sizes : List Nat) (stored : List δ)
    (ps : List (List α)) (k : Nat) (acc : Acc δ) (h : acc.raised = none) :
    let acc' := ((ps.map dataItem).zipIdx k).foldl (collectItem H L sizes stored false) acc
    acc'.raised = none ∨ acc'.raised = some .internal ∨
      ∃ p fs, acc'.raised = some (.content p fs) := by
  induction ps generalizing k acc with
  | nil => left; simpa using h
  | cons p ps ih =>
    simp only [List.map_cons, List.zipIdx_cons, List.foldl_cons]
    obtain ⟨_, hmatch, _, hint, hcont, _⟩ := collectItem_data H L sizes stored false acc p k h
    cases hs : stored[k]? with
    | none =>
      right; left
      rw [fold_raised _ _ _ _ _ _ _ (by rw [hint hs]; rfl)]
      exact hint hs
    | some s =>
      by_cases heq : s = H p
      · exact ih (k + 1) _ (hmatch (by rw [hs, heq])).1
      · right; right
        refine ⟨k, corruptFiles L sizes k, ?_⟩
        rw [fold_raised _ _ _ _ _ _ _ (by rw [hcont s hs heq rfl]; rfl)]
        exact hcont s hs heq rfl

omit [Inhabited α] in
/-- a ReadError / VerifyFileSizeError about file `k` is the error that file owes -/
theorem owed_of_fileError [Inhabited α] (sizes : List Nat) (fd : List (FState α)) (k : Nat)
    (kind : ErrKind) (h : fileError sizes (mainDisk sizes fd) k = some kind) :
    ∃ o, owedAt sizes fd k = some o ∧ owedErr k o = excOf (k, kind) := by
  unfold fileError at h
  rw [getD_mainDisk] at h
  unfold owedAt owed
  cases hs : stateAt fd k with
  | file c =>
    rw [hs] at h
    by_cases hc : c.length = sizeOf sizes k
    · simp [mainView, statView, hc] at h
    · simp only [mainView, statView, hc, if_false, Option.some.injEq] at h
      subst h
      exact ⟨.size, by simp [hc], rfl⟩
  | gone e =>
    rw [hs] at h
    simp only [mainView, statView, Option.some.injEq] at h
    subst h
    exact ⟨.read e, rfl, rfl⟩
  | noOpen n e =>
    rw [hs] at h
    by_cases hn : n = sizeOf sizes k
    · simp only [mainView, hn, if_true, Option.some.injEq] at h
      subst h
      exact ⟨.read e, by simp [hn], rfl⟩
    · simp only [mainView, hn, if_false, List.length_replicate, Option.some.injEq] at h
      subst h
      exact ⟨.size, by simp [hn], rfl⟩
  | readErr c off e =>
    rw [hs] at h
    by_cases hc : c.length = sizeOf sizes k
    · simp [mainView, statView, hc] at h
    · simp only [mainView, statView, hc, if_false, Option.some.injEq] at h
      subst h
      exact ⟨.size, by simp [hc], rfl⟩

omit [Inhabited α] in
theorem owed_of_badFiles [Inhabited α] (sizes : List Nat) (fd : List (FState α))
    (x : Nat × ErrKind) (h : x ∈ badFiles sizes (mainDisk sizes fd)) :
    x.1 < sizes.length ∧ ∃ o, owedAt sizes fd x.1 = some o ∧ owedErr x.1 o = excOf x := by
  unfold badFiles at h
  obtain ⟨k, hk, hx⟩ := List.mem_filterMap.mp h
  cases hf : fileError sizes (mainDisk sizes fd) k with
  | none => simp [hf] at hx
  | some kind =>
    simp only [hf, Option.map_some, Option.some.injEq] at hx
    subst hx
    exact ⟨List.mem_range.mp hk, owed_of_fileError sizes fd k kind hf⟩

omit [Inhabited α] in
theorem owed_of_readFails (sizes : List Nat) (fd : List (FState α)) (j e : Nat)
    (h : ReadFails sizes fd j e) : owedAt sizes fd j = some (.read e) := by
  obtain ⟨c, off, hs, hc, hoff⟩ := h
  unfold owedAt owed
  rw [hs]
  simp only [hc, if_true]
  rw [hc] at hoff
  simp [hoff]

end Torf.VerifyFs
