/-
  Helper lemmas relating the code-shaped stream model to `chunks`.
-/
import Torf.Model.Stream
namespace Torf.Stream
open Torf

theorem readLoop_eq_chunks (L : Nat) (hL : 0 < L) (fuel : Nat) (rest : List α)
    (hf : rest.length < fuel) : readLoop L fuel rest = chunks L rest := by
  induction fuel generalizing rest with
  | zero => omega
  | succ fuel ih =>
    unfold readLoop
    by_cases hne : rest = []
    · subst hne; simp
    · have hpos : 0 < rest.length := List.length_pos_iff.mpr hne
      have htake : (rest.take L).isEmpty = false := by
        cases hr : rest with
        | nil => exact absurd hr hne
        | cons a t =>
          cases hl : L with
          | zero => omega
          | succ l => simp
      simp only [htake]
      rw [chunks_cons_of_ne L hL rest hne]
      have : (rest.drop L).length < fuel := by simp only [List.length_drop]; omega
      rw [ih _ this]
      simp

/-- the prepend loop yields the full chunks of `pre` and leaves the short tail -/
theorem prependLoop_spec (L : Nat) (hL : 0 < L) (fuel : Nat) (pre : List α)
    (hf : pre.length < fuel) (ys : List α) :
    let r := prependLoop L fuel pre
    r.2.length < L ∧ chunks L (pre ++ ys) = r.1 ++ chunks L (r.2 ++ ys) := by
  induction fuel generalizing pre with
  | zero => omega
  | succ fuel ih =>
    unfold prependLoop
    by_cases hne : pre = []
    · subst hne; simp [hL]
    · have hemp : pre.isEmpty = false := by
        cases pre with
        | nil => exact absurd rfl hne
        | cons _ _ => rfl
      simp only [hemp]
      by_cases hfull : (pre.take L).length = L
      · simp only [hfull, if_true]
        have hle : L ≤ pre.length := by
          rw [List.length_take] at hfull; omega
        have hlt : (pre.drop L).length < fuel := by simp only [List.length_drop]; omega
        obtain ⟨h1, h2⟩ := ih (pre.drop L) hlt
        refine ⟨h1, ?_⟩
        have e : pre ++ ys = pre.take L ++ (pre.drop L ++ ys) := by
          rw [← List.append_assoc, List.take_append_drop]
        rw [e, chunks_append_full L hL _ _ hfull, h2]
        simp
      · simp only [hfull, if_false]
        have hlt : pre.length < L := by
          rw [List.length_take] at hfull; omega
        have ht : pre.take L = pre := List.take_of_length_le (by omega)
        rw [ht]
        exact ⟨hlt, by simp⟩

theorem iterFromHandle_eq_chunks (L : Nat) (hL : 0 < L) (prepend content : List α) :
    iterFromHandle L prepend content = chunks L (prepend ++ content) := by
  unfold iterFromHandle
  obtain ⟨h1, h2⟩ := prependLoop_spec L hL (prepend.length + 1) prepend (by omega) content
  simp only at h1 h2 ⊢
  rw [h2]
  generalize (prependLoop L (prepend.length + 1) prepend) = r at h1 h2 ⊢
  by_cases hp : r.2 = []
  · simp only [hp, List.isEmpty_nil, if_true, List.nil_append]
    rw [readLoop_eq_chunks L hL _ _ (by omega)]
  · have hemp : r.2.isEmpty = false := by
      cases hr : r.2 with
      | nil => exact absurd hr hp
      | cons _ _ => rfl
    simp only [hemp, Bool.false_eq_true, if_false]
    have hne : r.2 ++ content ≠ [] := by simp [hp]
    rw [chunks_cons_of_ne L hL _ hne]
    rw [readLoop_eq_chunks L hL _ _ (Nat.lt_succ_self _)]
    have ht : (r.2 ++ content).take L = r.2 ++ content.take (L - r.2.length) := by
      rw [List.take_append]
      rw [List.take_of_length_le (by omega)]
    have hd : (r.2 ++ content).drop L = content.drop (L - r.2.length) := by
      rw [List.drop_append]
      rw [List.drop_eq_nil_of_le (by omega)]
      simp
    rw [ht, hd]

/-- the consumer splits `chunks L xs` into the full pieces (yielded) and a short tail (carried) -/
theorem consume_chunks (L : Nat) (hL : 0 < L) (xs : List α) (out : List (List α)) :
    consume L out (chunks L xs) =
      (xs.drop (xs.length / L * L), out ++ chunks L (xs.take (xs.length / L * L))) := by
  induction h : xs.length using Nat.strongRecOn generalizing xs out with
  | _ n ih =>
    subst h
    by_cases hne : xs = []
    · subst hne; simp [consume]
    · rw [chunks_cons_of_ne L hL xs hne]
      have hpos : 0 < xs.length := List.length_pos_iff.mpr hne
      by_cases hfull : L ≤ xs.length
      · have hl : (xs.take L).length = L := by rw [List.length_take]; omega
        have hlt : (xs.drop L).length < xs.length := by simp only [List.length_drop]; omega
        have hrec := ih _ hlt (xs.drop L) (out ++ [xs.take L]) rfl
        have hdiv : xs.length / L = (xs.length - L) / L + 1 := by
          rw [Nat.div_eq xs.length L]; simp [hL, hfull]
        simp only [consume, List.foldl_cons, hl, if_true] at hrec ⊢
        rw [hrec]
        simp only [List.length_drop, List.drop_drop]
        rw [hdiv]
        have e1 : ((xs.length - L) / L + 1) * L = L + (xs.length - L) / L * L := by
          rw [Nat.succ_mul, Nat.add_comm]
        rw [e1]
        congr 1
        rw [List.append_assoc]
        congr 1
        have e2 : xs.take (L + (xs.length - L) / L * L)
            = xs.take L ++ (xs.drop L).take ((xs.length - L) / L * L) := by
          rw [List.take_add]
        rw [e2, chunks_append_full L hL _ _ hl]
        rfl
      · have hlt : xs.length < L := by omega
        have ht : xs.take L = xs := List.take_of_length_le (by omega)
        have hd : xs.drop L = [] := List.drop_eq_nil_of_le (by omega)
        rw [ht, hd, chunks_nil]
        have hl : ¬ xs.length = L := by omega
        have hdiv : xs.length / L = 0 := Nat.div_eq_of_lt hlt
        simp only [consume, List.foldl_cons, hl, if_false, List.foldl_nil, hdiv]
        simp

/-- loop invariant of `for file in files` -/
theorem fold_inv (L : Nat) (hL : 0 < L) (files : List (List α)) (st : List α × List (List α))
    (hst : st.1.length < L) :
    let st' := files.foldl (fileStep L) st
    st'.1.length < L ∧ st'.2 ++ chunks L st'.1 = st.2 ++ chunks L (st.1 ++ files.flatten) := by
  induction files generalizing st with
  | nil => simp [hst]
  | cons f fs ih =>
    simp only [List.foldl_cons, List.flatten_cons]
    have hfs : fileStep L st f =
        ((st.1 ++ f).drop ((st.1 ++ f).length / L * L),
          st.2 ++ chunks L ((st.1 ++ f).take ((st.1 ++ f).length / L * L))) := by
      unfold fileStep; rw [iterFromHandle_eq_chunks L hL, consume_chunks L hL]
    have hlt : (fileStep L st f).1.length < L := by
      rw [hfs]
      simp only [List.length_drop]
      have := Nat.mod_lt (st.1 ++ f).length hL
      have h2 := Nat.div_add_mod (st.1 ++ f).length L
      rw [Nat.mul_comm] at h2
      omega
    obtain ⟨h1, h2⟩ := ih (fileStep L st f) hlt
    refine ⟨h1, ?_⟩
    rw [h2, hfs]
    simp only
    rw [List.append_assoc, ← List.append_assoc st.1 f fs.flatten]
    generalize st.1 ++ f = d
    have hd : d ++ fs.flatten
        = d.take (d.length / L * L) ++ (d.drop (d.length / L * L) ++ fs.flatten) := by
      rw [← List.append_assoc, List.take_append_drop]
    conv => rhs; rw [hd]
    have hlen : (d.take (d.length / L * L)).length = d.length / L * L := by
      rw [List.length_take]
      have := Nat.div_mul_le_self d.length L
      omega
    rw [chunks_append_of_dvd L hL (d.take (d.length / L * L)) _ (d.length / L) hlen]

theorem iterPieces_eq_chunks (L : Nat) (hL : 0 < L) (files : List (List α)) :
    iterPieces L files = chunks L files.flatten := by
  have := fold_inv L hL files ([], []) (by simpa using hL)
  simp only [List.nil_append] at this
  obtain ⟨h1, h2⟩ := this
  unfold iterPieces
  simp only
  generalize files.foldl (fileStep L) ([], []) = st at h1 h2 ⊢
  by_cases h : st.1 = []
  · rw [h, chunks_nil] at h2; simp only [h, List.isEmpty_nil, if_true]; simpa using h2
  · have hemp : st.1.isEmpty = false := by
      cases hs : st.1 with
      | nil => exact absurd hs h
      | cons _ _ => rfl
    rw [chunks_short L _ h (Nat.le_of_lt h1) hL] at h2
    simp only [hemp]
    exact h2

end Torf.Stream
