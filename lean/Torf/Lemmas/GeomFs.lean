/-
  Torf.Lemmas.GeomFs — `get_piece` through a file system (`Torf.Model.GeometryFs`): when the
  operating system finds every file under the spelling the code opens, the piece is the arithmetic
  slice; when it finds none, every valid index ends with that error.
-/
import Torf.Model.GeometryFs
import Torf.Lemmas.GeomScan
import Torf.Lemmas.GeomPiece
import Torf.Lemmas.ReuseSearch
namespace Torf.GeomLemmas
open Torf Torf.Geometry
open Torf.Paths (PPath)

/-- the parameterised `get_piece` is the model of C11 when the read loop is the list-based one -/
theorem getPiece_eq_with (files : List (List α)) (L : Nat) (hp : Bool) (i : Int) :
    getPiece files L hp i = getPieceWith (readLoop files hp) (files.map List.length) L i := rfl

theorem mem_relevant_lt (sizes : List Nat) (a b : Int) (rel : List Nat)
    (h : getFilesAtByteRange sizes a b = .ok rel) : ∀ j ∈ rel, j < sizes.length := by
  unfold getFilesAtByteRange at h
  by_cases hab : a ≤ b
  · rw [if_pos hab] at h
    injection h with h
    subst h
    intro j hj
    rw [byteRangeLoop_eq] at hj
    simpa using (List.mem_filter.mp hj).1
  · rw [if_neg hab] at h
    cases h

theorem readLoopVia_eq (look : Nat → Res (List α)) (files : List (List α)) :
    ∀ (rel : List Nat) (s : Int) (n : Nat), (∀ j ∈ rel, look j = .ok (files.getD j [])) →
      readLoopVia look rel s n = readLoop files true rel s n := by
  intro rel
  induction rel with
  | nil => intro s n _; rfl
  | cons j rest ih =>
    intro s n h
    have hj := h j (by simp)
    have ih' := fun s n => ih s n (fun k hk => h k (by simp [hk]))
    unfold readLoopVia readLoop
    rw [hj]
    by_cases hs : s < 0
    · simp [hs]
    · simp only [hs, if_false, Bool.not_true, Bool.false_eq_true]
      rw [ih']
      cases readLoop files true rest 0 (n - (List.take n (List.drop s.toNat (files.getD j []))).length) <;> rfl

theorem readLoopVia_none (look : Nat → Res (List α)) (e : Err) (j : Nat) (rest : List Nat) (s : Int)
    (n : Nat) (h : look j = .error e) : readLoopVia look (j :: rest) s n = .error e := by
  unfold readLoopVia
  rw [h]

theorem getPieceVia_oor (look : Nat → Res (List α)) (files : List (List α)) (L : Nat) (i : Int)
    (hL : 0 < L) (hv : ¬ GeomSpec.validPiece (files.map List.length) L i = true) :
    getPieceVia look (files.map List.length) L i = .error .value := by
  simp only [getPieceVia, getPieceWith, range_check _ L i hL, hv]
  rfl

/-- every file is found with the expected bytes ⇒ the piece is the arithmetic slice -/
theorem getPieceVia_sees (look : Nat → Res (List α)) (files : List (List α)) (L : Nat) (i : Int)
    (hL : 0 < L) (hne : NoEmptyFiles files) (hsee : SeesFiles look files) :
    getPieceVia look (files.map List.length) L i = GeomSpec.piece files L i := by
  rw [← getPiece_spec files L i hL hne]
  by_cases hv : GeomSpec.validPiece (files.map List.length) L i = true
  · obtain ⟨hi, hlt⟩ := (validPiece_iff files L i).mp hv
    obtain ⟨rel, st, _, h1, h2, _⟩ := getPiece_core files L i hL hne hi hlt
    have hmem := mem_relevant_lt _ _ _ rel h1
    have hrd : readLoopVia look rel st L = readLoop files true rel st L :=
      readLoopVia_eq look files rel st L (fun j hj => hsee j (by simpa using hmem j hj))
    rw [getPiece_eq_with]
    simp only [getPieceVia, getPieceWith, range_check _ L i hL, hv, h1, h2, bind, Except.bind, hrd]
  · rw [getPieceVia_oor look files L i hL hv, getPiece_oor files L true i hL hv]

/-- no file is found ⇒ a valid index ends with the error of the first attempt, an invalid one
    with ValueError (the range check comes first) -/
theorem getPieceVia_none (look : Nat → Res (List α)) (files : List (List α)) (L : Nat) (i : Int)
    (e : Err) (hL : 0 < L) (hne : NoEmptyFiles files) (hnone : SeesNone look files.length e) :
    getPieceVia look (files.map List.length) L i =
      if GeomSpec.validPiece (files.map List.length) L i then .error e else .error .value := by
  by_cases hv : GeomSpec.validPiece (files.map List.length) L i = true
  · obtain ⟨hi, hlt⟩ := (validPiece_iff files L i).mp hv
    obtain ⟨rel, st, hrel, h1, h2, _⟩ := getPiece_core files L i hL hne hi hlt
    have hmem := mem_relevant_lt _ _ _ rel h1
    obtain ⟨j, rest, rfl⟩ := List.exists_cons_of_ne_nil hrel
    have hj : look j = .error e := hnone j (by simpa using hmem j (by simp))
    simp only [getPieceVia, getPieceWith, range_check _ L i hL, hv, h1, h2, bind, Except.bind,
      readLoopVia_none look e j rest st L hj]
    rfl
  · rw [getPieceVia_oor look files L i hL hv]
    simp [hv]

/-- on a disk whose inodes record the true sizes, a file that opens with the expected bytes also
    passes the size check -/
theorem lookFs_ok (d : Disk α) (pathOf : Nat → PPath) (sizes : List Nat) (j : Nat) (b : List α)
    (hsz : d.SizesAgree) (ho : openRead d (pathOf j) = .ok b) (hlen : b.length = sizes.getD j 0) :
    lookFs d pathOf sizes j = .ok b := by
  unfold lookFs
  simp only [ho, bind, Except.bind]
  unfold openRead at ho
  unfold Reuse.getsize
  cases hr : Reuse.resolve d.world (pathOf j) with
  | error e => simp [hr] at ho
  | ok loc =>
    cases loc with
    | dir st => simp [hr] at ho
    | file ino =>
      simp only [hr] at ho
      have hfs : d.world.fs = d.fs := rfl
      rw [hfs]
      cases hn : d.fs[ino]? with
      | none => simp [hn] at ho
      | some nd =>
        cases nd with
        | dir _ _ _ => simp [hn] at ho
        | link _ => simp [hn] at ho
        | file sz r cid =>
          cases r with
          | false => simp [hn] at ho
          | true =>
            simp only [hn, Except.ok.injEq] at ho
            have := hsz ino sz true cid hn
            have hsz' : sz = sizes[j]?.getD 0 := by
              have : sz = sizes.getD j 0 := by rw [← hlen, ← ho, this]
              simpa using this
            subst hsz'
            simp [hn, pure, Except.pure]

theorem lookFs_err (d : Disk α) (pathOf : Nat → PPath) (sizes : List Nat) (j : Nat) (e : Err)
    (ho : openRead d (pathOf j) = .error e) : lookFs d pathOf sizes j = .error e := by
  unfold lookFs
  simp only [ho, bind, Except.bind]



/-! ### pathlib's form of a spelling leads where the spelling leads

`type(file)(os.path.join(…))` drops empty and `.` components.  For the operating system that makes
no difference as long as a component that is looked up follows (a file name does): an empty
component is skipped, and `.` demands of the directory reached so far exactly what the next lookup
in that directory demands (being a directory, search permission). -/

namespace Thinning
open Torf.Reuse

/-- `cs'` is `cs` without some empty / `.` components, each of them followed in `cs'` by a
    component that is looked up -/
inductive Thin : List String → List String → Prop
  | nil : Thin [] []
  | keep (c : String) {cs' cs : List String} : Thin cs' cs → Thin (c :: cs') (c :: cs)
  | dropEmpty {cs' cs : List String} : Thin cs' cs → cs' ≠ [] → Thin cs' ("" :: cs)
  | dropDot {cs' cs : List String} : Thin cs' cs → (cs'.any (· != "")) = true → Thin cs' ("." :: cs)

theorem thin_nil_iff {cs' cs : List String} (h : Thin cs' cs) : cs' = [] ↔ cs = [] := by
  cases h with
  | nil => simp
  | keep c _ => simp
  | dropEmpty _ hne => simp [hne]
  | dropDot _ hany =>
    constructor
    · intro h0; rw [h0] at hany; simp at hany
    · intro h0; cases h0

theorem thin_any {cs' cs : List String} (h : Thin cs' cs) :
    (cs'.any (· != "")) = true → (cs.any (· != "")) = true := by
  induction h with
  | nil => intro h; exact h
  | keep c _ ih =>
    intro h
    simp only [List.any_cons, Bool.or_eq_true] at h ⊢
    rcases h with h | h
    · exact Or.inl h
    · exact Or.inr (ih h)
  | dropEmpty _ _ ih => intro h; simp only [List.any_cons, Bool.or_eq_true]; exact Or.inr (ih h)
  | dropDot _ _ ih => intro h; simp only [List.any_cons, Bool.or_eq_true]; exact Or.inr (ih h)

theorem thin_prepend (p : List String) {r' r : List String} (h : Thin r' r) : Thin (p ++ r') (p ++ r) := by
  induction p with
  | nil => exact h
  | cons c p ih => exact Thin.keep c ih

theorem walk1_empty (fs : FS) (st : List Nat) (cs : List String) :
    walk1 fs st ("" :: cs) = walk1 fs st cs := by
  rw [walk1.eq_2]; simp

/-- `.` in front of components of which one is looked up changes nothing -/
theorem walk1_dot (fs : FS) (st : List Nat) : ∀ cs : List String, (cs.any (· != "")) = true →
    walk1 fs st ("." :: cs) = walk1 fs st cs := by
  have hd : (("." : String) == "") = false := by decide
  have hdd : (("." : String) == ".") = true := by decide
  -- `.` in front of anything: either the directory can be searched and the walk goes on, or it ends here
  have hstep : ∀ rest : List String, walk1 fs st ("." :: rest) =
      match fs[curIno st]? with
      | some (.dir _ x _) => if !x then .err .acces else walk1 fs st rest
      | _ => .err .notdir := by
    intro rest
    rw [walk1.eq_2]
    simp only [hd, Bool.false_eq_true, if_false, hdd, if_true]
    cases fs[curIno st]? with
    | none => rfl
    | some nd => cases nd <;> rfl
  intro cs
  induction cs with
  | nil => intro h; simp at h
  | cons c cs ih =>
    intro h
    by_cases hc : (c == "") = true
    · have hce : c = "" := by simpa using hc
      subst hce
      have h' : (cs.any (· != "")) = true := by simpa using h
      rw [walk1_empty, ← ih h', hstep ("" :: cs), hstep cs, walk1_empty]
    · rw [hstep]
      cases hn : fs[curIno st]? with
      | none => rw [walk1.eq_2]; simp [hc, hn]
      | some nd =>
        cases nd with
        | file _ _ _ => rw [walk1.eq_2]; simp [hc, hn]
        | link _ => rw [walk1.eq_2]; simp [hc, hn]
        | dir r x es =>
          by_cases hx : x = true
          · simp [hx]
          · rw [walk1.eq_2]; simp [hc, hn, hx]

/-- the two walks end alike; if they stop at a symbolic link, what is left is thinned again -/
def WalkRel : Walk → Walk → Prop
  | .done l, .done l' => l = l'
  | .err e, .err e' => e = e'
  | .follow s t r', .follow s2 t2 r => s = s2 ∧ t = t2 ∧ Thin r' r
  | _, _ => False

theorem walkRel_refl_done (l : Loc) : WalkRel (.done l) (.done l) := rfl
theorem walkRel_refl_err (e : OsErr) : WalkRel (.err e) (.err e) := rfl

theorem walk1_thin (fs : FS) {cs' cs : List String} (h : Thin cs' cs) :
    ∀ st, WalkRel (walk1 fs st cs') (walk1 fs st cs) := by
  induction h with
  | nil => intro st; simp [walk1, WalkRel]
  | @keep c cs' cs hth ih =>
    intro st
    rw [walk1.eq_2, walk1.eq_2 fs st c cs]
    by_cases hc : (c == "") = true
    · simp only [hc, if_true]; exact ih st
    · simp only [hc, Bool.false_eq_true, if_false]
      cases fs[curIno st]? with
      | none => exact walkRel_refl_err _
      | some nd =>
        cases nd with
        | file _ _ _ => exact walkRel_refl_err _
        | link _ => exact walkRel_refl_err _
        | dir r x es =>
          simp only
          by_cases hx : x = true
          · simp only [hx, Bool.not_true, Bool.false_eq_true, if_false]
            by_cases hd : (c == ".") = true
            · simp only [hd, if_true]; exact ih st
            · simp only [hd, Bool.false_eq_true, if_false]
              by_cases hdd : (c == "..") = true
              · simp only [hdd, if_true]; exact ih st.tail
              · simp only [hdd, Bool.false_eq_true, if_false]
                cases es.lookup c with
                | none => exact walkRel_refl_err _
                | some ino =>
                  simp only
                  cases fs[ino]? with
                  | none => exact walkRel_refl_err _
                  | some nd2 =>
                    cases nd2 with
                    | dir _ _ _ => exact ih (ino :: st)
                    | link t => exact ⟨rfl, rfl, hth⟩
                    | file _ _ _ =>
                      simp only
                      have hiff := thin_nil_iff hth
                      by_cases he : cs = []
                      · have he' : cs' = [] := hiff.mpr he
                        subst he; subst he'
                        exact walkRel_refl_done _
                      · have he' : cs' ≠ [] := fun h0 => he (hiff.mp h0)
                        have e1 : cs.isEmpty = false := by simpa using he
                        have e2 : cs'.isEmpty = false := by simpa using he'
                        simp only [e1, e2, Bool.false_eq_true, if_false]
                        exact walkRel_refl_err _
          · simp only [hx, Bool.not_false, if_true]
            exact walkRel_refl_err _
  | dropEmpty _ _ ih => intro st; rw [walk1_empty]; exact ih st
  | dropDot hth hany ih => intro st; rw [walk1_dot fs st _ (thin_any hth hany)]; exact ih st

theorem walk_thin (fs : FS) : ∀ (n : Nat) (st : List Nat) {cs' cs : List String}, Thin cs' cs →
    walk fs n st cs' = walk fs n st cs := by
  intro n
  induction n with
  | zero =>
    intro st cs' cs h
    have hr := walk1_thin fs h st
    unfold walk
    cases h1 : walk1 fs st cs' <;> cases h2 : walk1 fs st cs <;> simp only [h1, h2, WalkRel] at hr
    · rw [hr]
    · rw [hr]
    · rfl
  | succ m ih =>
    intro st cs' cs h
    have hr := walk1_thin fs h st
    unfold walk
    cases h1 : walk1 fs st cs' <;> cases h2 : walk1 fs st cs <;> simp only [h1, h2, WalkRel] at hr
    · rw [hr]
    · rw [hr]
    · obtain ⟨rfl, rfl, hth⟩ := hr
      exact ih _ (thin_prepend _ hth)

def keepComp (c : String) : Bool := c != "" && c != "."

/-- a component list that ends in a component other than `` / `.` is thinned by pathlib's filter -/
theorem filter_thin : ∀ cs : List String, (∀ c, cs.getLast? = some c → keepComp c = true) →
    Thin (cs.filter keepComp) cs ∧ (cs ≠ [] → (cs.filter keepComp).any (· != "") = true) := by
  intro cs
  induction cs with
  | nil => intro _; exact ⟨Thin.nil, fun h => absurd rfl h⟩
  | cons c cs ih =>
    intro hl
    by_cases hcs : cs = []
    · subst hcs
      have hk : keepComp c = true := hl c rfl
      have hne : (c != "") = true := by
        unfold keepComp at hk; simp only [Bool.and_eq_true] at hk; exact hk.1
      simp only [List.filter_cons, hk, if_true, List.filter_nil]
      exact ⟨Thin.keep c Thin.nil, fun _ => by simp [hne]⟩
    · have hl' : ∀ d, cs.getLast? = some d → keepComp d = true := by
        intro d hd
        apply hl d
        rw [List.getLast?_cons_of_ne_nil hcs] at *
        exact hd
      obtain ⟨ih1, ih2⟩ := ih hl'
      have hany := ih2 hcs
      have hfne : cs.filter keepComp ≠ [] := by
        intro h0; rw [h0] at hany; simp at hany
      by_cases hk : keepComp c = true
      · simp only [List.filter_cons, hk, if_true]
        refine ⟨Thin.keep c ih1, fun _ => ?_⟩
        simp only [List.any_cons, Bool.or_eq_true]
        exact Or.inr hany
      · simp only [List.filter_cons, hk, Bool.false_eq_true, if_false]
        refine ⟨?_, fun _ => hany⟩
        unfold keepComp at hk
        by_cases he : c = ""
        · subst he; exact Thin.dropEmpty ih1 hfne
        · have hd : c = "." := by
            simp only [Bool.and_eq_true, bne_iff_ne, ne_eq, not_and, Decidable.not_not] at hk
            exact hk he
          subst hd; exact Thin.dropDot ih1 hany

end Thinning

/-- **pathlib's form of a spelling is resolved like the spelling itself**, provided the spelling
    ends in a component that is looked up (a file name) and is not the empty string -/
theorem resolve_pathlibNorm (w : Reuse.World) (p : PPath)
    (hlast : ∀ c, p.comps.getLast? = some c → (c != "" && c != ".") = true)
    (hhead : p.abs = true ∨ p.comps.headD "" ≠ "") (hne : p.comps ≠ []) :
    Reuse.resolve w (Paths.pathlibNorm p) = Reuse.resolve w p := by
  obtain ⟨hth, hany⟩ := Thinning.filter_thin p.comps hlast
  have hany := hany hne
  have hf : (Paths.pathlibNorm p).comps = p.comps.filter Thinning.keepComp := rfl
  have ha : (Paths.pathlibNorm p).abs = p.abs := rfl
  unfold Reuse.resolve
  rw [hf, ha]
  have g1 : ¬ ((!p.abs && p.comps.headD "" == "") = true) := by
    rcases hhead with h | h
    · simp [h]
    · cases hp : p.comps with
      | nil => simp [hp] at h
      | cons a as =>
        simp only [hp, List.headD_cons] at h ⊢
        simp [h]
  have g2 : ¬ ((!p.abs && (p.comps.filter Thinning.keepComp).headD "" == "") = true) := by
    rcases hhead with h | h
    · simp [h]
    · cases hfl : p.comps.filter Thinning.keepComp with
      | nil => rw [hfl] at hany; simp at hany
      | cons a as =>
        have hmem : a ∈ p.comps.filter Thinning.keepComp := by rw [hfl]; simp
        have hk := (List.mem_filter.mp hmem).2
        unfold Thinning.keepComp at hk
        simp only [Bool.and_eq_true, bne_iff_ne, ne_eq] at hk
        simp [hk.1]
  simp only [g1, g2, Bool.false_eq_true, if_false]
  exact Thinning.walk_thin w.fs _ _ hth

end Torf.GeomLemmas
