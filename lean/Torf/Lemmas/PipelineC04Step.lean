/-
  Torf.Lemmas.PipelineC04Step — main's transition relation for EVERY configuration (refused thread
  starts included), the step relation `StepG` built on it, and induction along a label sequence
  that starts in an arbitrary reachable state (C04's theorems speak about what can still happen
  *after* a cancellation / an exception / a read fault).
-/
import Torf.Lemmas.PipelineStep
namespace Torf.Pipeline

/-- one step of main, for every configuration: either a step of `MainStep` whose thread start (if
    it is one) is not refused, or one of the refused starts -/
inductive MainStepG (cfg : Cfg) (s : State) : State → Prop
  | ok {s' : State} (h : MainStep cfg s s')
      (hR : s.main = .startReader → Tid.reader ∉ cfg.refuse)
      (hH : ∀ i : Nat, s.main = .startHasher i → Tid.hasher i ∉ cfg.refuse)
      (hJ : s.main = .startJanitor → Tid.janitor ∉ cfg.refuse) : MainStepG cfg s s'
  | refReader (hm : s.main = .startReader) (hr : Tid.reader ∈ cfg.refuse) :
      MainStepG cfg s { s with rpc := .refused, main := .finished (.raised (.startRefused .reader)) }
  | refVital (hm : s.main = .startHasher 0) (hr : Tid.hasher 0 ∈ cfg.refuse) :
      MainStepG cfg s { s with hs := s.hs.set 0 .refused,
                               main := .finished (.raised (.startRefused (.hasher 0))) }
  | refHasherNext (i : Nat) (hm : s.main = .startHasher i) (h0 : i ≠ 0)
      (hr : Tid.hasher i ∈ cfg.refuse) (hi : i + 1 < cfg.N) :
      MainStepG cfg s { s with hs := s.hs.set i .refused, main := .startHasherChk (i + 1) }
  | refHasherLast (i : Nat) (hm : s.main = .startHasher i) (h0 : i ≠ 0)
      (hr : Tid.hasher i ∈ cfg.refuse) (hi : ¬ i + 1 < cfg.N) :
      MainStepG cfg s { s with hs := s.hs.set i .refused, main := .startJanitorChk }
  | refJanitor (hm : s.main = .startJanitor) (hr : Tid.janitor ∈ cfg.refuse) :
      MainStepG cfg s { s with jan := .refused, main := .finished (.raised (.startRefused .janitor)) }

theorem MainStepG.of_step {cfg : Cfg} {s s' : State} (hA : InvA cfg s)
    (hs : stepMain cfg s = some s') : MainStepG cfg s s' := by
  by_cases hc : s.main = .collect
  · refine .ok ?_ (by simp [hc]) (by simp [hc]) (by simp [hc])
    cases hq : s.hq with
    | nil => simp [stepMain, hc, hq] at hs
    | cons x rest =>
      cases x with
      | none =>
        simp only [stepMain, hc, hq, Option.some.injEq] at hs
        subst hs
        exact .collectClosed rest hc hq
      | some k =>
        have hk := hA.not_seen hq
        rw [stepMain_collect hc hq hk, Option.some.injEq] at hs
        subst hs
        unfold collectNext
        split
        · rename_i hr
          exact .collectRaise k rest hc hq hk hr
        · rename_i hr
          split
          · rename_i hcb; exact .collectPass k rest hc hq hk (by simpa using hr) hcb
          · rename_i hcb; exact .collectCancel k rest hc hq hk (by simpa using hr) hcb
          · rename_i hcb; exact .collectCbRaise k rest hc hq hk (by simpa using hr) hcb
  · unfold stepMain at hs
    simp only [List.contains_eq_mem, decide_eq_true_eq, afterReaderJoin,
      enterJoinHasher_eq, finishWith_eq, setHasher] at hs
    split at hs
    case h_7 hm => exact absurd hm hc
    case h_1 hm =>
      simp only [Option.some.injEq] at hs; subst hs
      exact .ok (.startReaderChk hm) (by simp [hm]) (by simp [hm]) (by simp [hm])
    case h_2 hm =>
      split at hs <;> (simp only [Option.some.injEq] at hs; subst hs)
      · rename_i hr; exact .refReader hm hr
      · rename_i hr; exact .ok (.startReader hm) (fun _ => hr) (by simp [hm]) (by simp [hm])
    case h_3 i hm =>
      simp only [Option.some.injEq] at hs; subst hs
      exact .ok (.startHasherChk i hm) (by simp [hm]) (by simp [hm]) (by simp [hm])
    case h_4 i hm =>
      split at hs
      · rename_i hr
        split at hs
        · rename_i h0
          simp only [Option.some.injEq] at hs; subst hs; subst h0
          exact .refVital hm hr
        · rename_i h0
          simp only [Option.some.injEq] at hs; subst hs
          by_cases hi : i + 1 < cfg.N
          · simp only [hi, ↓reduceIte]; exact .refHasherNext i hm h0 hr hi
          · simp only [hi, ↓reduceIte]; exact .refHasherLast i hm h0 hr hi
      · rename_i hr
        simp only [Option.some.injEq] at hs; subst hs
        have hH : ∀ j : Nat, s.main = .startHasher j → Tid.hasher j ∉ cfg.refuse := by
          intro j hj; rw [hm] at hj; cases hj; exact hr
        by_cases hi : i + 1 < cfg.N
        · simp only [hi, ↓reduceIte]
          exact .ok (.startHasherNext i hm hi) (by simp [hm]) hH (by simp [hm])
        · simp only [hi, ↓reduceIte]
          exact .ok (.startHasherLast i hm hi) (by simp [hm]) hH (by simp [hm])
    case h_5 hm =>
      simp only [Option.some.injEq] at hs; subst hs
      exact .ok (.startJanitorChk hm) (by simp [hm]) (by simp [hm]) (by simp [hm])
    case h_6 hm =>
      split at hs <;> (simp only [Option.some.injEq] at hs; subst hs)
      · rename_i hr; exact .refJanitor hm hr
      · rename_i hr; exact .ok (.startJanitor hm) (by simp [hm]) (by simp [hm]) (fun _ => hr)
    case h_8 e hm =>
      split at hs <;> (simp only [Option.some.injEq] at hs; subst hs)
      · rename_i hr
        exact .ok (.joinReaderChkRun e hm hr) (by simp [hm]) (by simp [hm]) (by simp [hm])
      · rename_i hr
        exact .ok (.joinReaderSkip e hm (by simpa using hr)) (by simp [hm]) (by simp [hm]) (by simp [hm])
    case h_9 e hm =>
      split at hs
      · simp at hs
      · rename_i hr
        simp only [Option.some.injEq] at hs; subst hs
        exact .ok (.joinReaderDone e hm (by simpa using hr)) (by simp [hm]) (by simp [hm]) (by simp [hm])
    case h_10 h idx e hm =>
      split at hs <;> (simp only [Option.some.injEq] at hs; subst hs)
      · rename_i hr
        exact .ok (.joinHasherChkRun h idx e hm hr) (by simp [hm]) (by simp [hm]) (by simp [hm])
      · rename_i hr
        exact .ok (.joinHasherSkip h idx e hm (by simpa using hr)) (by simp [hm]) (by simp [hm])
          (by simp [hm])
    case h_11 h idx e hm =>
      split at hs
      · simp at hs
      · rename_i hr
        simp only [Option.some.injEq] at hs; subst hs
        exact .ok (.joinHasherDone h idx e hm (by simpa using hr)) (by simp [hm]) (by simp [hm])
          (by simp [hm])
    case h_12 e hm =>
      split at hs <;> (simp only [Option.some.injEq] at hs; subst hs)
      · rename_i hr
        exact .ok (.joinJanitorChkRun e hm hr) (by simp [hm]) (by simp [hm]) (by simp [hm])
      · rename_i hr
        exact .ok (.joinJanitorSkip e hm (by simpa using hr)) (by simp [hm]) (by simp [hm])
          (by simp [hm])
    case h_13 e hm =>
      split at hs
      · simp at hs
      · rename_i hr
        simp only [Option.some.injEq] at hs; subst hs
        exact .ok (.joinJanitorDone e hm (by simpa using hr)) (by simp [hm]) (by simp [hm])
          (by simp [hm])
    case h_14 => simp at hs

/-- one step of any thread, for every configuration -/
inductive StepG (cfg : Cfg) (s : State) : State → Prop
  | main {s' : State} (h : MainStepG cfg s s') : StepG cfg s s'
  | reader {s' : State} (h : ReaderStep cfg s s') : StepG cfg s s'
  | hasher {s' : State} (i : Nat) (h : HasherStep cfg s i s') : StepG cfg s s'
  | janitor {s' : State} (h : JanitorStep s s') : StepG cfg s s'

theorem StepG.of_step {cfg : Cfg} {s s' : State} {l : Label} (hA : InvA cfg s)
    (hs : step cfg s l = some s') : StepG cfg s s' := by
  unfold Pipeline.step at hs
  split at hs
  · split at hs
    · simp at hs
    · exact .main (.of_step hA hs)
  · split at hs
    · simp at hs
    · exact .reader (.of_step hs)
  · exact .hasher _ (.of_step hs)
  · exact .janitor (.of_step hs)

/-! ### induction along a run that starts in a reachable state -/

theorem Reachable.run {cfg : Cfg} {s s' : State} {ls : List Label} (h : Reachable cfg s)
    (hr : run cfg s ls = some s') : Reachable cfg s' := by
  obtain ⟨l0, h0⟩ := h
  refine ⟨l0 ++ ls, ?_⟩
  rw [run_append, h0]
  simpa using hr

/-- a property of a reachable state that every enabled step from a reachable state preserves holds
    at the end of every label sequence run from that state -/
theorem run_induction {cfg : Cfg} {P : State → Prop}
    (hstep : ∀ s s' l, Reachable cfg s → P s → step cfg s l = some s' → P s') :
    ∀ (ls : List Label) (s s' : State), Reachable cfg s → P s → run cfg s ls = some s' → P s' := by
  intro ls
  induction ls with
  | nil => intro s s' _ hp hr; simp [run] at hr; exact hr ▸ hp
  | cons l ls ih =>
    intro s s' hre hp hr
    simp only [run] at hr
    cases hst : step cfg s l with
    | none => simp [hst] at hr
    | some s₁ =>
      simp only [hst] at hr
      exact ih s₁ s' (hre.step hst) (hstep _ _ _ hre hp hst) hr

/-! ### terminal states -/

theorem result_of_terminal {s : State} (ht : terminal s = true) : ∃ r, s.main = .finished r := by
  unfold terminal at ht
  split at ht
  · exact ⟨_, ‹_›⟩
  · simp at ht

theorem terminal_of_result {s : State} {r : Result} (h : result? s = some r) :
    s.main = .finished r := by
  unfold result? at h
  split at h
  · simp only [Option.some.injEq] at h; subst h; assumption
  · simp at h

end Torf.Pipeline
