/-
  Lemmas about the conversion half (Torf.Model.Export): the only error the converters and the
  bencoder can produce is ValueError, hence every failure of convert()/dump(validate=False) is a
  MetainfoError.
-/
import Torf.Model.Validate
namespace Torf.Export
open Torf

theorem bind_err {α β : Type} {x : Except ErrKind α} {f : α → Except ErrKind β} {e : ErrKind}
    (h : x >>= f = .error e) : x = .error e ∨ ∃ a, x = .ok a ∧ f a = .error e := by
  cases x with
  | error e' => left; simpa [bind, Except.bind] using h
  | ok a => right; exact ⟨a, rfl, by simpa [bind, Except.bind] using h⟩

mutual
theorem encodeValue_err : ∀ (v : PyVal) (e : ErrKind), encodeValue v = .error e → e = .value
  | .bytes _, e, h => by simp [encodeValue, pure, Except.pure] at h
  | .int _, e, h => by simp [encodeValue, pure, Except.pure] at h
  | .str _, e, h => by simp [encodeValue, pure, Except.pure] at h
  | .float .nan, e, h => by simpa [encodeValue, throw, throwThe, MonadExceptOf.throw, eq_comm] using h
  | .float .pinf, e, h => by simpa [encodeValue, throw, throwThe, MonadExceptOf.throw, eq_comm] using h
  | .float .ninf, e, h => by simpa [encodeValue, throw, throwThe, MonadExceptOf.throw, eq_comm] using h
  | .float (.fin _ _ _), e, h => by simp [encodeValue, pure, Except.pure] at h
  | .bool _, e, h => by simp [encodeValue, pure, Except.pure] at h
  | .dict kvs, e, h => by
    simp only [encodeValue] at h
    split at h
    · rcases bind_err h with h1 | ⟨a, _, h2⟩
      · exact encodeItems_err kvs e h1
      · simp [pure, Except.pure] at h2
    · simpa [throw, throwThe, MonadExceptOf.throw, eq_comm] using h
  | .list l, e, h => by
    simp only [encodeValue] at h
    rcases bind_err h with h1 | ⟨a, _, h2⟩
    · exact encodeList_err l e h1
    · simp [pure, Except.pure] at h2
  | .tuple l, e, h => by
    simp only [encodeValue] at h
    rcases bind_err h with h1 | ⟨a, _, h2⟩
    · exact encodeList_err l e h1
    · simp [pure, Except.pure] at h2
  | .datetime (some _), e, h => by simp [encodeValue, pure, Except.pure] at h
  | .datetime none, e, h => by simpa [encodeValue, throw, throwThe, MonadExceptOf.throw, eq_comm] using h
  | .none, e, h => by simpa [encodeValue, throw, throwThe, MonadExceptOf.throw, eq_comm] using h
  | .other _, e, h => by simpa [encodeValue, throw, throwThe, MonadExceptOf.throw, eq_comm] using h
theorem encodeList_err : ∀ (l : List PyVal) (e : ErrKind), encodeList l = .error e → e = .value
  | [], e, h => by simp [encodeList, pure, Except.pure] at h
  | v :: r, e, h => by
    simp only [encodeList] at h
    rcases bind_err h with h1 | ⟨a, _, h2⟩
    · exact encodeValue_err v e h1
    · rcases bind_err h2 with h3 | ⟨b, _, h4⟩
      · exact encodeList_err r e h3
      · simp [pure, Except.pure] at h4
theorem encodeItems_err : ∀ (l : List (PyVal × PyVal)) (e : ErrKind), encodeItems l = .error e → e = .value
  | [], e, h => by simp [encodeItems, pure, Except.pure] at h
  | (k, v) :: r, e, h => by
    simp only [encodeItems] at h
    rcases bind_err h with h1 | ⟨a, _, h2⟩
    · exact encodeValue_err v e h1
    · rcases bind_err h2 with h3 | ⟨b, _, h4⟩
      · exact encodeItems_err r e h3
      · split at h4
        · simp [pure, Except.pure] at h4
        · simpa [throw, throwThe, MonadExceptOf.throw, eq_comm] using h4
end

attribute [local irreducible] intTooBig in
mutual
theorem ser_err : ∀ (v : BVal) (e : ErrKind), ser v = .error e → e = .value
  | .int i, e, h => by
    rw [ser] at h
    cases hb : intTooBig i
    · rw [hb] at h; exact absurd h (by simp [pure, Except.pure])
    · rw [hb] at h
      have : (Except.error ErrKind.value : Except ErrKind Bytes) = .error e := h
      injection this with h'; exact h'.symm
  | .bytes _, e, h => by simp [ser, pure, Except.pure] at h
  | .list l, e, h => by
    simp only [ser] at h
    rcases bind_err h with h1 | ⟨a, _, h2⟩
    · exact serList_err l e h1
    · simp [pure, Except.pure] at h2
  | .dict kvs, e, h => by
    simp only [ser] at h
    rcases bind_err h with h1 | ⟨a, _, h2⟩
    · exact serItems_err kvs e h1
    · simp [pure, Except.pure] at h2
theorem serList_err : ∀ (l : List BVal) (e : ErrKind), serList l = .error e → e = .value
  | [], e, h => by simp [serList, pure, Except.pure] at h
  | v :: r, e, h => by
    simp only [serList] at h
    rcases bind_err h with h1 | ⟨a, _, h2⟩
    · exact ser_err v e h1
    · rcases bind_err h2 with h3 | ⟨b, _, h4⟩
      · exact serList_err r e h3
      · simp [pure, Except.pure] at h4
theorem serItems_err : ∀ (l : List (Bytes × BVal)) (e : ErrKind), serItems l = .error e → e = .value
  | [], e, h => by simp [serItems, pure, Except.pure] at h
  | (k, v) :: r, e, h => by
    simp only [serItems] at h
    rcases bind_err h with h1 | ⟨a, _, h2⟩
    · exact ser_err v e h1
    · rcases bind_err h2 with h3 | ⟨b, _, h4⟩
      · exact serItems_err r e h3
      · simp [pure, Except.pure] at h4
end

theorem valueToMetainfo_err {α : Type} (x : Except ErrKind α) (hx : ∀ e, x = .error e → e = .value)
    (e : ErrKind) (h : valueToMetainfo x = .error e) : e = .metainfo := by
  cases x with
  | ok a => simp [valueToMetainfo] at h
  | error e' =>
    have := hx e' rfl
    subst this
    simpa [valueToMetainfo, eq_comm] using h

/-- `bencode.encode(encode_dict(d))` wrapped in `except ValueError` only raises MetainfoError -/
theorem convertSer_err (kvs : List (PyVal × PyVal)) (e : ErrKind)
    (h : valueToMetainfo (do ser (← encodeDict kvs)) = .error e) : e = .metainfo := by
  apply valueToMetainfo_err _ _ e h
  intro e' h'
  rcases bind_err h' with h1 | ⟨a, _, h2⟩
  · exact encodeValue_err _ e' h1
  · exact ser_err a e' h2

end Torf.Export
