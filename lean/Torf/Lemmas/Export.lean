/-
  Lemmas about the conversion half (Torf.Model.Export): the only error the converters and the
  bencoder can produce is ValueError, hence every failure of convert()/dump(validate=False) is a
  MetainfoError.
-/
import Torf.Model.Validate
namespace Torf.Export
open Torf

theorem bind_err {α β : Type} {x : Except ErrKind α} {f : α → Except ErrKind β} {e : ErrKind}
    (h : x >>= f = .error e) : x = .error e ∨ ∃ a, x = .ok a ∧ f a = .error e := by
  cases x with
  | error e' => left; simpa [bind, Except.bind] using h
  | ok a => right; exact ⟨a, rfl, by simpa [bind, Except.bind] using h⟩

theorem bind_ok {α β : Type} {x : Except ErrKind α} {f : α → Except ErrKind β} {b : β}
    (h : x >>= f = .ok b) : ∃ a, x = .ok a ∧ f a = .ok b := by
  cases x with
  | error e' => simp [bind, Except.bind] at h
  | ok a => exact ⟨a, rfl, by simpa [bind, Except.bind] using h⟩

theorem encodeValue_err (v : PyVal) (e : ErrKind) (h : encodeValue v = .error e) : e = .value := by
  unfold encodeValue at h
  split at h
  · exact absurd h (by simp)
  · simpa [eq_comm] using h

theorem encodeValue_ok {v : PyVal} {u : BVal} (h : encodeValue v = .ok u) :
    Codec.encodeValue v = .ok u := by
  unfold encodeValue at h
  split at h
  · rename_i b hb; simp only [Except.ok.injEq] at h; rw [hb, h]
  · exact absurd h (by simp)

theorem ser_err (v : BVal) (e : ErrKind) (h : ser v = .error e) : e = .value := by
  unfold ser at h
  split at h
  · exact absurd h (by simp)
  · simpa [eq_comm] using h

theorem ser_ok {v : BVal} {bs : Bytes} (h : ser v = .ok bs) :
    Bencode.serOk v = true ∧ bs = Bencode.ser v := by
  unfold ser at h
  split at h
  · rename_i hs; simp only [Except.ok.injEq] at h; exact ⟨hs, h.symm⟩
  · exact absurd h (by simp)

theorem valueToMetainfo_err {α : Type} (x : Except ErrKind α) (hx : ∀ e, x = .error e → e = .value)
    (e : ErrKind) (h : valueToMetainfo x = .error e) : e = .metainfo := by
  cases x with
  | ok a => simp [valueToMetainfo] at h
  | error e' =>
    have := hx e' rfl
    subst this
    simpa [valueToMetainfo, eq_comm] using h

theorem valueToMetainfo_ok {α : Type} {x : Except ErrKind α} {a : α}
    (h : valueToMetainfo x = .ok a) : x = .ok a := by
  unfold valueToMetainfo at h
  split at h
  · exact absurd h (by simp)
  · exact h

/-- `bencode.encode(encode_dict(d))` wrapped in `except ValueError` only raises MetainfoError -/
theorem convertSer_err (kvs : List (PyVal × PyVal)) (e : ErrKind)
    (h : valueToMetainfo (do ser (← encodeDict kvs)) = .error e) : e = .metainfo := by
  apply valueToMetainfo_err _ _ e h
  intro e' h'
  rcases bind_err h' with h1 | ⟨a, _, h2⟩
  · exact encodeValue_err _ e' h1
  · exact ser_err a e' h2

end Torf.Export
