/-
  `validate` and the file system: the reason why `os.stat` failed is invisible to `validate()`
  (every failure is "does not exist"), and what a successful validation with a content path
  establishes about the world.
-/
import Torf.Lemmas.ValidateTop
namespace Torf.Validate
open Torf Torf.Export

theorem Stat.blur_isFile (st : Stat) : st.blur.isFile = st.isFile := by cases st <;> rfl
theorem Stat.blur_isDir (st : Stat) : st.blur.isDir = st.isDir := by cases st <;> rfl
theorem Stat.blur_exists (st : Stat) : st.blur.exists = st.exists := by cases st <;> rfl
theorem Stat.blur_blur (st : Stat) : st.blur.blur = st.blur := by cases st <;> rfl

/-- `exists` → `isfile` → `real_size` cannot tell one failure from another -/
theorem statSize_blur (st : Stat) : statSize st.blur = statSize st := by
  cases st <;> rfl

theorem checkRootFile_blur (fs : FsOracle) (len : Int) :
    checkRootFile fs.blur len = checkRootFile fs len := by
  unfold checkRootFile FsOracle.blur
  cases fs.root <;> rfl

theorem checkFileOnDisk_blur (fs : FsOracle) (i : Nat) (x : PyVal) :
    checkFileOnDisk fs.blur i x = checkFileOnDisk fs i x := by
  unfold checkFileOnDisk FsOracle.blur
  simp only [statSize_blur]

theorem forEnum_congr {f g : Nat → PyVal → Except ErrKind Unit} (h : ∀ i x, f i x = g i x) :
    ∀ (n : Nat) (l : List PyVal), forEnum f n l = forEnum g n l
  | _, [] => rfl
  | n, x :: r => by simp only [forEnum, h, forEnum_congr h (n + 1) r]

variable (urlOk : Bytes → Bool)

theorem checkSingle_blur (fs : FsOracle) (md info : PyVal) (plen : Nat) :
    checkSingle fs.blur md info plen = checkSingle fs md info plen := by
  unfold checkSingle
  simp only [checkRootFile_blur]
  rfl

theorem checkMulti_blur (fs : FsOracle) (md info : PyVal) (plen : Nat) :
    checkMulti fs.blur md info plen = checkMulti fs md info plen := by
  unfold checkMulti
  have h : forEnum (checkFileOnDisk fs.blur) = forEnum (checkFileOnDisk fs) := by
    funext n l; exact forEnum_congr (checkFileOnDisk_blur fs) n l
  simp only [h]
  simp only [FsOracle.blur, Stat.blur_isDir]

/-- **The reason of a failed `stat` is invisible**: `validate()` in a world where some `stat`
    fails with errno `e` (ENOENT, ENOTDIR, ELOOP, ENAMETOOLONG, EACCES, EIO, … any number) or where
    the path never reaches the OS (embedded null byte) does exactly what it does in the world
    where those paths simply do not exist. -/
theorem validate_blur (fs : FsOracle) (md0 : Items) :
    validate urlOk fs.blur md0 = validate urlOk fs md0 := by
  unfold validate
  simp only [checkSingle_blur, checkMulti_blur]

/-! ### what a successful validation with a content path establishes about the world -/

section
variable (urlOk : Bytes → Bool) (fs : FsOracle)

/-- a listed file that passes the cross-check is, for the OS, a regular file of the listed size -/
theorem checkFileOnDisk_ok {x : PyVal} {i : Nat} (hx : EntryFacts x)
    (h : checkFileOnDisk fs i x = .ok ()) :
    fs.fileStat i = .file (fileLen x).toNat ∧ entryJoinable x = true := by
  have hfl := hx.fileLen
  obtain ⟨en, l, len, p, comps, rfl, hl, _, _, hnum, hlen0, hp, hpi, hcomps, _⟩ := hx
  obtain ⟨comps', hcomps', hie⟩ := iterE_of_isIterable hpi
  have hlen : fileLen (.dict en) = len := by simp [fileLen, hl, hnum]
  unfold checkFileOnDisk at h
  simp only [bind, Except.bind, getE_ok (getItem_dict_s_some hp), hie] at h
  by_cases hjo : joinable comps' = true
  · simp only [hjo, Bool.not_true, Bool.false_eq_true, if_false, pure, Except.pure] at h
    refine ⟨?_, by simpa [entryJoinable, hp, hcomps'] using hjo⟩
    rcases statSize_cases (fs.fileStat i) with ⟨n, hn, hs⟩ | ⟨_, hs⟩
    · rw [hs] at h
      simp only [getE_ok (getItem_dict_s_some hl), hnum] at h
      split at h
      · exact absurd h (by simp [throw, throwThe, MonadExceptOf.throw])
      · rename_i hne
        have : (n : Int) = len := by simpa using hne
        rw [hn, hlen, ← this]; simp
    · rw [hs] at h; exact absurd h (by simp)
  · simp [hjo, throw, throwThe, MonadExceptOf.throw] at h

/-- the multi-file branch with a content path: the root is a directory and every listed path is a
    regular file of the listed size -/
theorem checkMulti_ok_fs {items info : Items} (cf : CommonFacts urlOk items info) {plen : Nat}
    (hplen : plen / 20 ≠ 0) (hp : fs.hasPath = true)
    (h : checkMulti fs (.dict items) (.dict info) plen = .ok ()) :
    fs.root.isDir = true ∧
    ∀ fl files, PyVal.lookupStr "files" info = some fl → pyIter fl = some files →
      ∀ j x, files[j]? = some x → fs.fileStat j = .file (fileLen x).toNat ∧ entryJoinable x = true := by
  have hnd := checkMulti_not_dict urlOk fs cf hplen h
  obtain ⟨fl, files, pv, hfl, hfli, hfiles, hfacts, hpv, hc⟩ :=
    (checkMulti_cases urlOk fs cf plen hnd _ rfl).1 h
  obtain ⟨files', hfiles', hie⟩ := iterE_of_isIterable hfli
  have : files' = files := by rw [hfiles] at hfiles'; exact (Option.some.inj hfiles').symm
  subst this
  unfold checkMulti at h
  obtain ⟨_, _, h⟩ := bind_ok h
  simp only [bind, Except.bind, getE_ok (getItem_dict_s_some hfl), hie] at h
  cases h2 : forEnum (checkFile (.dict items)) 0 files' with
  | error e => rw [h2] at h; exact absurd h (by simp)
  | ok _ =>
    rw [h2] at h
    simp only [sumLengths_ok files' 0 hfacts, Int.zero_add, getE_ok (getItem_dict_s_some hpv), hc,
      ne_eq, not_true_eq_false, if_false, pure, Except.pure, hp, if_true] at h
    cases hd : fs.root.isDir with
    | false => simp [hd, throw, throwThe, MonadExceptOf.throw] at h
    | true =>
      simp only [hd, Bool.not_true, Bool.false_eq_true, if_false] at h
      refine ⟨rfl, fun fl2 files2 hfl2 hfiles2 j x hj => ?_⟩
      have e1 : fl2 = fl := by rw [hfl] at hfl2; exact (Option.some.inj hfl2).symm
      subst e1
      have e2 : files2 = files' := by rw [hfiles] at hfiles2; exact (Option.some.inj hfiles2).symm
      subst e2
      have := forEnum_ok h j x hj
      rw [Nat.zero_add] at this
      exact checkFileOnDisk_ok fs (hfacts x (List.mem_of_getElem? hj)) this

/-- the single-file branch with a content path: the root is a regular file of the listed size -/
theorem checkSingle_ok_fs {items info : Items} (cf : CommonFacts urlOk items info) {plen : Nat}
    (hp : fs.hasPath = true) (h : checkSingle fs (.dict items) (.dict info) plen = .ok ()) :
    ∀ l len, PyVal.lookupStr "length" info = some l → numVal? l = some len →
      fs.root = .file len.toNat ∧ 0 ≤ len := by
  obtain ⟨l, len, pv, hl, _, _, hnum, hlen0, hpv, hc⟩ := (checkSingle_cases urlOk fs cf plen _ rfl).1 h
  intro l2 len2 hl2 hnum2
  have e1 : l2 = l := by rw [hl] at hl2; exact (Option.some.inj hl2).symm
  subst e1
  have e2 : len2 = len := by rw [hnum] at hnum2; exact (Option.some.inj hnum2).symm
  subst e2
  unfold checkSingle at h
  obtain ⟨_, _, h⟩ := bind_ok h
  obtain ⟨_, _, h⟩ := bind_ok h
  simp only [bind, Except.bind, getE_ok (getItem_dict_s_some hpv), getE_ok (getItem_dict_s_some hl2),
    hnum, hc, ne_eq, not_true_eq_false, if_false, pure, Except.pure, hp, if_true] at h
  rcases checkRootFile_cases fs len2 with ⟨_, hr, h0⟩ | hk
  · exact ⟨hr, h0⟩
  · rw [hk] at h; exact absurd h (by simp)

/-- the world as a successful validation with a content path has seen it -/
structure FsAgrees (md0 : Items) : Prop where
  /-- single-file: the content path is a regular file of the listed size -/
  single : ∀ info l len, PyVal.lookupStr "info" md0 = some (.dict info) →
    PyVal.lookupStr "length" info = some l → numVal? l = some len →
    fs.root = .file len.toNat ∧ 0 ≤ len
  /-- multi-file: the content path is a directory and every listed path is a regular file of the
      listed size (and a path `os.path.join` accepts) -/
  multi : ∀ info fl files, PyVal.lookupStr "info" md0 = some (.dict info) →
    PyVal.lookupStr "files" info = some fl → pyIter fl = some files →
    fs.root.isDir = true ∧
    ∀ j x, files[j]? = some x → fs.fileStat j = .file (fileLen x).toNat ∧ entryJoinable x = true

theorem validate_ok_fs {md0 : Items} (h : validate urlOk fs md0 = .ok ()) (hp : fs.hasPath = true) :
    FsAgrees fs md0 := by
  obtain ⟨vf, hen⟩ := validate_ok urlOk fs h
  obtain ⟨info, b, cf, af, hb, hz, h20, hbranch⟩ := vf.ex
  unfold validate at h
  simp only [hen, bind, Except.bind, getE_ok (getItem_dict_s_some cf.hinfo)] at h
  cases h1 : checkCommon urlOk (.dict md0) with
  | error e => rw [h1] at h; exact absurd h (by simp)
  | ok _ =>
  rw [h1] at h
  cases h2 : checkAnnounceList urlOk (.dict md0) md0 with
  | error e => rw [h2] at h; exact absurd h (by simp)
  | ok _ =>
  rw [h2] at h
  have e1 : (b.length == 0) = false := by simp [hz]
  have e2 : (b.length % 20 != 0) = false := by simp [h20]
  have hp20 : b.length / 20 ≠ 0 := by omega
  simp only [getE_ok (getItem_dict_s_some hb), lenE, pyLen, pure, Except.pure, inE_dict, e1, e2,
    Bool.false_eq_true, if_false] at h
  rcases hbranch with ⟨hnf, sf⟩ | ⟨hnl, mf, _⟩
  · obtain ⟨l, len, pv, hl, _⟩ := sf
    simp only [hl, hnf, Option.isSome_some, Option.isSome_none, Bool.and_false, Bool.false_eq_true,
      if_false, if_true] at h
    have hs := checkSingle_ok_fs urlOk fs cf hp h
    refine ⟨fun info2 l2 len2 hi2 => ?_, fun info2 fl files hi2 hf2 => ?_⟩
    · have : info2 = info := by
        have := cf.hinfo; rw [hi2] at this; simpa using this
      subst this; exact hs l2 len2
    · have : info2 = info := by
        have := cf.hinfo; rw [hi2] at this; simpa using this
      subst this; rw [hnf] at hf2; exact absurd hf2 (by simp)
  · obtain ⟨fl, files, pv, hfl, _⟩ := mf
    simp only [hfl, hnl, Option.isSome_some, Option.isSome_none, Bool.false_and, Bool.false_eq_true,
      if_false, if_true] at h
    have hm := checkMulti_ok_fs urlOk fs cf hp20 hp h
    refine ⟨fun info2 l2 len2 hi2 hl2 => ?_, fun info2 fl2 files2 hi2 => ?_⟩
    · have : info2 = info := by
        have := cf.hinfo; rw [hi2] at this; simpa using this
      subst this; rw [hnl] at hl2; exact absurd hl2 (by simp)
    · have : info2 = info := by
        have := cf.hinfo; rw [hi2] at this; simpa using this
      subst this
      intro hf2 hfiles2
      exact ⟨hm.1, hm.2 fl2 files2 hf2 hfiles2⟩

end

end Torf.Validate
